import GdVerif.Lemmas.ValveWhole
import GdVerif.Props.C08
/-
  The whole Valve query against a conforming server, with challenge rounds and split replies.

  `Lemmas/ValveWhole.lean` chains the section parsers through the request machinery for exchanges in which every
  reply is one datagram and no challenge is issued.  This file removes both restrictions: each of the three requests
  may be answered after any number of challenge rounds, and the final reply may arrive as one datagram or cut into
  split-packet fragments (Source or GoldSrc layout, any cut points, any arrival order of the fragments — the order
  independence is C08's `C08_valve_any_order`).

  A small success logic `Runs s f a q q'` ("from any state in which socket `s` is open, fault-free and has `q`
  queued, `f` succeeds with `a` and leaves `q'` queued") composes the steps.
-/
namespace Gd.Valve
open Gd Gd.Valve.Spec

/-! ### success logic over the socket's queue -/

/-- the state of socket `s`: no send fault scripted, the socket is open, `q` is what remains queued on it -/
structure At (s : Sock) (w : Net) (q : List Delivery) : Prop where
  nofault : w.faults = []
  isOpen : s.id < w.conns.length
  queue : w.conns.getD s.id [] = q

/-- `f` succeeds with `a`, consuming the queue from `q` to `q'` -/
def Runs (s : Sock) (f : Q α) (a : α) (q q' : List Delivery) : Prop :=
  ∀ w, At s w q → ∃ w', f w = (.ok a, w') ∧ At s w' q'

theorem Runs.pure (s : Sock) (a : α) (q : List Delivery) : Runs s (pure a : Q α) a q q :=
  fun w h => ⟨w, rfl, h⟩

theorem Runs.bind {s : Sock} {f : Q α} {g : α → Q β} {a : α} {b : β} {q q' q'' : List Delivery}
    (hf : Runs s f a q q') (hg : Runs s (g a) b q' q'') : Runs s (f >>= g) b q q'' := by
  intro w h
  obtain ⟨w1, h1, hat1⟩ := hf w h
  obtain ⟨w2, h2, hat2⟩ := hg w1 hat1
  exact ⟨w2, by rw [Q.bind_apply, h1]; exact h2, hat2⟩

theorem Runs.lift (s : Sock) (a : α) (q : List Delivery) : Runs s (Q.lift (.ok a)) a q q :=
  fun w h => ⟨w, rfl, h⟩

theorem Runs.parse (s : Sock) {p : Par α} {data : Bytes} {a : α} (hp : p.run data = .ok a) (q : List Delivery) :
    Runs s (parse p data) a q q :=
  fun w h => ⟨w, by rw [parse_apply, hp], h⟩

theorem Runs.congr {s : Sock} {f g : Q α} {a : α} {q q' : List Delivery} (h : Runs s f a q q') (hfg : g = f) :
    Runs s g a q q' := hfg ▸ h

theorem Runs.retry {s : Sock} {f : Q α} {a : α} {q q' : List Delivery} (h : Runs s f a q q') (r : Nat) :
    Runs s (retryOnTimeout r f) a q q' := by
  intro w hw
  obtain ⟨w', h1, h2⟩ := h w hw
  exact ⟨w', retryOnTimeout_ok r h1, h2⟩

theorem Runs.maybeGather {s : Sock} {f : Q α} {a : α} {q q' : List Delivery} (h : Runs s f a q q') (t : Toggle)
    (ht : t ≠ .skip) : Runs s (maybeGather t f) (some a) q q' := by
  intro w hw
  obtain ⟨w', h1, h2⟩ := h w hw
  refine ⟨w', ?_, h2⟩
  cases t with
  | skip => exact absurd rfl ht
  | try_ => simp only [Gd.maybeGather, h1]
  | enforce => simp only [Gd.maybeGather]; rw [Q.bind_apply, h1]; rfl

theorem runs_send (s : Sock) (data : Bytes) (q : List Delivery) : Runs s (send s data) () q q := by
  intro w h
  refine ⟨{ w with log := w.log ++ [.send s.id s.port data false] }, ?_, ⟨h.nofault, h.isOpen, h.queue⟩⟩
  simp [send, h.nofault]

theorem runs_recv (s : Sock) (hudp : s.tcp = false) (d : Bytes) (hl : d.length ≤ PACKET_SIZE) (q : List Delivery) :
    Runs s (recv s (some PACKET_SIZE)) d (.data d :: q) q := by
  intro w h
  refine ⟨{ w with conns := setAt w.conns s.id q, log := w.log ++ [.recv s.id (some PACKET_SIZE) (some d.length)] },
    ?_, ⟨h.nofault, by simpa [setAt_length] using h.isOpen, by rw [getD_setAt]; simp [h.isOpen]⟩⟩
  simp only [recv, h.queue, hudp, Bool.false_eq_true, ↓reduceIte, Option.getD_some, List.take_of_length_le hl]

/-! ### `receive`: one datagram -/

theorem afterFirst_single (ext : Ext) (s : Sock) (engine : Engine) (protocol : Nat) (kind : UInt8) (body : Bytes) :
    afterFirst ext s engine protocol ([0xFF, 0xFF, 0xFF, 0xFF] ++ [kind] ++ body)
      = Q.lift (.ok ⟨0xFFFFFFFF, kind.toNat, body⟩) := by
  funext w
  simp only [afterFirst, parse, run_readU8_header, run_packetFromBuffer]
  rfl

/-- `receive` on an unsplit datagram `FFFFFFFF kind body` that fits the buffer -/
theorem runs_receive_single (ext : Ext) (s : Sock) (hudp : s.tcp = false) (engine : Engine) (protocol : Nat)
    (kind : Nat) (hkind : kind < 256) (body : Bytes) (hl : (reply kind body).length ≤ PACKET_SIZE) (q : List Delivery) :
    Runs s (receive ext s engine protocol) ⟨0xFFFFFFFF, kind, body⟩ (.data (reply kind body) :: q) q := by
  rw [receive_eq]
  refine Runs.bind (runs_recv s hudp _ hl q) ?_
  have h := afterFirst_single ext s engine protocol (UInt8.ofNat kind) body
  rw [show (UInt8.ofNat kind).toNat = kind by simp [UInt8.toNat_ofNat', Nat.mod_eq_of_lt hkind]] at h
  exact (Runs.lift s _ q).congr h

/-! ### split packets: what the client reads from one fragment -/

theorem perm_map_inv {α β : Type} (f : α → β) {l m : List β} (h : l.Perm m) :
    ∀ E : List α, m = E.map f → ∃ E' : List α, E'.Perm E ∧ l = E'.map f := by
  induction h with
  | nil =>
    intro E hE
    cases E with
    | nil => exact ⟨[], List.Perm.refl _, rfl⟩
    | cons e E1 => simp at hE
  | cons x _ ih =>
    intro E hE
    cases E with
    | nil => simp at hE
    | cons e E1 =>
      simp only [List.map_cons, List.cons.injEq] at hE
      obtain ⟨E', hp, h'⟩ := ih E1 hE.2
      exact ⟨e :: E', hp.cons e, by simp [hE.1, h']⟩
  | swap x y l =>
    intro E hE
    match E, hE with
    | e1 :: e2 :: E1, hE =>
      simp only [List.map_cons, List.cons.injEq] at hE
      exact ⟨e2 :: e1 :: E1, List.Perm.swap e1 e2 E1, by simp [hE.1, hE.2.1, hE.2.2]⟩
    | [_], hE => simp at hE
    | [], hE => simp at hE
  | trans _ _ ih1 ih2 =>
    intro E hE
    obtain ⟨E1, hp1, h1⟩ := ih2 E hE
    obtain ⟨E2, hp2, h2⟩ := ih1 E1 h1
    exact ⟨E2, hp2.trans hp1, h2⟩

theorem decodes_splitHeader : Decodes (readUnsigned .little 4) splitHeader 0xFFFFFFFE := by
  simpa [natLE, splitHeader] using decodes_le 4 0xFFFFFFFE (by decide)

/-- the size field of the Source split header: absent for protocol 7 + app 240 -/
theorem decodes_splitSize (engine : Engine) (protocol : Nat) :
    Decodes (if protocol == 7 && engine == Engine.new 240 then pure 1248 else readUnsigned .little 2 : Par Nat)
      (if withSize engine protocol then le 2 1248 else []) 1248 := by
  unfold withSize
  cases hw : (protocol == 7 && engine == Engine.new 240)
  · simpa [le] using decodes_le 2 1248 (by decide)
  · simpa using Decodes.pure (1248 : Nat)

/-- a Source split fragment of an uncompressed reply (bit 31 of the id clear) -/
theorem run_splitPacketNew_source (ids : Option (Nat × Option Nat)) (protocol id total number : Nat) (chunk : Bytes)
    (hid : id < 2 ^ 31) (ht : total < 256) (hn : number < 256) :
    (splitPacketNew (.source ids) protocol).run
        (sourceFragment (withSize (.source ids) protocol) id total number chunk)
      = .ok ⟨0xFFFFFFFE, id, total, number, 1248, none, chunk⟩ := by
  have hc : ((id >>> 31) &&& 1 == 1) = false := by
    have : id >>> 31 = 0 := by rw [Nat.shiftRight_eq_div_pow]; exact Nat.div_eq_of_lt hid
    simp [this]
  have h : DecodesEnd (splitPacketNew (.source ids) protocol)
      (sourceFragment (withSize (.source ids) protocol) id total number chunk)
      ⟨0xFFFFFFFE, id, total, number, 1248, none, chunk⟩ := by
    unfold splitPacketNew sourceFragment
    simp only [List.append_assoc, u8]
    refine DecodesEnd.bind decodes_splitHeader ?_ rfl
    refine DecodesEnd.bind (decodes_le 4 id (by omega)) ?_ rfl
    refine DecodesEnd.bind (decodes_u8 total ht) ?_ rfl
    refine DecodesEnd.bind (decodes_u8 number hn) ?_ rfl
    refine DecodesEnd.bind (decodes_splitSize (.source ids) protocol) ?_ rfl
    simp only [hc, Bool.false_and]
    refine DecodesEnd.bind (decodes_readIf_none _) ?_ (List.nil_append _).symm
    exact DecodesEnd.bind_pure (decodesEnd_remainingBytes chunk) (fun _ => rfl)
  exact h.run

/-- a GoldSrc split fragment: number in the upper, count in the lower four bits of one byte -/
theorem run_splitPacketNew_gold (force : Bool) (protocol id total number : Nat) (chunk : Bytes)
    (hid : id < 2 ^ 32) (ht : total < 16) (hn : number < 16) :
    (splitPacketNew (.goldSrc force) protocol).run (goldFragment id total number chunk)
      = .ok ⟨0xFFFFFFFE, id, total, number, 0, none, chunk⟩ := by
  have hlu : lowerUpper (number * 16 + total) = (total, number) := by
    unfold lowerUpper
    congr 1 <;> omega
  have h : DecodesEnd (splitPacketNew (.goldSrc force) protocol) (goldFragment id total number chunk)
      ⟨0xFFFFFFFE, id, total, number, 0, none, chunk⟩ := by
    unfold splitPacketNew goldFragment
    simp only [List.append_assoc, u8]
    refine DecodesEnd.bind decodes_splitHeader ?_ rfl
    refine DecodesEnd.bind (decodes_le 4 id (by omega)) ?_ rfl
    refine DecodesEnd.bind (decodes_u8 (number * 16 + total) (by omega)) ?_ rfl
    simp only [hlu]
    exact DecodesEnd.bind_pure (decodesEnd_remainingBytes chunk) (fun _ => rfl)
  exact h.run

/-- a Source split fragment of a bzip2-compressed reply (bit 31 of the id set): fragment 0 announces the
uncompressed size and the CRC-32 before its chunk -/
theorem run_splitPacketNew_bz (ids : Option (Nat × Option Nat)) (protocol id total number size crc : Nat)
    (chunk : Bytes) (hid : 2 ^ 31 ≤ id) (hid2 : id < 2 ^ 32) (ht : total < 256) (hn : number < 256)
    (hs : size < 2 ^ 32) (hcrc : crc < 2 ^ 32) :
    (splitPacketNew (.source ids) protocol).run
        (sourceFragment (withSize (.source ids) protocol) id total number
          ((if number == 0 then le 4 size ++ le 4 crc else []) ++ chunk))
      = .ok ⟨0xFFFFFFFE, id, total, number, 1248, if number == 0 then some (size, crc) else none, chunk⟩ := by
  have hc : ((id >>> 31) &&& 1 == 1) = true := by
    have : id >>> 31 = 1 := by rw [Nat.shiftRight_eq_div_pow]; omega
    simp [this]
  have h : DecodesEnd (splitPacketNew (.source ids) protocol)
      (sourceFragment (withSize (.source ids) protocol) id total number
        ((if number == 0 then le 4 size ++ le 4 crc else []) ++ chunk))
      ⟨0xFFFFFFFE, id, total, number, 1248, if number == 0 then some (size, crc) else none, chunk⟩ := by
    unfold splitPacketNew sourceFragment
    simp only [List.append_assoc, u8]
    refine DecodesEnd.bind decodes_splitHeader ?_ rfl
    refine DecodesEnd.bind (decodes_le 4 id (by omega)) ?_ rfl
    refine DecodesEnd.bind (decodes_u8 total ht) ?_ rfl
    refine DecodesEnd.bind (decodes_u8 number hn) ?_ rfl
    refine DecodesEnd.bind (decodes_splitSize (.source ids) protocol) ?_ rfl
    simp only [hc, Bool.true_and]
    have hopt : Decodes (readIf (number == 0) (do
          let a ← readUnsigned .little 4
          let b ← readUnsigned .little 4
          pure (a, b)))
        (if number == 0 then le 4 size ++ le 4 crc else []) (if number == 0 then some (size, crc) else none) := by
      cases hz : (number == 0)
      · simpa using decodes_readIf_none _
      · simp only [↓reduceIte]
        exact decodes_readIf_some (Decodes.bind (decodes_le 4 size (by omega))
          (Decodes.bind_last (decodes_le 4 crc (by omega)) (Decodes.pure _)))
    refine DecodesEnd.bind hopt ?_ rfl
    exact DecodesEnd.bind_pure (decodesEnd_remainingBytes chunk) (fun _ => rfl)
  exact h.run

/-- `get_payload` of a compressed reply, when the decoder inverts the server's compressor and the checksum agrees -/
theorem getPayload_bz (ext : Ext) (z packet : Bytes) (crc : Nat) (h1 : ext.bunzip z = some packet)
    (h2 : ext.crc32 packet = crc) (h3 : packet.length ≤ maxDecompressedSize) :
    getPayload ext (some (packet.length, crc)) z = .ok packet := by
  have ht : packet.take (min packet.length maxDecompressedSize + 1) = packet :=
    List.take_of_length_le (by rw [Nat.min_eq_left h3]; omega)
  simp only [getPayload, h1, ht, h2, bne_self_eq_false, Bool.or_self, Bool.false_eq_true, ↓reduceIte]

theorem run_readU8_split (rest : Bytes) : readU8.run (splitHeader ++ rest) = .ok 0xFE := by
  have := (decodes_readU8 0xFE).run_append ([0xFF, 0xFF, 0xFF] ++ rest)
  simpa [splitHeader] using this

/-! ### reassembly of the fragments of one reply, any arrival order -/

theorem chunks_flatten (sizes : List Nat) (bs : Bytes) : (chunks sizes bs).flatten = bs := by
  induction sizes generalizing bs with
  | nil => simp [chunks]
  | cons n r ih => simp [chunks, ih]

theorem chunks_length (sizes : List Nat) (bs : Bytes) : (chunks sizes bs).length = sizes.length + 1 := by
  induction sizes generalizing bs with
  | nil => simp [chunks]
  | cons n r ih => simp [chunks, ih]

theorem enumFrom_bounds {α : Type} (l : List α) (i : Nat) : ∀ e ∈ Spec.enumFrom i l, i ≤ e.1 ∧ e.1 < i + l.length := by
  induction l generalizing i with
  | nil => intro e he; cases he
  | cons x r ih =>
    intro e he
    simp only [Spec.enumFrom, List.mem_cons] at he
    rcases he with rfl | he
    · simp
    · have := ih (i + 1) e he
      simp only [List.length_cons]
      omega

theorem enumFrom_length {α : Type} (l : List α) (i : Nat) : (Spec.enumFrom i l).length = l.length := by
  induction l generalizing i with
  | nil => rfl
  | cons x r ih => simp [Spec.enumFrom, ih]

/-- fragments numbered 0, 1, … of one response (same header, id, announced total), whatever the order they arrived
in, reassemble to the concatenation of their payloads, read as fragment 0 says (compressed or not) -/
theorem assemble_enum (ext : Ext) (mk : Nat → Bytes → SplitPacket) (hdr id total : Nat)
    (hnum : ∀ i ch, (mk i ch).number = i) (hh : ∀ i ch, (mk i ch).header = hdr) (hid : ∀ i ch, (mk i ch).id = id)
    (ht : ∀ i ch, (mk i ch).total = total) (hp : ∀ i ch, (mk i ch).payload = ch)
    (c : Bytes) (cs : List Bytes) (frs : List SplitPacket)
    (h : frs.Perm ((Spec.enumFrom 0 (c :: cs)).map fun p => mk p.1 p.2)) :
    assemble ext (sortChunks frs) = getPayload ext (mk 0 c).decompressed (c :: cs).flatten := by
  rw [C08_valve_any_order ext _ _ h]
  obtain ⟨hs, hn, _⟩ := enumFrom_sorted mk hnum (c :: cs) 0
  unfold sortChunks
  rw [List.mergeSort_of_pairwise hs]
  have hall : ∀ (i : Nat) (l : List Bytes),
      ((Spec.enumFrom i l).map fun p => mk p.1 p.2).all (sameResponse (mk 0 c)) = true := by
    intro i l
    induction l generalizing i with
    | nil => rfl
    | cons x r ih => simp [Spec.enumFrom, sameResponse, hh, hid, ht, ih]
  have hpay : ∀ (i : Nat) (l : List Bytes), (((Spec.enumFrom i l).map fun p => mk p.1 p.2).map (·.payload)) = l := by
    intro i l
    induction l generalizing i with
    | nil => rfl
    | cons x r ih => simp [Spec.enumFrom, hp, ih]
  unfold assemble
  rw [hn]
  simp only [Bool.not_true, Bool.false_eq_true, ↓reduceIte, Spec.enumFrom, List.map_cons, hall 1 cs, hpay 1 cs, hp,
    List.flatten_cons]

/-- the remaining fragments of a split reply, each parsed by `SplitPacket::new` -/
theorem runs_recvChunks (s : Sock) (hudp : s.tcp = false) (engine : Engine) (protocol : Nat)
    (frag : Nat × Bytes → Bytes) (mk : Nat × Bytes → SplitPacket) (q : List Delivery) :
    ∀ (E : List (Nat × Bytes)), (∀ e ∈ E, (frag e).length ≤ PACKET_SIZE) →
      (∀ e ∈ E, (splitPacketNew engine protocol).run (frag e) = .ok (mk e)) →
      Runs s (recvChunks s engine protocol E.length) (E.map mk) ((E.map fun e => .data (frag e)) ++ q) q := by
  intro E
  induction E with
  | nil => intro _ _; exact Runs.pure s _ q
  | cons e r ih =>
    intro hfit hparse
    simp only [List.length_cons, recvChunks, List.map_cons, List.cons_append]
    refine Runs.bind (runs_recv s hudp _ (hfit e (by simp)) _) ?_
    refine Runs.bind (Runs.parse s (hparse e (by simp)) _) ?_
    refine Runs.bind (ih (fun x hx => hfit x (by simp [hx])) (fun x hx => hparse x (by simp [hx]))) ?_
    exact Runs.pure s _ q

/-- `receive` on the fragments of one split reply, arriving in any order: the reassembled payload, read as a packet.
`frag` is the wire form of fragment `(number, chunk)`, `mk` what `SplitPacket::new` reads from it. -/
theorem runs_receive_fragments (ext : Ext) (s : Sock) (hudp : s.tcp = false) (engine : Engine) (protocol : Nat)
    (frag : Nat → Bytes → Bytes) (mk : Nat → Bytes → SplitPacket) (hdr id : Nat) (c : Bytes) (cs : List Bytes)
    (hfe : ∀ i ch, readU8.run (frag i ch) = .ok 0xFE)
    (hparse : ∀ i ch, i < (c :: cs).length → (splitPacketNew engine protocol).run (frag i ch) = .ok (mk i ch))
    (hnum : ∀ i ch, (mk i ch).number = i) (hh : ∀ i ch, (mk i ch).header = hdr) (hid : ∀ i ch, (mk i ch).id = id)
    (ht : ∀ i ch, (mk i ch).total = (c :: cs).length) (hp : ∀ i ch, (mk i ch).payload = ch)
    (arrival : List Bytes) (harr : arrival.Perm ((Spec.enumFrom 0 (c :: cs)).map fun p => frag p.1 p.2))
    (hfit : ∀ d ∈ arrival, d.length ≤ PACKET_SIZE)
    (payload : Bytes) (hpay : getPayload ext (mk 0 c).decompressed (c :: cs).flatten = .ok payload)
    (pkt : Packet) (hpkt : packetFromBuffer.run payload = .ok pkt) (q : List Delivery) :
    Runs s (receive ext s engine protocol) pkt ((arrival.map .data) ++ q) q := by
  obtain ⟨E', hperm, rfl⟩ := perm_map_inv (fun p : Nat × Bytes => frag p.1 p.2) harr _ rfl
  have hb : ∀ e ∈ E', e.1 < (c :: cs).length := by
    intro e he
    have := (enumFrom_bounds (c :: cs) 0 e (hperm.mem_iff.mp he)).2
    omega
  have hlen : E'.length = (c :: cs).length := by rw [hperm.length_eq, enumFrom_length]
  cases E' with
  | nil => simp at hlen
  | cons e0 E1 =>
    simp only [List.map_cons, List.cons_append, List.map_map]
    rw [receive_eq]
    refine Runs.bind (runs_recv s hudp _ (hfit _ (by simp)) _) ?_
    unfold afterFirst
    refine Runs.bind (Runs.parse s (hfe e0.1 e0.2) _) ?_
    simp only [beq_self_eq_true, ↓reduceIte]
    refine Runs.bind (Runs.parse s (hparse e0.1 e0.2 (hb e0 (by simp))) _) ?_
    have htot : (mk e0.1 e0.2).total - 1 = E1.length := by
      rw [ht]; simp only [List.length_cons] at hlen ⊢; omega
    rw [htot]
    have hrest := runs_recvChunks s hudp engine protocol (fun p => frag p.1 p.2) (fun p => mk p.1 p.2) q E1
      (fun e he => hfit _ (by simp only [List.map_cons, List.mem_cons, List.mem_map]; exact Or.inr ⟨e, he, rfl⟩))
      (fun e he => hparse e.1 e.2 (hb e (by simp [he])))
    refine Runs.bind (hrest.congr rfl) ?_
    have hasm := assemble_enum ext mk hdr id (c :: cs).length hnum hh hid ht hp c cs
      ((e0 :: E1).map fun p => mk p.1 p.2) (hperm.map _)
    simp only [List.map_cons] at hasm
    rw [hasm, hpay]
    refine Runs.bind (Runs.lift s _ q) ?_
    exact Runs.parse s hpkt q

/-! ### the final reply of an exchange over any transport the engine reads -/

theorem run_packetFromBuffer_reply (kind : Nat) (hkind : kind < 256) (body : Bytes) :
    packetFromBuffer.run (reply kind body) = .ok ⟨0xFFFFFFFF, kind, body⟩ := by
  have h := run_packetFromBuffer (UInt8.ofNat kind) body
  rw [show (UInt8.ofNat kind).toNat = kind by simp [UInt8.toNat_ofNat', Nat.mod_eq_of_lt hkind]] at h
  exact h

theorem pairFun_eq {β : Type} (F : Nat → Bytes → β) :
    (fun x : Nat × Bytes => match x with | (i, c) => F i c) = fun p => F p.1 p.2 := by
  funext ⟨i, c⟩; rfl

theorem chunks_cons (sizes : List Nat) (bs : Bytes) : ∃ c cs, chunks sizes bs = c :: cs := by
  cases sizes with
  | nil => exact ⟨bs, [], rfl⟩
  | cons n r => exact ⟨_, _, rfl⟩

/-- what the client's external decoders must do with a compressed reply (nothing for the other transports) -/
def BzOk (ext : Ext) (packet : Bytes) : Transport → Prop
  | .sourceSplitBz _ _ z crc => ext.bunzip z = some packet ∧ ext.crc32 packet = crc ∧ packet.length ≤ maxDecompressedSize
  | _ => True

/-- one datagram, Source split (plain or bzip2-compressed) or GoldSrc split (any cut points, fragments in any arrival
order): `receive` returns the reply -/
theorem runs_receive_final (ext : Ext) (s : Sock) (hudp : s.tcp = false) (engine : Engine) (protocol : Nat)
    (kind : Nat) (hkind : kind < 256) (body : Bytes) (t : Transport) (ht : wfTransport engine t = true)
    (hbz : BzOk ext (reply kind body) t)
    (arrival : List Bytes) (harr : arrival.Perm (datagrams (withSize engine protocol) t (reply kind body)))
    (hfit : ∀ d ∈ arrival, d.length ≤ PACKET_SIZE) (q : List Delivery) :
    Runs s (receive ext s engine protocol) ⟨0xFFFFFFFF, kind, body⟩ (arrival.map .data ++ q) q := by
  cases t with
  | single =>
    have : arrival = [reply kind body] := List.perm_singleton.mp harr
    subst this
    exact runs_receive_single ext s hudp engine protocol kind hkind body (hfit _ (by simp)) q
  | sourceSplit id sizes =>
    cases engine with
    | goldSrc f => simp [wfTransport] at ht
    | source ids =>
      simp only [wfTransport, Bool.true_and, Bool.and_eq_true, decide_eq_true_eq] at ht
      obtain ⟨c, cs, hcs⟩ := chunks_cons sizes (reply kind body)
      have hlen : (c :: cs).length = sizes.length + 1 := by rw [← hcs, chunks_length]
      have hflat : (c :: cs).flatten = reply kind body := by rw [← hcs, chunks_flatten]
      simp only [datagrams, hcs] at harr
      refine runs_receive_fragments ext s hudp (.source ids) protocol
        (fun i ch => sourceFragment (withSize (.source ids) protocol) id (c :: cs).length i ch)
        (fun i ch => ⟨0xFFFFFFFE, id, (c :: cs).length, i, 1248, none, ch⟩) 0xFFFFFFFE id c cs
        ?_ ?_ (fun _ _ => rfl) (fun _ _ => rfl) (fun _ _ => rfl) (fun _ _ => rfl) (fun _ _ => rfl)
        arrival harr hfit (reply kind body) (by simp only [getPayload, hflat])
        _ (run_packetFromBuffer_reply kind hkind body) q
      · intro i ch
        unfold sourceFragment
        simp only [List.append_assoc]
        exact run_readU8_split _
      · intro i ch hi
        exact run_splitPacketNew_source ids protocol id _ i ch ht.1 (by omega) (by omega)
  | goldSplit id sizes =>
    cases engine with
    | source ids => simp [wfTransport] at ht
    | goldSrc f =>
      simp only [wfTransport, Bool.true_and, Bool.and_eq_true, decide_eq_true_eq] at ht
      obtain ⟨c, cs, hcs⟩ := chunks_cons sizes (reply kind body)
      have hlen : (c :: cs).length = sizes.length + 1 := by rw [← hcs, chunks_length]
      have hflat : (c :: cs).flatten = reply kind body := by rw [← hcs, chunks_flatten]
      simp only [datagrams, hcs] at harr
      refine runs_receive_fragments ext s hudp (.goldSrc f) protocol
        (fun i ch => goldFragment id (c :: cs).length i ch)
        (fun i ch => ⟨0xFFFFFFFE, id, (c :: cs).length, i, 0, none, ch⟩) 0xFFFFFFFE id c cs
        ?_ ?_ (fun _ _ => rfl) (fun _ _ => rfl) (fun _ _ => rfl) (fun _ _ => rfl) (fun _ _ => rfl)
        arrival harr hfit (reply kind body) (by simp only [getPayload, hflat])
        _ (run_packetFromBuffer_reply kind hkind body) q
      · intro i ch
        unfold goldFragment
        simp only [List.append_assoc]
        exact run_readU8_split _
      · intro i ch hi
        exact run_splitPacketNew_gold f protocol id _ i ch ht.1 (by omega) (by omega)
  | sourceSplitBz id sizes z crc =>
    cases engine with
    | goldSrc f => simp [wfTransport] at ht
    | source ids =>
      simp only [wfTransport, Bool.true_and, Bool.and_eq_true, decide_eq_true_eq] at ht
      obtain ⟨⟨⟨hid1, hid2⟩, hsz⟩, hcrc⟩ := ht
      obtain ⟨hb1, hb2, hb3⟩ := hbz
      obtain ⟨c, cs, hcs⟩ := chunks_cons sizes z
      have hlen : (c :: cs).length = sizes.length + 1 := by rw [← hcs, chunks_length]
      have hflat : (c :: cs).flatten = z := by rw [← hcs, chunks_flatten]
      have hmax : maxDecompressedSize < 2 ^ 32 := by decide
      simp only [datagrams, hcs] at harr
      refine runs_receive_fragments ext s hudp (.source ids) protocol
        (fun i ch => sourceFragment (withSize (.source ids) protocol) id (c :: cs).length i
          ((if i == 0 then le 4 (reply kind body).length ++ le 4 crc else []) ++ ch))
        (fun i ch => ⟨0xFFFFFFFE, id, (c :: cs).length, i, 1248,
          if i == 0 then some ((reply kind body).length, crc) else none, ch⟩) 0xFFFFFFFE id c cs
        ?_ ?_ (fun _ _ => rfl) (fun _ _ => rfl) (fun _ _ => rfl) (fun _ _ => rfl) (fun _ _ => rfl)
        arrival harr hfit (reply kind body) (by rw [hflat]; exact getPayload_bz ext z _ crc hb1 hb2 hb3)
        _ (run_packetFromBuffer_reply kind hkind body) q
      · intro i ch
        unfold sourceFragment
        simp only [List.append_assoc]
        exact run_readU8_split _
      · intro i ch hi
        exact run_splitPacketNew_bz ids protocol id _ i _ crc ch hid1 hid2 (by omega) (by omega) (by omega) hcrc

/-! ### challenge rounds -/

theorem challengeLoop_challenge (ext : Ext) (s : Sock) (engine : Engine) (protocol kind fuel hdr : Nat) (c : Bytes) :
    challengeLoop ext s engine protocol kind (fuel + 1) ⟨hdr, 0x41, c⟩
      = (send s (packetBytes kind (if kind == 0x54 then infoPayload ++ c else c)) >>= fun _ =>
          receive ext s engine protocol >>= fun p => challengeLoop ext s engine protocol kind fuel p) := rfl

theorem challengeLoop_done (ext : Ext) (s : Sock) (engine : Engine) (protocol kind fuel : Nat) (p : Packet)
    (h : p.kind ≠ 0x41) : challengeLoop ext s engine protocol kind (fuel + 1) p = pure p.payload := by
  unfold challengeLoop
  simp [h]

def challengeDeliveries (cs : List Bytes) : List Delivery := cs.map fun c => .data (challengeReply c)

/-- the loop of `get_request_data_impl`, entered with a challenge in hand while the server will issue the further
challenges `cs` before it sends the reply: every challenge is answered, the reply's body is returned; fuel for one
round per challenge suffices -/
theorem runs_challengeLoop (ext : Ext) (s : Sock) (hudp : s.tcp = false) (engine : Engine) (protocol reqKind : Nat)
    (kind : Nat) (hk : kind ≠ 0x41) (body : Bytes) (final : List Delivery) (q : List Delivery)
    (hfinal : Runs s (receive ext s engine protocol) ⟨0xFFFFFFFF, kind, body⟩ (final ++ q) q) :
    ∀ (cs : List Bytes) (c : Bytes) (hdr fuel : Nat), (∀ x ∈ cs, (challengeReply x).length ≤ PACKET_SIZE) →
      cs.length + 2 ≤ fuel →
      Runs s (challengeLoop ext s engine protocol reqKind fuel ⟨hdr, 0x41, c⟩) body
        (challengeDeliveries cs ++ (final ++ q)) q := by
  intro cs
  induction cs with
  | nil =>
    intro c hdr fuel _ hfuel
    obtain ⟨f, rfl⟩ : ∃ f, fuel = f + 2 := ⟨fuel - 2, by simp at hfuel; omega⟩
    rw [challengeLoop_challenge]
    refine Runs.bind (runs_send s _ _) ?_
    refine Runs.bind (by simpa [challengeDeliveries] using hfinal) ?_
    rw [challengeLoop_done ext s engine protocol reqKind f ⟨0xFFFFFFFF, kind, body⟩ hk]
    exact Runs.pure s _ q
  | cons c' cs ih =>
    intro c hdr fuel hfit hfuel
    obtain ⟨f, rfl⟩ : ∃ f, fuel = f + 1 := ⟨fuel - 1, by simp at hfuel; omega⟩
    rw [challengeLoop_challenge]
    refine Runs.bind (runs_send s _ _) ?_
    have hr := runs_receive_single ext s hudp engine protocol 0x41 (by decide) c' (hfit c' (by simp))
      (challengeDeliveries cs ++ (final ++ q))
    refine Runs.bind (by simpa [challengeDeliveries, challengeReply] using hr) ?_
    exact ih c' _ f (fun x hx => hfit x (by simp [hx])) (by simp at hfuel ⊢; omega)

/-- `get_request_data_impl` against a server that issues the challenges `cs` (any bytes) and then replies -/
theorem runs_requestImpl (ext : Ext) (s : Sock) (hudp : s.tcp = false) (engine : Engine) (protocol reqKind : Nat)
    (payload : Bytes) (kind : Nat) (hk : kind ≠ 0x41) (body : Bytes) (final : List Delivery) (hne : final ≠ [])
    (q : List Delivery)
    (hfinal : Runs s (receive ext s engine protocol) ⟨0xFFFFFFFF, kind, body⟩ (final ++ q) q)
    (cs : List Bytes) (hfit : ∀ x ∈ cs, (challengeReply x).length ≤ PACKET_SIZE) :
    Runs s (requestImpl ext s engine protocol reqKind payload) body (challengeDeliveries cs ++ (final ++ q)) q := by
  unfold requestImpl
  refine Runs.bind (runs_send s _ _) ?_
  cases cs with
  | nil =>
    refine Runs.bind (by simpa [challengeDeliveries] using hfinal) ?_
    intro w hw
    have hd := challengeLoop_done ext s engine protocol reqKind (queued s w) ⟨0xFFFFFFFF, kind, body⟩ hk
    show ∃ w', challengeLoop ext s engine protocol reqKind (queued s w + 1) ⟨0xFFFFFFFF, kind, body⟩ w = _ ∧ _
    rw [hd]
    exact Runs.pure s _ q w hw
  | cons c cs =>
    have hr := runs_receive_single ext s hudp engine protocol 0x41 (by decide) c (hfit c (by simp))
      (challengeDeliveries cs ++ (final ++ q))
    refine Runs.bind (by simpa [challengeDeliveries, challengeReply] using hr) ?_
    intro w hw
    have hq : cs.length + 2 ≤ queued s w + 1 := by
      have hpos : 0 < final.length := List.length_pos_iff.mpr hne
      simp only [queued, hw.queue, List.length_append, List.length_map]
      omega
    exact runs_challengeLoop ext s hudp engine protocol reqKind kind hk body final q hfinal cs c _ _
      (fun x hx => hfit x (by simp [hx])) hq w hw

/-- `get_request_data` for one exchange of the SPEC: challenge rounds, then the reply `FFFFFFFF kind body` over the
exchange's transport with its datagrams delivered as `arrival` -/
theorem runs_requestData (ext : Ext) (s : Sock) (hudp : s.tcp = false) (engine : Engine) (protocol retries : Nat)
    (req : Request) (kind : Nat) (hkind : kind < 256) (hk : kind ≠ 0x41) (body : Bytes) (x : Exchange)
    (hx : wfTransport engine x.transport = true) (hbz : BzOk ext (reply kind body) x.transport)
    (arrival : List Bytes)
    (harr : arrival.Perm (datagrams (withSize engine protocol) x.transport (reply kind body)))
    (hfit : ∀ d ∈ exchangeAs x arrival, d.length ≤ PACKET_SIZE) (q : List Delivery) :
    Runs s (requestData ext s retries engine protocol req) body ((exchangeAs x arrival).map .data ++ q) q := by
  have hne : arrival.map Delivery.data ≠ [] := by
    intro h
    have h0 : arrival.length = 0 := by simpa using congrArg List.length h
    rw [harr.length_eq] at h0
    cases ht : x.transport with
    | single => simp [ht, datagrams] at h0
    | sourceSplit id sizes =>
      obtain ⟨c, cs, hcs⟩ := chunks_cons sizes (reply kind body)
      simp [ht, datagrams, hcs, enumFrom_length] at h0
    | goldSplit id sizes =>
      obtain ⟨c, cs, hcs⟩ := chunks_cons sizes (reply kind body)
      simp [ht, datagrams, hcs, enumFrom_length] at h0
    | sourceSplitBz id sizes z crc =>
      obtain ⟨c, cs, hcs⟩ := chunks_cons sizes z
      simp [ht, datagrams, hcs, enumFrom_length] at h0
  have hfinal := runs_receive_final ext s hudp engine protocol kind hkind body x.transport hx hbz arrival harr
    (fun d hd => hfit d (by simp [exchangeAs, hd])) q
  have h := runs_requestImpl ext s hudp engine protocol req.kind req.defaultPayload kind hk body
    (arrival.map .data) hne q hfinal x.challenges (fun c hc => hfit _ (by
      simp only [exchangeAs, List.mem_append, List.mem_map]; exact Or.inl ⟨c, hc, rfl⟩))
  have he : (exchangeAs x arrival).map Delivery.data ++ q
      = challengeDeliveries x.challenges ++ (arrival.map .data ++ q) := by
    simp [exchangeAs, challengeDeliveries, List.append_assoc]
  rw [he]
  exact h.retry retries

/-! ### the three sections and the whole query -/

/-- kind byte and body of the `A2S_INFO` reply the SPEC prescribes for this engine -/
def infoKind (e : Engine) : Nat :=
  match e with
  | .goldSrc true => 0x6D
  | _ => 0x49

def infoBody (cfg : Config) (st : State) : Bytes :=
  match cfg.engine with
  | .goldSrc true => encGoldSrcInfo cfg.address st.info
  | _ => encSourceInfo cfg.upper st.info

theorem infoPacket_eq (cfg : Config) (st : State) : infoPacket cfg st = reply (infoKind cfg.engine) (infoBody cfg st) := by
  obtain ⟨engine, g, u, a, xi, xp, xr⟩ := cfg
  cases engine with
  | source ids => rfl
  | goldSrc f => cases f <;> rfl

theorem infoKind_ok (e : Engine) : infoKind e < 256 ∧ infoKind e ≠ 0x41 := by
  cases e with
  | source ids => exact ⟨show 0x49 < 256 by decide, show 0x49 ≠ 0x41 by decide⟩
  | goldSrc f => cases f <;> exact ⟨by decide, by decide⟩

theorem wf_parts (cfg : Config) (st : State) (h : wf cfg st = true) :
    (match cfg.engine with
      | .goldSrc true => wfGoldSrcInfo cfg.address st.info
      | e => wfSourceInfo e st.info) = true
    ∧ st.players.length < 256 ∧ (∀ p ∈ st.players, wfPlayer (cfg.engine == Engine.new 2400) p = true)
    ∧ st.rules.length < 65536 ∧ (∀ r ∈ st.rules, okStr r.1 = true ∧ okStr r.2 = true) ∧ distinctKeys st.rules = true := by
  simp only [wf, Bool.and_eq_true, decide_eq_true_eq, List.all_eq_true] at h
  obtain ⟨⟨⟨⟨⟨h1, h2⟩, h3⟩, h4⟩, h5⟩, h6⟩ := h
  exact ⟨h1, h2, h3, h4, h5, h6⟩

/-- C02's info theorems, for the layout the engine selects -/
theorem run_parseInfo (cfg : Config) (st : State) (hwf : wf cfg st = true) :
    (parseInfo cfg.engine).run (infoBody cfg st) = .ok st.info := by
  have h := (wf_parts cfg st hwf).1
  obtain ⟨engine, g, u, a, xi, xp, xr⟩ := cfg
  cases engine with
  | source ids => exact (decodesEnd_sourceInfo (.source ids) u st.info h).run
  | goldSrc f =>
    cases f with
    | true => exact (decodes_goldSrcInfo a st.info h).run
    | false => exact (decodesEnd_sourceInfo (.goldSrc false) u st.info h).run

theorem runs_getServerInfo (ext : Ext) (s : Sock) (hudp : s.tcp = false) (retries : Nat) (cfg : Config) (st : State)
    (hwf : wf cfg st = true) (hx : wfTransport cfg.engine cfg.info.transport = true)
    (hbz : BzOk ext (infoPacket cfg st) cfg.info.transport) (ai : List Bytes)
    (hai : ai.Perm (infoDatagrams cfg st)) (hfit : ∀ d ∈ exchangeAs cfg.info ai, d.length ≤ PACKET_SIZE)
    (q : List Delivery) :
    Runs s (getServerInfo ext s retries cfg.engine) st.info ((exchangeAs cfg.info ai).map .data ++ q) q := by
  unfold getServerInfo
  rw [infoDatagrams, infoPacket_eq] at hai
  rw [infoPacket_eq] at hbz
  exact Runs.bind (runs_requestData ext s hudp cfg.engine 0 retries .info (infoKind cfg.engine) (infoKind_ok _).1
    (infoKind_ok _).2 (infoBody cfg st) cfg.info hx hbz ai hai hfit q) (Runs.parse s (run_parseInfo cfg st hwf) q)

/-- what a section contributes to the script / to the response under a gathering toggle -/
def sectionAs (t : Toggle) (x : Exchange) (arrival : List Bytes) : List Bytes :=
  if t == .skip then [] else exchangeAs x arrival

theorem runs_playersSection (ext : Ext) (s : Sock) (hudp : s.tcp = false) (retries : Nat) (cfg : Config) (st : State)
    (hwf : wf cfg st = true) (t : Toggle) (hx : (t == .skip || wfTransport cfg.engine cfg.players.transport) = true)
    (hbz : BzOk ext (reply 0x44 (encPlayers st.players)) cfg.players.transport) (ap : List Bytes) (hap : ap.Perm (playersDatagrams cfg st))
    (hfit : ∀ d ∈ sectionAs t cfg.players ap, d.length ≤ PACKET_SIZE) (q : List Delivery) :
    Runs s (maybeGather t (getServerPlayers ext s retries cfg.engine st.info.protocolVersion))
      (if t == .skip then none else some st.players) ((sectionAs t cfg.players ap).map .data ++ q) q := by
  obtain ⟨_, hpn, hpl, _, _, _⟩ := wf_parts cfg st hwf
  by_cases ht : t = .skip
  · subst ht
    exact Runs.pure s _ q
  · have hb : (t == Toggle.skip) = false := by simpa using ht
    simp only [sectionAs, hb, Bool.false_or, Bool.false_eq_true, ↓reduceIte] at hx hfit ⊢
    refine Runs.maybeGather ?_ t ht
    unfold getServerPlayers
    exact Runs.bind (runs_requestData ext s hudp cfg.engine _ retries .players 0x44 (by decide) (by decide)
      (encPlayers st.players) cfg.players hx hbz ap hap hfit q)
      (Runs.parse s (decodes_players cfg.engine st.players hpn hpl).run q)

theorem runs_rulesSection (ext : Ext) (s : Sock) (hudp : s.tcp = false) (retries : Nat) (cfg : Config) (st : State)
    (hwf : wf cfg st = true) (t : Toggle) (hx : (t == .skip || wfTransport cfg.engine cfg.rules.transport) = true)
    (hbz : BzOk ext (reply 0x45 (encRules st.rules)) cfg.rules.transport) (ar : List Bytes) (har : ar.Perm (rulesDatagrams cfg st))
    (hfit : ∀ d ∈ sectionAs t cfg.rules ar, d.length ≤ PACKET_SIZE) (q : List Delivery) :
    Runs s (maybeGather t (getServerRules ext s retries cfg.engine st.info.protocolVersion))
      (if t == .skip then none else some (expectedRules cfg.engine st.rules))
      ((sectionAs t cfg.rules ar).map .data ++ q) q := by
  obtain ⟨_, _, _, hrn, hrl, hrd⟩ := wf_parts cfg st hwf
  by_cases ht : t = .skip
  · subst ht
    exact Runs.pure s _ q
  · have hb : (t == Toggle.skip) = false := by simpa using ht
    simp only [sectionAs, hb, Bool.false_or, Bool.false_eq_true, ↓reduceIte] at hx hfit ⊢
    refine Runs.maybeGather ?_ t ht
    unfold getServerRules
    exact Runs.bind (runs_requestData ext s hudp cfg.engine _ retries .rules 0x45 (by decide) (by decide)
      (encRules st.rules) cfg.rules hx hbz ar har hfit q)
      (Runs.parse s (decodes_rules cfg.engine st.rules hrn hrl hrd).run q)

theorem scriptAs_sections (cfg : Config) (ai ap ar : List Bytes) :
    (scriptAs cfg ai ap ar).map Delivery.data
      = (exchangeAs cfg.info ai).map .data ++ ((sectionAs cfg.gather.players cfg.players ap).map .data ++
          ((sectionAs cfg.gather.rules cfg.rules ar).map .data ++ [])) := by
  simp [scriptAs, sectionAs, List.append_assoc]

/-- the query after the socket is open, against everything a conforming server sends -/
theorem queryBody_whole (ext : Ext) (s : Sock) (hudp : s.tcp = false) (retries : Nat) (cfg : Config) (st : State)
    (hwf : wf cfg st = true) (hx : wfExchanges cfg = true)
    (hbi : BzOk ext (infoPacket cfg st) cfg.info.transport)
    (hbp : BzOk ext (reply 0x44 (encPlayers st.players)) cfg.players.transport)
    (hbr : BzOk ext (reply 0x45 (encRules st.rules)) cfg.rules.transport) (ai ap ar : List Bytes)
    (hai : ai.Perm (infoDatagrams cfg st)) (hap : ap.Perm (playersDatagrams cfg st))
    (har : ar.Perm (rulesDatagrams cfg st)) (hfit : fits (scriptAs cfg ai ap ar) = true)
    (w : Net) (hw : At s w ((scriptAs cfg ai ap ar).map .data)) :
    (queryBody ext s cfg.engine cfg.gather retries w).1 = expected cfg st := by
  simp only [wfExchanges, Bool.and_eq_true] at hx
  obtain ⟨⟨hxi, hxp⟩, hxr⟩ := hx
  have hfit' : ∀ d ∈ scriptAs cfg ai ap ar, d.length ≤ PACKET_SIZE := by
    simpa [fits, List.all_eq_true] using hfit
  have hfi : ∀ d ∈ exchangeAs cfg.info ai, d.length ≤ PACKET_SIZE := fun d hd =>
    hfit' d (by simp only [scriptAs, List.mem_append]; exact Or.inl (Or.inl hd))
  have hfp : ∀ d ∈ sectionAs cfg.gather.players cfg.players ap, d.length ≤ PACKET_SIZE := fun d hd =>
    hfit' d (by simp only [scriptAs, List.mem_append]; exact Or.inl (Or.inr hd))
  have hfr : ∀ d ∈ sectionAs cfg.gather.rules cfg.rules ar, d.length ≤ PACKET_SIZE := fun d hd =>
    hfit' d (by simp only [scriptAs, List.mem_append]; exact Or.inr hd)
  rw [scriptAs_sections] at hw
  obtain ⟨w1, h1, hw1⟩ := runs_getServerInfo ext s hudp retries cfg st hwf hxi hbi ai hai hfi _ w hw
  unfold queryBody
  rw [Q.bind_apply, h1]
  simp only [expected]
  by_cases happ : appIdOk cfg.engine cfg.gather st.info.appid = true
  · simp only [happ, Bool.not_true, Bool.false_eq_true, ↓reduceIte]
    have hrest := Runs.bind (runs_playersSection ext s hudp retries cfg st hwf cfg.gather.players hxp hbp ap hap hfp _)
      (g := fun players => maybeGather cfg.gather.rules (getServerRules ext s retries cfg.engine st.info.protocolVersion)
        >>= fun rules => pure (Response.mk st.info players rules))
      (Runs.bind (runs_rulesSection ext s hudp retries cfg st hwf cfg.gather.rules hxr hbr ar har hfr [])
        (Runs.pure s _ []))
    obtain ⟨w3, h3, _⟩ := hrest w1 hw1
    exact congrArg Prod.fst h3
  · have hf' : appIdOk cfg.engine cfg.gather st.info.appid = false := by simpa using happ
    simp [hf', Q.fail]

/-- the whole query from the initial state: one socket, with the server's datagrams queued on it -/
theorem query_whole (ext : Ext) (port retries : Nat) (cfg : Config) (st : State)
    (hwf : wf cfg st = true) (hx : wfExchanges cfg = true)
    (hbi : BzOk ext (infoPacket cfg st) cfg.info.transport)
    (hbp : BzOk ext (reply 0x44 (encPlayers st.players)) cfg.players.transport)
    (hbr : BzOk ext (reply 0x45 (encRules st.rules)) cfg.rules.transport) (ai ap ar : List Bytes)
    (hai : ai.Perm (infoDatagrams cfg st)) (hap : ap.Perm (playersDatagrams cfg st))
    (har : ar.Perm (rulesDatagrams cfg st)) (hfit : fits (scriptAs cfg ai ap ar) = true) :
    (query ext port cfg.engine cfg.gather retries
        (Net.init [.opened ((scriptAs cfg ai ap ar).map .data)] [])).1 = expected cfg st := by
  rw [query_eq, Q.bind_apply]
  have ho : openSock false port (Net.init [.opened ((scriptAs cfg ai ap ar).map .data)] [])
      = (.ok ⟨0, port, false⟩, ⟨[], [(scriptAs cfg ai ap ar).map .data], [], [.opened 0 false port false]⟩) := rfl
  rw [ho]
  exact queryBody_whole ext ⟨0, port, false⟩ rfl retries cfg st hwf hx hbi hbp hbr ai ap ar hai hap har hfit _
    ⟨rfl, by simp, by simp⟩

/-- nothing is asked of the external decoders when the reply is not compressed -/
theorem bzOk_of_uncompressed (ext : Ext) (packet : Bytes) (t : Transport) (h : t.compressed = false) :
    BzOk ext packet t := by
  cases t <;> first | trivial | simp [Transport.compressed] at h

/-- the law under which compressed replies are read: the client's decoder inverts the server's compressor, and both
sides compute the same checksum -/
theorem bzOk_of_law (ext : Ext) (compress : Bytes → Bytes) (hlaw : ∀ p, ext.bunzip (compress p) = some p)
    (packet : Bytes) (t : Transport) (h : t.carries compress ext.crc32 packet) : BzOk ext packet t := by
  cases t with
  | sourceSplitBz id sizes z crc =>
    obtain ⟨hz, hc, hl⟩ := h
    exact ⟨by rw [hz]; exact hlaw packet, hc.symm, hl⟩
  | _ => trivial

end Gd.Valve
