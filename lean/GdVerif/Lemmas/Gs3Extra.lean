import GdVerif.Lemmas.Gs3Whole
/-
  GameSpy 3: field sections the client has no place for (`Spec.Extra`).  The section loop over
  `encExtra e ++ rest` behaves like the loop over `rest`; hence the tables, the players, the teams and
  the whole response of a reply with extra sections are those of the reply without them.
-/
namespace Gd.Gs3
open Gd Gd.Gs3.Spec

/-! ### the first `_`-segment of a field id -/

theorem head_splitOn (d : UInt8) (s : Bytes) : (splitOn d s).head? = some (s.takeWhile (· != d)) := by
  induction s with
  | nil => rfl
  | cons b r ih =>
    by_cases hb : (b == d) = true
    · have hn : (b != d) = false := by simp [bne, hb]
      simp [splitOn, hb, List.takeWhile_cons, hn]
    · have hb' : (b == d) = false := by simpa using hb
      have hn : (b != d) = true := by simp [bne, hb']
      cases hs : splitOn d r with
      | nil => rw [hs] at ih; simp at ih
      | cons p ps =>
        rw [hs] at ih
        simp only [List.head?_cons, Option.some.injEq] at ih
        simp [splitOn, hb', hs, List.takeWhile_cons, hn, ih]

theorem known_eq_typed (x : Bytes) : knownFields.contains x = typedFields.contains x := by
  rw [Bool.eq_iff_iff]
  simp only [List.contains_iff_mem, knownFields, typedFields, playerFields, List.mem_cons, List.mem_append,
    List.not_mem_nil, or_false]
  constructor
  · rintro (h | h | h | h | h | h | h) <;> simp [h]
  · rintro ((h | h | h | h | h | h) | h) <;> simp [h]

/-! ### skipping the values of a section -/

theorem skipStep_value (v : Bytes) (hv : okItem v = true) : Decodes (skipStep ()) (cstr v) ((), true) := by
  obtain ⟨h0, hval, hne⟩ := (okItem_iff v).mp hv
  unfold skipStep
  refine Decodes.bind_last (decodes_readCStr v h0 hval) ?_
  have : v.isEmpty = false := by cases v <;> simp_all
  simp only [this, Bool.not_false]
  exact Decodes.pure _

theorem skipStep_end : Decodes (skipStep ()) [0] ((), false) := by
  unfold skipStep
  have h : Decodes readCStr ([] ++ [0]) [] := decodes_readCStr [] (by simp) rfl
  exact Decodes.bind_last h (by simp only [List.isEmpty_nil, Bool.not_true]; exact Decodes.pure _)

theorem decodes_skipLoop (vals : List Bytes) (h : ∀ v ∈ vals, okItem v = true) :
    ∀ (fuel : Nat), vals.length < fuel → Decodes (loopBrk skipStep fuel ()) (encValues vals) () := by
  induction vals with
  | nil =>
    intro fuel hf b post hr
    cases fuel with
    | zero => omega
    | succ fuel =>
      simp only [encValues, List.map_nil, List.flatten_nil, List.nil_append] at hr ⊢
      exact loopBrk_break skipStep_end (by simp) fuel b post hr
  | cons v r ih =>
    intro fuel hf b post hr
    cases fuel with
    | zero => omega
    | succ fuel =>
      simp only [encValues, List.map_cons, List.flatten_cons, List.append_assoc] at hr ⊢
      obtain ⟨b1, hb1, hr1, hd1⟩ := loopBrk_continue (skipStep_value v (h v (by simp))) (by simp [cstr]) fuel b
        ((r.map cstr).flatten ++ ([0] ++ post)) (by rw [hr])
      obtain ⟨b2, hb2, hr2, hd2⟩ := ih (fun x hx => h x (by simp [hx])) fuel
        (by simp at hf; omega) b1 post (by rw [hr1]; simp [encValues])
      exact ⟨b2, by rw [hb1, hb2], hr2, by rw [hd2, hd1]⟩

theorem decodes_skipTail (vals : List Bytes) (h : ∀ v ∈ vals, okItem v = true) :
    Decodes (remainingLength >>= fun rem => loopBrk skipStep (rem + 1) ()) (encValues vals) () := by
  intro b post hr
  have hrem : remainingLength b = .ok (b.remaining, b) := rfl
  rw [Par.bind_ok hrem]
  have hlen : vals.length < b.remaining + 1 := by
    have : vals.length ≤ ((vals.map cstr).flatten).length :=
      length_le_flatten vals cstr (fun p => by simp [cstr])
    simp only [Buf.remaining, hr, encValues, List.length_append, List.length_cons, List.length_nil]; omega
  exact decodes_skipLoop vals h _ hlen b post hr

/-- the offset byte and the values of a section, up to and including the closing empty value -/
theorem decodes_skipField (off : Nat) (hoff : off < 256) (vals : List Bytes) (h : ∀ v ∈ vals, okItem v = true) :
    Decodes skipField ([UInt8.ofNat off] ++ encValues vals) () := by
  unfold skipField
  exact Decodes.bind (decodes_u8 off hoff) (decodes_skipTail vals h)

/-! ### an extra section -/

/-- an extra section on the wire without its marker bytes -/
def encExtraBody (e : Extra) : Bytes := cstr e.name ++ ([UInt8.ofNat e.offset] ++ encValues e.values)

theorem encExtra_eq (e : Extra) : encExtra e = e.markers ++ encExtraBody e := by
  simp [encExtra, encExtraBody, encValues, List.append_assoc]

theorem wfExtra_facts (e : Extra) (h : wfExtra e = true) :
    (∀ m ∈ e.markers, m.toNat < 3) ∧ (0 : UInt8) ∉ e.name ∧ validUtf8 e.name = true
    ∧ (∃ x r, e.name = x :: r ∧ ¬ x.toNat < 3)
    ∧ knownFields.contains (firstSegment e.name) = false ∧ e.offset < 256 ∧ (∀ v ∈ e.values, okItem v = true) := by
  simp only [wfExtra, Bool.and_eq_true, List.all_eq_true, decide_eq_true_eq, Bool.not_eq_true'] at h
  obtain ⟨⟨⟨⟨⟨hm, hname⟩, hhead⟩, htyped⟩, hoff⟩, hvals⟩ := h
  obtain ⟨h0, hv, hne⟩ := (okItem_iff _).mp hname
  refine ⟨fun m hm' => UInt8.lt_iff_toNat_lt.mp (hm m hm'), h0, hv, ?_, ?_, hoff, hvals⟩
  · cases hn : e.name with
    | nil => exact absurd hn hne
    | cons x r =>
      refine ⟨x, r, rfl, ?_⟩
      rw [hn] at hhead
      simp only [List.head?_cons, Option.all_some, Bool.not_eq_true', decide_eq_false_iff_not] at hhead
      intro hlt
      exact hhead (UInt8.lt_iff_toNat_lt.mpr hlt)
  · rw [known_eq_typed]; exact htyped

/-- from the field id on, an extra section is consumed exactly and leaves the tables as they are -/
theorem decodes_readSection_extra (t : Tables) (e : Extra) (h : wfExtra e = true) :
    Decodes (readSection t) (encExtraBody e) t := by
  obtain ⟨_, h0, hv, ⟨x, r, hxr, _⟩, hk, hoff, hvals⟩ := wfExtra_facts e h
  unfold readSection encExtraBody
  refine Decodes.bind (decodes_readCStr _ h0 hv) ?_
  have hne : e.name.isEmpty = false := by rw [hxr]; rfl
  have hk' : knownFields.contains (List.takeWhile (fun x => x != 0x5F) e.name) = false := hk
  simp only [hne, Bool.false_eq_true, ↓reduceIte, afterName, head_splitOn, hk', Bool.not_false]
  exact Decodes.bind_last (decodes_skipField e.offset hoff e.values hvals) (Decodes.pure _)

/-! ### one round of sections: markers, then a body that `readSection` consumes -/

theorem round_of_decodes (ms body : Bytes) (hm : ∀ m ∈ ms, m.toNat < 3) (x : UInt8) (xr : Bytes)
    (hbody : body = x :: xr) (hx : ¬ x.toNat < 3) (t t' : Tables) (hd : Decodes (readSection t) body t')
    (b : Buf) (fuel : Nat) (tail : Bytes) (hr : b.rest = ms ++ (body ++ tail)) (hf : b.remaining < fuel) :
    ∃ b' fuel', whileRemaining sectionStep fuel t b = whileRemaining sectionStep fuel' t' b'
      ∧ b'.rest = tail ∧ b'.remaining < fuel' := by
  obtain ⟨b1, fuel1, heq1, hr1, hf1⟩ := markers_skip ms hm t b fuel _ hr hf
  cases fuel1 with
  | zero => omega
  | succ fuel1 =>
    have hhead : b1.rest = x :: (xr ++ tail) := by rw [hr1, hbody]; rfl
    have hne : (b1.remaining == 0) = false := by simp [Buf.remaining, hhead]
    obtain ⟨b2, hb2, hr2, _⟩ := hd b1 tail hr1
    have hstep : sectionStep t b1 = .ok (t', b2) := by
      rw [sectionStep_cons t b1 x _ hhead]
      simp only [hx, ↓reduceIte]
      exact hb2
    have hrem : b2.remaining < fuel1 := by
      have h1 : b2.remaining = tail.length := by simp [Buf.remaining, hr2]
      have h2 : b1.remaining = (xr ++ tail).length + 1 := by simp [Buf.remaining, hhead]
      simp only [List.length_append] at h2
      omega
    refine ⟨b2, fuel1, ?_, hr2, hrem⟩
    rw [heq1]
    simp only [whileRemaining, hne, Bool.false_eq_true, ↓reduceIte, hstep]

/-- what a section does to the tables: an extra section nothing -/
def applySection (st : State) (t : Tables) : Section → Tables
  | .slice sl => applySlice st t sl
  | .extra _ => t

/-- a section that the SPEC allows, with sendable values -/
def SectionOk (st : State) : Section → Prop
  | .slice sl => SliceOk st sl
  | .extra e => wfExtra e = true

theorem section_round (st : State) (s : Section) (hs : SectionOk st s) (t : Tables) (b : Buf) (fuel : Nat) (tail : Bytes)
    (hr : b.rest = encSection st s ++ tail) (hf : b.remaining < fuel) :
    ∃ b' fuel', whileRemaining sectionStep fuel t b = whileRemaining sectionStep fuel' (applySection st t s) b'
      ∧ b'.rest = tail ∧ b'.remaining < fuel' := by
  cases s with
  | slice sl =>
    obtain ⟨_, _, _, _, _, hm, x, xr, hxr, hx⟩ := fieldId_facts st sl hs
    refine round_of_decodes sl.markers (encBody st sl) hm x
      (xr ++ [0] ++ ([UInt8.ofNat sl.offset] ++ encValues (sliceValues st sl))) ?_ hx t _
      (decodes_readSection st t sl hs) b fuel tail ?_ hf
    · simp [encBody, cstr, hxr, List.append_assoc]
    · rw [hr]; simp [encSection, encSlice_eq, List.append_assoc]
  | extra e =>
    obtain ⟨hm, _, _, ⟨x, xr, hxr, hx⟩, _⟩ := wfExtra_facts e hs
    refine round_of_decodes e.markers (encExtraBody e) hm x
      (xr ++ [0] ++ ([UInt8.ofNat e.offset] ++ encValues e.values)) ?_ hx t _
      (decodes_readSection_extra t e hs) b fuel tail ?_ hf
    · simp [encExtraBody, cstr, hxr, List.append_assoc]
    · rw [hr]; simp [encSection, encExtra_eq, List.append_assoc]

/-- THE CORE: the section loop over an extra section followed by `rest` is the loop over `rest` -/
theorem extra_then_rest (st : State) (e : Extra) (h : wfExtra e = true) (t : Tables) (b : Buf) (fuel : Nat) (rest : Bytes)
    (hr : b.rest = encExtra e ++ rest) (hf : b.remaining < fuel) :
    ∃ b' fuel', whileRemaining sectionStep fuel t b = whileRemaining sectionStep fuel' t b'
      ∧ b'.rest = rest ∧ b'.remaining < fuel' :=
  section_round st (.extra e) h t b fuel rest hr hf

/-! ### all sections of a packet, of all packets -/

theorem foldl_applySection (st : State) : ∀ (ss : List Section) (t : Tables),
    ss.foldl (applySection st) t = (slicesOf ss).foldl (applySlice st) t := by
  intro ss
  induction ss with
  | nil => intro t; rfl
  | cons s r ih =>
    intro t
    cases s with
    | slice sl => simp only [List.foldl_cons, applySection, slicesOf, ih]
    | extra e => simp only [List.foldl_cons, applySection, slicesOf, ih]

theorem slicesOf_append (a b : List Section) : slicesOf (a ++ b) = slicesOf a ++ slicesOf b := by
  induction a with
  | nil => rfl
  | cons s r ih => cases s <;> simp [slicesOf, ih]

theorem mem_slicesOf (ss : List Section) (sl : Slice) : sl ∈ slicesOf ss ↔ Section.slice sl ∈ ss := by
  induction ss with
  | nil => simp [slicesOf]
  | cons s r ih => cases s <;> simp [slicesOf, ih]

theorem flatten_map_slicesOf (layout : List (List Section)) : (layout.map slicesOf).flatten = slicesOf layout.flatten := by
  induction layout with
  | nil => rfl
  | cons ss r ih => simp [slicesOf_append, ih]

theorem sectionsX_run (st : State) : ∀ (ss : List Section), (∀ s ∈ ss, SectionOk st s) → ∀ (t : Tables) (b : Buf) (fuel : Nat),
    b.rest = encSections st ss → b.remaining < fuel →
    ∃ b', whileRemaining sectionStep fuel t b = .ok (ss.foldl (applySection st) t, b') := by
  intro ss
  induction ss with
  | nil =>
    intro _ t b fuel hr hf
    cases fuel with
    | zero => omega
    | succ fuel =>
      have : (b.remaining == 0) = true := by simp [Buf.remaining, hr, encSections]
      exact ⟨b, by simp [whileRemaining, this]⟩
  | cons s r ih =>
    intro hok t b fuel hr hf
    obtain ⟨b1, fuel1, heq, hr1, hf1⟩ := section_round st s (hok s (by simp)) t b fuel (encSections st r)
      (by rw [hr]; simp [encSections]) hf
    obtain ⟨b2, hb2⟩ := ih (fun x hx => hok x (by simp [hx])) (applySection st t s) b1 fuel1 hr1 hf1
    exact ⟨b2, by rw [heq, hb2]; rfl⟩

theorem readSectionsX_run (st : State) (ss : List Section) (h : ∀ s ∈ ss, SectionOk st s) (t : Tables) :
    (readSections t).run (encSections st ss) = .ok ((slicesOf ss).foldl (applySlice st) t) := by
  unfold Par.run readSections
  have hrem : remainingLength (Buf.new (encSections st ss)) = .ok ((encSections st ss).length, Buf.new (encSections st ss)) := rfl
  rw [Par.bind_ok hrem]
  obtain ⟨b', hb'⟩ := sectionsX_run st ss h t (Buf.new (encSections st ss)) ((encSections st ss).length + 1) rfl
    (by simp [Buf.remaining])
  rw [hb', foldl_applySection]

/-- all packets' sections, in packet order: the extra sections leave no trace -/
theorem readAllSectionsX_run (st : State) : ∀ (layout : List (List Section)), (∀ s ∈ layout.flatten, SectionOk st s) →
    ∀ (t : Tables), readAllSections t (layout.map (encSections st)) = .ok ((slicesOf layout.flatten).foldl (applySlice st) t) := by
  intro layout
  induction layout with
  | nil => intro _ t; rfl
  | cons ss r ih =>
    intro h t
    simp only [List.map_cons, readAllSections, List.flatten_cons, slicesOf_append, List.foldl_append]
    rw [readSectionsX_run st ss (fun s hs => h s (by simp [hs])) t]
    exact ih (fun s hs => h s (by simp only [List.flatten_cons, List.mem_append]; exact Or.inr hs)) _

/-! ### the domain `wfX` -/

theorem wfX_parts (cfg : ConfigX) (st : State) (h : wfX cfg st = true) :
    wfVars st = true ∧ st.players.all wfPlayer = true ∧ st.teams.all wfTeam = true ∧ st.players.length < 2 ^ 32
    ∧ (st.pids.all fun l => l.length == st.players.length && l.all okItem) = true
    ∧ cfg.layout.flatten.all (wfSection st) = true ∧ covered st (slicesOf cfg.layout.flatten) = true
    ∧ cfg.layout.isEmpty = false ∧ (cfg.layout.drop 1).all (fun ss => !ss.isEmpty) = true ∧ cfg.layout.length ≤ 128
    ∧ -(2 ^ 31 : Int) ≤ cfg.challenge ∧ cfg.challenge < 2 ^ 31
    ∧ (dataPacketsX cfg st).all (fun d => d.length ≤ PACKET_SIZE) = true := by
  simp only [wfX, Bool.and_eq_true, decide_eq_true_eq, Bool.not_eq_true'] at h
  obtain ⟨h, h13⟩ := h
  obtain ⟨h, h12⟩ := h
  obtain ⟨h, h11⟩ := h
  obtain ⟨h, h10⟩ := h
  obtain ⟨h, h9⟩ := h
  obtain ⟨h, h8⟩ := h
  obtain ⟨h, h7⟩ := h
  obtain ⟨h, h6⟩ := h
  obtain ⟨h, h5⟩ := h
  obtain ⟨h, h4⟩ := h
  obtain ⟨h, h3⟩ := h
  obtain ⟨h1, h2⟩ := h
  exact ⟨h1, h2, h3, h4, h5, h6, h7, h8, h9, h10, h11, h12, h13⟩

/-- the reply without its extra sections has a well-formed layout -/
theorem wfX_layout (cfg : ConfigX) (st : State) (h : wfX cfg st = true) : LayoutOk cfg.base st := by
  obtain ⟨_, hp, ht, _, hpid, hsec, hcov, _⟩ := wfX_parts cfg st h
  have hflat : cfg.base.layout.flatten = slicesOf cfg.layout.flatten := flatten_map_slicesOf cfg.layout
  refine ⟨?_, by rw [hflat]; exact hcov, fun p hp' => List.all_eq_true.mp hp p hp',
    fun t ht' => List.all_eq_true.mp ht t ht', ?_⟩
  · intro sl hsl
    rw [hflat, mem_slicesOf] at hsl
    exact List.all_eq_true.mp hsec _ hsl
  · intro l hl
    rw [hl] at hpid
    simp only [Option.all_some, Bool.and_eq_true, beq_iff_eq] at hpid
    exact ⟨hpid.1, fun v hv => List.all_eq_true.mp hpid.2 v hv⟩

theorem wfX_sections (cfg : ConfigX) (st : State) (h : wfX cfg st = true) : ∀ s ∈ cfg.layout.flatten, SectionOk st s := by
  have hl := wfX_layout cfg st h
  obtain ⟨_, _, _, _, _, hsec, _⟩ := wfX_parts cfg st h
  intro s hs
  cases s with
  | slice sl =>
    refine slice_values_ok cfg.base st hl sl ?_
    have hflat : cfg.base.layout.flatten = slicesOf cfg.layout.flatten := flatten_map_slicesOf cfg.layout
    rw [hflat, mem_slicesOf]
    exact hs
  | extra e => exact List.all_eq_true.mp hsec _ hs

/-- the field sections of all packets of a reply with extra sections give back the players and teams -/
theorem parsePlayersAndTeamsX_spec (cfg : ConfigX) (st : State) (h : wfX cfg st = true) :
    parsePlayersAndTeams (cfg.layout.map (encSections st)) = .ok (st.players, st.teams) := by
  refine parsePlayersAndTeams_of_run cfg.base st (wfX_layout cfg st h) _ ?_
  rw [readAllSectionsX_run st cfg.layout (wfX_sections cfg st h) Tables.init]
  have hflat : cfg.base.layout.flatten = slicesOf cfg.layout.flatten := flatten_map_slicesOf cfg.layout
  rw [hflat]

theorem wfX_vars (cfg : ConfigX) (st : State) (h : wfX cfg st = true) : VarsOk st := by
  obtain ⟨hv, _, _, hlisted, _⟩ := wfX_parts cfg st h
  exact varsOk_of st hv hlisted

/-- `query`'s post-processing on the payloads of a reply with extra sections: the expected response -/
theorem buildResponseX_spec (cfg : ConfigX) (st : State) (h : wfX cfg st = true) :
    buildResponse (payloadsX cfg st) = .ok (expected st) := by
  have hv := wfX_vars cfg st h
  obtain ⟨_, _, _, _, _, _, _, hne, _⟩ := wfX_parts cfg st h
  cases hlay : cfg.layout with
  | nil => rw [hlay] at hne; cases hne
  | cons first rest =>
    have hp := parsePlayersAndTeamsX_spec cfg st h
    rw [hlay] at hp
    unfold buildResponse payloadsX
    simp only [hlay, List.head?_cons, okOr, Res.bind_ok, dataToMap_encVars st.vars hv.items hv.distinct,
      List.drop_succ_cons, List.drop_zero]
    simp only [List.map_cons] at hp
    rw [hp]
    exact fields_spec st hv

theorem buildVarsX_spec (cfg : ConfigX) (st : State) (h : wfX cfg st = true) :
    buildVars (payloadsX cfg st) = .ok st.vars := by
  have hv := wfX_vars cfg st h
  unfold buildVars payloadsX
  cases hlay : cfg.layout with
  | nil =>
    have := dataToMap_encVars st.vars hv.items hv.distinct []
    simp only [List.append_nil] at this
    simp [okOr, this]
  | cons first rest =>
    simp [okOr, dataToMap_encVars st.vars hv.items hv.distinct]

/-! ### the wire -/

theorem payloadsX_ne_nil (cfg : ConfigX) (st : State) : payloadsX cfg st ≠ [] := by
  unfold payloadsX; split <;> simp

theorem encSection_ne_nil (st : State) (s : Section) : encSection st s ≠ [] := by
  cases s with
  | slice sl => exact encSlice_ne_nil st sl
  | extra e => simp [encSection, encExtra, cstr]

theorem wfX_wire (cfg : ConfigX) (st : State) (h : wfX cfg st = true) :
    (payloadsX cfg st).length ≤ 128 ∧ (∀ p ∈ payloadsX cfg st, p ≠ []) ∧ (∀ d ∈ dataPacketsX cfg st, d.length ≤ PACKET_SIZE)
    ∧ -(2 ^ 31 : Int) ≤ cfg.challenge ∧ cfg.challenge < 2 ^ 31 := by
  obtain ⟨_, _, _, _, _, _, _, hne, hrest, hlen, hlo, hhi, hsize⟩ := wfX_parts cfg st h
  refine ⟨?_, ?_, fun d hd => by simpa using List.all_eq_true.mp hsize d hd, hlo, hhi⟩
  · unfold payloadsX
    cases hl : cfg.layout with
    | nil => simp
    | cons first rest => rw [hl] at hlen; simpa using hlen
  · unfold payloadsX
    cases hl : cfg.layout with
    | nil => simp [encVars]
    | cons first rest =>
      rw [hl] at hrest
      simp only [List.drop_succ_cons, List.drop_zero, List.all_eq_true, Bool.not_eq_true', List.isEmpty_eq_false_iff] at hrest
      intro p hp
      rcases List.mem_cons.mp hp with rfl | hp
      · simp [encVars]
      · obtain ⟨ss, hss, rfl⟩ := List.mem_map.mp hp
        have := hrest ss hss
        cases ss with
        | nil => exact absurd rfl this
        | cons s r =>
          simp only [encSections, List.map_cons, List.flatten_cons, ne_eq, List.append_eq_nil_iff, not_and]
          intro h0
          exact absurd h0 (encSection_ne_nil st s)

/-- The whole exchange against the SPEC's server sending extra sections: `post` is applied to the
payloads, the client has sent exactly the two requests. -/
theorem exchangeX_spec (cfg : ConfigX) (st : State) (h : wfX cfg st = true) (port r : Nat) {α : Type}
    (post : List Bytes → Res α) (arrival : List Bytes) (harr : arrival.Perm (dataPacketsX cfg st)) :
    (exchange port r DEFAULT_PAYLOAD false post
        (Net.init [.opened ((handshakeReply cfg.challenge :: arrival).map .data)] [])).1 = post (payloadsX cfg st)
    ∧ sentOf (exchange port r DEFAULT_PAYLOAD false post
        (Net.init [.opened ((handshakeReply cfg.challenge :: arrival).map .data)] [])).2.log = requestsX cfg := by
  obtain ⟨hcount, hpay, hsize, hlo, hhi⟩ := wfX_wire cfg st h
  exact exchange_wire cfg.challenge hlo hhi cfg.unknown (payloadsX cfg st) (payloadsX_ne_nil cfg st) hcount hpay hsize
    port r post arrival harr

/-! ### `wfX` extends `wf`: a reply without extra sections -/

theorem slicesOf_map_slice (ss : List Slice) : slicesOf (ss.map .slice) = ss := by
  induction ss with
  | nil => rfl
  | cons sl r ih => simp [slicesOf, ih]

theorem encSections_map_slice (st : State) (ss : List Slice) : encSections st (ss.map .slice) = encSlices st ss := by
  simp [encSections, encSlices, List.map_map, Function.comp_def, encSection]

theorem payloadsX_toX (cfg : Config) (st : State) : payloadsX cfg.toX st = payloads cfg st := by
  unfold payloadsX payloads Config.toX
  cases cfg.layout with
  | nil => rfl
  | cons first rest => simp [encSections_map_slice, List.map_map, Function.comp_def]

theorem base_toX (cfg : Config) : cfg.toX.base = cfg := by
  cases cfg with
  | mk c layout u =>
    simp only [Config.toX, ConfigX.base, List.map_map, Function.comp_def, slicesOf_map_slice, List.map_id']

theorem wfX_toX (cfg : Config) (st : State) : wfX cfg.toX st = wf cfg st := by
  have hflat : slicesOf cfg.toX.layout.flatten = cfg.layout.flatten := by
    rw [← flatten_map_slicesOf]
    exact congrArg (fun c => c.layout.flatten) (base_toX cfg)
  have hsec : cfg.toX.layout.flatten.all (wfSection st) = cfg.layout.flatten.all (wfSlice st) := by
    have : cfg.toX.layout.flatten = cfg.layout.flatten.map .slice := by
      simp [Config.toX, List.map_flatten]
    rw [this, List.all_map]
    rfl
  have hdp : dataPacketsX cfg.toX st = dataPackets cfg st := by
    simp only [dataPacketsX, dataPackets, payloadsX_toX]
    rfl
  have hemp : cfg.toX.layout.isEmpty = cfg.layout.isEmpty := by
    simp [Config.toX]
  have hdrop : (cfg.toX.layout.drop 1).all (fun ss => !ss.isEmpty) = (cfg.layout.drop 1).all (fun ss => !ss.isEmpty) := by
    simp only [Config.toX]
    cases cfg.layout with
    | nil => rfl
    | cons first rest => simp [List.all_map, Function.comp_def]
  have hlen : cfg.toX.layout.length = cfg.layout.length := by simp [Config.toX]
  have hch : cfg.toX.challenge = cfg.challenge := rfl
  unfold wfX wf
  rw [hflat, hsec, hdp, hemp, hdrop, hlen, hch]

end Gd.Gs3
