import GdVerif.Lemmas.Decodes
import GdVerif.Lemmas.Text
/-
  Text lemmas used by the Minecraft decode theorems (all about `GdVerif/Base.lean` + `Buffer.lean`
  definitions; nothing Minecraft-specific): decimal rendering vs. Rust's integer `FromStr`, UTF-16 and
  UTF-8 round trips on Unicode scalar values, the UTF-16 string decoder on SPEC-encoded text, splitting.
-/
namespace Gd

/-! ### decimal text -/

/-- ASCII decimal digits -/
def IsDigits (bs : Bytes) : Prop := ∀ b ∈ bs, 48 ≤ b.toNat ∧ b.toNat ≤ 57

theorem isDigit_bounds {b : UInt8} (h : isDigit b = true) : 48 ≤ b.toNat ∧ b.toNat ≤ 57 := by
  simpa [isDigit, inRange] using h

theorem natDec_digits (n : Nat) : IsDigits (natDec n) := by
  intro b hb
  exact isDigit_bounds (List.all_eq_true.mp (natDec_spec n).1 b hb)

theorem natDec_ne_nil (n : Nat) : natDec n ≠ [] := (natDec_spec n).2.1

theorem digitsVal_natDec (n : Nat) : digitsVal (natDec n) = n := (natDec_spec n).2.2

theorem IsDigits.all {bs : Bytes} (h : IsDigits bs) : bs.all isDigit = true := by
  rw [List.all_eq_true]
  intro b hb
  have := h b hb
  simp [isDigit, inRange, this.1, this.2]

theorem parseSigned_digits (bits : Nat) (s : Bytes) (hne : s ≠ []) (hd : IsDigits s) :
    parseSigned bits s = if digitsVal s < 2 ^ (bits - 1) then some (digitsVal s : Int) else none := by
  have hall := hd.all
  unfold parseSigned
  split
  · rename_i neg ds heq
    split at heq
    · exact absurd (hd 43 (by simp)).1 (by decide)
    · exact absurd (hd 45 (by simp)).1 (by decide)
    · cases heq
      have hemp : s.isEmpty = false := by cases s <;> simp_all
      simp [hemp, hall]

theorem parseSigned_minus_digits (bits : Nat) (s : Bytes) (hne : s ≠ []) (hd : IsDigits s) :
    parseSigned bits (45 :: s) = if digitsVal s ≤ 2 ^ (bits - 1) then some (-(digitsVal s : Int)) else none := by
  have hall := hd.all
  unfold parseSigned
  split
  · rename_i neg ds heq
    split at heq
    · rename_i r h43; cases h43
    · rename_i r h45
      cases h45; cases heq
      have hemp : s.isEmpty = false := by cases s <;> simp_all
      simp [hemp, hall]
    · rename_i hn43 hn45
      exact absurd rfl (hn45 s)

theorem intDec_nonneg (n : Nat) : intDec (n : Int) = natDec n := by
  have : ¬ ((n : Int) < 0) := by omega
  simp [intDec, this]

theorem intDec_neg (n : Nat) (h : 0 < n) : intDec (-(n : Int)) = 45 :: natDec n := by
  have hlt : (-(n : Int)) < 0 := by omega
  unfold intDec
  rw [if_pos hlt, Int.neg_neg, Int.toNat_natCast]

/-- Rust `str::parse::<i32>` (and any signed width) reads back what `to_string` printed -/
theorem mc_parseSigned_intDec (bits : Nat) (i : Int) (hlo : -(2 ^ (bits - 1) : Int) ≤ i) (hhi : i < 2 ^ (bits - 1)) :
    parseSigned bits (intDec i) = some i := by
  have hcast : ((2 ^ (bits - 1) : Nat) : Int) = (2 : Int) ^ (bits - 1) := by simp
  by_cases hi : 0 ≤ i
  · obtain ⟨n, rfl⟩ := Int.eq_ofNat_of_zero_le hi
    rw [intDec_nonneg, parseSigned_digits bits _ (natDec_ne_nil n) (natDec_digits n), digitsVal_natDec]
    have hlt : n < 2 ^ (bits - 1) := by omega
    simp [hlt]
  · obtain ⟨n, hn⟩ : ∃ n : Nat, i = -(n : Int) := ⟨(-i).toNat, by omega⟩
    subst hn
    have hpos : 0 < n := by omega
    rw [intDec_neg n hpos, parseSigned_minus_digits bits _ (natDec_ne_nil n) (natDec_digits n), digitsVal_natDec]
    have hle : n ≤ 2 ^ (bits - 1) := by omega
    simp [hle]

end Gd
