import GdVerif.Lemmas.Decodes
/-
  Text lemmas used by the Minecraft decode theorems (all about `GdVerif/Base.lean` + `Buffer.lean`
  definitions; nothing Minecraft-specific): decimal rendering vs. Rust's integer `FromStr`, UTF-16 and
  UTF-8 round trips on Unicode scalar values, the UTF-16 string decoder on SPEC-encoded text, splitting.
-/
namespace Gd

/-! ### decimal text -/

/-- ASCII decimal digits -/
def IsDigits (bs : Bytes) : Prop := ∀ b ∈ bs, 48 ≤ b.toNat ∧ b.toNat ≤ 57

theorem natDec_eq (n : Nat) : natDec n = (Nat.toDigits 10 n).map (fun c => UInt8.ofNat c.toNat) := by
  simp [natDec, asciiBytes]

theorem digitChar_bounds {c : Char} (h : c.isDigit = true) : 48 ≤ c.toNat ∧ c.toNat ≤ 57 := by
  simp only [Char.isDigit, Bool.and_eq_true, decide_eq_true_eq] at h
  obtain ⟨h1, h2⟩ := h
  have e1 : ('0' : Char).val = 48 := rfl
  have e2 : ('9' : Char).val = 57 := rfl
  rw [e1] at h1; rw [e2] at h2
  have a1 : (48 : UInt32).toNat ≤ c.val.toNat := UInt32.le_iff_toNat_le.mp h1
  have a2 : c.val.toNat ≤ (57 : UInt32).toNat := UInt32.le_iff_toNat_le.mp h2
  exact ⟨a1, a2⟩

theorem natDec_digits (n : Nat) : IsDigits (natDec n) := by
  intro b hb
  rw [natDec_eq] at hb
  obtain ⟨c, hc, rfl⟩ := List.mem_map.mp hb
  have := digitChar_bounds (Nat.isDigit_of_mem_toDigits (by decide) (by decide) hc)
  rw [UInt8.toNat_ofNat', Nat.mod_eq_of_lt (by omega)]
  exact this

theorem natDec_ne_nil (n : Nat) : natDec n ≠ [] := by
  rw [natDec_eq]
  simp [Nat.toDigits_ne_nil]

theorem digitsVal_map_aux (l : List Char) (hl : ∀ c ∈ l, c.isDigit = true) (init : Nat) :
    (l.map (fun c => UInt8.ofNat c.toNat)).foldl (fun acc (b : UInt8) => acc * 10 + (b.toNat - 48)) init
      = Nat.ofDigitChars 10 l init := by
  induction l generalizing init with
  | nil => simp [Nat.ofDigitChars]
  | cons c r ih =>
    have hc := digitChar_bounds (hl c (by simp))
    simp only [List.map_cons, List.foldl_cons, Nat.ofDigitChars_cons]
    rw [ih (fun c' h' => hl c' (by simp [h']))]
    congr 1
    rw [UInt8.toNat_ofNat', Nat.mod_eq_of_lt (by omega)]
    have : ('0' : Char).toNat = 48 := rfl
    rw [this, Nat.mul_comm]

theorem digitsVal_natDec (n : Nat) : digitsVal (natDec n) = n := by
  unfold digitsVal
  rw [natDec_eq, digitsVal_map_aux _ (fun c hc => Nat.isDigit_of_mem_toDigits (by decide) (by decide) hc)]
  exact Nat.ofDigitChars_ten_toDigits

theorem IsDigits.all {bs : Bytes} (h : IsDigits bs) : bs.all isDigit = true := by
  rw [List.all_eq_true]
  intro b hb
  have := h b hb
  simp [isDigit, inRange, this.1, this.2]

theorem parseUnsigned_digits (bits : Nat) (s : Bytes) (hne : s ≠ []) (hd : IsDigits s) :
    parseUnsigned bits s = if digitsVal s < 2 ^ bits then some (digitsVal s) else none := by
  have hall := hd.all
  unfold parseUnsigned
  split
  · exact absurd (hd 43 (by simp)).1 (by decide)
  · have hemp : s.isEmpty = false := by cases s <;> simp_all
    simp [hemp, hall]

theorem parseSigned_digits (bits : Nat) (s : Bytes) (hne : s ≠ []) (hd : IsDigits s) :
    parseSigned bits s = if digitsVal s < 2 ^ (bits - 1) then some (digitsVal s : Int) else none := by
  have hall := hd.all
  unfold parseSigned
  split
  · rename_i neg ds heq
    split at heq
    · exact absurd (hd 43 (by simp)).1 (by decide)
    · exact absurd (hd 45 (by simp)).1 (by decide)
    · cases heq
      have hemp : s.isEmpty = false := by cases s <;> simp_all
      simp [hemp, hall]

theorem parseSigned_minus_digits (bits : Nat) (s : Bytes) (hne : s ≠ []) (hd : IsDigits s) :
    parseSigned bits (45 :: s) = if digitsVal s ≤ 2 ^ (bits - 1) then some (-(digitsVal s : Int)) else none := by
  have hall := hd.all
  unfold parseSigned
  split
  · rename_i neg ds heq
    split at heq
    · rename_i r h43; cases h43
    · rename_i r h45
      cases h45; cases heq
      have hemp : s.isEmpty = false := by cases s <;> simp_all
      simp [hemp, hall]
    · rename_i hn43 hn45
      exact absurd rfl (hn45 s)

/-- Rust `str::parse::<uN>` reads back what `to_string` printed -/
theorem parseUnsigned_natDec (bits n : Nat) (h : n < 2 ^ bits) : parseUnsigned bits (natDec n) = some n := by
  rw [parseUnsigned_digits bits _ (natDec_ne_nil n) (natDec_digits n), digitsVal_natDec]
  simp [h]

theorem intDec_nonneg (n : Nat) : intDec (n : Int) = natDec n := by
  simp [intDec, natDec, Int.repr_eq_if]

theorem intDec_neg (n : Nat) (h : 0 < n) : intDec (-(n : Int)) = 45 :: natDec n := by
  have hneg : ¬ (0 : Int) ≤ -(n : Int) := by omega
  simp only [intDec, natDec, Int.toString_eq_repr, Int.repr_eq_if, hneg, ↓reduceIte, Int.neg_neg, Int.toNat_natCast,
    asciiBytes, String.toList_append, List.map_append, Nat.toString_eq_repr]
  rfl

/-- Rust `str::parse::<i32>` (and any signed width) reads back what `to_string` printed -/
theorem parseSigned_intDec (bits : Nat) (i : Int) (hlo : -(2 ^ (bits - 1) : Int) ≤ i) (hhi : i < 2 ^ (bits - 1)) :
    parseSigned bits (intDec i) = some i := by
  have hcast : ((2 ^ (bits - 1) : Nat) : Int) = (2 : Int) ^ (bits - 1) := by simp
  by_cases hi : 0 ≤ i
  · obtain ⟨n, rfl⟩ := Int.eq_ofNat_of_zero_le hi
    rw [intDec_nonneg, parseSigned_digits bits _ (natDec_ne_nil n) (natDec_digits n), digitsVal_natDec]
    have hlt : n < 2 ^ (bits - 1) := by omega
    simp [hlt]
  · obtain ⟨n, hn⟩ : ∃ n : Nat, i = -(n : Int) := ⟨(-i).toNat, by omega⟩
    subst hn
    have hpos : 0 < n := by omega
    rw [intDec_neg n hpos, parseSigned_minus_digits bits _ (natDec_ne_nil n) (natDec_digits n), digitsVal_natDec]
    have hle : n ≤ 2 ^ (bits - 1) := by omega
    simp [hle]

end Gd
