import GdVerif.Lemmas.QLogic
import GdVerif.Lemmas.Decodes
/-
  Helpers shared by the single-game families (C07 owners):

  * `LogSafe P q`: a program logic for query computations that open their own sockets (possibly one per
    retry): from ANY transport state `q` does not crash and everything it appends to the log satisfies `P`.
    (`QSafe` of `Lemmas/QLogic.lean` is about one socket that is already open.)
  * `QSafe.mono` / `Step.mono`: weakening of the event predicate.
  * decoding lemmas for the length-prefixed string reader and for `.ok()`-optional trailing fields.
-/
namespace Gd

/-! ### weakening for `QSafe` -/

theorem Step.mono {P P' : Ev → Prop} (h : ∀ e, P e → P' e) {w w' : Net} (hs : Step P w w') : Step P' w w' := by
  obtain ⟨added, e1, p1⟩ := hs.log
  exact ⟨⟨added, e1, fun e he => h e (p1 e he)⟩, hs.shrink, hs.grow⟩

theorem QSafe.mono {s : Sock} {P P' : Ev → Prop} {q : Q α} (h : ∀ e, P e → P' e) (hq : QSafe s P q) : QSafe s P' q :=
  fun w hw => ⟨(hq w hw).1, (hq w hw).2.mono h⟩

/-! ### `LogSafe` -/

/-- from any state: no crash, and the log grows by events satisfying `P` -/
def LogSafe (P : Ev → Prop) (q : Q α) : Prop :=
  ∀ w, (q w).1 ≠ .crash ∧ ∃ added, (q w).2.log = w.log ++ added ∧ ∀ e ∈ added, P e

namespace LogSafe

theorem pure (P : Ev → Prop) (a : α) : LogSafe P (Pure.pure a : Q α) :=
  fun w => ⟨by simp, [], by simp, by simp⟩

theorem fail (P : Ev → Prop) (k : ErrKind) : LogSafe P (Q.fail k : Q α) :=
  fun w => ⟨by simp [Q.fail], [], by simp [Q.fail], by simp⟩

theorem lift (P : Ev → Prop) (r : Res α) (h : r ≠ .crash) : LogSafe P (Q.lift r) :=
  fun w => ⟨h, [], by simp [Q.lift], by simp⟩

theorem bind {P : Ev → Prop} {q : Q α} {f : α → Q β} (hq : LogSafe P q) (hf : ∀ a, LogSafe P (f a)) :
    LogSafe P (q >>= f) := by
  intro w
  obtain ⟨h1, a1, e1, p1⟩ := hq w
  rw [Q.bind_apply]
  cases hqw : q w with
  | mk res w1 =>
    rw [hqw] at h1 e1
    cases res with
    | ok a =>
      obtain ⟨h2, a2, e2, p2⟩ := hf a w1
      refine ⟨h2, a1 ++ a2, by rw [e2, e1, List.append_assoc], ?_⟩
      intro e he
      rcases List.mem_append.mp he with h | h
      · exact p1 e h
      · exact p2 e h
    | err k => exact ⟨by simp, a1, e1, p1⟩
    | crash => exact absurd rfl h1

theorem ite {P : Ev → Prop} {c : Prop} [Decidable c] {p q : Q α} (hp : LogSafe P p) (hq : LogSafe P q) :
    LogSafe P (if c then p else q) := by
  split <;> assumption

theorem parse (P : Ev → Prop) {p : Par α} (hp : Safe p) (data : Bytes) : LogSafe P (parse p data) := by
  apply LogSafe.lift
  have := hp (Buf.new data)
  unfold Par.run
  cases h : p (Buf.new data) with
  | ok x => simp
  | err k => simp
  | crash => rw [h] at this; exact this.elim

theorem openSock (P : Ev → Prop) (tcp : Bool) (port : Nat) (h : ∀ c r, P (.opened c tcp port r)) :
    LogSafe P (openSock tcp port) := by
  intro w
  unfold Gd.openSock
  split
  · exact ⟨by simp, [_], rfl, by simpa using h _ _⟩
  · exact ⟨by simp, [_], rfl, by simpa using h _ _⟩
  · exact ⟨by simp, [_], rfl, by simpa using h _ _⟩

theorem send (P : Ev → Prop) (s : Sock) (data : Bytes) (h : ∀ failed, P (.send s.id s.port data failed)) :
    LogSafe P (send s data) := by
  intro w
  unfold Gd.send
  split
  · exact ⟨by simp, [_], rfl, by simpa using h true⟩
  · exact ⟨by simp, [_], rfl, by simpa using h false⟩
  · exact ⟨by simp, [_], rfl, by simpa using h false⟩

theorem recv (P : Ev → Prop) (s : Sock) (size : Option Nat) (h : ∀ got, P (.recv s.id size got)) :
    LogSafe P (recv s size) := by
  intro w
  unfold Gd.recv
  split
  · exact ⟨by simp, [_], rfl, by simpa using h _⟩
  · exact ⟨by simp, [_], rfl, by simpa using h _⟩
  · split
    · exact ⟨by simp, [_], rfl, by simpa using h _⟩
    · exact ⟨by simp, [_], rfl, by simpa using h _⟩

theorem retry {P : Ev → Prop} {q : Q α} (hq : LogSafe P q) (r : Nat) : LogSafe P (retryOnTimeout r q) := by
  induction r with
  | zero => exact hq
  | succ r ih =>
    intro w
    obtain ⟨h1, a1, e1, p1⟩ := hq w
    simp only [retryOnTimeout]
    cases hqw : q w with
    | mk res w1 =>
      rw [hqw] at h1 e1
      cases res with
      | ok a => exact ⟨by simp, a1, e1, p1⟩
      | crash => exact absurd rfl h1
      | err k =>
        simp only
        split
        · obtain ⟨h2, a2, e2, p2⟩ := ih w1
          refine ⟨h2, a1 ++ a2, by rw [e2, e1, List.append_assoc], ?_⟩
          intro e he
          rcases List.mem_append.mp he with h | h
          · exact p1 e h
          · exact p2 e h
        · exact ⟨by simp, a1, e1, p1⟩

/-- a computation on a socket it has just opened: `QSafe` for that socket gives `LogSafe` for the whole -/
theorem ofOpen {P : Ev → Prop} (tcp : Bool) (port : Nat) {f : Sock → Q α}
    (hopen : ∀ c r, P (.opened c tcp port r))
    (hf : ∀ s : Sock, s.port = port → s.tcp = tcp → QSafe s P (f s)) :
    LogSafe P (Gd.openSock tcp port >>= f) := by
  intro w
  rw [Q.bind_apply]
  have fin : ∀ (w0 : Net) (ev : Ev), w0.log = w.log ++ [ev] → P ev → IsOpen ⟨w.conns.length, port, tcp⟩ w0 →
      (f ⟨w.conns.length, port, tcp⟩ w0).1 ≠ .crash
      ∧ ∃ added, (f ⟨w.conns.length, port, tcp⟩ w0).2.log = w.log ++ added ∧ ∀ e ∈ added, P e := by
    intro w0 ev hlog0 hev hop
    obtain ⟨h1, h2⟩ := hf ⟨w.conns.length, port, tcp⟩ rfl rfl w0 hop
    obtain ⟨added, hlog, hall⟩ := h2.log
    refine ⟨h1, ev :: added, by rw [hlog, hlog0]; simp, ?_⟩
    intro e he
    rcases List.mem_cons.mp he with rfl | he'
    · exact hev
    · exact hall e he'
  cases hp : w.pending with
  | nil =>
    simp only [Gd.openSock, hp]
    exact fin _ _ rfl (hopen _ _) (by simp [IsOpen])
  | cons c rest =>
    cases c with
    | opened ds =>
      simp only [Gd.openSock, hp]
      exact fin _ _ rfl (hopen _ _) (by simp [IsOpen])
    | refused =>
      simp only [Gd.openSock, hp]
      refine ⟨by simp, [_], rfl, ?_⟩
      intro e he
      rcases List.mem_singleton.mp he with rfl
      exact hopen _ _

/-- the statement for a run from the initial state -/
theorem run {P : Ev → Prop} {q : Q α} (hq : LogSafe P q) (script : List ConnScript) (faults : List Bool) :
    (q (Net.init script faults)).1 ≠ .crash ∧ ∀ e ∈ (q (Net.init script faults)).2.log, P e := by
  obtain ⟨h1, added, e1, p1⟩ := hq (Net.init script faults)
  refine ⟨h1, ?_⟩
  intro e he
  rw [e1] at he
  simp only [Net.init, List.nil_append] at he
  exact p1 e he

end LogSafe


/-- a computation on a socket it has just opened, with the event predicate allowed to mention the socket's
number: `QSafe` for that socket gives crash freedom and log conformance of the whole from any state -/
theorem openThen_safe (tcp : Bool) (port : Nat) {f : Sock → Q α} (P : Nat → Ev → Prop)
    (hopen : ∀ id r, P id (.opened id tcp port r))
    (hf : ∀ s : Sock, s.port = port → s.tcp = tcp → QSafe s (P s.id) (f s)) (w : Net) :
    ((openSock tcp port >>= f) w).1 ≠ .crash
    ∧ ∃ added, ((openSock tcp port >>= f) w).2.log = w.log ++ added ∧ ∀ e ∈ added, P w.conns.length e := by
  rw [Q.bind_apply]
  have fin : ∀ (w0 : Net) (ev : Ev), w0.log = w.log ++ [ev] → P w.conns.length ev →
      IsOpen ⟨w.conns.length, port, tcp⟩ w0 →
      (f ⟨w.conns.length, port, tcp⟩ w0).1 ≠ .crash
      ∧ ∃ added, (f ⟨w.conns.length, port, tcp⟩ w0).2.log = w.log ++ added ∧ ∀ e ∈ added, P w.conns.length e := by
    intro w0 ev hlog0 hev hop
    obtain ⟨h1, h2⟩ := hf ⟨w.conns.length, port, tcp⟩ rfl rfl w0 hop
    obtain ⟨added, hlog, hall⟩ := h2.log
    refine ⟨h1, ev :: added, by rw [hlog, hlog0]; simp, ?_⟩
    intro e he
    rcases List.mem_cons.mp he with rfl | he'
    · exact hev
    · exact hall e he'
  cases hp : w.pending with
  | nil =>
    simp only [openSock, hp]
    exact fin _ _ rfl (hopen _ _) (by simp [IsOpen])
  | cons c rest =>
    cases c with
    | opened ds =>
      simp only [openSock, hp]
      exact fin _ _ rfl (hopen _ _) (by simp [IsOpen])
    | refused =>
      simp only [openSock, hp]
      refine ⟨by simp, [_], rfl, ?_⟩
      intro e he
      rcases List.mem_singleton.mp he with rfl
      exact hopen _ _

/-- from the initial state the socket is number 0 -/
theorem openThen_run (tcp : Bool) (port : Nat) {f : Sock → Q α} (P : Nat → Ev → Prop)
    (hopen : ∀ id r, P id (.opened id tcp port r))
    (hf : ∀ s : Sock, s.port = port → s.tcp = tcp → QSafe s (P s.id) (f s))
    (script : List ConnScript) (faults : List Bool) :
    ((openSock tcp port >>= f) (Net.init script faults)).1 ≠ .crash
    ∧ ∀ e ∈ ((openSock tcp port >>= f) (Net.init script faults)).2.log, P 0 e := by
  obtain ⟨h1, added, hlog, hall⟩ := openThen_safe tcp port P hopen hf (Net.init script faults)
  refine ⟨h1, ?_⟩
  intro e he
  rw [hlog] at he
  simp only [Net.init, List.nil_append] at he
  simpa [Net.init] using hall e he

/-! ### counting sends -/

def Ev.isSend : Ev → Bool
  | .send _ _ _ _ => true
  | _ => false

def countSends (l : List Ev) : Nat := (l.filter Ev.isSend).length

theorem countSends_append (a b : List Ev) : countSends (a ++ b) = countSends a + countSends b := by
  simp [countSends]

/-- from any state `q` appends at most `n` sends to the log -/
def SendBound (n : Nat) (q : Q α) : Prop :=
  ∀ w, ∃ added, (q w).2.log = w.log ++ added ∧ countSends added ≤ n

namespace SendBound

theorem mono {n m : Nat} {q : Q α} (h : SendBound n q) (hnm : n ≤ m) : SendBound m q := by
  intro w
  obtain ⟨a, e, c⟩ := h w
  exact ⟨a, e, Nat.le_trans c hnm⟩

theorem pure (a : α) : SendBound 0 (Pure.pure a : Q α) := fun w => ⟨[], by simp, by simp [countSends]⟩

theorem lift (r : Res α) : SendBound 0 (Q.lift r) := fun w => ⟨[], by simp [Q.lift], by simp [countSends]⟩

theorem parse (p : Par α) (d : Bytes) : SendBound 0 (parse p d) := lift _

theorem bind {n m : Nat} {q : Q α} {f : α → Q β} (hq : SendBound n q) (hf : ∀ a, SendBound m (f a)) :
    SendBound (n + m) (q >>= f) := by
  intro w
  obtain ⟨a1, e1, c1⟩ := hq w
  rw [Q.bind_apply]
  cases hqw : q w with
  | mk res w1 =>
    rw [hqw] at e1
    cases res with
    | ok a =>
      obtain ⟨a2, e2, c2⟩ := hf a w1
      exact ⟨a1 ++ a2, by rw [e2, e1, List.append_assoc], by rw [countSends_append]; omega⟩
    | err k => exact ⟨a1, e1, by omega⟩
    | crash => exact ⟨a1, e1, by omega⟩

theorem openSock (tcp : Bool) (port : Nat) : SendBound 0 (openSock tcp port) := by
  intro w
  unfold Gd.openSock
  split <;> exact ⟨[_], rfl, by simp [countSends, Ev.isSend]⟩

theorem send (s : Sock) (data : Bytes) : SendBound 1 (send s data) := by
  intro w
  unfold Gd.send
  split <;> exact ⟨[_], rfl, by simp [countSends, List.filter, Ev.isSend]⟩

theorem recv (s : Sock) (size : Option Nat) : SendBound 0 (recv s size) := by
  intro w
  unfold Gd.recv
  split
  · exact ⟨[_], rfl, by simp [countSends, Ev.isSend]⟩
  · exact ⟨[_], rfl, by simp [countSends, Ev.isSend]⟩
  · split <;> exact ⟨[_], rfl, by simp [countSends, Ev.isSend]⟩

/-- `r` retries: at most `r + 1` runs of the unit -/
theorem retry {n : Nat} {q : Q α} (hq : SendBound n q) (r : Nat) : SendBound ((r + 1) * n) (retryOnTimeout r q) := by
  induction r with
  | zero =>
    show SendBound ((0 + 1) * n) q
    rw [show (0 + 1) * n = n by omega]
    exact hq
  | succ r ih =>
    intro w
    obtain ⟨a1, e1, c1⟩ := hq w
    simp only [retryOnTimeout]
    have hle : n ≤ (r + 1 + 1) * n := by
      rw [Nat.add_mul]; omega
    cases hqw : q w with
    | mk res w1 =>
      rw [hqw] at e1
      cases res with
      | ok a => exact ⟨a1, e1, by omega⟩
      | crash => exact ⟨a1, e1, by omega⟩
      | err k =>
        simp only
        split
        · obtain ⟨a2, e2, c2⟩ := ih w1
          refine ⟨a1 ++ a2, by rw [e2, e1, List.append_assoc], ?_⟩
          rw [countSends_append, Nat.add_mul (r + 1) 1 n]
          omega
        · exact ⟨a1, e1, by omega⟩

theorem run {n : Nat} {q : Q α} (hq : SendBound n q) (script : List ConnScript) (faults : List Bool) :
    countSends (q (Net.init script faults)).2.log ≤ n := by
  obtain ⟨a, e, c⟩ := hq (Net.init script faults)
  rw [e]
  simpa [Net.init] using c

end SendBound

/-- a successful first attempt is the result of the retried unit -/
theorem retryOnTimeout_ok {f : Q α} {w w' : Net} {a : α} (r : Nat) (h : f w = (.ok a, w')) :
    retryOnTimeout r f w = (.ok a, w') := by
  cases r with
  | zero => exact h
  | succ r => simp only [retryOnTimeout, h]

/-! ### no crash from a `Safe` parser -/

theorem Safe.run_ne_crash {p : Par α} (hp : Safe p) (data : Bytes) : p.run data ≠ .crash := by
  have := hp (Buf.new data)
  unfold Par.run
  cases h : p (Buf.new data) with
  | ok x => simp
  | err k => simp
  | crash => rw [h] at this; exact this.elim

/-- a parser that decodes a prefix ignores whatever follows it -/
theorem Decodes.run_append {p : Par α} {e : Bytes} {x : α} (h : Decodes p e x) (post : Bytes) :
    p.run (e ++ post) = .ok x := by
  obtain ⟨b', hp, _, _⟩ := h (Buf.new (e ++ post)) post (by simp)
  simp [Par.run, hp]

/-! ### the length-prefixed string reader -/

/-- one length byte, then that many bytes: the text is what precedes the first NUL among them (all of them when
there is none), and exactly the length byte and the declared bytes are consumed -/
theorem decodes_readLenStr_cut (s : Bytes) (hl : s.length < 256)
    (hv : validUtf8 (s.take (findByte 0 s)) = true) :
    Decodes readLenStr (UInt8.ofNat s.length :: s) (s.take (findByte 0 s)) := by
  intro b post hr
  have hr' : b.rest = UInt8.ofNat s.length :: (s ++ post) := by simpa using hr
  have hlen : (UInt8.ofNat s.length).toNat = s.length := by
    simp [UInt8.toNat_ofNat', Nat.mod_eq_of_lt hl]
  have hpos : findByte 0 s ≤ s.length := findByte_le 0 s
  have htake : (s ++ post).take (findByte 0 s) = s.take (findByte 0 s) := List.take_append_of_le_length hpos
  refine ⟨b.advance (1 + s.length), ?_, ?_, by simp⟩
  · unfold readLenStr readStringWith utf8LenDec
    simp only [hr', hlen, List.take_left', htake, hv]
    simp
  · have := Buf.advance_append b (UInt8.ofNat s.length :: s) post hr
    simpa [Nat.add_comm] using this

/-- one length byte, then that many bytes of valid UTF-8 without NUL -/
theorem decodes_readLenStr (s : Bytes) (hl : s.length < 256) (h0 : (0 : UInt8) ∉ s) (hv : validUtf8 s = true) :
    Decodes readLenStr (UInt8.ofNat s.length :: s) s := by
  have hf : findByte 0 s = s.length := findByte_none 0 s h0
  have := decodes_readLenStr_cut s hl (by rw [hf, List.take_length]; exact hv)
  rwa [hf, List.take_length] at this

theorem readLenStr_at_end (b : Buf) (h : b.rest = []) : ∃ k, readLenStr b = .err k :=
  ⟨.packetBad, by simp [readLenStr, readStringWith, utf8LenDec, h]⟩

end Gd
