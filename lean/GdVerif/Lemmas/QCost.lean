import GdVerif.Net
/-
  Counting logic for query computations: how many datagrams a computation sends, relative to how
  many it successfully received.  `Cost ko ke q`: whatever the state, `q` appends events to the log
  such that  (#sends) ≤ ko + (#successful receives)  when it succeeds and  ≤ ke + (#successful
  receives) when it fails or crashes.  `ko`/`ke` are integers: a successful receive "earns" a send
  (the challenge echo), so `recv` has `ko = -1`.
-/
namespace Gd

def isSend : Ev → Bool
  | .send _ _ _ _ => true
  | _ => false

def isRecvOk : Ev → Bool
  | .recv _ _ (some _) => true
  | _ => false

def nSends (l : List Ev) : Nat := l.countP isSend
def nRecvOk (l : List Ev) : Nat := l.countP isRecvOk

theorem nSends_append (a b : List Ev) : nSends (a ++ b) = nSends a + nSends b := by simp [nSends]
theorem nRecvOk_append (a b : List Ev) : nRecvOk (a ++ b) = nRecvOk a + nRecvOk b := by simp [nRecvOk]

def Cost (ko ke : Int) (q : Q α) : Prop :=
  ∀ w, ∃ added, (q w).2.log = w.log ++ added ∧
    (match (q w).1 with
     | .ok _ => (nSends added : Int) ≤ ko + nRecvOk added
     | _ => (nSends added : Int) ≤ ke + nRecvOk added)

theorem Cost.weaken {q : Q α} {ko ke ko' ke' : Int} (h : Cost ko ke q) (h1 : ko ≤ ko') (h2 : ke ≤ ke') :
    Cost ko' ke' q := by
  intro w
  obtain ⟨added, hl, hc⟩ := h w
  refine ⟨added, hl, ?_⟩
  cases hr : (q w).1 <;> rw [hr] at hc <;> simp only at hc ⊢ <;> omega

theorem Cost.pure (a : α) : Cost 0 0 (pure a : Q α) :=
  fun w => ⟨[], by simp, by simp [nSends, nRecvOk]⟩

theorem Cost.fail (k : ErrKind) : Cost 0 0 (Q.fail k : Q α) :=
  fun w => ⟨[], by simp [Q.fail], by simp [Q.fail, nSends, nRecvOk]⟩

theorem Cost.lift (r : Res α) : Cost 0 0 (Q.lift r) :=
  fun w => ⟨[], by simp [Q.lift], by cases r <;> simp [Q.lift, nSends, nRecvOk]⟩

theorem Cost.parse (p : Par α) (data : Bytes) : Cost 0 0 (parse p data) := Cost.lift _

theorem Cost.bind {q : Q α} {f : α → Q β} {ko1 ke1 ko2 ke2 : Int}
    (hq : Cost ko1 ke1 q) (hf : ∀ a, Cost ko2 ke2 (f a)) :
    Cost (ko1 + ko2) (max ke1 (ko1 + ke2)) (q >>= f) := by
  intro w
  obtain ⟨a1, hl1, hc1⟩ := hq w
  rw [Q.bind_apply]
  cases hqw : q w with
  | mk res w1 =>
    rw [hqw] at hl1 hc1
    cases res with
    | ok a =>
      obtain ⟨a2, hl2, hc2⟩ := hf a w1
      refine ⟨a1 ++ a2, by rw [hl2, hl1, List.append_assoc], ?_⟩
      simp only at hc1 ⊢
      rw [nSends_append, nRecvOk_append]
      cases hr : (f a w1).1 <;> rw [hr] at hc2 <;> simp only at hc2 ⊢ <;> omega
    | err k =>
      refine ⟨a1, hl1, ?_⟩
      simp only at hc1 ⊢
      omega
    | crash =>
      refine ⟨a1, hl1, ?_⟩
      simp only at hc1 ⊢
      omega

theorem Cost.send (s : Sock) (data : Bytes) : Cost 1 1 (send s data) := by
  intro w
  unfold Gd.send
  split <;> exact ⟨_, rfl, by simp [nSends, nRecvOk, isSend, isRecvOk]⟩

theorem Cost.recv (s : Sock) (size : Option Nat) : Cost (-1) 0 (recv s size) := by
  intro w
  unfold Gd.recv
  split
  · exact ⟨_, rfl, by simp [nSends, nRecvOk, isSend, isRecvOk]⟩
  · exact ⟨_, rfl, by simp [nSends, nRecvOk, isSend, isRecvOk]⟩
  · split <;> exact ⟨_, rfl, by simp [nSends, nRecvOk, isSend, isRecvOk]⟩

theorem Cost.ite {c : Prop} [Decidable c] {p q : Q α} {ko ke : Int} (hp : Cost ko ke p) (hq : Cost ko ke q) :
    Cost ko ke (if c then p else q) := by
  split <;> assumption

/-- retrying a unit whose every attempt costs at most `k` sends beyond its receives -/
theorem Cost.retry {q : Q α} {k : Nat} (hq : Cost k k q) (r : Nat) :
    Cost ((k * (r + 1) : Nat) : Int) ((k * (r + 1) : Nat) : Int) (retryOnTimeout r q) := by
  induction r with
  | zero =>
    simp only [Nat.zero_add, Nat.mul_one, retryOnTimeout]
    exact hq
  | succ r ih =>
    intro w
    obtain ⟨a1, hl1, hc1⟩ := hq w
    simp only [retryOnTimeout]
    have hAB : ((k * (r + 1 + 1) : Nat) : Int) = ((k * (r + 1) : Nat) : Int) + (k : Int) := by
      rw [Nat.mul_succ]; push_cast; rfl
    have hA : (0 : Int) ≤ ((k * (r + 1) : Nat) : Int) := Int.natCast_nonneg _
    generalize ((k * (r + 1) : Nat) : Int) = A at hAB hA ih
    generalize ((k * (r + 1 + 1) : Nat) : Int) = B at hAB
    cases hqw : q w with
    | mk res w1 =>
      rw [hqw] at hl1 hc1
      cases res with
      | ok a =>
        refine ⟨a1, hl1, ?_⟩
        simp only at hc1 ⊢
        omega
      | crash =>
        refine ⟨a1, hl1, ?_⟩
        simp only at hc1 ⊢
        omega
      | err e =>
        simp only
        split
        · obtain ⟨a2, hl2, hc2⟩ := ih w1
          refine ⟨a1 ++ a2, by rw [hl2, hl1, List.append_assoc], ?_⟩
          simp only at hc1
          rw [nSends_append, nRecvOk_append]
          push_cast
          cases hr : (retryOnTimeout r q w1).1 <;> rw [hr] at hc2 <;> simp only at hc2 ⊢ <;> omega
        · refine ⟨a1, hl1, ?_⟩
          simp only at hc1 ⊢
          omega

theorem Cost.maybeGather {q : Q α} {k : Int} (hk : 0 ≤ k) (hq : Cost k k q) (t : Toggle) : Cost k k (Gd.maybeGather t q) := by
  cases t with
  | skip => exact (Cost.pure none).weaken hk hk
  | try_ =>
    intro w
    obtain ⟨a1, hl1, hc1⟩ := hq w
    simp only [Gd.maybeGather]
    cases hqw : q w with
    | mk res w1 =>
      rw [hqw] at hl1 hc1
      cases res <;> exact ⟨a1, hl1, by simpa using hc1⟩
  | enforce =>
    have := Cost.bind hq (fun a => Cost.pure (some a))
    exact this.weaken (by omega) (by omega)

end Gd
