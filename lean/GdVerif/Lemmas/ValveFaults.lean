import GdVerif.Lemmas.ValveWhole2
import GdVerif.Lemmas.QSteps
import GdVerif.Spec.ValveFaults
/-
  The whole Valve query with FAULTS injected (C10 end to end).

  `Lemmas/ValveWhole2.lean` follows the query through a fault-free exchange with the success logic `Runs`.  Here the
  same is done for scripts in which attempts time out (silence, failed send) or receive a malformed datagram, with the
  logic `Steps` of `Lemmas/QSteps.lean`: it follows the queue, the send-fault flags still to be consumed and the list
  of datagrams sent so far, for ANY outcome of a computation.
-/
namespace Gd.Valve
open Gd Gd.Valve.Spec Gd.Faults

/-! ### `receive` only receives: the fault-free lemmas about it carry over -/

theorem recvOnly_recvChunks (s : Sock) (engine : Engine) (protocol : Nat) (n : Nat) :
    RecvOnly (recvChunks s engine protocol n) := by
  induction n with
  | zero => exact RecvOnly.pure _
  | succ n ih =>
    unfold recvChunks
    exact RecvOnly.bind (RecvOnly.recv _ _) fun _ => RecvOnly.bind (RecvOnly.parse _ _) fun _ =>
      RecvOnly.bind ih fun _ => RecvOnly.pure _

theorem recvOnly_afterFirst (ext : Ext) (s : Sock) (engine : Engine) (protocol : Nat) (data : Bytes) :
    RecvOnly (afterFirst ext s engine protocol data) := by
  unfold afterFirst
  refine RecvOnly.bind (RecvOnly.parse _ _) fun header => ?_
  split
  · exact RecvOnly.bind (RecvOnly.parse _ _) fun _ => RecvOnly.bind (recvOnly_recvChunks _ _ _ _) fun _ =>
      RecvOnly.bind (RecvOnly.lift _) fun _ => RecvOnly.parse _ _
  · exact RecvOnly.parse _ _

theorem recvOnly_receive (ext : Ext) (s : Sock) (engine : Engine) (protocol : Nat) :
    RecvOnly (receive ext s engine protocol) := by
  rw [receive_eq]
  exact RecvOnly.bind (RecvOnly.recv _ _) fun _ => recvOnly_afterFirst _ _ _ _ _

/-- a success proved without faults holds with any fault flags pending, and sends nothing -/
theorem Runs.steps {s : Sock} {f : Q α} {a : α} {q q' : List Delivery} (h : Runs s f a q q') (hf : RecvOnly f)
    (fs : List Bool) (sn : List (Bytes × Bool)) : Steps s f (.ok a) ⟨q, fs, sn⟩ ⟨q', fs, sn⟩ := by
  intro w hw
  obtain ⟨w0', h1, h2⟩ := h { w with faults := [] } ⟨rfl, hw.isOpen, hw.queue⟩
  have hfr := hf.frame { w with faults := [] } fs
  have hww : ({ ({ w with faults := [] } : Net) with faults := fs } : Net) = w := by
    have := hw.faults
    cases w
    simp only at this ⊢
    rw [this]
  rw [hww, h1] at hfr
  obtain ⟨added, e1, e2⟩ := hf.quiet { w with faults := [] }
  rw [h1] at e1
  simp only at e1
  exact ⟨_, hfr, ⟨rfl, h2.isOpen, h2.queue, by
    show sentOf w0'.log = sn
    rw [e1, sentOf_append, e2, List.append_nil]
    exact hw.sent⟩⟩

/-! ### `receive`: the possible ends of an attempt's last receive -/

theorem steps_receive_single (ext : Ext) (s : Sock) (hudp : s.tcp = false) (engine : Engine) (protocol : Nat)
    (kind : Nat) (hkind : kind < 256) (body : Bytes) (hl : (reply kind body).length ≤ PACKET_SIZE) (q : List Delivery)
    (fs : List Bool) (sn : List (Bytes × Bool)) :
    Steps s (receive ext s engine protocol) (.ok ⟨0xFFFFFFFF, kind, body⟩) ⟨.data (reply kind body) :: q, fs, sn⟩
      ⟨q, fs, sn⟩ :=
  (runs_receive_single ext s hudp engine protocol kind hkind body hl q).steps (recvOnly_receive _ _ _ _) fs sn

theorem steps_receive_silence (ext : Ext) (s : Sock) (engine : Engine) (protocol : Nat) (q : List Delivery)
    (fs : List Bool) (sn : List (Bytes × Bool)) :
    Steps s (receive ext s engine protocol) (.err .packetReceive) ⟨.silence :: q, fs, sn⟩ ⟨q, fs, sn⟩ := by
  rw [receive_eq]
  exact Steps.bind_err (steps_recv_silence s _ q fs sn)

/-- a parser that starts with a 4-byte and a `w`-byte read underflows on fewer than `4 + w` bytes -/
theorem run_short {α : Type} (e : Endian) (w : Nat) (g : Nat → Nat → Par α) (data : Bytes) (h : data.length < 4 + w) :
    (readUnsigned .little 4 >>= fun a => readUnsigned e w >>= g a).run data = .err .packetUnderflow := by
  show Par.run (Par.bind' (readUnsigned .little 4) fun a => Par.bind' (readUnsigned e w) (g a)) data = _
  unfold Par.run Par.bind'
  by_cases h4 : data.length < 4
  · simp [readUnsigned, Buf.new, Buf.remaining, h4]
  · have h5 : data.length - 4 < w := by omega
    simp [readUnsigned, Buf.new, Buf.remaining, Buf.advance, h4, h5]

theorem run_readU8_short (data : Bytes) : (∃ v, readU8.run data = .ok v) ∨ readU8.run data = .err .packetUnderflow := by
  unfold readU8 Par.run readUnsigned
  by_cases h : (Buf.new data).remaining < 1
  · right; simp [h]
  · left; simp [h]

/-- a datagram shorter than a packet header (5 bytes) is rejected with `PacketUnderflow`, whatever its bytes -/
theorem afterFirst_short (ext : Ext) (s : Sock) (engine : Engine) (protocol : Nat) (m : Bytes) (hm : m.length < 5) :
    afterFirst ext s engine protocol m = Q.lift (.err .packetUnderflow) := by
  have hsplit : (splitPacketNew engine protocol).run m = .err .packetUnderflow := by
    unfold splitPacketNew
    exact run_short .little 4 _ m (by omega)
  have hpkt : packetFromBuffer.run m = .err .packetUnderflow := by
    unfold packetFromBuffer readU8
    exact run_short .little 1 _ m (by omega)
  funext w
  unfold afterFirst
  rw [Q.bind_apply, parse_apply]
  rcases run_readU8_short m with ⟨v, hv⟩ | hv
  · rw [hv]
    simp only
    split
    · rw [Q.bind_apply, parse_apply, hsplit]; rfl
    · rw [parse_apply, hpkt]; rfl
  · rw [hv]; rfl

theorem steps_receive_short (ext : Ext) (s : Sock) (hudp : s.tcp = false) (engine : Engine) (protocol : Nat)
    (m : Bytes) (hm : m.length < 5) (q : List Delivery) (fs : List Bool) (sn : List (Bytes × Bool)) :
    Steps s (receive ext s engine protocol) (.err .packetUnderflow) ⟨.data m :: q, fs, sn⟩ ⟨q, fs, sn⟩ := by
  rw [receive_eq]
  refine Steps.bind (steps_recv s hudp PACKET_SIZE m (by unfold PACKET_SIZE; omega) q fs sn) ?_
  rw [afterFirst_short ext s engine protocol m hm]
  exact Steps.lift s _ _

/-! ### a split reply that stops half way -/

/-- what the client reads from each datagram of a reply that travels as two or more datagrams: a fragment (first byte
`FE`) that announces as many fragments as there are datagrams -/
def PoolOk (engine : Engine) (protocol : Nat) (pool : List Bytes) : Prop :=
  2 ≤ pool.length → ∀ d ∈ pool, readU8.run d = .ok 0xFE ∧
    ∃ sp, (splitPacketNew engine protocol).run d = .ok sp ∧ sp.total = pool.length

theorem poolOk_enum (engine : Engine) (protocol : Nat) (frag : Nat → Bytes → Bytes) (mk : Nat → Bytes → SplitPacket)
    (cs : List Bytes) (hfe : ∀ i ch, readU8.run (frag i ch) = .ok 0xFE)
    (hparse : ∀ i ch, i < cs.length → (splitPacketNew engine protocol).run (frag i ch) = .ok (mk i ch))
    (ht : ∀ i ch, (mk i ch).total = cs.length) :
    PoolOk engine protocol ((Spec.enumFrom 0 cs).map fun p => frag p.1 p.2) := by
  intro _ d hd
  obtain ⟨e, he, rfl⟩ := List.mem_map.mp hd
  have hb := (enumFrom_bounds cs 0 e he).2
  refine ⟨hfe _ _, mk e.1 e.2, hparse _ _ (by omega), ?_⟩
  rw [ht, List.length_map, enumFrom_length]

/-- the datagrams of a reply over any transport the engine reads -/
theorem poolOk_datagrams (ext : Ext) (engine : Engine) (protocol : Nat) (t : Transport)
    (ht : wfTransport engine t = true) (packet : Bytes) (hbz : BzOk ext packet t) :
    PoolOk engine protocol (datagrams (withSize engine protocol) t packet) := by
  cases t with
  | single => intro h; simp [datagrams] at h
  | sourceSplit id sizes =>
    cases engine with
    | goldSrc f => simp [wfTransport] at ht
    | source ids =>
      simp only [wfTransport, Bool.true_and, Bool.and_eq_true, decide_eq_true_eq] at ht
      have hlen : (chunks sizes packet).length = sizes.length + 1 := chunks_length _ _
      simp only [datagrams]
      refine poolOk_enum (.source ids) protocol
        (fun i ch => sourceFragment (withSize (.source ids) protocol) id (chunks sizes packet).length i ch)
        (fun i ch => ⟨0xFFFFFFFE, id, (chunks sizes packet).length, i, 1248, none, ch⟩) _ ?_ ?_ (fun _ _ => rfl)
      · intro i ch
        unfold sourceFragment
        simp only [List.append_assoc]
        exact run_readU8_split _
      · intro i ch hi
        exact run_splitPacketNew_source ids protocol id _ i ch ht.1 (by omega) (by omega)
  | goldSplit id sizes =>
    cases engine with
    | source ids => simp [wfTransport] at ht
    | goldSrc f =>
      simp only [wfTransport, Bool.true_and, Bool.and_eq_true, decide_eq_true_eq] at ht
      have hlen : (chunks sizes packet).length = sizes.length + 1 := chunks_length _ _
      simp only [datagrams]
      refine poolOk_enum (.goldSrc f) protocol
        (fun i ch => goldFragment id (chunks sizes packet).length i ch)
        (fun i ch => ⟨0xFFFFFFFE, id, (chunks sizes packet).length, i, 0, none, ch⟩) _ ?_ ?_ (fun _ _ => rfl)
      · intro i ch
        unfold goldFragment
        simp only [List.append_assoc]
        exact run_readU8_split _
      · intro i ch hi
        exact run_splitPacketNew_gold f protocol id _ i ch ht.1 (by omega) (by omega)
  | sourceSplitBz id sizes z crc =>
    cases engine with
    | goldSrc f => simp [wfTransport] at ht
    | source ids =>
      simp only [wfTransport, Bool.true_and, Bool.and_eq_true, decide_eq_true_eq] at ht
      obtain ⟨⟨⟨hid1, hid2⟩, hsz⟩, hcrc⟩ := ht
      have hlen : (chunks sizes z).length = sizes.length + 1 := chunks_length _ _
      have hbig : packet.length < 2 ^ 32 := by
        have hmax : maxDecompressedSize < 2 ^ 32 := by decide
        have := hbz.2.2
        omega
      simp only [datagrams]
      · refine poolOk_enum (.source ids) protocol
          (fun i ch => sourceFragment (withSize (.source ids) protocol) id (chunks sizes z).length i
            ((if i == 0 then le 4 packet.length ++ le 4 crc else []) ++ ch))
          (fun i ch => ⟨0xFFFFFFFE, id, (chunks sizes z).length, i, 1248,
            if i == 0 then some (packet.length, crc) else none, ch⟩) _ ?_ ?_ (fun _ _ => rfl)
        · intro i ch
          unfold sourceFragment
          simp only [List.append_assoc]
          exact run_readU8_split _
        · intro i ch hi
          exact run_splitPacketNew_bz ids protocol id _ i _ crc ch hid1 hid2 (by omega) (by omega) hbig hcrc

/-- `for _ in 1 .. total { receive; SplitPacket::new }` on fragments `r` (fewer than it waits for) followed by a delivery
`x` at which one more round of the loop ends with the error `e`: the loop ends with `e` -/
theorem steps_recvChunks_stop (s : Sock) (hudp : s.tcp = false) (engine : Engine) (protocol : Nat) (e : ErrKind)
    (x : Delivery) (q : List Delivery)
    (hx : ∀ n fs sn, Steps s (recvChunks s engine protocol (n + 1)) (.err e) ⟨x :: q, fs, sn⟩ ⟨q, fs, sn⟩) :
    ∀ (r : List Bytes) (n : Nat), r.length < n → (∀ d ∈ r, d.length ≤ PACKET_SIZE) →
      (∀ d ∈ r, ∃ sp, (splitPacketNew engine protocol).run d = .ok sp) → ∀ fs sn,
      Steps s (recvChunks s engine protocol n) (.err e) ⟨r.map .data ++ x :: q, fs, sn⟩ ⟨q, fs, sn⟩ := by
  intro r
  induction r with
  | nil =>
    intro n hn _ _ fs sn
    obtain ⟨n', rfl⟩ : ∃ n', n = n' + 1 := ⟨n - 1, by simp at hn; omega⟩
    exact hx n' fs sn
  | cons d r ih =>
    intro n hn hfit hparse fs sn
    obtain ⟨n', rfl⟩ : ∃ n', n = n' + 1 := ⟨n - 1, by simp at hn; omega⟩
    obtain ⟨sp, hsp⟩ := hparse d (by simp)
    unfold recvChunks
    simp only [List.map_cons, List.cons_append]
    refine Steps.bind (steps_recv s hudp PACKET_SIZE d (hfit d (by simp)) _ fs sn) ?_
    refine Steps.bind ((Steps.parse s _ d _).congrRes hsp.symm) ?_
    exact Steps.bind_err (ih n' (by simp at hn; omega) (fun y hy => hfit y (by simp [hy]))
      (fun y hy => hparse y (by simp [hy])) fs sn)

/-- the loop's next round on a silence -/
theorem steps_recvChunks_silence (s : Sock) (engine : Engine) (protocol : Nat) (q : List Delivery) (n : Nat)
    (fs : List Bool) (sn : List (Bytes × Bool)) :
    Steps s (recvChunks s engine protocol (n + 1)) (.err .packetReceive) ⟨.silence :: q, fs, sn⟩ ⟨q, fs, sn⟩ := by
  unfold recvChunks
  exact Steps.bind_err (steps_recv_silence s _ q fs sn)

/-- the loop's next round on a datagram shorter than a packet header -/
theorem steps_recvChunks_short (s : Sock) (hudp : s.tcp = false) (engine : Engine) (protocol : Nat) (m : Bytes)
    (hm : m.length < 5) (q : List Delivery) (n : Nat) (fs : List Bool) (sn : List (Bytes × Bool)) :
    Steps s (recvChunks s engine protocol (n + 1)) (.err .packetUnderflow) ⟨.data m :: q, fs, sn⟩ ⟨q, fs, sn⟩ := by
  have hsplit : (splitPacketNew engine protocol).run m = .err .packetUnderflow := by
    unfold splitPacketNew
    exact run_short .little 4 _ m (by omega)
  unfold recvChunks
  refine Steps.bind (steps_recv s hudp PACKET_SIZE m (by unfold PACKET_SIZE; omega) q fs sn) ?_
  exact Steps.bind_err ((Steps.parse s _ m _).congrRes hsplit.symm)

/-- `receive` on an incomplete selection `got` of the datagrams `pool` of a reply, followed by a delivery `x` on which
both the first receive of `receive` and a further round of its fragment loop end with the error `e`: `receive` ends with
`e` having consumed `got` and `x` -/
theorem steps_receive_stop (ext : Ext) (s : Sock) (hudp : s.tcp = false) (engine : Engine) (protocol : Nat)
    (e : ErrKind) (x : Delivery) (q : List Delivery)
    (hx0 : ∀ fs sn, Steps s (receive ext s engine protocol) (.err e) ⟨x :: q, fs, sn⟩ ⟨q, fs, sn⟩)
    (hx : ∀ n fs sn, Steps s (recvChunks s engine protocol (n + 1)) (.err e) ⟨x :: q, fs, sn⟩ ⟨q, fs, sn⟩)
    (pool : List Bytes) (hpool : PoolOk engine protocol pool) (hfit : ∀ d ∈ pool, d.length ≤ PACKET_SIZE)
    (got : List Bytes) (hgot : partOf got pool = true) (fs : List Bool) (sn : List (Bytes × Bool)) :
    Steps s (receive ext s engine protocol) (.err e) ⟨got.map .data ++ x :: q, fs, sn⟩ ⟨q, fs, sn⟩ := by
  cases got with
  | nil => exact hx0 fs sn
  | cons d r =>
    have hlen := partOf_length hgot (by simp)
    have hmem := partOf_mem hgot
    simp only [List.length_cons] at hlen
    have hp := hpool (by omega)
    obtain ⟨hfe, sp, hsp, htot⟩ := hp d (hmem d (by simp))
    rw [receive_eq]
    simp only [List.map_cons, List.cons_append]
    refine Steps.bind (steps_recv s hudp PACKET_SIZE d (hfit d (hmem d (by simp))) _ fs sn) ?_
    unfold afterFirst
    refine Steps.bind ((Steps.parse s _ d _).congrRes hfe.symm) ?_
    simp only [beq_self_eq_true, ↓reduceIte]
    refine Steps.bind ((Steps.parse s _ d _).congrRes hsp.symm) ?_
    refine Steps.bind_err (steps_recvChunks_stop s hudp engine protocol e x q hx r (sp.total - 1) (by omega)
      (fun y hy => hfit y (hmem y (by simp [hy])))
      (fun y hy => by
        obtain ⟨_, sp', hsp', _⟩ := hp y (hmem y (by simp [hy]))
        exact ⟨sp', hsp'⟩) fs sn)

/-- some of the fragments of a split reply (or nothing), then silence: `receive` times out -/
theorem steps_receive_lost (ext : Ext) (s : Sock) (hudp : s.tcp = false) (engine : Engine) (protocol : Nat)
    (pool : List Bytes) (hpool : PoolOk engine protocol pool) (hfit : ∀ d ∈ pool, d.length ≤ PACKET_SIZE)
    (got : List Bytes) (hgot : partOf got pool = true) (q : List Delivery) (fs : List Bool) (sn : List (Bytes × Bool)) :
    Steps s (receive ext s engine protocol) (.err .packetReceive) ⟨got.map .data ++ .silence :: q, fs, sn⟩ ⟨q, fs, sn⟩ :=
  steps_receive_stop ext s hudp engine protocol .packetReceive .silence q
    (fun fs sn => steps_receive_silence ext s engine protocol q fs sn)
    (fun n fs sn => steps_recvChunks_silence s engine protocol q n fs sn) pool hpool hfit got hgot fs sn

/-- some of the fragments of a split reply (or nothing), then a datagram shorter than a packet header: rejected with
`PacketUnderflow` -/
theorem steps_receive_shortAfter (ext : Ext) (s : Sock) (hudp : s.tcp = false) (engine : Engine) (protocol : Nat)
    (pool : List Bytes) (hpool : PoolOk engine protocol pool) (hfit : ∀ d ∈ pool, d.length ≤ PACKET_SIZE)
    (got : List Bytes) (hgot : partOf got pool = true) (m : Bytes) (hm : m.length < 5) (q : List Delivery)
    (fs : List Bool) (sn : List (Bytes × Bool)) :
    Steps s (receive ext s engine protocol) (.err .packetUnderflow) ⟨got.map .data ++ .data m :: q, fs, sn⟩
      ⟨q, fs, sn⟩ :=
  steps_receive_stop ext s hudp engine protocol .packetUnderflow (.data m) q
    (fun fs sn => steps_receive_short ext s hudp engine protocol m hm q fs sn)
    (fun n fs sn => steps_recvChunks_short s hudp engine protocol m hm q n fs sn) pool hpool hfit got hgot fs sn

/-! ### the challenge loop under faults -/

/-- the request of kind `kind` carrying the challenge `c` -/
def answer (kind : Nat) (c : Bytes) : Bytes := packetBytes kind (if kind == 0x54 then infoPayload ++ c else c)

theorem challengeLoop_answer (ext : Ext) (s : Sock) (engine : Engine) (protocol kind fuel hdr : Nat) (c : Bytes) :
    challengeLoop ext s engine protocol kind (fuel + 1) ⟨hdr, 0x41, c⟩
      = (send s (answer kind c) >>= fun _ =>
          receive ext s engine protocol >>= fun p => challengeLoop ext s engine protocol kind fuel p) := rfl

/-- the loop of `get_request_data_impl`, entered with a challenge in hand while the server will issue the further
challenges `cs` and then do `final`, on which `receive` ends with `R` (a reply that is no challenge, or an error):
every challenge is answered, the outcome is `R`'s -/
theorem steps_challengeLoop_recv (ext : Ext) (s : Sock) (hudp : s.tcp = false) (engine : Engine)
    (protocol reqKind : Nat) (R : Res Packet) (hR : ∀ p, R = .ok p → p.kind ≠ 0x41) (final q : List Delivery)
    (hfinal : ∀ fs sn, Steps s (receive ext s engine protocol) R ⟨final ++ q, fs, sn⟩ ⟨q, fs, sn⟩) :
    ∀ (cs : List Bytes) (c : Bytes) (hdr fuel : Nat) (fs : List Bool) (sn : List (Bytes × Bool)),
      (∀ x ∈ cs, (challengeReply x).length ≤ PACKET_SIZE) → cs.length + 2 ≤ fuel →
      Steps s (challengeLoop ext s engine protocol reqKind fuel ⟨hdr, 0x41, c⟩) (R >>= fun p => .ok p.payload)
        ⟨challengeDeliveries cs ++ (final ++ q), List.replicate (cs.length + 1) false ++ fs, sn⟩
        ⟨q, fs, sn ++ (c :: cs).map fun c => (answer reqKind c, false)⟩ := by
  intro cs
  induction cs with
  | nil =>
    intro c hdr fuel fs sn _ hfuel
    obtain ⟨f, rfl⟩ : ∃ f, fuel = f + 2 := ⟨fuel - 2, by simp at hfuel; omega⟩
    rw [challengeLoop_answer]
    refine Steps.bind (steps_send_ok s _ _ fs sn) ?_
    refine Steps.bind_res (by simpa [challengeDeliveries] using hfinal fs (sn ++ [(answer reqKind c, false)])) ?_
    intro p hp
    rw [challengeLoop_done ext s engine protocol reqKind f p (hR p hp)]
    exact Steps.pure s _ _
  | cons c' cs ih =>
    intro c hdr fuel fs sn hfit hfuel
    obtain ⟨f, rfl⟩ : ∃ f, fuel = f + 1 := ⟨fuel - 1, by simp at hfuel; omega⟩
    rw [challengeLoop_answer]
    refine Steps.bind (steps_send_ok s _ _ _ sn) ?_
    have hr := steps_receive_single ext s hudp engine protocol 0x41 (by decide) c' (hfit c' (by simp))
      (challengeDeliveries cs ++ (final ++ q)) (List.replicate (cs.length + 1) false ++ fs)
      (sn ++ [(answer reqKind c, false)])
    refine Steps.bind (by simpa [challengeDeliveries, challengeReply] using hr) ?_
    have := ih c' 0xFFFFFFFF f fs (sn ++ [(answer reqKind c, false)]) (fun x hx => hfit x (by simp [hx]))
      (by simp at hfuel ⊢; omega)
    simpa [List.append_assoc, challengeDeliveries, challengeReply] using this

/-- the same loop when, after the further challenges `cs`, the client's next send fails -/
theorem steps_challengeLoop_sendFault (ext : Ext) (s : Sock) (hudp : s.tcp = false) (engine : Engine)
    (protocol reqKind : Nat) (q : List Delivery) :
    ∀ (cs : List Bytes) (c : Bytes) (hdr fuel : Nat) (fs : List Bool) (sn : List (Bytes × Bool)),
      (∀ x ∈ cs, (challengeReply x).length ≤ PACKET_SIZE) → cs.length + 1 ≤ fuel →
      Steps s (challengeLoop ext s engine protocol reqKind fuel ⟨hdr, 0x41, c⟩) (.err .packetSend)
        ⟨challengeDeliveries cs ++ q, List.replicate cs.length false ++ true :: fs, sn⟩
        ⟨q, fs, sn ++ flagLast ((c :: cs).map (answer reqKind)) true⟩ := by
  intro cs
  induction cs with
  | nil =>
    intro c hdr fuel fs sn _ hfuel
    obtain ⟨f, rfl⟩ : ∃ f, fuel = f + 1 := ⟨fuel - 1, by simp at hfuel; omega⟩
    rw [challengeLoop_answer]
    exact Steps.bind_err (by simpa [challengeDeliveries, flagLast] using steps_send_fault s _ q fs sn)
  | cons c' cs ih =>
    intro c hdr fuel fs sn hfit hfuel
    obtain ⟨f, rfl⟩ : ∃ f, fuel = f + 1 := ⟨fuel - 1, by simp at hfuel; omega⟩
    rw [challengeLoop_answer]
    refine Steps.bind (steps_send_ok s _ _ _ sn) ?_
    have hr := steps_receive_single ext s hudp engine protocol 0x41 (by decide) c' (hfit c' (by simp))
      (challengeDeliveries cs ++ q) (List.replicate cs.length false ++ true :: fs)
      (sn ++ [(answer reqKind c, false)])
    refine Steps.bind (by simpa [challengeDeliveries, challengeReply] using hr) ?_
    have := ih c' 0xFFFFFFFF f fs (sn ++ [(answer reqKind c, false)]) (fun x hx => hfit x (by simp [hx]))
      (by simp at hfuel ⊢; omega)
    simpa [List.append_assoc, flagLast, challengeDeliveries, challengeReply] using this

/-! ### one attempt of a unit (`get_request_data_impl`) -/

/-- an attempt in which the server issues the challenges `cs` and then does `final`, on which `receive` ends with `R` -/
theorem steps_requestImpl_recv (ext : Ext) (s : Sock) (hudp : s.tcp = false) (engine : Engine)
    (protocol reqKind : Nat) (payload : Bytes) (R : Res Packet) (hR : ∀ p, R = .ok p → p.kind ≠ 0x41)
    (final q : List Delivery) (hne : final ≠ [])
    (hfinal : ∀ fs sn, Steps s (receive ext s engine protocol) R ⟨final ++ q, fs, sn⟩ ⟨q, fs, sn⟩)
    (cs : List Bytes) (hfit : ∀ x ∈ cs, (challengeReply x).length ≤ PACKET_SIZE) (fs : List Bool)
    (sn : List (Bytes × Bool)) :
    Steps s (requestImpl ext s engine protocol reqKind payload) (R >>= fun p => .ok p.payload)
      ⟨challengeDeliveries cs ++ (final ++ q), List.replicate (cs.length + 1) false ++ fs, sn⟩
      ⟨q, fs, sn ++ (packetBytes reqKind payload, false) :: cs.map fun c => (answer reqKind c, false)⟩ := by
  unfold requestImpl
  cases cs with
  | nil =>
    refine Steps.bind (steps_send_ok s _ _ fs sn) ?_
    refine Steps.bind_res (by simpa [challengeDeliveries] using hfinal fs (sn ++ [(packetBytes reqKind payload, false)])) ?_
    intro p hp w hw
    have hd := challengeLoop_done ext s engine protocol reqKind (queued s w) p (hR p hp)
    show ∃ w', challengeLoop ext s engine protocol reqKind (queued s w + 1) p w = _ ∧ _
    rw [hd]
    simpa using Steps.pure s p.payload _ w hw
  | cons c cs =>
    refine Steps.bind (steps_send_ok s _ _ _ sn) ?_
    have hr := steps_receive_single ext s hudp engine protocol 0x41 (by decide) c (hfit c (by simp))
      (challengeDeliveries cs ++ (final ++ q)) (List.replicate (cs.length + 1) false ++ fs)
      (sn ++ [(packetBytes reqKind payload, false)])
    refine Steps.bind (by simpa [challengeDeliveries, challengeReply] using hr) ?_
    intro w hw
    have hq : cs.length + 2 ≤ queued s w + 1 := by
      have hpos : 0 < final.length := List.length_pos_iff.mpr hne
      have := hw.queue
      simp only at this
      simp only [queued, this, List.length_append, List.length_map]
      omega
    have := steps_challengeLoop_recv ext s hudp engine protocol reqKind R hR final q hfinal cs c 0xFFFFFFFF
      (queued s w + 1) fs (sn ++ [(packetBytes reqKind payload, false)]) (fun x hx => hfit x (by simp [hx])) hq w
      (by simpa [challengeDeliveries, challengeReply] using hw)
    simpa [List.append_assoc] using this

/-- an attempt in which the server issues the challenges `cs` and the client's next send fails -/
theorem steps_requestImpl_sendFault (ext : Ext) (s : Sock) (hudp : s.tcp = false) (engine : Engine)
    (protocol reqKind : Nat) (payload : Bytes) (q : List Delivery)
    (cs : List Bytes) (hfit : ∀ x ∈ cs, (challengeReply x).length ≤ PACKET_SIZE) (fs : List Bool)
    (sn : List (Bytes × Bool)) :
    Steps s (requestImpl ext s engine protocol reqKind payload) (.err .packetSend)
      ⟨challengeDeliveries cs ++ q, List.replicate cs.length false ++ true :: fs, sn⟩
      ⟨q, fs, sn ++ flagLast (packetBytes reqKind payload :: cs.map (answer reqKind)) true⟩ := by
  unfold requestImpl
  cases cs with
  | nil =>
    exact Steps.bind_err (by simpa [challengeDeliveries, flagLast] using steps_send_fault s _ q fs sn)
  | cons c cs =>
    refine Steps.bind (steps_send_ok s _ _ _ sn) ?_
    have hr := steps_receive_single ext s hudp engine protocol 0x41 (by decide) c (hfit c (by simp))
      (challengeDeliveries cs ++ q) (List.replicate cs.length false ++ true :: fs)
      (sn ++ [(packetBytes reqKind payload, false)])
    refine Steps.bind (by simpa [challengeDeliveries, challengeReply] using hr) ?_
    intro w hw
    have hq : cs.length + 1 ≤ queued s w + 1 := by
      have := hw.queue
      simp only at this
      simp only [queued, this, List.length_append, List.length_map]
      omega
    have := steps_challengeLoop_sendFault ext s hudp engine protocol reqKind q cs c 0xFFFFFFFF
      (queued s w + 1) fs (sn ++ [(packetBytes reqKind payload, false)]) (fun x hx => hfit x (by simp [hx])) hq w
      (by simpa [challengeDeliveries, challengeReply] using hw)
    simpa [List.append_assoc, flagLast] using this

/-! ### the attempts of the SPEC's plans -/

theorem request_bytes (u : Request) : packetBytes u.kind u.defaultPayload = unitRequest u none := by
  cases u <;> decide

theorem answer_eq (u : Request) (c : Bytes) : answer u.kind c = unitRequest u (some c) := by
  cases u <;> rfl

theorem flagLast_false (ds : List Bytes) : flagLast ds false = ds.map (·, false) := by
  induction ds with
  | nil => rfl
  | cons d r ih =>
    cases r with
    | nil => rfl
    | cons d' r' => simp only [flagLast, ih, List.map_cons]

/-- every challenge reply of the exchange fits the client's receive buffer -/
def FitsCh (x : Exchange) : Prop := ∀ c ∈ x.challenges, (challengeReply c).length ≤ PACKET_SIZE

theorem Attempt.error_timeout (a : Attempt) : a.error.isTimeout = true := by
  unfold Attempt.error
  split <;> rfl

/-- a failed attempt of the plan: `get_request_data_impl` ends with the attempt's timeout-class error, having consumed
exactly the attempt's deliveries (the challenge rounds, the fragments of the split reply that still arrive, the silence)
and flags and sent exactly its requests -/
theorem steps_attempt (ext : Ext) (s : Sock) (hudp : s.tcp = false) (engine : Engine) (protocol : Nat) (u : Request)
    (x : Exchange) (hfit : FitsCh x) (pool : List Bytes) (hpool : PoolOk engine protocol pool)
    (hpfit : ∀ d ∈ pool, d.length ≤ PACKET_SIZE) (a : Attempt) (ha : a.wf pool = true) (q : List Delivery)
    (fs : List Bool) (sn : List (Bytes × Bool)) :
    Steps s (requestImpl ext s engine protocol u.kind u.defaultPayload) (.err a.error)
      ⟨a.deliveries x ++ q, a.faults x ++ fs, sn⟩ ⟨q, fs, sn ++ a.sends u x⟩ := by
  obtain ⟨j, sf, got⟩ := a
  have hfit' : ∀ c ∈ x.challenges.take j, (challengeReply c).length ≤ PACKET_SIZE :=
    fun c hc => hfit c (List.mem_of_mem_take hc)
  have hmap : (x.challenges.take j).map (answer u.kind) = (x.challenges.take j).map fun c => unitRequest u (some c) :=
    List.map_congr_left fun c _ => answer_eq u c
  cases sf with
  | false =>
    have hgot : partOf got pool = true := by simpa [Attempt.wf] using ha
    have h := steps_requestImpl_recv ext s hudp engine protocol u.kind u.defaultPayload (.err .packetReceive)
      (fun p hp => by cases hp) (got.map .data ++ [.silence]) q (by simp)
      (fun fs sn => by
        simpa [List.append_assoc] using
          steps_receive_lost ext s hudp engine protocol pool hpool hpfit got hgot q fs sn)
      (x.challenges.take j) hfit' fs sn
    have hs : (Attempt.mk j false got).sends u x
        = (packetBytes u.kind u.defaultPayload, false) :: (x.challenges.take j).map fun c => (answer u.kind c, false) := by
      simp only [Attempt.sends, requestsUpTo, flagLast_false, List.map_cons, List.map_map, request_bytes]
      congr 1
      exact List.map_congr_left fun c _ => by simp [answer_eq]
    rw [hs]
    simpa [Attempt.deliveries, Attempt.faults, Attempt.error, challengeData, challengeDeliveries,
      List.replicate_succ', List.append_assoc] using h
  | true =>
    have hgot : got = [] := by simpa [Attempt.wf] using ha
    subst hgot
    have h := steps_requestImpl_sendFault ext s hudp engine protocol u.kind u.defaultPayload q
      (x.challenges.take j) hfit' fs sn
    have hs : (Attempt.mk j true []).sends u x
        = flagLast (packetBytes u.kind u.defaultPayload :: (x.challenges.take j).map (answer u.kind)) true := by
      simp only [Attempt.sends, requestsUpTo, request_bytes, hmap]
    rw [hs]
    simpa [Attempt.deliveries, Attempt.faults, Attempt.error, challengeData, challengeDeliveries,
      List.append_assoc] using h

/-- the attempt the server answers: the unit's exchange (challenge rounds, then the reply over its transport) -/
theorem steps_validAttempt (ext : Ext) (s : Sock) (hudp : s.tcp = false) (engine : Engine) (protocol : Nat)
    (u : Request) (kind : Nat) (hkind : kind < 256) (hk : kind ≠ 0x41) (body : Bytes) (x : Exchange)
    (hx : wfTransport engine x.transport = true) (hbz : BzOk ext (reply kind body) x.transport)
    (arrival : List Bytes)
    (harr : arrival.Perm (datagrams (withSize engine protocol) x.transport (reply kind body)))
    (hfit : ∀ d ∈ exchangeAs x arrival, d.length ≤ PACKET_SIZE) (q : List Delivery) (fs : List Bool)
    (sn : List (Bytes × Bool)) :
    Steps s (requestImpl ext s engine protocol u.kind u.defaultPayload) (.ok body)
      ⟨Ending.valid.deliveries x arrival ++ q, Ending.valid.faults x ++ fs, sn⟩
      ⟨q, fs, sn ++ Ending.valid.sends u x⟩ := by
  have hne : arrival.map Delivery.data ≠ [] := by
    intro h
    have h0 : arrival.length = 0 := by simpa using congrArg List.length h
    rw [harr.length_eq] at h0
    cases ht : x.transport with
    | single => simp [ht, datagrams] at h0
    | sourceSplit id sizes =>
      obtain ⟨c, cs, hcs⟩ := chunks_cons sizes (reply kind body)
      simp [ht, datagrams, hcs, enumFrom_length] at h0
    | goldSplit id sizes =>
      obtain ⟨c, cs, hcs⟩ := chunks_cons sizes (reply kind body)
      simp [ht, datagrams, hcs, enumFrom_length] at h0
    | sourceSplitBz id sizes z crc =>
      obtain ⟨c, cs, hcs⟩ := chunks_cons sizes z
      simp [ht, datagrams, hcs, enumFrom_length] at h0
  have hfinal : ∀ fs sn, Steps s (receive ext s engine protocol) (.ok ⟨0xFFFFFFFF, kind, body⟩)
      ⟨arrival.map .data ++ q, fs, sn⟩ ⟨q, fs, sn⟩ := fun fs sn =>
    (runs_receive_final ext s hudp engine protocol kind hkind body x.transport hx hbz arrival harr
      (fun d hd => hfit d (by simp [exchangeAs, hd])) q).steps (recvOnly_receive _ _ _ _) fs sn
  have h := steps_requestImpl_recv ext s hudp engine protocol u.kind u.defaultPayload
    (.ok ⟨0xFFFFFFFF, kind, body⟩) (fun p hp => by cases hp; exact hk) (arrival.map .data) q hne hfinal x.challenges
    (fun c hc => hfit _ (by simp only [exchangeAs, List.mem_append, List.mem_map]; exact Or.inl ⟨c, hc, rfl⟩)) fs sn
  have hs : Ending.valid.sends u x
      = (packetBytes u.kind u.defaultPayload, false) :: x.challenges.map fun c => (answer u.kind c, false) := by
    simp only [Ending.sends, List.map_cons, List.map_map, request_bytes]
    congr 1
    exact List.map_congr_left fun c _ => by simp [answer_eq]
  rw [hs]
  have he : Ending.valid.deliveries x arrival ++ q = challengeDeliveries x.challenges ++ (arrival.map .data ++ q) := by
    simp [Ending.deliveries, exchangeAs, challengeDeliveries, List.append_assoc]
  rw [he]
  simpa [Ending.faults, Nat.add_comm] using h

/-- the attempt that receives a datagram shorter than a packet header after `j` challenge rounds and some of the fragments
of the split reply -/
theorem steps_malformedAttempt (ext : Ext) (s : Sock) (hudp : s.tcp = false) (engine : Engine) (protocol : Nat)
    (u : Request) (x : Exchange) (hfit : FitsCh x) (pool : List Bytes) (hpool : PoolOk engine protocol pool)
    (hpfit : ∀ d ∈ pool, d.length ≤ PACKET_SIZE) (j : Nat) (got : List Bytes) (hgot : partOf got pool = true)
    (m : Bytes) (hm : m.length < 5) (arrival : List Bytes)
    (q : List Delivery) (fs : List Bool) (sn : List (Bytes × Bool)) :
    Steps s (requestImpl ext s engine protocol u.kind u.defaultPayload) (.err .packetUnderflow)
      ⟨(Ending.malformed j got m).deliveries x arrival ++ q, (Ending.malformed j got m).faults x ++ fs, sn⟩
      ⟨q, fs, sn ++ (Ending.malformed j got m).sends u x⟩ := by
  have hfit' : ∀ c ∈ x.challenges.take j, (challengeReply c).length ≤ PACKET_SIZE :=
    fun c hc => hfit c (List.mem_of_mem_take hc)
  have h := steps_requestImpl_recv ext s hudp engine protocol u.kind u.defaultPayload (.err .packetUnderflow)
    (fun p hp => by cases hp) (got.map .data ++ [.data m]) q (by simp)
    (fun fs sn => by
      simpa [List.append_assoc] using
        steps_receive_shortAfter ext s hudp engine protocol pool hpool hpfit got hgot m hm q fs sn)
    (x.challenges.take j) hfit' fs sn
  have hs : (Ending.malformed j got m).sends u x
      = (packetBytes u.kind u.defaultPayload, false) :: (x.challenges.take j).map fun c => (answer u.kind c, false) := by
    simp only [Ending.sends, requestsUpTo, List.map_cons, List.map_map, request_bytes]
    congr 1
    exact List.map_congr_left fun c _ => by simp [answer_eq]
  rw [hs]
  simpa [Ending.deliveries, Ending.faults, challengeData, challengeDeliveries, List.append_assoc] using h

/-! ### a whole unit (`get_request_data`) under a plan -/

/-- the outcome of a unit: its value when the server's reply ends it, else its error -/
def unitRes {α : Type} (p : UnitPlan) (v : α) : Res α :=
  match p.error with
  | none => .ok v
  | some k => .err k

theorem steps_unit (ext : Ext) (s : Sock) (hudp : s.tcp = false) (engine : Engine) (protocol retries : Nat)
    (u : Request) (kind : Nat) (hkind : kind < 256) (hk : kind ≠ 0x41) (body : Bytes) (x : Exchange)
    (hx : wfTransport engine x.transport = true) (hbz : BzOk ext (reply kind body) x.transport)
    (arrival : List Bytes)
    (harr : arrival.Perm (datagrams (withSize engine protocol) x.transport (reply kind body)))
    (hfit : ∀ d ∈ exchangeAs x arrival, d.length ≤ PACKET_SIZE)
    (p : UnitPlan)
    (hp : wfUnit retries (datagrams (withSize engine protocol) x.transport (reply kind body)) p = true)
    (q : List Delivery) (fs : List Bool) (sn : List (Bytes × Bool)) :
    Steps s (requestData ext s retries engine protocol u) (unitRes p body)
      ⟨p.deliveries x arrival ++ q, p.faults x ++ fs, sn⟩ ⟨q, fs, sn ++ p.sends u x⟩ := by
  have hch : FitsCh x := fun c hc =>
    hfit _ (by simp only [exchangeAs, List.mem_append, List.mem_map]; exact Or.inl ⟨c, hc, rfl⟩)
  have hpool := poolOk_datagrams ext engine protocol x.transport hx (reply kind body) hbz
  have hpfit : ∀ d ∈ datagrams (withSize engine protocol) x.transport (reply kind body), d.length ≤ PACKET_SIZE :=
    fun d hd => hfit d (by simp only [exchangeAs, List.mem_append]; exact Or.inr (harr.symm.subset hd))
  have hstep := fun a ha q fs sn => steps_attempt ext s hudp engine protocol u x hch _ hpool hpfit a ha q fs sn
  obtain ⟨fails, ending⟩ := p
  simp only [wfUnit, Bool.and_eq_true, List.all_eq_true] at hp
  obtain ⟨hfails, hend⟩ := hp
  unfold requestData
  cases ending with
  | valid =>
    have hlen : fails.length ≤ retries := by simpa using hend
    have h := Steps.retry_recovers_of
      (fun a : Attempt => a.wf (datagrams (withSize engine protocol) x.transport (reply kind body)) = true)
      (Attempt.deliveries x) (Attempt.faults x) (Attempt.sends u x) Attempt.error
      Attempt.error_timeout hstep (R := .ok body) (fun k hk => by cases hk)
      (Ending.valid.deliveries x arrival ++ q) q (Ending.valid.faults x ++ fs) fs (Ending.valid.sends u x)
      (fun sn => steps_validAttempt ext s hudp engine protocol u kind hkind hk body x hx hbz arrival harr hfit q fs sn)
      fails retries sn hfails hlen
    simpa [UnitPlan.deliveries, UnitPlan.faults, UnitPlan.sends, unitRes, UnitPlan.error, List.append_assoc] using h
  | malformed j got m =>
    have hlen : (fails.length ≤ retries ∧ m.length < 5) ∧
        partOf got (datagrams (withSize engine protocol) x.transport (reply kind body)) = true := by
      simpa using hend
    have h := Steps.retry_recovers_of
      (fun a : Attempt => a.wf (datagrams (withSize engine protocol) x.transport (reply kind body)) = true)
      (Attempt.deliveries x) (Attempt.faults x) (Attempt.sends u x) Attempt.error
      Attempt.error_timeout hstep (R := (.err .packetUnderflow : Res Bytes)) (fun k hk => by cases hk; rfl)
      ((Ending.malformed j got m).deliveries x arrival ++ q) q ((Ending.malformed j got m).faults x ++ fs) fs
      ((Ending.malformed j got m).sends u x)
      (fun sn => steps_malformedAttempt ext s hudp engine protocol u x hch _ hpool hpfit j got hlen.2 m hlen.1.2 arrival
        q fs sn)
      fails retries sn hfails hlen.1.1
    simpa [UnitPlan.deliveries, UnitPlan.faults, UnitPlan.sends, unitRes, UnitPlan.error, List.append_assoc] using h
  | gaveUp =>
    have hlen : fails.length = retries + 1 := by simpa using hend
    have h := Steps.retry_exhausted_of
      (fun a : Attempt => a.wf (datagrams (withSize engine protocol) x.transport (reply kind body)) = true)
      (Attempt.deliveries x) (Attempt.faults x) (Attempt.sends u x) Attempt.error
      Attempt.error_timeout hstep q fs retries fails sn hfails hlen
    simpa [UnitPlan.deliveries, UnitPlan.faults, UnitPlan.sends, unitRes, UnitPlan.error, Ending.deliveries,
      Ending.faults, Ending.sends] using h

/-- a unit followed by the parser of its section -/
theorem steps_unit_parse {α : Type} {s : Sock} {f : Q Bytes} {par : Par α} {p : UnitPlan} {body : Bytes} {v : α}
    {σ σ' : St} (h : Steps s f (unitRes p body) σ σ') (hpar : par.run body = .ok v) :
    Steps s (f >>= fun data => parse par data) (unitRes p v) σ σ' := by
  unfold unitRes at h ⊢
  cases hp : p.error with
  | none =>
    rw [hp] at h
    exact Steps.bind h ((Steps.parse s par body σ').congrRes hpar.symm)
  | some k =>
    rw [hp] at h
    exact Steps.bind_err h

/-- `maybe_gather!` over a unit -/
theorem steps_gather {α : Type} {s : Sock} {f : Q α} {p : UnitPlan} {v : α} {σ σ' : St} (t : Toggle) (ht : t ≠ .skip)
    (h : Steps s f (unitRes p v) σ σ') : Steps s (maybeGather t f) (sectionOutcome t p v) σ σ' := by
  have hb : (t == Toggle.skip) = false := by simpa using ht
  unfold unitRes at h
  unfold sectionOutcome
  simp only [hb, Bool.false_eq_true, ↓reduceIte]
  cases hp : p.error with
  | none =>
    rw [hp] at h
    exact Steps.gather_ok h t ht
  | some k =>
    rw [hp] at h
    cases t with
    | skip => exact absurd rfl ht
    | try_ => exact Steps.gather_try_err h
    | enforce => exact Steps.gather_enforce_err h

/-! ### the three sections and the whole query -/

def secDel (t : Toggle) (x : Exchange) (arrival : List Bytes) (p : UnitPlan) : List Delivery :=
  if t == .skip then [] else p.deliveries x arrival
def secFlt (t : Toggle) (x : Exchange) (p : UnitPlan) : List Bool :=
  if t == .skip then [] else p.faults x
def secSnd (t : Toggle) (u : Request) (x : Exchange) (p : UnitPlan) : List (Bytes × Bool) :=
  if t == .skip then [] else p.sends u x

theorem steps_getServerInfo (ext : Ext) (s : Sock) (hudp : s.tcp = false) (retries : Nat) (cfg : Config) (st : State)
    (hwf : wf cfg st = true) (hx : wfTransport cfg.engine cfg.info.transport = true)
    (hbz : BzOk ext (infoPacket cfg st) cfg.info.transport) (ai : List Bytes)
    (hai : ai.Perm (infoDatagrams cfg st)) (hfit : ∀ d ∈ exchangeAs cfg.info ai, d.length ≤ PACKET_SIZE)
    (p : UnitPlan) (hp : wfUnit retries (infoDatagrams cfg st) p = true) (q : List Delivery) (fs : List Bool)
    (sn : List (Bytes × Bool)) :
    Steps s (getServerInfo ext s retries cfg.engine) (unitRes p st.info)
      ⟨p.deliveries cfg.info ai ++ q, p.faults cfg.info ++ fs, sn⟩ ⟨q, fs, sn ++ p.sends .info cfg.info⟩ := by
  unfold getServerInfo
  rw [infoDatagrams, infoPacket_eq] at hai hp
  rw [infoPacket_eq] at hbz
  exact steps_unit_parse (steps_unit ext s hudp cfg.engine 0 retries .info (infoKind cfg.engine) (infoKind_ok _).1
    (infoKind_ok _).2 (infoBody cfg st) cfg.info hx hbz ai hai hfit p hp q fs sn) (run_parseInfo cfg st hwf)

theorem steps_playersSection (ext : Ext) (s : Sock) (hudp : s.tcp = false) (retries : Nat) (cfg : Config) (st : State)
    (hwf : wf cfg st = true) (t : Toggle) (hx : (t == .skip || wfTransport cfg.engine cfg.players.transport) = true)
    (hbz : BzOk ext (reply 0x44 (encPlayers st.players)) cfg.players.transport) (ap : List Bytes)
    (hap : ap.Perm (playersDatagrams cfg st))
    (hfit : ∀ d ∈ sectionAs t cfg.players ap, d.length ≤ PACKET_SIZE)
    (p : UnitPlan) (hp : (t == .skip || wfUnit retries (playersDatagrams cfg st) p) = true) (q : List Delivery)
    (fs : List Bool) (sn : List (Bytes × Bool)) :
    Steps s (maybeGather t (getServerPlayers ext s retries cfg.engine st.info.protocolVersion))
      (sectionOutcome t p st.players)
      ⟨secDel t cfg.players ap p ++ q, secFlt t cfg.players p ++ fs, sn⟩
      ⟨q, fs, sn ++ secSnd t .players cfg.players p⟩ := by
  obtain ⟨_, hpn, hpl, _, _, _⟩ := wf_parts cfg st hwf
  by_cases ht : t = .skip
  · subst ht
    simpa [secDel, secFlt, secSnd, sectionOutcome] using Steps.gather_skip s _ ⟨q, fs, sn⟩
  · have hb : (t == Toggle.skip) = false := by simpa using ht
    simp only [sectionAs, secDel, secFlt, secSnd, hb, Bool.false_or, Bool.false_eq_true, ↓reduceIte] at hx hfit hp ⊢
    refine steps_gather t ht ?_
    unfold getServerPlayers
    exact steps_unit_parse (steps_unit ext s hudp cfg.engine _ retries .players 0x44 (by decide) (by decide)
      (encPlayers st.players) cfg.players hx hbz ap hap hfit p hp q fs sn)
      (decodes_players cfg.engine st.players hpn hpl).run

theorem steps_rulesSection (ext : Ext) (s : Sock) (hudp : s.tcp = false) (retries : Nat) (cfg : Config) (st : State)
    (hwf : wf cfg st = true) (t : Toggle) (hx : (t == .skip || wfTransport cfg.engine cfg.rules.transport) = true)
    (hbz : BzOk ext (reply 0x45 (encRules st.rules)) cfg.rules.transport) (ar : List Bytes)
    (har : ar.Perm (rulesDatagrams cfg st))
    (hfit : ∀ d ∈ sectionAs t cfg.rules ar, d.length ≤ PACKET_SIZE)
    (p : UnitPlan) (hp : (t == .skip || wfUnit retries (rulesDatagrams cfg st) p) = true) (q : List Delivery)
    (fs : List Bool) (sn : List (Bytes × Bool)) :
    Steps s (maybeGather t (getServerRules ext s retries cfg.engine st.info.protocolVersion))
      (sectionOutcome t p (expectedRules cfg.engine st.rules))
      ⟨secDel t cfg.rules ar p ++ q, secFlt t cfg.rules p ++ fs, sn⟩
      ⟨q, fs, sn ++ secSnd t .rules cfg.rules p⟩ := by
  obtain ⟨_, _, _, hrn, hrl, hrd⟩ := wf_parts cfg st hwf
  by_cases ht : t = .skip
  · subst ht
    simpa [secDel, secFlt, secSnd, sectionOutcome] using Steps.gather_skip s _ ⟨q, fs, sn⟩
  · have hb : (t == Toggle.skip) = false := by simpa using ht
    simp only [sectionAs, secDel, secFlt, secSnd, hb, Bool.false_or, Bool.false_eq_true, ↓reduceIte] at hx hfit hp ⊢
    refine steps_gather t ht ?_
    unfold getServerRules
    exact steps_unit_parse (steps_unit ext s hudp cfg.engine _ retries .rules 0x45 (by decide) (by decide)
      (encRules st.rules) cfg.rules hx hbz ar har hfit p hp q fs sn)
      (decodes_rules cfg.engine st.rules hrn hrl hrd).run

theorem sectionOutcome_stops {α : Type} (t : Toggle) (p : UnitPlan) (v : α) :
    (∃ k, sectionOutcome t p v = .err k ∧ (t == .enforce && p.error.isSome) = true)
    ∨ (∃ o, sectionOutcome t p v = .ok o ∧ (t == .enforce && p.error.isSome) = false) := by
  unfold sectionOutcome
  cases t <;> cases p.error <;> simp

theorem faultyScript_sections (cfg : Config) (plan : Plan) (ai ap ar : List Bytes) (rest : List Delivery) :
    faultyScript cfg plan ai ap ar ++ rest
      = plan.info.deliveries cfg.info ai ++ (secDel cfg.gather.players cfg.players ap plan.players ++
          (secDel cfg.gather.rules cfg.rules ar plan.rules ++ rest)) := by
  simp [faultyScript, secDel, List.append_assoc]

theorem faultyFaults_sections (cfg : Config) (plan : Plan) (rest : List Bool) :
    faultyFaults cfg plan ++ rest
      = plan.info.faults cfg.info ++ (secFlt cfg.gather.players cfg.players plan.players ++
          (secFlt cfg.gather.rules cfg.rules plan.rules ++ rest)) := by
  simp [faultyFaults, secFlt, List.append_assoc]

theorem faultySends_sections (cfg : Config) (st : State) (plan : Plan) :
    faultySends cfg st plan
      = plan.info.sends .info cfg.info ++
        (if plan.info.error.isSome || !appIdOk cfg.engine cfg.gather st.info.appid then []
         else secSnd cfg.gather.players .players cfg.players plan.players ++
          (if cfg.gather.players == .enforce && plan.players.error.isSome then []
           else secSnd cfg.gather.rules .rules cfg.rules plan.rules)) := rfl

/-- `get_response` after the info section -/
def afterInfo (ext : Ext) (s : Sock) (engine : Engine) (g : Gather) (retries : Nat) (info : ServerInfo) : Q Response :=
  if !appIdOk engine g info.appid then Q.fail .badGame
  else
    maybeGather g.players (getServerPlayers ext s retries engine info.protocolVersion) >>= fun players =>
    maybeGather g.rules (getServerRules ext s retries engine info.protocolVersion) >>= fun rules =>
    pure (Response.mk info players rules)

theorem queryBody_afterInfo (ext : Ext) (s : Sock) (engine : Engine) (g : Gather) (retries : Nat) :
    queryBody ext s engine g retries = (getServerInfo ext s retries engine >>= afterInfo ext s engine g retries) := rfl

theorem afterInfo_bad (ext : Ext) (s : Sock) (engine : Engine) (g : Gather) (retries : Nat) (info : ServerInfo)
    (h : appIdOk engine g info.appid = false) : afterInfo ext s engine g retries info = Q.fail .badGame := by
  simp [afterInfo, h]

theorem afterInfo_ok (ext : Ext) (s : Sock) (engine : Engine) (g : Gather) (retries : Nat) (info : ServerInfo)
    (h : appIdOk engine g info.appid = true) :
    afterInfo ext s engine g retries info
      = (maybeGather g.players (getServerPlayers ext s retries engine info.protocolVersion) >>= fun players =>
          maybeGather g.rules (getServerRules ext s retries engine info.protocolVersion) >>= fun rules =>
          pure (Response.mk info players rules)) := by
  simp [afterInfo, h]

theorem wfPlanReached_of_wfPlan (retries : Nat) (cfg : Config) (st : State) (plan : Plan)
    (h : wfPlan retries cfg st plan = true) : wfPlanReached retries cfg st plan = true := by
  simp only [wfPlan, Bool.and_eq_true] at h
  obtain ⟨⟨h1, h2⟩, h3⟩ := h
  simp only [wfPlanReached, h1, h2, Bool.true_and, Bool.or_eq_true, Bool.and_eq_true]
  simp only [Bool.or_eq_true] at h3
  rcases h3 with h3 | h3
  · exact Or.inr (Or.inl (Or.inr h3))
  · exact Or.inr (Or.inr h3)

/-- the query after the socket is open, on the script of a plan followed by ANY further deliveries and flags: the outcome
is the one the property prescribes, the datagrams sent are the plan's, nothing else -/
theorem queryBody_faulty (ext : Ext) (s : Sock) (hudp : s.tcp = false) (retries : Nat) (cfg : Config) (st : State)
    (hwf : wf cfg st = true) (hx : wfExchanges cfg = true)
    (hbi : BzOk ext (infoPacket cfg st) cfg.info.transport)
    (hbp : BzOk ext (reply 0x44 (encPlayers st.players)) cfg.players.transport)
    (hbr : BzOk ext (reply 0x45 (encRules st.rules)) cfg.rules.transport) (ai ap ar : List Bytes)
    (hai : ai.Perm (infoDatagrams cfg st)) (hap : ap.Perm (playersDatagrams cfg st))
    (har : ar.Perm (rulesDatagrams cfg st)) (hfit : fits (scriptAs cfg ai ap ar) = true)
    (plan : Plan) (hplan : wfPlanReached retries cfg st plan = true) (restQ : List Delivery) (restF : List Bool)
    (sn : List (Bytes × Bool)) (w : Net)
    (hw : AtS s w ⟨faultyScript cfg plan ai ap ar ++ restQ, faultyFaults cfg plan ++ restF, sn⟩) :
    (queryBody ext s cfg.engine cfg.gather retries w).1 = faultyExpected cfg st plan
    ∧ sentOf (queryBody ext s cfg.engine cfg.gather retries w).2.log = sn ++ faultySends cfg st plan := by
  simp only [wfExchanges, Bool.and_eq_true] at hx
  obtain ⟨⟨hxi, hxp⟩, hxr⟩ := hx
  simp only [wfPlanReached, Bool.and_eq_true] at hplan
  obtain ⟨hpi, hplan⟩ := hplan
  have hfit' : ∀ d ∈ scriptAs cfg ai ap ar, d.length ≤ PACKET_SIZE := by
    simpa [fits, List.all_eq_true] using hfit
  have hfi : ∀ d ∈ exchangeAs cfg.info ai, d.length ≤ PACKET_SIZE := fun d hd =>
    hfit' d (by simp only [scriptAs, List.mem_append]; exact Or.inl (Or.inl hd))
  have hfp : ∀ d ∈ sectionAs cfg.gather.players cfg.players ap, d.length ≤ PACKET_SIZE := fun d hd =>
    hfit' d (by simp only [scriptAs, List.mem_append]; exact Or.inl (Or.inr hd))
  have hfr : ∀ d ∈ sectionAs cfg.gather.rules cfg.rules ar, d.length ≤ PACKET_SIZE := fun d hd =>
    hfit' d (by simp only [scriptAs, List.mem_append]; exact Or.inr hd)
  rw [faultyScript_sections, faultyFaults_sections] at hw
  rw [faultySends_sections]
  have h1 := steps_getServerInfo ext s hudp retries cfg st hwf hxi hbi ai hai hfi plan.info hpi
    (secDel cfg.gather.players cfg.players ap plan.players ++ (secDel cfg.gather.rules cfg.rules ar plan.rules ++ restQ))
    (secFlt cfg.gather.players cfg.players plan.players ++ (secFlt cfg.gather.rules cfg.rules plan.rules ++ restF)) sn
  unfold faultyExpected
  unfold unitRes at h1
  rw [queryBody_afterInfo]
  cases hie : plan.info.error with
  | some k =>
    simp only [hie] at h1
    simpa using (Steps.bind_err h1).outcome w hw
  | none =>
    simp only [hie] at h1
    simp only [Option.isSome_none, Bool.false_or]
    by_cases happ : appIdOk cfg.engine cfg.gather st.info.appid = true
    · simp only [happ, Bool.not_true, Bool.false_eq_true, ↓reduceIte]
      simp only [hie, happ, Option.isSome_none, Bool.not_true, Bool.or_self, Bool.false_or, Bool.and_eq_true] at hplan
      obtain ⟨hpp, hplan⟩ := hplan
      have hai' := afterInfo_ok ext s cfg.engine cfg.gather retries st.info happ
      have h2 := steps_playersSection ext s hudp retries cfg st hwf cfg.gather.players hxp hbp ap hap hfp plan.players
        hpp (secDel cfg.gather.rules cfg.rules ar plan.rules ++ restQ)
        (secFlt cfg.gather.rules cfg.rules plan.rules ++ restF) (sn ++ plan.info.sends .info cfg.info)
      rcases sectionOutcome_stops cfg.gather.players plan.players st.players with ⟨k, hk, hc⟩ | ⟨op, hop, hc⟩
      · rw [hk] at h2 ⊢
        rw [hc]
        have hS := Steps.bind h1 ((Steps.bind_err h2).congr hai')
        simpa [List.append_assoc] using hS.outcome w hw
      · rw [hop] at h2 ⊢
        rw [hc]
        have hpr : (cfg.gather.rules == .skip || wfUnit retries (rulesDatagrams cfg st) plan.rules) = true := by
          simpa [hc] using hplan
        have h3 := steps_rulesSection ext s hudp retries cfg st hwf cfg.gather.rules hxr hbr ar har hfr plan.rules
          hpr restQ restF
          (sn ++ plan.info.sends .info cfg.info ++ secSnd cfg.gather.players .players cfg.players plan.players)
        rcases sectionOutcome_stops cfg.gather.rules plan.rules (expectedRules cfg.engine st.rules)
          with ⟨k, hk, _⟩ | ⟨or, hor, _⟩
        · rw [hk] at h3 ⊢
          have hS := Steps.bind h1 ((Steps.bind h2 (Steps.bind_err h3)).congr hai')
          simpa [List.append_assoc] using hS.outcome w hw
        · rw [hor] at h3 ⊢
          have hS := Steps.bind h1 ((Steps.bind h2 (Steps.bind h3 (Steps.pure s (Response.mk st.info op or) _))).congr hai')
          simpa [List.append_assoc] using hS.outcome w hw
    · have hf' : appIdOk cfg.engine cfg.gather st.info.appid = false := by simpa using happ
      simp only [hf', Bool.not_false, ↓reduceIte]
      have hS := Steps.bind h1 ((Steps.fail s .badGame _).congr (afterInfo_bad ext s cfg.engine cfg.gather retries st.info hf'))
      simpa using hS.outcome w hw

/-- the whole query from the initial state: one socket with the plan's deliveries queued on it, the plan's send
faults scripted; anything may follow both -/
theorem query_faulty (ext : Ext) (port retries : Nat) (cfg : Config) (st : State)
    (hwf : wf cfg st = true) (hx : wfExchanges cfg = true)
    (hbi : BzOk ext (infoPacket cfg st) cfg.info.transport)
    (hbp : BzOk ext (reply 0x44 (encPlayers st.players)) cfg.players.transport)
    (hbr : BzOk ext (reply 0x45 (encRules st.rules)) cfg.rules.transport) (ai ap ar : List Bytes)
    (hai : ai.Perm (infoDatagrams cfg st)) (hap : ap.Perm (playersDatagrams cfg st))
    (har : ar.Perm (rulesDatagrams cfg st)) (hfit : fits (scriptAs cfg ai ap ar) = true)
    (plan : Plan) (hplan : wfPlanReached retries cfg st plan = true) (restQ : List Delivery) (restF : List Bool) :
    (query ext port cfg.engine cfg.gather retries
        (Net.init [.opened (faultyScript cfg plan ai ap ar ++ restQ)] (faultyFaults cfg plan ++ restF))).1
      = faultyExpected cfg st plan
    ∧ sentOf (query ext port cfg.engine cfg.gather retries
        (Net.init [.opened (faultyScript cfg plan ai ap ar ++ restQ)] (faultyFaults cfg plan ++ restF))).2.log
      = faultySends cfg st plan := by
  rw [query_eq, Q.bind_apply]
  have ho : openSock false port
        (Net.init [.opened (faultyScript cfg plan ai ap ar ++ restQ)] (faultyFaults cfg plan ++ restF))
      = (.ok ⟨0, port, false⟩,
          ⟨[], [faultyScript cfg plan ai ap ar ++ restQ], faultyFaults cfg plan ++ restF,
            [.opened 0 false port false]⟩) := rfl
  rw [ho]
  have h := queryBody_faulty ext ⟨0, port, false⟩ rfl retries cfg st hwf hx hbi hbp hbr ai ap ar hai hap har hfit
    plan hplan restQ restF []
    ⟨[], [faultyScript cfg plan ai ap ar ++ restQ], faultyFaults cfg plan ++ restF, [.opened 0 false port false]⟩
    ⟨rfl, by simp, by simp, rfl⟩
  simpa using h

/-! ### what the prescribed outcome is in the three situations C10 names -/

theorem sectionOutcome_none {α : Type} (t : Toggle) (p : UnitPlan) (v : α) (h : t ≠ .skip → p.error = none) :
    sectionOutcome t p v = .ok (if t == .skip then none else some v) := by
  unfold sectionOutcome
  cases t with
  | skip => rfl
  | try_ => simp [h (by decide)]
  | enforce => simp [h (by decide)]

theorem toggleOf_info (cfg : Config) : toggleOf cfg .info ≠ .skip := by simp [toggleOf]

/-- every gathered unit is eventually answered: the prescribed outcome is the fault-free one -/
theorem faultyExpected_recovers (cfg : Config) (st : State) (plan : Plan)
    (h : ∀ u, toggleOf cfg u ≠ .skip → (plan.unit u).error = none) :
    faultyExpected cfg st plan = expected cfg st := by
  have hi := h .info (toggleOf_info cfg)
  have hp := h .players
  have hr := h .rules
  simp only [Plan.unit, toggleOf] at hi hp hr
  unfold faultyExpected expected
  simp only [hi, sectionOutcome_none _ _ _ hp, sectionOutcome_none _ _ _ hr]
  split <;> rfl

theorem faultySends_recovers (cfg : Config) (st : State) (plan : Plan)
    (h : ∀ u, toggleOf cfg u ≠ .skip → (plan.unit u).error = none) :
    faultySends cfg st plan
      = sendsOf cfg plan (if appIdOk cfg.engine cfg.gather st.info.appid then [.info, .players, .rules] else [.info]) := by
  have hi := h .info (toggleOf_info cfg)
  have hp := h .players
  simp only [Plan.unit, toggleOf] at hi hp
  unfold faultySends sendsOf
  rw [hi]
  cases happ : appIdOk cfg.engine cfg.gather st.info.appid
  · simp [toggleOf, Plan.unit, exchangeOf]
  · cases htp : cfg.gather.players <;> cases htr : cfg.gather.rules <;>
      simp_all [toggleOf, Plan.unit, exchangeOf]

/-- the first unit that does not end with the server's reply is an enforced one: its error is the query's -/
theorem faultyExpected_stops (cfg : Config) (st : State) (plan : Plan) (u : Request) (k : ErrKind)
    (hearlier : ∀ v ∈ earlier u, toggleOf cfg v ≠ .skip → (plan.unit v).error = none)
    (hu : (plan.unit u).error = some k) (ht : toggleOf cfg u = .enforce)
    (happ : u ≠ .info → appIdOk cfg.engine cfg.gather st.info.appid = true) :
    faultyExpected cfg st plan = .err k := by
  unfold faultyExpected
  cases u with
  | info =>
    simp only [Plan.unit] at hu
    rw [hu]
  | players =>
    have hi := hearlier .info (by simp [earlier]) (toggleOf_info cfg)
    simp only [Plan.unit, toggleOf] at hi hu ht
    simp only [hi]
    simp [happ (by decide), sectionOutcome, hu, ht]
  | rules =>
    have hi := hearlier .info (by simp [earlier]) (toggleOf_info cfg)
    have hp := hearlier .players (by simp [earlier])
    simp only [Plan.unit, toggleOf] at hi hp hu ht
    simp only [hi, sectionOutcome_none _ _ _ hp]
    simp [happ (by decide), sectionOutcome, hu, ht]

/-- … only the units up to it need to be in C10's domain -/
theorem wfPlanReached_stops (retries : Nat) (cfg : Config) (st : State) (plan : Plan) (u : Request) (k : ErrKind)
    (hwfu : ∀ v ∈ earlier u ++ [u], toggleOf cfg v ≠ .skip → wfUnit retries (poolOf cfg st v) (plan.unit v) = true)
    (hu : (plan.unit u).error = some k) (ht : toggleOf cfg u = .enforce) :
    wfPlanReached retries cfg st plan = true := by
  have hi := hwfu .info (by cases u <;> simp [earlier]) (toggleOf_info cfg)
  simp only [Plan.unit, poolOf] at hi
  unfold wfPlanReached
  cases u with
  | info =>
    simp only [Plan.unit] at hu
    simp [hi, hu]
  | players =>
    have hp := hwfu .players (by simp [earlier]) (by rw [ht]; decide)
    simp only [Plan.unit, toggleOf, poolOf] at hp hu ht
    simp [hi, hp, hu, ht]
  | rules =>
    have hp := hwfu .players (by simp [earlier])
    have hr := hwfu .rules (by simp [earlier]) (by rw [ht]; decide)
    simp only [Plan.unit, toggleOf, poolOf] at hp hr hu ht
    by_cases hs : cfg.gather.players = .skip
    · simp [hi, hs, hr]
    · simp [hi, hp hs, hr]

/-- … and nothing of the later units is sent -/
theorem faultySends_stops (cfg : Config) (st : State) (plan : Plan) (u : Request) (k : ErrKind)
    (hearlier : ∀ v ∈ earlier u, toggleOf cfg v ≠ .skip → (plan.unit v).error = none)
    (hu : (plan.unit u).error = some k) (ht : toggleOf cfg u = .enforce)
    (happ : u ≠ .info → appIdOk cfg.engine cfg.gather st.info.appid = true) :
    faultySends cfg st plan = sendsOf cfg plan (earlier u ++ [u]) := by
  unfold faultySends sendsOf
  cases u with
  | info =>
    simp only [Plan.unit] at hu
    simp [hu, earlier, toggleOf, Plan.unit, exchangeOf]
  | players =>
    have hi := hearlier .info (by simp [earlier]) (toggleOf_info cfg)
    simp only [Plan.unit, toggleOf] at hi hu ht
    simp [hi, hu, ht, happ (by decide), earlier, toggleOf, Plan.unit, exchangeOf]
  | rules =>
    have hi := hearlier .info (by simp [earlier]) (toggleOf_info cfg)
    have hp := hearlier .players (by simp [earlier])
    simp only [Plan.unit, toggleOf] at hi hp hu ht
    cases htp : cfg.gather.players <;>
      simp_all [earlier, toggleOf, Plan.unit, exchangeOf]

/-- a unit that is only tried and does not end with the server's reply is an absent section, the others being
answered -/
theorem faultyExpected_try (cfg : Config) (st : State) (plan : Plan) (u : Request) (k : ErrKind)
    (hothers : ∀ v, v ≠ u → toggleOf cfg v ≠ .skip → (plan.unit v).error = none)
    (hu : (plan.unit u).error = some k) (ht : toggleOf cfg u = .try_) :
    faultyExpected cfg st plan = (expected cfg st >>= fun r => .ok (withoutSection r u)) := by
  unfold faultyExpected expected
  cases u with
  | info => simp [toggleOf] at ht
  | players =>
    have hi := hothers .info (by decide) (toggleOf_info cfg)
    have hr := hothers .rules (by decide)
    simp only [Plan.unit, toggleOf] at hi hr hu ht
    simp only [hi, sectionOutcome_none _ _ _ hr]
    split
    · rfl
    · simp [sectionOutcome, hu, ht, withoutSection]
  | rules =>
    have hi := hothers .info (by decide) (toggleOf_info cfg)
    have hp := hothers .players (by decide)
    simp only [Plan.unit, toggleOf] at hi hp hu ht
    simp only [hi, sectionOutcome_none _ _ _ hp]
    split
    · rfl
    · simp [sectionOutcome, hu, ht, withoutSection]

theorem faultySends_try (cfg : Config) (st : State) (plan : Plan) (u : Request) (k : ErrKind)
    (hothers : ∀ v, v ≠ u → toggleOf cfg v ≠ .skip → (plan.unit v).error = none)
    (hu : (plan.unit u).error = some k) (ht : toggleOf cfg u = .try_) :
    faultySends cfg st plan
      = sendsOf cfg plan (if appIdOk cfg.engine cfg.gather st.info.appid then [.info, .players, .rules] else [.info]) := by
  unfold faultySends sendsOf
  cases u with
  | info => simp [toggleOf] at ht
  | players =>
    have hi := hothers .info (by decide) (toggleOf_info cfg)
    simp only [Plan.unit, toggleOf] at hi hu ht
    cases happ : appIdOk cfg.engine cfg.gather st.info.appid <;> cases htr : cfg.gather.rules <;>
      simp_all [toggleOf, Plan.unit, exchangeOf]
  | rules =>
    have hi := hothers .info (by decide) (toggleOf_info cfg)
    have hp := hothers .players (by decide)
    simp only [Plan.unit, toggleOf] at hi hp hu ht
    cases happ : appIdOk cfg.engine cfg.gather st.info.appid <;> cases htp : cfg.gather.players <;>
      simp_all [toggleOf, Plan.unit, exchangeOf]

/-! ### counting attempts on the wire -/

theorem attemptsOf_append (u : Request) (a b : List (Bytes × Bool)) :
    attemptsOf u (a ++ b) = attemptsOf u a + attemptsOf u b := by
  simp [attemptsOf, List.filter_append]

theorem attemptsOf_flagLast (u : Request) (ds : List Bytes) (f : Bool) :
    attemptsOf u (flagLast ds f) = (ds.filter fun d => d == unitRequest u none).length := by
  induction ds with
  | nil => rfl
  | cons d r ih =>
    cases r with
    | nil => simp only [flagLast, attemptsOf, List.filter_cons]; split <;> rfl
    | cons d' r' =>
      simp only [flagLast] at ih ⊢
      simp only [attemptsOf, List.filter_cons] at ih ⊢
      split <;> simp_all

theorem attemptsOf_map (u : Request) (ds : List Bytes) :
    attemptsOf u (ds.map (·, false)) = (ds.filter fun d => d == unitRequest u none).length := by
  rw [← flagLast_false, attemptsOf_flagLast]

theorem unitRequest_ne (v u : Request) (h : v ≠ u) (c : Option Bytes) : unitRequest v c ≠ unitRequest u none := by
  cases v <;> cases u <;> cases c <;>
    first
      | exact absurd rfl h
      | simp [unitRequest, a2sInfoRequest, a2sPlayerRequest, a2sRulesRequest, header, noChallenge]

/-- the requests of one attempt contain the initial request once (own unit, fresh challenges) or never (other unit) -/
theorem count_requestsUpTo_self (u : Request) (x : Exchange) (j : Nat) (hf : freshChallenges u x = true) :
    ((requestsUpTo u x j).filter fun d => d == unitRequest u none).length = 1 := by
  have hnone : ((x.challenges.take j).map fun c => unitRequest u (some c)).filter (fun d => d == unitRequest u none) = [] := by
    rw [List.filter_eq_nil_iff]
    intro d hd
    obtain ⟨c, hc, rfl⟩ := List.mem_map.mp hd
    have := (List.all_eq_true.mp hf) c (List.mem_of_mem_take hc)
    simpa using this
  simp only [requestsUpTo, List.filter_cons, hnone, beq_self_eq_true, ↓reduceIte, List.length_cons, List.length_nil]

theorem count_requestsUpTo_other (u v : Request) (h : v ≠ u) (x : Exchange) (j : Nat) :
    ((requestsUpTo v x j).filter fun d => d == unitRequest u none).length = 0 := by
  have : (requestsUpTo v x j).filter (fun d => d == unitRequest u none) = [] := by
    rw [List.filter_eq_nil_iff]
    intro d hd
    simp only [requestsUpTo, List.mem_cons, List.mem_map] at hd
    rcases hd with rfl | ⟨c, _, rfl⟩
    · simpa using unitRequest_ne v u h none
    · simpa using unitRequest_ne v u h (some c)
  rw [this]; rfl

theorem requestsUpTo_all (u : Request) (x : Exchange) :
    (unitRequest u none :: x.challenges.map fun c => unitRequest u (some c)) = requestsUpTo u x x.challenges.length := by
  simp [requestsUpTo]

theorem attemptsOf_fails_self (u : Request) (x : Exchange) (hf : freshChallenges u x = true) (fails : List Attempt) :
    attemptsOf u (fails.flatMap (Attempt.sends u x)) = fails.length := by
  induction fails with
  | nil => rfl
  | cons a r ih =>
    simp only [List.flatMap_cons, attemptsOf_append, ih, Attempt.sends, attemptsOf_flagLast,
      count_requestsUpTo_self u x _ hf, List.length_cons]
    omega

theorem attemptsOf_fails_other (u v : Request) (h : v ≠ u) (x : Exchange) (fails : List Attempt) :
    attemptsOf u (fails.flatMap (Attempt.sends v x)) = 0 := by
  induction fails with
  | nil => rfl
  | cons a r ih =>
    simp only [List.flatMap_cons, attemptsOf_append, ih, Attempt.sends, attemptsOf_flagLast,
      count_requestsUpTo_other u v h]

/-- the attempts of a unit seen on the wire are the plan's -/
theorem attemptsOf_unit_self (u : Request) (x : Exchange) (hf : freshChallenges u x = true) (p : UnitPlan) :
    attemptsOf u (p.sends u x) = p.attempts := by
  obtain ⟨fails, ending⟩ := p
  simp only [UnitPlan.sends, attemptsOf_append, attemptsOf_fails_self u x hf, UnitPlan.attempts]
  cases ending with
  | valid => simp only [Ending.sends, requestsUpTo_all, attemptsOf_map, count_requestsUpTo_self u x _ hf]
  | gaveUp => rfl
  | malformed j got m => simp only [Ending.sends, attemptsOf_map, count_requestsUpTo_self u x _ hf]

theorem attemptsOf_unit_other (u v : Request) (h : v ≠ u) (x : Exchange) (p : UnitPlan) :
    attemptsOf u (p.sends v x) = 0 := by
  obtain ⟨fails, ending⟩ := p
  simp only [UnitPlan.sends, attemptsOf_append, attemptsOf_fails_other u v h]
  cases ending with
  | valid => simp only [Ending.sends, requestsUpTo_all, attemptsOf_map, count_requestsUpTo_other u v h]
  | gaveUp => rfl
  | malformed j got m => simp only [Ending.sends, attemptsOf_map, count_requestsUpTo_other u v h]

/-- attempts of unit `u` among the sends of the units `us` (each listed once) -/
theorem attemptsOf_sendsOf (cfg : Config) (plan : Plan) (u : Request)
    (hf : freshChallenges u (exchangeOf cfg u) = true) (us : List Request) (hnd : us.Nodup) :
    attemptsOf u (sendsOf cfg plan us)
      = if u ∈ us ∧ toggleOf cfg u ≠ .skip then (plan.unit u).attempts else 0 := by
  induction us with
  | nil => simp [sendsOf, attemptsOf]
  | cons v r ih =>
    have hnd' := List.nodup_cons.mp hnd
    have ih' := ih hnd'.2
    simp only [sendsOf, List.flatMap_cons, attemptsOf_append] at ih' ⊢
    rw [ih']
    by_cases hvu : v = u
    · subst hvu
      have hnot : ¬ (v ∈ r ∧ toggleOf cfg v ≠ .skip) := fun h => hnd'.1 h.1
      by_cases hs : toggleOf cfg v = .skip
      · simp [hs, attemptsOf]
      · have hb : (toggleOf cfg v == Toggle.skip) = false := by simpa using hs
        have hnr : ¬ v ∈ r := hnd'.1
        simp [hb, hs, hnr, attemptsOf_unit_self v _ hf]
    · have hmem : (u ∈ v :: r) ↔ u ∈ r := by simp [List.mem_cons, Ne.symm hvu]
      have h0 : attemptsOf u (if toggleOf cfg v == .skip then [] else (plan.unit v).sends v (exchangeOf cfg v)) = 0 := by
        split
        · rfl
        · exact attemptsOf_unit_other u v hvu _ _
      rw [h0]
      simp only [hmem, Nat.zero_add]

/-! ### packaging for the property theorems -/

/-- what is asked of the client's external decoders (bzip2, CRC-32): they read the compressed replies of the exchange;
nothing when no reply is compressed -/
def DecodersAgree (ext : Ext) (cfg : Config) (st : State) : Prop :=
  BzOk ext (infoPacket cfg st) cfg.info.transport ∧
  BzOk ext (reply 0x44 (encPlayers st.players)) cfg.players.transport ∧
  BzOk ext (reply 0x45 (encRules st.rules)) cfg.rules.transport

theorem decodersAgree_of_uncompressed (ext : Ext) (cfg : Config) (st : State) (hu : uncompressed cfg = true) :
    DecodersAgree ext cfg st := by
  simp only [uncompressed, Bool.and_eq_true, Bool.not_eq_true'] at hu
  exact ⟨bzOk_of_uncompressed _ _ _ hu.1.1, bzOk_of_uncompressed _ _ _ hu.1.2, bzOk_of_uncompressed _ _ _ hu.2⟩

theorem decodersAgree_of_law (ext : Ext) (compress : Bytes → Bytes) (hlaw : ∀ p, ext.bunzip (compress p) = some p)
    (cfg : Config) (st : State) (hcar : carries compress ext.crc32 cfg st) : DecodersAgree ext cfg st :=
  ⟨bzOk_of_law ext compress hlaw _ _ hcar.1, bzOk_of_law ext compress hlaw _ _ hcar.2.1,
    bzOk_of_law ext compress hlaw _ _ hcar.2.2⟩

theorem error_of_valid {p : UnitPlan} (h : p.ending = .valid) : p.error = none := by
  simp [UnitPlan.error, h]

theorem error_of_gaveUp {p : UnitPlan} (h : p.ending = .gaveUp) : p.error = some (lastError Attempt.error p.fails) := by
  simp [UnitPlan.error, h]

theorem error_of_malformed {p : UnitPlan} {j : Nat} {got : List Bytes} {m : Bytes} (h : p.ending = .malformed j got m) :
    p.error = some .packetUnderflow := by
  simp [UnitPlan.error, h]

theorem error_of_not_valid {p : UnitPlan} (h : p.ending ≠ .valid) : ∃ k, p.error = some k := by
  unfold UnitPlan.error
  cases he : p.ending with
  | valid => exact absurd he h
  | gaveUp => exact ⟨_, rfl⟩
  | malformed j got m => exact ⟨_, rfl⟩

/-- the error of the last of a non-empty list of failed attempts -/
theorem lastError_append (fails : List Attempt) (a : Attempt) :
    lastError Attempt.error (fails ++ [a]) = a.error := by
  induction fails with
  | nil => rfl
  | cons b r ih =>
    cases r with
    | nil => rfl
    | cons c r' => simpa [lastError] using ih

theorem lastError_class (fails : List Attempt) :
    lastError Attempt.error fails = .packetReceive ∨ lastError Attempt.error fails = .packetSend := by
  induction fails with
  | nil => exact Or.inl rfl
  | cons b r ih =>
    cases r with
    | nil => simp only [lastError, Attempt.error]; split <;> simp
    | cons c r' => simpa [lastError] using ih

end Gd.Valve
