import GdVerif.Lemmas.Gs3Response
import GdVerif.Lemmas.Gs3Exchange
/-
  GameSpy 3: the whole query against the SPEC's server (any arrival order of the data packets).
-/
namespace Gd.Gs3
open Gd Gd.Gs3.Spec

/-- The SPEC's data packets, received in the client's 2048-byte buffer, are exactly the packets
`frags` of the SPEC's payloads. -/
theorem wire_packets (unknown : List Nat) (total : Nat) (ps : List Bytes) (i : Nat)
    (hcount : i + ps.length ≤ 128)
    (hsize : ∀ d ∈ packetsFrom unknown total i ps, d.length ≤ PACKET_SIZE) :
    (packetsFrom unknown total i ps).map decodeFrag = (fragsFrom total i ps).map .ok := by
  induction ps generalizing i with
  | nil => rfl
  | cons p r ih =>
    simp only [packetsFrom, fragsFrom, List.map_cons, List.length_cons] at hsize hcount ⊢
    rw [decodeFrag_dataPacket i (by omega) _ _ p (hsize _ (by simp)), ih (i + 1) (by omega) (fun d hd => hsize d (by simp [hd]))]

theorem payloads_ne_nil (cfg : Config) (st : State) : payloads cfg st ≠ [] := by
  unfold payloads; split <;> simp

/-- the receive loop on the data packets of any non-empty list of non-empty payloads, in any order of
arrival -/
theorem feed_arrival_ps (unknown : List Nat) (ps : List Bytes) (hne : ps ≠ [])
    (hcount : ps.length ≤ 128) (hpay : ∀ p ∈ ps, p ≠ [])
    (hsize : ∀ d ∈ packetsFrom unknown ps.length 0 ps, d.length ≤ PACKET_SIZE)
    (arrival : List Bytes) (h : arrival.Perm (packetsFrom unknown ps.length 0 ps)) :
    feed Acc.init (arrival.map decodeFrag) = .ok ps := by
  have hdec : (arrival.map decodeFrag).Perm ((frags ps).map .ok) := by
    have := h.map decodeFrag
    rwa [wire_packets _ _ _ 0 (by omega) hsize] at this
  have hall : ∀ r ∈ arrival.map decodeFrag, ∃ f, r = .ok f := by
    intro r hr
    obtain ⟨f, _, rfl⟩ := List.mem_map.mp (hdec.subset hr)
    exact ⟨f, rfl⟩
  have hex : ∀ (l : List (Res Frag)), (∀ r ∈ l, ∃ f, r = .ok f) → ∃ L : List Frag, l = L.map .ok := by
    intro l
    induction l with
    | nil => intro _; exact ⟨[], rfl⟩
    | cons r t ih =>
      intro hl
      obtain ⟨f, rfl⟩ := hl r (by simp)
      obtain ⟨L, rfl⟩ := ih (fun r hr => hl r (by simp [hr]))
      exact ⟨f :: L, rfl⟩
  obtain ⟨L, hL⟩ := hex _ hall
  rw [hL] at hdec ⊢
  have hperm : L.Perm (frags ps) := by
    have hg := hdec.map (fun r : Res Frag => match r with
      | .ok f => f
      | _ => ⟨0, false, []⟩)
    simpa [List.map_map, Function.comp_def] using hg
  have hids : (ids L).Perm (List.range ps.length) := by
    rw [← ids_frags]; exact hperm.map _
  rcases feed_frags ps hne hpay L [] Acc.init (Rep.init _) (by simp [ids])
      (fun f hf => (mem_frags _ f).mp (hperm.subset (by simpa using hf)))
      (fun i hi => by simpa using hids.symm.subset (List.mem_range.mpr hi)) with hok | ⟨_, hdup⟩
  · exact hok
  · exact absurd (hids.symm.nodup List.nodup_range) (by simpa using hdup)

/-- the receive loop on the SPEC's data packets in any order of arrival -/
theorem feed_arrival (cfg : Config) (st : State)
    (hcount : (payloads cfg st).length ≤ 128) (hpay : ∀ p ∈ payloads cfg st, p ≠ [])
    (hsize : ∀ d ∈ dataPackets cfg st, d.length ≤ PACKET_SIZE)
    (arrival : List Bytes) (h : arrival.Perm (dataPackets cfg st)) :
    feed Acc.init (arrival.map decodeFrag) = .ok (payloads cfg st) :=
  feed_arrival_ps cfg.unknown (payloads cfg st) (payloads_ne_nil cfg st) hcount hpay hsize arrival h

theorem encSlice_ne_nil (st : State) (sl : Slice) : encSlice st sl ≠ [] := by
  simp [encSlice, cstr]

/-- what `wf` says about the datagrams -/
theorem wf_wire (cfg : Config) (st : State) (h : wf cfg st = true) :
    (payloads cfg st).length ≤ 128 ∧ (∀ p ∈ payloads cfg st, p ≠ []) ∧ (∀ d ∈ dataPackets cfg st, d.length ≤ PACKET_SIZE)
    ∧ -(2 ^ 31 : Int) ≤ cfg.challenge ∧ cfg.challenge < 2 ^ 31 := by
  obtain ⟨_, _, _, _, _, _, _, hne, hrest, hlen, hlo, hhi, hsize⟩ := wf_parts cfg st h
  refine ⟨?_, ?_, fun d hd => by simpa using List.all_eq_true.mp hsize d hd, hlo, hhi⟩
  · unfold payloads
    cases hl : cfg.layout with
    | nil => simp
    | cons first rest => rw [hl] at hlen; simpa using hlen
  · unfold payloads
    cases hl : cfg.layout with
    | nil => simp [encVars]
    | cons first rest =>
      rw [hl] at hrest
      simp only [List.drop_succ_cons, List.drop_zero, List.all_eq_true, Bool.not_eq_true', List.isEmpty_eq_false_iff] at hrest
      intro p hp
      rcases List.mem_cons.mp hp with rfl | hp
      · simp [encVars]
      · obtain ⟨ss, hss, rfl⟩ := List.mem_map.mp hp
        have := hrest ss hss
        cases ss with
        | nil => exact absurd rfl this
        | cons sl r =>
          simp only [encSlices, List.map_cons, List.flatten_cons, ne_eq, List.append_eq_nil_iff, not_and]
          intro h0
          exact absurd h0 (encSlice_ne_nil st sl)

theorem retry_ok {f : Q α} {w : Net} {a : α} (r : Nat) (h : (f w).1 = .ok a) : retryOnTimeout r f w = f w := by
  cases r with
  | zero => rfl
  | succ r =>
    simp only [retryOnTimeout]
    cases hf : f w with
    | mk res w' =>
      rw [hf] at h
      simp only at h
      subst h
      rfl

/-- The whole exchange against a server that answers the handshake with challenge `c` and then sends
the data packets of the payloads `ps` in ANY order of arrival, then silence; no send fails: the
post-processing `post` is applied to `ps`, and the client has sent exactly the two requests. -/
theorem exchange_wire (c : Int) (hlo : -(2 ^ 31 : Int) ≤ c) (hhi : c < 2 ^ 31) (unknown : List Nat) (ps : List Bytes)
    (hne : ps ≠ []) (hcount : ps.length ≤ 128) (hpay : ∀ p ∈ ps, p ≠ [])
    (hsize : ∀ d ∈ packetsFrom unknown ps.length 0 ps, d.length ≤ PACKET_SIZE)
    (port r : Nat) {α : Type} (post : List Bytes → Res α)
    (arrival : List Bytes) (harr : arrival.Perm (packetsFrom unknown ps.length 0 ps)) :
    (exchange port r DEFAULT_PAYLOAD false post
        (Net.init [.opened ((handshakeReply c :: arrival).map .data)] [])).1 = post ps
    ∧ sentOf (exchange port r DEFAULT_PAYLOAD false post
        (Net.init [.opened ((handshakeReply c :: arrival).map .data)] [])).2.log = [handshakeRequest, dataRequest c] := by
  let s : Sock := ⟨0, port, false⟩
  let w1 : Net := ⟨[], [(handshakeReply c :: arrival).map .data], [], [.opened 0 false port false]⟩
  have hopen : openSock false port (Net.init [.opened ((handshakeReply c :: arrival).map .data)] []) = (.ok s, w1) := rfl
  obtain ⟨himpl, hsent⟩ := impl_after_handshake s rfl DEFAULT_PAYLOAD w1 c hlo hhi arrival rfl rfl
  rw [feed_arrival_ps unknown ps hne hcount hpay hsize arrival harr] at himpl
  have hretry : getServerPackets s r DEFAULT_PAYLOAD false w1 = getServerPacketsImpl s DEFAULT_PAYLOAD false w1 :=
    retry_ok r himpl
  unfold exchange
  rw [Q.bind_ok hopen, Q.bind_apply, hretry]
  cases himp : getServerPacketsImpl s DEFAULT_PAYLOAD false w1 with
  | mk res w2 =>
    rw [himp] at himpl hsent
    simp only at himpl hsent
    subst himpl
    simp only [Q.lift, true_and]
    rw [hsent]
    have e := C09_request_bytes c
    simp [sentOf, w1, e.1, e.2]
where
  C09_request_bytes (c : Int) :
      requestBytes 9 none none = handshakeRequest
      ∧ requestBytes 0 (if c = 0 then none else some c) (some DEFAULT_PAYLOAD) = dataRequest c := by
    constructor
    · decide
    · unfold requestBytes dataRequest
      by_cases hc : c = 0
      · subst hc; decide
      · simp only [hc, ↓reduceIte]
        have h1 : natBE 2 65277 ++ [UInt8.ofNat 0] ++ natBE 4 SESSION_ID = [0xFE, 0xFD, 0x00] ++ sessionId := by decide
        rw [h1]
        rfl

/-- The whole exchange against the SPEC's server for a well-formed state — handshake reply, then the
data packets in ANY order of arrival, then silence; no send fails: the post-processing `post` is
applied to the SPEC's payloads, and the client has sent exactly the SPEC's two requests. -/
theorem exchange_spec (cfg : Config) (st : State) (h : wf cfg st = true) (port r : Nat) {α : Type}
    (post : List Bytes → Res α) (arrival : List Bytes) (harr : arrival.Perm (dataPackets cfg st)) :
    (exchange port r DEFAULT_PAYLOAD false post
        (Net.init [.opened ((handshakeReply cfg.challenge :: arrival).map .data)] [])).1 = post (payloads cfg st)
    ∧ sentOf (exchange port r DEFAULT_PAYLOAD false post
        (Net.init [.opened ((handshakeReply cfg.challenge :: arrival).map .data)] [])).2.log = requests cfg := by
  obtain ⟨hcount, hpay, hsize, hlo, hhi⟩ := wf_wire cfg st h
  exact exchange_wire cfg.challenge hlo hhi cfg.unknown (payloads cfg st) (payloads_ne_nil cfg st) hcount hpay hsize
    port r post arrival harr

end Gd.Gs3
