import GdVerif.Lemmas.QBounds
import GdVerif.Proto.Unreal2
/-
  Blocking steps of the Unreal 2 query that can run into their timeout, and the silent server.
  The three requests are retried units (one timeout per failed attempt).  The rules and players
  answers are lists of datagrams without a count: `while let Ok(data) = socket.receive(..)` listens
  until a receive fails, so a successful list request is followed by exactly one more timed-out
  receive however many datagrams arrive (`recvWhile`: `Block 1 1`).  A request that succeeded had at
  most `retries` failed attempts, so request + list is still `retries + 1`.
-/
namespace Gd.Unreal2
open Gd

/-- the listening loop: every receive that returns was answered by the peer; the one that times out
ends the loop -/
theorem block_recvWhile (s : Sock) (body : σ → Bytes → Res (σ × Bool)) :
    ∀ (fuel : Nat) (st : σ), Block 1 1 (recvWhile s body fuel st) := by
  intro fuel
  induction fuel with
  | zero => intro st w; exact ⟨[], by simp [recvWhile], by simp [recvWhile, nBlocked]⟩
  | succ fuel ih =>
    intro st w
    obtain ⟨a1, hl1, hc1⟩ := Block.recv s (some PACKET_SIZE) w
    unfold recvWhile
    cases hr : Gd.recv s (some PACKET_SIZE) w with
    | mk res w1 =>
      rw [hr] at hl1 hc1
      cases res with
      | err k => exact ⟨a1, hl1, by simpa using hc1⟩
      | crash => exact ⟨a1, hl1, by simpa using hc1⟩
      | ok data =>
        simp only at hc1 ⊢
        cases hb : body st data with
        | err k => exact ⟨a1, hl1, by simp only; omega⟩
        | crash => exact ⟨a1, hl1, by simp only; omega⟩
        | ok x =>
          obtain ⟨st', go⟩ := x
          cases go with
          | false => exact ⟨a1, hl1, by simp only; omega⟩
          | true =>
            simp only
            obtain ⟨a2, hl2, hc2⟩ := ih st' w1
            refine ⟨a1 ++ a2, by rw [hl2, hl1, List.append_assoc], ?_⟩
            rw [nBlocked_append]
            cases hres : (recvWhile s body fuel st' w1).1 <;> rw [hres] at hc2 <;> simp only at hc2 ⊢ <;> omega

theorem block_listen (s : Sock) (body : σ → Bytes → Res (σ × Bool)) (st : σ) :
    Block 1 1 (fun w => recvWhile s body (queued s w + 1) st w) :=
  fun w => block_recvWhile s body (queued s w + 1) st w

/-- one attempt of a request: a blocking step runs into its timeout only if it fails, and then once -/
theorem block_requestImpl (s : Sock) (kind : PacketKind) : Block 0 1 (requestImpl s kind) := by
  unfold requestImpl
  exact (Block.bind (Block.send s (requestBytes kind)) fun _ => Block.recv s (some PACKET_SIZE)).weaken
    (by omega) (by omega)

theorem block_requestData (s : Sock) (r : Nat) (kind : PacketKind) : Block r (r + 1) (requestData s r kind) :=
  Block.retrySharp (block_requestImpl s kind) r

theorem block_queryServerInfo (s : Sock) (r : Nat) : Block r (r + 1) (queryServerInfo s r) := by
  unfold queryServerInfo
  exact (Block.bind (block_requestData s r .serverInfo) fun d => Block.parse _ d).weaken (by omega) (by omega)

theorem block_queryRules (s : Sock) (r : Nat) : Block (r + 1) (r + 1) (queryRules s r) := by
  unfold queryRules
  have h := Block.bind (block_requestData s r .mutatorsAndRules) fun data =>
    Block.bind (Block.lift ((consumeHeaders .mutatorsAndRules >>= fun _ => parseRules .empty).run data))
      fun st => block_listen s rulesRound st
  exact h.weaken (by omega) (by omega)

theorem block_queryPlayers (s : Sock) (r n : Nat) : Block (r + 1) (r + 1) (queryPlayers s r n) := by
  unfold queryPlayers
  have h := Block.bind (block_requestData s r .players) fun data =>
    Block.bind (ko2 := 1) (ke2 := 1) (f := fun (x : Players × Bool) =>
        (match x with
          | (st, more) => if more then fun w => recvWhile s (playersRound n) (queued s w + 1) st w else pure st : Q Players))
      (Block.lift (playersRound n .empty data)) fun x => by
        obtain ⟨st, more⟩ := x
        cases more with
        | true => exact block_listen s (playersRound n) st
        | false => exact (Block.pure st).weaken (by omega) (by omega)
  exact h.weaken (by omega) (by omega)

/-- the server info must have been obtained (after at most `r` failed attempts) for the other two
requests to be made at all: `r + 2 (r + 1)`, not `3 (r + 1)` -/
theorem block_queryBody (s : Sock) (g : Gather) (r : Nat) : Block (3 * r + 2) (3 * r + 2) (queryBody s g r) := by
  unfold queryBody
  have h := Block.bind (block_queryServerInfo s r) fun info =>
    Block.bind (Block.maybeGather (block_queryRules s r) g.mutatorsAndRules) fun mr =>
    Block.bind (Block.maybeGather (block_queryPlayers s r (applyPassword info (mr.getD .empty)).numPlayers) g.players)
      fun players => Block.pure (⟨applyPassword info (mr.getD .empty), mr.getD .empty, players.getD .empty⟩ : Response)
  exact h.weaken (by omega) (by omega)

theorem block_query (port : Nat) (g : Gather) (r : Nat) : Block (3 * r + 2) (3 * r + 2) (query port g r) := by
  unfold query
  have h := Block.bind (Block.openSock false port) fun s => block_queryBody s g r
  exact h.weaken (by omega) (by omega)

/-- one attempt against a silent server: the request is sent, the receive times out -/
theorem silent_requestImpl (s : Sock) (kind : PacketKind) : SilentAttempt s 1 (requestImpl s kind) := by
  unfold requestImpl
  exact SilentAttempt.seq (k2 := 0) (SilentSends.send s _) fun _ => SilentAttempt.recv s _

theorem silent_requestData (s : Sock) (r : Nat) (kind : PacketKind) :
    SilentRun s (r + 1) (r + 1) (requestData s r kind) :=
  (silent_requestImpl s kind).retry1 r

/-- the first request (server info) is not behind a gather toggle: its failure is the query's -/
theorem silent_query (port : Nat) (g : Gather) (r : Nat) (w : Net) (hf : w.faults = [])
    (hp : PendingSilent false (r + 1) w.pending) :
    SilentOutcome w (query port g r w) (r + 1) (r + 1) := by
  unfold query queryBody queryServerInfo
  exact SilentRun.openSock (fun s _ => ((silent_requestData s r .serverInfo).bind_left _).bind_left _) port w hf hp

end Gd.Unreal2
