import GdVerif.Base
/-
  Decimal text: Rust's `to_string()` of an integer (`natDec`, `intDec`) is parsed back by Rust's
  `str::parse` (`parseUnsigned`, `parseSigned`) to the same number, for every number in range.
  (Shared helper, added with the GameSpy 3 family.)
-/
namespace Gd

def charByte (c : Char) : UInt8 := UInt8.ofNat c.toNat

theorem natDec_eq (n : Nat) : natDec n = (Nat.toDigits 10 n).map charByte := by
  simp [natDec, asciiBytes, charByte]

theorem charByte_digit {c : Char} (h : c.isDigit = true) :
    (charByte c).toNat = c.toNat ∧ 48 ≤ c.toNat ∧ c.toNat ≤ 57 := by
  simp only [Char.isDigit, Bool.and_eq_true, decide_eq_true_eq, ge_iff_le, UInt32.le_iff_toNat_le] at h
  have h1 : 48 ≤ c.toNat := h.1
  have h2 : c.toNat ≤ 57 := h.2
  refine ⟨?_, h1, h2⟩
  simp only [charByte, UInt8.toNat_ofNat']
  omega

theorem isDigit_charByte {c : Char} (h : c.isDigit = true) : isDigit (charByte c) = true := by
  obtain ⟨h0, h1, h2⟩ := charByte_digit h
  simp [isDigit, inRange, h0, h1, h2]

theorem digitsVal_map (l : List Char) (h : ∀ c ∈ l, c.isDigit = true) (init : Nat) :
    (l.map charByte).foldl (fun acc b => acc * 10 + (b.toNat - 48)) init = Nat.ofDigitChars 10 l init := by
  induction l generalizing init with
  | nil => simp [Nat.ofDigitChars]
  | cons c r ih =>
    simp only [List.map_cons, List.foldl_cons, Nat.ofDigitChars_cons]
    rw [ih (fun x hx => h x (by simp [hx]))]
    obtain ⟨h0, _, _⟩ := charByte_digit (h c (by simp))
    rw [h0, Nat.mul_comm]
    rfl

theorem digits_all (n : Nat) : ∀ c ∈ Nat.toDigits 10 n, c.isDigit = true :=
  fun _ hc => Nat.isDigit_of_mem_toDigits (by decide) (by decide) hc

theorem digitsVal_natDec (n : Nat) : digitsVal (natDec n) = n := by
  rw [natDec_eq, digitsVal, digitsVal_map _ (digits_all n), Nat.ofDigitChars_ten_toDigits]

theorem natDec_all_digits (n : Nat) : (natDec n).all isDigit = true := by
  rw [natDec_eq, List.all_eq_true]
  intro b hb
  obtain ⟨c, hc, rfl⟩ := List.mem_map.mp hb
  exact isDigit_charByte (digits_all n c hc)

theorem natDec_ne_nil (n : Nat) : natDec n ≠ [] := by
  rw [natDec_eq]
  simp

/-- the first byte of a decimal rendering is a digit -/
theorem natDec_head (n : Nat) : ∃ d r, natDec n = d :: r ∧ isDigit d = true := by
  cases h : natDec n with
  | nil => exact absurd h (natDec_ne_nil n)
  | cons d r =>
    refine ⟨d, r, rfl, ?_⟩
    have := natDec_all_digits n
    rw [h] at this
    simp only [List.all_cons, Bool.and_eq_true] at this
    exact this.1

theorem isDigit_ne {d : UInt8} (h : isDigit d = true) : d ≠ 43 ∧ d ≠ 45 ∧ d ≠ 0 ∧ d.toNat < 128 := by
  simp only [isDigit, inRange, Bool.and_eq_true, decide_eq_true_eq] at h
  refine ⟨?_, ?_, ?_, by omega⟩ <;> (intro hd; subst hd; simp at h)

theorem parseUnsigned_cons (bits : Nat) (d : UInt8) (r : Bytes) (hd : d ≠ 43) :
    parseUnsigned bits (d :: r) =
      if (d :: r).isEmpty || !(d :: r).all isDigit then none
      else if digitsVal (d :: r) < 2 ^ bits then some (digitsVal (d :: r)) else none := by
  unfold parseUnsigned
  split
  · rename_i heq
    simp only [List.cons.injEq] at heq
    exact absurd heq.1 hd
  · rfl

theorem parseSigned_cons (bits : Nat) (d : UInt8) (r : Bytes) (h1 : d ≠ 43) (h2 : d ≠ 45) :
    parseSigned bits (d :: r) =
      if (d :: r).isEmpty || !(d :: r).all isDigit then none
      else if digitsVal (d :: r) < 2 ^ (bits - 1) then some (digitsVal (d :: r) : Int) else none := by
  unfold parseSigned
  split
  rename_i x neg ds heq
  split at heq
  · rename_i h; simp only [List.cons.injEq] at h; exact absurd h.1 h1
  · rename_i h; simp only [List.cons.injEq] at h; exact absurd h.1 h2
  · cases heq; simp

theorem parseSigned_minus (bits : Nat) (r : Bytes) :
    parseSigned bits (45 :: r) =
      if r.isEmpty || !r.all isDigit then none
      else if digitsVal r ≤ 2 ^ (bits - 1) then some (-(digitsVal r : Int)) else none := by
  unfold parseSigned
  rfl

/-- `n.to_string().parse::<uN>() == Ok(n)` for every `n` that fits -/
theorem parseUnsigned_natDec (bits n : Nat) (h : n < 2 ^ bits) : parseUnsigned bits (natDec n) = some n := by
  obtain ⟨d, r, hs, hd⟩ := natDec_head n
  have hne := isDigit_ne hd
  have hall := natDec_all_digits n
  have hval := digitsVal_natDec n
  rw [hs] at hall hval ⊢
  rw [parseUnsigned_cons bits d r hne.1]
  simp [hall, hval, h]

theorem intDec_ofNat (n : Nat) : intDec (n : Int) = natDec n := by
  show asciiBytes (toString (Int.ofNat n)) = natDec n
  rfl

theorem intDec_negSucc (m : Nat) : intDec (Int.negSucc m) = 45 :: natDec (m + 1) := by
  show asciiBytes (toString (Int.negSucc m)) = 45 :: natDec (m + 1)
  show asciiBytes ("-" ++ Nat.repr (m + 1)) = _
  simp [asciiBytes, natDec]

/-- `i.to_string().parse::<iN>() == Ok(i)` for every `i` that fits -/
theorem parseSigned_intDec (bits : Nat) (i : Int) (hlo : -(2 ^ (bits - 1) : Int) ≤ i) (hhi : i < 2 ^ (bits - 1)) :
    parseSigned bits (intDec i) = some i := by
  cases i with
  | ofNat n =>
    have hn : n < 2 ^ (bits - 1) := by
      have : ((n : Nat) : Int) < ((2 ^ (bits - 1) : Nat) : Int) := by simpa using hhi
      omega
    rw [show Int.ofNat n = (n : Int) from rfl, intDec_ofNat]
    obtain ⟨d, r, hs, hd⟩ := natDec_head n
    have hne := isDigit_ne hd
    have hall := natDec_all_digits n
    have hval := digitsVal_natDec n
    rw [hs] at hall hval ⊢
    rw [parseSigned_cons bits d r hne.1 hne.2.1]
    simp [hall, hval, hn]
  | negSucc m =>
    have hm1 : m + 1 ≤ 2 ^ (bits - 1) := by
      have : -((2 ^ (bits - 1) : Nat) : Int) ≤ Int.negSucc m := by simpa using hlo
      omega
    rw [intDec_negSucc, parseSigned_minus]
    have h1 : (natDec (m + 1)).isEmpty = false := by
      obtain ⟨d, r, hs, _⟩ := natDec_head (m + 1); rw [hs]; rfl
    simp only [h1, natDec_all_digits, digitsVal_natDec, hm1, Bool.false_or, Bool.not_true, Bool.false_eq_true,
      ↓reduceIte]
    rfl

/-- ASCII bytes are valid UTF-8 -/
theorem validUtf8_ascii (s : Bytes) (h : ∀ b ∈ s, b.toNat < 128) : validUtf8 s = true := by
  induction s with
  | nil => rfl
  | cons b r ih =>
    have hb : b.toNat < 128 := h b (by simp)
    have step : validUtf8 (b :: r) = validUtf8 r := by
      conv => lhs; unfold validUtf8
      simp [hb]
    rw [step]
    exact ih (fun x hx => h x (by simp [hx]))

theorem natDec_text (n : Nat) : (0 : UInt8) ∉ natDec n ∧ validUtf8 (natDec n) = true ∧ natDec n ≠ [] := by
  have hall := natDec_all_digits n
  rw [List.all_eq_true] at hall
  refine ⟨fun h0 => (isDigit_ne (hall 0 h0)).2.2.1 rfl, validUtf8_ascii _ fun b hb => (isDigit_ne (hall b hb)).2.2.2,
    natDec_ne_nil n⟩

theorem intDec_text (i : Int) : (0 : UInt8) ∉ intDec i ∧ validUtf8 (intDec i) = true ∧ intDec i ≠ [] := by
  cases i with
  | ofNat n => rw [show Int.ofNat n = (n : Int) from rfl, intDec_ofNat]; exact natDec_text n
  | negSucc m =>
    rw [intDec_negSucc]
    obtain ⟨h0, hv, _⟩ := natDec_text (m + 1)
    refine ⟨?_, ?_, by simp⟩
    · simp only [List.mem_cons, not_or]
      exact ⟨by decide, h0⟩
    · have hall := natDec_all_digits (m + 1)
      rw [List.all_eq_true] at hall
      apply validUtf8_ascii
      intro b hb
      rcases List.mem_cons.mp hb with rfl | hb'
      · decide
      · exact (isDigit_ne (hall b hb')).2.2.2

end Gd
