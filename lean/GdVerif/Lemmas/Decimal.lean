import GdVerif.Lemmas.Text
/-
  Decimal text: Rust's `to_string()` of an integer (`natDec`, `intDec`) is parsed back by Rust's
  `str::parse` (`parseUnsigned`: `Lemmas/Text.lean`; `parseSigned`: here) to the same number, for every
  number in range; the rendering is non-empty ASCII digits.  (Shared helper, added with GameSpy 3.)
-/
namespace Gd

theorem natDec_all_digits (n : Nat) : (natDec n).all isDigit = true := (natDec_spec n).1
theorem natDec_ne_nil (n : Nat) : natDec n ≠ [] := (natDec_spec n).2.1
theorem digitsVal_natDec (n : Nat) : digitsVal (natDec n) = n := (natDec_spec n).2.2

/-- the first byte of a decimal rendering is a digit -/
theorem natDec_head (n : Nat) : ∃ d r, natDec n = d :: r ∧ isDigit d = true := by
  cases h : natDec n with
  | nil => exact absurd h (natDec_ne_nil n)
  | cons d r =>
    refine ⟨d, r, rfl, ?_⟩
    have := natDec_all_digits n
    rw [h] at this
    simp only [List.all_cons, Bool.and_eq_true] at this
    exact this.1

theorem isDigit_ne {d : UInt8} (h : isDigit d = true) : d ≠ 43 ∧ d ≠ 45 ∧ d ≠ 0 ∧ d.toNat < 128 := by
  simp only [isDigit, inRange, Bool.and_eq_true, decide_eq_true_eq] at h
  refine ⟨?_, ?_, ?_, by omega⟩ <;> (intro hd; subst hd; simp at h)

theorem parseSigned_cons (bits : Nat) (d : UInt8) (r : Bytes) (h1 : d ≠ 43) (h2 : d ≠ 45) :
    parseSigned bits (d :: r) =
      if (d :: r).isEmpty || !(d :: r).all isDigit then none
      else if digitsVal (d :: r) < 2 ^ (bits - 1) then some (digitsVal (d :: r) : Int) else none := by
  unfold parseSigned
  split
  rename_i x neg ds heq
  split at heq
  · rename_i h; simp only [List.cons.injEq] at h; exact absurd h.1 h1
  · rename_i h; simp only [List.cons.injEq] at h; exact absurd h.1 h2
  · cases heq; simp

theorem parseSigned_minus (bits : Nat) (r : Bytes) :
    parseSigned bits (45 :: r) =
      if r.isEmpty || !r.all isDigit then none
      else if digitsVal r ≤ 2 ^ (bits - 1) then some (-(digitsVal r : Int)) else none := by
  unfold parseSigned
  rfl

theorem intDec_ofNat (n : Nat) : intDec (n : Int) = natDec n := by
  unfold intDec
  have : ¬ ((n : Int) < 0) := by omega
  simp [this]

theorem intDec_negSucc (m : Nat) : intDec (Int.negSucc m) = 45 :: natDec (m + 1) := by
  unfold intDec
  have h1 : Int.negSucc m < 0 := Int.negSucc_lt_zero m
  have h2 : (-Int.negSucc m).toNat = m + 1 := by
    rw [Int.neg_negSucc]
    rfl
  simp [h1, h2]

/-- `i.to_string().parse::<iN>() == Ok(i)` for every `i` that fits -/
theorem parseSigned_intDec (bits : Nat) (i : Int) (hlo : -(2 ^ (bits - 1) : Int) ≤ i) (hhi : i < 2 ^ (bits - 1)) :
    parseSigned bits (intDec i) = some i := by
  cases i with
  | ofNat n =>
    have hn : n < 2 ^ (bits - 1) := by
      have : ((n : Nat) : Int) < ((2 ^ (bits - 1) : Nat) : Int) := by simpa using hhi
      omega
    rw [show Int.ofNat n = (n : Int) from rfl, intDec_ofNat]
    obtain ⟨d, r, hs, hd⟩ := natDec_head n
    have hne := isDigit_ne hd
    have hall := natDec_all_digits n
    have hval := digitsVal_natDec n
    rw [hs] at hall hval ⊢
    rw [parseSigned_cons bits d r hne.1 hne.2.1]
    simp [hall, hval, hn]
  | negSucc m =>
    have hm1 : m + 1 ≤ 2 ^ (bits - 1) := by
      have : -((2 ^ (bits - 1) : Nat) : Int) ≤ Int.negSucc m := by simpa using hlo
      omega
    rw [intDec_negSucc, parseSigned_minus]
    have h1 : (natDec (m + 1)).isEmpty = false := by
      obtain ⟨d, r, hs, _⟩ := natDec_head (m + 1); rw [hs]; rfl
    simp only [h1, natDec_all_digits, digitsVal_natDec, hm1, Bool.false_or, Bool.not_true, Bool.false_eq_true,
      ↓reduceIte]
    rfl

/-- ASCII bytes are valid UTF-8 -/
theorem validUtf8_ascii (s : Bytes) (h : ∀ b ∈ s, b.toNat < 128) : validUtf8 s = true := by
  induction s with
  | nil => rfl
  | cons b r ih =>
    have hb : b.toNat < 128 := h b (by simp)
    have step : validUtf8 (b :: r) = validUtf8 r := by
      conv => lhs; unfold validUtf8
      simp [hb]
    rw [step]
    exact ih (fun x hx => h x (by simp [hx]))

theorem natDec_text (n : Nat) : (0 : UInt8) ∉ natDec n ∧ validUtf8 (natDec n) = true ∧ natDec n ≠ [] := by
  have hall := natDec_all_digits n
  rw [List.all_eq_true] at hall
  refine ⟨fun h0 => (isDigit_ne (hall 0 h0)).2.2.1 rfl, validUtf8_ascii _ fun b hb => (isDigit_ne (hall b hb)).2.2.2,
    natDec_ne_nil n⟩

theorem intDec_text (i : Int) : (0 : UInt8) ∉ intDec i ∧ validUtf8 (intDec i) = true ∧ intDec i ≠ [] := by
  cases i with
  | ofNat n => rw [show Int.ofNat n = (n : Int) from rfl, intDec_ofNat]; exact natDec_text n
  | negSucc m =>
    rw [intDec_negSucc]
    obtain ⟨h0, hv, _⟩ := natDec_text (m + 1)
    refine ⟨?_, ?_, by simp⟩
    · simp only [List.mem_cons, not_or]
      exact ⟨by decide, h0⟩
    · have hall := natDec_all_digits (m + 1)
      rw [List.all_eq_true] at hall
      apply validUtf8_ascii
      intro b hb
      rcases List.mem_cons.mp hb with rfl | hb'
      · decide
      · exact (isDigit_ne (hall b hb')).2.2.2

theorem natDecAux_length (f : Nat) : ∀ (n k : Nat), n < f → 0 < k → n < 10 ^ k → (natDecAux f n).length ≤ k := by
  induction f with
  | zero => intro n k h; omega
  | succ f ih =>
    intro n k h hk hn
    unfold natDecAux
    split
    · simp; omega
    · rename_i hge
      cases k with
      | zero => omega
      | succ k =>
        cases k with
        | zero => simp at hn; omega
        | succ k =>
          have := ih (n / 10) (k + 1) (by omega) (by omega) (by
            rw [Nat.pow_succ] at hn
            exact Nat.div_lt_of_lt_mul (by rw [Nat.mul_comm]; exact hn))
          simp only [List.length_append, List.length_cons, List.length_nil]
          omega

theorem natDec_length (n k : Nat) (hk : 0 < k) (h : n < 10 ^ k) : (natDec n).length ≤ k :=
  natDecAux_length (n + 1) n k (by omega) hk h

end Gd
