import GdVerif.Lemmas.QCost
import GdVerif.Proto.Unreal2
/-
  How many datagrams the Unreal 2 query sends: an absolute bound (the protocol has no challenge, so
  nothing a server sends earns a further request).  `Sends k q`: whatever the state and the outcome,
  `q` appends events to the log of which at most `k` are sends.
-/
namespace Gd

def Sends (k : Nat) (q : Q α) : Prop :=
  ∀ w, ∃ added, (q w).2.log = w.log ++ added ∧ nSends added ≤ k

theorem Sends.weaken {q : Q α} {k k' : Nat} (h : Sends k q) (hk : k ≤ k') : Sends k' q := by
  intro w
  obtain ⟨a, h1, h2⟩ := h w
  exact ⟨a, h1, Nat.le_trans h2 hk⟩

theorem Sends.pure (a : α) : Sends 0 (pure a : Q α) := fun w => ⟨[], by simp, by simp [nSends]⟩

theorem Sends.lift (r : Res α) : Sends 0 (Q.lift r) := fun w => ⟨[], by simp [Q.lift], by simp [nSends]⟩

theorem Sends.send (s : Sock) (data : Bytes) : Sends 1 (send s data) := by
  intro w
  unfold Gd.send
  split <;> exact ⟨_, rfl, by simp [nSends, isSend]⟩

theorem Sends.recv (s : Sock) (size : Option Nat) : Sends 0 (recv s size) := by
  intro w
  unfold Gd.recv
  split
  · exact ⟨_, rfl, by simp [nSends, isSend]⟩
  · exact ⟨_, rfl, by simp [nSends, isSend]⟩
  · split <;> exact ⟨_, rfl, by simp [nSends, isSend]⟩

theorem Sends.bind {q : Q α} {f : α → Q β} {k1 k2 : Nat} (hq : Sends k1 q) (hf : ∀ a, Sends k2 (f a)) :
    Sends (k1 + k2) (q >>= f) := by
  intro w
  obtain ⟨a1, hl1, hc1⟩ := hq w
  rw [Q.bind_apply]
  cases hqw : q w with
  | mk res w1 =>
    rw [hqw] at hl1
    cases res with
    | ok a =>
      obtain ⟨a2, hl2, hc2⟩ := hf a w1
      exact ⟨a1 ++ a2, by rw [hl2, hl1, List.append_assoc], by rw [nSends_append]; omega⟩
    | err k => exact ⟨a1, hl1, by omega⟩
    | crash => exact ⟨a1, hl1, by omega⟩

theorem Sends.retry {q : Q α} {k : Nat} (hq : Sends k q) (r : Nat) : Sends (k * (r + 1)) (retryOnTimeout r q) := by
  induction r with
  | zero => simpa [retryOnTimeout] using hq
  | succ r ih =>
    intro w
    obtain ⟨a1, hl1, hc1⟩ := hq w
    simp only [retryOnTimeout]
    have hmul : k * (r + 1 + 1) = k * (r + 1) + k := by rw [Nat.mul_succ]
    cases hqw : q w with
    | mk res w1 =>
      rw [hqw] at hl1
      cases res with
      | ok a => exact ⟨a1, hl1, by omega⟩
      | crash => exact ⟨a1, hl1, by omega⟩
      | err e =>
        simp only
        split
        · obtain ⟨a2, hl2, hc2⟩ := ih w1
          exact ⟨a1 ++ a2, by rw [hl2, hl1, List.append_assoc], by rw [nSends_append]; omega⟩
        · exact ⟨a1, hl1, by omega⟩

theorem Sends.maybeGather {q : Q α} {k : Nat} (hq : Sends k q) (t : Toggle) : Sends k (Gd.maybeGather t q) := by
  cases t with
  | skip => exact (Sends.pure none).weaken (Nat.zero_le _)
  | try_ =>
    intro w
    obtain ⟨a1, hl1, hc1⟩ := hq w
    simp only [Gd.maybeGather]
    cases hqw : q w with
    | mk res w1 =>
      rw [hqw] at hl1
      cases res <;> exact ⟨a1, hl1, hc1⟩
  | enforce => exact (Sends.bind hq fun a => Sends.pure (some a)).weaken (by omega)

namespace Unreal2

theorem sends_recvWhile (s : Sock) (body : σ → Bytes → Res (σ × Bool)) :
    ∀ (fuel : Nat) (st : σ), Sends 0 (recvWhile s body fuel st) := by
  intro fuel
  induction fuel with
  | zero => intro st w; exact ⟨[], by simp [recvWhile], by simp [nSends]⟩
  | succ fuel ih =>
    intro st w
    obtain ⟨a1, hl1, hc1⟩ := Sends.recv s (some PACKET_SIZE) w
    unfold recvWhile
    cases hr : Gd.recv s (some PACKET_SIZE) w with
    | mk res w1 =>
      rw [hr] at hl1
      cases res with
      | err k => exact ⟨a1, hl1, hc1⟩
      | crash => exact ⟨a1, hl1, hc1⟩
      | ok data =>
        simp only
        cases hb : body st data with
        | err k => exact ⟨a1, hl1, hc1⟩
        | crash => exact ⟨a1, hl1, hc1⟩
        | ok x =>
          obtain ⟨st', go⟩ := x
          cases go with
          | false => exact ⟨a1, hl1, hc1⟩
          | true =>
            simp only
            obtain ⟨a2, hl2, hc2⟩ := ih st' w1
            exact ⟨a1 ++ a2, by rw [hl2, hl1, List.append_assoc], by rw [nSends_append]; omega⟩

theorem sends_requestData (s : Sock) (r : Nat) (kind : PacketKind) : Sends (r + 1) (requestData s r kind) := by
  have h1 : Sends 1 (requestImpl s kind) := by
    unfold requestImpl
    exact Sends.bind (Sends.send s _) fun _ => Sends.recv s _
  have := Sends.retry h1 r
  simpa [requestData] using this

theorem sends_listen (s : Sock) (body : σ → Bytes → Res (σ × Bool)) (st : σ) :
    Sends 0 (fun w => recvWhile s body (queued s w + 1) st w) :=
  fun w => sends_recvWhile s body (queued s w + 1) st w

theorem sends_queryServerInfo (s : Sock) (r : Nat) : Sends (r + 1) (queryServerInfo s r) := by
  unfold queryServerInfo
  exact Sends.bind (k2 := 0) (sends_requestData s r _) fun _ => Sends.lift _

theorem sends_queryRules (s : Sock) (r : Nat) : Sends (r + 1) (queryRules s r) := by
  unfold queryRules
  have h := Sends.bind (k2 := 0 + 0) (sends_requestData s r .mutatorsAndRules) fun data =>
    Sends.bind (k2 := 0) (Sends.lift ((consumeHeaders .mutatorsAndRules >>= fun _ => parseRules .empty).run data))
      fun st => sends_listen s rulesRound st
  exact h

theorem sends_queryPlayers (s : Sock) (r n : Nat) : Sends (r + 1) (queryPlayers s r n) := by
  unfold queryPlayers
  have h := Sends.bind (k2 := 0 + 0) (sends_requestData s r .players) fun data =>
    Sends.bind (k2 := 0) (f := fun (x : Players × Bool) =>
        (match x with
          | (st, more) => if more then fun w => recvWhile s (playersRound n) (queued s w + 1) st w else pure st : Q Players))
      (Sends.lift (playersRound n .empty data)) fun x => by
        obtain ⟨st, more⟩ := x
        cases more with
        | true => exact sends_listen s (playersRound n) st
        | false => exact Sends.pure st
  exact h

theorem sends_queryBody (s : Sock) (g : Gather) (r : Nat) : Sends (3 * (r + 1)) (queryBody s g r) := by
  unfold queryBody
  have h := Sends.bind (sends_queryServerInfo s r) fun info =>
    Sends.bind (Sends.maybeGather (sends_queryRules s r) g.mutatorsAndRules) fun mr =>
    Sends.bind (k2 := 0) (Sends.maybeGather (sends_queryPlayers s r (applyPassword info (mr.getD .empty)).numPlayers) g.players)
      fun players => Sends.pure (⟨applyPassword info (mr.getD .empty), mr.getD .empty, players.getD .empty⟩ : Response)
  exact h.weaken (by omega)

end Unreal2
end Gd
