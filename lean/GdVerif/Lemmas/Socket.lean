import GdVerif.Proto.Socket
/-
  Helper lemmas about the model of socket.rs: the calls each function adds to the history, the read loop against its
  specification, the bounds in force along a history, and the absence of panics under std's contract.
-/
namespace Gd.SockRs
open Gd.Settings (Duration Timeout readAndWriteOrDefaults connectOrDefault zeroOpt)

/-! ### the calls each function makes -/

theorem applyTimeout_hist (os : Os) (t : Option Timeout) (h : List Call) :
    (applyTimeout os t h).2 = h ++ [.setReadTimeout (readAndWriteOrDefaults t).1]
    ∨ (applyTimeout os t h).2 = h ++ [.setReadTimeout (readAndWriteOrDefaults t).1, .setWriteTimeout (readAndWriteOrDefaults t).2] := by
  unfold applyTimeout
  cases h1 : os.setRead h (readAndWriteOrDefaults t).1 with
  | error k => left; simp only [h1]
  | ok u =>
    cases h2 : os.setWrite (h ++ [.setReadTimeout (readAndWriteOrDefaults t).1]) (readAndWriteOrDefaults t).2 with
    | error k => right; simp [h1, h2]
    | ok u => right; simp [h1, h2]

/-- a successful `apply_timeout` made both calls, read first, each with its own duration, both answered `Ok` -/
theorem applyTimeout_ok (os : Os) (t : Option Timeout) (h : List Call) (h' : List Call)
    (hok : applyTimeout os t h = (.ok (), h')) :
    h' = h ++ [.setReadTimeout (readAndWriteOrDefaults t).1, .setWriteTimeout (readAndWriteOrDefaults t).2] := by
  unfold applyTimeout at hok
  cases h1 : os.setRead h (readAndWriteOrDefaults t).1 with
  | error k => simp [h1] at hok
  | ok u =>
    cases h2 : os.setWrite (h ++ [.setReadTimeout (readAndWriteOrDefaults t).1]) (readAndWriteOrDefaults t).2 with
    | error k => simp [h1, h2] at hok
    | ok u => simp [h1, h2] at hok; rw [← hok]

theorem applyTimeout_not_err (os : Os) (t : Option Timeout) (h : List Call) (k : ErrKind) :
    (applyTimeout os t h).1 ≠ .err k := by
  unfold applyTimeout
  cases h1 : os.setRead h (readAndWriteOrDefaults t).1 with
  | error k => simp [h1]
  | ok u =>
    cases h2 : os.setWrite (h ++ [.setReadTimeout (readAndWriteOrDefaults t).1]) (readAndWriteOrDefaults t).2 with
    | error k => simp [h1, h2]
    | ok u => simp [h1, h2]

theorem udpSend_hist (os : Os) (a : Addr) (d : Bytes) (h : List Call) :
    (udpSend os a d h).2 = h ++ [.sendTo d a] := by
  unfold udpSend
  cases h1 : os.sendTo h d a <;> simp [h1]

theorem tcpSend_hist (os : Os) (d : Bytes) (h : List Call) :
    (tcpSend os d h).2 = h ++ [.write d] := by
  unfold tcpSend
  cases h1 : os.write h d <;> simp [h1]

theorem udpReceive_hist (os : Os) (size : Option Nat) (h : List Call) :
    (udpReceive os size h).2 = h ∨ (udpReceive os size h).2 = h ++ [.recvFrom (size.getD DEFAULT_PACKET_SIZE)] := by
  unfold udpReceive
  by_cases hc : CAPACITY_LIMIT ≤ size.getD DEFAULT_PACKET_SIZE
  · left; simp [hc]
  · right
    simp only [hc, ↓reduceIte]
    cases os.recvFrom h (size.getD DEFAULT_PACKET_SIZE) with
    | error k => rfl
    | ok x => obtain ⟨d, s⟩ := x; simp only []; split <;> rfl

/-- the calls of a `read_to_end` are reads -/
def allReads (l : List Call) : Prop := ∀ c ∈ l, ∃ n, c = .read n

theorem readLoop_hist (os : Os) (cap : Nat) : ∀ (fuel : Nat) (acc : Bytes) (s : Stream) (h : List Call),
    ∃ added, (readLoop os cap fuel acc s h).2 = h ++ added ∧ allReads added := by
  intro fuel
  induction fuel with
  | zero => intro acc s h; exact ⟨[], by simp [readLoop], by intro c hc; cases hc⟩
  | succ f ih =>
    intro acc s h
    have one : allReads [Call.read (os.bufPolicy cap acc.length + 1)] := by
      intro c hc; simp at hc; exact ⟨_, hc⟩
    have ext : ∀ (acc' : Bytes) (s' : Stream),
        ∃ added, (readLoop os cap f acc' s' (h ++ [.read (os.bufPolicy cap acc.length + 1)])).2 = h ++ added ∧ allReads added := by
      intro acc' s'
      obtain ⟨ad, h1, h2⟩ := ih acc' s' (h ++ [.read (os.bufPolicy cap acc.length + 1)])
      refine ⟨[.read (os.bufPolicy cap acc.length + 1)] ++ ad, by rw [h1, List.append_assoc], ?_⟩
      intro c hc
      rcases List.mem_append.mp hc with hc | hc
      · exact one c hc
      · exact h2 c hc
    cases s with
    | closed => exact ⟨_, by simp [readLoop], one⟩
    | data d rest =>
      simp only [readLoop]
      by_cases hd : d.isEmpty
      · simp only [hd, ↓reduceIte]; exact ⟨_, rfl, one⟩
      · simp only [hd, Bool.false_eq_true, ↓reduceIte]; exact ext _ _
    | fail k rest =>
      simp only [readLoop]
      by_cases hk : k = .interrupted
      · simp only [hk, ↓reduceIte]; exact ext _ _
      · simp only [hk, ↓reduceIte]; exact ⟨_, rfl, one⟩

theorem tcpReceive_hist (os : Os) (size : Option Nat) (h : List Call) :
    ∃ added, (tcpReceive os size h).2 = h ++ added ∧ allReads added := by
  unfold tcpReceive
  by_cases hc : CAPACITY_LIMIT ≤ size.getD DEFAULT_PACKET_SIZE
  · exact ⟨[], by simp [hc], by intro c hc; cases hc⟩
  · simp only [hc, ↓reduceIte]; exact readLoop_hist os _ _ _ _ _

/-! ### the read loop is its specification, and its fuel suffices -/

theorem outcome_pushback (d : Bytes) (rest : Stream) (acc : Bytes) (len : Nat) (hd : d.isEmpty = false) :
    (if d.length ≤ len then rest else Stream.data (d.drop len) rest).outcome (acc ++ d.take len)
      = rest.outcome (acc ++ d) := by
  by_cases hl : d.length ≤ len
  · simp only [hl, ↓reduceIte, List.take_of_length_le hl]
  · simp only [hl, ↓reduceIte, Stream.outcome]
    have : (d.drop len).isEmpty = false := by
      cases hx : d.drop len with
      | nil => have := List.drop_eq_nil_iff.mp hx; omega
      | cons x r => rfl
    simp only [this, Bool.false_eq_true, ↓reduceIte, List.append_assoc, List.take_append_drop]

theorem size_pushback (d : Bytes) (rest : Stream) (len : Nat) (hd : d.isEmpty = false) (hlen : 0 < len) :
    (if d.length ≤ len then rest else Stream.data (d.drop len) rest).size < (Stream.data d rest).size := by
  have hpos : 0 < d.length := by
    cases d with
    | nil => simp at hd
    | cons x r => simp
  by_cases hl : d.length ≤ len
  · simp only [hl, ↓reduceIte, Stream.size]; omega
  · simp only [hl, ↓reduceIte, Stream.size, List.length_drop]; omega

/-- whatever buffers std offers, the loop returns what the specification says and never runs out of fuel -/
theorem readLoop_result (os : Os) (cap : Nat) : ∀ (fuel : Nat) (acc : Bytes) (s : Stream) (h : List Call),
    s.size < fuel → (readLoop os cap fuel acc s h).1 = s.outcome acc := by
  intro fuel
  induction fuel with
  | zero => intro acc s h hf; omega
  | succ f ih =>
    intro acc s h hf
    cases s with
    | closed => simp [readLoop, Stream.outcome]
    | data d rest =>
      simp only [readLoop, Stream.outcome]
      by_cases hd : d.isEmpty
      · simp only [hd, ↓reduceIte]
      · have hd' : d.isEmpty = false := by simpa using hd
        simp only [hd', Bool.false_eq_true, ↓reduceIte]
        rw [ih _ _ _ (by have := size_pushback d rest (os.bufPolicy cap acc.length + 1) hd' (by omega); omega)]
        exact outcome_pushback d rest acc _ hd'
    | fail k rest =>
      simp only [readLoop, Stream.outcome]
      by_cases hk : k = .interrupted
      · simp only [hk, ↓reduceIte]
        exact ih _ _ _ (by simp only [Stream.size] at hf; omega)
      · simp only [hk, ↓reduceIte]

theorem outcome_not_crash : ∀ (s : Stream) (acc : Bytes), s.outcome acc ≠ .crash := by
  intro s
  induction s with
  | closed => intro acc; simp [Stream.outcome]
  | data d rest ih => intro acc; simp only [Stream.outcome]; split; · simp
                      · exact ih _
  | fail k rest ih => intro acc; simp only [Stream.outcome]; split; · exact ih _
                      · simp

theorem tcpReceive_result (os : Os) (size : Option Nat) (h : List Call)
    (hs : size.getD DEFAULT_PACKET_SIZE < CAPACITY_LIMIT) :
    (tcpReceive os size h).1 = (os.reads h).outcome [] := by
  unfold tcpReceive
  have : ¬ CAPACITY_LIMIT ≤ size.getD DEFAULT_PACKET_SIZE := by omega
  simp only [this, ↓reduceIte]
  exact readLoop_result os _ _ _ _ _ (by omega)

/-! ### UDP receive -/

theorem udpReceive_result (os : Os) (size : Option Nat) (h : List Call) (d : Bytes) (src : Addr)
    (hs : size.getD DEFAULT_PACKET_SIZE < CAPACITY_LIMIT)
    (hos : os.recvFrom h (size.getD DEFAULT_PACKET_SIZE) = .ok (d, src)) :
    (udpReceive os size h).1 = .ok (d.take (size.getD DEFAULT_PACKET_SIZE)) := by
  unfold udpReceive
  have : ¬ CAPACITY_LIMIT ≤ size.getD DEFAULT_PACKET_SIZE := by omega
  simp only [this, ↓reduceIte, hos]
  have hle : min d.length (size.getD DEFAULT_PACKET_SIZE)
      ≤ (d.take (size.getD DEFAULT_PACKET_SIZE) ++ List.replicate (size.getD DEFAULT_PACKET_SIZE - min d.length (size.getD DEFAULT_PACKET_SIZE)) (0 : UInt8)).length := by
    simp only [List.length_append, List.length_take, List.length_replicate]; omega
  simp only [hle, ↓reduceIte]
  congr 1
  have hlen : (d.take (size.getD DEFAULT_PACKET_SIZE)).length = min d.length (size.getD DEFAULT_PACKET_SIZE) := by
    simp only [List.length_take]; omega
  rw [List.take_append_of_le_length (by omega), ← hlen, List.take_length]

theorem udpReceive_not_crash (os : Os) (size : Option Nat) (h : List Call)
    (hs : size.getD DEFAULT_PACKET_SIZE < CAPACITY_LIMIT) :
    (udpReceive os size h).1 ≠ .crash := by
  cases hos : os.recvFrom h (size.getD DEFAULT_PACKET_SIZE) with
  | error k =>
    unfold udpReceive
    have : ¬ CAPACITY_LIMIT ≤ size.getD DEFAULT_PACKET_SIZE := by omega
    simp [this, hos]
  | ok x =>
    obtain ⟨d, src⟩ := x
    rw [udpReceive_result os size h d src hs hos]; simp

/-! ### the bounds in force along a history -/

/-- the socket options after the calls of `h` -/
def boundsAfter : Bound × Bound → List Call → Bound × Bound
  | b, [] => b
  | (r, w), c :: rest =>
    match c with
    | .setReadTimeout d => boundsAfter (.set d, w) rest
    | .setWriteTimeout d => boundsAfter (r, .set d) rest
    | _ => boundsAfter (r, w) rest

theorem timedByAux_append (h1 h2 : List Call) : ∀ (r w : Bound),
    timedByAux r w (h1 ++ h2) = timedByAux r w h1 ++ timedByAux (boundsAfter (r, w) h1).1 (boundsAfter (r, w) h1).2 h2 := by
  induction h1 with
  | nil => intro r w; simp [timedByAux, boundsAfter]
  | cons c rest ih =>
    intro r w
    cases c <;> simp [timedByAux, boundsAfter, ih]

theorem boundsAfter_append (h1 h2 : List Call) : ∀ (b : Bound × Bound),
    boundsAfter b (h1 ++ h2) = boundsAfter (boundsAfter b h1) h2 := by
  induction h1 with
  | nil => intro b; simp [boundsAfter]
  | cons c rest ih =>
    intro b
    obtain ⟨r, w⟩ := b
    cases c <;> simp [boundsAfter, ih]

/-- sends and receives: the calls that neither open the socket nor touch its options -/
def Call.isIo : Call → Bool
  | .sendTo _ _ | .recvFrom _ | .write _ | .read _ => true
  | _ => false

theorem boundsAfter_io (l : List Call) (hio : ∀ c ∈ l, c.isIo = true) : ∀ (b : Bound × Bound), boundsAfter b l = b := by
  induction l with
  | nil => intro b; rfl
  | cons c rest ih =>
    intro b
    obtain ⟨r, w⟩ := b
    have hc := hio c (List.mem_cons_self ..)
    have hr := ih (fun c hc => hio c (List.mem_cons_of_mem _ hc))
    cases c <;> simp [Call.isIo] at hc <;> simp [boundsAfter, hr]

theorem timedByAux_io (l : List Call) (hio : ∀ c ∈ l, c.isIo = true) (r w : Bound) :
    ∀ b ∈ timedByAux r w l, b = .send w ∨ b = .recv r := by
  induction l with
  | nil => intro b hb; simp [timedByAux] at hb
  | cons c rest ih =>
    intro b hb
    have hc := hio c (List.mem_cons_self ..)
    have hr := ih (fun c hc => hio c (List.mem_cons_of_mem _ hc))
    cases c <;> simp [Call.isIo] at hc <;> simp [timedByAux] at hb <;> rcases hb with hb | hb
    all_goals first | exact Or.inl hb | exact Or.inr hb | exact hr b hb

theorem allReads_io (l : List Call) (h : allReads l) : ∀ c ∈ l, c.isIo = true := by
  intro c hc
  obtain ⟨n, rfl⟩ := h c hc
  rfl

/-- the calls one operation adds are sends / receives only -/
theorem step_hist (k : Kind) (os : Os) (a : Addr) (op : Op) (h : List Call) :
    ∃ added, (step k os a op h).2 = h ++ added ∧ ∀ c ∈ added, c.isIo = true := by
  cases k <;> cases op with
  | send d =>
    first
    | (refine ⟨[.sendTo d a], ?_, by simp [Call.isIo]⟩
       have := udpSend_hist os a d h
       simp only [step]
       cases hx : udpSend os a d h with
       | mk r h1 => rw [hx] at this; cases r <;> simpa using this)
    | (refine ⟨[.write d], ?_, by simp [Call.isIo]⟩
       have := tcpSend_hist os d h
       simp only [step]
       cases hx : tcpSend os d h with
       | mk r h1 => rw [hx] at this; cases r <;> simpa using this)
  | receive size =>
    first
    | (simp only [step]
       rcases udpReceive_hist os size h with hh | hh
       · exact ⟨[], by simpa using hh, by simp⟩
       · exact ⟨_, hh, by simp [Call.isIo]⟩)
    | (simp only [step]
       obtain ⟨added, h1, h2⟩ := tcpReceive_hist os size h
       exact ⟨added, h1, allReads_io added h2⟩)

theorem runOps_hist (k : Kind) (os : Os) (a : Addr) : ∀ (ops : List Op) (h : List Call),
    ∃ added, (runOps k os a ops h).2 = h ++ added ∧ ∀ c ∈ added, c.isIo = true := by
  intro ops
  induction ops with
  | nil => intro h; exact ⟨[], by simp [runOps], by simp⟩
  | cons op rest ih =>
    intro h
    obtain ⟨ad1, e1, io1⟩ := step_hist k os a op h
    simp only [runOps]
    cases hx : step k os a op h with
    | mk r h1 =>
      rw [hx] at e1
      simp only at e1
      cases r with
      | crash => exact ⟨ad1, by simpa using e1, io1⟩
      | ok x =>
        obtain ⟨ad2, e2, io2⟩ := ih h1
        refine ⟨ad1 ++ ad2, ?_, ?_⟩
        · simp only []; rw [e2, e1, List.append_assoc]
        · intro c hc; rcases List.mem_append.mp hc with hc | hc
          · exact io1 c hc
          · exact io2 c hc
      | err e =>
        obtain ⟨ad2, e2, io2⟩ := ih h1
        refine ⟨ad1 ++ ad2, ?_, ?_⟩
        · simp only []; rw [e2, e1, List.append_assoc]
        · intro c hc; rcases List.mem_append.mp hc with hc | hc
          · exact io1 c hc
          · exact io2 c hc

/-! ### no panic under std's contract -/

/-- std's contract for the two setters: "An Err is returned if the zero Duration is passed" — and for nothing else on a
socket the caller owns (huge durations are clamped by std). -/
def SettersFailOnlyOnZero (os : Os) : Prop :=
  (∀ h d k, os.setRead h d = .error k → zeroOpt d = true) ∧ (∀ h d k, os.setWrite h d = .error k → zeroOpt d = true)

theorem applyTimeout_not_crash (os : Os) (hos : SettersFailOnlyOnZero os) (t : Option Timeout) (h : List Call)
    (hr : zeroOpt (readAndWriteOrDefaults t).1 = false) (hw : zeroOpt (readAndWriteOrDefaults t).2 = false) :
    ∃ h', applyTimeout os t h = (.ok (), h') := by
  unfold applyTimeout
  cases h1 : os.setRead h (readAndWriteOrDefaults t).1 with
  | error k => have := hos.1 _ _ _ h1; rw [hr] at this; cases this
  | ok u =>
    cases h2 : os.setWrite (h ++ [.setReadTimeout (readAndWriteOrDefaults t).1]) (readAndWriteOrDefaults t).2 with
    | error k => have := hos.2 _ _ _ h2; rw [hw] at this; cases this
    | ok u => exact ⟨h ++ [.setReadTimeout (readAndWriteOrDefaults t).1, .setWriteTimeout (readAndWriteOrDefaults t).2], by simp [h1, h2]⟩

end Gd.SockRs

namespace Gd.SockRs
open Gd.Settings (Duration Timeout readAndWriteOrDefaults connectOrDefault zeroOpt)

/-! ### operations never panic for buffer sizes below the capacity limit -/

def Op.sizeOk : Op → Prop
  | .send _ => True
  | .receive size => size.getD DEFAULT_PACKET_SIZE < CAPACITY_LIMIT

theorem step_not_crash (k : Kind) (os : Os) (a : Addr) (op : Op) (h : List Call) (hs : op.sizeOk) :
    (step k os a op h).1 ≠ .crash := by
  cases k with
  | udp =>
    cases op with
    | send d => simp only [step, udpSend]; cases h1 : os.sendTo h d a <;> simp
    | receive size => simp only [step]; exact udpReceive_not_crash os size h hs
  | tcp =>
    cases op with
    | send d => simp only [step, tcpSend]; cases h1 : os.write h d <;> simp
    | receive size => simp only [step]; rw [tcpReceive_result os size h hs]; exact outcome_not_crash _ _

/-- the payloads handed to `send_to` / `write`, in order -/
def dataSent : List Call → List Bytes
  | [] => []
  | .sendTo d _ :: r => d :: dataSent r
  | .write d :: r => d :: dataSent r
  | _ :: r => dataSent r

def Op.payload : Op → Option Bytes
  | .send d => some d
  | .receive _ => none

theorem dataSent_append (h1 h2 : List Call) : dataSent (h1 ++ h2) = dataSent h1 ++ dataSent h2 := by
  induction h1 with
  | nil => rfl
  | cons c r ih => cases c <;> simp [dataSent, ih]

theorem dataSent_reads (l : List Call) (h : allReads l) : dataSent l = [] := by
  induction l with
  | nil => rfl
  | cons c r ih =>
    obtain ⟨n, rfl⟩ := h c (List.mem_cons_self ..)
    simp only [dataSent]
    exact ih (fun c hc => h c (List.mem_cons_of_mem _ hc))

theorem step_sent (k : Kind) (os : Os) (a : Addr) (op : Op) (h : List Call) :
    dataSent (step k os a op h).2 = dataSent h ++ op.payload.toList := by
  cases k with
  | udp =>
    cases op with
    | send d =>
      have := udpSend_hist os a d h
      simp only [step]
      cases hx : udpSend os a d h with
      | mk r h1 => rw [hx] at this; simp only at this; cases r <;> simp [this, dataSent_append, dataSent, Op.payload]
    | receive size =>
      simp only [step]
      rcases udpReceive_hist os size h with hh | hh <;> simp [hh, dataSent_append, dataSent, Op.payload]
  | tcp =>
    cases op with
    | send d =>
      have := tcpSend_hist os d h
      simp only [step]
      cases hx : tcpSend os d h with
      | mk r h1 => rw [hx] at this; simp only at this; cases r <;> simp [this, dataSent_append, dataSent, Op.payload]
    | receive size =>
      simp only [step]
      obtain ⟨added, h1, h2⟩ := tcpReceive_hist os size h
      simp [h1, dataSent_append, dataSent_reads added h2, Op.payload]

theorem runOps_sent (k : Kind) (os : Os) (a : Addr) : ∀ (ops : List Op) (h : List Call), (∀ op ∈ ops, op.sizeOk) →
    dataSent (runOps k os a ops h).2 = dataSent h ++ ops.filterMap Op.payload
    ∧ (runOps k os a ops h).1.length = ops.length ∧ ∀ r ∈ (runOps k os a ops h).1, r ≠ .crash := by
  intro ops
  induction ops with
  | nil => intro h _; simp [runOps]
  | cons op rest ih =>
    intro h hs
    have hnc := step_not_crash k os a op h (hs op (List.mem_cons_self ..))
    have hsent := step_sent k os a op h
    simp only [runOps]
    cases hx : step k os a op h with
    | mk r h1 =>
      rw [hx] at hnc hsent
      simp only at hnc hsent
      obtain ⟨i1, i2, i3⟩ := ih h1 (fun o ho => hs o (List.mem_cons_of_mem _ ho))
      cases r with
      | crash => exact absurd rfl hnc
      | ok x =>
        refine ⟨?_, by simp [i2], ?_⟩
        · simp only []; rw [i1, hsent]; cases op <;> simp [Op.payload, List.filterMap_cons]
        · intro r hr; simp only [List.mem_cons] at hr; rcases hr with rfl | hr
          · simp
          · exact i3 r hr
      | err e =>
        refine ⟨?_, by simp [i2], ?_⟩
        · simp only []; rw [i1, hsent]; cases op <;> simp [Op.payload, List.filterMap_cons]
        · intro r hr; simp only [List.mem_cons] at hr; rcases hr with rfl | hr
          · simp
          · exact i3 r hr

/-- where the calls of a history that name a remote address point -/
def destinations : List Call → List Addr
  | [] => []
  | .connect r :: rest => r :: destinations rest
  | .connectTimeout r _ :: rest => r :: destinations rest
  | .sendTo _ r :: rest => r :: destinations rest
  | _ :: rest => destinations rest

theorem destinations_append (h1 h2 : List Call) : destinations (h1 ++ h2) = destinations h1 ++ destinations h2 := by
  induction h1 with
  | nil => rfl
  | cons c r ih => cases c <;> simp [destinations, ih]

theorem destinations_reads (l : List Call) (h : allReads l) : destinations l = [] := by
  induction l with
  | nil => rfl
  | cons c r ih =>
    obtain ⟨n, rfl⟩ := h c (List.mem_cons_self ..)
    simp only [destinations]
    exact ih (fun c hc => h c (List.mem_cons_of_mem _ hc))

theorem step_destinations (k : Kind) (os : Os) (a : Addr) (op : Op) (h : List Call)
    (hh : ∀ r ∈ destinations h, r = a) : ∀ r ∈ destinations (step k os a op h).2, r = a := by
  cases k with
  | udp =>
    cases op with
    | send d =>
      have := udpSend_hist os a d h
      simp only [step]
      cases hx : udpSend os a d h with
      | mk r h1 =>
        rw [hx] at this; simp only at this
        have key : ∀ r ∈ destinations h1, r = a := by
          rw [this, destinations_append]; intro r hr
          rcases List.mem_append.mp hr with hr | hr
          · exact hh r hr
          · simpa [destinations] using hr
        cases r <;> exact key
    | receive size =>
      simp only [step]
      rcases udpReceive_hist os size h with e | e <;> rw [e]
      · exact hh
      · rw [destinations_append]; intro r hr
        rcases List.mem_append.mp hr with hr | hr
        · exact hh r hr
        · simp [destinations] at hr
  | tcp =>
    cases op with
    | send d =>
      have := tcpSend_hist os d h
      simp only [step]
      cases hx : tcpSend os d h with
      | mk r h1 =>
        rw [hx] at this; simp only at this
        have key : ∀ r ∈ destinations h1, r = a := by
          rw [this, destinations_append]; intro r hr
          rcases List.mem_append.mp hr with hr | hr
          · exact hh r hr
          · simp [destinations] at hr
        cases r <;> exact key
    | receive size =>
      simp only [step]
      obtain ⟨added, h1, h2⟩ := tcpReceive_hist os size h
      rw [h1, destinations_append, destinations_reads added h2]
      simpa using hh

theorem runOps_destinations (k : Kind) (os : Os) (a : Addr) : ∀ (ops : List Op) (h : List Call),
    (∀ r ∈ destinations h, r = a) → ∀ r ∈ destinations (runOps k os a ops h).2, r = a := by
  intro ops
  induction ops with
  | nil => intro h hh; simpa [runOps] using hh
  | cons op rest ih =>
    intro h hh
    have hs := step_destinations k os a op h hh
    simp only [runOps]
    cases hx : step k os a op h with
    | mk r h1 =>
      rw [hx] at hs
      simp only at hs
      cases r with
      | crash => exact hs
      | ok x => exact ih h1 hs
      | err e => exact ih h1 hs

end Gd.SockRs

namespace Gd.SockRs
open Gd.Settings (zeroOpt)

/-- an instance for the non-vacuity examples: a system on which everything succeeds, nothing is ever delivered, and std
refuses a zero duration -/
def quietOs : Os := ⟨fun _ _ => .ok (), fun _ _ _ => .ok (), fun _ d => if zeroOpt d then .error .invalidInput else .ok (),
  fun _ d => if zeroOpt d then .error .invalidInput else .ok (), fun _ d _ => .ok d.length,
  fun _ _ => .error .wouldBlock, fun _ d => .ok d.length, fun _ => .fail .wouldBlock .closed, fun _ _ => 0⟩

theorem quietOs_contract : SettersFailOnlyOnZero quietOs := by
  constructor <;> intro h d k hk <;> simp only [quietOs] at hk <;> split at hk <;> simp_all

end Gd.SockRs
