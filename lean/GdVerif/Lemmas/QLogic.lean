import GdVerif.Net
import GdVerif.Lemmas.Par
/-
  A program logic for query computations: what a `Q` computation may do to the transport state.
  `Step P w w'`: the log grew by events satisfying `P`, open sockets' queues only shrank, no socket
  disappeared.  `QSafe pre P q`: from any state satisfying `pre`, `q` does not crash and makes a `Step P`
  to a state that again satisfies `pre`.
-/
namespace Gd

def qlen (w : Net) (i : Nat) : Nat := (w.conns.getD i []).length

structure Step (P : Ev → Prop) (w w' : Net) : Prop where
  log : ∃ added, w'.log = w.log ++ added ∧ ∀ e ∈ added, P e
  shrink : ∀ i, i < w.conns.length → qlen w' i ≤ qlen w i
  grow : w.conns.length ≤ w'.conns.length

theorem Step.refl (P : Ev → Prop) (w : Net) : Step P w w :=
  ⟨⟨[], by simp, by simp⟩, fun _ _ => Nat.le_refl _, Nat.le_refl _⟩

theorem Step.trans {P : Ev → Prop} {w w1 w2 : Net} (h1 : Step P w w1) (h2 : Step P w1 w2) : Step P w w2 := by
  obtain ⟨a1, e1, p1⟩ := h1.log
  obtain ⟨a2, e2, p2⟩ := h2.log
  refine ⟨⟨a1 ++ a2, by rw [e2, e1, List.append_assoc], ?_⟩, ?_, Nat.le_trans h1.grow h2.grow⟩
  · intro e he
    rcases List.mem_append.mp he with h | h
    · exact p1 e h
    · exact p2 e h
  · intro i hi
    exact Nat.le_trans (h2.shrink i (Nat.lt_of_lt_of_le hi h1.grow)) (h1.shrink i hi)

/-- the socket is open in this state -/
def IsOpen (s : Sock) (w : Net) : Prop := s.id < w.conns.length

theorem IsOpen.step {s : Sock} {P : Ev → Prop} {w w' : Net} (h : IsOpen s w) (hs : Step P w w') : IsOpen s w' :=
  Nat.lt_of_lt_of_le h hs.grow

/-- crash-free, and a `Step P`, from every state where socket `s` is open -/
def QSafe (s : Sock) (P : Ev → Prop) (q : Q α) : Prop :=
  ∀ w, IsOpen s w → (q w).1 ≠ .crash ∧ Step P w (q w).2

theorem QSafe.pure (s : Sock) (P : Ev → Prop) (a : α) : QSafe s P (pure a : Q α) :=
  fun w _ => ⟨by simp, Step.refl P w⟩

theorem QSafe.fail (s : Sock) (P : Ev → Prop) (k : ErrKind) : QSafe s P (Q.fail k : Q α) :=
  fun w _ => ⟨by simp [Q.fail], Step.refl P w⟩

theorem QSafe.lift (s : Sock) (P : Ev → Prop) (r : Res α) (h : r ≠ .crash) : QSafe s P (Q.lift r) :=
  fun w _ => ⟨h, Step.refl P w⟩

theorem QSafe.bind {s : Sock} {P : Ev → Prop} {q : Q α} {f : α → Q β}
    (hq : QSafe s P q) (hf : ∀ a, QSafe s P (f a)) : QSafe s P (q >>= f) := by
  intro w hw
  obtain ⟨h1, h2⟩ := hq w hw
  rw [Q.bind_apply]
  cases hqw : q w with
  | mk res w1 =>
    rw [hqw] at h1 h2
    cases res with
    | ok a =>
      obtain ⟨h3, h4⟩ := hf a w1 (hw.step h2)
      exact ⟨h3, h2.trans h4⟩
    | err k => exact ⟨by simp, h2⟩
    | crash => exact absurd rfl h1

theorem QSafe.ite {s : Sock} {P : Ev → Prop} {c : Prop} [Decidable c] {p q : Q α}
    (hp : QSafe s P p) (hq : QSafe s P q) : QSafe s P (if c then p else q) := by
  split <;> assumption

/-- parsing received bytes does no I/O and does not crash when the parser is safe -/
theorem QSafe.parse (s : Sock) (P : Ev → Prop) {p : Par α} (hp : Safe p) (data : Bytes) : QSafe s P (parse p data) := by
  apply QSafe.lift
  have := hp (Buf.new data)
  unfold Par.run
  cases h : p (Buf.new data) with
  | ok x => simp
  | err k => simp
  | crash => rw [h] at this; exact this.elim

theorem setAt_length (l : List α) (i : Nat) (x : α) : (setAt l i x).length = l.length := by
  induction l generalizing i with
  | nil => rfl
  | cons y r ih => cases i <;> simp [setAt, ih]

theorem getD_setAt (l : List (List β)) (i j : Nat) (x : List β) :
    (setAt l i x).getD j [] = if i = j ∧ j < l.length then x else l.getD j [] := by
  induction l generalizing i j with
  | nil => simp [setAt]
  | cons y r ih =>
    cases i with
    | zero => cases j <;> simp [setAt]
    | succ i =>
      cases j with
      | zero => simp [setAt]
      | succ j =>
        have := ih i j
        simp only [List.getD_eq_getElem?_getD] at this
        simp [setAt, this]

theorem QSafe.send (s : Sock) (P : Ev → Prop) (data : Bytes)
    (h : ∀ failed, P (.send s.id s.port data failed)) : QSafe s P (send s data) := by
  intro w _
  unfold Gd.send
  split
  · exact ⟨by simp, ⟨_, rfl, by simpa using h true⟩, fun _ _ => Nat.le_refl _, Nat.le_refl _⟩
  · exact ⟨by simp, ⟨_, rfl, by simpa using h false⟩, fun _ _ => Nat.le_refl _, Nat.le_refl _⟩
  · exact ⟨by simp, ⟨_, rfl, by simpa using h false⟩, fun _ _ => Nat.le_refl _, Nat.le_refl _⟩

theorem QSafe.recv (s : Sock) (P : Ev → Prop) (size : Option Nat)
    (h : ∀ got, P (.recv s.id size got)) : QSafe s P (recv s size) := by
  intro w _
  unfold Gd.recv
  split
  · rename_i d rest hq
    refine ⟨by simp, ⟨_, rfl, by simpa using h _⟩, ?_, by simp [setAt_length]⟩
    intro i _
    simp only [qlen, getD_setAt]
    split
    · rename_i hc; rw [← hc.1, hq]; simp
    · exact Nat.le_refl _
  · rename_i rest hq
    refine ⟨by simp, ⟨_, rfl, by simpa using h _⟩, ?_, by simp [setAt_length]⟩
    intro i _
    simp only [qlen, getD_setAt]
    split
    · rename_i hc; rw [← hc.1, hq]; simp
    · exact Nat.le_refl _
  · split
    · exact ⟨by simp, ⟨_, rfl, by simpa using h _⟩, fun _ _ => Nat.le_refl _, Nat.le_refl _⟩
    · exact ⟨by simp, ⟨_, rfl, by simpa using h _⟩, fun _ _ => Nat.le_refl _, Nat.le_refl _⟩

/-- a successful UDP receive consumes a queued delivery -/
theorem recv_ok_consumes (s : Sock) (hudp : s.tcp = false) (size : Option Nat) (w w' : Net) (d : Bytes)
    (hopen : IsOpen s w) (h : recv s size w = (.ok d, w')) : qlen w' s.id < qlen w s.id := by
  unfold Gd.recv at h
  split at h
  · rename_i d0 rest hq
    cases h
    simp only [qlen, getD_setAt, hq]
    simp [hopen, IsOpen] at *
    simp [hopen]
  · cases h
  · simp [hudp] at h

theorem QSafe.retry {s : Sock} {P : Ev → Prop} {q : Q α} (hq : QSafe s P q) (r : Nat) :
    QSafe s P (retryOnTimeout r q) := by
  induction r with
  | zero => exact hq
  | succ r ih =>
    intro w hw
    obtain ⟨h1, h2⟩ := hq w hw
    simp only [retryOnTimeout]
    cases hqw : q w with
    | mk res w1 =>
      rw [hqw] at h1 h2
      cases res with
      | ok a => exact ⟨by simp, h2⟩
      | crash => exact absurd rfl h1
      | err k =>
        simp only
        split
        · obtain ⟨h3, h4⟩ := ih w1 (hw.step h2)
          exact ⟨h3, h2.trans h4⟩
        · exact ⟨by simp, h2⟩

theorem QSafe.maybeGather {s : Sock} {P : Ev → Prop} {q : Q α} (hq : QSafe s P q) (t : Toggle) :
    QSafe s P (maybeGather t q) := by
  cases t with
  | skip => exact QSafe.pure s P none
  | try_ =>
    intro w hw
    obtain ⟨h1, h2⟩ := hq w hw
    simp only [Gd.maybeGather]
    cases hqw : q w with
    | mk res w1 =>
      rw [hqw] at h1 h2
      cases res with
      | ok a => exact ⟨by simp, h2⟩
      | err k => exact ⟨by simp, h2⟩
      | crash => exact absurd rfl h1
  | enforce => exact QSafe.bind hq fun a => QSafe.pure s P (some a)

end Gd
