import GdVerif.Lemmas.Gs3Whole
import GdVerif.Spec.Jc2m
/-
  Just Cause 2: Multiplayer: crash-freedom, decoding against the SPEC, the whole query.
-/
namespace Gd.Jc2m
open Gd Gd.Gs3

/-! ### crash-freedom -/

theorem safe2_playerStep (acc : List Player) : Safe2 (playerStep acc) := by
  unfold playerStep
  exact Safe2.bind safe2_readCStr fun _ => Safe2.bind safe2_readCStr fun _ =>
    Safe2.bind (safe2_readUnsigned _ _) fun _ => Safe2.pure _

theorem progress_playerStep (acc : List Player) : Progress (playerStep acc) := by
  intro b a b' h
  unfold playerStep at h
  rw [Par.bind_apply] at h
  cases h1 : readCStr b with
  | ok x =>
    obtain ⟨name, b1⟩ := x
    rw [h1] at h
    have p1 := safe2_readCStr b
    rw [h1] at p1
    simp only at h
    rw [Par.bind_apply] at h
    cases h2 : readCStr b1 with
    | ok y =>
      obtain ⟨steam, b2⟩ := y
      rw [h2] at h
      have p2 := safe2_readCStr b1
      rw [h2] at p2
      simp only at h
      rw [Par.bind_apply] at h
      cases h3 : readUnsigned .big 2 b2 with
      | ok z =>
        obtain ⟨ping, b3⟩ := z
        rw [h3] at h
        have p3 := readUnsigned_progress (by omega) h3
        simp only [Par.pure_apply] at h
        cases h
        have := p1.2
        have := p2.2
        omega
      | err k => rw [h3] at h; cases h
      | crash => rw [h3] at h; cases h
    | err k => rw [h2] at h; cases h
    | crash => rw [h2] at h; cases h
  | err k => rw [h1] at h; cases h
  | crash => rw [h1] at h; cases h

theorem safe_parsePlayers : Safe parsePlayers := by
  unfold parsePlayers
  refine Safe.bind (safe_readUnsigned _ _) fun _ => ?_
  intro b
  exact safe_whileRemaining playerStep (fun acc => (safe2_playerStep acc).safe) progress_playerStep
    (b.remaining + 1) [] b (by omega)

theorem buildResponse_ne (packets : List Bytes) : Jc2m.buildResponse packets ≠ .crash := by
  unfold Jc2m.buildResponse
  refine bind_ne_crash (okOr_ne _ _) fun first => bind_ne_crash (dataToMap_ne _) fun x => ?_
  obtain ⟨vars, remaining⟩ := x
  refine bind_ne_crash (run_ne_crash safe_parsePlayers _) fun players => ?_
  refine bind_ne_crash (takeReq_ne _ _) fun x => ?_
  obtain ⟨maxText, vars⟩ := x
  refine bind_ne_crash (parseU_ne _ _) fun _ => bind_ne_crash (takeOnline_ne _ _) fun x => ?_
  obtain ⟨on, vars⟩ := x
  refine bind_ne_crash (takeReq_ne _ _) fun x => ?_
  obtain ⟨ver, vars⟩ := x
  refine bind_ne_crash (takeReq_ne _ _) fun x => ?_
  obtain ⟨desc, vars⟩ := x
  refine bind_ne_crash (takeReq_ne _ _) fun x => ?_
  obtain ⟨name, vars⟩ := x
  refine bind_ne_crash (hasPassword_ne _) fun x => ?_
  obtain ⟨pw, vars⟩ := x
  simp

theorem query_eq (port : Option Nat) (retries : Nat) :
    Jc2m.query port retries = exchange (port.getD DEFAULT_PORT) retries PAYLOAD true Jc2m.buildResponse := rfl

theorem query_safe (port : Option Nat) (retries : Nat) (w : Net) :
    (Jc2m.query port retries w).1 ≠ .crash
    ∧ ∃ added, (Jc2m.query port retries w).2.log = w.log ++ added
        ∧ ∀ e ∈ added, QueryEvOk (port.getD DEFAULT_PORT) w.conns.length PAYLOAD e := by
  rw [query_eq]; exact exchange_safe _ _ _ _ _ buildResponse_ne w

end Gd.Jc2m

/-! ### decoding against the SPEC -/

namespace Gd.Jc2m
open Gd Gd.Gs3 Gd.Jc2m.Spec

theorem decodes_playerStep (acc : List Player) (p : Player) (h : wfPlayer p = true) :
    Decodes (playerStep acc) (encPlayer p) (acc ++ [p]) := by
  simp only [wfPlayer, Bool.and_eq_true, decide_eq_true_eq] at h
  obtain ⟨⟨hn, hs⟩, hp⟩ := h
  unfold playerStep encPlayer
  simp only [List.append_assoc]
  refine Decodes.bind (Gs3.decodes_cstr p.name hn) ?_
  refine Decodes.bind (Gs3.decodes_cstr p.steamId hs) ?_
  refine Decodes.bind_last (decodes_be 2 p.ping (by simpa using hp)) ?_
  cases p
  exact Decodes.pure _

theorem encPlayer_length (p : Player) : 0 < (encPlayer p).length := by
  simp [encPlayer, Spec.cstr]; omega

theorem players_run : ∀ (ps : List Player), (∀ p ∈ ps, wfPlayer p = true) → ∀ (acc : List Player) (b : Buf) (fuel : Nat),
    b.rest = (ps.map encPlayer).flatten → b.remaining < fuel →
    ∃ b', whileRemaining playerStep fuel acc b = .ok (acc ++ ps, b') := by
  intro ps
  induction ps with
  | nil =>
    intro _ acc b fuel hr hf
    cases fuel with
    | zero => omega
    | succ fuel =>
      have : (b.remaining == 0) = true := by simp [Buf.remaining, hr]
      exact ⟨b, by simp [whileRemaining, this]⟩
  | cons p r ih =>
    intro hwf acc b fuel hr hf
    cases fuel with
    | zero => omega
    | succ fuel =>
      have hpos := encPlayer_length p
      have hr' : b.rest = encPlayer p ++ (r.map encPlayer).flatten := by simpa using hr
      have hne : (b.remaining == 0) = false := by
        simp only [Buf.remaining, hr', List.length_append, beq_eq_false_iff_ne]; omega
      obtain ⟨b1, hb1, hr1, _⟩ := decodes_playerStep acc p (hwf p (by simp)) b _ hr'
      have hrem : b1.remaining < fuel := by
        have h1 : b1.remaining = ((r.map encPlayer).flatten).length := by simp [Buf.remaining, hr1]
        have h2 : b.remaining = (encPlayer p).length + ((r.map encPlayer).flatten).length := by
          simp [Buf.remaining, hr']
        omega
      obtain ⟨b2, hb2⟩ := ih (fun q hq => hwf q (by simp [hq])) (acc ++ [p]) b1 fuel hr1 hrem
      refine ⟨b2, ?_⟩
      simp only [whileRemaining, hne, Bool.false_eq_true, ↓reduceIte, hb1]
      rw [hb2]
      simp

/-- the player block: count, then the players -/
theorem parsePlayers_run (ps : List Player) (h : ∀ p ∈ ps, wfPlayer p = true) (hl : ps.length < 2 ^ 16) :
    parsePlayers.run (natBE 2 ps.length ++ (ps.map encPlayer).flatten) = .ok ps := by
  unfold Par.run parsePlayers
  obtain ⟨b1, hb1, hr1, _⟩ := decodes_be 2 ps.length (by simpa using hl) (Buf.new _) ((ps.map encPlayer).flatten) rfl
  rw [Par.bind_ok hb1]
  have hrem : remainingLength b1 = .ok (b1.remaining, b1) := rfl
  rw [Par.bind_ok hrem]
  obtain ⟨b2, hb2⟩ := players_run ps h [] b1 (b1.remaining + 1) hr1 (by omega)
  rw [hb2]
  simp

/-- what `wf` says, as propositions -/
structure Ok (cfg : Config) (st : State) : Prop where
  items : ∀ p ∈ st.vars, Gs3.Spec.okItem p.1 = true ∧ Gs3.Spec.okStr p.2 = true
  distinct : Valve.Spec.distinctKeys st.vars = true
  version : ∃ v, var st "version" = some v
  description : ∃ v, var st "description" = some v
  hostname : ∃ v, var st "hostname" = some v
  password : ∃ v, var st "password" = some v ∧ Gs3.Spec.isFlag v = true
  maxplayers : ∃ v n, var st "maxplayers" = some v ∧ parseUnsigned 32 v = some n
  numplayers : ∀ v, var st "numplayers" = some v → ∃ n, parseUnsigned 32 v = some n
  players : ∀ p ∈ st.players, wfPlayer p = true
  count : st.players.length < 2 ^ 16
  header : cfg.splitHeader.length = 11
  lo : -(2 ^ 31 : Int) ≤ cfg.challenge
  hi : cfg.challenge < 2 ^ 31
  size : (dataPacket cfg st).length ≤ Gs3.PACKET_SIZE

theorem wf_ok (cfg : Config) (st : State) (h : wf cfg st = true) : Ok cfg st := by
  simp only [wf, Bool.and_eq_true, decide_eq_true_eq, beq_iff_eq] at h
  obtain ⟨h, t14⟩ := h
  obtain ⟨h, t13⟩ := h
  obtain ⟨h, t12⟩ := h
  obtain ⟨h, t11⟩ := h
  obtain ⟨h, t10⟩ := h
  obtain ⟨h, t9⟩ := h
  obtain ⟨h, t8⟩ := h
  obtain ⟨h, t7⟩ := h
  obtain ⟨h, t6⟩ := h
  obtain ⟨h, t5⟩ := h
  obtain ⟨h, t4⟩ := h
  obtain ⟨h, t3⟩ := h
  obtain ⟨t1, t2⟩ := h
  have some_of : ∀ {o : Option Bytes}, o.isSome = true → ∃ v, o = some v := fun {o} ho => Option.isSome_iff_exists.mp ho
  have any_of : ∀ {o : Option Bytes} {q : Bytes → Bool}, o.any q = true → ∃ v, o = some v ∧ q v = true := by
    intro o q ho
    cases o with
    | none => simp at ho
    | some v => exact ⟨v, rfl, by simpa using ho⟩
  have all_of : ∀ {o : Option Bytes} {q : Bytes → Bool}, o.all q = true → ∀ v, o = some v → q v = true := by
    intro o q ho v hv
    subst hv
    simpa using ho
  refine
    { items := ?_, distinct := t2, version := some_of t3, description := some_of t4, hostname := some_of t5,
      password := any_of t6, maxplayers := ?_, numplayers := ?_, players := fun p hp => List.all_eq_true.mp t9 p hp,
      count := t10, header := t11, lo := t12, hi := t13, size := t14 }
  · intro p hp
    have := List.all_eq_true.mp t1 p hp
    simpa using this
  · obtain ⟨v, hv, hq⟩ := any_of t7
    obtain ⟨n, hn⟩ := Option.isSome_iff_exists.mp hq
    exact ⟨v, n, hv, hn⟩
  · intro v hv
    exact Option.isSome_iff_exists.mp (all_of t8 v hv)

/-- everything `query_with_timeout` does with the packet of a well-formed reply -/
theorem buildResponse_spec (cfg : Config) (st : State) (h : Ok cfg st) :
    Jc2m.buildResponse [payload st] = .ok (expected st) := by
  obtain ⟨vver, hver⟩ := h.version
  obtain ⟨vdesc, hdesc⟩ := h.description
  obtain ⟨vhost, hhost⟩ := h.hostname
  obtain ⟨vpw, hpw, hflag⟩ := h.password
  obtain ⟨vmax, nmax, hmax, hpmax⟩ := h.maxplayers
  simp only [var] at hver hdesc hhost hpw hmax
  unfold Jc2m.buildResponse payload
  simp only [List.head?_cons, okOr, Res.bind_ok, List.append_assoc,
    dataToMap_encVars st.vars h.items h.distinct, parsePlayers_run st.players h.players h.count]
  have s1 := takeReq_rem [] st.vars "maxplayers" vmax (by decide) hmax
  rw [rem_nil] at s1
  rw [s1]
  simp only [Res.bind_ok, parseU, hpmax, okOr, List.nil_append]
  have s3 : takeOnline (rem [asciiBytes "maxplayers"] st.vars) st.players.length
      = .ok (max (Gs3.Spec.numOf 64 (var st "numplayers")) st.players.length,
          rem [asciiBytes "maxplayers", asciiBytes "numplayers"] st.vars) := by
    unfold takeOnline
    rw [mapTake_rem _ _ _ (by decide)]
    have hl : st.players.length < 2 ^ 32 := Nat.lt_of_lt_of_le h.count (by decide)
    cases hnum : mapGet st.vars (asciiBytes "numplayers") with
    | none =>
      simp only [var, hnum, Gs3.Spec.numOf, Option.bind_none, Option.getD_none, List.cons_append, List.nil_append]
      rw [Nat.mod_eq_of_lt hl]
      simp
    | some v =>
      obtain ⟨n, hn⟩ := h.numplayers v (by simpa [var] using hnum)
      have hn64 := parseUnsigned_mono 32 64 (by omega) v n hn
      have hlt := parseUnsigned_lt 32 v n hn
      simp only [var, hnum, parseU, hn64, okOr, Res.bind_ok, Gs3.Spec.numOf, Option.bind_some, Option.getD_some,
        List.cons_append, List.nil_append, Res.pure_eq]
      congr 2
      split
      · rw [Nat.mod_eq_of_lt hl]; omega
      · rw [Nat.mod_eq_of_lt hlt]; omega
  rw [s3]
  simp only [Res.bind_ok]
  rw [takeReq_rem _ st.vars "version" vver (by decide) hver]
  simp only [Res.bind_ok, List.cons_append, List.nil_append]
  rw [takeReq_rem _ st.vars "description" vdesc (by decide) hdesc]
  simp only [Res.bind_ok, List.cons_append, List.nil_append]
  rw [takeReq_rem _ st.vars "hostname" vhost (by decide) hhost]
  simp only [Res.bind_ok, List.cons_append, List.nil_append]
  have s6 : hasPassword (rem [asciiBytes "maxplayers", asciiBytes "numplayers", asciiBytes "version",
        asciiBytes "description", asciiBytes "hostname"] st.vars)
      = .ok (Gs3.Spec.flagOf vpw, rem [asciiBytes "maxplayers", asciiBytes "numplayers", asciiBytes "version",
        asciiBytes "description", asciiBytes "hostname", asciiBytes "password"] st.vars) := by
    unfold hasPassword
    rw [mapTake_rem _ _ _ (by decide), hpw]
    simp [passwordValue_flag vpw hflag]
  rw [s6]
  simp only [Res.bind_ok, Res.pure_eq, expected, var, hver, hdesc, hhost, hpw, hmax, Option.getD_some, Gs3.Spec.numOf,
    Option.bind_some, hpmax]

/-! ### the whole query against the SPEC's server -/

/-- One attempt in single-packet mode when the server answers the handshake with the decimal text of
`c` (any i32), then sends the datagram `d`: the client has sent the handshake and the data request
carrying `c`, and the result is `d` without the reply header and the 11-byte split header. -/
theorem impl_single (s : Sock) (hudp : s.tcp = false) (payload : Bytes) (w : Net) (c : Int)
    (hlo : -(2 ^ 31 : Int) ≤ c) (hhi : c < 2 ^ 31) (d : Bytes) (more : List Delivery)
    (hq : w.conns.getD s.id [] = .data (Gs3.Spec.handshakeReply c) :: .data d :: more) (hf : w.faults = []) :
    (getServerPacketsImpl s payload true w).1
        = ((readHeader 0).run (d.take PACKET_SIZE) >>= fun p => readSingle.run p >>= fun rest => pure [rest])
    ∧ sentOf (getServerPacketsImpl s payload true w).2.log
        = sentOf w.log ++ [requestBytes 9 none none, requestBytes 0 (if c = 0 then none else some c) (some payload)] := by
  unfold getServerPacketsImpl makeInitialHandshake sendDataRequest
  simp only [↓reduceIte]
  rw [Q.bind_apply, Q.bind_apply, send_clean s _ w hf]
  simp only
  obtain ⟨w2, hrecv, hq2, hf2, hlog2⟩ := receive_data s hudp (some 16) 9
    { w with log := w.log ++ [.send s.id s.port (requestBytes 9 none none) false] } (Gs3.Spec.handshakeReply c) (.data d :: more) hq
  rw [Q.bind_apply, hrecv]
  simp only [Option.getD_some]
  have hdec := handshake_decoded c hlo hhi
  cases hh : (readHeader 9).run ((Gs3.Spec.handshakeReply c).take 16) with
  | err k => rw [hh] at hdec; cases hdec
  | crash => rw [hh] at hdec; cases hdec
  | ok t =>
    rw [hh] at hdec
    simp only [Res.bind_ok] at hdec
    simp only [parse, Q.lift, hdec]
    rw [Q.bind_ok (send_clean s _ w2 (by rw [hf2]; exact hf))]
    obtain ⟨w4, hrecv4, _, _, hlog4⟩ := receive_data s hudp none 0
      { w2 with log := w2.log ++ [.send s.id s.port (requestBytes 0 (if c = 0 then none else some c) (some payload)) false] }
      d more hq2
    rw [Q.bind_apply, hrecv4]
    simp only [Option.getD_none]
    have hsent : sentOf w4.log = sentOf w.log ++ [requestBytes 9 none none,
        requestBytes 0 (if c = 0 then none else some c) (some payload)] := by
      rw [hlog4]
      simp only [hlog2, sentOf_append]
      simp [sentOf]
    cases h0 : (readHeader 0).run (d.take PACKET_SIZE) with
    | err k => exact ⟨rfl, hsent⟩
    | crash => exact ⟨rfl, hsent⟩
    | ok p =>
      simp only [Res.bind_ok, Q.bind_apply]
      cases h1 : readSingle.run p with
      | err k => exact ⟨rfl, hsent⟩
      | crash => exact ⟨rfl, hsent⟩
      | ok rest => exact ⟨rfl, hsent⟩

theorem run_readSingle (hdr payload : Bytes) (h : hdr.length = 11) : readSingle.run (hdr ++ payload) = .ok payload := by
  unfold Par.run readSingle
  have hskip : Decodes (moveCursor 11) hdr () := by
    have := decodes_skip hdr
    rw [h] at this
    simpa using this
  obtain ⟨b1, hb1, hr1, _⟩ := hskip (Buf.new (hdr ++ payload)) payload rfl
  rw [Par.bind_ok hb1]
  simp [remainingBytes, hr1]

theorem request_bytes (c : Int) :
    requestBytes 9 none none = Gs3.Spec.handshakeRequest
    ∧ requestBytes 0 (if c = 0 then none else some c) (some PAYLOAD) = dataRequest c := by
  constructor
  · decide
  · unfold requestBytes dataRequest
    by_cases hc : c = 0
    · subst hc; decide
    · simp only [hc, ↓reduceIte]
      have h1 : natBE 2 65277 ++ [UInt8.ofNat 0] ++ natBE 4 SESSION_ID = [0xFE, 0xFD, 0x00] ++ Gs3.Spec.sessionId := by decide
      rw [h1]
      rfl

/-- The whole query against the SPEC's server for a well-formed state: the expected response, and
exactly the SPEC's two requests sent. -/
theorem query_spec (cfg : Config) (st : State) (h : wf cfg st = true) (port : Option Nat) (r : Nat) :
    (Jc2m.query port r (Net.init [.opened ((script cfg st).map .data)] [])).1 = .ok (expected st)
    ∧ sentOf (Jc2m.query port r (Net.init [.opened ((script cfg st).map .data)] [])).2.log = requests cfg := by
  have hok := wf_ok cfg st h
  let s : Sock := ⟨0, port.getD DEFAULT_PORT, false⟩
  let w1 : Net := ⟨[], [(script cfg st).map .data], [], [.opened 0 false (port.getD DEFAULT_PORT) false]⟩
  have hopen : openSock false (port.getD DEFAULT_PORT) (Net.init [.opened ((script cfg st).map .data)] []) = (.ok s, w1) := rfl
  obtain ⟨himpl, hsent⟩ := impl_single s rfl PAYLOAD w1 cfg.challenge hok.lo hok.hi (dataPacket cfg st) [] rfl rfl
  have hpacket : ((readHeader 0).run ((dataPacket cfg st).take PACKET_SIZE) >>= fun p => readSingle.run p >>= fun rest => pure [rest])
      = (.ok [payload st] : Res (List Bytes)) := by
    rw [List.take_of_length_le hok.size]
    have := run_readHeader 0 (by omega) (cfg.splitHeader ++ payload st)
    unfold dataPacket
    simp only [List.append_assoc] at this ⊢
    rw [show ([0] : Bytes) = [UInt8.ofNat 0] from rfl, this]
    simp [run_readSingle cfg.splitHeader (payload st) hok.header]
  rw [hpacket] at himpl
  have hretry : getServerPackets s r PAYLOAD true w1 = getServerPacketsImpl s PAYLOAD true w1 := retry_ok r himpl
  rw [query_eq]
  unfold exchange
  rw [Q.bind_ok hopen, Q.bind_apply, hretry]
  cases himp : getServerPacketsImpl s PAYLOAD true w1 with
  | mk res w2 =>
    rw [himp] at himpl hsent
    simp only at himpl hsent
    subst himpl
    simp only [Q.lift]
    refine ⟨buildResponse_spec cfg st hok, ?_⟩
    rw [hsent]
    have e := request_bytes cfg.challenge
    simp [sentOf, w1, requests, e.1, e.2]

end Gd.Jc2m
