import GdVerif.Lemmas.Unreal2Query
import GdVerif.Lemmas.QSteps
import GdVerif.Spec.Unreal2Faults
/-
  The whole Unreal 2 query with faults injected (C10 end to end), in the logic `Steps` of `Lemmas/QSteps.lean`.
  Each unit is `retry_on_timeout` around `exchange1` (request, first reply, no check); the listening loops
  (`recvWhile`) come after the unit and are functions of the queue (`whileOn`).
-/
namespace Gd.Unreal2
open Gd Gd.Unreal2.Spec Gd.Faults

/-! ### the listening loop in `Steps` -/

/-- `recvWhile` on a queue: its outcome and what it leaves queued.  It ends — with the accumulator — at the first
silence (which it consumes) or at the end of the queue, when `body` says stop, and with `body`'s error. -/
def whileOn {σ : Type} (body : σ → Bytes → Res (σ × Bool)) : σ → List Delivery → Res σ × List Delivery
  | st, [] => (.ok st, [])
  | st, .silence :: q => (.ok st, q)
  | st, .data d :: q =>
    match body st (d.take PACKET_SIZE) with
    | .ok (st', true) => whileOn body st' q
    | .ok (st', false) => (.ok st', q)
    | .err k => (.err k, q)
    | .crash => (.crash, q)

theorem steps_recvWhile {σ : Type} (s : Sock) (hudp : s.tcp = false) (body : σ → Bytes → Res (σ × Bool))
    (fs : List Bool) (sn : List (Bytes × Bool)) :
    ∀ (q : List Delivery) (fuel : Nat) (st : σ), q.length < fuel →
      Steps s (recvWhile s body fuel st) (whileOn body st q).1 ⟨q, fs, sn⟩ ⟨(whileOn body st q).2, fs, sn⟩ := by
  intro q
  induction q with
  | nil =>
    intro fuel st hf w hw
    cases fuel with
    | zero => omega
    | succ f =>
      obtain ⟨w1, h1, hat1⟩ := steps_recv_empty s hudp (some PACKET_SIZE) fs sn w hw
      exact ⟨w1, by simp only [recvWhile, h1, whileOn], hat1⟩
  | cons d q ih =>
    intro fuel st hf w hw
    cases fuel with
    | zero => omega
    | succ f =>
      cases d with
      | silence =>
        obtain ⟨w1, h1, hat1⟩ := steps_recv_silence s (some PACKET_SIZE) q fs sn w hw
        exact ⟨w1, by simp only [recvWhile, h1, whileOn], hat1⟩
      | data d =>
        obtain ⟨w1, h1, hat1⟩ := steps_recv_take s hudp PACKET_SIZE d q fs sn w hw
        cases hb : body st (d.take PACKET_SIZE) with
        | crash =>
          have e : whileOn body st (.data d :: q) = (.crash, q) := by simp only [whileOn, hb]
          rw [e]
          exact ⟨w1, by simp only [recvWhile, h1, hb], hat1⟩
        | err k =>
          have e : whileOn body st (.data d :: q) = (.err k, q) := by simp only [whileOn, hb]
          rw [e]
          exact ⟨w1, by simp only [recvWhile, h1, hb], hat1⟩
        | ok p =>
          obtain ⟨st', more⟩ := p
          cases more with
          | false =>
            have e : whileOn body st (.data d :: q) = (.ok st', q) := by simp only [whileOn, hb]
            rw [e]
            exact ⟨w1, by simp only [recvWhile, h1, hb], hat1⟩
          | true =>
            have e : whileOn body st (.data d :: q) = whileOn body st' q := by simp only [whileOn, hb]
            rw [e]
            obtain ⟨w2, h2, hat2⟩ := ih f st' (by simpa using hf) w1 hat1
            exact ⟨w2, by simp only [recvWhile, h1, hb]; exact h2, hat2⟩

/-- datagrams the loop takes one after the other, then a silence: the loop ends there -/
theorem whileOn_rounds {σ : Type} {body : σ → Bytes → Res (σ × Bool)} {st st' : σ} {ds : List Bytes}
    (hr : Rounds body st ds st') (hsz : ∀ d ∈ ds, d.length ≤ PACKET_SIZE) (q : List Delivery) :
    whileOn body st (ds.map .data ++ .silence :: q) = (.ok st', q) := by
  induction hr with
  | nil st0 => rfl
  | cons h rest ih =>
    rename_i st0 st1 st2 d ds'
    have htake : d.take PACKET_SIZE = d := List.take_of_length_le (hsz d (by simp))
    simp only [List.map_cons, List.cons_append, whileOn, htake, h]
    exact ih (fun d' hd' => hsz d' (by simp [hd']))

theorem whileOn_quiet {σ : Type} (body : σ → Bytes → Res (σ × Bool)) (st : σ) (tail : List Delivery)
    (h : quiet tail = true) : (whileOn body st tail).1 = .ok st := by
  cases tail with
  | nil => rfl
  | cons d q =>
    cases d with
    | silence => rfl
    | data d => simp [quiet] at h

/-! ### malformed first datagrams -/

theorem packetKindOf_ok {n : Nat} {k : PacketKind} (h : packetKindOf n = .ok k) : k.code = n := by
  unfold packetKindOf at h
  split at h <;> cases h <;> rfl

/-- the header check rejects a datagram that is too short or carries another kind byte -/
theorem consumeHeaders_malformed (k : PacketKind) (m : Bytes) (hm : malformedAt k.code m = true) :
    consumeHeaders k (Buf.new m) = .err (malformedError m) := by
  unfold consumeHeaders
  by_cases h4 : m.length < 4
  · have hmv : moveCursor 4 (Buf.new m) = .err .packetBad := by
      simp [moveCursor, Buf.new, Buf.pos, Buf.len]
      omega
    rw [Par.bind_err hmv]
    have : (m.length == 4) = false := by simp; omega
    simp [malformedError, this]
  · have hl : (m.take 4).length = 4 := by simp; omega
    have hskip : Decodes (moveCursor 4) (m.take 4) () := by
      have := decodes_skip (m.take 4)
      rwa [hl] at this
    obtain ⟨b1, h1, hr1, _⟩ := hskip (Buf.new m) (m.drop 4) (by simp [Buf.new])
    rw [Par.bind_ok h1]
    cases htl : m.drop 4 with
    | nil =>
      have hlen : m.length = 4 := by
        have := congrArg List.length htl
        simp at this; omega
      rw [htl] at hr1
      have hu : readU8 b1 = .err .packetUnderflow := by
        simp [readU8, readUnsigned, Buf.remaining, hr1]
      rw [Par.bind_err hu]
      simp [malformedError, hlen]
    | cons t tl =>
      have hlen : (m.length == 4) = false := by
        have := congrArg List.length htl
        simp at this
        simp; omega
      rw [htl] at hr1
      obtain ⟨b2, h2, _, _⟩ := decodes_readU8 t b1 tl (by simpa using hr1)
      rw [Par.bind_ok h2]
      have hne : t.toNat ≠ k.code := by
        intro he
        unfold malformedAt at hm
        rw [htl] at hm
        have : t = UInt8.ofNat k.code := by
          apply UInt8.toNat_inj.mp
          rw [he]
          cases k <;> rfl
        simp [this] at hm
      cases hk : packetKindOf t.toNat with
      | crash => unfold packetKindOf at hk; split at hk <;> cases hk
      | err e =>
        have : e = .packetBad := by unfold packetKindOf at hk; split at hk <;> cases hk; rfl
        subst this
        have : (Par.lift (Res.err .packetBad) : Par PacketKind) b2 = .err .packetBad := rfl
        rw [Par.bind_err this]
        simp [malformedError, hlen]
      | ok kind =>
        have hkc := packetKindOf_ok hk
        have : (Par.lift (Res.ok kind) : Par PacketKind) b2 = .ok (kind, b2) := rfl
        rw [Par.bind_ok this]
        have hkk : (kind != k) = true := by
          simp only [bne_iff_ne, ne_eq]
          intro e; subst e; exact hne hkc.symm
        simp [hkk, malformedError, hlen]

theorem headers_malformed {α : Type} (k : PacketKind) (p : Par α) (m : Bytes) (hm : malformedAt k.code m = true) :
    (consumeHeaders k >>= fun _ => p).run m = .err (malformedError m) := by
  unfold Par.run
  rw [Par.bind_err (consumeHeaders_malformed k m hm)]

theorem malformedError_not_timeout (m : Bytes) : (malformedError m).isTimeout = false := by
  unfold malformedError
  split <;> rfl

/-! ### the retried unit: one request, the first datagram back -/

theorem requestImpl_exchange1 (s : Sock) (kind : PacketKind) :
    requestImpl s kind = exchange1 s (requestBytes kind) PACKET_SIZE Res.ok := by
  funext w
  unfold requestImpl exchange1
  simp only [Q.bind_apply]
  cases send s (requestBytes kind) w with
  | mk r1 w1 =>
    cases r1 with
    | ok u =>
      simp only
      cases recv s (some PACKET_SIZE) w1 with
      | mk r2 w2 => cases r2 <;> rfl
    | err k => rfl
    | crash => rfl

theorem steps_requestData (s : Sock) (hudp : s.tcp = false) (retries : Nat) (kind : PacketKind) (p : Plan1)
    (hp : p.wf retries PACKET_SIZE = true) (q : List Delivery) (fs : List Bool) (sn : List (Bytes × Bool)) :
    Steps s (requestData s retries kind) (p.outcome Res.ok) ⟨p.deliveries ++ q, p.faults ++ fs, sn⟩
      ⟨q, fs, sn ++ p.sends (request kind.code)⟩ := by
  unfold requestData
  rw [requestImpl_exchange1]
  exact steps_exchange1_plan s hudp _ _ _ retries p hp (fun d k _ h => by cases h) q fs sn

/-- the plan of one unit as a one-exchange plan; `first` = the first datagram of the valid answer -/
def plan1Of (u : UnitPlan) (first : Bytes) : Plan1 :=
  ⟨u.fails, match u.ending with | .valid => some first | .gaveUp => none | .malformed m => some m⟩

/-- what follows the first datagram in the unit's script -/
def tailOf (u : UnitPlan) (rest : List Bytes) (listens : Bool) : List Delivery :=
  match u.ending with
  | .valid => rest.map .data ++ (if listens then [.silence] else [])
  | _ => []

theorem unitScript_cons (u : UnitPlan) (first : Bytes) (rest : List Bytes) (listens : Bool) :
    unitScript u (first :: rest) listens = (plan1Of u first).deliveries ++ tailOf u rest listens := by
  unfold unitScript plan1Of tailOf Plan1.deliveries failDeliveries
  cases u.ending <;> simp

theorem unitFaults_eq (u : UnitPlan) (first : Bytes) : unitFaults u = (plan1Of u first).faults := by
  unfold unitFaults plan1Of Plan1.faults
  cases u.ending <;> rfl

theorem unitSends_eq (kind : Nat) (u : UnitPlan) (first : Bytes) :
    unitSends kind u = (plan1Of u first).sends (request kind) := by
  unfold unitSends plan1Of Plan1.sends
  cases u.ending <;> rfl

theorem plan1Of_wf {retries kind : Nat} {u : UnitPlan} (hu : wfUnit retries kind u = true) (first : Bytes)
    (hf : first.length ≤ PACKET_SIZE) : (plan1Of u first).wf retries PACKET_SIZE = true := by
  unfold wfUnit at hu
  unfold plan1Of Plan1.wf
  cases he : u.ending with
  | valid => rw [he] at hu; simp at hu; simp [hu, hf]
  | gaveUp => rw [he] at hu; simpa using hu
  | malformed m => rw [he] at hu; simp at hu; simp [hu.1.1, hu.2]

/-- the unit's result when its valid answer leads to `v` -/
def unitRes {α : Type} (u : UnitPlan) (v : α) : Res α :=
  match u.error with
  | none => .ok v
  | some k => .err k

/-- A unit followed by its own processing `after` of the first datagram.  `after first` succeeds with `v` consuming
`tailOf u rest listens` (`hvalid`), and fails on a datagram the header check rejects (`hbad`). -/
theorem steps_unit {α : Type} (s : Sock) (hudp : s.tcp = false) (retries : Nat) (kind : PacketKind) (u : UnitPlan)
    (hu : wfUnit retries kind.code u = true) (first : Bytes) (hf : first.length ≤ PACKET_SIZE)
    (after : Bytes → Q α) (v : α) (tl q' : List Delivery) (q : List Delivery) (fs : List Bool)
    (sn : List (Bytes × Bool))
    (hvalid : u.ending = .valid → ∀ sn, Steps s (after first) (.ok v) ⟨tl ++ q, fs, sn⟩ ⟨q', fs, sn⟩)
    (hbad : ∀ m, malformedAt kind.code m = true → ∀ sn, Steps s (after m) (.err (malformedError m)) ⟨q, fs, sn⟩ ⟨q, fs, sn⟩) :
    Steps s (requestData s retries kind >>= after) (unitRes u v)
      ⟨(plan1Of u first).deliveries ++ ((match u.ending with | .valid => tl | _ => []) ++ q), (plan1Of u first).faults ++ fs, sn⟩
      ⟨(match u.ending with | .valid => q' | _ => q), fs, sn ++ (plan1Of u first).sends (request kind.code)⟩ := by
  have hp := plan1Of_wf hu first hf
  have h := steps_requestData s hudp retries kind (plan1Of u first) hp
    ((match u.ending with | .valid => tl | _ => []) ++ q) fs sn
  unfold unitRes UnitPlan.error
  cases he : u.ending with
  | valid =>
    simp only [plan1Of, he, Plan1.outcome] at h ⊢
    exact Steps.bind h (hvalid he _)
  | gaveUp =>
    simp only [plan1Of, he, Plan1.outcome, List.nil_append] at h ⊢
    exact Steps.bind_err h
  | malformed m =>
    simp only [plan1Of, he, Plan1.outcome, List.nil_append] at h ⊢
    have hm : malformedAt kind.code m = true := by
      unfold wfUnit at hu; rw [he] at hu; simp at hu; exact hu.1.2
    exact Steps.bind h (hbad m hm _)

/-! ### server info -/

theorem info_run (cfg : Config) (st : State) (hp : WfParts cfg st) :
    (consumeHeaders .serverInfo >>= fun _ => parseServerInfo).run (infoDatagram st) = .ok (infoOf st) := by
  have hend : DecodesEnd parseServerInfo (encInfo st) (infoOf st) := by
    intro b hr
    obtain ⟨b', h1, _, h3⟩ := hp.info b st.extra (by rw [hr, encInfo_eq])
    exact ⟨b', h1, h3⟩
  exact headers_then st hp.header .serverInfo parseServerInfo _ _ hend

theorem steps_info (s : Sock) (hudp : s.tcp = false) (cfg : Config) (st : State) (hp : WfParts cfg st) (u : UnitPlan)
    (hu : wfUnit cfg.retries 0 u = true) (q : List Delivery) (fs : List Bool) (sn : List (Bytes × Bool)) :
    Steps s (queryServerInfo s cfg.retries) (unitRes u (infoOf st))
      ⟨unitScript u [infoDatagram st] false ++ q, unitFaults u ++ fs, sn⟩ ⟨q, fs, sn ++ unitSends 0 u⟩ := by
  have h := steps_unit s hudp cfg.retries .serverInfo u hu (infoDatagram st) hp.infoSize
    (fun d => parse (consumeHeaders .serverInfo >>= fun _ => parseServerInfo) d) (infoOf st) [] q q fs sn
    (fun _ sn => (Steps.parse s _ _ _).congrRes (info_run cfg st hp).symm)
    (fun m hm sn => (Steps.parse s _ _ _).congrRes (headers_malformed .serverInfo _ m hm).symm)
  rw [unitScript_cons, unitFaults_eq u (infoDatagram st), unitSends_eq 0 u (infoDatagram st)]
  unfold tailOf
  cases he : u.ending <;> simp only [he, List.append_nil, List.nil_append, List.map_nil, Bool.false_eq_true,
    ↓reduceIte] at h ⊢ <;> exact h

/-! ### mutators and rules -/

theorem steps_rules (s : Sock) (hudp : s.tcp = false) (cfg : Config) (st : State) (hp : WfParts cfg st) (u : UnitPlan)
    (hu : wfUnit cfg.retries 1 u = true) (q : List Delivery) (fs : List Bool) (sn : List (Bytes × Bool)) :
    Steps s (queryRules s cfg.retries) (unitRes u (expectedMR st))
      ⟨unitScript u (rulesDatagrams cfg st) true ++ q, unitFaults u ++ fs, sn⟩ ⟨q, fs, sn ++ unitSends 1 u⟩ := by
  have hdg : rulesDatagrams cfg st = (split cfg.rulesCuts st.pairs).map (rulesDg st) := rfl
  have hflat := split_flatten cfg.rulesCuts st.pairs
  have hwc : ∀ c ∈ split cfg.rulesCuts st.pairs, ∀ p ∈ c, wfStr p.1 = true ∧ wfStr p.2 = true := by
    intro c hc p hpp
    apply hp.pairs
    rw [← hflat]
    exact List.mem_flatten.mpr ⟨c, hc, hpp⟩
  have hsz := hp.rulesSize
  rw [hdg] at hsz ⊢
  cases hs : split cfg.rulesCuts st.pairs with
  | nil => exact absurd hs (split_ne_nil _ _)
  | cons c0 cs =>
    rw [hs] at hsz hwc hflat
    simp only [List.map_cons]
    have hfirst : (consumeHeaders .mutatorsAndRules >>= fun _ => parseRules .empty).run (rulesDg st c0)
        = .ok (mrOf (c0.map pairText)) := by
      have := headers_then st hp.header .mutatorsAndRules (parseRules (mrOf [])) _ _
        (parseRules_body (mrOf []) c0 (hwc c0 (by simp)))
      rw [foldl_addText] at this
      simpa [rulesDg, PacketKind.code, mrOf_nil] using this
    have hrounds := rules_rounds st hp.header cs (fun c hc => hwc c (by simp [hc])) (c0.map pairText)
    have hfin : mrOf (c0.map pairText ++ cs.flatten.map pairText) = expectedMR st := by
      have : c0.map pairText ++ cs.flatten.map pairText = st.pairs.map pairText := by
        rw [← List.map_append, ← List.flatten_cons, hflat]
      rw [this]
      rfl
    rw [hfin] at hrounds
    have hloop := whileOn_rounds hrounds
      (fun d hd => hsz d (by simp only [List.map_cons, List.mem_cons]; exact Or.inr hd)) q
    have h := steps_unit s hudp cfg.retries .mutatorsAndRules u hu (rulesDg st c0) (hsz _ (by simp))
      (fun d => parse (consumeHeaders .mutatorsAndRules >>= fun _ => parseRules .empty) d >>= fun st0 =>
        fun w => recvWhile s rulesRound (queued s w + 1) st0 w) (expectedMR st)
      ((cs.map (rulesDg st)).map .data ++ [.silence]) q q fs sn
      (fun _ sn => by
        refine Steps.bind ((Steps.parse s _ _ _).congrRes hfirst.symm) ?_
        have hl := Steps.fuelled (g := fun n => recvWhile s rulesRound n (mrOf (c0.map pairText)))
          (fun n hn => steps_recvWhile s hudp rulesRound fs sn
            (((cs.map (rulesDg st)).map .data ++ [.silence]) ++ q) n (mrOf (c0.map pairText)) hn)
        rw [show ((cs.map (rulesDg st)).map Delivery.data ++ [.silence]) ++ q
          = (cs.map (rulesDg st)).map Delivery.data ++ .silence :: q by simp, hloop] at hl
        rw [show ((cs.map (rulesDg st)).map Delivery.data ++ [.silence]) ++ q
          = (cs.map (rulesDg st)).map Delivery.data ++ .silence :: q by simp]
        exact hl)
      (fun m hm sn => Steps.bind_err ((Steps.parse s _ _ _).congrRes (headers_malformed .mutatorsAndRules _ m hm).symm))
    rw [unitScript_cons, unitFaults_eq u (rulesDg st c0), unitSends_eq 1 u (rulesDg st c0)]
    unfold tailOf
    cases he : u.ending <;> simp only [he, List.append_nil, List.nil_append, ↓reduceIte, List.append_assoc] at h ⊢ <;>
      exact h

/-! ### players -/

def playersData (st : State) (c : List SPlayer) : Delivery := .data (playersDg st c)

/-- the players loop over the datagrams of the answer: it stops by itself at the last one when the announced number
is there, and goes on listening otherwise -/
theorem whileOn_players (st : State) (hh : st.header.length = 4) (n : Nat) (tail : List Delivery) :
    ∀ (cs : List (List SPlayer)), (∀ c ∈ cs, ∀ p ∈ c, wfPlayer p = true) →
      (∀ c ∈ cs, (playersDg st c).length ≤ PACKET_SIZE) → cs ≠ [] → ∀ (acc : Players),
      (cs.length ≤ 1 ∨ acc.totalLen + cs.dropLast.flatten.length < n) →
      whileOn (playersRound n) acc (cs.map (playersData st) ++ tail)
        = if acc.totalLen + cs.flatten.length < n then whileOn (playersRound n) (cs.flatten.foldl pushPlayer acc) tail
          else (.ok (cs.flatten.foldl pushPlayer acc), tail) := by
  intro cs
  induction cs with
  | nil => intro _ _ h; exact absurd rfl h
  | cons c r ih =>
    intro hw hsz _ acc hinv
    have h1 := playersRound_dg st hh n acc c (hw c (by simp))
    have htake : (playersDg st c).take PACKET_SIZE = playersDg st c := List.take_of_length_le (hsz c (by simp))
    cases r with
    | nil =>
      simp only [List.map_cons, List.map_nil, List.cons_append, List.nil_append, playersData, whileOn, htake, h1,
        List.flatten_cons, List.flatten_nil, List.append_nil]
      rw [totalLen_foldl]
      by_cases hlt : acc.totalLen + c.length < n <;> simp [hlt]
    | cons c' r' =>
      have hlt : acc.totalLen + c.length + ((c' :: r').dropLast).flatten.length < n := by
        rcases hinv with h | h
        · simp at h
        · simpa [List.dropLast, Nat.add_assoc] using h
      have hmore : decide ((c.foldl pushPlayer acc).totalLen < n) = true := by
        rw [totalLen_foldl]; simp; omega
      rw [hmore] at h1
      have h2 := ih (fun c0 hc0 => hw c0 (by simp [hc0])) (fun c0 hc0 => hsz c0 (by simp [hc0])) (by simp)
        (c.foldl pushPlayer acc) (Or.inr (by rw [totalLen_foldl]; exact hlt))
      have hstep : whileOn (playersRound n) acc ((c :: c' :: r').map (playersData st) ++ tail)
          = whileOn (playersRound n) (c.foldl pushPlayer acc) ((c' :: r').map (playersData st) ++ tail) := by
        simp only [List.map_cons, List.cons_append, playersData, whileOn, htake, h1]
      rw [hstep, h2, totalLen_foldl]
      simp only [List.flatten_cons, List.foldl_append, List.length_append, Nat.add_assoc]

/-- what `query_players` does with the first datagram: the loop's first round, then the loop -/
theorem steps_playersAfter (s : Sock) (hudp : s.tcp = false) (n : Nat) (d : Bytes) (hd : d.length ≤ PACKET_SIZE)
    (q : List Delivery) (fs : List Bool) (sn : List (Bytes × Bool)) :
    Steps s (Q.lift (playersRound n .empty d) >>= fun x =>
        match x with
        | (st0, more) => if more then (fun w => recvWhile s (playersRound n) (queued s w + 1) st0 w) else pure st0)
      (whileOn (playersRound n) .empty (.data d :: q)).1 ⟨q, fs, sn⟩
      ⟨(whileOn (playersRound n) .empty (.data d :: q)).2, fs, sn⟩ := by
  have htake : d.take PACKET_SIZE = d := List.take_of_length_le hd
  cases hb : playersRound n .empty d with
  | crash =>
    have e : whileOn (playersRound n) .empty (.data d :: q) = (.crash, q) := by simp only [whileOn, htake, hb]
    rw [e]
    exact Steps.bind_crash (Steps.lift s _ _)
  | err k =>
    have e : whileOn (playersRound n) .empty (.data d :: q) = (.err k, q) := by simp only [whileOn, htake, hb]
    rw [e]
    exact Steps.bind_err (Steps.lift s _ _)
  | ok x =>
    obtain ⟨st0, more⟩ := x
    cases more with
    | false =>
      have e : whileOn (playersRound n) .empty (.data d :: q) = (.ok st0, q) := by simp only [whileOn, htake, hb]
      rw [e]
      exact Steps.bind (Steps.lift s _ _) (Steps.pure s st0 _)
    | true =>
      have e : whileOn (playersRound n) .empty (.data d :: q) = whileOn (playersRound n) st0 q := by
        simp only [whileOn, htake, hb]
      rw [e]
      refine Steps.bind (Steps.lift s _ _) ?_
      exact Steps.fuelled (g := fun k => recvWhile s (playersRound n) k st0)
        (fun k hk => steps_recvWhile s hudp (playersRound n) fs sn q k st0 hk)

/-- a datagram the header check rejects, as the first players datagram -/
theorem playersRound_malformed (n : Nat) (m : Bytes) (hm : malformedAt 2 m = true) :
    playersRound n .empty m = .err (malformedError m) := by
  unfold playersRound
  rw [headers_malformed .players _ m hm]

/-- the whole players answer on the queue: the SPEC's players, whatever follows — provided that, when the announced
number is not reached, the client's listening ends there (nothing, or a silence) -/
theorem whileOn_playersAnswer (cfg : Config) (st : State) (hp : WfParts cfg st) (q : List Delivery)
    (hq : st.players.length < st.numPlayers → quiet q = true) :
    (whileOn (playersRound st.numPlayers) .empty ((playersDatagrams cfg st).map .data ++ q)).1
      = .ok (expectedPlayers st) := by
  have hdg : (playersDatagrams cfg st).map Delivery.data = (split cfg.playersCuts st.players).map (playersData st) := by
    unfold playersDatagrams
    rw [List.map_map]
    rfl
  have hflat := split_flatten cfg.playersCuts st.players
  have hwc : ∀ c ∈ split cfg.playersCuts st.players, ∀ p ∈ c, wfPlayer p = true := by
    intro c hc p hpp
    apply hp.players
    rw [← hflat]
    exact List.mem_flatten.mpr ⟨c, hc, hpp⟩
  have hsz : ∀ c ∈ split cfg.playersCuts st.players, (playersDg st c).length ≤ PACKET_SIZE := by
    intro c hc
    exact hp.playersSize _ (List.mem_map.mpr ⟨c, hc, rfl⟩)
  have hann := hp.announced
  unfold playersAnnounced at hann
  simp only [Bool.or_eq_true, decide_eq_true_eq] at hann
  have h0 : Players.empty.totalLen = 0 := rfl
  rw [hdg, whileOn_players st hp.header st.numPlayers q _ hwc hsz (split_ne_nil _ _) .empty (by
    rcases hann with h | h
    · exact Or.inl h
    · exact Or.inr (by rw [h0]; omega)), hflat, h0, expectedPlayers_eq]
  by_cases hlt : 0 + st.players.length < st.numPlayers
  · rw [if_pos hlt]
    exact whileOn_quiet _ _ q (hq (by omega))
  · rw [if_neg hlt]

theorem playersDatagrams_cons (cfg : Config) (st : State) :
    ∃ first rest, playersDatagrams cfg st = first :: rest := by
  unfold playersDatagrams
  cases hs : split cfg.playersCuts st.players with
  | nil => exact absurd hs (split_ne_nil _ _)
  | cons c cs => exact ⟨_, _, rfl⟩

theorem steps_players (s : Sock) (hudp : s.tcp = false) (cfg : Config) (st : State) (hp : WfParts cfg st) (u : UnitPlan)
    (hu : wfUnit cfg.retries 2 u = true) (q : List Delivery)
    (hq : u.ending = .valid → st.players.length < st.numPlayers → quiet q = true)
    (fs : List Bool) (sn : List (Bytes × Bool)) :
    ∃ q', Steps s (queryPlayers s cfg.retries st.numPlayers) (unitRes u (expectedPlayers st))
      ⟨unitScript u (playersDatagrams cfg st) false ++ q, unitFaults u ++ fs, sn⟩ ⟨q', fs, sn ++ unitSends 2 u⟩ := by
  obtain ⟨first, rest, hdg⟩ := playersDatagrams_cons cfg st
  have hf : first.length ≤ PACKET_SIZE := hp.playersSize first (by rw [hdg]; simp)
  have hval : u.ending = .valid →
      (whileOn (playersRound st.numPlayers) .empty (.data first :: (rest.map .data ++ q))).1 = .ok (expectedPlayers st) := by
    intro he
    have := whileOn_playersAnswer cfg st hp q (hq he)
    rwa [hdg] at this
  have h := steps_unit s hudp cfg.retries .players u hu first hf
    (fun d => Q.lift (playersRound st.numPlayers .empty d) >>= fun x =>
      match x with
      | (st0, more) =>
        if more then (fun w => recvWhile s (playersRound st.numPlayers) (queued s w + 1) st0 w) else pure st0)
    (expectedPlayers st) (rest.map .data)
    (whileOn (playersRound st.numPlayers) .empty (.data first :: (rest.map .data ++ q))).2 q fs sn
    (fun he sn => (steps_playersAfter s hudp st.numPlayers first hf (rest.map .data ++ q) fs sn).congrRes (hval he).symm)
    (fun m hm sn => Steps.bind_err ((Steps.lift s _ _).congrRes (playersRound_malformed _ m hm).symm))
  rw [hdg, unitScript_cons, unitFaults_eq u first, unitSends_eq 2 u first]
  unfold tailOf
  cases he : u.ending <;> simp only [he, List.append_nil, List.nil_append, Bool.false_eq_true, ↓reduceIte,
    List.append_assoc] at h ⊢ <;> exact ⟨_, h⟩

/-! ### sections under their gather toggle -/

theorem statesEq {α : Type} {s : Sock} {f : Q α} {r : Res α} {σ σ' τ τ' : St} (h : Steps s f r σ σ') (e : τ = σ)
    (e' : τ' = σ') : Steps s f r τ τ' := by
  subst e e'
  exact h

theorem gatherRes_unitRes {α : Type} (t : Toggle) (ht : t ≠ .skip) (u : UnitPlan) (v : α) :
    Steps.gatherRes t (unitRes u v) = sectionRes t u v := by
  unfold unitRes sectionRes Steps.gatherRes
  cases t <;> cases u.error <;> simp_all

theorem sectionRes_skip {α : Type} (u : UnitPlan) (v : α) : sectionRes .skip u v = .ok none := by
  unfold sectionRes
  cases u.error <;> rfl

theorem steps_rulesSection (s : Sock) (hudp : s.tcp = false) (cfg : Config) (st : State) (hp : WfParts cfg st)
    (u : UnitPlan) (t : Toggle) (hu : t ≠ .skip → wfUnit cfg.retries 1 u = true) (q : List Delivery) (fs : List Bool)
    (sn : List (Bytes × Bool)) :
    Steps s (maybeGather t (queryRules s cfg.retries)) (sectionRes t u (expectedMR st))
      ⟨(if t != .skip then unitScript u (rulesDatagrams cfg st) true else []) ++ q,
        (if t != .skip then unitFaults u else []) ++ fs, sn⟩
      ⟨q, fs, sn ++ (if t != .skip then unitSends 1 u else [])⟩ := by
  by_cases ht : t = .skip
  · subst ht
    rw [sectionRes_skip]
    exact statesEq (Steps.gather_skip s _ ⟨q, fs, sn⟩) (by simp) (by simp)
  · have hne : (t != .skip) = true := by simpa using ht
    rw [← gatherRes_unitRes t ht]
    simp only [hne, ↓reduceIte]
    exact Steps.gather (steps_rules s hudp cfg st hp u (hu ht) q fs sn) t ht

theorem steps_playersSection (s : Sock) (hudp : s.tcp = false) (cfg : Config) (st : State) (hp : WfParts cfg st)
    (u : UnitPlan) (t : Toggle) (hu : t ≠ .skip → wfUnit cfg.retries 2 u = true) (q : List Delivery)
    (hq : t ≠ .skip → u.ending = .valid → st.players.length < st.numPlayers → quiet q = true)
    (fs : List Bool) (sn : List (Bytes × Bool)) :
    ∃ q', Steps s (maybeGather t (queryPlayers s cfg.retries st.numPlayers)) (sectionRes t u (expectedPlayers st))
      ⟨(if t != .skip then unitScript u (playersDatagrams cfg st) false else []) ++ q,
        (if t != .skip then unitFaults u else []) ++ fs, sn⟩
      ⟨q', fs, sn ++ (if t != .skip then unitSends 2 u else [])⟩ := by
  by_cases ht : t = .skip
  · subst ht
    rw [sectionRes_skip]
    exact ⟨q, statesEq (Steps.gather_skip s _ ⟨q, fs, sn⟩) (by simp) (by simp)⟩
  · have hne : (t != .skip) = true := by simpa using ht
    rw [← gatherRes_unitRes t ht]
    simp only [hne, ↓reduceIte]
    obtain ⟨q', h⟩ := steps_players s hudp cfg st hp u (hu ht) q (hq ht) fs sn
    exact ⟨q', Steps.gather h t ht⟩

/-! ### the whole query -/

theorem sectionRes_ne_crash {α : Type} (t : Toggle) (u : UnitPlan) (v : α) : sectionRes t u v ≠ .crash := by
  unfold sectionRes
  cases t <;> cases u.error <;> simp

theorem rulesStops_of_err {cfg : Config} {st : State} {plan : Plan} {k : ErrKind}
    (h : sectionRes cfg.gather.mutatorsAndRules plan.rules (expectedMR st) = .err k) : rulesStops cfg plan = true := by
  unfold sectionRes UnitPlan.error at h
  unfold rulesStops
  cases ht : cfg.gather.mutatorsAndRules <;> cases he : plan.rules.ending <;> simp_all

theorem rulesStops_of_ok {cfg : Config} {st : State} {plan : Plan} {o : Option MutatorsAndRules}
    (h : sectionRes cfg.gather.mutatorsAndRules plan.rules (expectedMR st) = .ok o) : rulesStops cfg plan = false := by
  unfold sectionRes UnitPlan.error at h
  unfold rulesStops
  cases ht : cfg.gather.mutatorsAndRules <;> cases he : plan.rules.ending <;> simp_all

theorem steps_queryBody (s : Sock) (hudp : s.tcp = false) (cfg : Config) (st : State) (hp : WfParts cfg st)
    (plan : Plan) (hplan : wfPlan cfg plan = true) (restQ : List Delivery) (restF : List Bool)
    (hrest : stillListening cfg st plan = true → quiet restQ = true) (sn : List (Bytes × Bool)) :
    ∃ q', Steps s (queryBody s cfg.gather cfg.retries) (faultyExpected cfg st plan)
      ⟨faultyScript cfg st plan ++ restQ, faultyFaults cfg plan ++ restF, sn⟩
      ⟨q', restF, sn ++ faultySends cfg plan⟩ := by
  simp only [wfPlan, Bool.and_eq_true, Bool.or_eq_true, Bool.not_eq_true'] at hplan
  obtain ⟨⟨hinfo, hrules⟩, hplayers⟩ := hplan
  unfold queryBody
  cases hie : plan.info.error with
  | some k =>
    -- the server info unit fails: nothing else is asked for
    have hio : infoOk plan = false := by
      unfold infoOk; unfold UnitPlan.error at hie
      cases he : plan.info.ending <;> simp_all
    have hr : rulesReached cfg plan = false := by simp [rulesReached, hio]
    have hpl : playersReached cfg plan = false := by simp [playersReached, hio]
    have h1 := steps_info s hudp cfg st hp plan.info hinfo restQ restF sn
    have hres : unitRes plan.info (infoOf st) = .err k := by simp [unitRes, hie]
    rw [hres] at h1
    have e0 : faultyExpected cfg st plan = .err k := by simp [faultyExpected, hie]
    have e1 : faultyScript cfg st plan ++ restQ = unitScript plan.info [infoDatagram st] false ++ restQ := by
      simp [faultyScript, hr, hpl]
    have e2 : faultyFaults cfg plan ++ restF = unitFaults plan.info ++ restF := by simp [faultyFaults, hr, hpl]
    have e3 : sn ++ faultySends cfg plan = sn ++ unitSends 0 plan.info := by simp [faultySends, hr, hpl]
    rw [e0, e1, e2, e3]
    exact ⟨restQ, Steps.bind_err h1⟩
  | none =>
    have hio : infoOk plan = true := by
      unfold infoOk; unfold UnitPlan.error at hie
      cases he : plan.info.ending <;> simp_all
    have hrr : rulesReached cfg plan = (cfg.gather.mutatorsAndRules != .skip) := by simp [rulesReached, hio]
    have hres : unitRes plan.info (infoOf st) = .ok (infoOf st) := by simp [unitRes, hie]
    cases hR : sectionRes cfg.gather.mutatorsAndRules plan.rules (expectedMR st) with
    | crash => exact absurd hR (sectionRes_ne_crash _ _ _)
    | err k =>
      have hst := rulesStops_of_err hR
      have hpl : playersReached cfg plan = false := by simp [playersReached, hst]
      have h2 := steps_rulesSection s hudp cfg st hp plan.rules cfg.gather.mutatorsAndRules
        (fun ht => by
          rcases hrules with h | h
          · rw [hrr] at h; simp at h; exact absurd h ht
          · exact h) restQ restF (sn ++ unitSends 0 plan.info)
      rw [hR] at h2
      have h1 := steps_info s hudp cfg st hp plan.info hinfo
        ((if cfg.gather.mutatorsAndRules != .skip then unitScript plan.rules (rulesDatagrams cfg st) true else []) ++ restQ)
        ((if cfg.gather.mutatorsAndRules != .skip then unitFaults plan.rules else []) ++ restF) sn
      rw [hres] at h1
      have e0 : faultyExpected cfg st plan = .err k := by simp [faultyExpected, hie, hR]
      have e1 : faultyScript cfg st plan ++ restQ = unitScript plan.info [infoDatagram st] false ++
          ((if cfg.gather.mutatorsAndRules != .skip then unitScript plan.rules (rulesDatagrams cfg st) true else []) ++
            restQ) := by
        simp [faultyScript, hrr, hpl, List.append_assoc]
      have e2 : faultyFaults cfg plan ++ restF = unitFaults plan.info ++
          ((if cfg.gather.mutatorsAndRules != .skip then unitFaults plan.rules else []) ++ restF) := by
        simp [faultyFaults, hrr, hpl, List.append_assoc]
      have e3 : sn ++ faultySends cfg plan = (sn ++ unitSends 0 plan.info) ++
          (if cfg.gather.mutatorsAndRules != .skip then unitSends 1 plan.rules else []) := by
        simp [faultySends, hrr, hpl, List.append_assoc]
      rw [e0, e1, e2, e3]
      refine ⟨restQ, Steps.bind h1 ?_⟩
      exact Steps.bind_err h2
    | ok mro =>
      have hst := rulesStops_of_ok hR
      have hpr : playersReached cfg plan = (cfg.gather.players != .skip) := by simp [playersReached, hio, hst]
      have hpw := applyPassword_eq (infoOf st) (mro.getD .empty) rfl
      have hnum : (applyPassword (infoOf st) (mro.getD .empty)).numPlayers = st.numPlayers := by rw [hpw]; rfl
      obtain ⟨q', h3⟩ := steps_playersSection s hudp cfg st hp plan.players cfg.gather.players
        (fun ht => by
          rcases hplayers with h | h
          · rw [hpr] at h; simp at h; exact absurd h ht
          · exact h) restQ
        (fun ht he hlt => hrest (by
          have : (cfg.gather.players != .skip) = true := by simpa using ht
          simp [stillListening, hpr, this, he, hlt])) restF
        ((sn ++ unitSends 0 plan.info) ++ (if cfg.gather.mutatorsAndRules != .skip then unitSends 1 plan.rules else []))
      have h2 := steps_rulesSection s hudp cfg st hp plan.rules cfg.gather.mutatorsAndRules
        (fun ht => by
          rcases hrules with h | h
          · rw [hrr] at h; simp at h; exact absurd h ht
          · exact h)
        ((if cfg.gather.players != .skip then unitScript plan.players (playersDatagrams cfg st) false else []) ++ restQ)
        ((if cfg.gather.players != .skip then unitFaults plan.players else []) ++ restF)
        (sn ++ unitSends 0 plan.info)
      rw [hR] at h2
      have h1 := steps_info s hudp cfg st hp plan.info hinfo
        ((if cfg.gather.mutatorsAndRules != .skip then unitScript plan.rules (rulesDatagrams cfg st) true else []) ++
          ((if cfg.gather.players != .skip then unitScript plan.players (playersDatagrams cfg st) false else []) ++ restQ))
        ((if cfg.gather.mutatorsAndRules != .skip then unitFaults plan.rules else []) ++
          ((if cfg.gather.players != .skip then unitFaults plan.players else []) ++ restF)) sn
      rw [hres] at h1
      have e1 : faultyScript cfg st plan ++ restQ = unitScript plan.info [infoDatagram st] false ++
          ((if cfg.gather.mutatorsAndRules != .skip then unitScript plan.rules (rulesDatagrams cfg st) true else []) ++
            ((if cfg.gather.players != .skip then unitScript plan.players (playersDatagrams cfg st) false else []) ++
              restQ)) := by
        simp [faultyScript, hrr, hpr, List.append_assoc]
      have e2 : faultyFaults cfg plan ++ restF = unitFaults plan.info ++
          ((if cfg.gather.mutatorsAndRules != .skip then unitFaults plan.rules else []) ++
            ((if cfg.gather.players != .skip then unitFaults plan.players else []) ++ restF)) := by
        simp [faultyFaults, hrr, hpr, List.append_assoc]
      have e3 : sn ++ faultySends cfg plan = ((sn ++ unitSends 0 plan.info) ++
          (if cfg.gather.mutatorsAndRules != .skip then unitSends 1 plan.rules else [])) ++
          (if cfg.gather.players != .skip then unitSends 2 plan.players else []) := by
        simp [faultySends, hrr, hpr, List.append_assoc]
      rw [e1, e2, e3]
      cases hP : sectionRes cfg.gather.players plan.players (expectedPlayers st) with
      | crash => exact absurd hP (sectionRes_ne_crash _ _ _)
      | err k =>
        rw [hP] at h3
        have e0 : faultyExpected cfg st plan = .err k := by simp [faultyExpected, hie, hR, hP]
        rw [e0]
        refine ⟨q', Steps.bind h1 (Steps.bind h2 ?_)⟩
        dsimp only
        rw [hnum]
        exact Steps.bind_err h3
      | ok plo =>
        rw [hP] at h3
        have e0 : faultyExpected cfg st plan
            = .ok ⟨applyPassword (infoOf st) (mro.getD .empty), mro.getD .empty, plo.getD .empty⟩ := by
          simp only [faultyExpected, hie, hR, hP, Res.bind_ok, hpw]
          rfl
        rw [e0]
        refine ⟨q', Steps.bind h1 (Steps.bind h2 ?_)⟩
        dsimp only
        rw [hnum]
        exact Steps.bind h3 (Steps.pure s _ _)

/-- the whole query on the script of a plan (followed by anything that ends the client's listening) -/
theorem query_faulty (cfg : Config) (st : State) (hwf : wf cfg st = true) (port : Nat) (plan : Plan)
    (hplan : wfPlan cfg plan = true) (restQ : List Delivery) (restF : List Bool)
    (hrest : stillListening cfg st plan = true → quiet restQ = true) :
    (query port cfg.gather cfg.retries
        (Net.init [.opened (faultyScript cfg st plan ++ restQ)] (faultyFaults cfg plan ++ restF))).1
      = faultyExpected cfg st plan
    ∧ sentOf (query port cfg.gather cfg.retries
        (Net.init [.opened (faultyScript cfg st plan ++ restQ)] (faultyFaults cfg plan ++ restF))).2.log
      = faultySends cfg plan := by
  obtain ⟨q', h⟩ := steps_queryBody ⟨0, port, false⟩ rfl cfg st (wf_parts cfg st hwf) plan hplan restQ restF hrest []
  have := openUdp_outcome port (fun s => queryBody s cfg.gather cfg.retries) _ _ _ _ h
  simp only [List.nil_append] at this
  exact this

/-! ### counting attempts on the wire -/

theorem unitSends_length (kind : Nat) (u : UnitPlan) : (unitSends kind u).length = u.attempts := by
  unfold unitSends UnitPlan.attempts
  cases u.ending <;> simp

theorem unitSends_kind (kind : Nat) (u : UnitPlan) : ∀ e ∈ unitSends kind u, e.1 = request kind := by
  intro e he
  unfold unitSends at he
  rcases List.mem_append.mp he with h | h
  · obtain ⟨f, _, rfl⟩ := List.mem_map.mp h; rfl
  · cases hu : u.ending <;> rw [hu] at h <;> simp at h <;> (subst h; rfl)

theorem lastError_class (fails : List Bool) (h : fails ≠ []) :
    lastError attemptError fails = .packetReceive ∨ lastError attemptError fails = .packetSend := by
  obtain ⟨init, f, rfl⟩ : ∃ init f, fails = init ++ [f] := by
    cases hne : fails.reverse with
    | nil => simp at hne; exact absurd hne h
    | cons a r => exact ⟨r.reverse, a, by rw [← List.reverse_reverse fails, hne]; simp⟩
  rw [lastError_attempt]
  cases f <;> simp

theorem attemptsOf_append (sec : Section) (a b : List (Bytes × Bool)) :
    attemptsOf sec (a ++ b) = attemptsOf sec a + attemptsOf sec b := by
  simp [attemptsOf]

theorem attemptsOf_nil (sec : Section) : attemptsOf sec [] = 0 := rfl

theorem request_beq (a b : Section) : (request a.kind == request b.kind) = decide (a = b) := by
  cases a <;> cases b <;> decide

theorem attemptsOf_unitSends (sec of : Section) (u : UnitPlan) :
    attemptsOf sec (unitSends of.kind u) = if of = sec then u.attempts else 0 := by
  unfold attemptsOf
  by_cases hk : of = sec
  · rw [if_pos hk, List.filter_eq_self.mpr, unitSends_length]
    intro e he
    rw [unitSends_kind of.kind u e he, hk]
    simp
  · rw [if_neg hk, List.filter_eq_nil_iff.mpr]
    · rfl
    · intro e he
      rw [unitSends_kind of.kind u e he, request_beq]
      simp [hk]

/-- attempts per unit on the wire: those of the plan for a unit that is reached, none for the others -/
theorem attemptsOf_faultySends (cfg : Config) (plan : Plan) (sec : Section) :
    attemptsOf sec (faultySends cfg plan) = if reached cfg plan sec then (plan.unit sec).attempts else 0 := by
  unfold faultySends
  rw [attemptsOf_append, attemptsOf_append]
  have h0 := attemptsOf_unitSends sec .info plan.info
  have h1 := attemptsOf_unitSends sec .rules plan.rules
  have h2 := attemptsOf_unitSends sec .players plan.players
  simp only [Section.kind] at h0 h1 h2
  cases sec <;> cases hr : rulesReached cfg plan <;> cases hpl : playersReached cfg plan <;>
    simp [h0, h1, h2, reached, Plan.unit, attemptsOf_nil, hr, hpl]

/-! ### the prescribed outcome in the cases C10 names -/

theorem error_valid {u : UnitPlan} (h : u.ending = .valid) : u.error = none := by simp [UnitPlan.error, h]

/-- every unit is answered: the fault-free response -/
theorem faultyExpected_answered (cfg : Config) (st : State) (plan : Plan) (hi : plan.info.ending = .valid)
    (hr : plan.rules.ending = .valid) (hpl : plan.players.ending = .valid) :
    faultyExpected cfg st plan = expected cfg.answered st := by
  unfold faultyExpected expected sectionRes sectionResult Config.answered
  rw [error_valid hi, error_valid hr, error_valid hpl]
  cases cfg.gather.mutatorsAndRules <;> cases cfg.gather.players <;> rfl

/-- a required unit that is reached and fails ends the query with its error -/
theorem faultyExpected_stops (cfg : Config) (st : State) (plan : Plan) (sec : Section) (k : ErrKind)
    (hreach : reached cfg plan sec = true) (ht : toggleOf cfg sec = .enforce) (hk : (plan.unit sec).error = some k) :
    faultyExpected cfg st plan = .err k := by
  cases sec with
  | info =>
    simp only [Plan.unit] at hk
    simp [faultyExpected, hk]
  | rules =>
    simp only [Plan.unit] at hk
    simp only [toggleOf] at ht
    simp only [reached, rulesReached, infoOk, Bool.and_eq_true, beq_iff_eq] at hreach
    simp [faultyExpected, error_valid hreach.1, sectionRes, ht, hk]
  | players =>
    simp only [Plan.unit] at hk
    simp only [toggleOf] at ht
    simp only [reached, playersReached, infoOk, rulesStops, Bool.and_eq_true, beq_iff_eq, Bool.not_eq_true',
      Bool.and_eq_false_iff, bne_eq_false_iff_eq, beq_eq_false_iff_ne] at hreach
    obtain ⟨⟨hi, hrs⟩, _⟩ := hreach
    unfold faultyExpected
    rw [error_valid hi]
    simp only
    cases hR : sectionRes cfg.gather.mutatorsAndRules plan.rules (expectedMR st) with
    | crash => exact absurd hR (sectionRes_ne_crash _ _ _)
    | err e =>
      exfalso
      unfold sectionRes UnitPlan.error at hR
      rcases hrs with h | h
      · cases ht1 : cfg.gather.mutatorsAndRules <;> cases he : plan.rules.ending <;> simp_all
      · simp [h] at hR
        cases ht1 : cfg.gather.mutatorsAndRules <;> simp_all
    | ok mro => simp [sectionRes, ht, hk]

/-- the rules unit is only tried and fails (in any way), the players unit is answered: the response without rules -/
theorem faultyExpected_rules_tried (cfg : Config) (st : State) (plan : Plan) (hi : plan.info.ending = .valid)
    (ht : cfg.gather.mutatorsAndRules = .try_) (k : ErrKind) (hk : plan.rules.error = some k)
    (hpl : plan.players.ending = .valid) :
    faultyExpected cfg st plan = expected { cfg.answered with rulesOutcome := .silent } st := by
  unfold faultyExpected expected sectionRes sectionResult Config.answered
  rw [error_valid hi, error_valid hpl, hk, ht]
  cases cfg.gather.players <;> rfl

/-- the players unit is only tried and fails (in any way), the rules unit is answered: the response without players -/
theorem faultyExpected_players_tried (cfg : Config) (st : State) (plan : Plan) (hi : plan.info.ending = .valid)
    (hr : plan.rules.ending = .valid) (ht : cfg.gather.players = .try_) (k : ErrKind)
    (hk : plan.players.error = some k) :
    faultyExpected cfg st plan = expected { cfg.answered with playersOutcome := .silent } st := by
  unfold faultyExpected expected sectionRes sectionResult Config.answered
  rw [error_valid hi, error_valid hr, hk, ht]
  cases cfg.gather.mutatorsAndRules <;> rfl

end Gd.Unreal2
