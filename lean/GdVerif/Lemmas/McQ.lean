import GdVerif.Lemmas.QLogic
import GdVerif.Proto.Minecraft
/-
  Exact evaluation of the Minecraft units (open a socket, then retry: send the requests, receive once,
  decode) in ANY transport state: what the result is, what is logged, and what state is left for the
  next unit.  This is the frame property the auto-detecting query needs (each variant runs on its own
  new socket and sees only that socket's script).
-/
namespace Gd.Mc
open Gd

/-- the state in which the client owns one more socket than in `w0` (its id is `w0.conns.length`) whose
remaining deliveries are `q`; `rest` are the scripts of sockets not yet opened; no send faults are pending;
`evs` was logged since `w0` -/
def own (w0 : Net) (rest : List ConnScript) (q : List Delivery) (evs : List Ev) : Net :=
  ⟨rest, w0.conns ++ [q], [], w0.log ++ evs⟩

theorem getD_append_length (l : List (List Delivery)) (x : List Delivery) : (l ++ [x]).getD l.length [] = x := by
  induction l with
  | nil => rfl
  | cons y r ih => simpa using ih

theorem setAt_append_length (l : List (List Delivery)) (x y : List Delivery) : setAt (l ++ [x]) l.length y = l ++ [y] := by
  induction l with
  | nil => rfl
  | cons z r ih => simp [setAt, ih]

theorem openSock_opened (tcp : Bool) (port : Nat) (w0 : Net) (ds : List Delivery) (rest : List ConnScript)
    (hp : w0.pending = .opened ds :: rest) (hf : w0.faults = []) :
    openSock tcp port w0 = (.ok ⟨w0.conns.length, port, tcp⟩, own w0 rest ds [.opened w0.conns.length tcp port false]) := by
  cases w0
  simp_all [openSock, own]

theorem openSock_refused (tcp : Bool) (port : Nat) (w0 : Net) (rest : List ConnScript) (hp : w0.pending = .refused :: rest) :
    openSock tcp port w0 = (.err (if tcp then .socketConnect else .socketBind),
      ⟨rest, w0.conns ++ [[]], w0.faults, w0.log ++ [.opened w0.conns.length tcp port true]⟩) := by
  cases w0
  simp_all [openSock]

theorem send_own (s : Sock) (d : Bytes) (w0 : Net) (rest : List ConnScript) (q : List Delivery) (evs : List Ev) :
    send s d (own w0 rest q evs) = (.ok (), own w0 rest q (evs ++ [.send s.id s.port d false])) := by
  simp [send, own, List.append_assoc]

theorem recv_own_data (s : Sock) (w0 : Net) (hs : s.id = w0.conns.length) (rest : List ConnScript) (d : Bytes)
    (q : List Delivery) (evs : List Ev) :
    recv s none (own w0 rest (.data d :: q) evs)
      = (.ok (if s.tcp then d else d.take 1024),
         own w0 rest q (evs ++ [.recv s.id none (some (if s.tcp then d else d.take 1024).length)])) := by
  simp [recv, own, hs, getD_append_length, setAt_append_length, List.append_assoc]

theorem recv_own_silence (s : Sock) (w0 : Net) (hs : s.id = w0.conns.length) (rest : List ConnScript)
    (q : List Delivery) (evs : List Ev) :
    recv s none (own w0 rest (.silence :: q) evs)
      = (.err .packetReceive, own w0 rest q (evs ++ [.recv s.id none none])) := by
  simp [recv, own, hs, getD_append_length, setAt_append_length, List.append_assoc]

theorem recv_own_empty (s : Sock) (w0 : Net) (hs : s.id = w0.conns.length) (rest : List ConnScript) (evs : List Ev) :
    recv s none (own w0 rest [] evs)
      = (if s.tcp then (.ok [], own w0 rest [] (evs ++ [.recv s.id none (some 0)]))
         else (.err .packetReceive, own w0 rest [] (evs ++ [.recv s.id none none]))) := by
  simp only [recv, own, hs, getD_append_length]
  split <;> simp [List.append_assoc]

/-! ### the shape all five units share -/

/-- the events of sending `reqs` on socket `s` without faults -/
def sendEvs (s : Sock) (reqs : List Bytes) : List Ev := reqs.map fun d => .send s.id s.port d false

/-- what an attempt does on its own socket: it sends `reqs`, receives once and decodes what arrived -/
structure Behaves (f : Q α) (s : Sock) (w0 : Net) (rest : List ConnScript) (reqs : List Bytes) (dec : Bytes → Res α) : Prop where
  data : ∀ d q evs, f (own w0 rest (.data d :: q) evs)
      = (dec (if s.tcp then d else d.take 1024),
         own w0 rest q (evs ++ sendEvs s reqs ++ [.recv s.id none (some (if s.tcp then d else d.take 1024).length)]))
  silence : ∀ q evs, f (own w0 rest (.silence :: q) evs)
      = (.err .packetReceive, own w0 rest q (evs ++ sendEvs s reqs ++ [.recv s.id none none]))
  empty : ∀ evs, f (own w0 rest [] evs)
      = (if s.tcp then (dec [], own w0 rest [] (evs ++ sendEvs s reqs ++ [.recv s.id none (some 0)]))
         else (.err .packetReceive, own w0 rest [] (evs ++ sendEvs s reqs ++ [.recv s.id none none])))

theorem retry_of_ok (r : Nat) (f : Q α) (w w' : Net) (a : α) (h : f w = (.ok a, w')) : retryOnTimeout r f w = (.ok a, w') := by
  cases r with
  | zero => exact h
  | succ r => simp [retryOnTimeout, h]

theorem retry_of_hard_err (r : Nat) (f : Q α) (w w' : Net) (k : ErrKind) (h : f w = (.err k, w')) (hk : k.isTimeout = false) :
    retryOnTimeout r f w = (.err k, w') := by
  cases r with
  | zero => exact h
  | succ r => simp [retryOnTimeout, h, hk]

/-- transports of the sockets opened, in order (`true` = TCP) -/
def opens : List Ev → List Bool
  | [] => []
  | .opened _ tcp _ _ :: r => tcp :: opens r
  | _ :: r => opens r

theorem opens_append (a b : List Ev) : opens (a ++ b) = opens a ++ opens b := by
  induction a with
  | nil => rfl
  | cons e r ih => cases e <;> simp [opens, ih]

theorem opens_sendEvs (s : Sock) (reqs : List Bytes) : opens (sendEvs s reqs) = [] := by
  induction reqs with
  | nil => rfl
  | cons d r ih => simpa [sendEvs, opens] using ih

/-- the state a unit leaves for the next one: the scripts `rest` still pending, no send faults, and one
socket of the given transport opened since `w0` -/
structure After (w0 w' : Net) (rest : List ConnScript) (tcp : Bool) : Prop where
  pending : w'.pending = rest
  faults : w'.faults = []
  opened : Mc.opens w'.log = Mc.opens w0.log ++ [tcp]

theorem After.of_own (w0 : Net) (rest : List ConnScript) (q : List Delivery) (evs : List Ev) (tcp : Bool)
    (h : Mc.opens evs = [tcp]) : After w0 (Mc.own w0 rest q evs) rest tcp :=
  ⟨rfl, rfl, by simp [Mc.own, opens_append, h]⟩

/-- A unit whose connection delivers `d` first, and `d` decodes: the unit returns the decoded value after ONE
attempt, having logged exactly: socket opened, the requests, one receive. -/
theorem unit_answered {α : Type} (tcp : Bool) (port r : Nat) (f : Sock → Q α) (reqs : List Bytes) (dec : Bytes → Res α)
    (w0 : Net) (d : Bytes) (q : List Delivery) (rest : List ConnScript) (x : α)
    (hb : Behaves (f ⟨w0.conns.length, port, tcp⟩) ⟨w0.conns.length, port, tcp⟩ w0 rest reqs dec)
    (hp : w0.pending = .opened (.data d :: q) :: rest) (hf : w0.faults = [])
    (hdec : dec (if tcp then d else d.take 1024) = .ok x) :
    (openSock tcp port >>= fun s => retryOnTimeout r (f s)) w0
      = (.ok x, own w0 rest q ([.opened w0.conns.length tcp port false] ++ sendEvs ⟨w0.conns.length, port, tcp⟩ reqs
          ++ [.recv w0.conns.length none (some (if tcp then d else d.take 1024).length)])) := by
  rw [Q.bind_apply, openSock_opened tcp port w0 _ rest hp hf]
  simp only
  have := hb.data d q [.opened w0.conns.length tcp port false]
  simp only [hdec] at this
  exact retry_of_ok r _ _ _ x this

theorem unit_refused {α : Type} (tcp : Bool) (port r : Nat) (f : Sock → Q α) (w0 : Net) (rest : List ConnScript)
    (hp : w0.pending = .refused :: rest) (hf : w0.faults = []) :
    ∃ e w1, (openSock tcp port >>= fun s => retryOnTimeout r (f s)) w0 = (.err e, w1) ∧ After w0 w1 rest tcp := by
  refine ⟨if tcp then .socketConnect else .socketBind,
    ⟨rest, w0.conns ++ [[]], w0.faults, w0.log ++ [.opened w0.conns.length tcp port true]⟩, ?_, ⟨rfl, hf, ?_⟩⟩
  · rw [Q.bind_apply, openSock_refused tcp port w0 rest hp]
  · simp [opens_append, opens]

/-- retrying over a connection on which nothing ever arrives fails, whatever the retry count -/
theorem retry_silent {α : Type} (f : Q α) (s : Sock) (w0 : Net) (rest : List ConnScript) (reqs : List Bytes)
    (dec : Bytes → Res α) (hb : Behaves f s w0 rest reqs dec) (hempty : ∃ e, dec [] = .err e) :
    ∀ (r k : Nat) (evs : List Ev), ∃ e k' evs', retryOnTimeout r f (own w0 rest (List.replicate k .silence) evs)
      = (.err e, own w0 rest (List.replicate k' .silence) evs') ∧ opens evs' = opens evs := by
  obtain ⟨e0, he0⟩ := hempty
  -- one attempt
  have one : ∀ (k : Nat) (evs : List Ev), ∃ e k' evs', f (own w0 rest (List.replicate k .silence) evs)
      = (.err e, own w0 rest (List.replicate k' .silence) evs') ∧ opens evs' = opens evs ∧ (e.isTimeout = true → k' < k ∨ k = 0) := by
    intro k evs
    cases k with
    | zero =>
      have h := hb.empty evs
      by_cases ht : s.tcp = true
      · simp only [ht, ↓reduceIte, he0] at h
        exact ⟨e0, 0, _, h, by simp [opens_append, opens_sendEvs, opens], fun _ => Or.inr rfl⟩
      · simp only [ht, Bool.false_eq_true, ↓reduceIte] at h
        exact ⟨_, 0, _, h, by simp [opens_append, opens_sendEvs, opens], fun _ => Or.inr rfl⟩
    | succ k =>
      have h := hb.silence (List.replicate k .silence) evs
      exact ⟨_, k, _, h, by simp [opens_append, opens_sendEvs, opens], fun _ => Or.inl (Nat.lt_succ_self k)⟩
  intro r
  induction r with
  | zero =>
    intro k evs
    obtain ⟨e, k', evs', h, ho, _⟩ := one k evs
    exact ⟨e, k', evs', h, ho⟩
  | succ r ih =>
    intro k evs
    obtain ⟨e, k', evs', h, ho, _⟩ := one k evs
    simp only [retryOnTimeout, h]
    by_cases ht : e.isTimeout = true
    · simp only [ht, ↓reduceIte]
      obtain ⟨e2, k2, evs2, h2, ho2⟩ := ih k' evs'
      exact ⟨e2, k2, evs2, h2, by rw [ho2, ho]⟩
    · simp only [ht, Bool.false_eq_true, ↓reduceIte]
      exact ⟨e, k', evs', rfl, ho⟩

theorem unit_silent {α : Type} (tcp : Bool) (port r : Nat) (f : Sock → Q α) (reqs : List Bytes) (dec : Bytes → Res α)
    (w0 : Net) (k : Nat) (rest : List ConnScript)
    (hb : Behaves (f ⟨w0.conns.length, port, tcp⟩) ⟨w0.conns.length, port, tcp⟩ w0 rest reqs dec)
    (hempty : ∃ e, dec [] = .err e)
    (hp : w0.pending = .opened (List.replicate k .silence) :: rest) (hf : w0.faults = []) :
    ∃ e w1, (openSock tcp port >>= fun s => retryOnTimeout r (f s)) w0 = (.err e, w1) ∧ After w0 w1 rest tcp := by
  rw [Q.bind_apply, openSock_opened tcp port w0 _ rest hp hf]
  simp only
  obtain ⟨e, k', evs', h, ho⟩ := retry_silent _ _ w0 rest reqs dec hb hempty r k [.opened w0.conns.length tcp port false]
  exact ⟨e, _, h, After.of_own w0 rest _ evs' tcp (by rw [ho]; rfl)⟩

/-! ### the three attempts behave -/

theorem Q.lift_bind_lift {α β : Type} (r : Res α) (g : α → Res β) :
    (Q.lift r >>= fun x => Q.lift (g x)) = Q.lift (r >>= g) := by
  funext w
  cases r <;> rfl

/-- what a Java attempt makes of the stream it reads -/
def javaDec (ext : Ext) (d : Bytes) : Res JavaResponse := javaUnframe.run d >>= fun sd => (javaParse ext).run sd

/-- the three framed packets of a Java attempt -/
def javaReqs (payload : Bytes) : List Bytes :=
  [asVarint (payload.length % 2 ^ 32) ++ payload, asVarint (1 % 2 ^ 32) ++ [0x00], asVarint (1 % 2 ^ 32) ++ [0x01]]

theorem javaTail_eq (ext : Ext) (s : Sock) :
    (javaReceive s >>= fun sd => parse (javaParse ext) sd) = (recv s none >>= fun d => Q.lift (javaDec ext d)) := by
  funext w
  simp only [javaReceive, Q.bind_apply]
  cases hr : recv s none w with
  | mk res w1 =>
    cases res with
    | ok d =>
      simp only [parse, javaDec]
      cases javaUnframe.run d <;> rfl
    | err k => rfl
    | crash => rfl

theorem behaves_java (ext : Ext) (s : Sock) (st : RequestSettings) (w0 : Net) (hs : s.id = w0.conns.length) (hs' : s.tcp = true)
    (rest : List ConnScript) (payload : Bytes) (hh : javaHandshakePayload st s.port = .ok payload) :
    Behaves (javaGetInfoImpl ext s st) s w0 rest (javaReqs payload) (javaDec ext) := by
  have hshape : javaGetInfoImpl ext s st
      = (send s (asVarint (payload.length % 2 ^ 32) ++ payload) >>= fun _ =>
          send s (asVarint (1 % 2 ^ 32) ++ [0x00]) >>= fun _ =>
          send s (asVarint (1 % 2 ^ 32) ++ [0x01]) >>= fun _ =>
          recv s none >>= fun d => Q.lift (javaDec ext d)) := by
    unfold javaGetInfoImpl javaSendHandshake javaSendStatusRequest javaSendPingRequest javaSend
    rw [hh, ← javaTail_eq]
    rfl
  constructor
  · intro d q evs
    rw [hshape]
    simp only [Q.bind_apply, send_own, recv_own_data s w0 hs, hs', ↓reduceIte, Q.lift, sendEvs, javaReqs,
      List.map_cons, List.map_nil, List.append_assoc, List.cons_append, List.nil_append]
  · intro q evs
    rw [hshape]
    simp only [Q.bind_apply, send_own, recv_own_silence s w0 hs, sendEvs, javaReqs,
      List.map_cons, List.map_nil, List.append_assoc, List.cons_append, List.nil_append]
  · intro evs
    rw [hshape]
    simp only [Q.bind_apply, send_own, recv_own_empty s w0 hs, hs', ↓reduceIte, Q.lift, sendEvs, javaReqs,
      List.map_cons, List.map_nil, List.append_assoc, List.cons_append, List.nil_append]

theorem behaves_bedrock (s : Sock) (w0 : Net) (hs : s.id = w0.conns.length) (rest : List ConnScript) :
    Behaves (bedrockGetInfoImpl s) s w0 rest [bedrockRequest] bedrockParse.run := by
  constructor
  · intro d q evs
    simp only [bedrockGetInfoImpl, Q.bind_apply, send_own, recv_own_data s w0 hs, parse, Q.lift, sendEvs,
      List.map_cons, List.map_nil, List.append_assoc, List.cons_append, List.nil_append]
  · intro q evs
    simp only [bedrockGetInfoImpl, Q.bind_apply, send_own, recv_own_silence s w0 hs, sendEvs,
      List.map_cons, List.map_nil, List.append_assoc, List.cons_append, List.nil_append]
  · intro evs
    simp only [bedrockGetInfoImpl, Q.bind_apply, send_own, recv_own_empty s w0 hs, sendEvs,
      List.map_cons, List.map_nil, List.append_assoc, List.cons_append, List.nil_append]
    by_cases ht : s.tcp = true <;> simp [ht, parse, Q.lift]

theorem behaves_legacy (g : LegacyGroup) (s : Sock) (w0 : Net) (hs : s.id = w0.conns.length) (rest : List ConnScript) :
    Behaves (legacyGetInfoImpl g s) s w0 rest [legacyRequest g] (fun d => (legacyParse g d.length).run d) := by
  constructor
  · intro d q evs
    simp only [legacyGetInfoImpl, Q.bind_apply, send_own, recv_own_data s w0 hs, parse, Q.lift, sendEvs,
      List.map_cons, List.map_nil, List.append_assoc, List.cons_append, List.nil_append]
  · intro q evs
    simp only [legacyGetInfoImpl, Q.bind_apply, send_own, recv_own_silence s w0 hs, sendEvs,
      List.map_cons, List.map_nil, List.append_assoc, List.cons_append, List.nil_append]
  · intro evs
    simp only [legacyGetInfoImpl, Q.bind_apply, send_own, recv_own_empty s w0 hs, sendEvs,
      List.map_cons, List.map_nil, List.append_assoc, List.cons_append, List.nil_append]
    by_cases ht : s.tcp = true <;> simp [ht, parse, Q.lift]

end Gd.Mc
