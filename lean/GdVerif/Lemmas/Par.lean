import GdVerif.Buffer
/-
  Helper lemmas: the zipper, the parser monad, the two program logics
  (`Decodes` for round trips, `Safe` for crash freedom).
-/
namespace Gd

/-! ### Zipper facts -/

namespace Buf

@[simp] theorem data_new (d : Bytes) : (Buf.new d).data = d := by simp [Buf.new, Buf.data]
@[simp] theorem pos_new (d : Bytes) : (Buf.new d).pos = 0 := rfl
@[simp] theorem rest_new (d : Bytes) : (Buf.new d).rest = d := rfl

theorem pos_le_len (b : Buf) : b.pos ≤ b.data.length := by
  simp [Buf.pos, Buf.data]

theorem data_length (b : Buf) : b.data.length = b.pos + b.remaining := by
  simp [Buf.pos, Buf.data, Buf.remaining]

/-- the bytes from the cursor on are `rest` -/
theorem drop_pos_data (b : Buf) : b.data.drop b.pos = b.rest := by
  simp [Buf.pos, Buf.data]

@[simp] theorem data_advance (b : Buf) (n : Nat) : (b.advance n).data = b.data := by
  simp [Buf.advance, Buf.data, List.reverse_append, List.append_assoc]

@[simp] theorem rest_advance (b : Buf) (n : Nat) : (b.advance n).rest = b.rest.drop n := rfl

theorem pos_advance (b : Buf) (n : Nat) (h : n ≤ b.rest.length) : (b.advance n).pos = b.pos + n := by
  simp [Buf.advance, Buf.pos, List.length_take, Nat.min_eq_left h]; omega

@[simp] theorem data_retreat (b : Buf) (n : Nat) : (b.retreat n).data = b.data := by
  simp only [Buf.retreat, Buf.data, List.reverse_append, List.reverse_reverse]
  rw [← List.append_assoc]
  congr 1
  rw [← List.reverse_append, List.take_append_drop]

theorem pos_retreat (b : Buf) (n : Nat) (h : n ≤ b.pre.length) : (b.retreat n).pos = b.pos - n := by
  simp [Buf.retreat, Buf.pos]

@[simp] theorem advance_zero (b : Buf) : b.advance 0 = b := by
  simp [Buf.advance]

theorem advance_append (b : Buf) (e post : Bytes) (h : b.rest = e ++ post) :
    (b.advance e.length).rest = post := by
  simp [h]

end Buf

/-! ### Monad facts -/

namespace Par

@[simp] theorem pure_apply (a : α) (b : Buf) : (pure a : Par α) b = .ok (a, b) := rfl

theorem bind_apply (p : Par α) (f : α → Par β) (b : Buf) :
    (p >>= f) b = match p b with
      | .ok (a, b') => f a b'
      | .err k => .err k
      | .crash => .crash := rfl

theorem bind_ok {p : Par α} {f : α → Par β} {b b' : Buf} {a : α} (h : p b = .ok (a, b')) :
    (p >>= f) b = f a b' := by
  rw [bind_apply, h]

theorem bind_err {p : Par α} {f : α → Par β} {b : Buf} {k : ErrKind} (h : p b = .err k) :
    (p >>= f) b = .err k := by
  rw [bind_apply, h]

@[simp] theorem fail_apply (k : ErrKind) (b : Buf) : (Par.fail k : Par α) b = .err k := rfl

end Par

/-! ### Decoding logic: `p` decodes the bytes `e` to `x` (and consumes exactly them) -/

def Decodes (p : Par α) (e : Bytes) (x : α) : Prop :=
  ∀ (b : Buf) (post : Bytes), b.rest = e ++ post →
    ∃ b', p b = .ok (x, b') ∧ b'.rest = post ∧ b'.data = b.data

theorem Decodes.pure (x : α) : Decodes (pure x : Par α) [] x := by
  intro b post h
  exact ⟨b, rfl, by simpa using h, rfl⟩

theorem Decodes.bind {p : Par α} {f : α → Par β} {e1 e2 : Bytes} {x : α} {y : β}
    (h1 : Decodes p e1 x) (h2 : Decodes (f x) e2 y) : Decodes (p >>= f) (e1 ++ e2) y := by
  intro b post h
  obtain ⟨b1, hp, hr1, hd1⟩ := h1 b (e2 ++ post) (by simpa [List.append_assoc] using h)
  obtain ⟨b2, hf, hr2, hd2⟩ := h2 b1 post hr1
  exact ⟨b2, by rw [Par.bind_ok hp, hf], hr2, by rw [hd2, hd1]⟩

/-- sequencing where the continuation ignores nothing: convenient form for `do` blocks -/
theorem Decodes.bind' {p : Par α} {f : α → Par β} {e e1 e2 : Bytes} {x : α} {y : β}
    (h1 : Decodes p e1 x) (h2 : Decodes (f x) e2 y) (he : e = e1 ++ e2) : Decodes (p >>= f) e y :=
  he ▸ Decodes.bind h1 h2

theorem Decodes.congr {p q : Par α} {e : Bytes} {x : α} (h : Decodes p e x) (hq : q = p) : Decodes q e x :=
  hq ▸ h

/-- on a whole packet: running from a fresh buffer yields the value -/
theorem Decodes.run {p : Par α} {e : Bytes} {x : α} (h : Decodes p e x) : p.run e = .ok x := by
  obtain ⟨b', hp, _, _⟩ := h (Buf.new e) [] (by simp)
  simp [Par.run, hp]

/-! ### Crash-freedom logic -/

/-- outcome is not a crash; a successful run stays on the same packet and does not move backwards
past... (we only need: same packet) -/
def Post (b : Buf) : Res (α × Buf) → Prop
  | .crash => False
  | .err _ => True
  | .ok (_, b') => b'.data = b.data

def Safe (p : Par α) : Prop := ∀ b, Post b (p b)

theorem Safe.pure (a : α) : Safe (pure a : Par α) := fun _ => rfl

theorem Safe.fail (k : ErrKind) : Safe (Par.fail k : Par α) := fun _ => trivial

theorem Post.bind {p : Par α} {f : α → Par β} {b : Buf} (hp : Post b (p b))
    (hf : ∀ a b1, p b = .ok (a, b1) → Post b1 (f a b1)) : Post b ((p >>= f) b) := by
  rw [Par.bind_apply]
  cases h : p b with
  | ok ab =>
    obtain ⟨a, b1⟩ := ab
    have h1 := hf a b1 h
    rw [h] at hp
    simp only [Post] at hp
    show Post b (f a b1)
    cases h2 : f a b1 with
    | ok cb => rw [h2] at h1; simp only [Post] at h1 ⊢; rw [h1, hp]
    | err k => trivial
    | crash => rw [h2] at h1; exact h1
  | err k => trivial
  | crash => rw [h] at hp; exact hp

theorem Safe.bind {p : Par α} {f : α → Par β} (hp : Safe p) (hf : ∀ a, Safe (f a)) : Safe (p >>= f) :=
  fun b => Post.bind (hp b) (fun a b1 _ => hf a b1)

theorem Safe.lift (r : Res α) (h : r.isCrash = false) : Safe (Par.lift r) := by
  intro b
  cases r <;> simp_all [Par.lift, Post, Res.isCrash]

theorem Safe.ite {c : Prop} [Decidable c] {p q : Par α} (hp : Safe p) (hq : Safe q) :
    Safe (if c then p else q) := by
  split <;> assumption

/-- a successful safe parser leaves `remaining` determined by how far it moved; we track
progress separately -/
def Progress (p : Par α) : Prop :=
  ∀ b a b', p b = .ok (a, b') → b'.remaining < b.remaining

def NoGrow (p : Par α) : Prop :=
  ∀ b a b', p b = .ok (a, b') → b'.remaining ≤ b.remaining

theorem safe_whileRemaining (body : σ → Par σ) (hs : ∀ st, Safe (body st)) (hp : ∀ st, Progress (body st)) :
    ∀ fuel st b, b.remaining < fuel → Post b (whileRemaining body fuel st b) := by
  intro fuel
  induction fuel with
  | zero => intro st b h; omega
  | succ n ih =>
    intro st b h
    simp only [whileRemaining]
    split
    · rfl
    · cases hb : body st b with
      | ok sb =>
        obtain ⟨st', b'⟩ := sb
        have h1 := hs st b
        rw [hb] at h1
        simp only [Post] at h1
        have h2 := hp st b st' b' hb
        have h3 := ih st' b' (by omega)
        show Post b (whileRemaining body n st' b')
        cases hw : whileRemaining body n st' b' with
        | ok x => rw [hw] at h3; simp only [Post] at h3 ⊢; rw [h3, h1]
        | err k => trivial
        | crash => rw [hw] at h3; exact h3
      | err k => trivial
      | crash =>
        have h1 := hs st b
        rw [hb] at h1
        exact h1

theorem safe_repeatN {item : Par α} (hs : Safe item) : ∀ n, Safe (repeatN item n) := by
  intro n
  induction n with
  | zero => exact Safe.pure _
  | succ n ih =>
    simp only [repeatN]
    exact Safe.bind hs fun _ => Safe.bind ih fun _ => Safe.pure _

end Gd
