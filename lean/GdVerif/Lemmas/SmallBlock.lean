import GdVerif.Lemmas.ValveSilent
import GdVerif.Lemmas.Gs3Block
import GdVerif.Proto.Ffow
import GdVerif.Proto.TheShip
import GdVerif.Proto.Battalion
import GdVerif.Proto.Jc2m
import GdVerif.Proto.Mindustry
import GdVerif.Proto.Savage2
/-
  Blocking steps of the small games' queries that can run into their timeout, and their silent
  servers.
-/
namespace Gd

/-! ### FFOW: one Valve-style request -/

theorem Ffow.block_query (ext : Valve.Ext) (port r : Nat) : Block r (r + 1) (Ffow.query ext port r) := by
  unfold Ffow.query Ffow.queryBody
  have h := Block.bind (Block.openSock false port) fun s =>
    Block.bind (Block.retrySharp (Valve.block_requestImpl ext s (.goldSrc true) 0 Ffow.KIND Ffow.lsq) r) fun d =>
      Block.parse Ffow.parseResponse d
  exact h.weaken (by omega) (by omega)

theorem Ffow.silent_query (ext : Valve.Ext) (port r : Nat) (w : Net) (hf : w.faults = [])
    (hp : PendingSilent false (r + 1) w.pending) :
    SilentOutcome w (Ffow.query ext port r w) (r + 1) (r + 1) := by
  unfold Ffow.query Ffow.queryBody
  exact SilentRun.openSock (fun s _ =>
    ((Valve.silent_requestImpl ext s (.goldSrc true) 0 Ffow.KIND Ffow.lsq).retry1 r).bind_left _) port w hf hp

/-! ### The Ship, Battalion 1944: the Valve query -/

theorem TheShip.block_query (ext : Valve.Ext) (port r : Nat) :
    Block (3 * r + 2) (3 * r + 2) (TheShip.query ext port r) := by
  unfold TheShip.query
  have h := Block.bind (Valve.block_query_sharp ext port TheShip.ENGINE Valve.Gather.default r) fun v =>
    Block.lift (TheShip.convert v)
  exact h.weaken (by omega) (by omega)

theorem silentOutcome_bind_left {q : Q α} {w : Net} {k b : Nat} (h : SilentOutcome w (q w) k b) (f : α → Q β) :
    SilentOutcome w ((q >>= f) w) k b := by
  have e : (q >>= f) w = (.err .packetReceive, (q w).2) := by
    rw [Q.bind_apply]
    have hr := h.result
    cases hqw : q w with
    | mk res w1 =>
      rw [hqw] at hr
      simp only at hr
      subst hr
      rfl
  rw [e]
  exact ⟨rfl, h.pending, h.faults, h.sends⟩

theorem TheShip.silent_query (ext : Valve.Ext) (port r : Nat) (w : Net) (hf : w.faults = [])
    (hp : PendingSilent false (r + 1) w.pending) :
    SilentOutcome w (TheShip.query ext port r w) (r + 1) (r + 1) := by
  unfold TheShip.query
  exact silentOutcome_bind_left (Valve.silent_query ext port TheShip.ENGINE Valve.Gather.default r w hf hp) _

theorem Battalion.block_query (ext : Valve.Ext) (port : Nat) : Block 2 2 (Battalion.query ext port) := by
  unfold Battalion.query
  have h := Block.bind (Valve.block_query_sharp ext port Battalion.ENGINE Valve.Gather.default 0) fun v =>
    Block.bind (Block.lift (Battalion.applyOverrides v)) fun v' => Block.pure (Games.gameView v')
  exact h.weaken (by omega) (by omega)

theorem Battalion.silent_query (ext : Valve.Ext) (port : Nat) (w : Net) (hf : w.faults = [])
    (hp : PendingSilent false 1 w.pending) :
    SilentOutcome w (Battalion.query ext port w) 1 1 := by
  unfold Battalion.query
  exact silentOutcome_bind_left (Valve.silent_query ext port Battalion.ENGINE Valve.Gather.default 0 w hf hp) _

/-! ### JC2M: the GameSpy 3 exchange, single-packet mode -/

theorem Jc2m.block_query (port : Option Nat) (r : Nat) : Block r (r + 1) (Jc2m.query port r) := by
  unfold Jc2m.query
  have h := Block.bind (Block.openSock false (port.getD Jc2m.DEFAULT_PORT)) fun s =>
    Block.bind (Gs3.block_getServerPackets s r Jc2m.PAYLOAD true) fun p => Block.lift (Jc2m.buildResponse p)
  exact h.weaken (by omega) (by omega)

theorem Jc2m.silent_query (port : Option Nat) (r : Nat) (w : Net) (hf : w.faults = [])
    (hp : PendingSilent false (r + 1) w.pending) :
    SilentOutcome w (Jc2m.query port r w) (r + 1) (r + 1) := by
  unfold Jc2m.query
  exact SilentRun.openSock (fun s _ => (Gs3.silent_getServerPackets s r _ _).bind_left _) _ w hf hp

/-! ### Mindustry: every attempt creates its own socket -/

/-- one attempt: socket creation, send, receive — the first that fails ends it -/
theorem Mindustry.block_attempt (port : Nat) : Block 0 1 (Mindustry.attempt port) := by
  unfold Mindustry.attempt
  have h := Block.bind (Block.openSock false port) fun s =>
    Block.bind (Block.send s Mindustry.ping) fun _ =>
      Block.bind (Block.recv s (some Mindustry.MAX_BUFFER_SIZE)) fun d =>
        Block.parse Mindustry.parseServerData d
  exact h.weaken (by omega) (by omega)

theorem Mindustry.block_query (port r : Nat) : Block r (r + 1) (Mindustry.query port r) :=
  Block.retrySharp (Mindustry.block_attempt port) r

theorem Mindustry.silent_attempt (port : Nat) (w : Net) (hf : w.faults = []) (hp : PendingSilent false 1 w.pending) :
    SilentOutcome w (Mindustry.attempt port w) 1 1 := by
  unfold Mindustry.attempt
  refine SilentRun.openSock (k := 1) (b := 1) (fun s _ => ?_) port w hf hp
  have h : SilentAttempt s 1 (send s Mindustry.ping >>= fun _ =>
      recv s (some Mindustry.MAX_BUFFER_SIZE) >>= fun d => parse Mindustry.parseServerData d) :=
    SilentAttempt.seq (k2 := 0) (SilentSends.send s _) fun _ => (SilentAttempt.recv s _).bind_left _
  exact fun w n hw => h w n hw

/-- `r + 1` silent peers, one per attempt: `r + 1` sockets, pings and timeouts -/
theorem Mindustry.silent_query (port : Nat) : ∀ (r : Nat) (w : Net), w.faults = [] →
    AllSilent 1 (List.replicate (r + 1) false) w.pending →
    SilentOutcomeN w (Mindustry.query port r w) .packetReceive (r + 1) (r + 1) (r + 1) := by
  intro r
  induction r with
  | zero =>
    intro w hf hp
    exact (Mindustry.silent_attempt port w hf hp.1).toN
  | succ r ih =>
    intro w hf hp
    have o1 := Mindustry.silent_attempt port w hf hp.1
    have o2 := ih (Mindustry.attempt port w).2 o1.faults (by rw [o1.pending]; exact hp.2)
    have e : Mindustry.query port (r + 1) w = Mindustry.query port r (Mindustry.attempt port w).2 := by
      have hr := o1.result
      simp only [Mindustry.query, retryOnTimeout]
      cases hqw : Mindustry.attempt port w with
      | mk res w1 =>
        rw [hqw] at hr
        simp only at hr
        subst hr
        rfl
    rw [e]
    have h := o1.toN.append o2
    have e1 : 1 + (r + 1) = r + 1 + 1 := by omega
    rw [e1] at h
    exact h

/-! ### Savage 2: one exchange, never retried -/

theorem Savage2.block_query (port : Nat) : Block 0 1 (Savage2.query port) := by
  unfold Savage2.query
  have h := Block.bind (Block.openSock false port) fun s =>
    Block.bind (Block.send s Savage2.request) fun _ =>
      Block.bind (Block.recv s none) fun d => Block.parse Savage2.parseResponse d
  exact h.weaken (by omega) (by omega)

theorem Savage2.silent_query (port : Nat) (w : Net) (hf : w.faults = []) (hp : PendingSilent false 1 w.pending) :
    SilentOutcome w (Savage2.query port w) 1 1 := by
  unfold Savage2.query
  refine SilentRun.openSock (k := 1) (b := 1) (fun s _ => ?_) port w hf hp
  have h : SilentAttempt s 1 (send s Savage2.request >>= fun _ =>
      recv s none >>= fun d => parse Savage2.parseResponse d) :=
    SilentAttempt.seq (k2 := 0) (SilentSends.send s _) fun _ => (SilentAttempt.recv s _).bind_left _
  exact fun w n hw => h w n hw

end Gd
