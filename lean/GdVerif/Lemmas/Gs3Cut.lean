import GdVerif.Lemmas.Gs3Extra
/-
  GameSpy 3: packets that end inside a value list (`Spec.ConfigC`).  A section without its closing empty
  value at the END of the buffer it is read from does to the tables what the closed section does; hence
  the tables, players, teams and the whole response of a reply whose packets end inside value lists are
  those of the reply with every list closed.
-/
namespace Gd.Gs3
open Gd Gd.Gs3.Spec

/-! ### decoding the whole rest of a buffer -/

/-- `p` decodes ALL that is left of the buffer, `e`, to `x` -/
def DecodesAll (p : Par α) (e : Bytes) (x : α) : Prop :=
  ∀ (b : Buf), b.rest = e → ∃ b', p b = .ok (x, b') ∧ b'.rest = []

theorem DecodesAll.bind {p : Par α} {f : α → Par β} {e e1 e2 : Bytes} {x : α} {y : β}
    (h1 : Decodes p e1 x) (h2 : DecodesAll (f x) e2 y) (he : e = e1 ++ e2) : DecodesAll (p >>= f) e y := by
  subst he
  intro b hr
  obtain ⟨b1, hp, hr1, _⟩ := h1 b e2 hr
  obtain ⟨b2, hf, hr2⟩ := h2 b1 hr1
  exact ⟨b2, by rw [Par.bind_ok hp, hf], hr2⟩

theorem DecodesAll.bind_pure {p : Par α} {f : α → Par β} {e : Bytes} {x : α} {y : β}
    (h1 : DecodesAll p e x) (h2 : ∀ b, f x b = .ok (y, b)) : DecodesAll (p >>= f) e y := by
  intro b hr
  obtain ⟨b1, hp, hr1⟩ := h1 b hr
  exact ⟨b1, by rw [Par.bind_ok hp, h2], hr1⟩

/-- a loop with `break` at the end of the buffer: it is over -/
theorem loopBrk_stop (body : σ → Par (σ × Bool)) (st : σ) (fuel : Nat) (b : Buf) (h : b.rest = []) :
    loopBrk body (fuel + 1) st b = .ok (st, b) := by
  have h0 : (b.remaining == 0) = true := by simp [Buf.remaining, h]
  simp only [loopBrk, h0, ↓reduceIte]

/-- the values of a section without the closing empty value -/
def encOpenValues (vals : List Bytes) : Bytes := (vals.map cstr).flatten

theorem encValues_open (vals : List Bytes) : encValues vals = encOpenValues vals ++ [0] := rfl

/-! ### the values of a typed section, to the end of the buffer -/

theorem itemsLoop_open (name : Bytes) (vals : List Bytes) (h : ∀ v ∈ vals, okItem v = true) :
    ∀ (data : List Vars) (off fuel : Nat), vals.length < fuel →
      DecodesAll (loopBrk (itemStep name) fuel (data, off)) (encOpenValues vals)
        (putAll name data off vals, off + vals.length) := by
  induction vals with
  | nil =>
    intro data off fuel hf b hr
    cases fuel with
    | zero => omega
    | succ fuel =>
      simp only [encOpenValues, List.map_nil, List.flatten_nil] at hr
      exact ⟨b, by simpa [putAll] using loopBrk_stop (itemStep name) (data, off) fuel b hr, hr⟩
  | cons v r ih =>
    intro data off fuel hf b hr
    cases fuel with
    | zero => omega
    | succ fuel =>
      simp only [encOpenValues, List.map_cons, List.flatten_cons] at hr
      obtain ⟨b1, hb1, hr1, _⟩ := loopBrk_continue (itemStep_value name data off v (h v (by simp))) (by simp [cstr])
        fuel b ((r.map cstr).flatten) hr
      obtain ⟨b2, hb2, hr2⟩ := ih (fun x hx => h x (by simp [hx])) (put data off name v) (off + 1) fuel
        (by simp at hf; omega) b1 hr1
      refine ⟨b2, ?_, hr2⟩
      rw [hb1, hb2]
      simp only [putAll, List.length_cons]
      congr 3
      omega

theorem readItems_open (name : Bytes) (vals : List Bytes) (h : ∀ v ∈ vals, okItem v = true)
    (data : List Vars) (off : Nat) :
    DecodesAll (readItems name data off) (encOpenValues vals) (putAll name data off vals) := by
  intro b hr
  unfold readItems
  have hrem : remainingLength b = .ok (b.remaining, b) := rfl
  rw [Par.bind_ok hrem]
  have hlen : vals.length < b.remaining + 1 := by
    have : vals.length ≤ ((vals.map cstr).flatten).length :=
      length_le_flatten vals cstr (fun p => by simp [cstr])
    simp only [Buf.remaining, hr, encOpenValues]; omega
  obtain ⟨b1, hb1, hr1⟩ := itemsLoop_open name vals h data off _ hlen b hr
  exact ⟨b1, by rw [Par.bind_ok hb1]; rfl, hr1⟩

theorem readField_open (t : Tables) (name : Bytes) (team : Bool) (off : Nat) (hoff : off < 256)
    (vals : List Bytes) (h : ∀ v ∈ vals, okItem v = true) :
    DecodesAll (readField t [name, if team then [0x74] else []] name) ([UInt8.ofNat off] ++ encOpenValues vals)
      (applyValues t team name off vals) := by
  unfold readField
  have hteam : fieldIsTeam [name, if team then [0x74] else []] = .ok team := by
    cases team
    · rfl
    · have : asciiBytes "t" = [0x74] := by decide
      simp [fieldIsTeam, this]
  rw [hteam]
  refine DecodesAll.bind (e1 := []) (e2 := [UInt8.ofNat off] ++ encOpenValues vals) (Decodes.lift_ok _) ?_ rfl
  refine DecodesAll.bind (decodes_u8 off hoff) ?_ rfl
  cases team
  · simp only [Bool.false_eq_true, ↓reduceIte, applyValues]
    exact DecodesAll.bind_pure (readItems_open name vals h _ _) (fun _ => rfl)
  · simp only [↓reduceIte, applyValues]
    exact DecodesAll.bind_pure (readItems_open name vals h _ _) (fun _ => rfl)

/-- a slice on the wire without its marker bytes and without the closing empty value -/
def encOpenBody (st : State) (sl : Slice) : Bytes :=
  cstr (fieldId sl) ++ ([UInt8.ofNat sl.offset] ++ encOpenValues (sliceValues st sl))

/-- from the field id on, a typed section that ends with the buffer does what the closed one does -/
theorem readSection_open (st : State) (t : Tables) (sl : Slice) (h : SliceOk st sl) :
    DecodesAll (readSection t) (encOpenBody st sl) (applySlice st t sl) := by
  obtain ⟨h0, hv, hsplit, hk, hoff, _, x, r, hxr, _⟩ := fieldId_facts st sl h
  unfold readSection encOpenBody
  refine DecodesAll.bind (decodes_readCStr _ h0 hv) ?_ rfl
  have hne : (fieldId sl).isEmpty = false := by rw [hxr]; rfl
  simp only [hne, Bool.false_eq_true, ↓reduceIte, hsplit, afterName, List.head?_cons, hk, Bool.not_true]
  exact readField_open t sl.field sl.team sl.offset hoff _ h.2

/-! ### the values of a skipped section, to the end of the buffer -/

theorem skipLoop_open (vals : List Bytes) (h : ∀ v ∈ vals, okItem v = true) :
    ∀ (fuel : Nat), vals.length < fuel → DecodesAll (loopBrk skipStep fuel ()) (encOpenValues vals) () := by
  induction vals with
  | nil =>
    intro fuel hf b hr
    cases fuel with
    | zero => omega
    | succ fuel =>
      simp only [encOpenValues, List.map_nil, List.flatten_nil] at hr
      exact ⟨b, loopBrk_stop skipStep () fuel b hr, hr⟩
  | cons v r ih =>
    intro fuel hf b hr
    cases fuel with
    | zero => omega
    | succ fuel =>
      simp only [encOpenValues, List.map_cons, List.flatten_cons] at hr
      obtain ⟨b1, hb1, hr1, _⟩ := loopBrk_continue (skipStep_value v (h v (by simp))) (by simp [cstr]) fuel b
        ((r.map cstr).flatten) hr
      obtain ⟨b2, hb2, hr2⟩ := ih (fun x hx => h x (by simp [hx])) fuel (by simp at hf; omega) b1 hr1
      exact ⟨b2, by rw [hb1, hb2], hr2⟩

theorem skipField_open (off : Nat) (hoff : off < 256) (vals : List Bytes) (h : ∀ v ∈ vals, okItem v = true) :
    DecodesAll skipField ([UInt8.ofNat off] ++ encOpenValues vals) () := by
  unfold skipField
  refine DecodesAll.bind (decodes_u8 off hoff) ?_ rfl
  intro b hr
  have hrem : remainingLength b = .ok (b.remaining, b) := rfl
  rw [Par.bind_ok hrem]
  have hlen : vals.length < b.remaining + 1 := by
    have : vals.length ≤ ((vals.map cstr).flatten).length :=
      length_le_flatten vals cstr (fun p => by simp [cstr])
    simp only [Buf.remaining, hr, encOpenValues]; omega
  exact skipLoop_open vals h _ hlen b hr

def encOpenExtraBody (e : Extra) : Bytes := cstr e.name ++ ([UInt8.ofNat e.offset] ++ encOpenValues e.values)

/-- from the field id on, an extra section that ends with the buffer is consumed and leaves the tables -/
theorem readSection_open_extra (t : Tables) (e : Extra) (h : wfExtra e = true) :
    DecodesAll (readSection t) (encOpenExtraBody e) t := by
  obtain ⟨_, h0, hv, ⟨x, r, hxr, _⟩, hk, hoff, hvals⟩ := wfExtra_facts e h
  unfold readSection encOpenExtraBody
  refine DecodesAll.bind (decodes_readCStr _ h0 hv) ?_ rfl
  have hne : e.name.isEmpty = false := by rw [hxr]; rfl
  have hk' : knownFields.contains (List.takeWhile (fun x => x != 0x5F) e.name) = false := hk
  simp only [hne, Bool.false_eq_true, ↓reduceIte, afterName, head_splitOn, hk', Bool.not_false]
  exact DecodesAll.bind_pure (skipField_open e.offset hoff e.values hvals) (fun _ => rfl)

/-! ### the last round of a packet that ends inside a value list -/

theorem round_of_decodesAll (ms body : Bytes) (hm : ∀ m ∈ ms, m.toNat < 3) (x : UInt8) (xr : Bytes)
    (hbody : body = x :: xr) (hx : ¬ x.toNat < 3) (t t' : Tables) (hd : DecodesAll (readSection t) body t')
    (b : Buf) (fuel : Nat) (hr : b.rest = ms ++ body) (hf : b.remaining < fuel) :
    ∃ b', whileRemaining sectionStep fuel t b = .ok (t', b') := by
  obtain ⟨b1, fuel1, heq1, hr1, hf1⟩ := markers_skip ms hm t b fuel body hr hf
  have hhead : b1.rest = x :: xr := by rw [hr1, hbody]
  have hlen1 : b1.remaining = xr.length + 1 := by simp [Buf.remaining, hhead]
  cases fuel1 with
  | zero => omega
  | succ fuel1 =>
    have hne : (b1.remaining == 0) = false := by simp [hlen1]
    obtain ⟨b2, hb2, hr2⟩ := hd b1 hr1
    have hstep : sectionStep t b1 = .ok (t', b2) := by
      rw [sectionStep_cons t b1 x _ hhead]
      simp only [hx, ↓reduceIte]
      exact hb2
    cases fuel1 with
    | zero => omega
    | succ fuel2 =>
      have h0 : (b2.remaining == 0) = true := by simp [Buf.remaining, hr2]
      refine ⟨b2, ?_⟩
      rw [heq1]
      simp only [whileRemaining, hne, Bool.false_eq_true, ↓reduceIte, hstep, h0]

theorem encOpen_slice (st : State) (sl : Slice) : encOpen st (.slice sl) = sl.markers ++ encOpenBody st sl := by
  simp [encOpen, encOpenBody, encOpenValues, List.append_assoc]

theorem encOpen_extra (st : State) (e : Extra) : encOpen st (.extra e) = e.markers ++ encOpenExtraBody e := by
  simp [encOpen, encOpenExtraBody, encOpenValues, List.append_assoc]

/-- THE CORE: a section without its closing empty value, at the end of the buffer, does to the tables
what the closed section does, and the section loop is over -/
theorem open_round (st : State) (s : Section) (hs : SectionOk st s) (t : Tables) (b : Buf) (fuel : Nat)
    (hr : b.rest = encOpen st s) (hf : b.remaining < fuel) :
    ∃ b', whileRemaining sectionStep fuel t b = .ok (applySection st t s, b') := by
  cases s with
  | slice sl =>
    obtain ⟨_, _, _, _, _, hm, x, xr, hxr, hx⟩ := fieldId_facts st sl hs
    refine round_of_decodesAll sl.markers (encOpenBody st sl) hm x
      (xr ++ [0] ++ ([UInt8.ofNat sl.offset] ++ encOpenValues (sliceValues st sl))) ?_ hx t _
      (readSection_open st t sl hs) b fuel ?_ hf
    · simp [encOpenBody, cstr, hxr, List.append_assoc]
    · rw [hr, encOpen_slice]
  | extra e =>
    obtain ⟨hm, _, _, ⟨x, xr, hxr, hx⟩, _⟩ := wfExtra_facts e hs
    refine round_of_decodesAll e.markers (encOpenExtraBody e) hm x
      (xr ++ [0] ++ ([UInt8.ofNat e.offset] ++ encOpenValues e.values)) ?_ hx t _
      (readSection_open_extra t e hs) b fuel ?_ hf
    · simp [encOpenExtraBody, cstr, hxr, List.append_assoc]
    · rw [hr, encOpen_extra]

/-! ### all sections of a packet, of all packets -/

theorem sectionsCut_run (st : State) : ∀ (ss : List Section), (∀ s ∈ ss, SectionOk st s) → ∀ (t : Tables) (b : Buf) (fuel : Nat),
    b.rest = encSectionsCut st ss → b.remaining < fuel →
    ∃ b', whileRemaining sectionStep fuel t b = .ok (ss.foldl (applySection st) t, b') := by
  intro ss
  induction ss with
  | nil =>
    intro _ t b fuel hr hf
    cases fuel with
    | zero => omega
    | succ fuel =>
      have : (b.remaining == 0) = true := by simp [Buf.remaining, hr, encSectionsCut]
      exact ⟨b, by simp [whileRemaining, this]⟩
  | cons s r ih =>
    intro hok t b fuel hr hf
    cases r with
    | nil =>
      simp only [encSectionsCut] at hr
      obtain ⟨b1, hb1⟩ := open_round st s (hok s (by simp)) t b fuel hr hf
      exact ⟨b1, by rw [hb1]; rfl⟩
    | cons s' r' =>
      simp only [encSectionsCut] at hr
      obtain ⟨b1, fuel1, heq, hr1, hf1⟩ := section_round st s (hok s (by simp)) t b fuel (encSectionsCut st (s' :: r')) hr hf
      obtain ⟨b2, hb2⟩ := ih (fun x hx => hok x (by simp [hx])) (applySection st t s) b1 fuel1 hr1 hf1
      exact ⟨b2, by rw [heq, hb2]; rfl⟩

/-- the sections of one packet, whether it closes its last value list or ends inside it -/
theorem readSectionsC_run (st : State) (cut : Bool) (ss : List Section) (h : ∀ s ∈ ss, SectionOk st s) (t : Tables) :
    (readSections t).run (encPacketSections st cut ss) = .ok ((slicesOf ss).foldl (applySlice st) t) := by
  cases cut with
  | false => exact readSectionsX_run st ss h t
  | true =>
    simp only [encPacketSections, ↓reduceIte]
    unfold Par.run readSections
    have hrem : remainingLength (Buf.new (encSectionsCut st ss)) = .ok ((encSectionsCut st ss).length, Buf.new (encSectionsCut st ss)) := rfl
    rw [Par.bind_ok hrem]
    obtain ⟨b', hb'⟩ := sectionsCut_run st ss h t (Buf.new (encSectionsCut st ss)) ((encSectionsCut st ss).length + 1) rfl
      (by simp [Buf.remaining])
    rw [hb', foldl_applySection]

/-- a packet that ends inside a value list is read like the packet with the list closed -/
theorem readSections_cut_eq_closed (st : State) (ss : List Section) (h : ∀ s ∈ ss, SectionOk st s) (t : Tables) :
    (readSections t).run (encSectionsCut st ss) = (readSections t).run (encSections st ss) := by
  have h1 := readSectionsC_run st true ss h t
  have h2 := readSectionsC_run st false ss h t
  simp only [encPacketSections, ↓reduceIte, Bool.false_eq_true] at h1 h2
  rw [h1, h2]

theorem readAllSectionsC_run (st : State) (cut : List Bool) : ∀ (layout : List (List Section)) (i : Nat),
    (∀ s ∈ layout.flatten, SectionOk st s) →
    ∀ (t : Tables), readAllSections t (sectionBytesFrom st cut i layout) = .ok ((slicesOf layout.flatten).foldl (applySlice st) t) := by
  intro layout
  induction layout with
  | nil => intro _ _ t; rfl
  | cons ss r ih =>
    intro i h t
    simp only [sectionBytesFrom, readAllSections, List.flatten_cons, slicesOf_append, List.foldl_append]
    rw [readSectionsC_run st _ ss (fun s hs => h s (by simp [hs])) t]
    exact ih (i + 1) (fun s hs => h s (by simp only [List.flatten_cons, List.mem_append]; exact Or.inr hs)) _

/-! ### the domain `wfC` -/

theorem wfC_parts (cfg : ConfigC) (st : State) (h : wfC cfg st = true) :
    wfVars st = true ∧ st.players.all wfPlayer = true ∧ st.teams.all wfTeam = true ∧ st.players.length < 2 ^ 32
    ∧ (st.pids.all fun l => l.length == st.players.length && l.all okItem) = true
    ∧ cfg.layout.flatten.all (wfSection st) = true ∧ covered st (slicesOf cfg.layout.flatten) = true
    ∧ cfg.layout.isEmpty = false ∧ (cfg.layout.drop 1).all (fun ss => !ss.isEmpty) = true ∧ cfg.layout.length ≤ 128
    ∧ -(2 ^ 31 : Int) ≤ cfg.challenge ∧ cfg.challenge < 2 ^ 31
    ∧ (dataPacketsC cfg st).all (fun d => d.length ≤ PACKET_SIZE) = true := by
  simp only [wfC, Bool.and_eq_true, decide_eq_true_eq, Bool.not_eq_true'] at h
  obtain ⟨h, h13⟩ := h
  obtain ⟨h, h12⟩ := h
  obtain ⟨h, h11⟩ := h
  obtain ⟨h, h10⟩ := h
  obtain ⟨h, h9⟩ := h
  obtain ⟨h, h8⟩ := h
  obtain ⟨h, h7⟩ := h
  obtain ⟨h, h6⟩ := h
  obtain ⟨h, h5⟩ := h
  obtain ⟨h, h4⟩ := h
  obtain ⟨h, h3⟩ := h
  obtain ⟨h1, h2⟩ := h
  exact ⟨h1, h2, h3, h4, h5, h6, h7, h8, h9, h10, h11, h12, h13⟩

/-- the reply without its extra sections and with every list closed has a well-formed layout -/
theorem wfC_layout (cfg : ConfigC) (st : State) (h : wfC cfg st = true) : LayoutOk cfg.closed.base st := by
  obtain ⟨_, hp, ht, _, hpid, hsec, hcov, _⟩ := wfC_parts cfg st h
  have hflat : cfg.closed.base.layout.flatten = slicesOf cfg.layout.flatten := flatten_map_slicesOf cfg.layout
  refine ⟨?_, by rw [hflat]; exact hcov, fun p hp' => List.all_eq_true.mp hp p hp',
    fun t ht' => List.all_eq_true.mp ht t ht', ?_⟩
  · intro sl hsl
    rw [hflat, mem_slicesOf] at hsl
    exact List.all_eq_true.mp hsec _ hsl
  · intro l hl
    rw [hl] at hpid
    simp only [Option.all_some, Bool.and_eq_true, beq_iff_eq] at hpid
    exact ⟨hpid.1, fun v hv => List.all_eq_true.mp hpid.2 v hv⟩

theorem wfC_sections (cfg : ConfigC) (st : State) (h : wfC cfg st = true) : ∀ s ∈ cfg.layout.flatten, SectionOk st s := by
  have hl := wfC_layout cfg st h
  obtain ⟨_, _, _, _, _, hsec, _⟩ := wfC_parts cfg st h
  intro s hs
  cases s with
  | slice sl =>
    refine slice_values_ok cfg.closed.base st hl sl ?_
    have hflat : cfg.closed.base.layout.flatten = slicesOf cfg.layout.flatten := flatten_map_slicesOf cfg.layout
    rw [hflat, mem_slicesOf]
    exact hs
  | extra e => exact List.all_eq_true.mp hsec _ hs

/-- the field sections of all packets, some of them ending inside a value list, give back the players
and the teams -/
theorem parsePlayersAndTeamsC_spec (cfg : ConfigC) (st : State) (h : wfC cfg st = true) :
    parsePlayersAndTeams (sectionBytesFrom st cfg.cut 0 cfg.layout) = .ok (st.players, st.teams) := by
  refine parsePlayersAndTeams_of_run cfg.closed.base st (wfC_layout cfg st h) _ ?_
  rw [readAllSectionsC_run st cfg.cut cfg.layout 0 (wfC_sections cfg st h) Tables.init]
  have hflat : cfg.closed.base.layout.flatten = slicesOf cfg.layout.flatten := flatten_map_slicesOf cfg.layout
  rw [hflat]

theorem wfC_vars (cfg : ConfigC) (st : State) (h : wfC cfg st = true) : VarsOk st := by
  obtain ⟨hv, _, _, hlisted, _⟩ := wfC_parts cfg st h
  exact varsOk_of st hv hlisted

theorem sectionBytesFrom_length (st : State) (cut : List Bool) : ∀ (layout : List (List Section)) (i : Nat),
    (sectionBytesFrom st cut i layout).length = layout.length := by
  intro layout
  induction layout with
  | nil => intro i; rfl
  | cons ss r ih => intro i; simp [sectionBytesFrom, ih]

theorem buildResponseC_spec (cfg : ConfigC) (st : State) (h : wfC cfg st = true) :
    buildResponse (payloadsC cfg st) = .ok (expected st) := by
  have hv := wfC_vars cfg st h
  have hp := parsePlayersAndTeamsC_spec cfg st h
  unfold buildResponse payloadsC
  cases hsb : sectionBytesFrom st cfg.cut 0 cfg.layout with
  | nil =>
    obtain ⟨_, _, _, _, _, _, _, hne, _⟩ := wfC_parts cfg st h
    have hl := sectionBytesFrom_length st cfg.cut cfg.layout 0
    rw [hsb] at hl
    cases hlay : cfg.layout with
    | nil => rw [hlay] at hne; cases hne
    | cons a r => rw [hlay] at hl; simp at hl
  | cons first rest =>
    rw [hsb] at hp
    simp only [List.head?_cons, okOr, Res.bind_ok, dataToMap_encVars st.vars hv.items hv.distinct,
      List.drop_succ_cons, List.drop_zero]
    rw [hp]
    exact fields_spec st hv

theorem buildVarsC_spec (cfg : ConfigC) (st : State) (h : wfC cfg st = true) :
    buildVars (payloadsC cfg st) = .ok st.vars := by
  have hv := wfC_vars cfg st h
  unfold buildVars payloadsC
  cases hsb : sectionBytesFrom st cfg.cut 0 cfg.layout with
  | nil =>
    have := dataToMap_encVars st.vars hv.items hv.distinct []
    simp only [List.append_nil] at this
    simp [okOr, this]
  | cons first rest =>
    simp [okOr, dataToMap_encVars st.vars hv.items hv.distinct]

/-! ### the wire -/

theorem payloadsC_ne_nil (cfg : ConfigC) (st : State) : payloadsC cfg st ≠ [] := by
  unfold payloadsC; split <;> simp

theorem payloadsC_length (cfg : ConfigC) (st : State) (hne : cfg.layout.isEmpty = false) :
    (payloadsC cfg st).length = cfg.layout.length := by
  have hl := sectionBytesFrom_length st cfg.cut cfg.layout 0
  unfold payloadsC
  cases hsb : sectionBytesFrom st cfg.cut 0 cfg.layout with
  | nil =>
    rw [hsb] at hl
    cases hlay : cfg.layout with
    | nil => rw [hlay] at hne; cases hne
    | cons a r => rw [hlay] at hl; simp at hl
  | cons first rest => rw [hsb] at hl; simpa using hl

theorem encOpen_ne_nil (st : State) (s : Section) : encOpen st s ≠ [] := by
  cases s <;> simp [encOpen, cstr]

theorem encPacketSections_ne_nil (st : State) (cut : Bool) (ss : List Section) (h : ss ≠ []) :
    encPacketSections st cut ss ≠ [] := by
  cases ss with
  | nil => exact absurd rfl h
  | cons s r =>
    cases cut with
    | false =>
      simp only [encPacketSections, Bool.false_eq_true, ↓reduceIte, encSections, List.map_cons, List.flatten_cons, ne_eq,
        List.append_eq_nil_iff, not_and]
      intro h0
      exact absurd h0 (encSection_ne_nil st s)
    | true =>
      simp only [encPacketSections, ↓reduceIte]
      cases r with
      | nil => simpa [encSectionsCut] using encOpen_ne_nil st s
      | cons s' r' =>
        simp only [encSectionsCut, ne_eq, List.append_eq_nil_iff, not_and]
        intro h0
        exact absurd h0 (encSection_ne_nil st s)

theorem mem_sectionBytesFrom (st : State) (cut : List Bool) : ∀ (layout : List (List Section)) (i : Nat) (p : Bytes),
    p ∈ sectionBytesFrom st cut i layout → ∃ c ss, ss ∈ layout ∧ p = encPacketSections st c ss := by
  intro layout
  induction layout with
  | nil => intro i p hp; simp [sectionBytesFrom] at hp
  | cons ss r ih =>
    intro i p hp
    simp only [sectionBytesFrom, List.mem_cons] at hp
    rcases hp with rfl | hp
    · exact ⟨_, ss, by simp, rfl⟩
    · obtain ⟨c, ss', hss', hp'⟩ := ih (i + 1) p hp
      exact ⟨c, ss', by simp [hss'], hp'⟩

theorem wfC_wire (cfg : ConfigC) (st : State) (h : wfC cfg st = true) :
    (payloadsC cfg st).length ≤ 128 ∧ (∀ p ∈ payloadsC cfg st, p ≠ []) ∧ (∀ d ∈ dataPacketsC cfg st, d.length ≤ PACKET_SIZE)
    ∧ -(2 ^ 31 : Int) ≤ cfg.challenge ∧ cfg.challenge < 2 ^ 31 := by
  obtain ⟨_, _, _, _, _, _, _, hne, hrest, hlen, hlo, hhi, hsize⟩ := wfC_parts cfg st h
  refine ⟨by rw [payloadsC_length cfg st hne]; exact hlen, ?_, fun d hd => by simpa using List.all_eq_true.mp hsize d hd, hlo, hhi⟩
  unfold payloadsC
  cases hl : cfg.layout with
  | nil => rw [hl] at hne; cases hne
  | cons first rest =>
    rw [hl] at hrest
    simp only [List.drop_succ_cons, List.drop_zero, List.all_eq_true, Bool.not_eq_true', List.isEmpty_eq_false_iff] at hrest
    simp only [sectionBytesFrom]
    intro p hp
    rcases List.mem_cons.mp hp with rfl | hp
    · simp [encVars]
    · obtain ⟨c, ss, hss, rfl⟩ := mem_sectionBytesFrom st cfg.cut rest _ p hp
      exact encPacketSections_ne_nil st c ss (hrest ss hss)

/-- The whole exchange against the SPEC's server whose packets may end inside value lists: `post` is
applied to the payloads, the client has sent exactly the two requests. -/
theorem exchangeC_spec (cfg : ConfigC) (st : State) (h : wfC cfg st = true) (port r : Nat) {α : Type}
    (post : List Bytes → Res α) (arrival : List Bytes) (harr : arrival.Perm (dataPacketsC cfg st)) :
    (exchange port r DEFAULT_PAYLOAD false post
        (Net.init [.opened ((handshakeReply cfg.challenge :: arrival).map .data)] [])).1 = post (payloadsC cfg st)
    ∧ sentOf (exchange port r DEFAULT_PAYLOAD false post
        (Net.init [.opened ((handshakeReply cfg.challenge :: arrival).map .data)] [])).2.log = requestsC cfg := by
  obtain ⟨hcount, hpay, hsize, hlo, hhi⟩ := wfC_wire cfg st h
  exact exchange_wire cfg.challenge hlo hhi cfg.unknown (payloadsC cfg st) (payloadsC_ne_nil cfg st) hcount hpay hsize
    port r post arrival harr

/-! ### `wfC` extends `wfX`: a reply that closes every value list -/

theorem sectionBytesFrom_nil (st : State) : ∀ (layout : List (List Section)) (i : Nat),
    sectionBytesFrom st [] i layout = layout.map (encSections st) := by
  intro layout
  induction layout with
  | nil => intro i; rfl
  | cons ss r ih => intro i; simp [sectionBytesFrom, encPacketSections, ih]

theorem payloadsC_toC (cfg : ConfigX) (st : State) : payloadsC cfg.toC st = payloadsX cfg st := by
  unfold payloadsC payloadsX ConfigX.toC
  simp only [sectionBytesFrom_nil]
  cases cfg.layout with
  | nil => rfl
  | cons first rest => rfl

theorem wfC_toC (cfg : ConfigX) (st : State) : wfC cfg.toC st = wfX cfg st := by
  have hdp : dataPacketsC cfg.toC st = dataPacketsX cfg st := by
    simp only [dataPacketsC, dataPacketsX, payloadsC_toC]
    rfl
  unfold wfC wfX
  rw [hdp]
  rfl

end Gd.Gs3
