import GdVerif.Lemmas.Ffow
import GdVerif.Lemmas.ValveFaults
/-
  The whole Frontlines: Fuel of War query with faults injected (C10 end to end).  The retried unit is Valve's
  `get_request_data_impl` for the `LSQ` request (kind 0x46); the SPEC's server answers with one datagram and issues no
  challenge, so a plan is a one-exchange plan (`Faults.Plan1`).
-/
namespace Gd.Ffow
open Gd Gd.Valve Gd.Ffow.Spec Gd.Faults

/-- the request on the wire -/
def lsqBytes : Bytes := packetBytes KIND lsq

theorem lsqBytes_eq : lsqBytes = lsqRequest := by decide

/-- one failed attempt: the reply is lost / the request cannot be sent -/
theorem steps_fail (ext : Ext) (s : Sock) (hudp : s.tcp = false) (f : Bool) (q : List Delivery) (fs : List Bool)
    (sn : List (Bytes × Bool)) :
    Steps s (requestImpl ext s (.goldSrc true) 0 KIND lsq) (.err (attemptError f))
      ⟨(if f then [] else [Delivery.silence]) ++ q, [f] ++ fs, sn⟩ ⟨q, fs, sn ++ [(lsqBytes, f)]⟩ := by
  cases f with
  | false =>
    have h := steps_requestImpl_recv ext s hudp (.goldSrc true) 0 KIND lsq (.err .packetReceive)
      (fun p hp => by cases hp) [.silence] q (by simp)
      (fun fs sn => steps_receive_silence ext s (.goldSrc true) 0 q fs sn) [] (fun x hx => by cases hx) fs sn
    simpa [challengeDeliveries, attemptError, lsqBytes] using h
  | true =>
    have h := steps_requestImpl_sendFault ext s hudp (.goldSrc true) 0 KIND lsq q [] (fun x hx => by cases hx) fs sn
    simpa [challengeDeliveries, attemptError, lsqBytes, flagLast] using h

/-- the attempt that receives the datagram `d`, on which `receive` ends with `R` (no challenge) -/
theorem steps_answer (ext : Ext) (s : Sock) (hudp : s.tcp = false) (d : Bytes) (R : Res Packet)
    (hR : ∀ p, R = .ok p → p.kind ≠ 0x41) (q : List Delivery)
    (hfinal : ∀ fs sn, Steps s (receive ext s (.goldSrc true) 0) R ⟨[.data d] ++ q, fs, sn⟩ ⟨q, fs, sn⟩)
    (fs : List Bool) (sn : List (Bytes × Bool)) :
    Steps s (requestImpl ext s (.goldSrc true) 0 KIND lsq) (R >>= fun p => .ok p.payload)
      ⟨[.data d] ++ q, [false] ++ fs, sn⟩ ⟨q, fs, sn ++ [(lsqBytes, false)]⟩ := by
  have h := steps_requestImpl_recv ext s hudp (.goldSrc true) 0 KIND lsq R hR [.data d] q (by simp) hfinal []
    (fun x hx => by cases hx) fs sn
  simpa [challengeDeliveries, lsqBytes] using h

/-- the outcome of the unit under a plan whose answer makes `receive` end with `R` -/
def unitOutcome (R : Res Packet) (p : Plan1) : Res Bytes :=
  match p.answer with
  | some _ => R >>= fun pk => .ok pk.payload
  | none => .err (lastError attemptError p.fails)

theorem steps_unit (ext : Ext) (s : Sock) (hudp : s.tcp = false) (retries : Nat) (p : Plan1)
    (hp : p.wf retries PACKET_SIZE = true)
    (R : Res Packet) (hR : ∀ pk, R = .ok pk → pk.kind ≠ 0x41) (hRt : ∀ k, R = .err k → k.isTimeout = false)
    (q : List Delivery)
    (hfinal : ∀ d, p.answer = some d → ∀ fs sn,
      Steps s (receive ext s (.goldSrc true) 0) R ⟨[.data d] ++ q, fs, sn⟩ ⟨q, fs, sn⟩)
    (fs : List Bool) (sn : List (Bytes × Bool)) :
    Steps s (retryOnTimeout retries (requestImpl ext s (.goldSrc true) 0 KIND lsq)) (unitOutcome R p)
      ⟨p.deliveries ++ q, p.faults ++ fs, sn⟩ ⟨q, fs, sn ++ p.sends lsqRequest⟩ := by
  obtain ⟨fails, answer⟩ := p
  have hflat : fails.flatMap (fun f => [f]) = fails := (flatMap_singleton id fails).trans (List.map_id _)
  have hmap : fails.flatMap (fun f => [(lsqBytes, f)]) = fails.map fun f => (lsqBytes, f) := flatMap_singleton _ fails
  cases answer with
  | some d =>
    simp only [Plan1.wf, Bool.and_eq_true, decide_eq_true_eq] at hp
    have hnt : ∀ k, (R >>= fun pk => Res.ok pk.payload) = .err k → k.isTimeout = false := by
      intro k hk
      cases R with
      | ok pk => cases hk
      | crash => cases hk
      | err e =>
        simp only [Res.bind_err, Res.err.injEq] at hk
        subst hk
        exact hRt e rfl
    have h := Steps.retry_recovers (f := requestImpl ext s (.goldSrc true) 0 KIND lsq)
      (fun f : Bool => if f then [] else [Delivery.silence]) (fun f => [f]) (fun f => [(lsqBytes, f)]) attemptError
      attemptError_timeout (fun a q fs sn => steps_fail ext s hudp a q fs sn)
      (R := R >>= fun pk => .ok pk.payload) hnt
      ([.data d] ++ q) q ([false] ++ fs) fs [(lsqBytes, false)]
      (fun sn => steps_answer ext s hudp d R hR q (hfinal d rfl) fs sn) fails retries sn hp.1
    rw [hflat, hmap] at h
    simpa [Plan1.deliveries, Plan1.faults, Plan1.sends, unitOutcome, lsqBytes_eq, List.append_assoc] using h
  | none =>
    simp only [Plan1.wf, beq_iff_eq] at hp
    have h := Steps.retry_exhausted (f := requestImpl ext s (.goldSrc true) 0 KIND lsq)
      (fun f : Bool => if f then [] else [Delivery.silence]) (fun f => [f]) (fun f => [(lsqBytes, f)]) attemptError
      attemptError_timeout (fun a q fs sn => steps_fail ext s hudp a q fs sn) q fs retries fails sn hp
    rw [hflat, hmap] at h
    simpa [Plan1.deliveries, Plan1.faults, Plan1.sends, unitOutcome, lsqBytes_eq] using h

/-- the whole query on the script of a one-exchange plan whose answer (if any) makes `receive` end with `R` -/
theorem query_plan (ext : Ext) (port retries : Nat) (p : Plan1) (hp : p.wf retries PACKET_SIZE = true)
    (R : Res Packet) (hR : ∀ pk, R = .ok pk → pk.kind ≠ 0x41) (hRt : ∀ k, R = .err k → k.isTimeout = false)
    (restQ : List Delivery)
    (hfinal : ∀ d, p.answer = some d → ∀ fs sn,
      Steps ⟨0, port, false⟩ (receive ext ⟨0, port, false⟩ (.goldSrc true) 0) R ⟨[.data d] ++ restQ, fs, sn⟩
        ⟨restQ, fs, sn⟩)
    (restF : List Bool) :
    (query ext port retries (Net.init [.opened (p.deliveries ++ restQ)] (p.faults ++ restF))).1
      = (unitOutcome R p >>= parseResponse.run)
    ∧ sentOf (query ext port retries (Net.init [.opened (p.deliveries ++ restQ)] (p.faults ++ restF))).2.log
      = p.sends lsqRequest := by
  have ho : openSock false port (Net.init [.opened (p.deliveries ++ restQ)] (p.faults ++ restF))
      = (.ok ⟨0, port, false⟩, ⟨[], [p.deliveries ++ restQ], p.faults ++ restF, [.opened 0 false port false]⟩) := rfl
  have hq : query ext port retries = (openSock false port >>= fun s =>
      retryOnTimeout retries (requestImpl ext s (.goldSrc true) 0 KIND lsq) >>= fun data =>
        Q.lift (parseResponse.run data)) := rfl
  rw [hq, Q.bind_apply, ho]
  have hS := (Steps.bind_res (k := parseResponse.run) (g := fun data => Q.lift (parseResponse.run data))
    (steps_unit ext ⟨0, port, false⟩ rfl retries p hp R hR hRt restQ hfinal restF [])
    (fun a _ => Steps.lift _ _ _)).outcome
    ⟨[], [p.deliveries ++ restQ], p.faults ++ restF, [.opened 0 false port false]⟩
    ⟨rfl, by simp, by simp, rfl⟩
  simpa using hS

end Gd.Ffow
