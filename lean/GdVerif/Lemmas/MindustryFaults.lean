import GdVerif.Lemmas.Mindustry
import GdVerif.Lemmas.QStepsG
import GdVerif.Spec.MindustryFaults
/-
  The whole Mindustry query with faults injected (C10 end to end).  Every attempt opens its own socket, so the logic is
  `StepsG AtM` of `Lemmas/QStepsG.lean` (the scripts of the sockets not yet opened, consumed one per attempt); what an
  attempt does on its socket is `exchange1` in the single-socket logic `Steps`, carried over by `open_then`.
-/
namespace Gd.Mindustry
open Gd Gd.Mindustry.Spec Gd.Faults

/-- the part of an attempt after the socket exists -/
theorem attempt_exchange1 (port : Nat) :
    attempt port = (openSock false port >>= fun s => exchange1 s ping MAX_BUFFER_SIZE parseServerData.run) := rfl

theorem keeps_exchange1 (s : Sock) : KeepsPending (exchange1 s ping MAX_BUFFER_SIZE parseServerData.run) :=
  KeepsPending.bind (KeepsPending.send s _) fun _ =>
    KeepsPending.bind (KeepsPending.recv s _) fun _ => KeepsPending.lift _

theorem ping_eq : ping = pingRequest := rfl

theorem Attempt.error_timeout (a : Attempt) : a.error.isTimeout = true := attemptError_timeout _

/-- nothing arrives first on the socket: the exchange times out -/
theorem steps_exchange1_lost (s : Sock) (hudp : s.tcp = false) (conn : List Delivery) (h : silentFirst conn = true)
    (fs : List Bool) (sn : List (Bytes × Bool)) :
    Steps s (exchange1 s ping MAX_BUFFER_SIZE parseServerData.run) (.err .packetReceive)
      ⟨conn, false :: fs, sn⟩ ⟨conn.drop 1, fs, sn ++ [(ping, false)]⟩ := by
  unfold exchange1
  cases conn with
  | nil => exact Steps.bind (steps_send_ok s _ _ fs sn) (Steps.bind_err (steps_recv_empty s hudp _ fs _))
  | cons d q =>
    cases d with
    | silence => exact Steps.bind (steps_send_ok s _ _ fs sn) (Steps.bind_err (steps_recv_silence s _ q fs _))
    | data d => simp [silentFirst] at h

/-- one failed attempt: a socket of its own, a timeout-class error -/
theorem steps_attempt_fail (port : Nat) (a : Attempt) (ha : a.wf = true) (P : List ConnScript) (fs : List Bool)
    (sn : List (Bytes × Bool)) :
    StepsG AtM (attempt port) (.err a.error) ⟨a.conns ++ P, a.faults ++ fs, sn⟩ ⟨P, fs, sn ++ a.sends⟩ := by
  rw [attempt_exchange1]
  obtain ⟨f, conn⟩ := a
  cases f with
  | true =>
    refine open_then port _ _ conn conn P (true :: fs) fs sn (sn ++ [(pingRequest, true)]) keeps_exchange1 ?_
    intro s _ _
    exact Steps.bind_err (steps_send_fault s _ conn fs sn)
  | false =>
    have hs : silentFirst conn = true := by simpa [Attempt.wf] using ha
    refine open_then port _ _ conn (conn.drop 1) P (false :: fs) fs sn (sn ++ [(pingRequest, false)]) keeps_exchange1 ?_
    intro s hudp _
    exact steps_exchange1_lost s hudp conn hs fs sn

/-- the attempt that is answered by the datagram `d` on its socket -/
theorem steps_attempt_answer (port : Nat) (d : Bytes) (hd : d.length ≤ MAX_BUFFER_SIZE) (after : List Delivery)
    (P : List ConnScript) (fs : List Bool) (sn : List (Bytes × Bool)) :
    StepsG AtM (attempt port) (parseServerData.run d) ⟨.opened (.data d :: after) :: P, false :: fs, sn⟩
      ⟨P, fs, sn ++ [(pingRequest, false)]⟩ := by
  rw [attempt_exchange1]
  refine open_then port _ _ (.data d :: after) after P (false :: fs) fs sn (sn ++ [(pingRequest, false)])
    keeps_exchange1 ?_
  intro s hudp _
  exact steps_exchange1_answer s hudp ping MAX_BUFFER_SIZE parseServerData.run d hd after fs sn

/-! ### malformed datagrams -/

theorem take_findByte0 (m : Bytes) : m.take (findByte 0 m) = m.takeWhile (· != 0) := by
  induction m with
  | nil => rfl
  | cons b r ih =>
    by_cases hb : b = 0
    · subst hb; simp [findByte]
    · have : (b == 0) = false := by simpa using hb
      simp [findByte, this, ih, hb]

theorem take_take_findByte (body : Bytes) (n : Nat) :
    body.take (findByte 0 (body.take n)) = (body.take n).takeWhile (· != 0) := by
  rw [← take_findByte0]
  have hle : findByte 0 (body.take n) ≤ (body.take n).length := by
    generalize body.take n = l
    induction l with
    | nil => simp [findByte]
    | cons b r ih => simp only [findByte]; split <;> simp <;> omega
  rw [List.take_take]
  congr 1
  have : (body.take n).length ≤ n := by simp only [List.length_take]; omega
  omega

theorem parse_malformed (m : Bytes) (h : malformed m = true) : parseServerData.run m = .err .packetBad := by
  have h1 : readLenStr (Buf.new m) = .err .packetBad := by
    unfold readLenStr readStringWith utf8LenDec
    cases m with
    | nil => rfl
    | cons l body =>
      simp only [Buf.new]
      have hv : validUtf8 (body.take (findByte 0 (body.take l.toNat))) = false := by
        rw [take_take_findByte]
        simpa [malformed] using h
      simp [hv]
  unfold Par.run parseServerData
  rw [Par.bind_err h1]

/-! ### the unit and the whole query -/

theorem query_faulty (st : State) (hw : wf st = true) (port retries : Nat) (plan : Plan)
    (hplan : wfPlan retries plan = true) (restC : List ConnScript) (restF : List Bool) :
    (query port retries (Net.init (faultyScript st plan ++ restC) (faultyFaults plan ++ restF))).1 = faultyExpected st plan
    ∧ sentOf (query port retries (Net.init (faultyScript st plan ++ restC) (faultyFaults plan ++ restF))).2.log
      = faultySends plan := by
  obtain ⟨fails, ending⟩ := plan
  simp only [wfPlan, Bool.and_eq_true, List.all_eq_true] at hplan
  obtain ⟨hfails, hend⟩ := hplan
  have hlen : (encode st).length ≤ MAX_BUFFER_SIZE := by
    simp only [wf, Bool.and_eq_true, decide_eq_true_eq] at hw
    exact hw.2
  have hstep : ∀ a : Attempt, a.wf = true → ∀ P fs sn,
      StepsG AtM (attempt port) (.err a.error) ⟨a.conns ++ P, a.faults ++ fs, sn⟩ ⟨P, fs, sn ++ a.sends⟩ :=
    fun a ha P fs sn => steps_attempt_fail port a ha P fs sn
  unfold query
  cases ending with
  | valid after =>
    simp only [decide_eq_true_eq] at hend
    have h := StepsG.retry_recovers_of (V := AtM) (f := attempt port) (fun a => a.wf = true)
      Attempt.conns Attempt.faults Attempt.sends Attempt.error Attempt.error_timeout hstep
      (R := .ok (expected st)) (fun k hk => by cases hk) ([.opened (.data (encode st) :: after)] ++ restC) restC
      ([false] ++ restF) restF [(pingRequest, false)]
      (fun sn => by
        have := steps_attempt_answer port (encode st) hlen after restC restF sn
        rwa [(decodesEnd_serverData st hw).run] at this)
      fails retries [] hfails hend
    have := h.run
    simpa [faultyScript, faultyFaults, faultySends, faultyExpected, Ending.conns, Ending.faults, Ending.sends,
      List.append_assoc] using this
  | gaveUp =>
    simp only [beq_iff_eq] at hend
    have h := StepsG.retry_exhausted_of (V := AtM) (f := attempt port) (fun a => a.wf = true)
      Attempt.conns Attempt.faults Attempt.sends Attempt.error Attempt.error_timeout hstep restC restF retries fails []
      hfails hend
    have := h.run
    simpa [faultyScript, faultyFaults, faultySends, faultyExpected, Ending.conns, Ending.faults, Ending.sends] using this
  | malformed m after =>
    simp only [Bool.and_eq_true, decide_eq_true_eq] at hend
    obtain ⟨⟨hk, hm⟩, hl⟩ := hend
    have h := StepsG.retry_recovers_of (V := AtM) (f := attempt port) (fun a => a.wf = true)
      Attempt.conns Attempt.faults Attempt.sends Attempt.error Attempt.error_timeout hstep
      (R := .err .packetBad) (fun k hk => by cases hk; rfl) ([.opened (.data m :: after)] ++ restC) restC
      ([false] ++ restF) restF [(pingRequest, false)]
      (fun sn => by
        have := steps_attempt_answer port m hl after restC restF sn
        rwa [parse_malformed m hm] at this)
      fails retries [] hfails hk
    have := h.run
    simpa [faultyScript, faultyFaults, faultySends, faultyExpected, Ending.conns, Ending.faults, Ending.sends,
      List.append_assoc] using this
  | refused =>
    simp only [decide_eq_true_eq] at hend
    have h := StepsG.retry_recovers_of (V := AtM) (f := attempt port) (fun a => a.wf = true)
      Attempt.conns Attempt.faults Attempt.sends Attempt.error Attempt.error_timeout hstep
      (R := .err .socketBind) (fun k hk => by cases hk; rfl) ([.refused] ++ restC) restC restF restF []
      (fun sn => by
        have := open_refused port (fun s => exchange1 s ping MAX_BUFFER_SIZE parseServerData.run) restC restF sn
        simpa [attempt_exchange1] using this)
      fails retries [] hfails hend
    have := h.run
    simpa [faultyScript, faultyFaults, faultySends, faultyExpected, Ending.conns, Ending.faults, Ending.sends,
      List.append_assoc] using this

theorem faultySends_eq (plan : Plan) :
    faultySends plan = plan.fails.map (fun a => (pingRequest, a.sendFault)) ++ plan.ending.sends := by
  unfold faultySends
  rw [show plan.fails.flatMap Attempt.sends = plan.fails.map (fun a => (pingRequest, a.sendFault)) from
    flatMap_singleton _ _]

theorem lastError_append (fails : List Attempt) (a : Attempt) :
    lastError Attempt.error (fails ++ [a]) = a.error := by
  induction fails with
  | nil => rfl
  | cons b r ih =>
    cases r with
    | nil => rfl
    | cons c r' => simpa [lastError] using ih

theorem lastError_class (fails : List Attempt) (h : fails ≠ []) :
    lastError Attempt.error fails = .packetReceive ∨ lastError Attempt.error fails = .packetSend := by
  obtain ⟨init, a, rfl⟩ : ∃ init a, fails = init ++ [a] := by
    cases hne : fails.reverse with
    | nil => simp at hne; exact absurd hne h
    | cons a r => exact ⟨r.reverse, a, by rw [← List.reverse_reverse fails, hne]; simp⟩
  rw [lastError_append]
  obtain ⟨f, c⟩ := a
  cases f <;> simp [Attempt.error, attemptError]

end Gd.Mindustry
