import GdVerif.Lemmas.MasterRounds
/-
  Soundness of the reply parser: whatever `parsePage` accepts IS a page in the protocol's layout — the datagram is
  `encPage es` for exactly the entries `es` returned.  With `parsePage_encPage` (completeness, `Lemmas/MasterPaging.lean`)
  this makes "the last address of the page received" (`nextSeed`) a statement about the datagram's bytes.
-/
namespace Gd.Master
open Gd

theorem readUnsigned_inv {e : Endian} {w : Nat} {b b' : Buf} {n : Nat} (h : readUnsigned e w b = .ok (n, b')) :
    ∃ pre post, b.rest = pre ++ post ∧ pre.length = w ∧ n = e.decode pre ∧ b'.rest = post := by
  unfold readUnsigned at h
  split at h
  · cases h
  · rename_i hlt
    cases h
    refine ⟨b.rest.take w, b.rest.drop w, (List.take_append_drop w b.rest).symm, ?_, rfl, by simp⟩
    simp only [Buf.remaining] at hlt
    simp only [List.length_take]
    omega

theorem byte_eq_of_toNat {x : UInt8} {n : Nat} (h : x.toNat = n) : x = UInt8.ofNat n := by
  subst h; simp

theorem be4_ff (pre : Bytes) (hl : pre.length = 4) (h : beNat pre = 0xFFFFFFFF) : pre = [0xFF, 0xFF, 0xFF, 0xFF] := by
  match pre, hl with
  | [a, b, c, d], _ =>
    simp only [beNat, List.foldl_cons, List.foldl_nil] at h
    have ha := a.toNat_lt; have hb := b.toNat_lt; have hc := c.toNat_lt; have hd := d.toNat_lt
    have h1 : a.toNat = 255 := by omega
    have h2 : b.toNat = 255 := by omega
    have h3 : c.toNat = 255 := by omega
    have h4 : d.toNat = 255 := by omega
    rw [byte_eq_of_toNat h1, byte_eq_of_toNat h2, byte_eq_of_toNat h3, byte_eq_of_toNat h4]
    rfl

theorem be2_key (pre : Bytes) (hl : pre.length = 2) (h : beNat pre = 26122) : pre = [0x66, 0x0A] := by
  match pre, hl with
  | [a, b], _ =>
    simp only [beNat, List.foldl_cons, List.foldl_nil] at h
    have ha := a.toNat_lt; have hb := b.toNat_lt
    have h1 : a.toNat = 0x66 := by omega
    have h2 : b.toNat = 0x0A := by omega
    rw [byte_eq_of_toNat h1, byte_eq_of_toNat h2]
    rfl

theorem natBE2_beNat (p q : UInt8) : natBE 2 (beNat [p, q]) = [p, q] := by
  have hp := p.toNat_lt; have hq := q.toNat_lt
  have e2 : (p.toNat * 256 + q.toNat) % 256 = q.toNat := by omega
  have e3 : (p.toNat * 256 + q.toNat) / 256 % 256 = p.toNat := by omega
  simp [natBE, natLE, beNat, e2, e3]

/-- one byte read by `read::<u8>()` -/
theorem readU8_inv {b b' : Buf} {n : Nat} (h : readU8 b = .ok (n, b')) :
    ∃ x post, b.rest = x :: post ∧ n = x.toNat ∧ b'.rest = post := by
  obtain ⟨pre, post, hr, hl, hn, hb⟩ := readUnsigned_inv h
  match pre, hl with
  | [x], _ => exact ⟨x, post, hr, by simpa [Endian.decode, leNat] using hn, hb⟩

/-- an entry that parses is the 6 bytes that encode it -/
theorem parseEntry_inv {b b' : Buf} {a : Addr} (h : parseEntry b = .ok (a, b')) :
    ∃ post, b.rest = encEntry a ++ post ∧ WFAddr a ∧ b'.rest = post := by
  unfold parseEntry at h
  obtain ⟨n1, b1, h1, h⟩ := Par.bind_ok_inv h
  obtain ⟨n2, b2, h2, h⟩ := Par.bind_ok_inv h
  obtain ⟨n3, b3, h3, h⟩ := Par.bind_ok_inv h
  obtain ⟨n4, b4, h4, h⟩ := Par.bind_ok_inv h
  obtain ⟨pt, b5, h5, h⟩ := Par.bind_ok_inv h
  obtain ⟨x1, p1, r1, rfl, e1⟩ := readU8_inv h1
  obtain ⟨x2, p2, r2, rfl, e2⟩ := readU8_inv h2
  obtain ⟨x3, p3, r3, rfl, e3⟩ := readU8_inv h3
  obtain ⟨x4, p4, r4, rfl, e4⟩ := readU8_inv h4
  obtain ⟨pre, post, r5, hl, rfl, e5⟩ := readUnsigned_inv h5
  simp only [Par.pure_apply, Res.ok.injEq, Prod.mk.injEq] at h
  obtain ⟨rfl, rfl⟩ := h
  match pre, hl with
  | [p, q], _ =>
    refine ⟨post, ?_, ?_, e5⟩
    · rw [r1, ← e1, r2, ← e2, r3, ← e3, r4, ← e4, r5]
      simp only [encEntry, Endian.decode, natBE2_beNat, UInt8.ofNat_toNat]
      rfl
    · have := x1.toNat_lt; have := x2.toNat_lt; have := x3.toNat_lt; have := x4.toNat_lt
      have hpq : beNat [p, q] < 256 ^ 2 := by
        have := Endian.decode_lt .big [p, q]
        simpa [Endian.decode] using this
      refine ⟨by assumption, by assumption, by assumption, by assumption, ?_⟩
      simp only [Endian.decode]
      omega

/-- the `while remaining > 0` loop: what it accepts is a sequence of encoded entries, to the end of the datagram -/
theorem whileEntries_inv : ∀ (fuel : Nat) (acc res : List Addr) (b b' : Buf),
    whileRemaining (fun acc => do let e ← parseEntry; pure (e :: acc)) fuel acc b = .ok (res, b') →
      ∃ es : List Addr, res = es.reverse ++ acc ∧ b.rest = (es.map encEntry).flatten ∧ ∀ a ∈ es, WFAddr a := by
  intro fuel
  induction fuel with
  | zero => intro acc res b b' h; simp [whileRemaining, Par.crash] at h
  | succ fuel ih =>
    intro acc res b b' h
    simp only [whileRemaining] at h
    split at h
    · rename_i hz
      cases h
      refine ⟨[], by simp, ?_, by simp⟩
      simpa [Buf.remaining] using hz
    · cases hb : (do let e ← parseEntry; pure (e :: acc) : Par (List Addr)) b with
      | err k => rw [hb] at h; cases h
      | crash => rw [hb] at h; cases h
      | ok x =>
        obtain ⟨st', b1⟩ := x
        rw [hb] at h
        simp only at h
        obtain ⟨a, b2, ha, hp⟩ := Par.bind_ok_inv hb
        simp only [Par.pure_apply, Res.ok.injEq, Prod.mk.injEq] at hp
        obtain ⟨rfl, rfl⟩ := hp
        obtain ⟨post, hr, hwf, hpost⟩ := parseEntry_inv ha
        obtain ⟨es, hres, hrest, hall⟩ := ih (a :: acc) res b2 b' h
        refine ⟨a :: es, by simp [hres], ?_, ?_⟩
        · rw [hr, ← hpost, hrest]; simp
        · intro x hx
          rcases List.mem_cons.mp hx with rfl | hx'
          · exact hwf
          · exact hall x hx'

/-- Soundness: a datagram the parser accepts is exactly the protocol's encoding of the entries returned. -/
theorem parsePage_sound (data : Bytes) (es : List Addr) (h : parsePage.run data = .ok es) :
    data = encPage es ∧ ∀ a ∈ es, WFAddr a := by
  unfold Par.run at h
  cases hp : parsePage (Buf.new data) with
  | err k => rw [hp] at h; cases h
  | crash => rw [hp] at h; cases h
  | ok x =>
    obtain ⟨es', bEnd⟩ := x
    rw [hp] at h
    simp only [Res.ok.injEq] at h
    subst h
    unfold parsePage at hp
    obtain ⟨hd, b1, h1, hp⟩ := Par.bind_ok_inv hp
    by_cases hhd : (hd != 0xFFFFFFFF) = true
    · rw [if_pos hhd] at hp; cases hp
    · rw [if_neg hhd] at hp
      obtain ⟨k, b2, h2, hp⟩ := Par.bind_ok_inv hp
      by_cases hk : (k != 26122) = true
      · simp only [hk, ↓reduceIte, Par.fail_apply] at hp; cases hp
      · have hk' : (k != 26122) = false := Bool.eq_false_iff.mpr hk
        simp only [hk', Bool.false_eq_true, ↓reduceIte] at hp
        simp only [bne_iff_ne, ne_eq, Decidable.not_not] at hhd hk
        obtain ⟨pre1, post1, r1, l1, rfl, e1⟩ := readUnsigned_inv h1
        obtain ⟨pre2, post2, r2, l2, rfl, e2⟩ := readUnsigned_inv h2
        have hpre1 := be4_ff pre1 l1 (by simpa [Endian.decode] using hhd)
        have hpre2 := be2_key pre2 l2 (by simpa [Endian.decode] using hk)
        unfold parseEntries at hp
        obtain ⟨rev, b3, h3, hp⟩ := Par.bind_ok_inv hp
        simp only [Par.pure_apply, Res.ok.injEq, Prod.mk.injEq] at hp
        obtain ⟨rfl, rfl⟩ := hp
        obtain ⟨es, hres, hrest, hall⟩ := whileEntries_inv _ _ _ _ _ h3
        simp only [List.append_nil] at hres
        subst hres
        simp only [List.reverse_reverse]
        refine ⟨?_, hall⟩
        have hd : data = (Buf.new data).rest := rfl
        rw [hd, r1, ← e1, r2, ← e2, hrest, hpre1, hpre2]
        rfl

/-- `nextSeed` at the level of bytes: a follow-up request is made exactly when the datagram received is the
protocol's encoding of a non-empty list of entries whose last address is neither `0.0.0.0:0` nor the seed of the
request it answers; the follow-up is seeded with that last address. -/
theorem nextSeed_spec (ip : Bytes) (port : Nat) (data : Bytes) (a : Addr) :
    nextSeed ip port data = some a ↔
      ∃ es, data = encPage es ∧ (∀ x ∈ es, WFAddr x) ∧ es.getLast? = some a
        ∧ ¬(ipText a.1 = zeroIp ∧ a.2 = 0) ∧ ¬(ipText a.1 = ip ∧ a.2 = port) := by
  rw [nextSeed_iff]
  constructor
  · rintro ⟨page, hp, hl, h1, h2⟩
    obtain ⟨hd, hwf⟩ := parsePage_sound data page hp
    exact ⟨page, hd, hwf, hl, h1, h2⟩
  · rintro ⟨es, rfl, hwf, hl, h1, h2⟩
    exact ⟨es, parsePage_encPage es hwf, hl, h1, h2⟩

end Gd.Master
