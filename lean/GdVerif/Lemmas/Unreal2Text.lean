import GdVerif.Lemmas.Decodes
import GdVerif.Spec.Unreal2
/-
  The Unreal 2 string codec: the model's decoder (a stateful colour filter, control filter, NUL trim, over
  windows-1252 / UTF-16LE) against the SPEC's encoder and `strip`.
-/
namespace Gd.Unreal2
open Gd Gd.Unreal2.Spec

/-! ### colour filter = colour strip -/

theorem colourFilter_drop (k : Nat) (l : List Nat) : colourFilter k l = colourFilter 0 (l.drop k) := by
  induction l generalizing k with
  | nil => cases k <;> simp [colourFilter]
  | cons c r ih =>
    cases k with
    | zero => simp
    | succ k =>
      have : colourFilter (k + 1) (c :: r) = colourFilter k r := by simp [colourFilter]
      rw [this, ih k]
      simp

theorem stripColour_cons_esc (r : List Nat) : stripColour (0x1b :: r) = stripColour (r.drop 3) := by
  match r with
  | [] => simp [stripColour]
  | [_] => simp [stripColour]
  | [_, _] => simp [stripColour]
  | _ :: _ :: _ :: r' => simp [stripColour]

theorem stripColour_cons_ne (c : Nat) (r : List Nat) (h : c ≠ 0x1b) : stripColour (c :: r) = c :: stripColour r := by
  match r with
  | [] => simp [stripColour, h]
  | [_] => simp [stripColour, h]
  | [_, _] => simp [stripColour, h]
  | _ :: _ :: _ :: r' => simp [stripColour, h]

/-- the stateful filter of the code computes the declarative strip -/
theorem colourFilter_eq_stripColour (l : List Nat) : colourFilter 0 l = stripColour l := by
  suffices h : ∀ n (l : List Nat), l.length ≤ n → colourFilter 0 l = stripColour l from h l.length l (Nat.le_refl _)
  intro n
  induction n with
  | zero =>
    intro l hl
    have : l = [] := List.length_eq_zero_iff.mp (by omega)
    subst this
    simp [colourFilter, stripColour]
  | succ n ih =>
    intro l hl
    cases l with
    | nil => simp [colourFilter, stripColour]
    | cons c r =>
      by_cases hc : c = 0x1b
      · subst hc
        have h1 : colourFilter 0 (0x1b :: r) = colourFilter 3 r := by simp [colourFilter]
        rw [h1, colourFilter_drop, stripColour_cons_esc]
        exact ih _ (by simp only [List.length_drop, List.length_cons] at *; omega)
      · have h1 : colourFilter 0 (c :: r) = c :: colourFilter 0 r := by
          have : (c == 0x1b) = false := by simpa using hc
          simp [colourFilter, this]
        rw [h1, stripColour_cons_ne c r hc, ih r (by simp only [List.length_cons] at hl; omega)]

theorem isCtl_eq_isControl (c : Nat) : isCtl c = isControl c := by
  unfold isCtl isControl
  cases h1 : decide (0 < c) <;> cases h2 : decide (1 ≤ c) <;> simp_all <;> omega

/-! ### the terminating NUL -/

theorem mem_stripColour {c : Nat} : ∀ {l : List Nat}, c ∈ stripColour l → c ∈ l := by
  intro l
  suffices h : ∀ n (l : List Nat), l.length ≤ n → c ∈ stripColour l → c ∈ l from h l.length l (Nat.le_refl _)
  intro n
  induction n with
  | zero =>
    intro l hl hc
    have : l = [] := List.length_eq_zero_iff.mp (by omega)
    subst this
    simp [stripColour] at hc
  | succ n ih =>
    intro l hl hc
    cases l with
    | nil => simp [stripColour] at hc
    | cons d r =>
      by_cases hd : d = 0x1b
      · subst hd
        rw [stripColour_cons_esc] at hc
        have := ih _ (by simp only [List.length_drop, List.length_cons] at *; omega) hc
        exact List.mem_cons_of_mem _ (List.mem_of_mem_drop this)
      · rw [stripColour_cons_ne d r hd] at hc
        rcases List.mem_cons.mp hc with rfl | h
        · simp
        · exact List.mem_cons_of_mem _ (ih r (by simp only [List.length_cons] at hl; omega) h)

/-- appending the terminating NUL to NUL-free text adds at most that NUL to the stripped text -/
theorem stripColour_append_nul (l : List Nat) :
    stripColour (l ++ [0]) = stripColour l ++ [0] ∨ stripColour (l ++ [0]) = stripColour l := by
  suffices h : ∀ n (l : List Nat), l.length ≤ n →
      (stripColour (l ++ [0]) = stripColour l ++ [0] ∨ stripColour (l ++ [0]) = stripColour l) from
    h l.length l (Nat.le_refl _)
  intro n
  induction n with
  | zero =>
    intro l hl
    have : l = [] := List.length_eq_zero_iff.mp (by omega)
    subst this
    left
    simp [stripColour]
  | succ n ih =>
    intro l hl
    cases l with
    | nil => left; simp [stripColour]
    | cons d r =>
      by_cases hd : d = 0x1b
      · subst hd
        simp only [List.cons_append]
        rw [stripColour_cons_esc, stripColour_cons_esc]
        by_cases hr : 3 ≤ r.length
        · rw [List.drop_append_of_le_length hr]
          exact ih _ (by simp only [List.length_drop, List.length_cons] at *; omega)
        · -- the escape is cut short by the end of the text: it swallows the NUL
          right
          have h1 : (r ++ [0]).drop 3 = [] := by
            apply List.drop_eq_nil_of_le
            simp only [List.length_append, List.length_cons, List.length_nil]
            omega
          have h2 : r.drop 3 = [] := List.drop_eq_nil_of_le (by omega)
          rw [h1, h2]
      · simp only [List.cons_append]
        rw [stripColour_cons_ne d _ hd, stripColour_cons_ne d _ hd]
        rcases ih r (by simp only [List.length_cons] at hl; omega) with h | h
        · left; rw [h]; rfl
        · right; rw [h]

theorem dropWhile_nul_of_noNul (l : List Nat) (h : ∀ c ∈ l, c ≠ 0) (t : List Nat) :
    (l ++ t).dropWhile (· == 0) = if l = [] then t.dropWhile (· == 0) else l ++ t := by
  cases l with
  | nil => simp
  | cons c r =>
    have hc : (c == 0) = false := by simpa using h c (by simp)
    simp [List.dropWhile, hc]

theorem trimNul_of_noNul (l : List Nat) (h : ∀ c ∈ l, c ≠ 0) : trimNul l = l := by
  unfold trimNul
  have h1 : l.dropWhile (· == 0) = l := by
    have := dropWhile_nul_of_noNul l h []
    simp only [List.append_nil, List.dropWhile_nil] at this
    rw [this]; split <;> simp_all
  rw [h1]
  have h2 : l.reverse.dropWhile (· == 0) = l.reverse := by
    have := dropWhile_nul_of_noNul l.reverse (by simpa using h) []
    simp only [List.append_nil, List.dropWhile_nil] at this
    rw [this]; split <;> simp_all
  rw [h2, List.reverse_reverse]

theorem trimNul_append_nul (l : List Nat) (h : ∀ c ∈ l, c ≠ 0) : trimNul (l ++ [0]) = l := by
  unfold trimNul
  have h1 : (l ++ [0]).dropWhile (· == 0) = if l = [] then [] else l ++ [0] := by
    rw [dropWhile_nul_of_noNul l h [0]]
    simp [List.dropWhile]
  rw [h1]
  split
  · rename_i hl; subst hl; simp
  · simp only [List.reverse_append, List.reverse_cons, List.reverse_nil, List.nil_append, List.singleton_append]
    have h2 : (0 :: l.reverse).dropWhile (· == 0) = l.reverse.dropWhile (· == 0) := by simp [List.dropWhile]
    rw [h2]
    have h3 := dropWhile_nul_of_noNul l.reverse (by simpa using h) []
    simp only [List.append_nil, List.dropWhile_nil] at h3
    rw [h3]
    split <;> simp_all

/-- everything the code does after decoding, on NUL-free characters with or without the terminating
NUL: exactly the SPEC's `strip` -/
theorem cleanText_eq (cs : List Nat) (h : ∀ c ∈ cs, c ≠ 0) (nul : Bool) :
    cleanText (cs ++ (if nul then [0] else [])) = utf8Encode (strip cs) := by
  unfold cleanText strip
  congr 1
  have hfilter : (fun c => !isCtl c) = (fun c => !isControl c) := by
    funext c; rw [isCtl_eq_isControl]
  rw [colourFilter_eq_stripColour, hfilter]
  have hno : ∀ c ∈ (stripColour cs).filter (fun c => !isControl c), c ≠ 0 := by
    intro c hc
    exact h c (mem_stripColour (List.mem_filter.mp hc).1)
  cases nul with
  | false =>
    simp only [Bool.false_eq_true, ↓reduceIte, List.append_nil]
    exact trimNul_of_noNul _ hno
  | true =>
    simp only [↓reduceIte]
    rcases stripColour_append_nul cs with hs | hs
    · rw [hs, List.filter_append]
      have : [0].filter (fun c => !isControl c) = [0] := by decide
      rw [this]
      exact trimNul_append_nul _ hno
    · rw [hs]
      exact trimNul_of_noNul _ hno

end Gd.Unreal2
