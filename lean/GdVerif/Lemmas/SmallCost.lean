import GdVerif.Lemmas.ValveSilent
import GdVerif.Lemmas.Gs3Cost
import GdVerif.Proto.Ffow
import GdVerif.Proto.TheShip
import GdVerif.Proto.Battalion
import GdVerif.Proto.Jc2m
import GdVerif.Proto.Mindustry
import GdVerif.Proto.Savage2
/-
  How many datagrams the small games send: FFOW (one Valve-style request with challenge rounds),
  The Ship and Battalion 1944 (the Valve query), JC2M (the GameSpy 3 exchange in single-packet mode),
  Mindustry (one ping per attempt, each attempt on a fresh socket), Savage 2 (one request, never
  retried).
-/
namespace Gd

theorem Ffow.cost_query (ext : Valve.Ext) (port r : Nat) :
    Cost ((r + 1 : Nat) : Int) ((r + 1 : Nat) : Int) (Ffow.query ext port r) := by
  unfold Ffow.query Ffow.queryBody
  have h := Cost.bind (Cost.openSock false port) fun s =>
    Cost.bind (Cost.retry (k := 1) (Valve.cost_requestImpl ext s (.goldSrc true) 0 Ffow.KIND Ffow.lsq) r) fun d =>
      Cost.parse Ffow.parseResponse d
  refine h.weaken ?_ ?_ <;> simp <;> omega

theorem TheShip.cost_query (ext : Valve.Ext) (port r : Nat) :
    Cost ((3 * (r + 1) : Nat) : Int) ((3 * (r + 1) : Nat) : Int) (TheShip.query ext port r) := by
  unfold TheShip.query
  have h := Cost.bind (Valve.cost_query ext port TheShip.ENGINE Valve.Gather.default r) fun v =>
    Cost.lift (TheShip.convert v)
  exact h.weaken (by omega) (by omega)

theorem Battalion.cost_query (ext : Valve.Ext) (port : Nat) : Cost 3 3 (Battalion.query ext port) := by
  unfold Battalion.query
  have h := Cost.bind (Valve.cost_query ext port Battalion.ENGINE Valve.Gather.default 0) fun v =>
    Cost.bind (Cost.lift (Battalion.applyOverrides v)) fun v' => Cost.pure (Games.gameView v')
  exact h.weaken (by simp) (by simp)

theorem Jc2m.cost_query (port : Option Nat) (r : Nat) :
    Cost ((r + 1 : Nat) : Int) ((r + 1 : Nat) : Int) (Jc2m.query port r) := by
  unfold Jc2m.query
  have h := Cost.bind (Cost.openSock false (port.getD Jc2m.DEFAULT_PORT)) fun s =>
    Cost.bind (Gs3.cost_getServerPackets s r Jc2m.PAYLOAD true) fun p => Cost.lift (Jc2m.buildResponse p)
  exact h.weaken (by omega) (by omega)

theorem Jc2m.sends_query (port : Option Nat) (r : Nat) : Sends (2 * (r + 1)) (Jc2m.query port r) := by
  unfold Jc2m.query
  have h := Sends.bind (Sends.openSock false (port.getD Jc2m.DEFAULT_PORT)) fun s =>
    Sends.bind (k2 := 0) (Gs3.sends_getServerPackets s r Jc2m.PAYLOAD true) fun p => Sends.lift (Jc2m.buildResponse p)
  exact h.weaken (by omega)

theorem Mindustry.qsends_attempt (port : Nat) : Sends 1 (Mindustry.attempt port) := by
  unfold Mindustry.attempt
  have h := Sends.bind (Sends.openSock false port) fun s =>
    Sends.bind (k2 := 0) (Sends.send s Mindustry.ping) fun _ =>
      Sends.bind (k2 := 0) (Sends.recv s (some Mindustry.MAX_BUFFER_SIZE)) fun d =>
        Sends.parse Mindustry.parseServerData d
  exact h.weaken (by omega)

theorem Mindustry.qsends_query (port r : Nat) : Sends (r + 1) (Mindustry.query port r) := by
  have := Sends.retry (Mindustry.qsends_attempt port) r
  simpa [Mindustry.query] using this

theorem Savage2.sends_query (port : Nat) : Sends 1 (Savage2.query port) := by
  unfold Savage2.query
  have h := Sends.bind (Sends.openSock false port) fun s =>
    Sends.bind (k2 := 0) (Sends.send s Savage2.request) fun _ =>
      Sends.bind (k2 := 0) (Sends.recv s none) fun d => Sends.parse Savage2.parseResponse d
  exact h.weaken (by omega)

end Gd
