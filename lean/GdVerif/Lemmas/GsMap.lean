import GdVerif.Proto.GsCommon
/-
  Lemmas about the association-list model of `HashMap` used by the GameSpy 1/2 models
  (`Gs.mapInsert / mapRemove / mapGet`) and about the canonical form `Gs.canon`.
-/
namespace Gd.Gs

/-- the keys of a map are pairwise distinct -/
def Distinct (m : Map β) : Prop := m.Pairwise (fun a b => a.1 ≠ b.1)

def HasKey (m : Map β) (k : Bytes) : Prop := ∃ p ∈ m, p.1 = k

theorem not_hasKey_nil (k : Bytes) : ¬ HasKey ([] : Map β) k := by
  rintro ⟨p, hp, _⟩; cases hp

theorem hasKey_cons {p : Bytes × β} {m : Map β} {k : Bytes} : HasKey (p :: m) k ↔ p.1 = k ∨ HasKey m k := by
  constructor
  · rintro ⟨q, hq, hk⟩
    rcases List.mem_cons.mp hq with rfl | hq'
    · exact Or.inl hk
    · exact Or.inr ⟨q, hq', hk⟩
  · rintro (h | ⟨q, hq, hk⟩)
    · exact ⟨p, by simp, h⟩
    · exact ⟨q, by simp [hq], hk⟩

theorem hasKey_append {a b : Map β} {k : Bytes} : HasKey (a ++ b) k ↔ HasKey a k ∨ HasKey b k := by
  constructor
  · rintro ⟨q, hq, hk⟩
    rcases List.mem_append.mp hq with h | h
    · exact Or.inl ⟨q, h, hk⟩
    · exact Or.inr ⟨q, h, hk⟩
  · rintro (⟨q, hq, hk⟩ | ⟨q, hq, hk⟩)
    · exact ⟨q, by simp [hq], hk⟩
    · exact ⟨q, by simp [hq], hk⟩

/-! ### `mapGet` -/

@[simp] theorem mapGet_nil (k : Bytes) : mapGet ([] : Map β) k = none := rfl

theorem mapGet_cons (p : Bytes × β) (m : Map β) (k : Bytes) :
    mapGet (p :: m) k = if p.1 == k then some p.2 else mapGet m k := by
  obtain ⟨a, b⟩ := p; rfl

theorem mapGet_none_of_not_hasKey {m : Map β} {k : Bytes} (h : ¬ HasKey m k) : mapGet m k = none := by
  induction m with
  | nil => rfl
  | cons p r ih =>
    rw [mapGet_cons]
    have h1 : ¬ p.1 = k := fun e => h (hasKey_cons.mpr (Or.inl e))
    have h2 : ¬ HasKey r k := fun e => h (hasKey_cons.mpr (Or.inr e))
    simp [h1, ih h2]

theorem mapGet_append (a b : Map β) (k : Bytes) :
    mapGet (a ++ b) k = match mapGet a k with
      | some v => some v
      | none => mapGet b k := by
  induction a with
  | nil => simp
  | cons p r ih =>
    rw [List.cons_append, mapGet_cons, mapGet_cons]
    split
    · rfl
    · exact ih

theorem mapGet_append_left {a b : Map β} {k : Bytes} {v : β} (h : mapGet a k = some v) : mapGet (a ++ b) k = some v := by
  rw [mapGet_append, h]

theorem mapGet_append_right {a b : Map β} {k : Bytes} (h : ¬ HasKey a k) : mapGet (a ++ b) k = mapGet b k := by
  rw [mapGet_append, mapGet_none_of_not_hasKey h]

theorem hasKey_of_mapGet {m : Map β} {k : Bytes} {v : β} (h : mapGet m k = some v) : (k, v) ∈ m := by
  induction m with
  | nil => cases h
  | cons p r ih =>
    rw [mapGet_cons] at h
    split at h
    · rename_i hk
      cases h
      have : p.1 = k := by simpa using hk
      obtain ⟨a, b⟩ := p
      simp at this
      simp [this]
    · exact List.mem_cons_of_mem _ (ih h)

/-- in a map with distinct keys, membership determines lookup -/
theorem mapGet_of_mem {m : Map β} (hd : Distinct m) {k : Bytes} {v : β} (h : (k, v) ∈ m) : mapGet m k = some v := by
  induction m with
  | nil => cases h
  | cons p r ih =>
    rw [mapGet_cons]
    rcases List.mem_cons.mp h with rfl | h'
    · simp
    · have hne : p.1 ≠ k := (List.pairwise_cons.mp hd).1 (k, v) h'
      have : (p.1 == k) = false := by simpa using hne
      rw [this]
      exact ih (List.pairwise_cons.mp hd).2 h'

theorem Distinct.perm {m m' : Map β} (hd : Distinct m) (hp : m'.Perm m) : Distinct m' :=
  List.Pairwise.perm hd hp.symm (fun h => Ne.symm h)

/-- lookups do not depend on the order of a map with distinct keys -/
theorem mapGet_perm {m m' : Map β} (hd : Distinct m) (hp : m'.Perm m) (k : Bytes) : mapGet m' k = mapGet m k := by
  cases h : mapGet m k with
  | some v =>
    exact mapGet_of_mem (hd.perm hp) (hp.mem_iff.mpr (hasKey_of_mapGet h))
  | none =>
    cases h' : mapGet m' k with
    | none => rfl
    | some v =>
      have := mapGet_of_mem hd (hp.mem_iff.mp (hasKey_of_mapGet h'))
      rw [h] at this; cases this

/-! ### `mapInsert`, `mapRemove` -/

theorem mapInsert_fresh {m : Map β} {k : Bytes} (v : β) (h : ¬ HasKey m k) : mapInsert m k v = m ++ [(k, v)] := by
  induction m with
  | nil => rfl
  | cons p r ih =>
    obtain ⟨a, b⟩ := p
    have h1 : ¬ a = k := fun e => h (hasKey_cons.mpr (Or.inl e))
    have h2 : ¬ HasKey r k := fun e => h (hasKey_cons.mpr (Or.inr e))
    have : (a == k) = false := by simpa using h1
    simp [mapInsert, this, ih h2]

theorem mapRemove_append (a b : Map β) (k : Bytes) : mapRemove (a ++ b) k = mapRemove a k ++ mapRemove b k := by
  simp [mapRemove]

theorem mapRemove_of_not_hasKey {m : Map β} {k : Bytes} (h : ¬ HasKey m k) : mapRemove m k = m := by
  unfold mapRemove
  rw [List.filter_eq_self]
  intro p hp
  have : p.1 ≠ k := fun e => h ⟨p, hp, e⟩
  simpa using this

theorem mapRemove_cons (p : Bytes × β) (m : Map β) (k : Bytes) :
    mapRemove (p :: m) k = if p.1 == k then mapRemove m k else p :: mapRemove m k := by
  unfold mapRemove
  rw [List.filter_cons]
  by_cases h : p.1 = k
  · simp [h]
  · simp [h]

theorem mapGet_mapInsert' {β : Type} (m : Map β) (k : Bytes) (v : β) (k' : Bytes) :
    mapGet (mapInsert m k v) k' = if k = k' then some v else mapGet m k' := by
  induction m with
  | nil =>
    simp only [mapInsert, mapGet_cons, mapGet_nil]
    by_cases h : k = k' <;> simp [h]
  | cons p r ih =>
    obtain ⟨a, b⟩ := p
    simp only [mapInsert]
    by_cases ha : a = k
    · subst ha
      simp only [BEq.rfl, ↓reduceIte, mapGet_cons]
      by_cases h : a = k' <;> simp [h]
    · have hak : (a == k) = false := by simpa using ha
      simp only [hak, Bool.false_eq_true, ↓reduceIte, mapGet_cons, ih]
      by_cases h : a = k'
      · have : ¬ k = k' := fun e => ha (h.trans e.symm)
        simp [h, this]
      · have : (a == k') = false := by simpa using h
        simp [this]

/-- fresh, pairwise distinct keys are appended -/
theorem foldl_mapInsert_fresh {β : Type} (m : Map β) (ps : List (Bytes × β)) (hf : ∀ p ∈ ps, ¬ HasKey m p.1)
    (hd : Distinct ps) : ps.foldl (fun m p => mapInsert m p.1 p.2) m = m ++ ps := by
  induction ps generalizing m with
  | nil => simp
  | cons p r ih =>
    simp only [List.foldl_cons]
    rw [mapInsert_fresh p.2 (hf p (by simp))]
    have hd' := List.pairwise_cons.mp hd
    rw [ih (m ++ [(p.1, p.2)]) ?_ hd'.2]
    · simp
    · intro q hq hk
      rcases hasKey_append.mp hk with h | h
      · exact hf q (by simp [hq]) h
      · obtain ⟨x, hx, hxk⟩ := h
        simp only [List.mem_singleton] at hx
        subst hx
        exact hd'.1 q hq hxk

/-! ### `keyNat` is injective -/

theorem keyNat_pos (b : UInt8) (r : Bytes) : 0 < keyNat (b :: r) := by
  simp only [keyNat]; omega

theorem keyNat_inj : ∀ (a b : Bytes), keyNat a = keyNat b → a = b := by
  intro a
  induction a with
  | nil =>
    intro b h
    cases b with
    | nil => rfl
    | cons y s => have := keyNat_pos y s; simp only [keyNat] at h this; omega
  | cons x r ih =>
    intro b h
    cases b with
    | nil => have := keyNat_pos x r; simp only [keyNat] at h this; omega
    | cons y s =>
      simp only [keyNat] at h
      have hx := x.toNat_lt
      have hy := y.toNat_lt
      have h1 : x.toNat = y.toNat := by omega
      have h2 : keyNat r = keyNat s := by omega
      rw [ih s h2, UInt8.toNat_inj.mp h1]

/-! ### `canon` -/

/-- sorted by `keyNat` of the key -/
def Sorted (m : Map β) : Prop := m.Pairwise (fun a b => keyNat a.1 ≤ keyNat b.1)

theorem insertKey_perm (p : Bytes × β) (m : Map β) : (insertKey p m).Perm (p :: m) := by
  induction m with
  | nil => exact List.Perm.refl _
  | cons q r ih =>
    simp only [insertKey]
    split
    · exact List.Perm.refl _
    · exact (List.Perm.cons q ih).trans (List.Perm.swap p q r)

theorem insertKey_sorted (p : Bytes × β) {m : Map β} (h : Sorted m) : Sorted (insertKey p m) := by
  induction m with
  | nil => exact List.pairwise_singleton _ _
  | cons q r ih =>
    simp only [insertKey]
    have hq := List.pairwise_cons.mp h
    split
    · rename_i hle
      refine List.pairwise_cons.mpr ⟨?_, h⟩
      intro x hx
      rcases List.mem_cons.mp hx with rfl | hx'
      · exact hle
      · exact Nat.le_trans hle (hq.1 x hx')
    · rename_i hnle
      refine List.pairwise_cons.mpr ⟨?_, ih hq.2⟩
      intro x hx
      have := (insertKey_perm p r).mem_iff.mp hx
      rcases List.mem_cons.mp this with rfl | hx'
      · omega
      · exact hq.1 x hx'

theorem canon_perm_self (m : Map β) : (canon m).Perm m := by
  induction m with
  | nil => exact List.Perm.refl _
  | cons p r ih =>
    simp only [canon, List.foldr_cons]
    exact (insertKey_perm p _).trans (List.Perm.cons p ih)

theorem canon_sorted (m : Map β) : Sorted (canon m) := by
  induction m with
  | nil => exact List.Pairwise.nil
  | cons p r ih =>
    simp only [canon, List.foldr_cons]
    exact insertKey_sorted p ih

theorem Distinct.ne_of_mem {m : Map β} (hd : Distinct m) {a b : Bytes × β} (ha : a ∈ m) (hb : b ∈ m) (hne : a ≠ b) :
    a.1 ≠ b.1 := by
  induction hd with
  | nil => cases ha
  | cons hhead _ ih =>
    rcases List.mem_cons.mp ha with rfl | ha'
    · rcases List.mem_cons.mp hb with rfl | hb'
      · exact (hne rfl).elim
      · exact hhead b hb'
    · rcases List.mem_cons.mp hb with rfl | hb'
      · exact Ne.symm (hhead a ha')
      · exact ih ha' hb'

/-- two sorted lists with the same entries and distinct keys are equal -/
theorem sorted_perm_unique {l1 l2 : Map β} (h1 : Sorted l1) (h2 : Sorted l2) (hp : l1.Perm l2) (hd : Distinct l2) :
    l1 = l2 := by
  refine List.Perm.eq_of_pairwise ?_ h1 h2 hp
  intro a b ha hb hab hba
  have hk : a.1 = b.1 := keyNat_inj _ _ (by omega)
  have ha2 : a ∈ l2 := hp.mem_iff.mp ha
  apply Classical.byContradiction
  intro hne
  exact hd.ne_of_mem ha2 hb hne hk

/-- the canonical form does not depend on the order the entries arrived in -/
theorem canon_perm {m m' : Map β} (hd : Distinct m) (hp : m'.Perm m) : canon m' = canon m :=
  sorted_perm_unique (canon_sorted m') (canon_sorted m)
    ((canon_perm_self m').trans (hp.trans (canon_perm_self m).symm)) (hd.perm (canon_perm_self m))

theorem Sorted.filter {m : Map β} (h : Sorted m) (p : Bytes × β → Bool) : Sorted (m.filter p) :=
  List.Pairwise.filter p h

theorem Distinct.filter {m : Map β} (h : Distinct m) (p : Bytes × β → Bool) : Distinct (m.filter p) :=
  List.Pairwise.filter p h

/-- filtering commutes with canonicalisation (distinct keys) -/
theorem canon_filter {m : Map β} (hd : Distinct m) (p : Bytes × β → Bool) : (canon m).filter p = canon (m.filter p) :=
  sorted_perm_unique ((canon_sorted m).filter p) (canon_sorted _)
    (((canon_perm_self m).filter p).trans (canon_perm_self _).symm) ((hd.filter p).perm (canon_perm_self _))

theorem mapGet_canon {m : Map β} (hd : Distinct m) (k : Bytes) : mapGet (canon m) k = mapGet m k :=
  mapGet_perm hd (canon_perm_self m) k

theorem canon_distinct {m : Map β} (hd : Distinct m) : Distinct (canon m) := hd.perm (canon_perm_self m)

/-! ### lookups through filters -/

theorem mapGet_filter_key (m : Map Bytes) (q : Bytes → Bool) (k : Bytes) :
    mapGet (m.filter (fun e => q e.1)) k = if q k then mapGet m k else none := by
  induction m with
  | nil => simp
  | cons p r ih =>
    rw [List.filter_cons]
    by_cases hp : p.1 = k
    · subst hp
      by_cases hq : q p.1 = true
      · simp [hq, mapGet_cons]
      · have hq' : q p.1 = false := by simpa using hq
        simp only [hq', Bool.false_eq_true, ↓reduceIte]
        rw [ih]
        simp [hq']
    · have hpk : (p.1 == k) = false := by simpa using hp
      by_cases hq : q p.1 = true
      · simp only [hq, ↓reduceIte, mapGet_cons, hpk, Bool.false_eq_true]
        exact ih
      · have hq' : q p.1 = false := by simpa using hq
        simp only [hq', Bool.false_eq_true, ↓reduceIte, mapGet_cons, hpk]
        exact ih

theorem mapGet_mapRemove_ne (m : Map Bytes) {k' k : Bytes} (h : k' ≠ k) : mapGet (mapRemove m k') k = mapGet m k := by
  have := mapGet_filter_key m (fun x => x != k') k
  unfold mapRemove
  rw [this]
  have : (k != k') = true := by simpa using (Ne.symm h)
  simp [this]

theorem mapGet_mapRemove_self (m : Map Bytes) (k : Bytes) : mapGet (mapRemove m k) k = none := by
  have := mapGet_filter_key m (fun x => x != k) k
  unfold mapRemove
  rw [this]
  simp

/-! ### tables of optional values -/

def present (sk : List (Bytes × Option Bytes)) : List (Bytes × Bytes) :=
  sk.flatMap fun e => match e.2 with
    | some v => [(e.1, v)]
    | none => []

theorem present_append (a b : List (Bytes × Option Bytes)) : present (a ++ b) = present a ++ present b := by
  simp [present]

/-- lookup in the table (first match) -/
def tableGet : List (Bytes × Option Bytes) → Bytes → Option Bytes
  | [], _ => none
  | (k', o) :: r, k => if k' == k then o else tableGet r k

theorem mapGet_present (sk : List (Bytes × Option Bytes)) (hd : (sk.map (·.1)).Nodup) (k : Bytes) :
    mapGet (present sk) k = tableGet sk k := by
  induction sk with
  | nil => rfl
  | cons e r ih =>
    obtain ⟨k', o⟩ := e
    have hd' := List.nodup_cons.mp hd
    have hrest := ih hd'.2
    show mapGet (present ([(k', o)] ++ r)) k = _
    rw [present_append]
    simp only [tableGet]
    by_cases hk : k' = k
    · subst hk
      have hnot : ¬ HasKey (present r) k' := by
        rintro ⟨p, hp, hpk⟩
        simp only [present, List.mem_flatMap] at hp
        obtain ⟨e, he, hpe⟩ := hp
        apply hd'.1
        refine List.mem_map.mpr ⟨e, he, ?_⟩
        cases ho : e.2 with
        | none => simp [ho] at hpe
        | some v => simp only [ho, List.mem_singleton] at hpe; rw [hpe] at hpk; exact hpk
      cases o with
      | none =>
        simp only [present, List.flatMap_cons, List.flatMap_nil, List.append_nil, List.nil_append, BEq.rfl, ↓reduceIte]
        exact mapGet_none_of_not_hasKey hnot
      | some v =>
        simp [present, mapGet_cons]
    · have hkk : (k' == k) = false := by simpa using hk
      simp only [hkk, Bool.false_eq_true, ↓reduceIte]
      rw [← hrest]
      cases o with
      | none => simp [present]
      | some v => simp [present, mapGet_cons, hkk]

theorem hasKey_of_mapGet_none {m : Map Bytes} {k : Bytes} (h : mapGet m k = none) : ¬ HasKey m k := by
  induction m with
  | nil => exact not_hasKey_nil k
  | cons p r ih =>
    rw [mapGet_cons] at h
    by_cases hp : p.1 = k
    · simp [hp] at h
    · have : (p.1 == k) = false := by simpa using hp
      rw [this] at h
      simp only [Bool.false_eq_true, ↓reduceIte] at h
      intro hk
      rcases hasKey_cons.mp hk with h1 | h1
      · exact hp h1
      · exact ih h h1

end Gd.Gs
