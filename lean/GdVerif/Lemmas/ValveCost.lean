import GdVerif.Lemmas.QCost
import GdVerif.Lemmas.ValveSafe
/-
  How many datagrams the Valve query sends: at most one per attempt of each request, plus one per
  datagram received (the challenge echo).
-/
namespace Gd.Valve
open Gd

theorem cost_recvChunks (s : Sock) (engine : Engine) (protocol : Nat) (n : Nat) :
    Cost 0 0 (recvChunks s engine protocol n) := by
  induction n with
  | zero => exact Cost.pure _
  | succ n ih =>
    unfold recvChunks
    have h := Cost.bind (Cost.recv s (some PACKET_SIZE)) fun data =>
      Cost.bind (Cost.parse (splitPacketNew engine protocol) data) fun p =>
        Cost.bind ih fun ps => Cost.pure (p :: ps)
    exact h.weaken (by omega) (by omega)

theorem cost_afterFirst (ext : Ext) (s : Sock) (engine : Engine) (protocol : Nat) (data : Bytes) :
    Cost 0 0 (afterFirst ext s engine protocol data) := by
  unfold afterFirst
  have h := Cost.bind (Cost.parse readU8 data) fun header =>
    (Cost.ite (c := (header == 0xFE) = true)
      ((Cost.bind (Cost.parse (splitPacketNew engine protocol) data) fun first =>
        Cost.bind (cost_recvChunks s engine protocol (first.total - 1)) fun rest =>
          Cost.bind (Cost.lift (assemble ext (sortChunks (first :: rest)))) fun payload =>
            Cost.parse packetFromBuffer payload).weaken (Int.le_refl 0) (Int.le_refl 0))
      (Cost.parse packetFromBuffer data))
  exact h.weaken (by omega) (by omega)

/-- a successful `receive` earns one send -/
theorem cost_receive (ext : Ext) (s : Sock) (engine : Engine) (protocol : Nat) :
    Cost (-1) 0 (receive ext s engine protocol) := by
  rw [receive_eq]
  exact (Cost.bind (Cost.recv s (some PACKET_SIZE)) fun d => cost_afterFirst ext s engine protocol d).weaken
    (by omega) (by omega)

/-- the challenge loop: one send per challenge packet received; the packet it starts from has
already been paid for by the receive that produced it -/
theorem cost_challengeLoop (ext : Ext) (s : Sock) (engine : Engine) (protocol kind : Nat) :
    ∀ (fuel : Nat) (packet : Packet), Cost 1 1 (challengeLoop ext s engine protocol kind fuel packet) := by
  intro fuel
  induction fuel with
  | zero =>
    intro _ w
    exact ⟨[], by simp [challengeLoop], by simp [challengeLoop, nSends, nRecvOk]⟩
  | succ fuel ih =>
    intro packet
    unfold challengeLoop
    split
    · have h := Cost.bind (Cost.send s (packetBytes kind (if kind == 0x54 then infoPayload ++ packet.payload else packet.payload)))
        fun _ => Cost.bind (cost_receive ext s engine protocol) fun p => ih p
      exact h.weaken (by omega) (by omega)
    · exact (Cost.pure _).weaken (by omega) (by omega)

theorem cost_requestImpl (ext : Ext) (s : Sock) (engine : Engine) (protocol kind : Nat) (payload : Bytes) :
    Cost 1 1 (requestImpl ext s engine protocol kind payload) := by
  unfold requestImpl
  have hloop : ∀ packet, Cost 1 1 (fun w => challengeLoop ext s engine protocol kind (queued s w + 1) packet w) := by
    intro packet w
    exact cost_challengeLoop ext s engine protocol kind (queued s w + 1) packet w
  have h := Cost.bind (Cost.send s (packetBytes kind payload)) fun _ =>
    Cost.bind (cost_receive ext s engine protocol) fun packet => hloop packet
  exact h.weaken (by omega) (by omega)

theorem cost_requestData (ext : Ext) (s : Sock) (r : Nat) (engine : Engine) (protocol : Nat) (req : Request) :
    Cost ((r + 1 : Nat) : Int) ((r + 1 : Nat) : Int) (requestData ext s r engine protocol req) := by
  have := Cost.retry (k := 1) (cost_requestImpl ext s engine protocol req.kind req.defaultPayload) r
  simpa [requestData] using this

theorem cost_queryBody (ext : Ext) (s : Sock) (engine : Engine) (g : Gather) (r : Nat) :
    Cost ((3 * (r + 1) : Nat) : Int) ((3 * (r + 1) : Nat) : Int) (queryBody ext s engine g r) := by
  unfold queryBody getServerInfo getServerPlayers getServerRules
  have hk : (0 : Int) ≤ ((r + 1 : Nat) : Int) := Int.natCast_nonneg _
  have hsec : ∀ {α : Type} (protocol : Nat) (req : Request) (p : Par α),
      Cost ((r + 1 : Nat) : Int) ((r + 1 : Nat) : Int)
        (requestData ext s r engine protocol req >>= fun data => parse p data) := by
    intro α protocol req p
    exact (Cost.bind (cost_requestData ext s r engine protocol req) fun data => Cost.parse p data).weaken
      (by omega) (by omega)
  have h := Cost.bind (hsec 0 .info (parseInfo engine)) fun info =>
    Cost.ite (c := (!appIdOk engine g info.appid) = true)
      ((Cost.fail (α := Response) ErrKind.badGame).weaken (Int.mul_nonneg (by omega : (0:Int) ≤ 2) hk) (Int.mul_nonneg (by omega : (0:Int) ≤ 2) hk))
      ((Cost.bind (Cost.maybeGather hk (hsec info.protocolVersion .players (parsePlayers engine)) g.players) fun players =>
        Cost.bind (Cost.maybeGather hk (hsec info.protocolVersion .rules (parseRules engine)) g.rules) fun rules =>
          Cost.pure (⟨info, players, rules⟩ : Response)).weaken (by omega) (by omega))
  exact h.weaken (by push_cast; omega) (by push_cast; omega)

end Gd.Valve
