import GdVerif.Lemmas.SmallLogic
import GdVerif.Lemmas.ValveSafe
import GdVerif.Spec.Mindustry
/-
  Mindustry: crash freedom, wire conformance and field-by-field decoding of the model against the SPEC.
-/
namespace Gd.Mindustry
open Gd Gd.Mindustry.Spec

/-! ### crash freedom -/

theorem gameModeOf_ne (n : Nat) : gameModeOf n ≠ .crash := by
  unfold gameModeOf; split <;> simp

theorem safe_optional {p : Par α} (hp : Safe p) : Safe (optional p) := by
  intro b
  have := hp b
  unfold optional
  cases h : p b with
  | ok x => obtain ⟨a, b'⟩ := x; rw [h] at this; simpa [Post] using this
  | err k => simp [Post]
  | crash => rw [h] at this; exact this.elim

theorem safe_parseServerData : Safe parseServerData := by
  unfold parseServerData
  exact Safe.bind safe_readLenStr fun _ => Safe.bind safe_readLenStr fun _ =>
    Safe.bind (safe_readSigned _ _) fun _ => Safe.bind (safe_readSigned _ _) fun _ =>
    Safe.bind (safe_readSigned _ _) fun _ => Safe.bind safe_readLenStr fun _ => Safe.bind safe_readU8 fun _ =>
    Safe.bind (Safe.lift_ne _ (gameModeOf_ne _)) fun _ => Safe.bind (safe_readSigned _ _) fun _ =>
    Safe.bind safe_readLenStr fun _ => Safe.bind (safe_optional safe_readLenStr) fun _ => Safe.pure _

/-- what a Mindustry query may do to the transport: open UDP sockets to the given port, send the
two-byte ping to it, receive into the 500-byte buffer -/
def EvOk (port : Nat) : Ev → Prop
  | .opened _ tcp p _ => tcp = false ∧ p = port
  | .send _ p data _ => p = port ∧ data = ping
  | .recv _ size _ => size = some MAX_BUFFER_SIZE

theorem attempt_eq (port : Nat) :
    attempt port = (openSock false port >>= fun s => do
      send s ping
      let data ← recv s (some MAX_BUFFER_SIZE)
      parse parseServerData data) := rfl

theorem logSafe_attempt (port : Nat) : LogSafe (EvOk port) (attempt port) := by
  rw [attempt_eq]
  refine LogSafe.ofOpen false port (fun _ _ => ⟨rfl, rfl⟩) ?_
  intro s hp _
  exact QSafe.bind (QSafe.send s _ _ fun _ => ⟨hp, rfl⟩) fun _ =>
    QSafe.bind (QSafe.recv s _ _ fun _ => rfl) fun _ => QSafe.parse _ _ safe_parseServerData _

theorem logSafe_query (port retries : Nat) : LogSafe (EvOk port) (query port retries) :=
  LogSafe.retry (logSafe_attempt port) retries

theorem sendBound_attempt (port : Nat) : SendBound 1 (attempt port) := by
  unfold attempt
  exact (SendBound.bind (SendBound.openSock _ _) fun _ => SendBound.bind (SendBound.send _ _) fun _ =>
    SendBound.bind (SendBound.recv _ _) fun _ => SendBound.parse _ _).mono (by omega)

theorem sends_query (port retries : Nat) (script : List ConnScript) (faults : List Bool) :
    countSends (query port retries (Net.init script faults)).2.log ≤ retries + 1 := by
  have := ((sendBound_attempt port).retry retries).run script faults
  simpa [query] using this

/-! ### decoding -/

theorem okStr_iff (s : Bytes) : okStr s = true ↔ s.length < 256 ∧ (0 : UInt8) ∉ s ∧ validUtf8 s = true := by
  simp [okStr, List.contains_iff_mem, and_assoc]

theorem decodes_lenStr (s : Bytes) (h : okStr s = true) : Decodes readLenStr (lenStr s) s := by
  obtain ⟨hl, h0, hv⟩ := (okStr_iff s).mp h
  exact decodes_readLenStr s hl h0 hv

theorem decodes_be32 (i : Int) (h : okInt i = true) : Decodes (readSigned .big 4) (be32 i) i := by
  simp only [okInt, Bool.and_eq_true, decide_eq_true_eq] at h
  exact decodes_signed .big 4 (by omega) i (by simpa using h.1) (by simpa using h.2)

theorem ordinal_lt (m : GameMode) : ordinal m < 256 := by cases m <;> decide

theorem gameModeOf_ordinal (m : GameMode) : gameModeOf (ordinal m) = .ok m := by cases m <;> rfl

theorem decodesEnd_optStr (o : Option Bytes) (h : o.all okStr = true) :
    DecodesEnd (optional readLenStr) (optStr o) o := by
  intro b hr
  cases o with
  | none =>
    obtain ⟨k, hk⟩ := readLenStr_at_end b hr
    exact ⟨b, by simp [optional, hk], rfl⟩
  | some s =>
    obtain ⟨b', hp, _, hd⟩ := decodes_lenStr s (by simpa using h) b [] (by simpa [optStr] using hr)
    exact ⟨b', by simp [optional, hp], hd⟩

theorem decodesEnd_serverData (st : State) (h : wf st = true) :
    DecodesEnd parseServerData (encode st) (expected st) := by
  simp only [wf, Bool.and_eq_true, decide_eq_true_eq] at h
  obtain ⟨⟨⟨⟨⟨⟨⟨⟨⟨hname, hmap⟩, hpl⟩, hwave⟩, hbuild⟩, hvt⟩, hlim⟩, hdesc⟩, hmode⟩, _⟩ := h
  unfold parseServerData encode
  simp only [List.append_assoc]
  refine DecodesEnd.bind (decodes_lenStr _ hname) ?_ rfl
  refine DecodesEnd.bind (decodes_lenStr _ hmap) ?_ rfl
  refine DecodesEnd.bind (decodes_be32 _ hpl) ?_ rfl
  refine DecodesEnd.bind (decodes_be32 _ hwave) ?_ rfl
  refine DecodesEnd.bind (decodes_be32 _ hbuild) ?_ rfl
  refine DecodesEnd.bind (decodes_lenStr _ hvt) ?_ rfl
  refine DecodesEnd.bind (decodes_u8 _ (ordinal_lt _)) ?_ rfl
  refine DecodesEnd.bind (e1 := []) (by rw [gameModeOf_ordinal]; exact Decodes.lift_ok _) ?_ rfl
  refine DecodesEnd.bind (decodes_be32 _ hlim) ?_ rfl
  refine DecodesEnd.bind (decodes_lenStr _ hdesc) ?_ rfl
  exact DecodesEnd.bind_pure (decodesEnd_optStr _ hmode) (fun _ => rfl)

/-! ### strings that contain U+0000: the text ends there, the cursor still moves past the declared length -/

/-- what the reader makes of a string: the bytes before the first NUL -/
def cutNul (s : Bytes) : Bytes := s.take (findByte 0 s)

def cutState (st : State) : State :=
  { st with name := cutNul st.name, map := cutNul st.map, versionType := cutNul st.versionType,
            description := cutNul st.description, modeName := st.modeName.map cutNul }

def okStrCut (s : Bytes) : Bool := s.length < 256 && validUtf8 (cutNul s)

/-- `wf` without the exclusion of U+0000 -/
def wfCut (st : State) : Bool :=
  okStrCut st.name && okStrCut st.map && okInt st.totalPlayers && okInt st.wave && okInt st.build &&
  okStrCut st.versionType && okInt st.playerLimit && okStrCut st.description && st.modeName.all okStrCut &&
  (encode st).length ≤ 500

theorem decodes_lenStr_cut (s : Bytes) (h : okStrCut s = true) : Decodes readLenStr (lenStr s) (cutNul s) := by
  simp only [okStrCut, Bool.and_eq_true, decide_eq_true_eq] at h
  exact decodes_readLenStr_cut s h.1 h.2

theorem decodesEnd_optStr_cut (o : Option Bytes) (h : o.all okStrCut = true) :
    DecodesEnd (optional readLenStr) (optStr o) (o.map cutNul) := by
  intro b hr
  cases o with
  | none =>
    obtain ⟨k, hk⟩ := readLenStr_at_end b hr
    exact ⟨b, by simp [optional, hk], rfl⟩
  | some s =>
    obtain ⟨b', hp, _, hd⟩ := decodes_lenStr_cut s (by simpa using h) b [] (by simpa [optStr] using hr)
    exact ⟨b', by simp [optional, hp], hd⟩

theorem decodesEnd_serverData_cut (st : State) (h : wfCut st = true) :
    DecodesEnd parseServerData (encode st) (expected (cutState st)) := by
  simp only [wfCut, Bool.and_eq_true, decide_eq_true_eq] at h
  obtain ⟨⟨⟨⟨⟨⟨⟨⟨⟨hname, hmap⟩, hpl⟩, hwave⟩, hbuild⟩, hvt⟩, hlim⟩, hdesc⟩, hmode⟩, _⟩ := h
  unfold parseServerData encode
  simp only [List.append_assoc]
  refine DecodesEnd.bind (decodes_lenStr_cut _ hname) ?_ rfl
  refine DecodesEnd.bind (decodes_lenStr_cut _ hmap) ?_ rfl
  refine DecodesEnd.bind (decodes_be32 _ hpl) ?_ rfl
  refine DecodesEnd.bind (decodes_be32 _ hwave) ?_ rfl
  refine DecodesEnd.bind (decodes_be32 _ hbuild) ?_ rfl
  refine DecodesEnd.bind (decodes_lenStr_cut _ hvt) ?_ rfl
  refine DecodesEnd.bind (decodes_u8 _ (ordinal_lt _)) ?_ rfl
  refine DecodesEnd.bind (e1 := []) (by rw [gameModeOf_ordinal]; exact Decodes.lift_ok _) ?_ rfl
  refine DecodesEnd.bind (decodes_be32 _ hlim) ?_ rfl
  refine DecodesEnd.bind (decodes_lenStr_cut _ hdesc) ?_ rfl
  exact DecodesEnd.bind_pure (decodesEnd_optStr_cut _ hmode) (fun _ => rfl)

/-- the whole exchange against a conforming server: socket, ping, one datagram, decode -/
theorem attempt_script (port : Nat) (d : Bytes) (hd : d.length ≤ MAX_BUFFER_SIZE) :
    (attempt port (Net.init [.opened [.data d]] [])).1 = parseServerData.run d := by
  have ht : d.take 500 = d := List.take_of_length_le hd
  simp [attempt, Q.bind_apply, openSock, Net.init, send, recv, setAt, parse, Q.lift, MAX_BUFFER_SIZE, ht,
    bind, Q.bind']

end Gd.Mindustry
