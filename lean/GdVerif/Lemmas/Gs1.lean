import GdVerif.Lemmas.GsMap
import GdVerif.Lemmas.GsText
import GdVerif.Lemmas.QLogic
import GdVerif.Spec.Gs1
/-
  GameSpy 1: the model against the SPEC encoders, part 1 — one datagram (text level) and the
  receive loop over any sequence of the reply's parts.
-/
namespace Gd.Gs1
open Gd Gd.Gs Gd.Gs1.Spec

/-! ### text of one datagram -/

/-- the pieces between the backslashes -/
def piecesOf (qs : List (Bytes × Bytes)) : List Bytes := qs.flatMap fun p => [p.1, p.2]

theorem pairsOf_piecesOf (qs : List (Bytes × Bytes)) : pairsOf (piecesOf qs) = qs := by
  induction qs with
  | nil => rfl
  | cons p r ih =>
    simp only [piecesOf, List.flatMap_cons, List.cons_append, List.nil_append, pairsOf] at ih ⊢
    rw [ih]

theorem flatten_encPair (qs : List (Bytes × Bytes)) (hne : qs ≠ []) :
    (qs.map encPair).flatten = 92 :: joinWith 92 (piecesOf qs) := by
  induction qs with
  | nil => exact absurd rfl hne
  | cons p r ih =>
    cases r with
    | nil => simp [encPair, piecesOf, joinWith]
    | cons q r' =>
      have := ih (by simp)
      simp only [List.map_cons, List.flatten_cons] at this ⊢
      rw [this]
      simp [encPair, piecesOf, joinWith]

theorem dropWhile_isCont_of_head {J : Bytes} (h : ∀ b ∈ J.head?, isCont b = false) : J.dropWhile isCont = J := by
  cases J with
  | nil => rfl
  | cons b r => simp [List.dropWhile, h b (by simp)]

/-- what travels as a key or value -/
def OkText (s : Bytes) : Prop := (92 : UInt8) ∉ s ∧ (0 : UInt8) ∉ s ∧ validUtf8 s = true

theorem okText_iff (s : Bytes) : okText s = true ↔ OkText s := by
  simp [okText, OkText, and_assoc]

def OkPairs (qs : List (Bytes × Bytes)) : Prop := ∀ p ∈ qs, OkText p.1 ∧ OkText p.2

/-- the pairs of a datagram's text are the pairs encoded -/
theorem textPairs_enc (qs : List (Bytes × Bytes)) (hne : qs ≠ []) (hok : OkPairs qs) :
    textPairs ((qs.map encPair).flatten) = qs := by
  unfold textPairs
  rw [flatten_encPair qs hne]
  simp only [dropFirstChar]
  have hhead : ∀ b ∈ (joinWith 92 (piecesOf qs)).head?, isCont b = false := by
    cases qs with
    | nil => exact absurd rfl hne
    | cons p r =>
      intro b hb
      have hp := (hok p (by simp)).1
      cases hk : p.1 with
      | nil =>
        simp only [piecesOf, List.flatMap_cons, hk, List.cons_append, List.nil_append, joinWith] at hb
        obtain rfl : (92 : UInt8) = b := by simpa using hb
        decide
      | cons x xs =>
        simp only [piecesOf, List.flatMap_cons, hk, List.cons_append, List.nil_append, joinWith] at hb
        obtain rfl : x = b := by simpa using hb
        exact validUtf8_head _ xs (hk ▸ hp.2.2)
  rw [dropWhile_isCont_of_head hhead]
  rw [splitOn_joinWith 92 (piecesOf qs)]
  · exact pairsOf_piecesOf qs
  · cases qs with
    | nil => exact absurd rfl hne
    | cons p r => simp [piecesOf]
  · intro x hx
    simp only [piecesOf, List.mem_flatMap] at hx
    obtain ⟨p, hp, hx⟩ := hx
    have := hok p hp
    simp only [List.mem_cons, List.not_mem_nil, or_false] at hx
    rcases hx with rfl | rfl
    · exact this.1.1
    · exact this.2.1

theorem okText_flatten_encPair (qs : List (Bytes × Bytes)) (hok : OkPairs qs) :
    (0 : UInt8) ∉ (qs.map encPair).flatten ∧ validUtf8 (qs.map encPair).flatten = true := by
  induction qs with
  | nil => simp [validUtf8]
  | cons p r ih =>
    have hp := hok p (by simp)
    obtain ⟨h0, hv⟩ := ih (fun q hq => hok q (by simp [hq]))
    simp only [List.map_cons, List.flatten_cons]
    have h92 : validUtf8 [92] = true := by decide
    refine ⟨?_, ?_⟩
    · simp only [encPair, List.mem_append, List.mem_singleton, not_or]
      exact ⟨⟨⟨⟨by decide, hp.1.2.1⟩, by decide⟩, hp.2.2.1⟩, h0⟩
    · unfold encPair
      exact validUtf8_append _ _ (validUtf8_append _ _ (validUtf8_append _ _ (validUtf8_append _ _ h92 hp.1.2.2) h92) hp.2.2.2) hv

/-! ### inserting the pairs of a part -/

theorem insertAll_nil (m : Map Bytes) : insertAll m [] = m := rfl

theorem insertAll_cons (m : Map Bytes) (p : Bytes × Bytes) (r : List (Bytes × Bytes)) :
    insertAll m (p :: r) = insertAll (mapInsert m p.1 p.2) r := rfl

/-- fresh, pairwise distinct keys are appended -/
theorem insertAll_fresh (m : Map Bytes) (ps : List (Bytes × Bytes)) (hf : ∀ p ∈ ps, ¬ HasKey m p.1)
    (hd : Distinct ps) : insertAll m ps = m ++ ps := by
  induction ps generalizing m with
  | nil => simp [insertAll_nil]
  | cons p r ih =>
    rw [insertAll_cons, mapInsert_fresh p.2 (hf p (by simp))]
    have hd' := List.pairwise_cons.mp hd
    rw [ih (m ++ [(p.1, p.2)]) ?_ hd'.2]
    · simp
    · intro q hq hk
      rcases hasKey_append.mp hk with h | h
      · exact hf q (by simp [hq]) h
      · obtain ⟨x, hx, hxk⟩ := h
        simp only [List.mem_singleton] at hx
        subst hx
        exact hd'.1 q hq hxk

/-! ### the query id -/

theorem kFinal_ne_kQueryId : kFinal ≠ kQueryId := by decide +kernel

theorem parseQueryId_enc (n N i : Nat) (hN : N < 2 ^ 64) (hi : i < 2 ^ 64) :
    parseQueryId n (some (dec N ++ [46] ++ dec i)) = .ok (some N, i) := by
  unfold parseQueryId
  simp only
  have h46 : ∀ k, (46 : UInt8) ∉ dec k := fun k => dec_not_mem k 46 (by decide)
  have hs : splitOn 46 (dec N ++ [46] ++ dec i) = [dec N, dec i] := by
    rw [List.append_assoc, List.singleton_append, splitOn_append_delim 46 _ _ (h46 N), splitOn_no_delim 46 _ (h46 i)]
  rw [hs]
  simp only [parseUnsigned_dec 64 N hN, parseUnsigned_dec 64 i hi]

/-! ### one round of the loop on a part of the reply -/

/-- the pairs a part's datagram ends with -/
def trailer (y : Style) (total i : Nat) : List (Bytes × Bytes) :=
  if i == total then
    (if y.finalFirst then [(kFinal, []), queryIdPair y i] else [queryIdPair y i, (kFinal, [])])
  else [queryIdPair y i]

theorem encPart_eq (y : Style) (total i : Nat) (ps : List (Bytes × Bytes)) :
    encPart y total i ps = ((ps ++ trailer y total i).map encPair).flatten := by
  unfold encPart trailer
  split
  · split <;> simp [List.map_append, List.flatten_append]
  · simp [List.map_append, List.flatten_append]

theorem okText_kFinal : OkText kFinal := (okText_iff _).mp (by decide +kernel)
theorem okText_kQueryId : OkText kQueryId := (okText_iff _).mp (by decide +kernel)
theorem okText_nil : OkText [] := (okText_iff _).mp (by decide +kernel)

theorem okText_queryIdText (N i : Nat) : OkText (dec N ++ [46] ++ dec i) := by
  have hasc : asciiOnly (dec N ++ [46] ++ dec i) := by
    intro b hb
    simp only [List.mem_append, List.mem_singleton] at hb
    rcases hb with (h | rfl) | h
    · have := dec_mem_digit N b h; omega
    · decide
    · have := dec_mem_digit i b h; omega
  refine ⟨?_, ?_, validUtf8_of_ascii _ hasc⟩
  · simp only [List.mem_append, List.mem_singleton, not_or]
    exact ⟨⟨dec_not_mem N 92 (by decide), by decide⟩, dec_not_mem i 92 (by decide)⟩
  · simp only [List.mem_append, List.mem_singleton, not_or]
    exact ⟨⟨dec_not_mem N 0 (by decide), by decide⟩, dec_not_mem i 0 (by decide)⟩

theorem okPairs_trailer (y : Style) (total i : Nat) : OkPairs (trailer y total i) := by
  have hq : OkText (queryIdPair y i).1 ∧ OkText (queryIdPair y i).2 := ⟨okText_kQueryId, okText_queryIdText _ _⟩
  have hf : OkText ((kFinal, ([] : Bytes)) : Bytes × Bytes).1 ∧ OkText ((kFinal, ([] : Bytes)) : Bytes × Bytes).2 :=
    ⟨okText_kFinal, okText_nil⟩
  unfold trailer
  intro p hp
  split at hp
  · split at hp
    · simp only [List.mem_cons, List.not_mem_nil, or_false] at hp
      rcases hp with rfl | rfl
      · exact hf
      · exact hq
    · simp only [List.mem_cons, List.not_mem_nil, or_false] at hp
      rcases hp with rfl | rfl
      · exact hq
      · exact hf
  · simp only [List.mem_cons, List.not_mem_nil, or_false] at hp
    subst hp
    exact hq

theorem trailer_ne_nil (y : Style) (total i : Nat) : trailer y total i ≠ [] := by
  unfold trailer
  split
  · split <;> simp
  · simp

/-- every key of a trailer is `final` or `queryid` -/
theorem trailer_keys (y : Style) (total i : Nat) : ∀ p ∈ trailer y total i, p.1 = kFinal ∨ p.1 = kQueryId := by
  unfold trailer
  intro p hp
  split at hp
  · split at hp <;> simp only [List.mem_cons, List.not_mem_nil, or_false] at hp <;> rcases hp with rfl | rfl <;>
      simp [queryIdPair]
  · simp only [List.mem_cons, List.not_mem_nil, or_false] at hp
    subst hp
    simp [queryIdPair]

theorem trailer_distinct (y : Style) (total i : Nat) : Distinct (trailer y total i) := by
  have h1 : kFinal ≠ kQueryId := kFinal_ne_kQueryId
  unfold trailer Distinct
  split
  · split <;> simp [queryIdPair, h1, Ne.symm h1]
  · simp

/-- what the three steps after the insertion (`final`, `queryid`) see and leave, for a map that
ends with a trailer -/
theorem trailer_effect (y : Style) (total i : Nat) (base : Map Bytes)
    (hbf : ¬ HasKey base kFinal) (hbq : ¬ HasKey base kQueryId) :
    (mapGet (base ++ trailer y total i) kFinal).isSome = (i == total)
    ∧ mapGet (mapRemove (base ++ trailer y total i) kFinal) kQueryId = some (dec y.queryId ++ [46] ++ dec i)
    ∧ mapRemove (mapRemove (base ++ trailer y total i) kFinal) kQueryId = base := by
  have h1 : (kFinal == kQueryId) = false := by decide +kernel
  have h2 : (kQueryId == kFinal) = false := by decide +kernel
  rw [mapGet_append_right hbf, mapRemove_append, mapRemove_of_not_hasKey hbf]
  have hbq' : ¬ HasKey base kQueryId := hbq
  unfold trailer
  split
  · rename_i he
    split
    · simp only [he, queryIdPair, mapGet_cons, mapRemove_cons, mapRemove_append, mapGet_append_right hbq',
        mapRemove_of_not_hasKey hbq', BEq.rfl, ↓reduceIte, h1, h2, Bool.false_eq_true, mapGet_nil, Option.isSome_some]
      simp [mapRemove]
    · simp only [he, queryIdPair, mapGet_cons, mapRemove_cons, mapRemove_append, mapGet_append_right hbq',
        mapRemove_of_not_hasKey hbq', BEq.rfl, ↓reduceIte, h1, h2, Bool.false_eq_true, mapGet_nil, Option.isSome_some]
      simp [mapRemove]
  · rename_i he
    have he' : (i == total) = false := by simpa using he
    simp only [he', queryIdPair, mapGet_cons, mapRemove_cons, mapRemove_append, mapGet_append_right hbq',
      mapRemove_of_not_hasKey hbq', BEq.rfl, ↓reduceIte, h1, h2, Bool.false_eq_true, mapGet_nil, Option.isSome_none]
    simp [mapRemove]

theorem hasKey_mapInsert {m : Map Bytes} {k' : Bytes} {v : Bytes} {k : Bytes} (h : HasKey (mapInsert m k' v) k) :
    k' = k ∨ HasKey m k := by
  induction m with
  | nil =>
    obtain ⟨p, hp, hk⟩ := h
    simp only [mapInsert, List.mem_singleton] at hp
    subst hp
    exact Or.inl hk
  | cons q r ih =>
    obtain ⟨a, b⟩ := q
    simp only [mapInsert] at h
    split at h
    · rcases hasKey_cons.mp h with h | h
      · exact Or.inl h
      · exact Or.inr (hasKey_cons.mpr (Or.inr h))
    · rcases hasKey_cons.mp h with h | h
      · exact Or.inr (hasKey_cons.mpr (Or.inl h))
      · rcases ih h with h | h
        · exact Or.inl h
        · exact Or.inr (hasKey_cons.mpr (Or.inr h))

theorem hasKey_insertAll {m : Map Bytes} {ps : List (Bytes × Bytes)} {k : Bytes} (h : HasKey (insertAll m ps) k) :
    HasKey m k ∨ ∃ p ∈ ps, p.1 = k := by
  induction ps generalizing m with
  | nil => exact Or.inl h
  | cons p r ih =>
    rw [insertAll_cons] at h
    rcases ih h with h | ⟨q, hq, hk⟩
    · rcases hasKey_mapInsert h with h | h
      · exact Or.inr ⟨p, by simp, h⟩
      · exact Or.inl h
    · exact Or.inr ⟨q, by simp [hq], hk⟩

theorem insertAll_append (m : Map Bytes) (a b : List (Bytes × Bytes)) :
    insertAll m (a ++ b) = insertAll (insertAll m a) b := by
  simp [insertAll, List.foldl_append]

/-- one round on the datagram of a part, whatever the map already holds -/
theorem processPacket_part (y : Style) (total i : Nat) (st : LoopSt) (ps : List (Bytes × Bytes))
    (hok : OkPairs ps) (hnf : ∀ p ∈ ps, p.1 ≠ kFinal ∧ p.1 ≠ kQueryId)
    (hvf : ¬ HasKey st.vals kFinal) (hvq : ¬ HasKey st.vals kQueryId)
    (hN : y.queryId < 2 ^ 64) (hi : i < 2 ^ 64) :
    processPacket st (encPart y total i ps) =
      if st.qid.isSome && st.qid != some y.queryId then .err .packetBad
      else if st.parts.contains i then .err .packetBad
      else .ok ⟨insertAll st.vals ps, st.parts ++ [i], some y.queryId, if i == total then some i else st.finalPart⟩ := by
  have hokall : OkPairs (ps ++ trailer y total i) := by
    intro p hp
    rcases List.mem_append.mp hp with h | h
    · exact hok p h
    · exact okPairs_trailer y total i p h
  have hne : ps ++ trailer y total i ≠ [] := by
    intro h
    exact trailer_ne_nil y total i (List.append_eq_nil_iff.mp h).2
  obtain ⟨h0, hv⟩ := okText_flatten_encPair _ hokall
  have hbf : ¬ HasKey (insertAll st.vals ps) kFinal := by
    intro h
    rcases hasKey_insertAll h with h | ⟨p, hp, hk⟩
    · exact hvf h
    · exact (hnf p hp).1 hk
  have hbq : ¬ HasKey (insertAll st.vals ps) kQueryId := by
    intro h
    rcases hasKey_insertAll h with h | ⟨p, hp, hk⟩
    · exact hvq h
    · exact (hnf p hp).2 hk
  have hins : insertAll st.vals (ps ++ trailer y total i) = insertAll st.vals ps ++ trailer y total i := by
    rw [insertAll_append, insertAll_fresh _ _ ?_ (trailer_distinct y total i)]
    intro p hp
    rcases trailer_keys y total i p hp with hk | hk <;> rw [hk] <;> assumption
  obtain ⟨e1, e2, e3⟩ := trailer_effect y total i (insertAll st.vals ps) hbf hbq
  unfold processPacket
  rw [encPart_eq, readCStr_run_whole _ h0 hv]
  simp only
  have hnonempty : ((ps ++ trailer y total i).map encPair).flatten.isEmpty = false := by
    rw [flatten_encPair _ hne]; rfl
  rw [hnonempty]
  simp only [Bool.false_eq_true, ↓reduceIte]
  rw [textPairs_enc _ hne hokall, hins, e2, parseQueryId_enc _ _ _ hN hi]
  simp only [e1, e3]

/-! ### the receive loop over parts of one reply, in any order, with repetitions -/

/-- a part with its number -/
abbrev NPart := Nat × List (Bytes × Bytes)

/-- what the proofs need to know about the numbered parts of a reply -/
structure PartsOk (y : Style) (P : List NPart) : Prop where
  ok : ∀ a ∈ P, OkPairs a.2
  distinct : ∀ a ∈ P, Distinct a.2
  nofinal : ∀ a ∈ P, ∀ p ∈ a.2, p.1 ≠ kFinal ∧ p.1 ≠ kQueryId
  cross : ∀ a ∈ P, ∀ b ∈ P, ∀ p ∈ a.2, ∀ q ∈ b.2, p.1 = q.1 → a.1 = b.1
  nums : P.map (·.1) = List.range' 1 P.length
  small : P.length < 2 ^ 64
  qid : y.queryId < 2 ^ 64

/-- the loop state after the parts `seen` (in arrival order) have been processed -/
structure Inv (y : Style) (P seen : List NPart) (st : LoopSt) : Prop where
  sub : ∀ a ∈ seen, a ∈ P
  nodup : (seen.map (·.1)).Nodup
  vals : st.vals = seen.flatMap (·.2)
  parts : st.parts = seen.map (·.1)
  qid : st.qid = none ∨ st.qid = some y.queryId
  fin : st.finalPart = if P.length ∈ seen.map (·.1) then some P.length else none

theorem Inv.init (y : Style) (P : List NPart) : Inv y P [] LoopSt.init :=
  ⟨by simp, by simp, rfl, rfl, Or.inl rfl, by simp [LoopSt.init]⟩

theorem PartsOk.num_range {y : Style} {P : List NPart} (hP : PartsOk y P) {a : NPart} (ha : a ∈ P) :
    1 ≤ a.1 ∧ a.1 ≤ P.length := by
  have : a.1 ∈ P.map (·.1) := List.mem_map.mpr ⟨a, ha, rfl⟩
  rw [hP.nums, List.mem_range'_1] at this
  omega

theorem Inv.not_hasKey_of_new {y : Style} {P seen : List NPart} {st : LoopSt} (hP : PartsOk y P)
    (hinv : Inv y P seen st) {a : NPart} (ha : a ∈ P) (hnew : a.1 ∉ seen.map (·.1)) :
    ∀ p ∈ a.2, ¬ HasKey st.vals p.1 := by
  intro p hp hk
  rw [hinv.vals] at hk
  obtain ⟨q, hq, hqk⟩ := hk
  obtain ⟨b, hb, hqb⟩ := List.mem_flatMap.mp hq
  have := hP.cross b (hinv.sub b hb) a ha q hqb p hp hqk
  exact hnew (List.mem_map.mpr ⟨b, hb, this⟩)

theorem Inv.no_special {y : Style} {P seen : List NPart} {st : LoopSt} (hP : PartsOk y P)
    (hinv : Inv y P seen st) : ¬ HasKey st.vals kFinal ∧ ¬ HasKey st.vals kQueryId := by
  rw [hinv.vals]
  constructor
  · rintro ⟨q, hq, hqk⟩
    obtain ⟨b, hb, hqb⟩ := List.mem_flatMap.mp hq
    exact (hP.nofinal b (hinv.sub b hb) q hqb).1 hqk
  · rintro ⟨q, hq, hqk⟩
    obtain ⟨b, hb, hqb⟩ := List.mem_flatMap.mp hq
    exact (hP.nofinal b (hinv.sub b hb) q hqb).2 hqk

/-- the datagram of a numbered part -/
def encN (y : Style) (total : Nat) (a : NPart) : Bytes := encPart y total a.1 a.2

theorem processPacket_eq {y : Style} {P seen : List NPart} {st : LoopSt} (hP : PartsOk y P)
    (hinv : Inv y P seen st) {a : NPart} (ha : a ∈ P) :
    processPacket st (encN y P.length a) =
      if st.parts.contains a.1 then .err .packetBad
      else .ok ⟨insertAll st.vals a.2, st.parts ++ [a.1], some y.queryId,
                if a.1 == P.length then some a.1 else st.finalPart⟩ := by
  have hns := hinv.no_special hP
  have hr := hP.num_range ha
  have hsm := hP.small
  unfold encN
  rw [processPacket_part y P.length a.1 st a.2 (hP.ok a ha) (hP.nofinal a ha) hns.1 hns.2 hP.qid (by omega)]
  have hq : (st.qid.isSome && st.qid != some y.queryId) = false := by
    rcases hinv.qid with h | h <;> simp [h]
  simp only [hq, Bool.false_eq_true, ↓reduceIte]

/-- a part that has not been seen yet is merged -/
theorem step_new {y : Style} {P seen : List NPart} {st : LoopSt} (hP : PartsOk y P) (hinv : Inv y P seen st)
    {a : NPart} (ha : a ∈ P) (hnew : a.1 ∉ seen.map (·.1)) :
    ∃ st', processPacket st (encN y P.length a) = .ok st' ∧ Inv y P (seen ++ [a]) st' := by
  have hc : st.parts.contains a.1 = false := by
    rw [hinv.parts]
    simpa using hnew
  refine ⟨_, by rw [processPacket_eq hP hinv ha, hc]; rfl, ?_⟩
  refine ⟨?_, ?_, ?_, ?_, Or.inr rfl, ?_⟩
  · intro b hb
    rcases List.mem_append.mp hb with h | h
    · exact hinv.sub b h
    · simp only [List.mem_singleton] at h; exact h ▸ ha
  · rw [List.map_append, List.nodup_append]
    refine ⟨hinv.nodup, by simp, ?_⟩
    intro x hx z hz
    simp only [List.map_cons, List.map_nil, List.mem_singleton] at hz
    subst hz
    intro hxz
    exact hnew (hxz ▸ hx)
  · show insertAll st.vals a.2 = _
    rw [insertAll_fresh _ _ (hinv.not_hasKey_of_new hP ha hnew) (hP.distinct a ha), hinv.vals]
    simp
  · simp [hinv.parts]
  · simp only [hinv.fin, List.map_append, List.map_cons, List.map_nil, List.mem_append, List.mem_singleton]
    by_cases he : a.1 = P.length
    · simp [he]
    · have he' : (a.1 == P.length) = false := by simpa using he
      have : ¬ P.length = a.1 := fun h => he h.symm
      simp only [he', this, or_false, Bool.false_eq_true, ↓reduceIte]

/-- a part that has been seen already is rejected -/
theorem step_dup {y : Style} {P seen : List NPart} {st : LoopSt} (hP : PartsOk y P) (hinv : Inv y P seen st)
    {a : NPart} (ha : a ∈ P) (hdup : a.1 ∈ seen.map (·.1)) :
    processPacket st (encN y P.length a) = .err .packetBad := by
  have hc : st.parts.contains a.1 = true := by
    rw [hinv.parts]
    simpa using hdup
  rw [processPacket_eq hP hinv ha, hc]
  rfl

/-! ### when the loop stops -/

theorem nodup_of_map_nodup {α β : Type} (f : α → β) {l : List α} (h : (l.map f).Nodup) : l.Nodup :=
  List.Pairwise.of_map f (fun _ _ hab e => hab (congrArg f e)) h

theorem PartsOk.nodup {y : Style} {P : List NPart} (hP : PartsOk y P) : P.Nodup := by
  have : (P.map (·.1)).Nodup := by rw [hP.nums]; exact List.nodup_range'
  exact nodup_of_map_nodup _ this

/-- all the parts have been seen exactly when as many as there are have been seen -/
theorem Inv.perm_of_length {y : Style} {P seen : List NPart} {st : LoopSt} (hP : PartsOk y P)
    (hinv : Inv y P seen st) (hlen : P.length ≤ seen.length) : seen.Perm P := by
  have hsn : seen.Nodup := nodup_of_map_nodup _ hinv.nodup
  rw [List.perm_ext_iff_of_nodup hsn hP.nodup]
  intro a
  refine ⟨hinv.sub a, fun ha => ?_⟩
  apply Classical.byContradiction
  intro hna
  have hnd : (a :: seen).Nodup := List.nodup_cons.mpr ⟨hna, hsn⟩
  have hsub : (a :: seen) ⊆ P := by
    intro x hx
    rcases List.mem_cons.mp hx with rfl | hx'
    · exact ha
    · exact hinv.sub x hx'
  have := hnd.length_le_of_subset hsub
  simp only [List.length_cons] at this
  omega

theorem Inv.length_le {y : Style} {P seen : List NPart} {st : LoopSt} (hP : PartsOk y P)
    (hinv : Inv y P seen st) : seen.length ≤ P.length :=
  (nodup_of_map_nodup _ hinv.nodup).length_le_of_subset (fun a ha => hinv.sub a ha)

theorem Inv.done_iff {y : Style} {P seen : List NPart} {st : LoopSt} (hP : PartsOk y P)
    (hinv : Inv y P seen st) (hne : P ≠ []) : st.done = true ↔ seen.Perm P := by
  have hle := hinv.length_le hP
  have hpos : 0 < P.length := List.length_pos_iff.mpr hne
  unfold LoopSt.done
  rw [hinv.fin, hinv.parts, List.length_map]
  constructor
  · intro h
    split at h
    · cases h
    · rename_i last heq
      split at heq
      · cases heq
        simp only [Bool.not_eq_eq_eq_not, Bool.not_true, decide_eq_false_iff_not, Nat.not_lt] at h
        exact hinv.perm_of_length hP h
      · cases heq
  · intro hp
    have hmem : P.length ∈ seen.map (·.1) := by
      have : P.length ∈ P.map (·.1) := by rw [hP.nums, List.mem_range'_1]; omega
      exact (hp.map _).mem_iff.mpr this
    simp only [hmem, ↓reduceIte, hp.length_eq]
    simp

/-- all the variables of the reply -/
def allOf (P : List NPart) : List (Bytes × Bytes) := P.flatMap (·.2)

theorem PartsOk.distinct_all {y : Style} {P : List NPart} (hP : PartsOk y P) : Distinct (allOf P) := by
  unfold allOf Distinct
  rw [List.pairwise_flatMap]
  refine ⟨fun a ha => hP.distinct a ha, ?_⟩
  have hn : P.Pairwise (fun a b => a.1 ≠ b.1) := by
    have : (P.map (·.1)).Nodup := by rw [hP.nums]; exact List.nodup_range'
    exact List.pairwise_map.mp this
  refine List.Pairwise.imp_of_mem ?_ hn
  intro a b ha hb hab p hp q hq hpq
  exact hab (hP.cross a ha b hb p hp q hq hpq)

/-! ### the loop without the transport -/

/-- the `while` loop fed from a list of datagrams; the list running out is a receive timeout -/
def loopOn : LoopSt → List Bytes → Res (Map Bytes)
  | st, [] => if st.done then .ok (canon st.vals) else .err .packetReceive
  | st, d :: r =>
    if st.done then .ok (canon st.vals)
    else match processPacket st d with
      | .ok st' => loopOn st' r
      | .err k => .err k
      | .crash => .crash

/-- Any arrival order of the parts gives all the variables. -/
theorem loopOn_perm {y : Style} {P : List NPart} (hP : PartsOk y P) (hne : P ≠ []) :
    ∀ (rest seen : List NPart) (st : LoopSt), Inv y P seen st → (seen ++ rest).Perm P →
      loopOn st (rest.map (encN y P.length)) = .ok (canon (allOf P)) := by
  intro rest
  induction rest with
  | nil =>
    intro seen st hinv hp
    simp only [List.append_nil] at hp
    have hd := (hinv.done_iff hP hne).mpr hp
    simp only [List.map_nil, loopOn, hd, ↓reduceIte]
    rw [hinv.vals]
    exact congrArg _ (canon_perm hP.distinct_all (hp.flatMap_right _))
  | cons a r ih =>
    intro seen st hinv hp
    have haP : a ∈ P := hp.mem_iff.mp (by simp)
    have hnd : ((seen ++ a :: r).map (·.1)).Nodup := by
      have : (P.map (·.1)).Nodup := by rw [hP.nums]; exact List.nodup_range'
      exact (hp.map _).nodup_iff.mpr this
    have hnew : a.1 ∉ seen.map (·.1) := by
      rw [List.map_append, List.nodup_append] at hnd
      intro hx
      exact hnd.2.2 _ hx _ (by simp) rfl
    have hnotdone : st.done = false := by
      cases hdn : st.done with
      | false => rfl
      | true =>
        have := ((hinv.done_iff hP hne).mp hdn).length_eq
        have h2 := hp.length_eq
        simp only [List.length_append, List.length_cons] at h2
        omega
    obtain ⟨st', hst, hinv'⟩ := step_new hP hinv haP hnew
    simp only [List.map_cons, loopOn, hnotdone, Bool.false_eq_true, ↓reduceIte, hst]
    exact ih (seen ++ [a]) st' hinv' (by simpa using hp)

/-- Any sequence of datagrams drawn from the parts of the reply (any order, repetitions,
omissions) gives all the variables or an error. -/
theorem loopOn_drawn {y : Style} {P : List NPart} (hP : PartsOk y P) (hne : P ≠ []) :
    ∀ (rest seen : List NPart) (st : LoopSt), Inv y P seen st → (∀ a ∈ rest, a ∈ P) →
      loopOn st (rest.map (encN y P.length)) = .ok (canon (allOf P))
      ∨ ∃ k, loopOn st (rest.map (encN y P.length)) = .err k := by
  intro rest
  induction rest with
  | nil =>
    intro seen st hinv _
    simp only [List.map_nil, loopOn]
    cases hd : st.done with
    | false => exact Or.inr ⟨.packetReceive, by simp⟩
    | true =>
      have hp := (hinv.done_iff hP hne).mp hd
      left
      simp only [↓reduceIte]
      rw [hinv.vals]
      exact congrArg _ (canon_perm hP.distinct_all (hp.flatMap_right _))
  | cons a r ih =>
    intro seen st hinv hall
    have haP : a ∈ P := hall a (by simp)
    simp only [List.map_cons, loopOn]
    cases hd : st.done with
    | true =>
      have hp := (hinv.done_iff hP hne).mp hd
      left
      simp only [↓reduceIte]
      rw [hinv.vals]
      exact congrArg _ (canon_perm hP.distinct_all (hp.flatMap_right _))
    | false =>
      simp only [Bool.false_eq_true, ↓reduceIte]
      by_cases hseen : a.1 ∈ seen.map (·.1)
      · rw [step_dup hP hinv haP hseen]
        exact Or.inr ⟨_, rfl⟩
      · obtain ⟨st', hst, hinv'⟩ := step_new hP hinv haP hseen
        rw [hst]
        exact ih (seen ++ [a]) st' hinv' (fun b hb => hall b (by simp [hb]))

/-! ### the loop on the transport -/

theorem take_of_length_le {d : Bytes} {n : Nat} (h : d.length ≤ n) : d.take n = d := List.take_of_length_le h

theorem recv_udp_data (s : Sock) (hudp : s.tcp = false) (w : Net) (d : Bytes) (rest : List Delivery) (n : Nat)
    (hq : w.conns.getD s.id [] = .data d :: rest) :
    ∃ w1, recv s (some n) w = (.ok (d.take n), w1) ∧ w1.conns = setAt w.conns s.id rest := by
  unfold recv
  rw [hq]
  simp only [hudp, Bool.false_eq_true, ↓reduceIte, Option.getD_some]
  exact ⟨_, rfl, rfl⟩

theorem recv_udp_empty (s : Sock) (hudp : s.tcp = false) (w : Net) (n : Nat) (hq : w.conns.getD s.id [] = []) :
    ∃ w1, recv s (some n) w = (.err .packetReceive, w1) ∧ w1.conns = w.conns := by
  unfold recv
  rw [hq]
  simp only [hudp, Bool.false_eq_true, ↓reduceIte]
  exact ⟨_, rfl, rfl⟩

/-- with exactly the datagrams `ds` queued on the (UDP) socket, the loop is `loopOn` -/
theorem recvLoop_eq_loopOn (s : Sock) (hudp : s.tcp = false) :
    ∀ (ds : List Bytes) (fuel : Nat) (st : LoopSt) (w : Net), s.id < w.conns.length →
      w.conns.getD s.id [] = ds.map Delivery.data → (∀ d ∈ ds, d.length ≤ 2048) → ds.length < fuel →
      (recvLoop s fuel st w).1 = loopOn st ds := by
  intro ds
  induction ds with
  | nil =>
    intro fuel st w hopen hq _ hf
    cases fuel with
    | zero => omega
    | succ f =>
      unfold recvLoop
      cases hd : st.done with
      | true => simp [loopOn, hd]
      | false =>
        simp only [Bool.false_eq_true, ↓reduceIte, loopOn, hd]
        rw [Q.bind_apply]
        obtain ⟨w1, hr, _⟩ := recv_udp_empty s hudp w PACKET_SIZE (by simpa using hq)
        rw [hr]
  | cons d r ih =>
    intro fuel st w hopen hq hlen hf
    cases fuel with
    | zero => omega
    | succ f =>
      unfold recvLoop
      cases hd : st.done with
      | true => simp [loopOn, hd]
      | false =>
        simp only [Bool.false_eq_true, ↓reduceIte, loopOn, hd]
        rw [Q.bind_apply]
        have hdl : d.take PACKET_SIZE = d := take_of_length_le (hlen d (by simp))
        obtain ⟨w1, hr, hc⟩ := recv_udp_data s hudp w d (r.map Delivery.data) PACKET_SIZE (by simpa using hq)
        rw [hr, hdl]
        simp only
        rw [Q.bind_apply]
        cases hp : processPacket st d with
        | crash => simp [Q.lift]
        | err k => simp [Q.lift]
        | ok st' =>
          simp only [Q.lift]
          apply ih
          · rw [hc]; simpa [setAt_length] using hopen
          · rw [hc, getD_setAt]; simp [hopen]
          · intro x hx; exact hlen x (by simp [hx])
          · simpa using hf

/-- a successful first attempt is the result -/
theorem retryOnTimeout_of_ok {α : Type} (r : Nat) (f : Q α) (w : Net) (a : α) (h : (f w).1 = .ok a) :
    (retryOnTimeout r f w).1 = .ok a := by
  cases r with
  | zero => exact h
  | succ r =>
    simp only [retryOnTimeout]
    cases hf : f w with
    | mk res w' =>
      rw [hf] at h
      simp only at h
      subst h
      rfl

/-- a first attempt that fails with something else than a timeout is the result -/
theorem retryOnTimeout_of_err {α : Type} (r : Nat) (f : Q α) (w : Net) (k : ErrKind) (h : (f w).1 = .err k)
    (hk : k.isTimeout = false) : (retryOnTimeout r f w).1 = .err k := by
  cases r with
  | zero => exact h
  | succ r =>
    simp only [retryOnTimeout]
    cases hf : f w with
    | mk res w' =>
      rw [hf] at h
      simp only at h
      subst h
      simp [hk]

/-- the state of the transport when the script is one socket with the datagrams `ds` -/
def scriptOf (ds : List Bytes) : List ConnScript := [.opened (ds.map Delivery.data)]

theorem getServerValuesImpl_apply (s : Sock) (w : Net) :
    getServerValuesImpl s w
      = Q.bind' (send s statusRequest) (fun _ w' => recvLoop s (queued s w' + 1) LoopSt.init w') w := rfl

/-- one attempt against exactly the datagrams `ds` -/
theorem attempt_eq_loopOn (port : Nat) (ds : List Bytes) (hlen : ∀ d ∈ ds, d.length ≤ 2048) :
    ∃ s w, openSock false port (Net.init (scriptOf ds) []) = (.ok s, w) ∧ s.tcp = false
      ∧ (getServerValuesImpl s w).1 = loopOn LoopSt.init ds := by
  refine ⟨⟨0, port, false⟩, _, rfl, rfl, ?_⟩
  rw [getServerValuesImpl_apply]
  simp only [Q.bind', send, Net.init, List.length_nil]
  apply recvLoop_eq_loopOn _ rfl ds
  · simp
  · simp
  · exact hlen
  · simp [queued]

end Gd.Gs1
