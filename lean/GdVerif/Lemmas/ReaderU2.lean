import GdVerif.Lemmas.Unreal2Safe
/-
  The Unreal 2 string decoder as an operation of the packet reader (C17): what one
  `read_string::<Unreal2StringDecoder>` does to the reader, for every packet and position.
-/
namespace Gd.Unreal2
open Gd

/-- the bytes the length byte announces after itself (and after the stray byte of a UCS-2 string):
`l` Latin-1 bytes below 0x80, `l - 0x80` UCS-2 units of two bytes from 0x80 on -/
def announced (l : UInt8) : Nat := if l.toNat < 0x80 then l.toNat else (l.toNat - 0x80) * 2

theorem mod_announced {l : UInt8} (h : 0x80 ≤ l.toNat) : (l.toNat % 0x80) * 2 = announced l := by
  have := l.toNat_lt
  unfold announced
  have h' : ¬ l.toNat < 0x80 := by omega
  simp only [h', ↓reduceIte]
  omega

/-! ### the decoder on a non-empty slice, by encoding -/

theorem u2Dec_nil : u2Dec [] = .err .packetBad := rfl

theorem u2Dec_latin1_ok {l : UInt8} {body : Bytes} (hl : l.toNat < 0x80) (hb : l.toNat ≤ body.length) :
    u2Dec (l :: body) = .ok (cleanText (cp1252Decode (body.take l.toNat)), 1 + l.toNat) := by
  have h1 : ¬ l.toNat ≥ 0x80 := by omega
  have h2 : ¬ body.length < l.toNat := by omega
  simp only [u2Dec, h1, ↓reduceIte, latin1Part, h2]

theorem u2Dec_latin1_short {l : UInt8} {body : Bytes} (hl : l.toNat < 0x80) (hb : body.length < l.toNat) :
    u2Dec (l :: body) = .err .packetBad := by
  have h1 : ¬ l.toNat ≥ 0x80 := by omega
  simp only [u2Dec, h1, ↓reduceIte, latin1Part, hb]

theorem strayOf_le_one (body : Bytes) : strayOf body ≤ 1 := by
  unfold strayOf; split <;> omega

theorem strayOf_le_length (body : Bytes) : strayOf body ≤ body.length := by
  unfold strayOf
  cases body with
  | nil => simp
  | cons x r => split <;> simp

theorem u2Dec_ucs2_ok {l : UInt8} {body : Bytes} {cs : List Nat} (hl : 0x80 ≤ l.toNat)
    (hb : strayOf body + announced l ≤ body.length)
    (hu : utf16Decode (unitsOf .little ((body.drop (strayOf body)).take (announced l))) = some cs) :
    u2Dec (l :: body) = .ok (cleanText cs, 1 + strayOf body + announced l) := by
  have h1 : l.toNat ≥ 0x80 := hl
  have h2 : ¬ (body.drop (strayOf body)).length < announced l := by
    simp only [List.length_drop]; omega
  simp only [u2Dec, h1, ↓reduceIte, ucs2Part, mod_announced hl, h2, hu]

theorem u2Dec_ucs2_bad {l : UInt8} {body : Bytes} (hl : 0x80 ≤ l.toNat)
    (hb : strayOf body + announced l ≤ body.length)
    (hu : utf16Decode (unitsOf .little ((body.drop (strayOf body)).take (announced l))) = none) :
    u2Dec (l :: body) = .err .packetBad := by
  have h1 : l.toNat ≥ 0x80 := hl
  have h2 : ¬ (body.drop (strayOf body)).length < announced l := by
    simp only [List.length_drop]; omega
  simp only [u2Dec, h1, ↓reduceIte, ucs2Part, mod_announced hl, h2, hu]

theorem u2Dec_ucs2_short {l : UInt8} {body : Bytes} (hl : 0x80 ≤ l.toNat)
    (hb : body.length < strayOf body + announced l) :
    u2Dec (l :: body) = .err .packetBad := by
  have h1 : l.toNat ≥ 0x80 := hl
  have h2 : (body.drop (strayOf body)).length < announced l := by
    have := strayOf_le_length body
    simp only [List.length_drop]; omega
  simp only [u2Dec, h1, ↓reduceIte, ucs2Part, mod_announced hl, h2]

/-! ### every outcome of the decoder -/

/-- the decoder never reports anything but `PacketBad` -/
theorem u2Dec_err {sl : Bytes} {k : ErrKind} (h : u2Dec sl = .err k) : k = .packetBad := by
  unfold u2Dec at h
  split at h
  · cases h; rfl
  · split at h
    · unfold ucs2Part at h
      split at h
      · cases h; rfl
      · split at h
        · cases h; rfl
        · cases h
    · unfold latin1Part at h
      split at h
      · cases h; rfl
      · cases h

/-- a successful decode consumed the length byte, the stray byte if there is one and is counted,
and exactly the announced bytes — all of them inside the slice -/
theorem u2Dec_ok_consumed {sl s : Bytes} {n : Nat} (h : u2Dec sl = .ok (s, n)) :
    ∃ l body, sl = l :: body ∧ n ≤ sl.length ∧
      n = 1 + (if 0x80 ≤ l.toNat then strayOf body else 0) + announced l := by
  unfold u2Dec at h
  split at h
  · cases h
  · rename_i l body
    refine ⟨l, body, rfl, ?_⟩
    have hs := strayOf_le_length body
    split at h
    · rename_i hl
      have hl' : 0x80 ≤ l.toNat := hl
      rw [mod_announced hl'] at h
      unfold ucs2Part at h
      split at h
      · cases h
      · rename_i hlen
        simp only [List.length_drop] at hlen
        split at h
        · cases h
        · cases h
          simp only [hl', ↓reduceIte, List.length_cons, and_true]
          omega
    · rename_i hl
      have hl' : ¬ 0x80 ≤ l.toNat := hl
      have ha : announced l = l.toNat := by
        unfold announced
        have : l.toNat < 0x80 := by omega
        simp only [this, ↓reduceIte]
      unfold latin1Part at h
      split at h
      · cases h
      · cases h
        simp only [hl', ↓reduceIte, List.length_cons, ha, and_true]
        omega

/-! ### the reader -/

theorem readU2Str_of_dec_ok {b : Buf} {s : Bytes} {n : Nat} (h : u2Dec b.rest = .ok (s, n)) :
    readU2Str b = .ok (s, b.advance n) := by
  simp only [readU2Str, readStringWith, h]

theorem readU2Str_of_dec_err {b : Buf} {k : ErrKind} (h : u2Dec b.rest = .err k) :
    readU2Str b = .err k := by
  simp only [readU2Str, readStringWith, h]

theorem readU2Str_ok_inv {b b' : Buf} {s : Bytes} (h : readU2Str b = .ok (s, b')) :
    ∃ n, u2Dec b.rest = .ok (s, n) ∧ b' = b.advance n := by
  unfold readU2Str readStringWith at h
  cases hd : u2Dec b.rest with
  | ok x =>
    obtain ⟨s', n⟩ := x
    rw [hd] at h
    cases h
    exact ⟨n, rfl, rfl⟩
  | err k => rw [hd] at h; cases h
  | crash => rw [hd] at h; cases h

theorem readU2Str_err_inv {b : Buf} {k : ErrKind} (h : readU2Str b = .err k) : k = .packetBad := by
  unfold readU2Str readStringWith at h
  cases hd : u2Dec b.rest with
  | ok x => obtain ⟨s', n⟩ := x; rw [hd] at h; cases h
  | err k' => rw [hd] at h; cases h; exact u2Dec_err hd
  | crash => rw [hd] at h; cases h

/-- the outcome of the decoder depends only on the bytes it consumes and — for a UCS-2 string —
on whether a stray `0x01` follows the length byte (the one byte the decoder looks at without
necessarily consuming it) -/
theorem u2Dec_consumed_only {l : UInt8} {body s : Bytes} {n : Nat} (h : u2Dec (l :: body) = .ok (s, n))
    (post : Bytes) (hst : 0x80 ≤ l.toNat → strayOf (body.take (n - 1) ++ post) = strayOf body) :
    u2Dec (l :: (body.take (n - 1) ++ post)) = .ok (s, n) := by
  obtain ⟨l', body', hsl, hn, hnn⟩ := u2Dec_ok_consumed h
  cases hsl
  simp only [List.length_cons] at hn
  by_cases hl : 0x80 ≤ l.toNat
  · simp only [hl, ↓reduceIte] at hnn
    have hst' := hst hl
    have hb : strayOf body + announced l ≤ body.length := by omega
    have hn1 : n - 1 = strayOf body + announced l := by omega
    cases hu : utf16Decode (unitsOf .little ((body.drop (strayOf body)).take (announced l))) with
    | none => rw [u2Dec_ucs2_bad hl hb hu] at h; cases h
    | some cs =>
      rw [u2Dec_ucs2_ok hl hb hu] at h
      simp only [Res.ok.injEq, Prod.mk.injEq] at h
      obtain ⟨hs, -⟩ := h
      have hlen : strayOf (body.take (n - 1) ++ post) + announced l ≤ (body.take (n - 1) ++ post).length := by
        rw [hst']
        simp only [List.length_append, List.length_take]
        omega
      have htxt : ((body.take (n - 1) ++ post).drop (strayOf (body.take (n - 1) ++ post))).take (announced l)
          = (body.drop (strayOf body)).take (announced l) := by
        rw [hst', hn1]
        have h1 : strayOf body ≤ (body.take (strayOf body + announced l)).length := by
          simp only [List.length_take]; omega
        rw [List.drop_append_of_le_length h1, List.take_append_of_le_length (by
          simp only [List.length_drop, List.length_take]; omega)]
        rw [List.drop_take]
        rw [List.take_take]
        congr 1
        omega
      rw [u2Dec_ucs2_ok hl hlen (htxt ▸ hu), hst', hs, hnn]
  · have hl' : l.toNat < 0x80 := by omega
    simp only [hl, ↓reduceIte] at hnn
    have ha : announced l = l.toNat := by
      unfold announced; simp only [hl', ↓reduceIte]
    have hb : l.toNat ≤ body.length := by omega
    rw [u2Dec_latin1_ok hl' hb] at h
    simp only [Res.ok.injEq, Prod.mk.injEq] at h
    obtain ⟨hs, -⟩ := h
    have hn1 : n - 1 = l.toNat := by omega
    rw [hn1]
    have hb' : l.toNat ≤ (body.take l.toNat ++ post).length := by
      simp only [List.length_append, List.length_take]; omega
    rw [u2Dec_latin1_ok hl' hb']
    have : (body.take l.toNat ++ post).take l.toNat = body.take l.toNat := by
      rw [List.take_append_of_le_length (by simp only [List.length_take]; omega), List.take_take]
      simp
    rw [this, hs, hnn, ha]

end Gd.Unreal2
