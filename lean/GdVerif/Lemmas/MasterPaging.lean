import GdVerif.Lemmas.Decodes
import GdVerif.Proto.Master
/-
  Paging of the master-server query against a reference history of reply pages.
-/
namespace Gd.Master
open Gd

def WFAddr (a : Addr) : Prop := a.1.1 < 256 ∧ a.1.2.1 < 256 ∧ a.1.2.2.1 < 256 ∧ a.1.2.2.2 < 256 ∧ a.2 < 65536

def encEntry (a : Addr) : Bytes :=
  [UInt8.ofNat a.1.1, UInt8.ofNat a.1.2.1, UInt8.ofNat a.1.2.2.1, UInt8.ofNat a.1.2.2.2] ++ natBE 2 a.2

/-- a reply page as the protocol defines it: `FF FF FF FF 66 0A` then 6-byte entries -/
def encPage (es : List Addr) : Bytes := [0xFF, 0xFF, 0xFF, 0xFF, 0x66, 0x0A] ++ (es.map encEntry).flatten

def terminator : Addr := ((0, 0, 0, 0), 0)

theorem decodes_entry (a : Addr) (h : WFAddr a) : Decodes parseEntry (encEntry a) a := by
  obtain ⟨h1, h2, h3, h4, h5⟩ := h
  unfold parseEntry encEntry
  have e : [UInt8.ofNat a.1.1, UInt8.ofNat a.1.2.1, UInt8.ofNat a.1.2.2.1, UInt8.ofNat a.1.2.2.2] ++ natBE 2 a.2
      = [UInt8.ofNat a.1.1] ++ ([UInt8.ofNat a.1.2.1] ++ ([UInt8.ofNat a.1.2.2.1] ++ ([UInt8.ofNat a.1.2.2.2] ++ natBE 2 a.2))) := rfl
  rw [e]
  refine Decodes.bind (decodes_u8 _ h1) ?_
  refine Decodes.bind (decodes_u8 _ h2) ?_
  refine Decodes.bind (decodes_u8 _ h3) ?_
  refine Decodes.bind (decodes_u8 _ h4) ?_
  refine Decodes.bind_last (decodes_be 2 a.2 (by omega)) ?_
  obtain ⟨⟨a1, a2, a3, a4⟩, p⟩ := a
  exact Decodes.pure _

theorem encEntry_length (a : Addr) : (encEntry a).length = 6 := by
  simp [encEntry, natBE, natLE_length]

/-- the `while remaining > 0` loop reads exactly the entries -/
theorem whileEntries (es : List Addr) (h : ∀ a ∈ es, WFAddr a) :
    ∀ (fuel : Nat) (acc : List Addr) (b : Buf), b.rest = (es.map encEntry).flatten → es.length < fuel →
      ∃ b', whileRemaining (fun acc => do let e ← parseEntry; pure (e :: acc)) fuel acc b = .ok (es.reverse ++ acc, b')
        ∧ b'.rest = [] := by
  induction es with
  | nil =>
    intro fuel acc b hr hf
    cases fuel with
    | zero => omega
    | succ f =>
      refine ⟨b, ?_, by simpa using hr⟩
      simp only [List.map_nil, List.flatten_nil] at hr
      simp [whileRemaining, Buf.remaining, hr]
  | cons a r ih =>
    intro fuel acc b hr hf
    cases fuel with
    | zero => omega
    | succ f =>
      simp only [List.map_cons, List.flatten_cons] at hr
      have hne : (b.remaining == 0) = false := by
        have := encEntry_length a
        simp only [Buf.remaining, hr, List.length_append, beq_eq_false_iff_ne]
        omega
      obtain ⟨b1, h1, hr1, _⟩ := decodes_entry a (h a (by simp)) b _ hr
      obtain ⟨b', h2, hr2⟩ := ih (fun x hx => h x (by simp [hx])) f (a :: acc) b1 hr1 (by simp at hf; omega)
      refine ⟨b', ?_, hr2⟩
      simp only [whileRemaining, hne, Bool.false_eq_true, ↓reduceIte]
      have hb : (do let e ← parseEntry; pure (e :: acc) : Par (List Addr)) b = .ok (a :: acc, b1) := by
        rw [Par.bind_ok h1]; rfl
      rw [hb]
      simp only
      rw [h2]
      simp

theorem parsePage_ok (es : List Addr) (h : ∀ a ∈ es, WFAddr a) (b : Buf) (hr : b.rest = encPage es) :
    ∃ b', parsePage b = .ok (es, b') := by
  have e1 : natBE 4 0xFFFFFFFF = [0xFF, 0xFF, 0xFF, 0xFF] := by decide
  have e2 : natBE 2 26122 = [0x66, 0x0A] := by decide
  have hr' : b.rest = natBE 4 0xFFFFFFFF ++ (natBE 2 26122 ++ (es.map encEntry).flatten) := by
    rw [hr, e1, e2]; rfl
  obtain ⟨b1, h1, hr1, _⟩ := decodes_be 4 0xFFFFFFFF (by omega) b _ hr'
  obtain ⟨b2, h2, hr2, _⟩ := decodes_be 2 26122 (by omega) b1 _ hr1
  obtain ⟨b3, h3, _⟩ := whileEntries es h (b2.remaining + 1) [] b2 hr2 (by
    have : b2.remaining = ((es.map encEntry).flatten).length := by simp [Buf.remaining, hr2]
    have hlen : ∀ l : List Addr, ((l.map encEntry).flatten).length = 6 * l.length := by
      intro l
      induction l with
      | nil => rfl
      | cons x xs ih => simp [encEntry_length, ih]; omega
    rw [this, hlen]; omega)
  refine ⟨b3, ?_⟩
  unfold parsePage
  rw [Par.bind_ok h1]
  simp only [bne_self_eq_false, Bool.false_eq_true, ↓reduceIte]
  rw [Par.bind_ok h2]
  simp only [bne_self_eq_false, Bool.false_eq_true, ↓reduceIte]
  unfold parseEntries
  rw [Par.bind_ok h3]
  simp

theorem parsePage_encPage (es : List Addr) (h : ∀ a ∈ es, WFAddr a) : parsePage.run (encPage es) = .ok es := by
  obtain ⟨b', hb⟩ := parsePage_ok es h (Buf.new (encPage es)) rfl
  simp [Par.run, hb]

end Gd.Master

namespace Gd.Master
open Gd

def msock : Sock := ⟨0, masterPort, false⟩

/-- a world with the master-server socket as the only socket -/
def world (pending : List ConnScript) (queue : List Delivery) (log : List Ev) : Net := ⟨pending, [queue], [], log⟩

theorem encPage_length (es : List Addr) : (encPage es).length = 6 + 6 * es.length := by
  have hlen : ∀ l : List Addr, ((l.map encEntry).flatten).length = 6 * l.length := by
    intro l
    induction l with
    | nil => rfl
    | cons x xs ih => simp [encEntry_length, ih]; omega
  simp [encPage, hlen]; omega

/-- one request/reply round against a well-formed page -/
theorem querySpecific_page (region : Nat) (fb ip : Bytes) (port : Nat) (es : List Addr) (h : ∀ a ∈ es, WFAddr a)
    (hl : es.length ≤ 232) (pending : List ConnScript) (q : List Delivery) (log : List Ev) :
    querySpecific msock region fb ip port (world pending (.data (encPage es) :: q) log)
      = (.ok es, world pending q (log ++ [.send 0 masterPort (constructPayload region fb ip port) false,
            .recv 0 (some 1400) (some (encPage es).length)])) := by
  have htake : (encPage es).take 1400 = encPage es := List.take_of_length_le (by rw [encPage_length]; omega)
  unfold querySpecific
  rw [Q.bind_apply]
  simp only [Gd.send, world, msock]
  rw [Q.bind_apply]
  simp only [Gd.recv, List.getD_cons_zero, Bool.false_eq_true, ↓reduceIte, Option.getD_some, htake, setAt]
  simp only [parse, Q.lift, parsePage_encPage es h, List.append_assoc, List.cons_append, List.nil_append]

/-- a history of reply pages: the non-final pages, then the final page's listed entries and whether
the final page carries the terminator (a final page without terminator is empty) -/
structure History where
  pages : List (List Addr)
  final : List Addr
  terminated : Bool

def History.finalPage (h : History) : List Addr := if h.terminated then h.final ++ [terminator] else []

def isTerminator (a : Addr) : Bool := ipText a.1 == zeroIp && a.2 == 0

/-- every non-final page is non-empty and ends neither on the terminator nor on the address it
was seeded with -/
def wfPages : Bytes → Nat → List (List Addr) → Prop
  | _, _, [] => True
  | sip, sp, p :: rest =>
    (∀ a ∈ p, WFAddr a) ∧ p.length ≤ 232 ∧
    ∃ last, p.getLast? = some last ∧ isTerminator last = false
      ∧ (ipText last.1 == sip && last.2 == sp) = false ∧ wfPages (ipText last.1) last.2 rest

/-- the seeds of the follow-up requests: the last address of each non-final page -/
def seedsFrom : Bytes → Nat → List (List Addr) → List (Bytes × Nat)
  | sip, sp, [] => [(sip, sp)]
  | sip, sp, p :: rest =>
    match p.getLast? with
    | some last => (sip, sp) :: seedsFrom (ipText last.1) last.2 rest
    | none => [(sip, sp)]

/-- the transport log of a complete paged query -/
def pagingLog (region : Nat) (fb : Bytes) : List (Bytes × Nat) → List (List Addr) → List Ev
  | (sip, sp) :: seeds, p :: pages =>
    [.send 0 masterPort (constructPayload region fb sip sp) false, .recv 0 (some 1400) (some (encPage p).length)]
      ++ pagingLog region fb seeds pages
  | _, _ => []

theorem terminator_is : isTerminator terminator = true := by decide

theorem pageLoop_history (region : Nat) (fb : Bytes) (final : List Addr) (terminated : Bool)
    (hfin : ∀ a ∈ final, WFAddr a) (hfl : final.length ≤ 231) (hnt : terminated = false → final = []) :
    ∀ (pages : List (List Addr)) (sip : Bytes) (sp : Nat) (acc : List Addr) (fuel : Nat)
      (pending : List ConnScript) (q : List Delivery) (log : List Ev),
      wfPages sip sp pages → pages.length < fuel →
      pageLoop msock region fb fuel acc sip sp
          (world pending (pages.map (fun p => Delivery.data (encPage p))
              ++ .data (encPage (if terminated then final ++ [terminator] else [])) :: q) log)
        = (.ok (acc ++ pages.flatten ++ final),
           world pending q (log ++ pagingLog region fb (seedsFrom sip sp pages)
              (pages ++ [if terminated then final ++ [terminator] else []]))) := by
  intro pages
  induction pages with
  | nil =>
    intro sip sp acc fuel pending q log _ hf
    cases fuel with
    | zero => omega
    | succ f =>
      simp only [List.map_nil, List.nil_append, List.flatten_nil, List.append_nil, seedsFrom, pagingLog]
      unfold pageLoop
      rw [Q.bind_apply]
      cases terminated with
      | false =>
        have := hnt rfl
        subst this
        simp only [Bool.false_eq_true, ↓reduceIte]
        rw [querySpecific_page region fb sip sp [] (by simp) (by simp)]
        simp
      | true =>
        simp only [↓reduceIte]
        have hw : ∀ a ∈ final ++ [terminator], WFAddr a := by
          intro a ha
          rcases List.mem_append.mp ha with h | h
          · exact hfin a h
          · simp only [List.mem_singleton] at h; subst h; simp [WFAddr, terminator]
        rw [querySpecific_page region fb sip sp (final ++ [terminator]) hw (by simp; omega)]
        have hgl : (final ++ [terminator]).getLast? = some terminator := by simp
        have hdl : (final ++ [terminator]).dropLast = final := by simp
        have ht := terminator_is
        simp only [isTerminator] at ht
        simp only [hgl, ht, ↓reduceIte, hdl, Q.pure_apply, List.append_assoc]
  | cons p rest ih =>
    intro sip sp acc fuel pending q log hwf hf
    obtain ⟨hpw, hpl, last, hlast, hnterm, hnseed, hrest⟩ := hwf
    cases fuel with
    | zero => omega
    | succ f =>
      simp only [List.map_cons, List.cons_append]
      unfold pageLoop
      rw [Q.bind_apply, querySpecific_page region fb sip sp p hpw hpl]
      simp only [hlast]
      simp only [isTerminator] at hnterm
      simp only [hnterm, Bool.false_eq_true, ↓reduceIte, hnseed]
      have := ih (ipText last.1) last.2 (acc ++ p) f pending q
        (log ++ [.send 0 masterPort (constructPayload region fb sip sp) false, .recv 0 (some 1400) (some (encPage p).length)])
        hrest (by simp at hf; omega)
      rw [this]
      simp only [seedsFrom, hlast, pagingLog, List.flatten_cons, List.append_assoc, List.cons_append, List.nil_append]

end Gd.Master
