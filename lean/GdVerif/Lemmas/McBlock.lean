import GdVerif.Lemmas.QBounds
import GdVerif.Proto.Minecraft
/-
  Blocking steps of the Minecraft queries that can run into their timeout, and the silent server.
  Java, Bedrock and each legacy variant: one socket (TCP connect for Java / legacy: a refused or
  timed-out connect is a blocked step and ends the variant), then one retried unit whose every failed
  attempt runs into one timeout.  The fall-through queries try their variants one after the other,
  each on a new socket; a variant that failed contributed at most `retries + 1` timeouts.
-/
namespace Gd

/-- `if let Ok(r) = first { return … }; rest`: a failed `first` has cost its failure bound -/
theorem Block.orElse {first : Q α} {f : α → β} {rest : Q β} {ko1 ke1 ko2 ke2 : Nat}
    (h1 : Block ko1 ke1 first) (h2 : Block ko2 ke2 rest) :
    Block (max ko1 (ke1 + ko2)) (ke1 + ke2) (Mc.orElse first f rest) := by
  intro w
  obtain ⟨a1, hl1, hc1⟩ := h1 w
  unfold Mc.orElse
  cases hqw : first w with
  | mk res w1 =>
    rw [hqw] at hl1 hc1
    cases res with
    | ok a => exact ⟨a1, hl1, by simp only at hc1 ⊢; omega⟩
    | crash => exact ⟨a1, hl1, by simp only at hc1 ⊢; omega⟩
    | err k =>
      obtain ⟨a2, hl2, hc2⟩ := h2 w1
      refine ⟨a1 ++ a2, by simp only; rw [hl2, hl1, List.append_assoc], ?_⟩
      simp only at hc1 ⊢
      rw [nBlocked_append]
      cases hr : (rest w1).1 <;> rw [hr] at hc2 <;> simp only at hc2 ⊢ <;> omega

/-- a variant that finds its server silent fails; the fall-through goes on with the next one -/
theorem SilentOutcomeN.orElse {first : Q α} {f : α → β} {rest : Q β} {w : Net} {e1 e2 : ErrKind}
    {n1 k1 b1 n2 k2 b2 : Nat} (h1 : SilentOutcomeN w (first w) e1 n1 k1 b1)
    (h2 : SilentOutcomeN (first w).2 (rest (first w).2) e2 n2 k2 b2) :
    SilentOutcomeN w (Mc.orElse first f rest w) e2 (n1 + n2) (k1 + k2) (b1 + b2) := by
  have e : Mc.orElse first f rest w = rest (first w).2 := by
    unfold Mc.orElse
    have hr := h1.result
    cases hqw : first w with
    | mk res w1 =>
      rw [hqw] at hr
      simp only at hr
      subst hr
      rfl
  rw [e]
  exact h1.append h2

namespace Mc

/-! ### Java -/

theorem block_javaSend (s : Sock) (data : Bytes) : Block 0 1 (javaSend s data) := Block.send s _

theorem block_javaSendHandshake (s : Sock) (st : RequestSettings) : Block 0 1 (javaSendHandshake s st) := by
  unfold javaSendHandshake
  exact (Block.bind (Block.lift (javaHandshakePayload st s.port)) fun p => block_javaSend s p).weaken
    (by omega) (by omega)

theorem block_javaReceive (s : Sock) : Block 0 1 (javaReceive s) := by
  unfold javaReceive
  exact (Block.bind (Block.recv s none) fun d => Block.parse javaUnframe d).weaken (by omega) (by omega)

/-- one attempt (three writes, one read): the first step that fails ends it -/
theorem block_javaGetInfoImpl (ext : Ext) (s : Sock) (st : RequestSettings) : Block 0 1 (javaGetInfoImpl ext s st) := by
  unfold javaGetInfoImpl javaSendStatusRequest javaSendPingRequest
  have h := Block.bind (block_javaSendHandshake s st) fun _ =>
    Block.bind (block_javaSend s [0x00]) fun _ =>
      Block.bind (block_javaSend s [0x01]) fun _ =>
        Block.bind (block_javaReceive s) fun sd => Block.parse (javaParse ext) sd
  exact h.weaken (by omega) (by omega)

theorem block_queryJava (ext : Ext) (port : Nat) (st : RequestSettings) (r : Nat) :
    Block r (r + 1) (queryJava ext port st r) := by
  unfold queryJava
  have h := Block.bind (Block.openSock true port) fun s => Block.retrySharp (block_javaGetInfoImpl ext s st) r
  exact h.weaken (by omega) (by omega)

/-! ### Bedrock, legacy -/

theorem block_bedrockGetInfoImpl (s : Sock) : Block 0 1 (bedrockGetInfoImpl s) := by
  unfold bedrockGetInfoImpl
  have h := Block.bind (Block.send s bedrockRequest) fun _ =>
    Block.bind (Block.recv s none) fun d => Block.parse bedrockParse d
  exact h.weaken (by omega) (by omega)

theorem block_queryBedrock (port r : Nat) : Block r (r + 1) (queryBedrock port r) := by
  unfold queryBedrock
  have h := Block.bind (Block.openSock false port) fun s => Block.retrySharp (block_bedrockGetInfoImpl s) r
  exact h.weaken (by omega) (by omega)

theorem block_legacyGetInfoImpl (g : LegacyGroup) (s : Sock) : Block 0 1 (legacyGetInfoImpl g s) := by
  unfold legacyGetInfoImpl
  have h := Block.bind (Block.send s (legacyRequest g)) fun _ =>
    Block.bind (Block.recv s none) fun d => Block.parse (legacyParse g d.length) d
  exact h.weaken (by omega) (by omega)

theorem block_queryLegacySpecific (g : LegacyGroup) (port r : Nat) :
    Block r (r + 1) (queryLegacySpecific g port r) := by
  unfold queryLegacySpecific
  have h := Block.bind (Block.openSock true port) fun s => Block.retrySharp (block_legacyGetInfoImpl g s) r
  exact h.weaken (by omega) (by omega)

/-! ### the fall-through queries -/

theorem block_queryLegacy (port r : Nat) : Block (3 * (r + 1)) (3 * (r + 1)) (queryLegacy port r) := by
  unfold queryLegacy
  have h := Block.orElse (f := id) (block_queryLegacySpecific .v1_6 port r) <|
    Block.orElse (f := id) (block_queryLegacySpecific .v1_4 port r) <|
      Block.orElse (f := id) (block_queryLegacySpecific .vb1_8 port r) (Block.fail .autoQuery)
  exact h.weaken (by omega) (by omega)

theorem block_queryAuto (ext : Ext) (port : Nat) (st : RequestSettings) (r : Nat) :
    Block (5 * (r + 1)) (5 * (r + 1)) (queryAuto ext port st r) := by
  unfold queryAuto
  have h := Block.orElse (f := id) (block_queryJava ext port st r) <|
    Block.orElse (f := JavaResponse.fromBedrock) (block_queryBedrock port r) <|
      Block.orElse (f := id) (block_queryLegacy port r) (Block.fail .autoQuery)
  exact h.weaken (by omega) (by omega)

/-! ### silent servers -/

theorem silent_javaSend (s : Sock) (data : Bytes) : SilentSends s 1 (javaSend s data) := SilentSends.send s _

/-- one Java attempt against a server that accepts the connection and never writes: handshake, status
request and ping are written, the read times out (a host name of 2³¹ bytes or more is refused before
anything is sent: `InvalidInput`) -/
theorem silent_javaGetInfoImpl (ext : Ext) (s : Sock) (st : RequestSettings) (hh : st.hostname.length < 2 ^ 31) :
    SilentAttempt s 3 (javaGetInfoImpl ext s st) := by
  unfold javaGetInfoImpl javaSendHandshake javaSendStatusRequest javaSendPingRequest javaReceive
  have hp : javaHandshakePayload st s.port
      = .ok ([0x00] ++ asVarint (ofSigned 32 st.protocolVersion) ++ (asVarint st.hostname.length ++ st.hostname)
          ++ natBE 2 s.port ++ [0x01]) := by
    simp only [javaHandshakePayload, asString, hh, ↓reduceIte]
    rfl
  have h1 : SilentSends s 1 (Q.lift (javaHandshakePayload st s.port) >>= fun p => javaSend s p) := by
    have := SilentSends.bind (SilentSends.lift s hp) fun p => silent_javaSend s p
    simpa using this
  exact SilentAttempt.seq (k1 := 1) (k2 := 2) h1 fun _ =>
    SilentAttempt.seq (k1 := 1) (k2 := 1) (silent_javaSend s _) fun _ =>
      SilentAttempt.seq (k1 := 1) (k2 := 0) (silent_javaSend s _) fun _ =>
        ((SilentAttempt.recv s none).bind_left _).bind_left _

theorem silent_queryJava (ext : Ext) (port : Nat) (st : RequestSettings) (r : Nat) (hh : st.hostname.length < 2 ^ 31)
    (w : Net) (hf : w.faults = []) (hp : PendingSilent true (r + 1) w.pending) :
    SilentOutcome w (queryJava ext port st r w) (3 * (r + 1)) (r + 1) := by
  unfold queryJava
  exact SilentRun.openSock (fun s _ => (silent_javaGetInfoImpl ext s st hh).retry r) port w hf hp

theorem silent_bedrockGetInfoImpl (s : Sock) : SilentAttempt s 1 (bedrockGetInfoImpl s) := by
  unfold bedrockGetInfoImpl
  exact SilentAttempt.seq (k2 := 0) (SilentSends.send s _) fun _ => (SilentAttempt.recv s _).bind_left _

theorem silent_queryBedrock (port r : Nat) (w : Net) (hf : w.faults = [])
    (hp : PendingSilent false (r + 1) w.pending) :
    SilentOutcome w (queryBedrock port r w) (r + 1) (r + 1) := by
  unfold queryBedrock
  exact SilentRun.openSock (fun s _ => (silent_bedrockGetInfoImpl s).retry1 r) port w hf hp

theorem silent_legacyGetInfoImpl (g : LegacyGroup) (s : Sock) : SilentAttempt s 1 (legacyGetInfoImpl g s) := by
  unfold legacyGetInfoImpl
  exact SilentAttempt.seq (k2 := 0) (SilentSends.send s _) fun _ => (SilentAttempt.recv s _).bind_left _

theorem silent_queryLegacySpecific (g : LegacyGroup) (port r : Nat) (w : Net) (hf : w.faults = [])
    (hp : PendingSilent true (r + 1) w.pending) :
    SilentOutcome w (queryLegacySpecific g port r w) (r + 1) (r + 1) := by
  unfold queryLegacySpecific
  exact SilentRun.openSock (fun s _ => (silent_legacyGetInfoImpl g s).retry1 r) port w hf hp

theorem silent_fail (w : Net) (hf : w.faults = []) (e : ErrKind) :
    SilentOutcomeN w ((Q.fail e : Q α) w) e 0 0 0 :=
  ⟨rfl, rfl, hf, [], by simp [Q.fail], rfl, rfl, rfl, rfl⟩

/-- three silent TCP peers: every legacy variant is tried on its own connection, `AutoQuery` -/
theorem silent_queryLegacy (port r : Nat) (w : Net) (hf : w.faults = [])
    (hp : AllSilent (r + 1) [true, true, true] w.pending) :
    SilentOutcomeN w (queryLegacy port r w) .autoQuery 3 (3 * (r + 1)) (3 * (r + 1)) := by
  obtain ⟨p1, p2, p3, _⟩ := hp
  unfold queryLegacy
  have o1 := silent_queryLegacySpecific .v1_6 port r w hf p1
  have o2 := silent_queryLegacySpecific .v1_4 port r _ o1.faults (by rw [o1.pending]; exact p2)
  have o3 := silent_queryLegacySpecific .vb1_8 port r _ o2.faults (by rw [o2.pending, o1.pending]; exact p3)
  have h := SilentOutcomeN.orElse (f := id) o1.toN <|
    SilentOutcomeN.orElse (f := id) o2.toN <|
      SilentOutcomeN.orElse (f := id) o3.toN (silent_fail (α := JavaResponse) _ o3.faults .autoQuery)
  have e1 : r + 1 + (r + 1 + (r + 1 + 0)) = 3 * (r + 1) := by omega
  rw [e1] at h
  exact h

/-- five silent peers (TCP, UDP, TCP, TCP, TCP): Java, Bedrock and the three legacy variants are
tried in this order, each on its own socket, `AutoQuery` -/
theorem silent_queryAuto (ext : Ext) (port : Nat) (st : RequestSettings) (r : Nat) (hh : st.hostname.length < 2 ^ 31)
    (w : Net) (hf : w.faults = []) (hp : AllSilent (r + 1) [true, false, true, true, true] w.pending) :
    SilentOutcomeN w (queryAuto ext port st r w) .autoQuery 5 (7 * (r + 1)) (5 * (r + 1)) := by
  obtain ⟨p1, p2, p345⟩ := hp
  unfold queryAuto
  have o1 := silent_queryJava ext port st r hh w hf p1
  have o2 := silent_queryBedrock port r _ o1.faults (by rw [o1.pending]; exact p2)
  have o3 := silent_queryLegacy port r _ o2.faults (by rw [o2.pending, o1.pending]; exact p345)
  have h := SilentOutcomeN.orElse (f := id) o1.toN <|
    SilentOutcomeN.orElse (f := JavaResponse.fromBedrock) o2.toN <|
      SilentOutcomeN.orElse (f := id) o3 (silent_fail (α := JavaResponse) _ o3.faults .autoQuery)
  have e1 : 3 * (r + 1) + (r + 1 + (3 * (r + 1) + 0)) = 7 * (r + 1) := by omega
  have e2 : r + 1 + (r + 1 + (3 * (r + 1) + 0)) = 5 * (r + 1) := by omega
  rw [e1, e2] at h
  exact h

end Mc
end Gd
