import GdVerif.Lemmas.Gs3Safe
import GdVerif.Lemmas.Decodes
import GdVerif.Lemmas.Decimal
import GdVerif.Lemmas.Valve
import GdVerif.Spec.Gs3
/-
  GameSpy 3 decoding lemmas: the parsers of `three/protocol.rs` against the SPEC encoders.
  Part A: the key/value block.  Part B: field sections = `applySlice`.
-/
namespace Gd.Gs3
open Gd Gd.Gs3.Spec

theorem okStr_iff (s : Bytes) : okStr s = true ↔ (0 : UInt8) ∉ s ∧ validUtf8 s = true := by
  simp [okStr, List.contains_iff_mem]

theorem okItem_iff (s : Bytes) : okItem s = true ↔ (0 : UInt8) ∉ s ∧ validUtf8 s = true ∧ s ≠ [] := by
  unfold okItem
  rw [Bool.and_eq_true, okStr_iff]
  cases s <;> simp

theorem decodes_cstr (s : Bytes) (h : okStr s = true) : Decodes readCStr (cstr s) s := by
  obtain ⟨h0, hv⟩ := (okStr_iff s).mp h
  exact decodes_readCStr s h0 hv

theorem length_le_flatten {α : Type} (l : List α) (f : α → Bytes) (h : ∀ x, 1 ≤ (f x).length) :
    l.length ≤ (l.map f).flatten.length := by
  induction l with
  | nil => simp
  | cons p r ih =>
    simp only [List.map_cons, List.flatten_cons, List.length_append, List.length_cons]
    have := h p
    omega

/-! ### loops with `break` on encoded input -/

/-- a round that goes on -/
theorem loopBrk_continue {body : σ → Par (σ × Bool)} {st st' : σ} {e : Bytes}
    (hd : Decodes (body st) e (st', true)) (he : e ≠ []) (fuel : Nat) (b : Buf) (post : Bytes)
    (hr : b.rest = e ++ post) :
    ∃ b', loopBrk body (fuel + 1) st b = loopBrk body fuel st' b' ∧ b'.rest = post ∧ b'.data = b.data := by
  obtain ⟨b', hb, hr', hd'⟩ := hd b post hr
  refine ⟨b', ?_, hr', hd'⟩
  have hne : (b.remaining == 0) = false := by
    cases e with
    | nil => exact absurd rfl he
    | cons x r => simp [Buf.remaining, hr]
  simp only [loopBrk, hne, Bool.false_eq_true, ↓reduceIte, hb]

/-- the round that breaks -/
theorem loopBrk_break {body : σ → Par (σ × Bool)} {st st' : σ} {e : Bytes}
    (hd : Decodes (body st) e (st', false)) (he : e ≠ []) (fuel : Nat) (b : Buf) (post : Bytes)
    (hr : b.rest = e ++ post) :
    ∃ b', loopBrk body (fuel + 1) st b = .ok (st', b') ∧ b'.rest = post ∧ b'.data = b.data := by
  obtain ⟨b', hb, hr', hd'⟩ := hd b post hr
  refine ⟨b', ?_, hr', hd'⟩
  have hne : (b.remaining == 0) = false := by
    cases e with
    | nil => exact absurd rfl he
    | cons x r => simp [Buf.remaining, hr]
  simp only [loopBrk, hne, Bool.false_eq_true, ↓reduceIte, hb]

/-! ### Part A: the key/value block -/

def encPair (p : Bytes × Bytes) : Bytes := cstr p.1 ++ cstr p.2

theorem encVars_eq (vars : Vars) : encVars vars = (vars.map encPair).flatten ++ [0] := rfl

theorem kvStep_pair (m : Vars) (k v : Bytes) (hk : okItem k = true) (hv : okStr v = true) :
    Decodes (kvStep m) (cstr k ++ cstr v) (Valve.mapInsert m k v, true) := by
  obtain ⟨hk0, hkv, hkne⟩ := (okItem_iff k).mp hk
  unfold kvStep
  refine Decodes.bind (decodes_readCStr k hk0 hkv) ?_
  have : k.isEmpty = false := by cases k <;> simp_all
  simp only [this, Bool.false_eq_true, ↓reduceIte]
  exact Decodes.bind_last (decodes_cstr v hv) (Decodes.pure _)

theorem kvStep_end (m : Vars) : Decodes (kvStep m) [0] (m, false) := by
  unfold kvStep
  have h : Decodes readCStr ([] ++ [0]) [] := decodes_readCStr [] (by simp) rfl
  exact Decodes.bind_last h (by simp only [List.isEmpty_nil, ↓reduceIte]; exact Decodes.pure _)

theorem decodes_kvLoop (kvs : Vars) (h : ∀ p ∈ kvs, okItem p.1 = true ∧ okStr p.2 = true) :
    ∀ (acc : Vars) (fuel : Nat), kvs.length < fuel →
      Decodes (loopBrk kvStep fuel acc) ((kvs.map encPair).flatten ++ [0])
        (kvs.foldl (fun m p => Valve.mapInsert m p.1 p.2) acc) := by
  induction kvs with
  | nil =>
    intro acc fuel hf b post hr
    cases fuel with
    | zero => omega
    | succ fuel =>
      simp only [List.map_nil, List.flatten_nil, List.nil_append, List.foldl_nil] at hr ⊢
      exact loopBrk_break (kvStep_end acc) (by simp) fuel b post hr
  | cons p r ih =>
    intro acc fuel hf b post hr
    cases fuel with
    | zero => omega
    | succ fuel =>
      obtain ⟨hk, hv⟩ := h p (by simp)
      simp only [List.map_cons, List.flatten_cons, List.append_assoc, List.foldl_cons] at hr ⊢
      obtain ⟨b1, hb1, hr1, hd1⟩ := loopBrk_continue (kvStep_pair acc p.1 p.2 hk hv) (by simp [encPair, cstr]) fuel b
        ((r.map encPair).flatten ++ ([0] ++ post)) (by rw [hr]; simp [encPair])
      obtain ⟨b2, hb2, hr2, hd2⟩ := ih (fun q hq => h q (by simp [hq])) (Valve.mapInsert acc p.1 p.2) fuel
        (by simp at hf; omega) b1 post (by rw [hr1]; simp)
      exact ⟨b2, by rw [hb1, hb2], hr2, by rw [hd2, hd1]⟩

/-- `data_to_map` on the head of the first packet: the variables, in the order sent, and the rest -/
theorem dataToMap_encVars (vars : Vars) (h : ∀ p ∈ vars, okItem p.1 = true ∧ okStr p.2 = true)
    (hd : Valve.Spec.distinctKeys vars = true) (rest : Bytes) :
    dataToMap (encVars vars ++ rest) = .ok (vars, rest) := by
  unfold dataToMap Par.run dataToMapPar
  have hrem : remainingLength (Buf.new (encVars vars ++ rest)) = .ok ((encVars vars ++ rest).length, Buf.new (encVars vars ++ rest)) := rfl
  rw [Par.bind_ok hrem]
  have hlen : vars.length < (encVars vars ++ rest).length + 1 := by
    have : vars.length ≤ ((vars.map encPair).flatten).length :=
      length_le_flatten vars encPair (fun p => by simp [encPair, cstr]; omega)
    simp only [encVars_eq, List.length_append, List.length_cons, List.length_nil]; omega
  obtain ⟨b1, hb1, hr1, _⟩ := decodes_kvLoop vars h [] _ hlen (Buf.new (encVars vars ++ rest)) rest (by simp [encVars_eq])
  rw [Par.bind_ok hb1]
  rw [Valve.foldl_mapInsert_distinct vars [] (by simpa using hd)]
  simp [remainingBytes, hr1, Par.bind_apply]

/-! ### Part B: field sections -/

/-- `putItem`, which never fails: make room, insert into the row's map -/
def put (data : List Vars) (offset : Nat) (name item : Bytes) : List Vars :=
  let data := data ++ List.replicate (offset + 1 - data.length) []
  data.set offset (Valve.mapInsert (data.getD offset []) name item)

theorem putItem_eq (data : List Vars) (offset : Nat) (name item : Bytes) :
    putItem data offset name item = .ok (put data offset name item) := by
  unfold putItem put
  simp only
  have hlt : offset < (data ++ List.replicate (offset + 1 - data.length) ([] : Vars)).length := by
    simp; omega
  rw [List.getElem?_eq_getElem hlt]
  simp [List.getD_eq_getElem?_getD, List.getElem?_eq_getElem hlt]

/-- the values of a section into consecutive rows -/
def putAll (name : Bytes) : List Vars → Nat → List Bytes → List Vars
  | data, _, [] => data
  | data, off, v :: r => putAll name (put data off name v) (off + 1) r

theorem itemStep_value (name : Bytes) (data : List Vars) (off : Nat) (v : Bytes) (hv : okItem v = true) :
    Decodes (itemStep name (data, off)) (cstr v) ((put data off name v, off + 1), true) := by
  obtain ⟨h0, hval, hne⟩ := (okItem_iff v).mp hv
  unfold itemStep
  refine Decodes.bind_last (decodes_readCStr v h0 hval) ?_
  have : v.isEmpty = false := by cases v <;> simp_all
  simp only [this, Bool.false_eq_true, ↓reduceIte, putItem_eq]
  exact Decodes.bind_last (e := []) (Decodes.lift_ok _) (Decodes.pure _)

theorem itemStep_end (name : Bytes) (st : List Vars × Nat) : Decodes (itemStep name st) [0] (st, false) := by
  unfold itemStep
  have h : Decodes readCStr ([] ++ [0]) [] := decodes_readCStr [] (by simp) rfl
  exact Decodes.bind_last h (by simp only [List.isEmpty_nil, ↓reduceIte]; exact Decodes.pure _)

def encValues (vals : List Bytes) : Bytes := (vals.map cstr).flatten ++ [0]

theorem decodes_itemsLoop (name : Bytes) (vals : List Bytes) (h : ∀ v ∈ vals, okItem v = true) :
    ∀ (data : List Vars) (off fuel : Nat), vals.length < fuel →
      Decodes (loopBrk (itemStep name) fuel (data, off)) (encValues vals) (putAll name data off vals, off + vals.length) := by
  induction vals with
  | nil =>
    intro data off fuel hf b post hr
    cases fuel with
    | zero => omega
    | succ fuel =>
      simp only [encValues, List.map_nil, List.flatten_nil, List.nil_append, putAll, List.length_nil, Nat.add_zero] at hr ⊢
      exact loopBrk_break (itemStep_end name (data, off)) (by simp) fuel b post hr
  | cons v r ih =>
    intro data off fuel hf b post hr
    cases fuel with
    | zero => omega
    | succ fuel =>
      simp only [encValues, List.map_cons, List.flatten_cons, List.append_assoc, putAll, List.length_cons] at hr ⊢
      obtain ⟨b1, hb1, hr1, hd1⟩ := loopBrk_continue (itemStep_value name data off v (h v (by simp))) (by simp [cstr]) fuel b
        ((r.map cstr).flatten ++ ([0] ++ post)) (by rw [hr])
      obtain ⟨b2, hb2, hr2, hd2⟩ := ih (fun x hx => h x (by simp [hx])) (put data off name v) (off + 1) fuel
        (by simp at hf; omega) b1 post (by rw [hr1]; simp [encValues])
      refine ⟨b2, ?_, hr2, by rw [hd2, hd1]⟩
      rw [hb1, hb2]
      congr 3
      omega

theorem decodes_readItems (name : Bytes) (vals : List Bytes) (h : ∀ v ∈ vals, okItem v = true)
    (data : List Vars) (off : Nat) :
    Decodes (readItems name data off) (encValues vals) (putAll name data off vals) := by
  intro b post hr
  unfold readItems
  have hrem : remainingLength b = .ok (b.remaining, b) := rfl
  rw [Par.bind_ok hrem]
  have hlen : vals.length < b.remaining + 1 := by
    have : vals.length ≤ ((vals.map cstr).flatten).length :=
      length_le_flatten vals cstr (fun p => by simp [cstr])
    simp only [Buf.remaining, hr, encValues, List.length_append, List.length_cons, List.length_nil]; omega
  obtain ⟨b1, hb1, hr1, hd1⟩ := decodes_itemsLoop name vals h data off _ hlen b post hr
  exact ⟨b1, by rw [Par.bind_ok hb1]; rfl, hr1, hd1⟩

/-- what one slice does to the tables -/
def applyValues (t : Tables) (team : Bool) (name : Bytes) (off : Nat) (vals : List Bytes) : Tables :=
  if team then { t with teams := putAll name t.teams off vals } else { t with players := putAll name t.players off vals }

theorem decodes_readField (t : Tables) (name : Bytes) (team : Bool) (off : Nat) (hoff : off < 256)
    (vals : List Bytes) (h : ∀ v ∈ vals, okItem v = true) :
    Decodes (readField t [name, if team then [0x74] else []] name) ([UInt8.ofNat off] ++ encValues vals)
      (applyValues t team name off vals) := by
  unfold readField
  have hteam : fieldIsTeam [name, if team then [0x74] else []] = .ok team := by
    cases team
    · rfl
    · have : asciiBytes "t" = [0x74] := by decide
      simp [fieldIsTeam, this]
  rw [hteam]
  refine Decodes.bind' (e1 := []) (e2 := [UInt8.ofNat off] ++ encValues vals) (Decodes.lift_ok _) ?_ rfl
  refine Decodes.bind (decodes_u8 off hoff) ?_
  cases team
  · simp only [Bool.false_eq_true, ↓reduceIte, applyValues]
    exact Decodes.bind_last (decodes_readItems name vals h _ _) (Decodes.pure _)
  · simp only [↓reduceIte, applyValues]
    exact Decodes.bind_last (decodes_readItems name vals h _ _) (Decodes.pure _)

theorem splitOn_no_delim (d : UInt8) (s : Bytes) (h : d ∉ s) : splitOn d s = [s] := by
  induction s with
  | nil => rfl
  | cons b r ih =>
    simp only [List.mem_cons, not_or] at h
    have hb : (b == d) = false := by
      rw [beq_eq_false_iff_ne]; exact fun hbd => h.1 hbd.symm
    simp [splitOn, hb, ih h.2]

theorem splitOn_append (d : UInt8) (a r : Bytes) (h : d ∉ a) : splitOn d (a ++ d :: r) = a :: splitOn d r := by
  induction a with
  | nil => simp [splitOn]
  | cons b t ih =>
    simp only [List.mem_cons, not_or] at h
    have hb : (b == d) = false := by
      rw [beq_eq_false_iff_ne]; exact fun hbd => h.1 hbd.symm
    simp [splitOn, hb, ih h.2]

/-- the column names of the SPEC: known to the parser, no `_`, no NUL, ASCII, first byte a letter -/
theorem column_field (st : State) (team : Bool) (field : Bytes) (col : List Bytes) (h : column st team field = some col) :
    knownFields.contains field = true ∧ (0x5F : UInt8) ∉ field ∧ (0 : UInt8) ∉ field ∧ (∀ b ∈ field, b.toNat < 128)
    ∧ ∃ x r, field = x :: r ∧ ¬ x.toNat < 3 := by
  have e1 : asciiBytes "player" = [112, 108, 97, 121, 101, 114] := by decide
  have e2 : asciiBytes "score" = [115, 99, 111, 114, 101] := by decide
  have e3 : asciiBytes "ping" = [112, 105, 110, 103] := by decide
  have e4 : asciiBytes "team" = [116, 101, 97, 109] := by decide
  have e5 : asciiBytes "deaths" = [100, 101, 97, 116, 104, 115] := by decide
  have e6 : asciiBytes "skill" = [115, 107, 105, 108, 108] := by decide
  have e7 : asciiBytes "pid" = [112, 105, 100] := by decide
  have key : field ∈ knownFields := by
    apply Classical.byContradiction
    intro hn
    simp only [knownFields, List.mem_cons, List.not_mem_nil, or_false, not_or] at hn
    obtain ⟨n1, n2, n3, n4, n5, n6, n7⟩ := hn
    have b1 : (field == asciiBytes "player") = false := by simpa using n1
    have b2 : (field == asciiBytes "score") = false := by simpa using n2
    have b3 : (field == asciiBytes "ping") = false := by simpa using n3
    have b4 : (field == asciiBytes "team") = false := by simpa using n4
    have b5 : (field == asciiBytes "deaths") = false := by simpa using n5
    have b6 : (field == asciiBytes "pid") = false := by simpa using n6
    have b7 : (field == asciiBytes "skill") = false := by simpa using n7
    cases team <;> simp [column, playerColumn, teamColumn, b1, b2, b3, b4, b5, b6, b7] at h
  refine ⟨List.contains_iff_mem.mpr key, ?_⟩
  simp only [knownFields, e1, e2, e3, e4, e5, e6, e7, List.mem_cons, List.not_mem_nil, or_false] at key
  rcases key with rfl | rfl | rfl | rfl | rfl | rfl | rfl <;>
    exact ⟨by decide, by decide, by decide, _, _, rfl, by decide⟩

/-- what one slice does to the tables -/
def applySlice (st : State) (t : Tables) (sl : Slice) : Tables :=
  applyValues t sl.team sl.field sl.offset (sliceValues st sl)

/-- a slice on the wire without its marker bytes -/
def encBody (st : State) (sl : Slice) : Bytes :=
  cstr (fieldId sl) ++ ([UInt8.ofNat sl.offset] ++ encValues (sliceValues st sl))

theorem encSlice_eq (st : State) (sl : Slice) : encSlice st sl = sl.markers ++ encBody st sl := by
  simp [encSlice, encBody, encValues, List.append_assoc]

/-- a slice that the SPEC allows, with sendable values -/
def SliceOk (st : State) (sl : Slice) : Prop :=
  wfSlice st sl = true ∧ ∀ v ∈ sliceValues st sl, okItem v = true

theorem fieldId_facts (st : State) (sl : Slice) (h : SliceOk st sl) :
    (0 : UInt8) ∉ fieldId sl ∧ validUtf8 (fieldId sl) = true
    ∧ splitOn 0x5F (fieldId sl) = [sl.field, if sl.team then [0x74] else []]
    ∧ knownFields.contains sl.field = true ∧ sl.offset < 256 ∧ (∀ m ∈ sl.markers, m.toNat < 3)
    ∧ ∃ x r, fieldId sl = x :: r ∧ ¬ x.toNat < 3 := by
  obtain ⟨hwf, _⟩ := h
  simp only [wfSlice, Bool.and_eq_true, List.all_eq_true, decide_eq_true_eq] at hwf
  obtain ⟨⟨hm, hoff⟩, hcol⟩ := hwf
  cases hc : column st sl.team sl.field with
  | none => rw [hc] at hcol; cases hcol
  | some col =>
    obtain ⟨hk, h5f, h0, hascii, x, r, hxr, hx⟩ := column_field st sl.team sl.field col hc
    have hsfx : ∀ b ∈ (if sl.team then [0x74] else [] : Bytes), b = 0x74 := by
      intro b hb; cases sl.team <;> simp_all
    refine ⟨?_, ?_, ?_, hk, hoff, ?_, x, r ++ ([0x5F] ++ (if sl.team then [0x74] else [])), ?_, hx⟩
    · simp only [fieldId, List.mem_append, List.mem_singleton, not_or]
      refine ⟨⟨h0, by decide⟩, fun hb => ?_⟩
      have := hsfx 0 hb
      exact absurd this (by decide)
    · apply validUtf8_ascii
      intro b hb
      simp only [fieldId, List.mem_append, List.mem_singleton] at hb
      rcases hb with (hb | hb) | hb
      · exact hascii b hb
      · subst hb; decide
      · rw [hsfx b hb]; decide
    · have : fieldId sl = sl.field ++ 0x5F :: (if sl.team then [0x74] else []) := by simp [fieldId]
      rw [this, splitOn_append _ _ _ h5f, splitOn_no_delim]
      intro hb
      exact absurd (hsfx _ hb) (by decide)
    · intro m hm'
      have := hm m hm'
      exact UInt8.lt_iff_toNat_lt.mp this
    · simp [fieldId, hxr]

theorem decodes_readSection (st : State) (t : Tables) (sl : Slice) (h : SliceOk st sl) :
    Decodes (readSection t) (encBody st sl) (applySlice st t sl) := by
  obtain ⟨h0, hv, hsplit, hk, hoff, _, x, r, hxr, _⟩ := fieldId_facts st sl h
  unfold readSection encBody
  refine Decodes.bind (decodes_readCStr _ h0 hv) ?_
  have hne : (fieldId sl).isEmpty = false := by rw [hxr]; rfl
  simp only [hne, Bool.false_eq_true, ↓reduceIte, hsplit, afterName, List.head?_cons, hk, Bool.not_true]
  exact decodes_readField t sl.field sl.team sl.offset hoff _ h.2

/-- marker bytes are skipped one per round -/
theorem markers_skip : ∀ (ms : Bytes), (∀ m ∈ ms, m.toNat < 3) → ∀ (t : Tables) (b : Buf) (fuel : Nat) (tail : Bytes),
    b.rest = ms ++ tail → b.remaining < fuel →
    ∃ b' fuel', whileRemaining sectionStep fuel t b = whileRemaining sectionStep fuel' t b'
      ∧ b'.rest = tail ∧ b'.remaining < fuel' := by
  intro ms
  induction ms with
  | nil => intro _ t b fuel tail hr hf; exact ⟨b, fuel, rfl, by simpa using hr, hf⟩
  | cons m r ih =>
    intro hm t b fuel tail hr hf
    cases fuel with
    | zero => omega
    | succ fuel =>
      have hne : (b.remaining == 0) = false := by simp [Buf.remaining, hr]
      have hstep : sectionStep t b = .ok (t, b.advance 1) := by
        rw [sectionStep_cons t b m (r ++ tail) (by simpa using hr)]
        simp [hm m (by simp)]
      have hr1 : (b.advance 1).rest = r ++ tail := by simp [hr]
      have hrem : (b.advance 1).remaining < fuel := by
        rw [Buf.remaining_advance]; simp [Buf.remaining, hr] at hf ⊢; omega
      obtain ⟨b', fuel', heq, hr', hf'⟩ := ih (fun x hx => hm x (by simp [hx])) t (b.advance 1) fuel tail hr1 hrem
      refine ⟨b', fuel', ?_, hr', hf'⟩
      simp only [whileRemaining, hne, Bool.false_eq_true, ↓reduceIte, hstep]
      exact heq

/-- the field sections of a packet, to its end -/
theorem sections_run (st : State) : ∀ (ss : List Slice), (∀ sl ∈ ss, SliceOk st sl) → ∀ (t : Tables) (b : Buf) (fuel : Nat),
    b.rest = encSlices st ss → b.remaining < fuel →
    ∃ b', whileRemaining sectionStep fuel t b = .ok (ss.foldl (applySlice st) t, b') := by
  intro ss
  induction ss with
  | nil =>
    intro _ t b fuel hr hf
    cases fuel with
    | zero => omega
    | succ fuel =>
      have : (b.remaining == 0) = true := by simp [Buf.remaining, hr, encSlices]
      exact ⟨b, by simp [whileRemaining, this]⟩
  | cons sl r ih =>
    intro hok t b fuel hr hf
    have hsl := hok sl (by simp)
    obtain ⟨_, _, _, _, _, hm, x, xr, hxr, hx⟩ := fieldId_facts st sl hsl
    have hr' : b.rest = sl.markers ++ (encBody st sl ++ encSlices st r) := by
      rw [hr]; simp [encSlices, encSlice_eq, List.append_assoc]
    obtain ⟨b1, fuel1, heq1, hr1, hf1⟩ := markers_skip sl.markers hm t b fuel _ hr' hf
    rw [heq1]
    cases fuel1 with
    | zero => omega
    | succ fuel1 =>
      have hhead : b1.rest = x :: (xr ++ [0] ++ ([UInt8.ofNat sl.offset] ++ encValues (sliceValues st sl)) ++ encSlices st r) := by
        rw [hr1]; simp [encBody, cstr, hxr, List.append_assoc]
      have hne : (b1.remaining == 0) = false := by simp [Buf.remaining, hhead]
      obtain ⟨b2, hb2, hr2, _⟩ := decodes_readSection st t sl hsl b1 (encSlices st r) hr1
      have hstep : sectionStep t b1 = .ok (applySlice st t sl, b2) := by
        rw [sectionStep_cons t b1 x _ hhead]
        simp only [hx, ↓reduceIte]
        exact hb2
      have hrem : b2.remaining < fuel1 := by
        have h1 : b2.remaining = (encSlices st r).length := by simp [Buf.remaining, hr2]
        have h2 : b1.remaining = (encBody st sl ++ encSlices st r).length := by simp [Buf.remaining, hr1]
        have h3 : 0 < (encBody st sl).length := by simp [encBody, cstr]; omega
        simp only [List.length_append] at h2
        omega
      obtain ⟨b3, hb3⟩ := ih (fun s hs => hok s (by simp [hs])) (applySlice st t sl) b2 fuel1 hr2 hrem
      refine ⟨b3, ?_⟩
      simp only [whileRemaining, hne, Bool.false_eq_true, ↓reduceIte, hstep, List.foldl_cons]
      exact hb3

theorem readSections_run (st : State) (ss : List Slice) (h : ∀ sl ∈ ss, SliceOk st sl) (t : Tables) :
    (readSections t).run (encSlices st ss) = .ok (ss.foldl (applySlice st) t) := by
  unfold Par.run readSections
  have hrem : remainingLength (Buf.new (encSlices st ss)) = .ok ((encSlices st ss).length, Buf.new (encSlices st ss)) := rfl
  rw [Par.bind_ok hrem]
  obtain ⟨b', hb'⟩ := sections_run st ss h t (Buf.new (encSlices st ss)) ((encSlices st ss).length + 1) rfl
    (by simp [Buf.remaining])
  rw [hb']

/-- all packets' sections, in packet order -/
theorem readAllSections_run (st : State) : ∀ (layout : List (List Slice)), (∀ sl ∈ layout.flatten, SliceOk st sl) →
    ∀ (t : Tables), readAllSections t (layout.map (encSlices st)) = .ok (layout.flatten.foldl (applySlice st) t) := by
  intro layout
  induction layout with
  | nil => intro _ t; rfl
  | cons ss r ih =>
    intro h t
    simp only [List.map_cons, readAllSections, List.flatten_cons, List.foldl_append]
    rw [readSections_run st ss (fun sl hsl => h sl (by simp [hsl])) t]
    exact ih (fun sl hsl => h sl (by simp only [List.flatten_cons, List.mem_append]; exact Or.inr hsl)) _

end Gd.Gs3
