import GdVerif.Lemmas.Unreal2
/-
  The whole Unreal 2 query run symbolically on the SPEC's script: what each request receives, what
  the two listening loops accumulate, section by section.
-/
namespace Gd.Unreal2
open Gd Gd.Unreal2.Spec


/-- the transport state of a query in progress: one open socket (number 0) with queue `q`, no
scripted send faults -/
structure Live (w : Net) (q : List Delivery) : Prop where
  conns : w.conns = [q]
  faults : w.faults = []

def sock (port : Nat) : Sock := ⟨0, port, false⟩

theorem send_live {w : Net} {q : List Delivery} (h : Live w q) (port : Nat) (d : Bytes) :
    ∃ w', send (sock port) d w = (.ok (), w') ∧ Live w' q := by
  refine ⟨{ w with log := w.log ++ [.send 0 port d false] }, ?_, ⟨h.conns, h.faults⟩⟩
  unfold Gd.send
  rw [h.faults]
  rfl

theorem recv_data {w : Net} {q : List Delivery} {d : Bytes} (h : Live w (.data d :: q)) (port : Nat)
    (hd : d.length ≤ PACKET_SIZE) :
    ∃ w', recv (sock port) (some PACKET_SIZE) w = (.ok d, w') ∧ Live w' q := by
  have htake : d.take PACKET_SIZE = d := List.take_of_length_le hd
  refine ⟨{ w with conns := setAt w.conns 0 q, log := w.log ++ [.recv 0 (some PACKET_SIZE) (some d.length)] }, ?_,
    ⟨by simp [h.conns, setAt], h.faults⟩⟩
  unfold Gd.recv
  simp only [sock, h.conns, List.getD_cons_zero, Bool.false_eq_true, ↓reduceIte, Option.getD_some, htake]

theorem recv_silence {w : Net} {q : List Delivery} (h : Live w (.silence :: q)) (port : Nat) :
    ∃ w', recv (sock port) (some PACKET_SIZE) w = (.err .packetReceive, w') ∧ Live w' q := by
  refine ⟨{ w with conns := setAt w.conns 0 q, log := w.log ++ [.recv 0 (some PACKET_SIZE) none] }, ?_,
    ⟨by simp [h.conns, setAt], h.faults⟩⟩
  unfold Gd.recv
  simp only [sock, h.conns, List.getD_cons_zero]

theorem recv_nil {w : Net} (h : Live w []) (port : Nat) :
    ∃ w', recv (sock port) (some PACKET_SIZE) w = (.err .packetReceive, w') ∧ Live w' [] := by
  refine ⟨{ w with log := w.log ++ [.recv 0 (some PACKET_SIZE) none] }, ?_, ⟨h.conns, h.faults⟩⟩
  unfold Gd.recv
  simp only [sock, h.conns, List.getD_cons_zero, Bool.false_eq_true, ↓reduceIte]

theorem retry_ok {f : Q α} {w w' : Net} {a : α} (r : Nat) (h : f w = (.ok a, w')) : retryOnTimeout r f w = (.ok a, w') := by
  cases r with
  | zero => exact h
  | succ r => simp [retryOnTimeout, h]

theorem requestImpl_data {w : Net} {q : List Delivery} {d : Bytes} (h : Live w (.data d :: q)) (port : Nat)
    (kind : PacketKind) (hd : d.length ≤ PACKET_SIZE) :
    ∃ w', requestImpl (sock port) kind w = (.ok d, w') ∧ Live w' q := by
  obtain ⟨w1, hs, hl1⟩ := send_live h port (requestBytes kind)
  obtain ⟨w2, hr, hl2⟩ := recv_data hl1 port hd
  refine ⟨w2, ?_, hl2⟩
  unfold requestImpl
  rw [Q.bind_apply, hs]
  exact hr

theorem requestData_data {w : Net} {q : List Delivery} {d : Bytes} (h : Live w (.data d :: q)) (port r : Nat)
    (kind : PacketKind) (hd : d.length ≤ PACKET_SIZE) :
    ∃ w', requestData (sock port) r kind w = (.ok d, w') ∧ Live w' q := by
  obtain ⟨w', h1, h2⟩ := requestImpl_data h port kind hd
  exact ⟨w', retry_ok r h1, h2⟩

theorem requestImpl_silence {w : Net} {q : List Delivery} (h : Live w (.silence :: q)) (port : Nat) (kind : PacketKind) :
    ∃ w', requestImpl (sock port) kind w = (.err .packetReceive, w') ∧ Live w' q := by
  obtain ⟨w1, hs, hl1⟩ := send_live h port (requestBytes kind)
  obtain ⟨w2, hr, hl2⟩ := recv_silence hl1 port
  refine ⟨w2, ?_, hl2⟩
  unfold requestImpl
  rw [Q.bind_apply, hs]
  exact hr

/-- nothing comes back for `r + 1` attempts: the request fails with a receive error -/
theorem requestData_silent (port : Nat) (kind : PacketKind) (q : List Delivery) :
    ∀ (r : Nat) (w : Net), Live w (List.replicate (r + 1) .silence ++ q) →
      ∃ w', requestData (sock port) r kind w = (.err .packetReceive, w') ∧ Live w' q := by
  intro r
  induction r with
  | zero =>
    intro w h
    exact requestImpl_silence (by simpa using h) port kind
  | succ r ih =>
    intro w h
    have h' : Live w (.silence :: (List.replicate (r + 1) .silence ++ q)) := by
      simpa [List.replicate_succ] using h
    obtain ⟨w1, h1, hl1⟩ := requestImpl_silence h' port kind
    obtain ⟨w2, h2, hl2⟩ := ih w1 hl1
    refine ⟨w2, ?_, hl2⟩
    unfold requestData at h2 ⊢
    simp only [retryOnTimeout, h1, ErrKind.isTimeout, ↓reduceIte]
    exact h2




/-! ### the listening loops on a queue of datagrams -/

/-- every datagram is taken and the loop goes on -/
inductive Rounds {σ : Type} (body : σ → Bytes → Res (σ × Bool)) : σ → List Bytes → σ → Prop
  | nil (st : σ) : Rounds body st [] st
  | cons {st st1 st' : σ} {d : Bytes} {ds : List Bytes} (h : body st d = .ok (st1, true)) (rest : Rounds body st1 ds st') :
      Rounds body st (d :: ds) st'

/-- … except that the last datagram may end the loop -/
inductive RoundsStop {σ : Type} (body : σ → Bytes → Res (σ × Bool)) : σ → List Bytes → σ → Prop
  | nil (st : σ) : RoundsStop body st [] st
  | stop {st st' : σ} {d : Bytes} (h : body st d = .ok (st', false)) : RoundsStop body st [d] st'
  | cons {st st1 st' : σ} {d : Bytes} {ds : List Bytes} (h : body st d = .ok (st1, true)) (rest : RoundsStop body st1 ds st') :
      RoundsStop body st (d :: ds) st'

theorem recvWhile_until_silence {σ : Type} (port : Nat) (body : σ → Bytes → Res (σ × Bool)) {st st' : σ} {ds : List Bytes}
    (hr : Rounds body st ds st') (hsz : ∀ d ∈ ds, d.length ≤ PACKET_SIZE) (q : List Delivery) :
    ∀ (fuel : Nat) (w : Net), Live w (ds.map .data ++ .silence :: q) → ds.length < fuel →
      ∃ w', recvWhile (sock port) body fuel st w = (.ok st', w') ∧ Live w' q := by
  induction hr with
  | nil st0 =>
    intro fuel w hl hf
    cases fuel with
    | zero => omega
    | succ k =>
      obtain ⟨w1, h1, hl1⟩ := recv_silence (by simpa using hl) port
      exact ⟨w1, by simp [recvWhile, h1], hl1⟩
  | cons h rest ih =>
    rename_i st0 st1 st2 d ds'
    intro fuel w hl hf
    cases fuel with
    | zero => omega
    | succ k =>
      obtain ⟨w1, h1, hl1⟩ := recv_data (q := ds'.map .data ++ .silence :: q) (by simpa using hl) port (hsz d (by simp))
      obtain ⟨w2, h2, hl2⟩ := ih (fun d' hd' => hsz d' (by simp [hd'])) k w1 hl1 (by simp only [List.length_cons] at hf; omega)
      exact ⟨w2, by simp only [recvWhile, h1, h]; exact h2, hl2⟩

theorem recvWhile_until_end {σ : Type} (port : Nat) (body : σ → Bytes → Res (σ × Bool)) {st st' : σ} {ds : List Bytes}
    (hr : RoundsStop body st ds st') (hsz : ∀ d ∈ ds, d.length ≤ PACKET_SIZE) :
    ∀ (fuel : Nat) (w : Net), Live w (ds.map .data) → ds.length < fuel →
      ∃ w', recvWhile (sock port) body fuel st w = (.ok st', w') := by
  induction hr with
  | nil st0 =>
    intro fuel w hl hf
    cases fuel with
    | zero => omega
    | succ k =>
      obtain ⟨w1, h1, _⟩ := recv_nil (by simpa using hl) port
      exact ⟨w1, by simp [recvWhile, h1]⟩
  | stop h =>
    rename_i st0 st1 d
    intro fuel w hl hf
    cases fuel with
    | zero => omega
    | succ k =>
      obtain ⟨w1, h1, _⟩ := recv_data (q := []) (by simpa using hl) port (hsz d (by simp))
      exact ⟨w1, by simp only [recvWhile, h1, h]⟩
  | cons h rest ih =>
    rename_i st0 st1 st2 d ds'
    intro fuel w hl hf
    cases fuel with
    | zero => omega
    | succ k =>
      obtain ⟨w1, h1, hl1⟩ := recv_data (q := ds'.map .data) (by simpa using hl) port (hsz d (by simp))
      obtain ⟨w2, h2⟩ := ih (fun d' hd' => hsz d' (by simp [hd'])) k w1 hl1 (by simp only [List.length_cons] at hf; omega)
      exact ⟨w2, by simp only [recvWhile, h1, h]; exact h2⟩

theorem queued_live {w : Net} {q : List Delivery} (h : Live w q) (port : Nat) : queued (sock port) w = q.length := by
  simp [queued, sock, h.conns]

/-! ### one datagram of each list -/

def rulesDg (st : State) (c : List (UStr × UStr)) : Bytes := reply st 1 (c.map encPair).flatten
def playersDg (st : State) (c : List SPlayer) : Bytes := reply st 2 (c.map encPlayer).flatten

theorem headers_then {α : Type} (st : State) (hh : st.header.length = 4) (k : PacketKind) (p : Par α) (body : Bytes) (x : α)
    (hp : DecodesEnd p body x) :
    (consumeHeaders k >>= fun _ => p).run (reply st k.code body) = .ok x := by
  have : DecodesEnd (consumeHeaders k >>= fun _ => p) (reply st k.code body) x :=
    DecodesEnd.bind (decodes_consumeHeaders k st.header hh) hp (by simp [reply, List.append_assoc])
  exact this.run

theorem rulesRound_dg (st : State) (hh : st.header.length = 4) (acc : MutatorsAndRules) (c : List (UStr × UStr))
    (hw : ∀ p ∈ c, wfStr p.1 = true ∧ wfStr p.2 = true) :
    rulesRound acc (rulesDg st c) = .ok (c.foldl addText acc, true) := by
  unfold rulesRound rulesDg
  obtain ⟨b1, h1, hr1, _⟩ := decodes_consumeHeaders .mutatorsAndRules st.header hh
    (Buf.new (reply st 1 (c.map encPair).flatten)) (c.map encPair).flatten (by simp [reply, List.append_assoc, PacketKind.code])
  rw [h1]
  obtain ⟨b2, h2, _⟩ := parseRules_body acc c hw b1 hr1
  simp only [h2]

theorem playersRound_dg (st : State) (hh : st.header.length = 4) (n : Nat) (acc : Players) (c : List SPlayer)
    (hw : ∀ p ∈ c, wfPlayer p = true) :
    playersRound n acc (playersDg st c) = .ok (c.foldl pushPlayer acc, decide ((c.foldl pushPlayer acc).totalLen < n)) := by
  unfold playersRound playersDg
  have := headers_then st hh .players (parsePlayers acc) _ _ (parsePlayers_body acc c hw)
  simp only [PacketKind.code] at this
  rw [this]




/-! ### the rules answer -/

theorem Q.bind_ok {q : Q α} {f : α → Q β} {w w' : Net} {a : α} (h : q w = (.ok a, w')) : (q >>= f) w = f a w' := by
  rw [Q.bind_apply, h]

theorem Q.bind_err {q : Q α} {f : α → Q β} {w w' : Net} {k : ErrKind} (h : q w = (.err k, w')) :
    (q >>= f) w = (.err k, w') := by
  rw [Q.bind_apply, h]

theorem parse_bind_ok {p : Par α} {d : Bytes} {x : α} {f : α → Q β} (h : p.run d = .ok x) (w : Net) :
    (parse p d >>= f) w = f x w := by
  simp [Q.bind_apply, parse, Q.lift, h]

theorem parse_bind_err {p : Par α} {d : Bytes} {k : ErrKind} {f : α → Q β} (h : p.run d = .err k) (w : Net) :
    (parse p d >>= f) w = (.err k, w) := by
  simp [Q.bind_apply, parse, Q.lift, h]

theorem rules_rounds (st : State) (hh : st.header.length = 4) (cs : List (List (UStr × UStr)))
    (hw : ∀ c ∈ cs, ∀ p ∈ c, wfStr p.1 = true ∧ wfStr p.2 = true) (pre : List (Bytes × Bytes)) :
    Rounds rulesRound (mrOf pre) (cs.map (rulesDg st)) (mrOf (pre ++ cs.flatten.map pairText)) := by
  induction cs generalizing pre with
  | nil => simpa using Rounds.nil (mrOf pre)
  | cons c r ih =>
    have h1 := rulesRound_dg st hh (mrOf pre) c (hw c (by simp))
    rw [foldl_addText] at h1
    have h2 := ih (fun c' hc' => hw c' (by simp [hc'])) (pre ++ c.map pairText)
    simp only [List.map_cons, List.flatten_cons, List.map_append]
    rw [← List.append_assoc]
    exact Rounds.cons h1 h2

/-- a valid rules answer: the request gets the first datagram, the loop takes the others and ends on
the silence after them; the result is the SPEC's view of all the pairs -/
theorem queryRules_valid (cfg : Config) (st : State) (hh : st.header.length = 4)
    (hw : ∀ p ∈ st.pairs, wfStr p.1 = true ∧ wfStr p.2 = true)
    (hsz : ∀ d ∈ rulesDatagrams cfg st, d.length ≤ PACKET_SIZE) (port r : Nat) (q : List Delivery) (w : Net)
    (hl : Live w ((rulesDatagrams cfg st).map .data ++ .silence :: q)) :
    ∃ w', queryRules (sock port) r w = (.ok (expectedMR st), w') ∧ Live w' q := by
  have hdg : rulesDatagrams cfg st = (split cfg.rulesCuts st.pairs).map (rulesDg st) := rfl
  rw [hdg] at hl hsz
  have hflat := split_flatten cfg.rulesCuts st.pairs
  have hwc : ∀ c ∈ split cfg.rulesCuts st.pairs, ∀ p ∈ c, wfStr p.1 = true ∧ wfStr p.2 = true := by
    intro c hc p hp
    apply hw
    rw [← hflat]
    exact List.mem_flatten.mpr ⟨c, hc, hp⟩
  cases hs : split cfg.rulesCuts st.pairs with
  | nil => exact absurd hs (split_ne_nil _ _)
  | cons c0 cs =>
    rw [hs] at hl hsz hwc hflat
    simp only [List.map_cons, List.cons_append] at hl
    obtain ⟨w1, h1, hl1⟩ := requestData_data hl port r .mutatorsAndRules (hsz _ (by simp))
    -- the first datagram
    have hfirst : (consumeHeaders .mutatorsAndRules >>= fun _ => parseRules .empty).run (rulesDg st c0)
        = .ok (mrOf (c0.map pairText)) := by
      have := headers_then st hh .mutatorsAndRules (parseRules (mrOf [])) _ _
        (parseRules_body (mrOf []) c0 (hwc c0 (by simp)))
      rw [foldl_addText] at this
      simpa [rulesDg, PacketKind.code, mrOf_nil] using this
    -- the others
    have hrounds := rules_rounds st hh cs (fun c hc => hwc c (by simp [hc])) (c0.map pairText)
    obtain ⟨w2, h2, hl2⟩ := recvWhile_until_silence port rulesRound hrounds
      (fun d hd => hsz d (by simp only [List.map_cons, List.mem_cons]; exact Or.inr hd)) q
      (queued (sock port) w1 + 1) w1 hl1 (by rw [queued_live hl1]; simp; omega)
    refine ⟨w2, ?_, hl2⟩
    unfold queryRules
    refine (Q.bind_ok h1).trans ?_
    refine (parse_bind_ok hfirst w1).trans ?_
    refine h2.trans ?_
    congr 2
    simp only [expectedMR, mrOf, pairTexts]
    have : c0.map pairText ++ cs.flatten.map pairText = st.pairs.map pairText := by
      rw [← List.map_append, ← List.flatten_cons, hflat]
    rw [this]
    rfl

theorem queryRules_silent (port r : Nat) (q : List Delivery) (w : Net)
    (hl : Live w (List.replicate (r + 1) .silence ++ q)) :
    ∃ w', queryRules (sock port) r w = (.err .packetReceive, w') ∧ Live w' q := by
  obtain ⟨w1, h1, hl1⟩ := requestData_silent port .mutatorsAndRules q r w hl
  refine ⟨w1, ?_, hl1⟩
  unfold queryRules
  rw [Q.bind_err h1]

theorem malformed_run {α : Type} (k : PacketKind) (p : Par α) :
    (consumeHeaders k >>= fun _ => p).run malformedDatagram = .err .packetBad := by
  unfold Par.run
  rw [Par.bind_apply]
  have : consumeHeaders k (Buf.new malformedDatagram) = .err .packetBad := by
    unfold consumeHeaders
    rw [Par.bind_apply]
    have : moveCursor 4 (Buf.new malformedDatagram) = .err .packetBad := by decide
    rw [this]
  rw [this]

theorem queryRules_malformed (port r : Nat) (q : List Delivery) (w : Net)
    (hl : Live w (.data malformedDatagram :: q)) :
    ∃ w', queryRules (sock port) r w = (.err .packetBad, w') ∧ Live w' q := by
  obtain ⟨w1, h1, hl1⟩ := requestData_data hl port r .mutatorsAndRules (by decide)
  refine ⟨w1, ?_, hl1⟩
  unfold queryRules
  refine (Q.bind_ok h1).trans ?_
  exact parse_bind_err (malformed_run _ _) w1




/-! ### the players answer -/

theorem totalLen_push (st : Players) (p : Player) : (st.push p).totalLen = st.totalLen + 1 := by
  unfold Players.push Players.totalLen
  split <;> simp <;> omega

theorem totalLen_foldl (ps : List SPlayer) (st : Players) : (ps.foldl pushPlayer st).totalLen = st.totalLen + ps.length := by
  induction ps generalizing st with
  | nil => simp
  | cons p r ih =>
    simp only [List.foldl_cons, List.length_cons]
    rw [ih, pushPlayer, totalLen_push]
    omega

theorem players_rounds (st : State) (hh : st.header.length = 4) (n : Nat) (cs : List (List SPlayer))
    (hw : ∀ c ∈ cs, ∀ p ∈ c, wfPlayer p = true) :
    ∀ (acc : Players), (cs.length ≤ 1 ∨ acc.totalLen + cs.dropLast.flatten.length < n) →
      RoundsStop (playersRound n) acc (cs.map (playersDg st)) (cs.flatten.foldl pushPlayer acc) := by
  induction cs with
  | nil => intro acc _; exact RoundsStop.nil acc
  | cons c r ih =>
    intro acc hinv
    have h1 := playersRound_dg st hh n acc c (hw c (by simp))
    cases r with
    | nil =>
      simp only [List.map_cons, List.map_nil, List.flatten_cons, List.flatten_nil, List.append_nil]
      cases hb : decide ((c.foldl pushPlayer acc).totalLen < n) with
      | true => rw [hb] at h1; exact RoundsStop.cons h1 (RoundsStop.nil _)
      | false => rw [hb] at h1; exact RoundsStop.stop h1
    | cons c' r' =>
      have hlt : acc.totalLen + c.length + ((c' :: r').dropLast).flatten.length < n := by
        rcases hinv with h | h
        · simp at h
        · simpa [List.dropLast, Nat.add_assoc] using h
      have hmore : decide ((c.foldl pushPlayer acc).totalLen < n) = true := by
        rw [totalLen_foldl]; simp; omega
      rw [hmore] at h1
      have h2 := ih (fun c0 hc0 => hw c0 (by simp [hc0])) (c.foldl pushPlayer acc)
        (Or.inr (by rw [totalLen_foldl]; exact hlt))
      simp only [List.map_cons, List.flatten_cons, List.foldl_append] at h2 ⊢
      exact RoundsStop.cons h1 h2

theorem expectedPlayers_eq (st : State) : st.players.foldl pushPlayer .empty = expectedPlayers st := by
  rw [foldl_pushPlayer]
  simp [Players.empty, expectedPlayers]

/-- a valid players answer -/
theorem queryPlayers_valid (cfg : Config) (st : State) (hh : st.header.length = 4)
    (hw : ∀ p ∈ st.players, wfPlayer p = true) (hsz : ∀ d ∈ playersDatagrams cfg st, d.length ≤ PACKET_SIZE)
    (hann : playersAnnounced cfg st = true) (port r : Nat) (w : Net)
    (hl : Live w ((playersDatagrams cfg st).map .data)) :
    ∃ w', queryPlayers (sock port) r st.numPlayers w = (.ok (expectedPlayers st), w') := by
  have hdg : playersDatagrams cfg st = (split cfg.playersCuts st.players).map (playersDg st) := rfl
  rw [hdg] at hl hsz
  have hflat := split_flatten cfg.playersCuts st.players
  have hwc : ∀ c ∈ split cfg.playersCuts st.players, ∀ p ∈ c, wfPlayer p = true := by
    intro c hc p hp
    apply hw
    rw [← hflat]
    exact List.mem_flatten.mpr ⟨c, hc, hp⟩
  unfold playersAnnounced at hann
  simp only [Bool.or_eq_true, decide_eq_true_eq] at hann
  cases hs : split cfg.playersCuts st.players with
  | nil => exact absurd hs (split_ne_nil _ _)
  | cons c0 cs =>
    rw [hs] at hl hsz hwc hflat hann
    simp only [List.map_cons] at hl
    obtain ⟨w1, h1, hl1⟩ := requestData_data hl port r .players (hsz _ (by simp))
    have hfirst := playersRound_dg st hh st.numPlayers .empty c0 (hwc c0 (by simp))
    have hfinal : (c0 :: cs).flatten.foldl pushPlayer .empty = expectedPlayers st := by
      rw [hflat]; exact expectedPlayers_eq st
    unfold queryPlayers
    cases hmore : decide ((c0.foldl pushPlayer .empty).totalLen < st.numPlayers) with
    | false =>
      -- the announced number is reached with the first datagram: by `playersAnnounced` it is the only one
      rw [hmore] at hfirst
      have hcs : cs = [] := by
        cases cs with
        | nil => rfl
        | cons c1 r1 =>
          exfalso
          rcases hann with h | h
          · simp at h
          · rw [totalLen_foldl] at hmore
            have hdl : (c0 :: c1 :: r1).dropLast = c0 :: (c1 :: r1).dropLast := rfl
            rw [hdl, List.flatten_cons, List.length_append] at h
            have h0 : Players.empty.totalLen = 0 := rfl
            simp only [decide_eq_false_iff_not] at hmore
            omega
      subst hcs
      refine ⟨w1, ?_⟩
      refine (Q.bind_ok h1).trans ?_
      simp only [Q.bind_apply, Q.lift, hfirst, Bool.false_eq_true, ↓reduceIte]
      simp only [List.flatten_cons, List.flatten_nil, List.append_nil] at hfinal
      rw [hfinal]
      rfl
    | true =>
      rw [hmore] at hfirst
      have hinv : cs.length ≤ 1 ∨ (c0.foldl pushPlayer .empty).totalLen + cs.dropLast.flatten.length < st.numPlayers := by
        cases cs with
        | nil => left; simp
        | cons c1 r1 =>
          right
          rcases hann with h | h
          · simp at h
          · rw [totalLen_foldl]
            have hdl : (c0 :: c1 :: r1).dropLast = c0 :: (c1 :: r1).dropLast := rfl
            rw [hdl, List.flatten_cons, List.length_append] at h
            have h0 : Players.empty.totalLen = 0 := rfl
            omega
      have hrounds := players_rounds st hh st.numPlayers cs (fun c hc => hwc c (by simp [hc])) _ hinv
      obtain ⟨w2, h2⟩ := recvWhile_until_end port (playersRound st.numPlayers) hrounds
        (fun d hd => hsz d (by simp only [List.map_cons, List.mem_cons]; exact Or.inr hd))
        (queued (sock port) w1 + 1) w1 hl1 (by rw [queued_live hl1]; simp)
      refine ⟨w2, ?_⟩
      refine (Q.bind_ok h1).trans ?_
      simp only [Q.bind_apply, Q.lift, hfirst, ↓reduceIte]
      rw [h2]
      simp only [List.flatten_cons, List.foldl_append] at hfinal
      rw [hfinal]

theorem queryPlayers_silent (port r n : Nat) (q : List Delivery) (w : Net)
    (hl : Live w (List.replicate (r + 1) .silence ++ q)) :
    ∃ w', queryPlayers (sock port) r n w = (.err .packetReceive, w') := by
  obtain ⟨w1, h1, _⟩ := requestData_silent port .players q r w hl
  exact ⟨w1, by unfold queryPlayers; exact Q.bind_err h1⟩

theorem queryPlayers_malformed (port r n : Nat) (q : List Delivery) (w : Net)
    (hl : Live w (.data malformedDatagram :: q)) :
    ∃ w', queryPlayers (sock port) r n w = (.err .packetBad, w') := by
  obtain ⟨w1, h1, _⟩ := requestData_data hl port r .players (by decide)
  refine ⟨w1, ?_⟩
  unfold queryPlayers
  refine (Q.bind_ok h1).trans ?_
  have : playersRound n .empty malformedDatagram = .err .packetBad := by
    unfold playersRound
    rw [malformed_run]
  simp only [Q.bind_apply, Q.lift, this]




/-! ### sections under their gather toggle -/

def tryRes : Res α → Res (Option α)
  | .ok a => .ok (some a)
  | .err _ => .ok none
  | .crash => .crash

def enforceRes : Res α → Res (Option α)
  | .ok a => .ok (some a)
  | .err k => .err k
  | .crash => .crash

theorem maybeGather_try {f : Q α} {w w' : Net} {r : Res α} (h : f w = (r, w')) :
    maybeGather .try_ f w = (tryRes r, w') := by
  simp only [maybeGather, h]
  cases r <;> rfl

theorem maybeGather_enforce {f : Q α} {w w' : Net} {r : Res α} (h : f w = (r, w')) :
    maybeGather .enforce f w = (enforceRes r, w') := by
  simp only [maybeGather]
  show (f >>= fun a => pure (some a)) w = _
  rw [Q.bind_apply, h]
  cases r <;> rfl

structure WfParts (cfg : Config) (st : State) : Prop where
  header : st.header.length = 4
  pairs : ∀ p ∈ st.pairs, wfStr p.1 = true ∧ wfStr p.2 = true
  players : ∀ p ∈ st.players, wfPlayer p = true
  infoSize : (infoDatagram st).length ≤ PACKET_SIZE
  rulesSize : ∀ d ∈ rulesDatagrams cfg st, d.length ≤ PACKET_SIZE
  playersSize : ∀ d ∈ playersDatagrams cfg st, d.length ≤ PACKET_SIZE
  announced : playersAnnounced cfg st = true
  info : Decodes parseServerInfo (encInfoCore st) (infoOf st)

theorem wf_parts (cfg : Config) (st : State) (h : wf cfg st = true) : WfParts cfg st := by
  simp only [wf, Bool.and_eq_true, decide_eq_true_eq, beq_iff_eq, List.all_eq_true] at h
  obtain ⟨⟨⟨⟨⟨⟨⟨⟨⟨⟨⟨⟨⟨⟨⟨hh, h1⟩, h2⟩, h3⟩, h4⟩, h5⟩, h6⟩, h7⟩, h8⟩, h9⟩, hp⟩, hpl⟩, hi⟩, hr⟩, hps⟩, ha⟩ := h
  exact ⟨hh, hp, hpl, hi, hr, hps, ha, decodes_serverInfo st h1 h2 h3 h4 h5 h6 h7 h8 h9⟩

theorem rules_section (cfg : Config) (st : State) (hp : WfParts cfg st) (port : Nat) (q : List Delivery) (w : Net)
    (hl : Live w (rulesSection cfg st ++ q)) :
    ∃ w', maybeGather cfg.gather.mutatorsAndRules (queryRules (sock port) cfg.retries) w
        = (sectionResult cfg.gather.mutatorsAndRules cfg.rulesOutcome (expectedMR st), w')
      ∧ (rulesFatal cfg = false → Live w' q) := by
  unfold rulesSection at hl
  unfold rulesFatal
  cases ht : cfg.gather.mutatorsAndRules with
  | skip =>
    rw [ht] at hl
    exact ⟨w, rfl, fun _ => by simpa [sectionScript] using hl⟩
  | try_ =>
    rw [ht] at hl
    cases ho : cfg.rulesOutcome with
    | valid =>
      rw [ho] at hl
      obtain ⟨w', h1, h2⟩ := queryRules_valid cfg st hp.header hp.pairs hp.rulesSize port cfg.retries q w
        (by simpa [sectionScript, List.append_assoc] using hl)
      exact ⟨w', by rw [maybeGather_try h1]; rfl, fun _ => h2⟩
    | silent =>
      rw [ho] at hl
      obtain ⟨w', h1, h2⟩ := queryRules_silent port cfg.retries q w (by simpa [sectionScript] using hl)
      exact ⟨w', by rw [maybeGather_try h1]; rfl, fun _ => h2⟩
    | malformed =>
      rw [ho] at hl
      obtain ⟨w', h1, h2⟩ := queryRules_malformed port cfg.retries q w (by simpa [sectionScript] using hl)
      exact ⟨w', by rw [maybeGather_try h1]; rfl, fun _ => h2⟩
  | enforce =>
    rw [ht] at hl
    cases ho : cfg.rulesOutcome with
    | valid =>
      rw [ho] at hl
      obtain ⟨w', h1, h2⟩ := queryRules_valid cfg st hp.header hp.pairs hp.rulesSize port cfg.retries q w
        (by simpa [sectionScript, List.append_assoc] using hl)
      exact ⟨w', by rw [maybeGather_enforce h1]; rfl, fun _ => h2⟩
    | silent =>
      rw [ho] at hl
      obtain ⟨w', h1, _⟩ := queryRules_silent port cfg.retries q w (by simpa [sectionScript] using hl)
      exact ⟨w', by rw [maybeGather_enforce h1]; rfl, fun h => by simp at h⟩
    | malformed =>
      rw [ho] at hl
      obtain ⟨w', h1, _⟩ := queryRules_malformed port cfg.retries q w (by simpa [sectionScript] using hl)
      exact ⟨w', by rw [maybeGather_enforce h1]; rfl, fun h => by simp at h⟩

theorem players_section (cfg : Config) (st : State) (hp : WfParts cfg st) (port : Nat) (w : Net)
    (hl : Live w (playersSection cfg st)) :
    ∃ w', maybeGather cfg.gather.players (queryPlayers (sock port) cfg.retries st.numPlayers) w
        = (sectionResult cfg.gather.players cfg.playersOutcome (expectedPlayers st), w') := by
  unfold playersSection at hl
  cases ht : cfg.gather.players with
  | skip => exact ⟨w, rfl⟩
  | try_ =>
    rw [ht] at hl
    cases ho : cfg.playersOutcome with
    | valid =>
      rw [ho] at hl
      obtain ⟨w', h1⟩ := queryPlayers_valid cfg st hp.header hp.players hp.playersSize hp.announced port cfg.retries w
        (by simpa [sectionScript] using hl)
      exact ⟨w', by rw [maybeGather_try h1]; rfl⟩
    | silent =>
      rw [ho] at hl
      obtain ⟨w', h1⟩ := queryPlayers_silent port cfg.retries st.numPlayers [] w (by simpa [sectionScript] using hl)
      exact ⟨w', by rw [maybeGather_try h1]; rfl⟩
    | malformed =>
      rw [ho] at hl
      obtain ⟨w', h1⟩ := queryPlayers_malformed port cfg.retries st.numPlayers [] w (by simpa [sectionScript] using hl)
      exact ⟨w', by rw [maybeGather_try h1]; rfl⟩
  | enforce =>
    rw [ht] at hl
    cases ho : cfg.playersOutcome with
    | valid =>
      rw [ho] at hl
      obtain ⟨w', h1⟩ := queryPlayers_valid cfg st hp.header hp.players hp.playersSize hp.announced port cfg.retries w
        (by simpa [sectionScript] using hl)
      exact ⟨w', by rw [maybeGather_enforce h1]; rfl⟩
    | silent =>
      rw [ho] at hl
      obtain ⟨w', h1⟩ := queryPlayers_silent port cfg.retries st.numPlayers [] w (by simpa [sectionScript] using hl)
      exact ⟨w', by rw [maybeGather_enforce h1]; rfl⟩
    | malformed =>
      rw [ho] at hl
      obtain ⟨w', h1⟩ := queryPlayers_malformed port cfg.retries st.numPlayers [] w (by simpa [sectionScript] using hl)
      exact ⟨w', by rw [maybeGather_enforce h1]; rfl⟩




theorem applyPassword_eq (info : ServerInfo) (mr : MutatorsAndRules) (h : info.password = false) :
    applyPassword info mr = { info with password := expectedPassword mr } := by
  unfold applyPassword expectedPassword
  show (match mr.rules.lookup (asciiBytes "GamePassword") with
    | some vs => { info with password := asciiLower vs.flatten == asciiBytes "true" }
    | none => info) = _
  cases mr.rules.lookup (asciiBytes "GamePassword") with
  | none => cases info; simp_all
  | some vs => rfl

theorem queryServerInfo_spec (cfg : Config) (st : State) (hp : WfParts cfg st) (port r : Nat) (q : List Delivery) (w : Net)
    (hl : Live w (.data (infoDatagram st) :: q)) :
    ∃ w', queryServerInfo (sock port) r w = (.ok (infoOf st), w') ∧ Live w' q := by
  obtain ⟨w1, h1, hl1⟩ := requestData_data hl port r .serverInfo hp.infoSize
  refine ⟨w1, ?_, hl1⟩
  have hend : DecodesEnd parseServerInfo (encInfo st) (infoOf st) := by
    intro b hr
    obtain ⟨b', h1, _, h3⟩ := hp.info b st.extra (by rw [hr, encInfo_eq])
    exact ⟨b', h1, h3⟩
  have hrun := headers_then st hp.header .serverInfo parseServerInfo _ _ hend
  unfold queryServerInfo
  refine (Q.bind_ok h1).trans ?_
  simp only [parse, Q.lift]
  have : infoDatagram st = reply st PacketKind.serverInfo.code (encInfo st) := rfl
  rw [this, hrun]

/-- The whole query on the SPEC's script, for every configuration of the format's domain: every
toggle pair, every section outcome, every number of datagrams per list. -/
theorem query_spec (cfg : Config) (st : State) (hwf : wf cfg st = true) (port : Nat) :
    (query port cfg.gather cfg.retries (Net.init [.opened (script cfg st)] [])).1 = expected cfg st := by
  have hp := wf_parts cfg st hwf
  -- the socket
  have hopen : openSock false port (Net.init [.opened (script cfg st)] [])
      = (.ok (sock port), ⟨[], [script cfg st], [], [.opened 0 false port false]⟩) := rfl
  have hq : query port cfg.gather cfg.retries = (openSock false port >>= fun s => queryBody s cfg.gather cfg.retries) := rfl
  rw [hq, Q.bind_ok hopen]
  unfold queryBody
  -- server info
  have hscript : script cfg st = .data (infoDatagram st) ::
      (rulesSection cfg st ++ (if rulesFatal cfg then [] else playersSection cfg st)) := by
    simp [script]
  have hl0 : Live ⟨[], [script cfg st], [], [.opened 0 false port false]⟩ (.data (infoDatagram st) ::
      (rulesSection cfg st ++ (if rulesFatal cfg then [] else playersSection cfg st))) :=
    ⟨by show [script cfg st] = _; rw [hscript], rfl⟩
  obtain ⟨w1, h1, hl1⟩ := queryServerInfo_spec cfg st hp port cfg.retries _ _ hl0
  rw [Q.bind_ok h1]
  -- mutators and rules
  obtain ⟨w2, h2, hl2⟩ := rules_section cfg st hp port _ w1 hl1
  unfold expected
  cases hres : sectionResult cfg.gather.mutatorsAndRules cfg.rulesOutcome (expectedMR st) with
  | crash =>
    rw [hres] at h2
    rw [Q.bind_apply, h2]
    rfl
  | err k =>
    rw [hres] at h2
    rw [Q.bind_apply, h2]
    rfl
  | ok mro =>
    rw [hres] at h2
    rw [Q.bind_ok h2]
    have hnf : rulesFatal cfg = false := by
      unfold rulesFatal
      unfold sectionResult at hres
      cases ht : cfg.gather.mutatorsAndRules <;> cases ho : cfg.rulesOutcome <;> simp_all
    have hl3 := hl2 hnf
    rw [hnf] at hl3
    simp only [Bool.false_eq_true, ↓reduceIte, List.append_nil] at hl3
    have hpw := applyPassword_eq (infoOf st) (mro.getD .empty) rfl
    have hnum : (applyPassword (infoOf st) (mro.getD .empty)).numPlayers = st.numPlayers := by rw [hpw]; rfl
    simp only [hnum]
    obtain ⟨w3, h3⟩ := players_section cfg st hp port w2 hl3
    cases hres2 : sectionResult cfg.gather.players cfg.playersOutcome (expectedPlayers st) with
    | crash =>
      rw [hres2] at h3
      rw [Q.bind_apply, h3]
      rfl
    | err k =>
      rw [hres2] at h3
      rw [Q.bind_apply, h3]
      rfl
    | ok plo =>
      rw [hres2] at h3
      rw [Q.bind_ok h3, hpw]
      rfl


end Gd.Unreal2
