import GdVerif.Lemmas.Gs1Response
import GdVerif.Lemmas.QSteps
import GdVerif.Spec.Gs1Faults
/-
  The whole GameSpy 1 query with faults injected (C10 end to end), in the logic `Steps` of `Lemmas/QSteps.lean`.
  The retried unit is `get_server_values_impl`: the request, then the receive loop over the parts.

  `runOn` is the receive loop as a function of the queue (outcome, what is left of the queue); `steps_recvLoop` says the
  model's loop IS that function, for every queue; the rest is pure reasoning about `runOn` with the part-by-part lemmas
  of `Lemmas/Gs1.lean` (`step_new`, `Inv.done_iff`).
-/
namespace Gd.Gs1
open Gd Gd.Gs Gd.Gs1.Spec Gd.Faults

/-! ### the receive loop in `Steps` -/

/-- the `while` loop on a queue: its outcome and what it leaves queued.  It stops at the first silence (or at the end of
the queue) with the receive error, at the first rejected datagram with that error, and — without looking at the queue —
as soon as all parts are there. -/
def runOn : LoopSt → List Delivery → Res (Map Bytes) × List Delivery
  | st, [] => (if st.done then .ok (canon st.vals) else .err .packetReceive, [])
  | st, .silence :: q => if st.done then (.ok (canon st.vals), .silence :: q) else (.err .packetReceive, q)
  | st, .data d :: q =>
    if st.done then (.ok (canon st.vals), .data d :: q)
    else match processPacket st (d.take PACKET_SIZE) with
      | .ok st' => runOn st' q
      | .err k => (.err k, q)
      | .crash => (.crash, q)

theorem runOn_done {st : LoopSt} (h : st.done = true) (q : List Delivery) : runOn st q = (.ok (canon st.vals), q) := by
  cases q with
  | nil => simp [runOn, h]
  | cons d q => cases d <;> simp [runOn, h]

/-- the model's loop is `runOn`, for every queue, whatever the flags and whatever was sent -/
theorem steps_recvLoop (s : Sock) (hudp : s.tcp = false) (fs : List Bool) (sn : List (Bytes × Bool)) :
    ∀ (q : List Delivery) (fuel : Nat) (st : LoopSt), q.length < fuel →
      Steps s (recvLoop s fuel st) (runOn st q).1 ⟨q, fs, sn⟩ ⟨(runOn st q).2, fs, sn⟩ := by
  intro q
  induction q with
  | nil =>
    intro fuel st hf
    cases fuel with
    | zero => omega
    | succ f =>
      unfold recvLoop
      cases hd : st.done with
      | true => simpa [runOn, hd] using Steps.pure s (canon st.vals) ⟨[], fs, sn⟩
      | false =>
        simp only [Bool.false_eq_true, ↓reduceIte, runOn, hd]
        exact Steps.bind_err (steps_recv_empty s hudp _ fs sn)
  | cons d q ih =>
    intro fuel st hf
    cases fuel with
    | zero => omega
    | succ f =>
      unfold recvLoop
      cases hd : st.done with
      | true =>
        rw [runOn_done hd]
        simpa using Steps.pure s (canon st.vals) ⟨d :: q, fs, sn⟩
      | false =>
        cases d with
        | silence =>
          simp only [Bool.false_eq_true, ↓reduceIte, runOn, hd]
          exact Steps.bind_err (steps_recv_silence s _ q fs sn)
        | data d =>
          simp only [Bool.false_eq_true, ↓reduceIte, runOn, hd]
          refine Steps.bind (steps_recv_take s hudp PACKET_SIZE d q fs sn) ?_
          cases hp : processPacket st (d.take PACKET_SIZE) with
          | ok st' =>
            exact Steps.bind (Steps.lift s _ _) (ih f st' (by simpa using hf))
          | err k => exact Steps.bind_err (Steps.lift s _ _)
          | crash => exact Steps.bind_crash (Steps.lift s _ _)

/-- one attempt: the request goes out, then the loop on what is queued -/
theorem steps_attempt (s : Sock) (hudp : s.tcp = false) (q : List Delivery) (fs : List Bool)
    (sn : List (Bytes × Bool)) :
    Steps s (getServerValuesImpl s) (runOn LoopSt.init q).1 ⟨q, false :: fs, sn⟩
      ⟨(runOn LoopSt.init q).2, fs, sn ++ [(statusRequest, false)]⟩ := by
  refine Steps.congr (f := send s statusRequest >>= fun _ => fun w => recvLoop s (queued s w + 1) LoopSt.init w) ?_ rfl
  refine Steps.bind (steps_send_ok s _ q fs sn) ?_
  exact Steps.fuelled (g := fun n => recvLoop s n LoopSt.init)
    (fun n hn => steps_recvLoop s hudp fs _ q n LoopSt.init hn)

theorem steps_attempt_fault (s : Sock) (q : List Delivery) (fs : List Bool) (sn : List (Bytes × Bool)) :
    Steps s (getServerValuesImpl s) (.err .packetSend) ⟨q, true :: fs, sn⟩ ⟨q, fs, sn ++ [(statusRequest, true)]⟩ := by
  refine Steps.congr (f := send s statusRequest >>= fun _ => fun w => recvLoop s (queued s w + 1) LoopSt.init w) ?_ rfl
  exact Steps.bind_err (steps_send_fault s _ q fs sn)

/-! ### `runOn` over parts of the reply -/

def dataN (y : Style) (total : Nat) (a : NPart) : Delivery := .data (encN y total a)

/-- parts that have not been seen yet, arriving while the reply is incomplete, are merged one after the other -/
theorem runOn_parts {y : Style} {P : List NPart} (hP : PartsOk y P) (hne : P ≠ [])
    (hsz : ∀ a ∈ P, (encN y P.length a).length ≤ 2048) (tail : List Delivery) :
    ∀ (rest seen : List NPart) (st : LoopSt) (more : List NPart), Inv y P seen st → (seen ++ rest ++ more).Perm P →
      ∃ st', Inv y P (seen ++ rest) st' ∧ runOn st (rest.map (dataN y P.length) ++ tail) = runOn st' tail := by
  intro rest
  induction rest with
  | nil =>
    intro seen st more hinv _
    exact ⟨st, by simpa using hinv, rfl⟩
  | cons a r ih =>
    intro seen st more hinv hp
    have haP : a ∈ P := hp.mem_iff.mp (by simp)
    have hnd : ((seen ++ a :: r ++ more).map (·.1)).Nodup := by
      have : (P.map (·.1)).Nodup := by rw [hP.nums]; exact List.nodup_range'
      exact (hp.map _).nodup_iff.mpr this
    have hnew : a.1 ∉ seen.map (·.1) := by
      rw [List.append_assoc, List.map_append, List.nodup_append] at hnd
      intro hx
      exact hnd.2.2 _ hx _ (by simp) rfl
    have hnotdone : st.done = false := by
      cases hdn : st.done with
      | false => rfl
      | true =>
        have := ((hinv.done_iff hP hne).mp hdn).length_eq
        have h2 := hp.length_eq
        simp only [List.length_append, List.length_cons] at h2
        omega
    obtain ⟨st', hst, hinv'⟩ := step_new hP hinv haP hnew
    have htake : (encN y P.length a).take PACKET_SIZE = encN y P.length a :=
      List.take_of_length_le (hsz a haP)
    obtain ⟨st'', hinv'', hrun⟩ := ih (seen ++ [a]) st' more hinv' (by simpa using hp)
    refine ⟨st'', by simpa using hinv'', ?_⟩
    simp only [List.map_cons, List.cons_append, dataN, runOn, hnotdone, Bool.false_eq_true, ↓reduceIte, htake, hst]
    exact hrun

/-- all the parts, in any order: all the variables, nothing else consumed -/
theorem runOn_complete {y : Style} {P : List NPart} (hP : PartsOk y P) (hne : P ≠ [])
    (hsz : ∀ a ∈ P, (encN y P.length a).length ≤ 2048) (arr : List NPart) (hp : arr.Perm P) (q : List Delivery) :
    runOn LoopSt.init (arr.map (dataN y P.length) ++ q) = (.ok (canon (allOf P)), q) := by
  obtain ⟨st', hinv, hrun⟩ := runOn_parts hP hne hsz q arr [] LoopSt.init [] (Inv.init y P) (by simpa using hp)
  rw [hrun]
  simp only [List.nil_append] at hinv
  have hd := (hinv.done_iff hP hne).mpr hp
  rw [runOn_done hd, hinv.vals]
  exact congrArg (fun m => (Res.ok m, q)) (canon_perm hP.distinct_all (hp.flatMap_right _))

/-- some of the parts, then … : the loop is still waiting -/
theorem runOn_incomplete {y : Style} {P : List NPart} (hP : PartsOk y P) (hne : P ≠ [])
    (hsz : ∀ a ∈ P, (encN y P.length a).length ≤ 2048) (got more : List NPart) (hp : (got ++ more).Perm P)
    (hmore : more ≠ []) (tail : List Delivery) :
    ∃ st', st'.done = false ∧ runOn LoopSt.init (got.map (dataN y P.length) ++ tail) = runOn st' tail := by
  obtain ⟨st', hinv, hrun⟩ := runOn_parts hP hne hsz tail got [] LoopSt.init more (Inv.init y P) (by simpa using hp)
  refine ⟨st', ?_, hrun⟩
  simp only [List.nil_append] at hinv
  cases hdn : st'.done with
  | false => rfl
  | true =>
    have := ((hinv.done_iff hP hne).mp hdn).length_eq
    have h2 := hp.length_eq
    have : 0 < more.length := List.length_pos_iff.mpr hmore
    simp only [List.length_append] at h2
    omega

/-! ### malformed datagrams -/

theorem take_findByte (m : Bytes) : m.take (findByte 0 m) = textOf m := by
  unfold textOf
  induction m with
  | nil => rfl
  | cons b r ih =>
    by_cases hb : b = 0
    · subst hb; simp [findByte]
    · have : (b == 0) = false := by simpa using hb
      simp [findByte, this, ih, hb]

theorem processPacket_malformed (st : LoopSt) (m : Bytes) (h : malformed m = true) :
    processPacket st m = .err .packetBad := by
  unfold processPacket Par.run readCStr readStringWith utf8Dec
  simp only [Buf.new, take_findByte]
  unfold malformed at h
  cases hv : validUtf8 (textOf m) with
  | false => simp
  | true =>
    have he : (textOf m).isEmpty = true := by simpa [hv] using h
    simp [he]

/-! ### from the SPEC's selection of datagrams to numbered parts -/

/-- an incomplete selection of the reply's datagrams is the image of a prefix of an arrangement of the parts -/
theorem selects_parts {y : Style} {st : State} (got : List Bytes) (h : selects got (script y st) = true) :
    ∃ gotP moreP : List NPart, moreP ≠ [] ∧ (gotP ++ moreP).Perm (partsOf y st)
      ∧ got.map Delivery.data = gotP.map (dataN y (partsOf y st).length) := by
  obtain ⟨more, hne, hp⟩ := selects_perm got _ h
  rw [script_eq] at hp
  obtain ⟨P', hperm, e⟩ := perm_map_inv _ hp
  refine ⟨P'.take got.length, P'.drop got.length, ?_, by rw [List.take_append_drop]; exact hperm, ?_⟩
  · intro hd
    have hl := congrArg List.length e
    have : P'.length ≤ got.length := by simpa using List.drop_eq_nil_iff.mp hd
    have : 0 < more.length := List.length_pos_iff.mpr hne
    simp only [List.length_append, List.length_map] at hl
    omega
  · have := congrArg (List.take got.length) e
    rw [List.take_left' rfl, ← List.map_take] at this
    calc got.map Delivery.data
        = ((P'.take got.length).map (encN y (partsOf y st).length)).map Delivery.data := by rw [← this]
      _ = (P'.take got.length).map (dataN y (partsOf y st).length) := by rw [List.map_map]; rfl

/-! ### the unit -/

theorem Attempt.error_timeout (a : Attempt) : a.error.isTimeout = true := attemptError_timeout _

theorem request_eq : statusRequest = request := by decide

/-- one failed attempt -/
theorem steps_attempt_fail (s : Sock) (hudp : s.tcp = false) {y : Style} {st : State} (hW : Wf y st) (a : Attempt)
    (ha : a.wf (script y st) = true) (q : List Delivery) (fs : List Bool) (sn : List (Bytes × Bool)) :
    Steps s (getServerValuesImpl s) (.err a.error) ⟨a.deliveries ++ q, a.faults ++ fs, sn⟩ ⟨q, fs, sn ++ a.sends⟩ := by
  cases a with
  | noSend =>
    simpa [Attempt.deliveries, Attempt.faults, Attempt.sends, Attempt.sendFault, Attempt.error, attemptError,
      request_eq] using steps_attempt_fault s q fs sn
  | lost got =>
    have hP := partsOk_partsOf hW
    have hsz : ∀ a ∈ partsOf y st, (encN y (partsOf y st).length a).length ≤ 2048 := by
      intro a ha
      apply hW.sizes
      rw [script_eq]
      exact List.mem_map.mpr ⟨a, ha, rfl⟩
    obtain ⟨gotP, moreP, hne, hp, e⟩ := selects_parts got ha
    obtain ⟨st', hnd, hrun⟩ := runOn_incomplete hP (partsOf_ne_nil y st) hsz gotP moreP hp hne (.silence :: q)
    have h := steps_attempt s hudp ((Attempt.lost got).deliveries ++ q) fs sn
    have hq : (Attempt.lost got).deliveries ++ q = gotP.map (dataN y (partsOf y st).length) ++ .silence :: q := by
      simp [Attempt.deliveries, e]
    rw [hq, hrun] at h
    simp only [runOn, hnd, Bool.false_eq_true, ↓reduceIte] at h
    rw [← hq] at h
    simpa [Attempt.faults, Attempt.sends, Attempt.sendFault, Attempt.error, attemptError, request_eq] using h

/-- the attempt that gets the whole reply -/
theorem steps_attempt_valid (s : Sock) (hudp : s.tcp = false) {y : Style} {st : State} (hW : Wf y st)
    (arrival : List Bytes) (harr : arrival.Perm (script y st)) (q : List Delivery) (fs : List Bool)
    (sn : List (Bytes × Bool)) :
    Steps s (getServerValuesImpl s) (.ok (expectedVars y st)) ⟨arrival.map .data ++ q, false :: fs, sn⟩
      ⟨q, fs, sn ++ [(request, false)]⟩ := by
  have hP := partsOk_partsOf hW
  have hsz : ∀ a ∈ partsOf y st, (encN y (partsOf y st).length a).length ≤ 2048 := by
    intro a ha
    apply hW.sizes
    rw [script_eq]
    exact List.mem_map.mpr ⟨a, ha, rfl⟩
  rw [script_eq] at harr
  obtain ⟨arrP, hperm, rfl⟩ := perm_map_inv _ harr
  have h := steps_attempt s hudp ((arrP.map (encN y (partsOf y st).length)).map .data ++ q) fs sn
  have hq : (arrP.map (encN y (partsOf y st).length)).map Delivery.data = arrP.map (dataN y (partsOf y st).length) := by
    rw [List.map_map]; rfl
  rw [hq, runOn_complete hP (partsOf_ne_nil y st) hsz arrP hperm q, allOf_partsOf] at h
  rw [hq]
  simpa [request_eq, expectedVars] using h

/-- the attempt that meets a malformed datagram before the reply is complete -/
theorem steps_attempt_malformed (s : Sock) (hudp : s.tcp = false) {y : Style} {st : State} (hW : Wf y st)
    (got : List Bytes) (m : Bytes) (hgot : selects got (script y st) = true) (hm : malformed m = true)
    (hl : m.length ≤ 2048) (q : List Delivery) (fs : List Bool) (sn : List (Bytes × Bool)) :
    Steps s (getServerValuesImpl s) (.err .packetBad) ⟨(got.map .data ++ [.data m]) ++ q, false :: fs, sn⟩
      ⟨q, fs, sn ++ [(request, false)]⟩ := by
  have hP := partsOk_partsOf hW
  have hsz : ∀ a ∈ partsOf y st, (encN y (partsOf y st).length a).length ≤ 2048 := by
    intro a ha
    apply hW.sizes
    rw [script_eq]
    exact List.mem_map.mpr ⟨a, ha, rfl⟩
  obtain ⟨gotP, moreP, hne, hp, e⟩ := selects_parts got hgot
  obtain ⟨st', hnd, hrun⟩ := runOn_incomplete hP (partsOf_ne_nil y st) hsz gotP moreP hp hne (.data m :: q)
  have h := steps_attempt s hudp ((got.map .data ++ [.data m]) ++ q) fs sn
  have hq : (got.map Delivery.data ++ [.data m]) ++ q = gotP.map (dataN y (partsOf y st).length) ++ .data m :: q := by
    simp [e]
  rw [hq, hrun] at h
  have htake : m.take PACKET_SIZE = m := List.take_of_length_le hl
  simp only [runOn, hnd, Bool.false_eq_true, ↓reduceIte, htake, processPacket_malformed st' m hm] at h
  rw [← hq] at h
  simpa [request_eq] using h

/-- the retried unit on the script of a plan: the outcome C10 prescribes, exactly the plan's deliveries and flags
consumed, exactly its requests sent -/
theorem steps_unit (s : Sock) (hudp : s.tcp = false) {y : Style} {st : State} (hW : Wf y st) (retries : Nat)
    (arrival : List Bytes) (harr : arrival.Perm (script y st)) (plan : Plan)
    (hplan : wfPlan retries (script y st) plan = true) (q : List Delivery) (fs : List Bool) (sn : List (Bytes × Bool)) :
    Steps s (retryOnTimeout retries (getServerValuesImpl s)) (outcome (expectedVars y st) plan)
      ⟨faultyScript plan arrival ++ q, faultyFaults plan ++ fs, sn⟩ ⟨q, fs, sn ++ faultySends plan⟩ := by
  obtain ⟨fails, ending⟩ := plan
  simp only [wfPlan, Bool.and_eq_true, List.all_eq_true] at hplan
  obtain ⟨hfails, hend⟩ := hplan
  have hstep : ∀ a : Attempt, a.wf (script y st) = true → ∀ q fs sn,
      Steps s (getServerValuesImpl s) (.err a.error) ⟨a.deliveries ++ q, a.faults ++ fs, sn⟩ ⟨q, fs, sn ++ a.sends⟩ :=
    fun a ha q fs sn => steps_attempt_fail s hudp hW a ha q fs sn
  cases ending with
  | valid =>
    simp only [decide_eq_true_eq] at hend
    have h := Steps.retry_recovers_of (f := getServerValuesImpl s) (fun a => a.wf (script y st) = true)
      Attempt.deliveries Attempt.faults Attempt.sends Attempt.error Attempt.error_timeout hstep
      (R := .ok (expectedVars y st)) (fun k hk => by cases hk) (arrival.map .data ++ q) q ([false] ++ fs) fs
      [(request, false)] (fun sn => steps_attempt_valid s hudp hW arrival harr q fs sn) fails retries sn hfails hend
    simpa [faultyScript, faultyFaults, faultySends, Ending.deliveries, Ending.faults, Ending.sends, outcome,
      List.append_assoc] using h
  | gaveUp =>
    simp only [beq_iff_eq] at hend
    have h := Steps.retry_exhausted_of (f := getServerValuesImpl s) (fun a => a.wf (script y st) = true)
      Attempt.deliveries Attempt.faults Attempt.sends Attempt.error Attempt.error_timeout hstep q fs retries fails sn
      hfails hend
    simpa [faultyScript, faultyFaults, faultySends, Ending.deliveries, Ending.faults, Ending.sends, outcome] using h
  | malformed got m =>
    simp only [Bool.and_eq_true, decide_eq_true_eq] at hend
    obtain ⟨⟨⟨hk, hgot⟩, hm⟩, hl⟩ := hend
    have h := Steps.retry_recovers_of (f := getServerValuesImpl s) (fun a => a.wf (script y st) = true)
      Attempt.deliveries Attempt.faults Attempt.sends Attempt.error Attempt.error_timeout hstep
      (R := .err .packetBad) (fun k hk => by cases hk; rfl) ((got.map .data ++ [.data m]) ++ q) q ([false] ++ fs) fs
      [(request, false)] (fun sn => steps_attempt_malformed s hudp hW got m hgot hm hl q fs sn) fails retries sn
      hfails hk
    simpa [faultyScript, faultyFaults, faultySends, Ending.deliveries, Ending.faults, Ending.sends, outcome,
      List.append_assoc] using h

/-! ### the whole query -/

theorem queryVars_faulty {y : Style} {st : State} (hW : Wf y st) (port retries : Nat) (arrival : List Bytes)
    (harr : arrival.Perm (script y st)) (plan : Plan) (hplan : wfPlan retries (script y st) plan = true)
    (restQ : List Delivery) (restF : List Bool) :
    (queryVars port retries (Net.init [.opened (faultyScript plan arrival ++ restQ)] (faultyFaults plan ++ restF))).1
      = faultyVars y st plan
    ∧ sentOf (queryVars port retries
        (Net.init [.opened (faultyScript plan arrival ++ restQ)] (faultyFaults plan ++ restF))).2.log
      = faultySends plan := by
  have h := openUdp_outcome port (fun s => retryOnTimeout retries (getServerValuesImpl s)) _ _ _ _
    (steps_unit ⟨0, port, false⟩ rfl hW retries arrival harr plan hplan restQ restF [])
  exact h

/-- `query` does no I/O after `query_vars` -/
theorem query_snd (port retries : Nat) (w : Net) : (query port retries w).2 = (queryVars port retries w).2 := by
  unfold query
  rw [Q.bind_apply]
  cases hq : queryVars port retries w with
  | mk res w' => cases res <;> rfl

theorem query_faulty {y : Style} {st : State} (hW : Wf y st) (port retries : Nat) (arrival : List Bytes)
    (harr : arrival.Perm (script y st)) (plan : Plan) (hplan : wfPlan retries (script y st) plan = true)
    (restQ : List Delivery) (restF : List Bool) :
    (query port retries (Net.init [.opened (faultyScript plan arrival ++ restQ)] (faultyFaults plan ++ restF))).1
      = faultyExpected st plan
    ∧ sentOf (query port retries
        (Net.init [.opened (faultyScript plan arrival ++ restQ)] (faultyFaults plan ++ restF))).2.log
      = faultySends plan := by
  obtain ⟨h1, h2⟩ := queryVars_faulty hW port retries arrival harr plan hplan restQ restF
  rw [query_snd, query_fst, h1]
  refine ⟨?_, h2⟩
  unfold faultyVars faultyExpected outcome
  cases plan.ending with
  | valid => simpa [expectedVars] using buildResponse_canon hW
  | gaveUp => rfl
  | malformed got m => rfl

/-! ### counting attempts on the wire -/

theorem faultySends_eq (plan : Plan) :
    faultySends plan = plan.fails.map (fun a => (request, a.sendFault)) ++ plan.ending.sends := by
  unfold faultySends
  rw [show plan.fails.flatMap Attempt.sends = plan.fails.map (fun a => (request, a.sendFault)) from
    flatMap_singleton _ _]

theorem faultySends_length (plan : Plan) : (faultySends plan).length = plan.attempts := by
  rw [faultySends_eq]
  cases h : plan.ending <;> simp [Plan.attempts, Ending.sends, h]

theorem lastError_append (fails : List Attempt) (a : Attempt) :
    lastError Attempt.error (fails ++ [a]) = a.error := by
  induction fails with
  | nil => rfl
  | cons b r ih =>
    cases r with
    | nil => rfl
    | cons c r' => simpa [lastError] using ih

theorem lastError_class (fails : List Attempt) (h : fails ≠ []) :
    lastError Attempt.error fails = .packetReceive ∨ lastError Attempt.error fails = .packetSend := by
  obtain ⟨init, a, rfl⟩ : ∃ init a, fails = init ++ [a] := by
    cases hne : fails.reverse with
    | nil => simp at hne; exact absurd hne h
    | cons a r => exact ⟨r.reverse, a, by rw [← List.reverse_reverse fails, hne]; simp⟩
  rw [lastError_append]
  cases a <;> simp [Attempt.error, Attempt.sendFault, attemptError]

end Gd.Gs1
