import GdVerif.Proto.ArmsSem
import GdVerif.Lemmas.Dispatch
/-
  Lemmas about the translated glue (`Gen/Arms.lean` evaluated by `Proto/ArmsSem.lean`): per arm, for EVERY argument
  value, the evaluated translation is the call the hand-written `Dispatch.generic` makes.  Every proof is a case split
  over the finitely many shapes of the arguments followed by evaluation (`rfl`): the generated table is a closed term, so
  evaluation goes through whatever the translator emitted on this run — when the source's arm changes, the generated term
  changes and the `rfl` of that arm stops checking.
-/
namespace Gd.Arms
open Gd Gd.Dispatch

/-! ### the conversions as translated = the model's -/

theorem convOf_valve (e : Extra) : convOf .valveGather (encExtra e) = some (encValveGather e.toValve) := by
  obtain ⟨h, pv, gp, gr, ca⟩ := e
  cases gp <;> cases gr <;> cases ca <;> rfl

theorem convOf_unreal2 (e : Extra) : convOf .unreal2Gather (encExtra e) = some (encUnreal2Gather e.toUnreal2) := by
  obtain ⟨h, pv, gp, gr, ca⟩ := e
  cases gp <;> cases gr <;> rfl

theorem convOf_minecraft (e : Extra) : convOf .mcRequestSettings (encExtra e) = some (encMcSettings e.toMinecraft) := by
  obtain ⟨h, pv, gp, gr, ca⟩ := e
  cases h <;> cases pv <;> rfl

theorem convOf_eco (e : Extra) : convOf .ecoRequestSettings (encExtra e) = some (encEcoSettings e.toEco) := by
  obtain ⟨h, pv, gp, gr, ca⟩ := e
  cases h <;> rfl

theorem dfltOf_all :
    dfltOf .extra = some (encExtra ⟨none, none, none, none, none⟩)
    ∧ dfltOf .valveGather = some (encValveGather Valve.Gather.default)
    ∧ dfltOf .unreal2Gather = some (encUnreal2Gather Unreal2.Gather.default)
    ∧ dfltOf .mcRequestSettings = some (encMcSettings Mc.RequestSettings.default)
    ∧ dfltOf .ecoRequestSettings = some (encEcoSettings EcoSettings.default) :=
  ⟨rfl, rfl, rfl, rfl, rfl⟩

theorem intoExtraOf_valve (g : Valve.Gather) : intoExtraOf .valveGather (encValveGather g) = some (encExtra (valveIntoExtra g)) := rfl

theorem intoExtraOf_unreal2 (g : Unreal2.Gather) :
    intoExtraOf .unreal2Gather (encUnreal2Gather g) = some (encExtra (unreal2IntoExtra g)) := rfl

/-- encodings lose nothing -/
theorem decExtra_enc (e : Extra) : decExtra (encExtra e) = some e := by
  obtain ⟨h, pv, gp, gr, ca⟩ := e
  cases h <;> cases pv <;> cases gp <;> cases gr <;> cases ca <;> rfl

theorem decValveGather_enc (g : Valve.Gather) : decValveGather (encValveGather g) = some g := rfl
theorem decUnreal2Gather_enc (g : Unreal2.Gather) : decUnreal2Gather (encUnreal2Gather g) = some g := rfl
theorem decMcSettings_enc (s : Mc.RequestSettings) : decMcSettings (encMcSettings s) = some s := rfl
theorem decEcoSettings_enc (s : EcoSettings) : decEcoSettings (encEcoSettings s) = some s := by
  obtain ⟨h⟩ := s
  cases h <;> rfl

/-! ### per arm: translation evaluated = the model's call -/

section arms
variable (dp : Nat) (rs : Extra) (port : Option Nat) (timeout : Option Settings.Timeout) (extra : Option Extra)

theorem arm_valve (e : Valve.Engine) :
    translatedCall ⟨dp, .valve e, rs⟩ port timeout extra = some (genericCall ⟨dp, .valve e, rs⟩ port timeout extra) := by
  obtain ⟨h, pv, gp, gr, ca⟩ := rs
  cases port <;> cases timeout <;> cases extra with
  | none => cases gp <;> cases gr <;> cases ca <;> rfl
  | some x =>
    obtain ⟨h', pv', gp', gr', ca'⟩ := x
    cases gp' <;> cases gr' <;> cases ca' <;> rfl

theorem arm_gamespy (v : GameSpyVersion) :
    translatedCall ⟨dp, .gamespy v, rs⟩ port timeout extra = some (genericCall ⟨dp, .gamespy v, rs⟩ port timeout extra) := by
  cases v <;> cases port <;> cases timeout <;> rfl

theorem arm_quake (v : Quake.Version) :
    translatedCall ⟨dp, .quake v, rs⟩ port timeout extra = some (genericCall ⟨dp, .quake v, rs⟩ port timeout extra) := by
  cases v <;> cases port <;> cases timeout <;> rfl

theorem arm_unreal2 :
    translatedCall ⟨dp, .unreal2, rs⟩ port timeout extra = some (genericCall ⟨dp, .unreal2, rs⟩ port timeout extra) := by
  cases port <;> cases timeout <;> cases extra with
  | none => rfl
  | some x =>
    obtain ⟨h', pv', gp', gr', ca'⟩ := x
    cases gp' <;> cases gr' <;> rfl

theorem arm_savage2 :
    translatedCall ⟨dp, .proprietary .savage2, rs⟩ port timeout extra
      = some (genericCall ⟨dp, .proprietary .savage2, rs⟩ port timeout extra) := by
  cases port <;> cases timeout <;> rfl

theorem arm_theShip :
    translatedCall ⟨dp, .proprietary .theShip, rs⟩ port timeout extra
      = some (genericCall ⟨dp, .proprietary .theShip, rs⟩ port timeout extra) := by
  cases port <;> cases timeout <;> rfl

theorem arm_ffow :
    translatedCall ⟨dp, .proprietary .ffow, rs⟩ port timeout extra
      = some (genericCall ⟨dp, .proprietary .ffow, rs⟩ port timeout extra) := by
  cases port <;> cases timeout <;> rfl

theorem arm_jc2m :
    translatedCall ⟨dp, .proprietary .jc2m, rs⟩ port timeout extra
      = some (genericCall ⟨dp, .proprietary .jc2m, rs⟩ port timeout extra) := by
  cases port <;> cases timeout <;> rfl

theorem arm_mindustry :
    translatedCall ⟨dp, .proprietary .mindustry, rs⟩ port timeout extra
      = some (genericCall ⟨dp, .proprietary .mindustry, rs⟩ port timeout extra) := by
  cases port <;> cases timeout <;> rfl

theorem arm_mcJava :
    translatedCall ⟨dp, .proprietary (.minecraft (some .java)), rs⟩ port timeout extra
      = some (genericCall ⟨dp, .proprietary (.minecraft (some .java)), rs⟩ port timeout extra) := by
  cases port <;> cases timeout <;> cases extra with
  | none => rfl
  | some x =>
    obtain ⟨h', pv', gp', gr', ca'⟩ := x
    cases h' <;> cases pv' <;> rfl

theorem arm_mcBedrock :
    translatedCall ⟨dp, .proprietary (.minecraft (some .bedrock)), rs⟩ port timeout extra
      = some (genericCall ⟨dp, .proprietary (.minecraft (some .bedrock)), rs⟩ port timeout extra) := by
  cases port <;> cases timeout <;> rfl

theorem arm_mcLegacy (g : Mc.LegacyGroup) :
    translatedCall ⟨dp, .proprietary (.minecraft (some (.legacy g))), rs⟩ port timeout extra
      = some (genericCall ⟨dp, .proprietary (.minecraft (some (.legacy g))), rs⟩ port timeout extra) := by
  cases port <;> cases timeout <;> rfl

theorem arm_mcAuto :
    translatedCall ⟨dp, .proprietary (.minecraft none), rs⟩ port timeout extra
      = some (genericCall ⟨dp, .proprietary (.minecraft none), rs⟩ port timeout extra) := by
  cases port <;> cases timeout <;> cases extra with
  | none => rfl
  | some x =>
    obtain ⟨h', pv', gp', gr', ca'⟩ := x
    cases h' <;> cases pv' <;> rfl

theorem arm_eco :
    translatedCall ⟨dp, .proprietary .eco, rs⟩ port timeout extra
      = some (genericCall ⟨dp, .proprietary .eco, rs⟩ port timeout extra) := by
  cases port <;> cases timeout <;> cases extra with
  | none => rfl
  | some x =>
    obtain ⟨h', pv', gp', gr', ca'⟩ := x
    cases h' <;> rfl

end arms

/-- every arm, every argument value -/
theorem translatedCall_eq (game : Game) (port : Option Nat) (timeout : Option Settings.Timeout) (extra : Option Extra) :
    translatedCall game port timeout extra = some (genericCall game port timeout extra) := by
  obtain ⟨dp, proto, rs⟩ := game
  cases proto with
  | valve e => exact arm_valve dp rs port timeout extra e
  | gamespy v => exact arm_gamespy dp rs port timeout extra v
  | quake v => exact arm_quake dp rs port timeout extra v
  | unreal2 => exact arm_unreal2 dp rs port timeout extra
  | proprietary p =>
    cases p with
    | savage2 => exact arm_savage2 dp rs port timeout extra
    | theShip => exact arm_theShip dp rs port timeout extra
    | ffow => exact arm_ffow dp rs port timeout extra
    | jc2m => exact arm_jc2m dp rs port timeout extra
    | mindustry => exact arm_mindustry dp rs port timeout extra
    | eco => exact arm_eco dp rs port timeout extra
    | minecraft v =>
      cases v with
      | none => exact arm_mcAuto dp rs port timeout extra
      | some s =>
        cases s with
        | java => exact arm_mcJava dp rs port timeout extra
        | bedrock => exact arm_mcBedrock dp rs port timeout extra
        | legacy g => exact arm_mcLegacy dp rs port timeout extra g

/-- the hand-written model makes exactly the call `genericCall` describes -/
theorem generic_eq_run (ext : Ext) (game : Game) (port : Option Nat) (timeout : Option Settings.Timeout)
    (extra : Option Extra) : generic ext game port timeout extra = (genericCall game port timeout extra).run ext := by
  obtain ⟨dp, proto, rs⟩ := game
  cases proto with
  | valve e => rfl
  | gamespy v => cases v <;> rfl
  | quake v => rfl
  | unreal2 => rfl
  | proprietary p =>
    cases p with
    | minecraft v =>
      cases v with
      | none => rfl
      | some s => cases s <;> rfl
    | _ => rfl

/-- every protocol value is matched by exactly one arm of the generated table -/
theorem countArms_eq_one (p : Protocol) : countArms Gen.Arms.arms (encProtocol p) = 1 := by
  cases p with
  | valve e => rfl
  | gamespy v => cases v <;> rfl
  | quake v => cases v <;> rfl
  | unreal2 => rfl
  | proprietary p =>
    cases p with
    | minecraft v =>
      cases v with
      | none => rfl
      | some s => cases s <;> rfl
    | _ => rfl

/-! ### the wrappers -/

theorem wrappers_eval (game : Game) (port : Option Nat) (timeout : Option Settings.Timeout) :
    (Gen.Arms.wrappers.map fun w => (w.name, w.callee, evalWrapper w game port timeout))
      = [("query", .generic, some [encGame game, .addr, encOpt .num port, .none_, .none_]),
         ("query_with_timeout", .generic, some [encGame game, .addr, encOpt .num port, encOpt .timeout timeout, .none_])] := by
  cases port <;> cases timeout <;> rfl

/-! ### the `game_query_fn!` bodies -/

/-- the call a macro-generated module makes (read off `Dispatch.moduleQuery`) -/
def moduleCall : Module → Option Nat → Option Call
  | .valve defaultPort engine gather, port => some (.valveQuery (port.getD defaultPort) engine (some gather) none)
  | .gamespy .one defaultPort, port => some (.gs1Query (port.getD defaultPort) none)
  | .gamespy .two defaultPort, port => some (.gs2Query (port.getD defaultPort) none)
  | .gamespy .three defaultPort, port => some (.gs3Query (port.getD defaultPort) none)
  | .quake v defaultPort, port => some (.quakeQuery v (port.getD defaultPort) none)
  | .unreal2 defaultPort, port => some (.unreal2Query (port.getD defaultPort) Unreal2.Gather.default none)
  | _, _ => none

/-- which macro rule a module kind is an instance of: (family, version) -/
def moduleRule : Module → Option (String × Option String)
  | .valve _ _ _ => some ("valve", none)
  | .gamespy .one _ => some ("gamespy", some "one")
  | .gamespy .two _ => some ("gamespy", some "two")
  | .gamespy .three _ => some ("gamespy", some "three")
  | .quake .one _ => some ("quake", some "one")
  | .quake .two _ => some ("quake", some "two")
  | .quake .three _ => some ("quake", some "three")
  | .unreal2 _ => some ("unreal2", none)
  | _ => none

def findModArm (fam : String) (ver : Option String) :
    Option (String × Option String × Callee × List Tm × Option String) :=
  Gen.Arms.modArms.find? fun m => m.1 == fam && m.2.1 == ver

/-- the macro parameters of a module kind: default port, engine, gathering settings (the last two only read by the
Valve rule) -/
def moduleParams : Module → Nat × Valve.Engine × Valve.Gather
  | .valve p e g => (p, e, g)
  | .gamespy _ p | .quake _ p | .unreal2 p => (p, .goldSrc false, Valve.Gather.default)
  | _ => (0, .goldSrc false, Valve.Gather.default)

/-- the translated macro body of a module's rule, evaluated on the module's parameters, and whether the rule converts
the result with `new_from_valve_response` -/
def translatedModuleCall (m : Module) (port : Option Nat) : Option (Call × Bool) :=
  match moduleRule m with
  | some (fam, ver) =>
    match findModArm fam ver with
    | some arm =>
      match evalModArm arm port (moduleParams m).1 (moduleParams m).2.1 (moduleParams m).2.2 with
      | some c => some (c, arm.2.2.2.2 == some "new_from_valve_response")
      | none => none
    | none => none
  | none => none

theorem translatedModuleCall_eq (m : Module) (port : Option Nat) (c : Call) (hc : moduleCall m port = some c) :
    translatedModuleCall m port = some (c, match m with | .valve _ _ _ => true | _ => false) := by
  cases m with
  | valve p e g =>
    obtain ⟨gp, gr, ca⟩ := g
    cases hc
    cases port <;> cases gp <;> cases gr <;> cases ca <;> rfl
  | gamespy v p => cases v <;> cases hc <;> cases port <;> rfl
  | quake v p => cases v <;> cases hc <;> cases port <;> rfl
  | unreal2 p => cases hc; cases port <;> rfl
  | _ => cases hc

/-- the hand-written module model makes exactly the call `moduleCall` describes (through the documented conversion for
the Valve rule) -/
theorem moduleQuery_eq_run (ext : Ext) (m : Module) (port : Option Nat) (c : Call) (hc : moduleCall m port = some c) :
    moduleQuery ext m port
      = match m with
        | .valve _ _ _ => Games.mapQ Response.view (c.run ext)
        | _ => c.run ext := by
  cases m with
  | valve p e g =>
    cases hc
    funext w
    simp only [moduleQuery, Call.run, boxed, Games.mapQ, bind, Q.bind', pure, Q.pure']
    cases h : Dispatch.valveQuery ext.valve (port.getD p) e (some g) none w with
    | mk res w' => cases res <;> rfl
  | gamespy v p => cases v <;> cases hc <;> rfl
  | quake v p => cases hc; rfl
  | unreal2 p => cases hc; rfl
  | _ => cases hc

/-! ### the `game!` macro's default request settings -/

theorem gameDefault_eval :
    (match Gen.Arms.gameDefaultSettings with
      | some t =>
        match evalTm sem Env.empty t with
        | some v => intoExtraOf .valveGather v
        | none => none
      | none => none)
      = some (encExtra (valveIntoExtra Valve.Gather.default)) := rfl

theorem valveModDefault_eval :
    evalClosed Gen.Arms.valveModDefaultSettings = some (encValveGather Valve.Gather.default) := rfl

/-! ### the hand-written modules' wrappers -/

theorem handWrappers_eval (port : Option Nat) (timeout : Option Settings.Timeout) :
    (Gen.Arms.handWrappers.map fun w => (w.1, w.2.1, w.2.2.1, evalHandWrapper w.2.2.2 port timeout))
      = [("savage2", "query", .savage2QueryWithTimeout, some [.addr, encOpt .num port, .none_]),
         ("theship", "query", .theShipQueryWithTimeout, some [.addr, encOpt .num port, .none_]),
         ("ffow", "query", .ffowQueryWithTimeout, some [.addr, encOpt .num port, .none_]),
         ("jc2m", "query", .jc2mQueryWithTimeout, some [.addr, encOpt .num port, .none_]),
         ("eco", "query", .ecoQueryWithTimeout, some [.addr, encOpt .num port, .none_]),
         ("eco", "query_with_timeout", .ecoQuery, some [.addr, encOpt .num port, encOpt .timeout timeout, .none_])] := by
  cases port <;> cases timeout <;> rfl

/-- the calls those argument lists decode to -/
theorem handWrappers_decode (port : Option Nat) :
    Call.decode .savage2QueryWithTimeout [.addr, encOpt .num port, .none_] = some (.savage2QueryWithTimeout port none)
    ∧ Call.decode .theShipQueryWithTimeout [.addr, encOpt .num port, .none_] = some (.theShipQueryWithTimeout port none)
    ∧ Call.decode .ffowQueryWithTimeout [.addr, encOpt .num port, .none_] = some (.ffowQueryWithTimeout port none)
    ∧ Call.decode .jc2mQueryWithTimeout [.addr, encOpt .num port, .none_] = some (.jc2mQueryWithTimeout port none)
    ∧ Call.decode .ecoQuery [.addr, encOpt .num port, encOpt .timeout none, .none_] = some (.ecoQuery port none none) := by
  cases port <;> exact ⟨rfl, rfl, rfl, rfl, rfl⟩

/-- … and the model of each of these modules makes exactly that call -/
theorem handModules_eq_run (ext : Ext) (port : Option Nat) :
    moduleQuery ext .savage2 port = (Call.savage2QueryWithTimeout port none).run ext
    ∧ moduleQuery ext .theShip port = (Call.theShipQueryWithTimeout port none).run ext
    ∧ moduleQuery ext .ffow port = (Call.ffowQueryWithTimeout port none).run ext
    ∧ moduleQuery ext .jc2m port = (Call.jc2mQueryWithTimeout port none).run ext
    ∧ moduleQuery ext .eco port = (Call.ecoQuery port none none).run ext :=
  ⟨rfl, rfl, rfl, rfl, rfl⟩

end Gd.Arms
