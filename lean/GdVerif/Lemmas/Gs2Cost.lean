import GdVerif.Lemmas.QBounds
import GdVerif.Proto.Gs2
/-
  How many datagrams the GameSpy 2 query sends: one per attempt of its single exchange.
-/
namespace Gd.Gs2
open Gd

theorem sends_requestDataImpl (s : Sock) : Sends 1 (requestDataImpl s) := by
  unfold requestDataImpl
  exact Sends.bind (k2 := 0) (Sends.send s _) fun _ =>
    Sends.bind (k2 := 0) (Sends.recv s _) fun d =>
      Sends.bind (k2 := 0) (Sends.parse checkHeader d) fun idx => Sends.pure (d, idx)

theorem sends_requestData (s : Sock) (retries : Nat) : Sends (retries + 1) (requestData s retries) := by
  have := Sends.retry (sends_requestDataImpl s) retries
  simpa [requestData] using this

theorem sends_query (port retries : Nat) : Sends (retries + 1) (query port retries) := by
  unfold query
  refine (Sends.bind (k1 := 0) (k2 := retries + 1) (Sends.openSock false port) fun s => ?_).weaken (by omega)
  refine Sends.bind (k1 := retries + 1) (k2 := 0) (sends_requestData s retries) fun x => ?_
  obtain ⟨data, idx⟩ := x
  exact Sends.parse _ data

end Gd.Gs2
