import GdVerif.Lemmas.QBounds
import GdVerif.Proto.Quake
/-
  How many datagrams the Quake query sends: one per attempt of its single exchange, whatever is
  received (the protocol has no challenge).
-/
namespace Gd.Quake
open Gd

theorem sends_getDataImpl (s : Sock) (v : Version) : Sends 1 (getDataImpl s v) := by
  unfold getDataImpl
  exact Sends.bind (k2 := 0) (Sends.send s _) fun _ =>
    Sends.bind (k2 := 0) (Sends.recv s _) fun d => Sends.parse _ d

theorem sends_getData (port retries : Nat) (v : Version) : Sends (retries + 1) (getData port retries v) := by
  unfold getData getDataOn
  have h := Sends.bind (Sends.openSock false port) fun s => Sends.retry (sends_getDataImpl s v) retries
  exact h.weaken (by omega)

theorem sends_query (port : Nat) (v : Version) (retries : Nat) : Sends (retries + 1) (query port v retries) := by
  unfold query
  exact Sends.bind (k2 := 0) (sends_getData port retries v) fun d => Sends.parse _ d

end Gd.Quake
