import GdVerif.Spec.GsText
import GdVerif.Lemmas.Reader
import GdVerif.Lemmas.QuakeText
/-
  Text-level lemmas for the GameSpy 1/2 proofs: decimal numbers against Rust's integer parsers,
  `str::split`, `str::trim`, UTF-8 validity of concatenations, whole-packet string reads.
-/
namespace Gd.Gs
open Gd

theorem toNat_ofNat_small (m : Nat) (h : m < 256) : (UInt8.ofNat m).toNat = m := by
  simp [UInt8.toNat_ofNat', Nat.mod_eq_of_lt h]

theorem digitsVal_append (xs : Bytes) (d : UInt8) : digitsVal (xs ++ [d]) = digitsVal xs * 10 + (d.toNat - 48) := by
  simp [digitsVal, List.foldl_append]

theorem isDigit_ofNat (k : Nat) (h : k < 10) : isDigit (UInt8.ofNat (48 + k)) = true := by
  simp only [isDigit, inRange, toNat_ofNat_small (48 + k) (by omega)]
  simp; omega

theorem decAux_spec : ∀ (f n : Nat), n < f →
    decAux f n ≠ [] ∧ (decAux f n).all isDigit = true ∧ digitsVal (decAux f n) = n := by
  intro f
  induction f with
  | zero => intro n h; omega
  | succ f ih =>
    intro n h
    simp only [decAux]
    split
    · rename_i hlt
      refine ⟨by simp, by simp only [List.all_cons, List.all_nil, isDigit_ofNat n hlt, Bool.and_self], ?_⟩
      simp only [digitsVal, List.foldl_cons, List.foldl_nil, toNat_ofNat_small (48 + n) (by omega)]
      omega
    · rename_i hge
      obtain ⟨h1, h2, h3⟩ := ih (n / 10) (by omega)
      refine ⟨by simp, ?_, ?_⟩
      · simp only [List.all_append, h2, List.all_cons, List.all_nil, isDigit_ofNat (n % 10) (by omega), Bool.and_self]
      · rw [digitsVal_append, h3, toNat_ofNat_small (48 + n % 10) (by omega)]
        omega

theorem dec_ne_nil (n : Nat) : dec n ≠ [] := (decAux_spec (n + 1) n (by omega)).1
theorem dec_digits (n : Nat) : (dec n).all isDigit = true := (decAux_spec (n + 1) n (by omega)).2.1
theorem digitsVal_dec (n : Nat) : digitsVal (dec n) = n := (decAux_spec (n + 1) n (by omega)).2.2

theorem parseUnsigned_digits (bits : Nat) (s : Bytes) (hne : s ≠ []) (hall : s.all isDigit = true) :
    parseUnsigned bits s = if digitsVal s < 2 ^ bits then some (digitsVal s) else none := by
  have hs : stripPlus s = s := by
    unfold stripPlus
    split
    · simp [isDigit, inRange] at hall
    · rfl
  unfold parseUnsigned
  simp [hs, hne, hall]

theorem parseUnsigned_dec (bits n : Nat) (h : n < 2 ^ bits) : parseUnsigned bits (dec n) = some n := by
  rw [parseUnsigned_digits bits _ (dec_ne_nil n) (dec_digits n), digitsVal_dec]
  simp [h]

theorem parseSigned_digits (bits : Nat) (s : Bytes) (hne : s ≠ []) (hall : s.all isDigit = true) :
    parseSigned bits s = if digitsVal s < 2 ^ (bits - 1) then some (digitsVal s : Int) else none := by
  unfold parseSigned
  split
  · rename_i neg ds heq
    split at heq
    · simp [isDigit, inRange] at hall
    · simp [isDigit, inRange] at hall
    · cases heq
      simp [hne, hall]

theorem parseSigned_neg (bits : Nat) (s : Bytes) (hne : s ≠ []) (hall : s.all isDigit = true) :
    parseSigned bits (45 :: s) = if digitsVal s ≤ 2 ^ (bits - 1) then some (-(digitsVal s : Int)) else none := by
  unfold parseSigned
  simp [hne, hall]

/-! splitOn -/

theorem splitOn_no_delim (d : UInt8) (p : Bytes) (h : d ∉ p) : splitOn d p = [p] := by
  induction p with
  | nil => rfl
  | cons b r ih =>
    simp only [List.mem_cons, not_or] at h
    have hb : (b == d) = false := by
      simp only [beq_eq_false_iff_ne, ne_eq]; exact fun e => h.1 e.symm
    simp [splitOn, hb, ih h.2]

theorem splitOn_append_delim (d : UInt8) (p rest : Bytes) (h : d ∉ p) :
    splitOn d (p ++ d :: rest) = p :: splitOn d rest := by
  induction p with
  | nil => simp [splitOn]
  | cons b r ih =>
    simp only [List.mem_cons, not_or] at h
    have hb : (b == d) = false := by
      simp only [beq_eq_false_iff_ne, ne_eq]; exact fun e => h.1 e.symm
    simp [splitOn, hb, ih h.2]

/-- pieces joined by the delimiter -/
def joinWith (d : UInt8) : List Bytes → Bytes
  | [] => []
  | [p] => p
  | p :: q :: r => p ++ d :: joinWith d (q :: r)

theorem splitOn_joinWith (d : UInt8) : ∀ (ps : List Bytes), ps ≠ [] → (∀ p ∈ ps, d ∉ p) →
    splitOn d (joinWith d ps) = ps := by
  intro ps
  induction ps with
  | nil => intro h; exact absurd rfl h
  | cons p r ih =>
    intro _ hall
    cases r with
    | nil => simpa [joinWith] using splitOn_no_delim d p (hall p (by simp))
    | cons q r' =>
      simp only [joinWith]
      rw [splitOn_append_delim d p _ (hall p (by simp)), ih (by simp) (fun x hx => hall x (by simp [hx]))]

/-- printable ASCII other than space -/
def plain (t : Bytes) : Prop := ∀ b ∈ t, 33 ≤ b.toNat ∧ b.toNat < 127

def asciiOnly (t : Bytes) : Prop := ∀ b ∈ t, b.toNat < 128

theorem utf8DecodeAux_ascii : ∀ (f : Nat) (t : Bytes), t.length ≤ f → asciiOnly t →
    utf8DecodeAux f t = t.map UInt8.toNat := by
  intro f
  induction f with
  | zero => intro t h _; cases t <;> simp_all [utf8DecodeAux]
  | succ f ih =>
    intro t h ha
    cases t with
    | nil => rfl
    | cons b r =>
      have hb : b.toNat < 0x80 := ha b (by simp)
      simp only [utf8DecodeAux, hb, ↓reduceIte, List.map_cons]
      rw [ih r (by simpa using h) (fun x hx => ha x (by simp [hx]))]

theorem utf8Decode_ascii (t : Bytes) (h : asciiOnly t) : utf8Decode t = t.map UInt8.toNat :=
  utf8DecodeAux_ascii _ t (Nat.le_refl _) h

theorem utf8Encode_ascii (t : Bytes) (h : asciiOnly t) : utf8Encode (t.map UInt8.toNat) = t := by
  induction t with
  | nil => rfl
  | cons b r ih =>
    have hb : b.toNat < 0x80 := h b (by simp)
    simp only [utf8Encode, List.map_cons, List.flatMap_cons, utf8EncodeChar, hb, ↓reduceIte]
    have : utf8Encode (r.map UInt8.toNat) = r := ih (fun x hx => h x (by simp [hx]))
    simp only [utf8Encode] at this
    rw [this]
    simp

theorem not_ws_plain (c : Nat) (h1 : 33 ≤ c) (h2 : c < 127) : isWhiteSpaceScalar c = false := by
  unfold isWhiteSpaceScalar
  simp
  omega

theorem dropWhile_ws_plain (t : List Nat) (h : ∀ c ∈ t.head?, isWhiteSpaceScalar c = false) :
    t.dropWhile isWhiteSpaceScalar = t := by
  cases t with
  | nil => rfl
  | cons c r => simp [List.dropWhile, h c (by simp)]

theorem dropWhile_pad (n : Nat) (t : Bytes) (hp : plain t) :
    (List.replicate n 32 ++ t.map UInt8.toNat).dropWhile isWhiteSpaceScalar = t.map UInt8.toNat := by
  induction n with
  | zero =>
    simp only [List.replicate_zero, List.nil_append]
    apply dropWhile_ws_plain
    intro c hc
    cases t with
    | nil => simp at hc
    | cons b r =>
      simp at hc
      subst hc
      have := hp b (by simp)
      exact not_ws_plain _ this.1 this.2
  | succ n ih =>
    have : isWhiteSpaceScalar 32 = true := by decide
    simp only [List.replicate_succ, List.cons_append, List.dropWhile, this]
    exact ih

/-- `str::trim` removes the padding spaces and nothing else from a padded printable-ASCII token -/
theorem trimUtf8_padded (n : Nat) (t : Bytes) (hp : plain t) : trimUtf8 (List.replicate n 32 ++ t) = t := by
  have hasc : asciiOnly (List.replicate n 32 ++ t) := by
    intro b hb
    rcases List.mem_append.mp hb with h | h
    · rw [List.mem_replicate] at h; rw [h.2]; decide
    · have := hp b h; omega
  have hasct : asciiOnly t := fun b hb => by have := hp b hb; omega
  unfold trimUtf8
  simp only
  rw [utf8Decode_ascii _ hasc, List.map_append, List.map_replicate]
  have h32 : (32 : UInt8).toNat = 32 := rfl
  rw [h32]
  have hdrop := dropWhile_pad n t hp
  rw [hdrop]
  have hrev : ((t.map UInt8.toNat).reverse.dropWhile isWhiteSpaceScalar) = (t.map UInt8.toNat).reverse := by
    apply dropWhile_ws_plain
    intro c hc
    have hmem : c ∈ (t.map UInt8.toNat).reverse := List.mem_of_mem_head? hc
    simp only [List.mem_reverse, List.mem_map] at hmem
    obtain ⟨b, hb, rfl⟩ := hmem
    have := hp b hb
    exact not_ws_plain _ this.1 this.2
  rw [hrev, List.reverse_reverse]
  exact utf8Encode_ascii t hasct

/-- (proved once, in `Lemmas/QuakeText.lean`: a second `fun_induction` over `validUtf8` in another module
would generate the same auxiliary declarations again) -/
theorem validUtf8_append (a b : Bytes) (ha : validUtf8 a = true) (hb : validUtf8 b = true) :
    validUtf8 (a ++ b) = true := Gd.Quake.validUtf8_append a b ha hb

theorem inRange_false (b : UInt8) (lo hi : Nat) (h : b.toNat < lo ∨ hi < b.toNat) : inRange b lo hi = false := by
  unfold inRange
  rcases h with h | h
  · have : decide (lo ≤ b.toNat) = false := by simp; omega
    simp [this]
  · have : decide (b.toNat ≤ hi) = false := by simp; omega
    simp [this]

theorem validUtf8_head (b : UInt8) (r : Bytes) (h : validUtf8 (b :: r) = true) : isCont b = false := by
  cases hc : isCont b with
  | false => rfl
  | true =>
    exfalso
    unfold isCont inRange at hc
    simp only [Bool.and_eq_true, decide_eq_true_eq] at hc
    unfold validUtf8 at h
    have c0 : ¬ b.toNat < 0x80 := by omega
    have c1 : inRange b 0xC2 0xDF = false := inRange_false _ _ _ (by omega)
    have c2 : (b.toNat == 0xE0) = false := by simp; omega
    have c3 : inRange b 0xE1 0xEC = false := inRange_false _ _ _ (by omega)
    have c4 : inRange b 0xEE 0xEF = false := inRange_false _ _ _ (by omega)
    have c5 : (b.toNat == 0xED) = false := by simp; omega
    have c6 : (b.toNat == 0xF0) = false := by simp; omega
    have c7 : inRange b 0xF1 0xF3 = false := inRange_false _ _ _ (by omega)
    have c8 : (b.toNat == 0xF4) = false := by simp; omega
    simp only [c0, c1, c2, c3, c4, c5, c6, c7, c8, ↓reduceIte, Bool.or_self, Bool.false_eq_true] at h

/-! ### further facts about decimal text -/

theorem isDigit_iff (b : UInt8) : isDigit b = true ↔ 48 ≤ b.toNat ∧ b.toNat ≤ 57 := by
  simp [isDigit, inRange]

theorem dec_mem_digit (n : Nat) (b : UInt8) (h : b ∈ dec n) : 48 ≤ b.toNat ∧ b.toNat ≤ 57 :=
  (isDigit_iff b).mp (List.all_eq_true.mp (dec_digits n) b h)

theorem dec_plain (n : Nat) : plain (dec n) := fun b hb => by have := dec_mem_digit n b hb; omega

theorem dec_not_mem (n : Nat) (d : UInt8) (h : d.toNat < 48 ∨ 57 < d.toNat) : d ∉ dec n := by
  intro hm; have := dec_mem_digit n d hm; omega

theorem dec_inj (a b : Nat) (h : dec a = dec b) : a = b := by
  rw [← digitsVal_dec a, ← digitsVal_dec b, h]

theorem decInt_plain (i : Int) : plain (decInt i) := by
  unfold decInt
  split
  · intro b hb
    rcases List.mem_cons.mp hb with rfl | hb'
    · decide
    · exact dec_plain _ b hb'
  · exact dec_plain _

theorem parseSigned_decInt (bits : Nat) (hb : 0 < bits) (i : Int) (hlo : -(2 ^ (bits - 1) : Int) ≤ i) (hhi : i < 2 ^ (bits - 1)) :
    parseSigned bits (decInt i) = some i := by
  have hcast : ((2 ^ (bits - 1) : Nat) : Int) = (2 : Int) ^ (bits - 1) := by simp
  unfold decInt
  split
  · rename_i hneg
    rw [parseSigned_neg bits _ (dec_ne_nil _) (dec_digits _), digitsVal_dec]
    have h1 : (-i).toNat ≤ 2 ^ (bits - 1) := by omega
    simp only [h1, ↓reduceIte]
    congr 1
    omega
  · rename_i hpos
    rw [parseSigned_digits bits _ (dec_ne_nil _) (dec_digits _), digitsVal_dec]
    have h1 : i.toNat < 2 ^ (bits - 1) := by omega
    simp only [h1, ↓reduceIte]
    congr 1
    omega

theorem validUtf8_of_ascii (t : Bytes) (h : asciiOnly t) : validUtf8 t = true := by
  induction t with
  | nil => rfl
  | cons b r ih =>
    have hb : b.toNat < 0x80 := h b (by simp)
    unfold validUtf8
    simp only [hb, ↓reduceIte]
    exact ih (fun x hx => h x (by simp [hx]))

theorem plain_ascii {t : Bytes} (h : plain t) : asciiOnly t := fun b hb => by have := h b hb; omega

/-- a whole packet without NUL is read as one string -/
theorem readCStr_run_whole (d : Bytes) (h0 : (0 : UInt8) ∉ d) (hv : validUtf8 d = true) : readCStr.run d = .ok d := by
  unfold Par.run readCStr readStringWith utf8Dec
  simp [findByte_none 0 d h0, hv]

end Gd.Gs
