import GdVerif.Lemmas.MasterSafe
/-
  Valve master-server service: the exact transport log of a query for EVERY script and fault vector
  (`roundsLog`: a chain of request/reply rounds, each follow-up request seeded with the last address of the page
  received before), and the number of requests (`Cost`).
-/
namespace Gd

/-! ### generic: cost of a computation that opens its socket first -/

theorem Cost.openSock (tcp : Bool) (port : Nat) : Cost 0 0 (openSock tcp port) := by
  intro w
  unfold Gd.openSock
  split <;> exact ⟨_, rfl, by simp [nSends, nRecvOk, isSend, isRecvOk]⟩

/-- from the initial state the bound is about the whole log -/
theorem Cost.totalLe {q : Q α} {ko ke : Int} (h : Cost ko ke q) (k : Nat) (hko : ko ≤ k) (hke : ke ≤ k)
    (script : List ConnScript) (faults : List Bool) :
    nSends (q (Net.init script faults)).2.log ≤ k + nRecvOk (q (Net.init script faults)).2.log := by
  obtain ⟨added, hl, hc⟩ := h (Net.init script faults)
  rw [hl]
  simp only [Net.init, List.nil_append]
  cases hr : (q (Net.init script faults)).1 <;> rw [hr] at hc <;> simp only at hc <;> omega

/-- `Socket::send` in one equation: the next fault flag decides -/
def sendFails (fl : List Bool) : Bool := fl.head? == some true

theorem send_apply (s : Sock) (data : Bytes) (w : Net) :
    send s data w = if sendFails w.faults
      then (.err .packetSend, { w with faults := w.faults.tail, log := w.log ++ [.send s.id s.port data true] })
      else (.ok (), { w with faults := w.faults.tail, log := w.log ++ [.send s.id s.port data false] }) := by
  obtain ⟨pend, conns, faults, log⟩ := w
  cases faults with
  | nil => rfl
  | cons b rest => cases b <;> rfl

end Gd

namespace Gd.Master
open Gd

/-! ### number of requests -/

theorem cost_querySpecific (s : Sock) (region : Nat) (fb ip : Bytes) (port : Nat) :
    Cost 0 1 (querySpecific s region fb ip port) := by
  unfold querySpecific
  have := Cost.bind (Cost.send s (constructPayload region fb ip port)) fun _ =>
    Cost.bind (Cost.recv s (some 1400)) fun d => Cost.parse parsePage d
  exact this.weaken (by omega) (by omega)

/-- a paging run sends at most one request more than the datagrams it received — whatever its fuel -/
theorem cost_pageLoop (s : Sock) (region : Nat) (fb : Bytes) :
    ∀ (fuel : Nat) (ips : List Addr) (ip : Bytes) (port : Nat), Cost 1 1 (pageLoop s region fb fuel ips ip port) := by
  intro fuel
  induction fuel with
  | zero =>
    intro ips ip port w
    exact ⟨[], by simp [pageLoop], by simp [pageLoop, nSends, nRecvOk]⟩
  | succ fuel ih =>
    intro ips ip port
    unfold pageLoop
    refine (Cost.bind (ko2 := 1) (ke2 := 1) (cost_querySpecific s region fb ip port) fun page => ?_).weaken
      (by omega) (by omega)
    cases page.getLast? with
    | none => exact (Cost.pure _).weaken (by omega) (by omega)
    | some last =>
      obtain ⟨latestIp, latestPort⟩ := last
      simp only
      split
      · exact (Cost.pure _).weaken (by omega) (by omega)
      · split
        · exact (Cost.pure _).weaken (by omega) (by omega)
        · exact ih _ _ _

theorem cost_query (region : Nat) (fs : Option SearchFilters) : Cost 1 1 (query region fs) := by
  rw [query_eq]
  refine (Cost.bind (ko2 := 1) (ke2 := 1) (Cost.openSock false masterPort) fun s => ?_).weaken (by omega) (by omega)
  intro w
  exact cost_pageLoop s region _ _ [] zeroIp 0 w

theorem cost_querySingular (region : Nat) (fs : Option SearchFilters) : Cost 0 1 (querySingular region fs) := by
  rw [querySingular_eq]
  refine (Cost.bind (ko2 := 0) (ke2 := 1) (Cost.openSock false masterPort) fun s => ?_).weaken (by omega) (by omega)
  unfold singularBody
  refine (Cost.bind (ko2 := 0) (ke2 := 0) (cost_querySpecific s region _ zeroIp 0) fun ips => ?_).weaken
    (by omega) (by omega)
  split
  · split <;> exact Cost.pure _
  · exact Cost.pure _

/-! ### the exact log -/

def reqEv (s : Sock) (region : Nat) (fb ip : Bytes) (port : Nat) (failed : Bool) : Ev :=
  .send s.id s.port (constructPayload region fb ip port) failed

def replyEv (s : Sock) (got : Option Nat) : Ev := .recv s.id (some 1400) got

/-- The seed of the follow-up request, if the reply `data` to a request seeded with `ip:port` calls for one: the
reply decodes as a page, the page is not empty, and its last address is neither the terminator `0.0.0.0:0` nor the
seed itself. -/
def nextSeed (ip : Bytes) (port : Nat) (data : Bytes) : Option Addr :=
  match parsePage.run data with
  | .ok page =>
    match page.getLast? with
    | none => none
    | some a =>
      if ipText a.1 == zeroIp && a.2 == 0 then none
      else if ipText a.1 == ip && a.2 == port then none
      else some a
  | _ => none

theorem nextSeed_iff (ip : Bytes) (port : Nat) (data : Bytes) (a : Addr) :
    nextSeed ip port data = some a ↔
      ∃ page, parsePage.run data = .ok page ∧ page.getLast? = some a
        ∧ ¬(ipText a.1 = zeroIp ∧ a.2 = 0) ∧ ¬(ipText a.1 = ip ∧ a.2 = port) := by
  unfold nextSeed
  cases hp : parsePage.run data with
  | err k => simp
  | crash => simp
  | ok page =>
    simp only [Res.ok.injEq, exists_eq_left']
    generalize page.getLast? = o
    cases o with
    | none => simp
    | some last =>
      simp only [Option.some.injEq]
      have b1 : (ipText last.1 == zeroIp && last.2 == 0) = true ↔ (ipText last.1 = zeroIp ∧ last.2 = 0) := by simp
      have b2 : (ipText last.1 == ip && last.2 == port) = true ↔ (ipText last.1 = ip ∧ last.2 = port) := by simp
      by_cases h1 : (ipText last.1 == zeroIp && last.2 == 0) = true
      · simp only [h1, ↓reduceIte]
        constructor
        · intro h; cases h
        · rintro ⟨rfl, hn, _⟩; exact absurd (b1.mp h1) hn
      · simp only [h1]
        by_cases h2 : (ipText last.1 == ip && last.2 == port) = true
        · simp only [h2, ↓reduceIte]
          constructor
          · intro h; cases h
          · rintro ⟨rfl, _, hn⟩; exact absurd (b2.mp h2) hn
        · simp only [h2]
          constructor
          · intro h
            injection h with h
            subst h
            exact ⟨rfl, fun h => h1 (b1.mpr h), fun h => h2 (b2.mpr h)⟩
          · rintro ⟨rfl, _, _⟩; rfl

/-- What a paging run seeded with `ip:port` does on socket `s` when `q` is what the peer will deliver and `fl` the
send-fault flags: one request per round; the run ends with a failed send, a receive that times out, or a reply that
calls for no follow-up; otherwise the next round is seeded with the last address of the page just received. -/
def roundsLog (s : Sock) (region : Nat) (fb : Bytes) : List Delivery → List Bool → Bytes → Nat → List Ev
  | [], fl, ip, port =>
    if sendFails fl then [reqEv s region fb ip port true] else [reqEv s region fb ip port false, replyEv s none]
  | .silence :: _, fl, ip, port =>
    if sendFails fl then [reqEv s region fb ip port true] else [reqEv s region fb ip port false, replyEv s none]
  | .data d :: r, fl, ip, port =>
    if sendFails fl then [reqEv s region fb ip port true]
    else reqEv s region fb ip port false :: replyEv s (some (d.take 1400).length) ::
      (match nextSeed ip port (d.take 1400) with
       | some a => roundsLog s region fb r fl.tail (ipText a.1) a.2
       | none => [])

/-- one round, computed: the send fails -/
theorem querySpecific_sendFails (s : Sock) (region : Nat) (fb ip : Bytes) (port : Nat) (w : Net)
    (hf : sendFails w.faults = true) :
    querySpecific s region fb ip port w
      = (.err .packetSend, { w with faults := w.faults.tail, log := w.log ++ [reqEv s region fb ip port true] }) := by
  unfold querySpecific
  rw [Q.bind_apply, send_apply, hf]
  rfl

/-- one round, computed: nothing arrives -/
theorem querySpecific_silent (s : Sock) (hudp : s.tcp = false) (region : Nat) (fb ip : Bytes) (port : Nat) (w : Net)
    (hf : sendFails w.faults = false) (hq : w.conns.getD s.id [] = [] ∨ ∃ r, w.conns.getD s.id [] = .silence :: r) :
    (querySpecific s region fb ip port w).1 = .err .packetReceive
    ∧ (querySpecific s region fb ip port w).2.log = w.log ++ [reqEv s region fb ip port false, replyEv s none] := by
  unfold querySpecific
  rw [Q.bind_apply, send_apply, hf]
  simp only [Bool.false_eq_true, ↓reduceIte]
  rw [Q.bind_apply]
  unfold Gd.recv
  rcases hq with hq | ⟨r, hq⟩
  · simp only [hq, hudp, Bool.false_eq_true, ↓reduceIte]
    exact ⟨trivial, by simp [reqEv, replyEv]⟩
  · simp only [hq]
    exact ⟨trivial, by simp [reqEv, replyEv]⟩

/-- one round, computed: a datagram arrives -/
theorem querySpecific_data (s : Sock) (hudp : s.tcp = false) (region : Nat) (fb ip : Bytes) (port : Nat) (w : Net)
    (hf : sendFails w.faults = false) (d : Bytes) (r : List Delivery) (hq : w.conns.getD s.id [] = .data d :: r) :
    querySpecific s region fb ip port w
      = (parsePage.run (d.take 1400),
         { w with faults := w.faults.tail, conns := setAt w.conns s.id r,
                  log := w.log ++ [reqEv s region fb ip port false, replyEv s (some (d.take 1400).length)] }) := by
  unfold querySpecific
  rw [Q.bind_apply, send_apply, hf]
  simp only [Bool.false_eq_true, ↓reduceIte]
  rw [Q.bind_apply]
  unfold Gd.recv
  simp only [hq, hudp, Bool.false_eq_true, ↓reduceIte, Option.getD_some]
  simp only [parse, Q.lift, reqEv, replyEv, List.append_assoc, List.cons_append, List.nil_append]

/-- the log of a paging run, for every state in which its (UDP) socket is open: exactly `roundsLog` of what is
queued on the socket -/
theorem pageLoop_log (s : Sock) (hudp : s.tcp = false) (region : Nat) (fb : Bytes) :
    ∀ (fuel : Nat) (ips : List Addr) (ip : Bytes) (port : Nat) (w : Net), IsOpen s w → qlen w s.id < fuel →
      (pageLoop s region fb fuel ips ip port w).2.log
        = w.log ++ roundsLog s region fb (w.conns.getD s.id []) w.faults ip port := by
  intro fuel
  induction fuel with
  | zero => intro _ _ _ w _ h; omega
  | succ fuel ih =>
    intro ips ip port w hopen hfuel
    unfold pageLoop
    rw [Q.bind_apply]
    cases hf : sendFails w.faults with
    | true =>
      rw [querySpecific_sendFails s region fb ip port w hf]
      cases hq : w.conns.getD s.id [] with
      | nil => simp [roundsLog, hf]
      | cons x r => cases x <;> simp [roundsLog, hf]
    | false =>
      cases hq : w.conns.getD s.id [] with
      | nil =>
        obtain ⟨h1, h2⟩ := querySpecific_silent s hudp region fb ip port w hf (Or.inl hq)
        cases hr : querySpecific s region fb ip port w with
        | mk res w1 =>
          rw [hr] at h1 h2
          simp only at h1 h2
          subst h1
          simp [roundsLog, hf, h2]
      | cons x r =>
        cases x with
        | silence =>
          obtain ⟨h1, h2⟩ := querySpecific_silent s hudp region fb ip port w hf (Or.inr ⟨r, hq⟩)
          cases hr : querySpecific s region fb ip port w with
          | mk res w1 =>
            rw [hr] at h1 h2
            simp only at h1 h2
            subst h1
            simp [roundsLog, hf, h2]
        | data d =>
          rw [querySpecific_data s hudp region fb ip port w hf d r hq]
          simp only [roundsLog, hf, Bool.false_eq_true, ↓reduceIte, nextSeed]
          cases hp : parsePage.run (d.take 1400) with
          | err k => simp
          | crash => simp
          | ok page =>
            simp only
            cases hl : page.getLast? with
            | none => simp
            | some last =>
              obtain ⟨latestIp, latestPort⟩ := last
              simp only
              split
              · simp
              · split
                · simp
                · have hget : (setAt w.conns s.id r).getD s.id [] = r := by
                    rw [getD_setAt]; simp [show s.id < w.conns.length from hopen]
                  have hlen : r.length < fuel := by
                    have : qlen w s.id = r.length + 1 := by simp only [qlen, hq, List.length_cons]
                    omega
                  have key := ih (ips ++ page) (ipText latestIp) latestPort
                    ⟨w.pending, setAt w.conns s.id r, w.faults.tail,
                      w.log ++ [reqEv s region fb ip port false, replyEv s (some (d.take 1400).length)]⟩
                    (by simpa [IsOpen, setAt_length] using hopen) (by simp only [qlen, hget]; exact hlen)
                  rw [key]
                  simp only [hget, List.append_assoc, List.cons_append, List.nil_append]

/-- one round: the first (at most two) events of the run -/
theorem querySpecific_log (s : Sock) (hudp : s.tcp = false) (region : Nat) (fb ip : Bytes) (port : Nat) (w : Net) :
    (querySpecific s region fb ip port w).2.log
      = w.log ++ (roundsLog s region fb (w.conns.getD s.id []) w.faults ip port).take 2 := by
  cases hf : sendFails w.faults with
  | true =>
    rw [querySpecific_sendFails s region fb ip port w hf]
    cases hq : w.conns.getD s.id [] with
    | nil => simp [roundsLog, hf]
    | cons x r => cases x <;> simp [roundsLog, hf]
  | false =>
    cases hq : w.conns.getD s.id [] with
    | nil => simp [roundsLog, hf, (querySpecific_silent s hudp region fb ip port w hf (Or.inl hq)).2]
    | cons x r =>
      cases x with
      | silence => simp [roundsLog, hf, (querySpecific_silent s hudp region fb ip port w hf (Or.inr ⟨r, hq⟩)).2]
      | data d =>
        rw [querySpecific_data s hudp region fb ip port w hf d r hq]
        simp [roundsLog, hf]

theorem singularBody_log (s : Sock) (region : Nat) (fb : Bytes) (w : Net) :
    (singularBody s region fb w).2.log = (querySpecific s region fb zeroIp 0 w).2.log := by
  unfold singularBody
  rw [Q.bind_apply]
  cases hr : querySpecific s region fb zeroIp 0 w with
  | mk res w1 =>
    cases res with
    | err k => rfl
    | crash => rfl
    | ok ips =>
      simp only
      cases ips.getLast? with
      | none => rfl
      | some last =>
        obtain ⟨ip, port⟩ := last
        simp only
        split <;> rfl

/-- what the peer delivers to the first socket a query opens; `none`: the socket cannot be opened -/
def firstConn : List ConnScript → Option (List Delivery)
  | [] => some []
  | .opened ds :: _ => some ds
  | .refused :: _ => none

/-- the transport log of the complete query as a function of the script and the send faults -/
def queryLog (region : Nat) (fb : Bytes) (script : List ConnScript) (faults : List Bool) : List Ev :=
  match firstConn script with
  | none => [.opened 0 false masterPort true]
  | some ds => .opened 0 false masterPort false :: roundsLog msock region fb ds faults zeroIp 0

/-- the transport log of the single-page query: the first round only -/
def singularLog (region : Nat) (fb : Bytes) (script : List ConnScript) (faults : List Bool) : List Ev :=
  match firstConn script with
  | none => [.opened 0 false masterPort true]
  | some ds => .opened 0 false masterPort false :: (roundsLog msock region fb ds faults zeroIp 0).take 2

theorem query_log (region : Nat) (fs : Option SearchFilters) (script : List ConnScript) (faults : List Bool) :
    (query region fs (Net.init script faults)).2.log = queryLog region (filterBytesOf fs) script faults := by
  rw [query_eq, Q.bind_apply]
  have body : ∀ (pend : List ConnScript) (ds : List Delivery),
      (queryBody msock region (filterBytesOf fs) ⟨pend, [ds], faults, [.opened 0 false masterPort false]⟩).2.log
        = .opened 0 false masterPort false :: roundsLog msock region (filterBytesOf fs) ds faults zeroIp 0 := by
    intro pend ds
    unfold queryBody
    rw [pageLoop_log msock rfl region _ _ [] zeroIp 0 _ (by simp [IsOpen, msock]) (by simp [qlen, msock])]
    simp [msock]
  cases script with
  | nil => exact body [] []
  | cons c rest =>
    cases c with
    | opened ds => exact body rest ds
    | refused => rfl

theorem querySingular_log (region : Nat) (fs : Option SearchFilters) (script : List ConnScript) (faults : List Bool) :
    (querySingular region fs (Net.init script faults)).2.log = singularLog region (filterBytesOf fs) script faults := by
  rw [querySingular_eq, Q.bind_apply]
  have body : ∀ (pend : List ConnScript) (ds : List Delivery),
      (singularBody msock region (filterBytesOf fs) ⟨pend, [ds], faults, [.opened 0 false masterPort false]⟩).2.log
        = .opened 0 false masterPort false :: (roundsLog msock region (filterBytesOf fs) ds faults zeroIp 0).take 2 := by
    intro pend ds
    rw [singularBody_log, querySpecific_log msock rfl]
    simp [msock]
  cases script with
  | nil => exact body [] []
  | cons c rest =>
    cases c with
    | opened ds => exact body rest ds
    | refused => rfl

/-! ### the run ends when the script does -/

/-- datagrams in a delivery queue -/
def countData : List Delivery → Nat
  | [] => 0
  | .data _ :: r => countData r + 1
  | .silence :: r => countData r

theorem nSends_send (c p : Nat) (d : Bytes) (f : Bool) (l : List Ev) : nSends (.send c p d f :: l) = nSends l + 1 := by
  simp [nSends, List.countP_cons, isSend]

theorem nSends_recv (c : Nat) (sz g : Option Nat) (l : List Ev) : nSends (.recv c sz g :: l) = nSends l := by
  simp [nSends, isSend]

/-- a paging run sends at most one request per datagram the peer will ever deliver, plus one -/
theorem nSends_roundsLog (s : Sock) (region : Nat) (fb : Bytes) :
    ∀ (q : List Delivery) (fl : List Bool) (ip : Bytes) (port : Nat),
      nSends (roundsLog s region fb q fl ip port) ≤ countData q + 1 := by
  have h0 : nSends [] = 0 := rfl
  intro q
  induction q with
  | nil =>
    intro fl ip port
    unfold roundsLog
    split <;> simp only [reqEv, replyEv, nSends_send, nSends_recv, h0, countData] <;> omega
  | cons x r ih =>
    intro fl ip port
    cases x with
    | silence =>
      unfold roundsLog
      split <;> simp only [reqEv, replyEv, nSends_send, nSends_recv, h0, countData] <;> omega
    | data d =>
      unfold roundsLog
      split
      · simp only [reqEv, nSends_send, h0, countData]; omega
      · cases nextSeed ip port (d.take 1400) with
        | none => simp only [reqEv, replyEv, nSends_send, nSends_recv, h0, countData]; omega
        | some a =>
          have := ih fl.tail (ipText a.1) a.2
          simp only [reqEv, replyEv, nSends_send, nSends_recv, countData]
          omega

/-- the first round holds one request -/
theorem nSends_firstRound (s : Sock) (region : Nat) (fb : Bytes) (q : List Delivery) (fl : List Bool) (ip : Bytes)
    (port : Nat) : nSends ((roundsLog s region fb q fl ip port).take 2) ≤ 1 := by
  have h0 : nSends [] = 0 := rfl
  cases q with
  | nil => unfold roundsLog; split <;> simp [reqEv, replyEv, nSends_send, nSends_recv, h0]
  | cons x r =>
    cases x <;> unfold roundsLog <;> split <;> simp [reqEv, replyEv, nSends_send, nSends_recv, h0]

end Gd.Master
