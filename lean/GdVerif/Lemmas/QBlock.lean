import GdVerif.Net
/-
  Counting logic for *blocking steps that ran into their timeout*: receives that timed out and
  sends that failed.  `Block ko ke q`: `q` appends at most `ko` such events when it succeeds and at
  most `ke` when it fails.  Every other blocking step returned because the peer acted, so the wall
  time of a query is bounded by (number of such events) × timeout + the time the peer took.
-/
namespace Gd

def isBlocked : Ev → Bool
  | .recv _ _ none => true
  | .send _ _ _ true => true
  | .opened _ _ _ true => true
  | _ => false

def nBlocked (l : List Ev) : Nat := l.countP isBlocked

theorem nBlocked_append (a b : List Ev) : nBlocked (a ++ b) = nBlocked a + nBlocked b := by simp [nBlocked]

def Block (ko ke : Nat) (q : Q α) : Prop :=
  ∀ w, ∃ added, (q w).2.log = w.log ++ added ∧
    (match (q w).1 with
     | .ok _ => nBlocked added ≤ ko
     | _ => nBlocked added ≤ ke)

theorem Block.weaken {q : Q α} {ko ke ko' ke' : Nat} (h : Block ko ke q) (h1 : ko ≤ ko') (h2 : ke ≤ ke') :
    Block ko' ke' q := by
  intro w
  obtain ⟨added, hl, hc⟩ := h w
  refine ⟨added, hl, ?_⟩
  cases hr : (q w).1 <;> rw [hr] at hc <;> simp only at hc ⊢ <;> omega

theorem Block.pure (a : α) : Block 0 0 (pure a : Q α) := fun w => ⟨[], by simp, by simp [nBlocked]⟩
theorem Block.fail (k : ErrKind) : Block 0 0 (Q.fail k : Q α) :=
  fun w => ⟨[], by simp [Q.fail], by simp [Q.fail, nBlocked]⟩
theorem Block.lift (r : Res α) : Block 0 0 (Q.lift r) :=
  fun w => ⟨[], by simp [Q.lift], by cases r <;> simp [Q.lift, nBlocked]⟩
theorem Block.parse (p : Par α) (data : Bytes) : Block 0 0 (parse p data) := Block.lift _

theorem Block.bind {q : Q α} {f : α → Q β} {ko1 ke1 ko2 ke2 : Nat}
    (hq : Block ko1 ke1 q) (hf : ∀ a, Block ko2 ke2 (f a)) :
    Block (ko1 + ko2) (max ke1 (ko1 + ke2)) (q >>= f) := by
  intro w
  obtain ⟨a1, hl1, hc1⟩ := hq w
  rw [Q.bind_apply]
  cases hqw : q w with
  | mk res w1 =>
    rw [hqw] at hl1 hc1
    cases res with
    | ok a =>
      obtain ⟨a2, hl2, hc2⟩ := hf a w1
      refine ⟨a1 ++ a2, by rw [hl2, hl1, List.append_assoc], ?_⟩
      simp only at hc1 ⊢
      rw [nBlocked_append]
      cases hr : (f a w1).1 <;> rw [hr] at hc2 <;> simp only at hc2 ⊢ <;> omega
    | err k => exact ⟨a1, hl1, by simp only at hc1 ⊢; omega⟩
    | crash => exact ⟨a1, hl1, by simp only at hc1 ⊢; omega⟩

/-- a send either succeeds or is one failed blocking step -/
theorem Block.send (s : Sock) (data : Bytes) : Block 0 1 (send s data) := by
  intro w
  unfold Gd.send
  split <;> exact ⟨_, rfl, by simp [nBlocked, isBlocked]⟩

/-- a receive either returns data or is one timed-out blocking step -/
theorem Block.recv (s : Sock) (size : Option Nat) : Block 0 1 (recv s size) := by
  intro w
  unfold Gd.recv
  split
  · exact ⟨_, rfl, by simp [nBlocked, isBlocked]⟩
  · exact ⟨_, rfl, by simp [nBlocked, isBlocked]⟩
  · split <;> exact ⟨_, rfl, by simp [nBlocked, isBlocked]⟩

theorem Block.ite {c : Prop} [Decidable c] {p q : Q α} {ko ke : Nat} (hp : Block ko ke p) (hq : Block ko ke q) :
    Block ko ke (if c then p else q) := by
  split <;> assumption

/-- a unit that blocks on a timeout only when it fails (then once): retried, at most `r + 1` times -/
theorem Block.retry {q : Q α} (hq : Block 0 1 q) (r : Nat) : Block (r + 1) (r + 1) (retryOnTimeout r q) := by
  induction r with
  | zero => exact hq.weaken (by omega) (by omega)
  | succ r ih =>
    intro w
    obtain ⟨a1, hl1, hc1⟩ := hq w
    simp only [retryOnTimeout]
    cases hqw : q w with
    | mk res w1 =>
      rw [hqw] at hl1 hc1
      cases res with
      | ok a => exact ⟨a1, hl1, by simp only at hc1 ⊢; omega⟩
      | crash => exact ⟨a1, hl1, by simp only at hc1 ⊢; omega⟩
      | err e =>
        simp only
        split
        · obtain ⟨a2, hl2, hc2⟩ := ih w1
          refine ⟨a1 ++ a2, by rw [hl2, hl1, List.append_assoc], ?_⟩
          simp only at hc1
          rw [nBlocked_append]
          cases hr : (retryOnTimeout r q w1).1 <;> rw [hr] at hc2 <;> simp only at hc2 ⊢ <;> omega
        · exact ⟨a1, hl1, by simp only at hc1 ⊢; omega⟩

theorem Block.maybeGather {q : Q α} {k : Nat} (hq : Block k k q) (t : Toggle) : Block k k (Gd.maybeGather t q) := by
  cases t with
  | skip => exact (Block.pure none).weaken (by omega) (by omega)
  | try_ =>
    intro w
    obtain ⟨a1, hl1, hc1⟩ := hq w
    simp only [Gd.maybeGather]
    cases hqw : q w with
    | mk res w1 =>
      rw [hqw] at hl1 hc1
      cases res <;> exact ⟨a1, hl1, by simpa using hc1⟩
  | enforce =>
    have := Block.bind hq (fun a => Block.pure (some a))
    exact this.weaken (by omega) (by omega)

end Gd
