import GdVerif.Lemmas.Text
import GdVerif.Proto.Master
import GdVerif.Spec.Master
/-
  The master-server request encoder against the reference grammar reader.
-/
namespace Gd.Master
open Gd Gd.Master.Spec

/-- the key/value pair a filter denotes (none for `HasTags` without tags, which encodes to nothing) -/
def Filter.kv : Filter → Option KV
  | .isSecured b => some (asciiBytes "secure", boolChar b)
  | .runsMap s => some (asciiBytes "map", s)
  | .canHavePassword b => some (asciiBytes "password", boolChar b)
  | .canBeEmpty b => some (asciiBytes "empty", boolChar b)
  | .canBeFull b => some (asciiBytes "full", boolChar b)
  | .runsAppID n => some (asciiBytes "appid", natDec n)
  | .hasTags tags => if tags.isEmpty then none else some (asciiBytes "gametype", joinTags tags)
  | .notAppID n => some (asciiBytes "napp", natDec n)
  | .isEmpty b => some (asciiBytes "noplayers", boolChar b)
  | .matchName s => some (asciiBytes "name_match", s)
  | .matchVersion s => some (asciiBytes "version_match", s)
  | .restrictUniqueIP b => some (asciiBytes "collapse_addr_hash", boolChar b)
  | .onAddress s => some (asciiBytes "gameaddr", s)
  | .whitelisted b => some (asciiBytes "white", boolChar b)
  | .spectatorProxy b => some (asciiBytes "proxy", boolChar b)
  | .isDedicated b => some (asciiBytes "dedicated", boolChar b)
  | .runsLinux b => some (asciiBytes "linux", boolChar b)
  | .hasGameDir s => some (asciiBytes "gamedir", s)

def clean (s : Bytes) : Prop := (0x5c : UInt8) ∉ s ∧ (0 : UInt8) ∉ s

/-- the grammar's domain: free-text values contain neither backslash nor NUL -/
def Filter.WF : Filter → Prop
  | .runsMap s | .matchName s | .matchVersion s | .onAddress s | .hasGameDir s => clean s
  | .hasTags tags => ∀ t ∈ tags, clean t
  | _ => True

def encKV (kv : KV) : Bytes := [0x5c] ++ kv.1 ++ [0x5c] ++ kv.2

theorem toBytes_eq (f : Filter) : f.toBytes = match f.kv with
    | some kv => encKV kv
    | none => [] := by
  cases f <;> simp [Filter.toBytes, Filter.kv, encKV, keyOf, bs, List.append_assoc]
  split <;> simp_all

theorem clean_digits (s : Bytes) (h : s.all isDigit = true) : clean s := by
  constructor <;> intro hm <;> have := List.all_eq_true.mp h _ hm <;> simp [isDigit, inRange] at this

theorem clean_natDec (n : Nat) : clean (natDec n) := clean_digits _ (natDec_spec n).1

theorem clean_boolChar (b : Bool) : clean (boolChar b) := by
  cases b <;> simp [clean, boolChar]

theorem mem_joinTags (x : UInt8) (tags : List Bytes) (h : x ∈ joinTags tags) : x = 44 ∨ ∃ t ∈ tags, x ∈ t := by
  induction tags with
  | nil => simp [joinTags] at h
  | cons t r ih =>
    cases r with
    | nil => exact Or.inr ⟨t, by simp, by simpa [joinTags] using h⟩
    | cons t2 r2 =>
      simp only [joinTags, List.mem_append, List.mem_singleton] at h
      rcases h with (h | h) | h
      · exact Or.inr ⟨t, by simp, h⟩
      · exact Or.inl h
      · rcases ih h with h' | ⟨u, hu, hx⟩
        · exact Or.inl h'
        · exact Or.inr ⟨u, by simp [hu], hx⟩

theorem clean_joinTags (tags : List Bytes) (h : ∀ t ∈ tags, clean t) : clean (joinTags tags) := by
  constructor
  · intro hm
    rcases mem_joinTags _ _ hm with h' | ⟨t, ht, hx⟩
    · exact absurd h' (by decide)
    · exact (h t ht).1 hx
  · intro hm
    rcases mem_joinTags _ _ hm with h' | ⟨t, ht, hx⟩
    · exact absurd h' (by decide)
    · exact (h t ht).2 hx

def KeyOk (k : Bytes) : Prop := clean k ∧ (k == nandKey || k == norKey) = false

def keyOkB (k : Bytes) : Bool := !k.contains 0x5c && !k.contains 0 && !(k == nandKey || k == norKey)

theorem keyOk_of (k : Bytes) (h : keyOkB k = true) : KeyOk k := by
  simp only [keyOkB, Bool.and_eq_true, Bool.not_eq_true', List.contains_eq_mem, decide_eq_false_iff_not] at h
  exact ⟨⟨h.1.1, h.1.2⟩, h.2⟩

theorem keyOk_all :
    KeyOk (asciiBytes "secure") ∧ KeyOk (asciiBytes "map") ∧ KeyOk (asciiBytes "password") ∧ KeyOk (asciiBytes "empty")
    ∧ KeyOk (asciiBytes "full") ∧ KeyOk (asciiBytes "appid") ∧ KeyOk (asciiBytes "gametype") ∧ KeyOk (asciiBytes "napp")
    ∧ KeyOk (asciiBytes "noplayers") ∧ KeyOk (asciiBytes "name_match") ∧ KeyOk (asciiBytes "version_match")
    ∧ KeyOk (asciiBytes "collapse_addr_hash") ∧ KeyOk (asciiBytes "gameaddr") ∧ KeyOk (asciiBytes "white")
    ∧ KeyOk (asciiBytes "proxy") ∧ KeyOk (asciiBytes "dedicated") ∧ KeyOk (asciiBytes "linux") ∧ KeyOk (asciiBytes "gamedir") :=
  ⟨keyOk_of _ (by decide), keyOk_of _ (by decide), keyOk_of _ (by decide), keyOk_of _ (by decide), keyOk_of _ (by decide),
   keyOk_of _ (by decide), keyOk_of _ (by decide), keyOk_of _ (by decide), keyOk_of _ (by decide), keyOk_of _ (by decide),
   keyOk_of _ (by decide), keyOk_of _ (by decide), keyOk_of _ (by decide), keyOk_of _ (by decide), keyOk_of _ (by decide),
   keyOk_of _ (by decide), keyOk_of _ (by decide), keyOk_of _ (by decide)⟩

/-- keys are one of the 18 fixed names: clean, and never a group marker -/
theorem kv_spec (f : Filter) (hw : f.WF) (kv : KV) (h : f.kv = some kv) :
    clean kv.1 ∧ clean kv.2 ∧ (kv.1 == nandKey || kv.1 == norKey) = false := by
  obtain ⟨k1, k2, k3, k4, k5, k6, k7, k8, k9, k10, k11, k12, k13, k14, k15, k16, k17, k18⟩ := keyOk_all
  cases f with
  | isSecured b => cases h; exact ⟨k1.1, clean_boolChar _, k1.2⟩
  | runsMap s => cases h; exact ⟨k2.1, hw, k2.2⟩
  | canHavePassword b => cases h; exact ⟨k3.1, clean_boolChar _, k3.2⟩
  | canBeEmpty b => cases h; exact ⟨k4.1, clean_boolChar _, k4.2⟩
  | canBeFull b => cases h; exact ⟨k5.1, clean_boolChar _, k5.2⟩
  | runsAppID n => cases h; exact ⟨k6.1, clean_natDec _, k6.2⟩
  | hasTags tags =>
    simp only [Filter.kv] at h
    split at h
    · cases h
    · cases h; exact ⟨k7.1, clean_joinTags _ hw, k7.2⟩
  | notAppID n => cases h; exact ⟨k8.1, clean_natDec _, k8.2⟩
  | isEmpty b => cases h; exact ⟨k9.1, clean_boolChar _, k9.2⟩
  | matchName s => cases h; exact ⟨k10.1, hw, k10.2⟩
  | matchVersion s => cases h; exact ⟨k11.1, hw, k11.2⟩
  | restrictUniqueIP b => cases h; exact ⟨k12.1, clean_boolChar _, k12.2⟩
  | onAddress s => cases h; exact ⟨k13.1, hw, k13.2⟩
  | whitelisted b => cases h; exact ⟨k14.1, clean_boolChar _, k14.2⟩
  | spectatorProxy b => cases h; exact ⟨k15.1, clean_boolChar _, k15.2⟩
  | isDedicated b => cases h; exact ⟨k16.1, clean_boolChar _, k16.2⟩
  | runsLinux b => cases h; exact ⟨k17.1, clean_boolChar _, k17.2⟩
  | hasGameDir s => cases h; exact ⟨k18.1, hw, k18.2⟩

def toksOf (kvs : List KV) : List Bytes := kvs.flatMap fun kv => [kv.1, kv.2]

def grpToks (name : Bytes) (kvs : List KV) : List Bytes :=
  if kvs.isEmpty then [] else [name, natDec kvs.length] ++ toksOf kvs

def pre (toks : List Bytes) : Bytes := (toks.map ((0x5c : UInt8) :: ·)).flatten

theorem pre_append (a b : List Bytes) : pre (a ++ b) = pre a ++ pre b := by simp [pre]

theorem plain_bytes (fs : FMap) : (fs.map Filter.toBytes).flatten = pre (toksOf (fs.filterMap Filter.kv)) := by
  induction fs with
  | nil => rfl
  | cons f r ih =>
    simp only [List.map_cons, List.flatten_cons, ih, toBytes_eq]
    cases hk : f.kv with
    | none => simp [List.filterMap_cons, hk]
    | some kv => simp [List.filterMap_cons, hk, toksOf, pre, encKV]

theorem encoded_eq (fs : FMap) :
    (fs.map Filter.toBytes).filter (fun b => !b.isEmpty) = (fs.filterMap Filter.kv).map encKV := by
  induction fs with
  | nil => rfl
  | cons f r ih =>
    simp only [List.map_cons, List.filter_cons, toBytes_eq]
    cases hk : f.kv with
    | none => simp [List.filterMap_cons, hk, ih]
    | some kv => simp [List.filterMap_cons, hk, ih, encKV]

theorem flatten_encKV (kvs : List KV) : (kvs.map encKV).flatten = pre (toksOf kvs) := by
  induction kvs with
  | nil => rfl
  | cons kv r ih => simp [toksOf, pre, encKV] at *; simp [ih]

theorem special_bytes (name : String) (fs : FMap) :
    specialToBytes name fs = pre (grpToks (asciiBytes name) (fs.filterMap Filter.kv)) := by
  unfold specialToBytes grpToks
  simp only [encoded_eq]
  cases hk : fs.filterMap Filter.kv with
  | nil => simp [pre]
  | cons kv r =>
    simp only [List.map_cons, List.isEmpty_cons, Bool.false_eq_true, ↓reduceIte, List.length_cons, List.length_map]
    rw [pre_append, ← flatten_encKV]
    simp [pre, keyOf, bs, List.append_assoc]

/-! ### the reader on structured token lists -/

theorem takePairs_toks (kvs : List KV) (rest : List Bytes) :
    takePairs kvs.length (toksOf kvs ++ rest) = some (kvs, rest) := by
  induction kvs with
  | nil => rfl
  | cons kv r ih =>
    simp only [toksOf, List.flatMap_cons, List.length_cons, List.cons_append, List.nil_append, takePairs]
    have := ih
    simp only [toksOf] at this
    simp [this]

theorem takePlain_toks (kvs : List KV) (rest : List Bytes)
    (hk : ∀ kv ∈ kvs, (kv.1 == nandKey || kv.1 == norKey) = false)
    (hr : rest = [] ∨ ∃ k v r, rest = k :: v :: r ∧ (k == nandKey || k == norKey) = true) :
    takePlain (toksOf kvs ++ rest) = some (kvs, rest) := by
  induction kvs with
  | nil =>
    simp only [toksOf, List.flatMap_nil, List.nil_append]
    rcases hr with rfl | ⟨k, v, r, rfl, hm⟩
    · rfl
    · simp [takePlain, hm]
  | cons kv r ih =>
    have h1 := hk kv (by simp)
    have h2 := ih (fun x hx => hk x (by simp [hx]))
    simp only [toksOf, List.flatMap_cons, List.cons_append, List.nil_append, takePlain] at *
    simp [h1, h2]

theorem takeGroup_toks (name : Bytes) (kvs : List KV) (rest : List Bytes) (hl : kvs.length < 2 ^ 64)
    (hr : rest = [] ∨ ∃ k r, rest = k :: r ∧ (k == name) = false) :
    takeGroup name (grpToks name kvs ++ rest) = some (kvs, rest) := by
  unfold grpToks
  cases kvs with
  | nil =>
    simp only [List.isEmpty_nil, ↓reduceIte, List.nil_append]
    rcases hr with rfl | ⟨k, r, rfl, hne⟩
    · rfl
    · cases r with
      | nil => rfl
      | cons n r2 => simp [takeGroup, hne]
  | cons kv r =>
    simp only [List.isEmpty_cons, Bool.false_eq_true, ↓reduceIte, List.cons_append, List.nil_append, takeGroup,
      beq_self_eq_true]
    rw [parseUnsigned_natDec 64 _ hl]
    simp only [List.length_cons, Nat.add_one_ne_zero, beq_iff_eq, ↓reduceIte]
    have := takePairs_toks (kv :: r) rest
    simpa using this

theorem untilNul_append (s rest : Bytes) (h : (0 : UInt8) ∉ s) : untilNul (s ++ 0 :: rest) = some (s, rest) := by
  induction s with
  | nil => simp [untilNul]
  | cons b r ih =>
    simp only [List.mem_cons, not_or] at h
    have hb : (b == 0) = false := by rw [beq_eq_false_iff_ne]; exact fun e => h.1 e.symm
    simp [untilNul, hb, ih h.2]

theorem clean_pre (toks : List Bytes) (h : ∀ t ∈ toks, (0 : UInt8) ∉ t) : (0 : UInt8) ∉ pre toks := by
  induction toks with
  | nil => simp [pre]
  | cons t r ih =>
    have h1 := h t (by simp)
    have h2 := ih (fun x hx => h x (by simp [hx]))
    simp only [pre, List.map_cons, List.flatten_cons, List.mem_append, List.mem_cons] at *
    rintro ((hh | hh) | hh)
    · exact absurd hh (by decide)
    · exact h1 hh
    · exact h2 hh

end Gd.Master

namespace Gd.Master
open Gd Gd.Master.Spec

theorem kvs_spec (fs : FMap) (h : ∀ f ∈ fs, f.WF) :
    ∀ kv ∈ fs.filterMap Filter.kv, clean kv.1 ∧ clean kv.2 ∧ (kv.1 == nandKey || kv.1 == norKey) = false := by
  intro kv hkv
  obtain ⟨f, hf, hk⟩ := List.mem_filterMap.mp hkv
  exact kv_spec f (h f hf) kv hk

theorem toksOf_clean (kvs : List KV) (h : ∀ kv ∈ kvs, clean kv.1 ∧ clean kv.2) : ∀ t ∈ toksOf kvs, clean t := by
  intro t ht
  simp only [toksOf, List.mem_flatMap, List.mem_cons, List.not_mem_nil, or_false] at ht
  obtain ⟨kv, hkv, rfl | rfl⟩ := ht
  · exact (h kv hkv).1
  · exact (h kv hkv).2

theorem grpToks_clean (name : Bytes) (hn : clean name) (kvs : List KV) (h : ∀ kv ∈ kvs, clean kv.1 ∧ clean kv.2) :
    ∀ t ∈ grpToks name kvs, clean t := by
  intro t ht
  unfold grpToks at ht
  split at ht
  · cases ht
  · simp only [List.cons_append, List.nil_append, List.mem_cons] at ht
    rcases ht with rfl | rfl | ht
    · exact hn
    · exact clean_natDec _
    · exact toksOf_clean kvs h t ht

theorem grpToks_head (name : Bytes) (kvs : List KV) (rest : List Bytes) :
    grpToks name kvs ++ rest = rest ∨ ∃ v r, grpToks name kvs ++ rest = name :: v :: r := by
  unfold grpToks
  split
  · exact Or.inl rfl
  · exact Or.inr ⟨_, _, rfl⟩

/-- the filter string produced for any three ordered groups is read back as exactly those groups -/
theorem parseFilter_toBytes (P A O : FMap) (hP : ∀ f ∈ P, f.WF) (hA : ∀ f ∈ A, f.WF) (hO : ∀ f ∈ O, f.WF)
    (hAl : A.length < 2 ^ 64) (hOl : O.length < 2 ^ 64) :
    ∃ fstr, toBytesOrdered P A O = fstr ++ [0] ∧ (0 : UInt8) ∉ fstr
      ∧ parseFilter fstr = some (P.filterMap Filter.kv, A.filterMap Filter.kv, O.filterMap Filter.kv) := by
  let Pk := P.filterMap Filter.kv
  let Ak := A.filterMap Filter.kv
  let Ok := O.filterMap Filter.kv
  have hPk := kvs_spec P hP
  have hAk := kvs_spec A hA
  have hOk := kvs_spec O hO
  let toks := toksOf Pk ++ (grpToks nandKey Ak ++ grpToks norKey Ok)
  refine ⟨pre toks, ?_, ?_, ?_⟩
  · unfold toBytesOrdered
    rw [plain_bytes, special_bytes, special_bytes]
    simp only [toks, pre_append, List.append_assoc]
    rfl
  · have hclean : ∀ t ∈ toks, clean t := by
      intro t ht
      simp only [toks, List.mem_append] at ht
      rcases ht with ht | ht | ht
      · exact toksOf_clean Pk (fun kv h => ⟨(hPk kv h).1, (hPk kv h).2.1⟩) t ht
      · exact grpToks_clean nandKey (by unfold clean; decide) Ak (fun kv h => ⟨(hAk kv h).1, (hAk kv h).2.1⟩) t ht
      · exact grpToks_clean norKey (by unfold clean; decide) Ok (fun kv h => ⟨(hOk kv h).1, (hOk kv h).2.1⟩) t ht
    exact clean_pre toks fun t ht => (hclean t ht).2
  · have hclean : ∀ t ∈ toks, (0x5c : UInt8) ∉ t := by
      intro t ht
      simp only [toks, List.mem_append] at ht
      rcases ht with ht | ht | ht
      · exact (toksOf_clean Pk (fun kv h => ⟨(hPk kv h).1, (hPk kv h).2.1⟩) t ht).1
      · exact (grpToks_clean nandKey (by unfold clean; decide) Ak (fun kv h => ⟨(hAk kv h).1, (hAk kv h).2.1⟩) t ht).1
      · exact (grpToks_clean norKey (by unfold clean; decide) Ok (fun kv h => ⟨(hOk kv h).1, (hOk kv h).2.1⟩) t ht).1
    have hsplit : splitOn 0x5c (pre toks) = [] :: toks := by
      have := splitOn_tokens 0x5c [] toks (by simp) hclean
      simpa [pre] using this
    unfold parseFilter
    rw [hsplit]
    simp only [List.isEmpty_nil, Bool.not_true, Bool.false_eq_true, ↓reduceIte]
    -- plain group
    have hrestP : grpToks nandKey Ak ++ grpToks norKey Ok = [] ∨
        ∃ k v r, grpToks nandKey Ak ++ grpToks norKey Ok = k :: v :: r ∧ (k == nandKey || k == norKey) = true := by
      rcases grpToks_head nandKey Ak (grpToks norKey Ok) with h1 | ⟨v, r, h1⟩
      · rw [h1]
        rcases grpToks_head norKey Ok [] with h2 | ⟨v, r, h2⟩
        · simp only [List.append_nil] at h2
          exact Or.inl h2
        · simp only [List.append_nil] at h2
          exact Or.inr ⟨norKey, v, r, h2, by decide⟩
      · exact Or.inr ⟨nandKey, v, r, h1, by decide⟩
    rw [show toks = toksOf Pk ++ (grpToks nandKey Ak ++ grpToks norKey Ok) from rfl,
      takePlain_toks Pk _ (fun kv h => (hPk kv h).2.2) hrestP]
    simp only
    -- nand group
    have hrestA : grpToks norKey Ok = [] ∨ ∃ k r, grpToks norKey Ok = k :: r ∧ (k == nandKey) = false := by
      rcases grpToks_head norKey Ok [] with h2 | ⟨v, r, h2⟩
      · simp only [List.append_nil] at h2
        exact Or.inl h2
      · simp only [List.append_nil] at h2
        exact Or.inr ⟨norKey, v :: r, h2, by decide⟩
    rw [takeGroup_toks nandKey Ak _ (by
      have : Ak.length ≤ A.length := List.length_filterMap_le _ _
      omega) hrestA]
    simp only
    have hO' := takeGroup_toks norKey Ok [] (by
      have : Ok.length ≤ O.length := List.length_filterMap_le _ _
      omega) (Or.inl rfl)
    simp only [List.append_nil] at hO'
    rw [hO']
    simp only [List.isEmpty_nil, ↓reduceIte]
    rfl

end Gd.Master
