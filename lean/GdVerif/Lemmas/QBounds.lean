import GdVerif.Lemmas.QCost
import GdVerif.Lemmas.QBlock
import GdVerif.Lemmas.QLogic
import GdVerif.Lemmas.Unreal2Cost
/-
  Additions to the counting logics `Cost` / `Sends` / `Block` used by the per-family C12 / C13
  theorems:

  * socket creation as a step of each logic (a refused / failed creation is one blocked step);
  * the sharp retry rule of `Block`: a unit that blocks only when it fails blocks `r` times at most
    when the retried unit finally succeeds, `r + 1` times when it fails;
  * from a logic judgement to the statement about a whole query started on `Net.init`;
  * the *silent server*: `SilentFor tcp n queue` (the next `n` receives of the socket time out),
    `SilentSends` / `SilentAttempt` (what a fault-free unit does against such a socket) and the
    retry theorem `SilentAttempt.retry`: exactly `r + 1` attempts, every one of them one timed-out
    receive, then the receive-class error.
-/
namespace Gd

theorem Q.bind_assoc' (q : Q α) (f : α → Q β) (g : β → Q γ) :
    ((q >>= f) >>= g) = (q >>= fun a => f a >>= g) := by
  funext w
  simp only [bind, Q.bind']
  cases q w with
  | mk r w1 => cases r <;> rfl

/-! ### socket creation -/

def isOpened : Ev → Bool
  | .opened _ _ _ _ => true
  | _ => false

def nOpened (l : List Ev) : Nat := l.countP isOpened

theorem nOpened_append (a b : List Ev) : nOpened (a ++ b) = nOpened a + nOpened b := by simp [nOpened]

theorem Cost.openSock (tcp : Bool) (port : Nat) : Cost 0 0 (openSock tcp port) := by
  intro w
  unfold Gd.openSock
  split <;> exact ⟨_, rfl, by simp [nSends, nRecvOk, isSend, isRecvOk]⟩

theorem Sends.openSock (tcp : Bool) (port : Nat) : Sends 0 (openSock tcp port) := by
  intro w
  unfold Gd.openSock
  split <;> exact ⟨_, rfl, by simp [nSends, isSend]⟩

/-- creating a socket either succeeds or is one failed blocking step (a refused / timed-out connect) -/
theorem Block.openSock (tcp : Bool) (port : Nat) : Block 0 1 (openSock tcp port) := by
  intro w
  unfold Gd.openSock
  split <;> exact ⟨_, rfl, by simp [nBlocked, isBlocked]⟩

theorem Sends.fail (k : ErrKind) : Sends 0 (Q.fail k : Q α) :=
  fun w => ⟨[], by simp [Q.fail], by simp [nSends]⟩

theorem Sends.parse (p : Par α) (data : Bytes) : Sends 0 (parse p data) := Sends.lift _

theorem Sends.ite {c : Prop} [Decidable c] {p q : Q α} {k : Nat} (hp : Sends k p) (hq : Sends k q) :
    Sends k (if c then p else q) := by
  split <;> assumption

/-! ### the sharp retry rule -/

/-- a unit that blocks at most `ko` times when it succeeds and `ke` times when it fails: retried,
every failed attempt before the last contributes `ke`. -/
theorem Block.retryGen {q : Q α} {ko ke : Nat} (hq : Block ko ke q) (r : Nat) :
    Block (r * ke + ko) ((r + 1) * ke) (retryOnTimeout r q) := by
  induction r with
  | zero => exact hq.weaken (by omega) (by omega)
  | succ r ih =>
    intro w
    obtain ⟨a1, hl1, hc1⟩ := hq w
    simp only [retryOnTimeout]
    have e1 : (r + 1) * ke = r * ke + ke := Nat.succ_mul r ke
    have e2 : (r + 1 + 1) * ke = r * ke + ke + ke := by rw [Nat.succ_mul, e1]
    cases hqw : q w with
    | mk res w1 =>
      rw [hqw] at hl1 hc1
      cases res with
      | ok a => exact ⟨a1, hl1, by simp only at hc1 ⊢; omega⟩
      | crash => exact ⟨a1, hl1, by simp only at hc1 ⊢; omega⟩
      | err e =>
        simp only
        split
        · obtain ⟨a2, hl2, hc2⟩ := ih w1
          refine ⟨a1 ++ a2, by rw [hl2, hl1, List.append_assoc], ?_⟩
          simp only at hc1
          rw [nBlocked_append]
          cases hr : (retryOnTimeout r q w1).1 <;> rw [hr] at hc2 <;> simp only at hc2 ⊢ <;> omega
        · exact ⟨a1, hl1, by simp only at hc1 ⊢; omega⟩

/-- a unit that blocks only when it fails (then once): the retried unit blocks at most `r` times when
it succeeds and `r + 1` times when it fails. -/
theorem Block.retrySharp {q : Q α} (hq : Block 0 1 q) (r : Nat) : Block r (r + 1) (retryOnTimeout r q) :=
  (Block.retryGen hq r).weaken (by omega) (by omega)

/-! ### whole queries -/

theorem Block.total {q : Q α} {ko ke : Nat} (h : Block ko ke q) (script : List ConnScript) (faults : List Bool) :
    nBlocked (q (Net.init script faults)).2.log ≤ max ko ke := by
  obtain ⟨added, hl, hc⟩ := h (Net.init script faults)
  rw [hl]
  simp only [Net.init, List.nil_append]
  cases hr : (q (Net.init script faults)).1 <;> rw [hr] at hc <;> simp only at hc <;> omega

theorem Sends.total {q : Q α} {k : Nat} (h : Sends k q) (script : List ConnScript) (faults : List Bool) :
    nSends (q (Net.init script faults)).2.log ≤ k := by
  obtain ⟨added, hl, hc⟩ := h (Net.init script faults)
  rw [hl]
  simpa [Net.init] using hc

theorem Cost.total {q : Q α} {k : Nat} (h : Cost (k : Int) (k : Int) q) (script : List ConnScript) (faults : List Bool) :
    nSends (q (Net.init script faults)).2.log ≤ k + nRecvOk (q (Net.init script faults)).2.log := by
  obtain ⟨added, hl, hc⟩ := h (Net.init script faults)
  rw [hl]
  simp only [Net.init, List.nil_append]
  cases hr : (q (Net.init script faults)).1 <;> rw [hr] at hc <;> simp only at hc <;> omega

/-! ### the silent server -/

/-- the next `n` receives of a socket with this queue time out: the queue starts with `n` silences, or
(UDP only, where an exhausted script is a peer that stays silent) with fewer and then ends. -/
def SilentFor (tcp : Bool) : Nat → List Delivery → Prop
  | 0, _ => True
  | _ + 1, [] => tcp = false
  | n + 1, .silence :: r => SilentFor tcp n r
  | _ + 1, .data _ :: _ => False

theorem SilentFor.replicate (tcp : Bool) (n : Nat) (rest : List Delivery) :
    SilentFor tcp n (List.replicate n .silence ++ rest) := by
  induction n with
  | zero => exact True.intro
  | succ n ih => simpa [List.replicate_succ, SilentFor] using ih

theorem SilentFor.nil_udp (n : Nat) : SilentFor false n [] := by
  cases n <;> simp [SilentFor]

theorem SilentFor.mono {tcp : Bool} : ∀ {n m : Nat} {q : List Delivery}, SilentFor tcp n q → m ≤ n → SilentFor tcp m q := by
  intro n
  induction n with
  | zero => intro m q _ hm; have : m = 0 := by omega
            subst this; exact True.intro
  | succ n ih =>
    intro m q h hm
    cases m with
    | zero => exact True.intro
    | succ m =>
      cases q with
      | nil => exact h
      | cons d r =>
        cases d with
        | silence => exact ih (q := r) h (by omega)
        | data b => exact h.elim

/-- the queue of a socket -/
def squeue (s : Sock) (w : Net) : List Delivery := w.conns.getD s.id []

/-- the state a silent-server run is in: no send fault pending, the socket's next `n` receives time out -/
structure SilentAt (s : Sock) (n : Nat) (w : Net) : Prop where
  faults : w.faults = []
  silent : SilentFor s.tcp n (squeue s w)

/-- what a step of a silent-server run leaves unchanged -/
structure Kept (w w' : Net) : Prop where
  pending : w'.pending = w.pending
  faults : w'.faults = w.faults
  len : w'.conns.length = w.conns.length

theorem Kept.refl (w : Net) : Kept w w := ⟨rfl, rfl, rfl⟩
theorem Kept.trans {w w1 w2 : Net} (h1 : Kept w w1) (h2 : Kept w1 w2) : Kept w w2 :=
  ⟨h2.pending.trans h1.pending, h2.faults.trans h1.faults, h2.len.trans h1.len⟩

/-- `q` succeeds without receiving anything: it sends exactly `k` datagrams, none fails, nothing else
happens, the socket stays as silent as it was -/
def SilentSends (s : Sock) (k : Nat) (q : Q α) : Prop :=
  ∀ w n, SilentAt s n w → ∃ a added, (q w).1 = .ok a ∧ (q w).2.log = w.log ++ added ∧ Kept w (q w).2 ∧
    SilentAt s n (q w).2 ∧ nSends added = k ∧ nBlocked added = 0 ∧ nRecvOk added = 0 ∧ nOpened added = 0

/-- `q` fails with the receive-class error at its first receive: it has sent exactly `k` datagrams,
one receive timed out, nothing was received -/
def SilentAttempt (s : Sock) (k : Nat) (q : Q α) : Prop :=
  ∀ w n, SilentAt s (n + 1) w → ∃ added, (q w).1 = .err .packetReceive ∧ (q w).2.log = w.log ++ added ∧
    Kept w (q w).2 ∧ SilentAt s n (q w).2 ∧ nSends added = k ∧ nBlocked added = 1 ∧ nRecvOk added = 0 ∧
    nOpened added = 0

theorem SilentSends.pure (s : Sock) (a : α) : SilentSends s 0 (pure a : Q α) :=
  fun w _ h => ⟨a, [], rfl, by simp, Kept.refl w, h, rfl, rfl, rfl, rfl⟩

theorem SilentSends.lift (s : Sock) {r : Res α} {a : α} (h : r = .ok a) : SilentSends s 0 (Q.lift r) := by
  subst h
  exact fun w _ h => ⟨a, [], rfl, by simp [Q.lift], Kept.refl w, h, rfl, rfl, rfl, rfl⟩

theorem SilentSends.send (s : Sock) (data : Bytes) : SilentSends s 1 (send s data) := by
  intro w n h
  have hf := h.faults
  refine ⟨(), [.send s.id s.port data false], ?_, ?_, ?_, ?_, ?_, ?_, ?_, ?_⟩
  · simp [Gd.send, hf]
  · simp [Gd.send, hf]
  · refine ⟨?_, ?_, ?_⟩ <;> simp [Gd.send, hf]
  · refine ⟨?_, ?_⟩
    · simp [Gd.send, hf]
    · have := h.silent
      simpa [Gd.send, hf, squeue] using this
  · simp [nSends, isSend]
  · simp [nBlocked, isBlocked]
  · simp [nRecvOk, isRecvOk]
  · simp [nOpened, isOpened]

theorem SilentSends.bind {s : Sock} {q : Q α} {f : α → Q β} {k1 k2 : Nat}
    (hq : SilentSends s k1 q) (hf : ∀ a, SilentSends s k2 (f a)) : SilentSends s (k1 + k2) (q >>= f) := by
  intro w n h
  obtain ⟨a, ad1, hr1, hl1, hk1, hs1, c1, c2, c3, c4⟩ := hq w n h
  rw [Q.bind_apply]
  cases hqw : q w with
  | mk res w1 =>
    rw [hqw] at hr1 hl1 hk1 hs1
    simp only at hr1 hl1 hk1 hs1
    subst hr1
    obtain ⟨b, ad2, hr2, hl2, hk2, hs2, d1, d2, d3, d4⟩ := hf a w1 n hs1
    refine ⟨b, ad1 ++ ad2, hr2, by rw [hl2, hl1, List.append_assoc], hk1.trans hk2, hs2, ?_, ?_, ?_, ?_⟩
    · rw [nSends_append]; omega
    · rw [nBlocked_append]; omega
    · rw [nRecvOk_append]; omega
    · rw [nOpened_append]; omega

/-- a receive on a socket that stays silent times out -/
theorem SilentAttempt.recv (s : Sock) (size : Option Nat) : SilentAttempt s 0 (recv s size) := by
  intro w n h
  have hs := h.silent
  unfold squeue at hs
  refine ⟨[.recv s.id size none], ?_⟩
  cases hq : w.conns.getD s.id [] with
  | nil =>
    rw [hq] at hs
    have hudp : s.tcp = false := hs
    have hres : Gd.recv s size w = (.err .packetReceive, { w with log := w.log ++ [.recv s.id size none] }) := by
      simp only [Gd.recv, hq, hudp, Bool.false_eq_true, ↓reduceIte]
    rw [hres]
    refine ⟨rfl, rfl, ⟨rfl, rfl, rfl⟩, ⟨h.faults, ?_⟩, ?_, ?_, ?_, ?_⟩
    · simp only [squeue, hq, hudp]; exact SilentFor.nil_udp n
    · simp [nSends, isSend]
    · simp [nBlocked, isBlocked]
    · simp [nRecvOk, isRecvOk]
    · simp [nOpened, isOpened]
  | cons d rest =>
    rw [hq] at hs
    cases d with
    | data b => exact hs.elim
    | silence =>
      have hres : Gd.recv s size w = (.err .packetReceive,
          { w with conns := setAt w.conns s.id rest, log := w.log ++ [.recv s.id size none] }) := by
        simp only [Gd.recv, hq]
      rw [hres]
      have hlt : s.id < w.conns.length := by
        apply Classical.byContradiction
        intro hge
        have : w.conns.getD s.id [] = [] := by
          simp only [List.getD_eq_getElem?_getD]
          rw [List.getElem?_eq_none (by omega)]
          rfl
        rw [this] at hq
        cases hq
      refine ⟨rfl, rfl, ⟨rfl, rfl, by simp [setAt_length]⟩, ⟨h.faults, ?_⟩, ?_, ?_, ?_, ?_⟩
      · simp only [squeue, getD_setAt, hlt, and_self, ↓reduceIte]
        exact hs
      · simp [nSends, isSend]
      · simp [nBlocked, isBlocked]
      · simp [nRecvOk, isRecvOk]
      · simp [nOpened, isOpened]

/-- whatever follows a failed step is not run -/
theorem SilentAttempt.bind_left {s : Sock} {q : Q α} {k : Nat} (hq : SilentAttempt s k q) (f : α → Q β) :
    SilentAttempt s k (q >>= f) := by
  intro w n h
  obtain ⟨ad, hr, hl, hk, hs, c⟩ := hq w n h
  rw [Q.bind_apply]
  cases hqw : q w with
  | mk res w1 =>
    rw [hqw] at hr hl hk hs
    simp only at hr hl hk hs
    subst hr
    exact ⟨ad, rfl, hl, hk, hs, c⟩

/-- sends, then a step that times out -/
theorem SilentAttempt.seq {s : Sock} {q : Q α} {f : α → Q β} {k1 k2 : Nat}
    (hq : SilentSends s k1 q) (hf : ∀ a, SilentAttempt s k2 (f a)) : SilentAttempt s (k1 + k2) (q >>= f) := by
  intro w n h
  obtain ⟨a, ad1, hr1, hl1, hk1, hs1, c1, c2, c3, c4⟩ := hq w (n + 1) h
  rw [Q.bind_apply]
  cases hqw : q w with
  | mk res w1 =>
    rw [hqw] at hr1 hl1 hk1 hs1
    simp only at hr1 hl1 hk1 hs1
    subst hr1
    obtain ⟨ad2, hr2, hl2, hk2, hs2, d1, d2, d3, d4⟩ := hf a w1 n hs1
    refine ⟨ad1 ++ ad2, hr2, by rw [hl2, hl1, List.append_assoc], hk1.trans hk2, hs2, ?_, ?_, ?_, ?_⟩
    · rw [nSends_append]; omega
    · rw [nBlocked_append]; omega
    · rw [nRecvOk_append]; omega
    · rw [nOpened_append]; omega

/-- what the retried unit does against a silent server: exactly `r + 1` attempts (`k` sends and one
timed-out receive each), then the receive-class error -/
def SilentRun (s : Sock) (k b : Nat) (q : Q α) : Prop :=
  ∀ w n, SilentAt s (n + b) w → ∃ added, (q w).1 = .err .packetReceive ∧ (q w).2.log = w.log ++ added ∧
    Kept w (q w).2 ∧ SilentAt s n (q w).2 ∧ nSends added = k ∧ nBlocked added = b ∧ nRecvOk added = 0 ∧
    nOpened added = 0

theorem SilentAttempt.retry {s : Sock} {q : Q α} {k : Nat} (hq : SilentAttempt s k q) (r : Nat) :
    SilentRun s (k * (r + 1)) (r + 1) (retryOnTimeout r q) := by
  induction r with
  | zero =>
    intro w n h
    simpa [retryOnTimeout] using hq w n h
  | succ r ih =>
    intro w n h
    have h' : SilentAt s (n + (r + 1) + 1) w := by
      have : n + (r + 1 + 1) = n + (r + 1) + 1 := by omega
      rw [this] at h; exact h
    obtain ⟨ad1, hr1, hl1, hk1, hs1, c1, c2, c3, c4⟩ := hq w (n + (r + 1)) h'
    simp only [retryOnTimeout]
    cases hqw : q w with
    | mk res w1 =>
      rw [hqw] at hr1 hl1 hk1 hs1
      simp only at hr1 hl1 hk1 hs1
      subst hr1
      simp only [ErrKind.isTimeout, ↓reduceIte]
      obtain ⟨ad2, hr2, hl2, hk2, hs2, d1, d2, d3, d4⟩ := ih w1 n hs1
      refine ⟨ad1 ++ ad2, hr2, by rw [hl2, hl1, List.append_assoc], hk1.trans hk2, hs2, ?_, ?_, ?_, ?_⟩
      · rw [nSends_append, c1, d1, Nat.mul_succ k (r + 1)]; omega
      · rw [nBlocked_append]; omega
      · rw [nRecvOk_append]; omega
      · rw [nOpened_append]; omega

theorem SilentAttempt.retry1 {s : Sock} {q : Q α} (hq : SilentAttempt s 1 q) (r : Nat) :
    SilentRun s (r + 1) (r + 1) (retryOnTimeout r q) := by
  have := hq.retry r
  rwa [Nat.one_mul] at this

theorem SilentRun.bind_left {s : Sock} {q : Q α} {k b : Nat} (hq : SilentRun s k b q) (f : α → Q β) :
    SilentRun s k b (q >>= f) := by
  intro w n h
  obtain ⟨ad, hr, hl, hk, hs, c⟩ := hq w n h
  rw [Q.bind_apply]
  cases hqw : q w with
  | mk res w1 =>
    rw [hqw] at hr hl hk hs
    simp only at hr hl hk hs
    subst hr
    exact ⟨ad, rfl, hl, hk, hs, c⟩

/-! ### a silent server from the first socket on -/

/-- the script of the next socket to be created: it is created, and its next `n` receives time out
(no script left = a UDP peer that never answers) -/
def PendingSilent (tcp : Bool) (n : Nat) : List ConnScript → Prop
  | [] => tcp = false
  | .opened ds :: _ => SilentFor tcp n ds
  | .refused :: _ => False

/-- what a query that creates one socket and runs into `b` timeouts on it does: the result, the log
and how much of the script is left for further sockets -/
structure SilentOutcome (w : Net) (res : Res α × Net) (k b : Nat) : Prop where
  result : res.1 = .err .packetReceive
  pending : res.2.pending = w.pending.tail
  faults : res.2.faults = []
  sends : ∃ added, res.2.log = w.log ++ added ∧ nSends added = k ∧ nBlocked added = b ∧ nRecvOk added = 0 ∧
    nOpened added = 1

/-- create the socket, then run a computation that fails against a silent peer -/
theorem SilentRun.openSock {tcp : Bool} {k b : Nat} {f : Sock → Q α}
    (hf : ∀ s, s.tcp = tcp → SilentRun s k b (f s)) (port : Nat) (w : Net) (hfl : w.faults = [])
    (hp : PendingSilent tcp b w.pending) :
    SilentOutcome w ((openSock tcp port >>= f) w) k b := by
  rw [Q.bind_apply]
  have key : ∀ (ds : List Delivery) (rest : List ConnScript), SilentFor tcp b ds → rest = w.pending.tail →
      SilentOutcome w (f ⟨w.conns.length, port, tcp⟩
        { w with pending := rest, conns := w.conns ++ [ds],
                 log := w.log ++ [.opened w.conns.length tcp port false] }) k b := by
    intro ds rest hds hrest
    have hat : SilentAt ⟨w.conns.length, port, tcp⟩ (0 + b)
        { w with pending := rest, conns := w.conns ++ [ds], log := w.log ++ [.opened w.conns.length tcp port false] } := by
      refine ⟨hfl, ?_⟩
      simp only [squeue, List.getD_eq_getElem?_getD, List.getElem?_append_right (Nat.le_refl _), Nat.sub_self,
        List.getElem?_cons_zero, Option.getD_some, Nat.zero_add]
      exact hds
    obtain ⟨ad, hr, hl, hk, hs, c1, c2, c3, c4⟩ := hf ⟨w.conns.length, port, tcp⟩ rfl _ 0 hat
    refine ⟨hr, ?_, ?_, ?_⟩
    · rw [hk.pending]; exact hrest
    · exact hs.faults
    · refine ⟨.opened w.conns.length tcp port false :: ad, ?_, ?_, ?_, ?_, ?_⟩
      · rw [hl]; simp
      · show nSends ([Ev.opened w.conns.length tcp port false] ++ ad) = k
        rw [nSends_append, c1]; simp [nSends, isSend]
      · show nBlocked ([Ev.opened w.conns.length tcp port false] ++ ad) = b
        rw [nBlocked_append, c2]; simp [nBlocked, isBlocked]
      · show nRecvOk ([Ev.opened w.conns.length tcp port false] ++ ad) = 0
        rw [nRecvOk_append, c3]; simp [nRecvOk, isRecvOk]
      · show nOpened ([Ev.opened w.conns.length tcp port false] ++ ad) = 1
        rw [nOpened_append, c4]; simp [nOpened, isOpened]
  cases hpe : w.pending with
  | nil =>
    rw [hpe] at hp
    have htcp : tcp = false := hp
    simp only [Gd.openSock, hpe]
    exact key [] [] (by rw [htcp]; exact SilentFor.nil_udp b) (by rw [hpe]; rfl)
  | cons c rest =>
    rw [hpe] at hp
    cases c with
    | refused => exact hp.elim
    | opened ds =>
      simp only [Gd.openSock, hpe]
      exact key ds rest hp (by rw [hpe]; rfl)

end Gd

namespace Gd

/-- the outcome of a silent-server run that started on a fresh transport state -/
theorem SilentOutcome.counts {script : List ConnScript} {res : Res α × Net} {k b : Nat}
    (h : SilentOutcome (Net.init script []) res k b) :
    res.1 = .err .packetReceive ∧ nSends res.2.log = k ∧ nBlocked res.2.log = b ∧ nRecvOk res.2.log = 0 ∧
      nOpened res.2.log = 1 := by
  obtain ⟨added, hl, c1, c2, c3, c4⟩ := h.sends
  simp only [Net.init, List.nil_append] at hl
  rw [hl]
  exact ⟨h.result, c1, c2, c3, c4⟩

end Gd

namespace Gd

/-! ### silent servers over several sockets -/

/-- outcome of a computation that created `nsock` sockets one after the other, found every one of
them silent and failed with `e` -/
structure SilentOutcomeN (w : Net) (res : Res α × Net) (e : ErrKind) (nsock k b : Nat) : Prop where
  result : res.1 = .err e
  pending : res.2.pending = w.pending.drop nsock
  faults : res.2.faults = []
  sends : ∃ added, res.2.log = w.log ++ added ∧ nSends added = k ∧ nBlocked added = b ∧ nRecvOk added = 0 ∧
    nOpened added = nsock

theorem SilentOutcome.toN {w : Net} {res : Res α × Net} {k b : Nat} (h : SilentOutcome w res k b) :
    SilentOutcomeN w res .packetReceive 1 k b :=
  ⟨h.result, by rw [h.pending, List.drop_one], h.faults, h.sends⟩

theorem SilentOutcomeN.counts {script : List ConnScript} {res : Res α × Net} {e : ErrKind} {n k b : Nat}
    (h : SilentOutcomeN (Net.init script []) res e n k b) :
    res.1 = .err e ∧ nSends res.2.log = k ∧ nBlocked res.2.log = b ∧ nRecvOk res.2.log = 0 ∧
      nOpened res.2.log = n := by
  obtain ⟨added, hl, c1, c2, c3, c4⟩ := h.sends
  simp only [Net.init, List.nil_append] at hl
  rw [hl]
  exact ⟨h.result, c1, c2, c3, c4⟩

/-- one outcome after the other -/
theorem SilentOutcomeN.append {w : Net} {r1 : Res α × Net} {r2 : Res β × Net} {e1 e2 : ErrKind}
    {n1 k1 b1 n2 k2 b2 : Nat} (h1 : SilentOutcomeN w r1 e1 n1 k1 b1) (h2 : SilentOutcomeN r1.2 r2 e2 n2 k2 b2) :
    SilentOutcomeN w r2 e2 (n1 + n2) (k1 + k2) (b1 + b2) := by
  obtain ⟨a1, hl1, c1, c2, c3, c4⟩ := h1.sends
  obtain ⟨a2, hl2, d1, d2, d3, d4⟩ := h2.sends
  refine ⟨h2.result, ?_, h2.faults, a1 ++ a2, by rw [hl2, hl1, List.append_assoc], ?_, ?_, ?_, ?_⟩
  · rw [h2.pending, h1.pending, List.drop_drop]
  · rw [nSends_append]; omega
  · rw [nBlocked_append]; omega
  · rw [nRecvOk_append]; omega
  · rw [nOpened_append]; omega

/-- the scripts of the next sockets to be created (their transports in order): each is created and
its next `n` receives time out -/
def AllSilent (n : Nat) : List Bool → List ConnScript → Prop
  | [], _ => True
  | tcp :: ts, p => PendingSilent tcp n p ∧ AllSilent n ts p.tail

/-- no script at all: every UDP socket is created and stays silent -/
theorem AllSilent.nil_udp (n : Nat) : ∀ (ts : List Bool), (∀ t ∈ ts, t = false) → AllSilent n ts []
  | [], _ => True.intro
  | t :: ts, h => ⟨h t (by simp), AllSilent.nil_udp n ts fun x hx => h x (by simp [hx])⟩

end Gd
