import GdVerif.Lemmas.Gs1Query
/-
  GameSpy 1, part 4: the typed decoding (`buildResponse`) of the canonical map of the variables a
  well-formed state sends is the state.
-/
namespace Gd.Gs1
open Gd Gd.Gs Gd.Gs1.Spec

/-! ### the server variables as a table -/

/-- every key the server may use with the text it sends for it, if any -/
def skeleton (y : Style) (st : State) : List (Bytes × Option Bytes) :=
  [(bs "hostname", some st.name), (bs "mapname", some st.map), (bs "gametype", some st.gameMode),
   (bs "gamever", some st.gameVersion), (bs "maxplayers", some (dec st.playersMaximum)),
   (bs "password", some (pwText y.pwStyle st.hasPassword)), (bs "maptitle", st.mapTitle),
   (bs "AdminEMail", st.adminContact), (bs (if y.adminShort then "admin" else "AdminName"), st.adminName),
   (bs "minplayers", st.playersMinimum.map dec), (bs "tournament", st.tournament.map (boolText y.boolUpper))]

theorem optPair_eq {α : Type} (k : Bytes) (f : α → Bytes) (o : Option α) :
    optPair k f o = present [(k, o.map f)] := by
  cases o <;> rfl

theorem serverPairs_eq (y : Style) (st : State) : serverPairs y st = present (skeleton y st) := by
  unfold serverPairs
  rw [optPair_eq, optPair_eq, optPair_eq, optPair_eq, optPair_eq]
  have h6 : [(bs "hostname", st.name), (bs "mapname", st.map), (bs "gametype", st.gameMode), (bs "gamever", st.gameVersion),
      (bs "maxplayers", dec st.playersMaximum), (bs "password", pwText y.pwStyle st.hasPassword)]
      = present [(bs "hostname", some st.name), (bs "mapname", some st.map), (bs "gametype", some st.gameMode),
        (bs "gamever", some st.gameVersion), (bs "maxplayers", some (dec st.playersMaximum)),
        (bs "password", some (pwText y.pwStyle st.hasPassword))] := rfl
  rw [h6, ← present_append, ← present_append, ← present_append, ← present_append, ← present_append]
  simp [skeleton]

theorem skeleton_keys (y : Style) (st : State) : (skeleton y st).map (·.1) = serverKeyList y.adminShort := by
  simp [skeleton, serverKeyList]

theorem mapGet_serverPairs (y : Style) (st : State) (k : Bytes) :
    mapGet (serverPairs y st) k = tableGet (skeleton y st) k := by
  rw [serverPairs_eq]
  exact mapGet_present _ (by rw [skeleton_keys]; exact (serverKeyList_facts y.adminShort).1) k

/-- a typed key that is not a player field is looked up among the server's own variables -/
theorem mapGet_allPairs_typed {y : Style} {st : State} (h : Wf y st) (k : Bytes) (hk : k ∈ typedKeys)
    (hpf : playerField k = none) : mapGet (allPairs y st) k = tableGet (skeleton y st) k := by
  have hne : ¬ HasKey st.extras k := by
    rintro ⟨p, hp, hpk⟩
    exact (h.extrasKeys p hp).1 (hpk ▸ hk)
  have hnp : ¬ HasKey (playersPairsFrom y 0 st.players) k := by
    rintro ⟨p, hp, hpk⟩
    obtain ⟨kd, hkd, n, _, h2, e⟩ := playersPairsFrom_key y st.players 0 hp
    have f := (kindList_facts y.nameLong).2 kd hkd
    have hn := h.nplayers
    have : playerField p.1 = some (kd, n) := by rw [e]; exact playerField_fieldKeyB kd n f.2.1 f.2.2 (by omega)
    rw [hpk, hpf] at this
    cases this
  unfold allPairs
  rw [List.append_assoc, mapGet_append, mapGet_serverPairs]
  cases hs : tableGet (skeleton y st) k with
  | some v => rfl
  | none =>
    simp only
    rw [mapGet_append_right hne, mapGet_none_of_not_hasKey hnp]

/-! ### the table of players `extract_players` builds -/

theorem getD_modifyAt {α : Type} (l : List α) (i j : Nat) (f : α → α) (d : α) :
    (modifyAt l i f).getD j d = if j = i ∧ i < l.length then f (l.getD i d) else l.getD j d := by
  induction l generalizing i j with
  | nil => simp [modifyAt]
  | cons x r ih =>
    cases i with
    | zero => cases j <;> simp [modifyAt]
    | succ i =>
      cases j with
      | zero => simp [modifyAt]
      | succ j =>
        have := ih i j
        simp only [List.getD_eq_getElem?_getD] at this
        simp [modifyAt, this]

theorem modifyAt_length {α : Type} (l : List α) (i : Nat) (f : α → α) : (modifyAt l i f).length = l.length := by
  induction l generalizing i with
  | nil => rfl
  | cons x r ih => cases i <;> simp [modifyAt, ih]

theorem getD_append_replicate_nil (pd : List (Map Bytes)) (n j : Nat) :
    (pd ++ List.replicate n ([] : Map Bytes)).getD j [] = pd.getD j [] := by
  simp only [List.getD_eq_getElem?_getD]
  by_cases h : j < pd.length
  · rw [List.getElem?_append_left h]
  · rw [List.getElem?_append_right (by omega)]
    have : pd[j]? = none := List.getElem?_eq_none (by omega)
    rw [this]
    by_cases h2 : j - pd.length < n
    · simp [List.getElem?_replicate, h2]
    · simp [List.getElem?_replicate, h2]

theorem mapGet_mapInsert (m : Map Bytes) (k v k' : Bytes) :
    mapGet (mapInsert m k v) k' = if k = k' then some v else mapGet m k' := by
  induction m with
  | nil =>
    simp only [mapInsert, mapGet_cons, mapGet_nil]
    by_cases h : k = k' <;> simp [h]
  | cons p r ih =>
    obtain ⟨a, b⟩ := p
    simp only [mapInsert]
    by_cases ha : a = k
    · subst ha
      simp only [BEq.rfl, ↓reduceIte, mapGet_cons]
      by_cases h : a = k' <;> simp [h]
    · have hak : (a == k) = false := by simpa using ha
      simp only [hak, Bool.false_eq_true, ↓reduceIte, mapGet_cons, ih]
      by_cases h : a = k'
      · have : ¬ k = k' := fun e => ha (h.trans e.symm)
        simp [h, this]
      · have : (a == k') = false := by simpa using h
        simp [this]

theorem addField_length (pd : List (Map Bytes)) (id : Nat) (kind v : Bytes) :
    (addField pd id kind v).length = max pd.length (id + 1) := by
  unfold addField
  simp only [modifyAt_length]
  split
  · simp only [List.length_append, List.length_replicate]; omega
  · omega

/-- what `players_data[id].insert(kind, value)` (with the growth before it) does to lookups -/
theorem mapGet_addField (pd : List (Map Bytes)) (id : Nat) (kind v : Bytes) (i : Nat) (kind' : Bytes) :
    mapGet ((addField pd id kind v).getD i []) kind'
      = if i = id ∧ kind = kind' then some v else mapGet (pd.getD i []) kind' := by
  unfold addField
  simp only
  rw [getD_modifyAt]
  split
  · rename_i hge
    have hlen : id < (pd ++ List.replicate (id - pd.length + 1) ([] : Map Bytes)).length := by
      simp only [List.length_append, List.length_replicate]; omega
    by_cases hi : i = id
    · subst hi
      simp only [hlen, and_self, ↓reduceIte, true_and, getD_append_replicate_nil, mapGet_mapInsert]
    · simp only [hi, false_and, ↓reduceIte, getD_append_replicate_nil]
  · rename_i hlt
    have hlen : id < pd.length := by omega
    by_cases hi : i = id
    · subst hi
      simp only [hlen, and_self, ↓reduceIte, true_and, mapGet_mapInsert]
    · simp only [hi, false_and, ↓reduceIte]

/-- the table built from the player fields of a list of entries -/
def pdStep (pd : List (Map Bytes)) (e : Bytes × Bytes) : List (Map Bytes) :=
  match playerField e.1 with
  | some (kind, id) => addField pd id kind e.2
  | none => pd

/-- when every player index is in range, `retain` keeps the other entries, in order, flags nothing
and builds the table -/
theorem retain_fold (N : Nat) : ∀ (E : Map Bytes) (st : Retain),
    (∀ e ∈ E, ∀ k id, playerField e.1 = some (k, id) → id < N) →
    E.foldl (retainStep N) st
      = ⟨st.kept ++ E.filter (fun e => (playerField e.1).isNone), E.foldl pdStep st.pd, st.outOfRange⟩ := by
  intro E
  induction E with
  | nil => intro st _; simp
  | cons e r ih =>
    intro st h
    simp only [List.foldl_cons]
    rw [ih _ (fun x hx => h x (by simp [hx]))]
    cases hpf : playerField e.1 with
    | none => simp [retainStep, pdStep, hpf, List.filter_cons]
    | some t =>
      obtain ⟨k, id⟩ := t
      have hlt := h e (by simp) k id hpf
      have hge : ¬ id ≥ N := by omega
      simp [retainStep, pdStep, hpf, hge, List.filter_cons]

/-- entries that do not carry the tag `(kind, i)` leave that cell alone -/
theorem pdFold_other (kind : Bytes) (i : Nat) : ∀ (E : Map Bytes) (pd : List (Map Bytes)),
    (∀ e ∈ E, playerField e.1 ≠ some (kind, i)) →
    mapGet ((E.foldl pdStep pd).getD i []) kind = mapGet (pd.getD i []) kind := by
  intro E
  induction E with
  | nil => intro pd _; rfl
  | cons e r ih =>
    intro pd h
    simp only [List.foldl_cons]
    rw [ih _ (fun x hx => h x (by simp [hx]))]
    have he := h e (by simp)
    unfold pdStep
    cases hpf : playerField e.1 with
    | none => rfl
    | some t =>
      obtain ⟨k, id⟩ := t
      simp only
      rw [mapGet_addField]
      have : ¬ (i = id ∧ k = kind) := by
        rintro ⟨rfl, rfl⟩
        exact he hpf
      simp [this]

/-- no two entries carry the same tag -/
def TagUnique (E : Map Bytes) : Prop :=
  E.Pairwise (fun a b => ∀ t, playerField a.1 = some t → playerField b.1 ≠ some t)

/-- the entry that carries the tag `(kind, i)` fills that cell -/
theorem pdFold_tagged (kind : Bytes) (i : Nat) : ∀ (E : Map Bytes) (pd : List (Map Bytes)), TagUnique E →
    ∀ e ∈ E, playerField e.1 = some (kind, i) → mapGet ((E.foldl pdStep pd).getD i []) kind = some e.2 := by
  intro E
  induction E with
  | nil => intro _ _ e he; cases he
  | cons x r ih =>
    intro pd hu e he hpf
    have hu' := List.pairwise_cons.mp hu
    simp only [List.foldl_cons]
    rcases List.mem_cons.mp he with rfl | her
    · rw [pdFold_other kind i r _ (fun z hz => hu'.1 z hz _ hpf)]
      simp only [pdStep, hpf, mapGet_addField, and_self, ↓reduceIte]
    · exact ih _ hu'.2 e her hpf

theorem pdStep_length_le (pd : List (Map Bytes)) (e : Bytes × Bytes) : pd.length ≤ (pdStep pd e).length := by
  unfold pdStep
  split
  · rw [addField_length]; omega
  · exact Nat.le_refl _

theorem pdFold_length_mono : ∀ (E : Map Bytes) (pd : List (Map Bytes)), pd.length ≤ (E.foldl pdStep pd).length := by
  intro E
  induction E with
  | nil => intro pd; exact Nat.le_refl _
  | cons e r ih => intro pd; exact Nat.le_trans (pdStep_length_le pd e) (ih _)

/-- an entry with index `id` makes the table longer than `id` -/
theorem pdFold_length_gt : ∀ (E : Map Bytes) (pd : List (Map Bytes)) (e : Bytes × Bytes), e ∈ E →
    ∀ k id, playerField e.1 = some (k, id) → id < (E.foldl pdStep pd).length := by
  intro E
  induction E with
  | nil => intro _ e he; cases he
  | cons x r ih =>
    intro pd e he k id hpf
    simp only [List.foldl_cons]
    rcases List.mem_cons.mp he with rfl | her
    · have : id < (pdStep pd e).length := by
        simp only [pdStep, hpf, addField_length]; omega
      exact Nat.lt_of_lt_of_le this (pdFold_length_mono r _)
    · exact ih _ e her k id hpf

/-- the table is no longer than the largest index requires -/
theorem pdFold_length_le (N : Nat) : ∀ (E : Map Bytes) (pd : List (Map Bytes)), pd.length ≤ N →
    (∀ e ∈ E, ∀ k id, playerField e.1 = some (k, id) → id < N) → (E.foldl pdStep pd).length ≤ N := by
  intro E
  induction E with
  | nil => intro pd h _; exact h
  | cons x r ih =>
    intro pd h hall
    simp only [List.foldl_cons]
    apply ih
    · unfold pdStep
      cases hpf : playerField x.1 with
      | none => exact h
      | some t =>
        obtain ⟨k, id⟩ := t
        have := hall x (by simp) k id hpf
        simp only [addField_length]; omega
    · exact fun e he => hall e (by simp [he])

/-! ### one player's variables as a table -/

/-- the kinds of field with the text sent for them -/
def kskeleton (y : Style) (p : Player) : List (Bytes × Option Bytes) :=
  [(bs (if y.nameLong then "playername" else "player"), some p.name),
   (bs "frags", some (padding y ++ decInt p.score)),
   (bs "ping", some (padding y ++ dec p.ping)),
   (bs "team", p.team.map fun t => padding y ++ dec t),
   (bs "mesh", p.mesh), (bs "skin", p.skin), (bs "face", p.face),
   (bs "ngsecret", p.secret.map (boolText y.boolUpper)),
   (bs "deaths", p.deaths.map fun t => padding y ++ dec t),
   (bs "health", p.health.map fun t => padding y ++ dec t)]

/-- `kind ↦ kind_i` on the keys -/
def rekey (i : Nat) (m : List (Bytes × Bytes)) : List (Bytes × Bytes) := m.map fun e => (fieldKeyB e.1 i, e.2)

theorem rekey_append (i : Nat) (a b : List (Bytes × Bytes)) : rekey i (a ++ b) = rekey i a ++ rekey i b := by
  simp [rekey]

theorem optPair_rekey {α : Type} (kind : String) (i : Nat) (f : α → Bytes) (o : Option α) :
    optPair (fieldKey kind i) f o = rekey i (present [(bs kind, o.map f)]) := by
  cases o <;> rfl

theorem playerPairs_eq (y : Style) (i : Nat) (p : Player) : playerPairs y i p = rekey i (present (kskeleton y p)) := by
  unfold playerPairs
  rw [optPair_rekey, optPair_rekey, optPair_rekey, optPair_rekey, optPair_rekey, optPair_rekey, optPair_rekey]
  have h3 : [(fieldKey (if y.nameLong then "playername" else "player") i, p.name),
      (fieldKey "frags" i, padding y ++ decInt p.score), (fieldKey "ping" i, padding y ++ dec p.ping)]
      = rekey i (present [(bs (if y.nameLong then "playername" else "player"), some p.name),
          (bs "frags", some (padding y ++ decInt p.score)), (bs "ping", some (padding y ++ dec p.ping))]) := rfl
  rw [h3, ← rekey_append, ← rekey_append, ← rekey_append, ← rekey_append, ← rekey_append, ← rekey_append, ← rekey_append,
    ← present_append, ← present_append, ← present_append, ← present_append, ← present_append, ← present_append,
    ← present_append]
  simp [kskeleton]

theorem mapGet_rekey (i : Nat) (m : List (Bytes × Bytes)) (k : Bytes) :
    mapGet (rekey i m) (fieldKeyB k i) = mapGet m k := by
  induction m with
  | nil => rfl
  | cons e r ih =>
    simp only [rekey, List.map_cons, mapGet_cons] at ih ⊢
    by_cases h : e.1 = k
    · simp [h]
    · have h1 : (e.1 == k) = false := by simpa using h
      have h2 : (fieldKeyB e.1 i == fieldKeyB k i) = false := by
        simp only [beq_eq_false_iff_ne, ne_eq]
        exact fun e' => h (fieldKeyB_inj_kind e')
      simp only [h1, h2, Bool.false_eq_true, ↓reduceIte]
      exact ih

theorem kskeleton_keys (y : Style) (p : Player) : (kskeleton y p).map (·.1) = kindList y.nameLong := by
  simp [kskeleton, kindList]

theorem mapGet_playerPairs (y : Style) (i : Nat) (p : Player) (k : Bytes) :
    mapGet (playerPairs y i p) (fieldKeyB k i) = tableGet (kskeleton y p) k := by
  rw [playerPairs_eq, mapGet_rekey]
  exact mapGet_present _ (by rw [kskeleton_keys]; exact (kindList_facts y.nameLong).1) k

theorem mem_playersPairsFrom (y : Style) : ∀ (ps : List Player) (j : Nat) (q : Bytes × Bytes),
    q ∈ playersPairsFrom y j ps ↔ ∃ m p, ps[m]? = some p ∧ q ∈ playerPairs y (j + m) p := by
  intro ps
  induction ps with
  | nil => intro j q; simp [playersPairsFrom]
  | cons p r ih =>
    intro j q
    simp only [playersPairsFrom, List.mem_append, ih]
    constructor
    · rintro (h | ⟨m, p', hm, hq⟩)
      · exact ⟨0, p, rfl, by simpa using h⟩
      · exact ⟨m + 1, p', by simpa using hm, by rw [show j + (m + 1) = j + 1 + m by omega]; exact hq⟩
    · rintro ⟨m, p', hm, hq⟩
      cases m with
      | zero =>
        simp only [List.getElem?_cons_zero, Option.some.injEq] at hm
        subst hm
        exact Or.inl (by simpa using hq)
      | succ m =>
        exact Or.inr ⟨m, p', by simpa using hm, by rw [show j + 1 + m = j + (m + 1) by omega]; exact hq⟩

/-- the cells of the table `extract_players` builds from any list `E` that holds the variables of a
well-formed state (at least the players' ones, at most all) with distinct keys: player `i`'s cell
answers like the table of what was sent for player `i` -/
theorem cell_lookup {y : Style} {st : State} (h : Wf y st) (E : Map Bytes)
    (hsub : ∀ e ∈ E, e ∈ allPairs y st) (hsup : ∀ q ∈ playersPairsFrom y 0 st.players, q ∈ E) (hd : Distinct E)
    (i : Nat) (p : Player) (hp : st.players[i]? = some p) (k : Bytes) :
    mapGet ((E.foldl pdStep []).getD i []) k = tableGet (kskeleton y p) k := by
  have hnp := h.nplayers
  have hilt : i < st.players.length := by
    have := List.getElem?_eq_some_iff.mp hp
    exact this.1
  -- tags determine keys inside `allPairs`
  have htag : ∀ e ∈ E, ∀ t, playerField e.1 = some t → e.1 = fieldKeyB t.1 t.2 ∧ t.1 ∈ kindList y.nameLong
      ∧ e ∈ playersPairsFrom y 0 st.players := by
    intro e he t ht
    rcases playerField_allPairs h (hsub e he) with ⟨hn, _⟩ | ⟨k', hk', n, _, e1, e2, e3⟩
    · rw [hn] at ht; cases ht
    · rw [e2] at ht
      cases ht
      exact ⟨e1, hk', e3⟩
  have hu : TagUnique E := by
    refine List.Pairwise.imp_of_mem ?_ hd
    intro a b ha hb hab t hta htb
    exact hab ((htag a ha t hta).1.trans (htag b hb t htb).1.symm)
  by_cases hex : ∃ e ∈ E, playerField e.1 = some (k, i)
  · obtain ⟨e, he, hpf⟩ := hex
    rw [pdFold_tagged k i E [] hu e he hpf]
    obtain ⟨hkey, hkind, hmem⟩ := htag e he (k, i) hpf
    obtain ⟨m, p', hm, hq⟩ := (mem_playersPairsFrom y st.players 0 e).mp hmem
    obtain ⟨k2, hk2, e2⟩ := playerPairs_key y (0 + m) p' hq
    have hmlt : m < st.players.length := (List.getElem?_eq_some_iff.mp hm).1
    have := fieldKeyB_inj hkind hk2 (by omega) (by omega) (hkey.symm.trans e2)
    simp only at this
    have hmi : m = i := by omega
    subst hmi
    rw [hp] at hm
    cases hm
    rw [← mapGet_playerPairs y m p k]
    have hq' : (fieldKeyB k m, e.2) ∈ playerPairs y m p := by
      have : e = (fieldKeyB k m, e.2) := by rw [← hkey]
      rw [← this]; simpa using hq
    exact (mapGet_of_mem (distinct_playerPairs y m p) hq').symm
  · have hno : ∀ e ∈ E, playerField e.1 ≠ some (k, i) := fun e he hpf => hex ⟨e, he, hpf⟩
    rw [pdFold_other k i E [] hno]
    simp only [List.getD_eq_getElem?_getD, List.getElem?_nil, Option.getD_none, mapGet_nil]
    rw [← mapGet_playerPairs y i p k]
    cases hv : mapGet (playerPairs y i p) (fieldKeyB k i) with
    | none => rfl
    | some v =>
      exfalso
      have hmem := hasKey_of_mapGet hv
      have hin : (fieldKeyB k i, v) ∈ playersPairsFrom y 0 st.players :=
        (mem_playersPairsFrom y st.players 0 _).mpr ⟨i, p, hp, by simpa using hmem⟩
      obtain ⟨k2, hk2, e2⟩ := playerPairs_key y i p hmem
      simp only at e2
      have hkk : k = k2 := fieldKeyB_inj_kind e2
      have f := (kindList_facts y.nameLong).2 k2 hk2
      apply hno _ (hsup _ hin)
      simp only
      rw [hkk]
      exact playerField_fieldKeyB k2 i f.2.1 f.2.2 (by omega)

/-! ### decoding one player -/

theorem trimParseU_padded (y : Style) (bits n : Nat) (h : n < 2 ^ bits) : trimParseU bits (padding y ++ dec n) = .ok n := by
  unfold trimParseU padding
  rw [trimUtf8_padded _ _ (dec_plain n), parseUnsigned_dec bits n h]
  rfl

theorem trimParseI_padded (y : Style) (i : Int) (hlo : -(2 ^ 31 : Int) ≤ i) (hhi : i < 2 ^ 31) :
    trimParseI 32 (padding y ++ decInt i) = .ok i := by
  unfold trimParseI padding
  rw [trimUtf8_padded _ _ (decInt_plain i), parseSigned_decInt 32 (by omega) i (by simpa using hlo) (by simpa using hhi)]
  rfl

theorem optField_map {α β : Type} (o : Option α) (f : α → Bytes) (g : Bytes → Res β) (r : α → β)
    (h : ∀ v, o = some v → g (f v) = .ok (r v)) : optField (o.map f) g = .ok (o.map r) := by
  cases o with
  | none => rfl
  | some v => simp [optField, h v rfl]

theorem parseBoolLower_boolText (u b : Bool) : parseBoolLower (boolText u b) = some b := by
  cases u <;> cases b <;> decide +kernel

/-- a cell that answers like the table of what was sent for `p` decodes to `p` -/
theorem buildPlayer_cell (y : Style) (p : Player) (d : Map Bytes)
    (hcell : ∀ k, mapGet d k = tableGet (kskeleton y p) k)
    (hnum : (∀ v, p.team = some v → v < 2 ^ 8) ∧ p.ping < 2 ^ 16 ∧ (-(2 ^ 31 : Int) ≤ p.score)
      ∧ (p.score < 2 ^ 31) ∧ (∀ v, p.deaths = some v → v < 2 ^ 32) ∧ (∀ v, p.health = some v → v < 2 ^ 32)) :
    buildPlayer d = .ok p := by
  obtain ⟨hteam, hping, hlo, hhi, hdeaths, hhealth⟩ := hnum
  have ab : ∀ s : String, asciiBytes s = bs s := fun _ => rfl
  unfold buildPlayer
  simp only [ab, hcell]
  have eteam : tableGet (kskeleton y p) (bs "team") = p.team.map (fun t => padding y ++ dec t) := by
    cases hl : y.nameLong <;> simp (config := { decide := true }) [tableGet, kskeleton, hl]
  have eping : tableGet (kskeleton y p) (bs "ping") = some (padding y ++ dec p.ping) := by
    cases hl : y.nameLong <;> simp (config := { decide := true }) [tableGet, kskeleton, hl]
  have efrags : tableGet (kskeleton y p) (bs "frags") = some (padding y ++ decInt p.score) := by
    cases hl : y.nameLong <;> simp (config := { decide := true }) [tableGet, kskeleton, hl]
  have edeaths : tableGet (kskeleton y p) (bs "deaths") = p.deaths.map (fun t => padding y ++ dec t) := by
    cases hl : y.nameLong <;> simp (config := { decide := true }) [tableGet, kskeleton, hl]
  have ehealth : tableGet (kskeleton y p) (bs "health") = p.health.map (fun t => padding y ++ dec t) := by
    cases hl : y.nameLong <;> simp (config := { decide := true }) [tableGet, kskeleton, hl]
  have esecret : tableGet (kskeleton y p) (bs "ngsecret") = p.secret.map (boolText y.boolUpper) := by
    cases hl : y.nameLong <;> simp (config := { decide := true }) [tableGet, kskeleton, hl]
  have eface : tableGet (kskeleton y p) (bs "face") = p.face := by
    cases hl : y.nameLong <;> simp (config := { decide := true }) [tableGet, kskeleton, hl]
  have eskin : tableGet (kskeleton y p) (bs "skin") = p.skin := by
    cases hl : y.nameLong <;> simp (config := { decide := true }) [tableGet, kskeleton, hl]
  have emesh : tableGet (kskeleton y p) (bs "mesh") = p.mesh := by
    cases hl : y.nameLong <;> simp (config := { decide := true }) [tableGet, kskeleton, hl]
  have eplayer : tableGet (kskeleton y p) (bs "player") = if y.nameLong then none else some p.name := by
    cases hl : y.nameLong <;> simp (config := { decide := true }) [tableGet, kskeleton, hl]
  have eplayername : tableGet (kskeleton y p) (bs "playername") = if y.nameLong then some p.name else none := by
    cases hl : y.nameLong <;> simp (config := { decide := true }) [tableGet, kskeleton, hl]
  rw [eplayer, eplayername, eteam, eping, efrags, edeaths, ehealth, esecret, eface, eskin, emesh]
  rw [optField_map p.team _ (trimParseU 8) id (fun v hv => trimParseU_padded y 8 v (hteam v hv)),
    optField_map p.deaths _ (trimParseU 32) id (fun v hv => trimParseU_padded y 32 v (hdeaths v hv)),
    optField_map p.health _ (trimParseU 32) id (fun v hv => trimParseU_padded y 32 v (hhealth v hv)),
    optField_map p.secret _ _ id (fun v _ => by rw [parseBoolLower_boolText]; rfl)]
  cases hl : y.nameLong <;>
    simp only [okOr, Res.bind_ok, trimParseU_padded y 16 p.ping hping, trimParseI_padded y p.score hlo hhi,
      Option.map_id_fun, id_eq, Res.pure_eq, Bool.false_eq_true, ↓reduceIte]

theorem buildPlayers_eq : ∀ (pd : List (Map Bytes)) (ps : List Player), pd.length = ps.length →
    (∀ i p, ps[i]? = some p → buildPlayer (pd.getD i []) = .ok p) → buildPlayers pd = .ok ps := by
  intro pd
  induction pd with
  | nil =>
    intro ps hl _
    cases ps with
    | nil => rfl
    | cons _ _ => simp at hl
  | cons d r ih =>
    intro ps hl h
    cases ps with
    | nil => simp at hl
    | cons p ps' =>
      have h0 := h 0 p rfl
      simp only [List.getD_eq_getElem?_getD, List.getElem?_cons_zero, Option.getD_some] at h0
      have hr := ih ps' (by simpa using hl) (fun i q hq => by
        have := h (i + 1) q (by simpa using hq)
        simpa using this)
      simp only [buildPlayers, h0, hr, Res.bind_ok, Res.pure_eq]

/-! ### `extract_players` on the variables of a well-formed state -/

theorem playerPairs_name_mem (y : Style) (i : Nat) (p : Player) :
    (fieldKeyB (bs (if y.nameLong then "playername" else "player")) i, p.name) ∈ playerPairs y i p := by
  simp [playerPairs, fieldKey_eq]

theorem extractPlayers_eq {y : Style} {st : State} (h : Wf y st) (E : Map Bytes)
    (hsub : ∀ e ∈ E, e ∈ allPairs y st) (hsup : ∀ q ∈ playersPairsFrom y 0 st.players, q ∈ E) (hd : Distinct E) :
    extractPlayers E = .ok (st.players, E.filter (fun e => (playerField e.1).isNone)) := by
  have hnp := h.nplayers
  -- every player has a name entry, with its tag
  have hname : ∀ i p, st.players[i]? = some p →
      ∃ e ∈ E, playerField e.1 = some (bs (if y.nameLong then "playername" else "player"), i) := by
    intro i p hp
    have hi : i < st.players.length := (List.getElem?_eq_some_iff.mp hp).1
    refine ⟨_, hsup _ ((mem_playersPairsFrom y st.players 0 _).mpr ⟨i, p, hp, by simpa using playerPairs_name_mem y i p⟩), ?_⟩
    have f := (kindList_facts y.nameLong).2 (bs (if y.nameLong then "playername" else "player")) (by simp [kindList])
    exact playerField_fieldKeyB _ i f.2.1 f.2.2 (by omega)
  -- tags are below the number of players
  have htag : ∀ e ∈ E, ∀ k id, playerField e.1 = some (k, id) → id < st.players.length := by
    intro e he k id hpf
    rcases playerField_allPairs h (hsub e he) with ⟨hn, _⟩ | ⟨k', _, n, hn, _, e2, _⟩
    · rw [hn] at hpf; cases hpf
    · rw [e2] at hpf; cases hpf; exact hn
  -- there are at least as many entries as players
  have hlen : st.players.length ≤ E.length := by
    cases hn : st.players.length with
    | zero => omega
    | succ n =>
      have hlast : n < st.players.length := by omega
      obtain ⟨e, he, hpf⟩ := hname n st.players[n] (List.getElem?_eq_getElem hlast)
      -- the names of players 0..n are n+1 different entries
      have hinj : ∀ i, i < st.players.length → ∃ e ∈ E, playerField e.1 = some (bs (if y.nameLong then "playername" else "player"), i) :=
        fun i hi => hname i st.players[i] (List.getElem?_eq_getElem hi)
      -- pigeonhole through the (injective) tags
      let tagOf : Bytes × Bytes → Nat := fun e => match playerField e.1 with
        | some (_, id) => id + 1
        | none => 0
      have hsubset : (List.range' 1 st.players.length) ⊆ E.map tagOf := by
        intro t ht
        rw [List.mem_range'_1] at ht
        obtain ⟨e, he, hpf⟩ := hinj (t - 1) (by omega)
        refine List.mem_map.mpr ⟨e, he, ?_⟩
        simp only [tagOf, hpf]
        omega
      have := (List.nodup_range' (s := 1) (n := st.players.length)).length_le_of_subset hsubset
      simpa [hn] using this
  unfold extractPlayers
  simp only
  rw [retain_fold E.length E ⟨[], [], false⟩ (fun e he k id hpf => Nat.lt_of_lt_of_le (htag e he k id hpf) hlen)]
  simp only [Bool.false_eq_true, ↓reduceIte, List.nil_append]
  have hpdlen : (E.foldl pdStep []).length = st.players.length := by
    apply Nat.le_antisymm
    · exact pdFold_length_le _ E [] (by simp) htag
    · cases hn : st.players.length with
      | zero => omega
      | succ n =>
        have hlast : n < st.players.length := by omega
        obtain ⟨e, he, hpf⟩ := hname n st.players[n] (List.getElem?_eq_getElem hlast)
        have := pdFold_length_gt E [] e he _ _ hpf
        omega
  rw [buildPlayers_eq _ st.players hpdlen (fun i p hp =>
    buildPlayer_cell y p _ (cell_lookup h E hsub hsup hd i p hp) (h.playersNum p (List.mem_of_getElem? hp)))]

end Gd.Gs1
