import GdVerif.Proto.Gs3
/-
  GameSpy 3: the field-section reader as it was BEFORE the repair `fix: GameSpy 3 values of a field the
  reader has no place for were read again as field names`.  Kept only to state, as a kernel-checked
  witness (Props/C04_gs3.lean), what that reader did with an extra column whose value happens to be a
  typed field name.  Everything except `afterName` is the current model.
-/
namespace Gd.Gs3.Legacy
open Gd Gd.Gs3

/-- the first piece must be a known field, else `continue`: the offset byte and the values of the
section then go through the section loop as if they were field names -/
def afterName (t : Tables) (pieces : List Bytes) : Par Tables :=
  match pieces.head? with
  | none => Par.fail .packetBad
  | some name =>
    if !knownFields.contains name then pure t
    else readField t pieces name

def readSection (t : Tables) : Par Tables := do
  let field ← readCStr
  if field.isEmpty then pure t
  else afterName t (splitOn 0x5F field)

def sectionStep (t : Tables) : Par Tables := do
  let first ← readU8
  if first < 3 then pure t
  else do
    moveCursor (-1)
    readSection t

def readSections (t : Tables) : Par Tables := do
  let rem ← remainingLength
  whileRemaining sectionStep (rem + 1) t

def readAllSections : Tables → List Bytes → Res Tables
  | t, [] => .ok t
  | t, p :: r => do
    let t' ← (readSections t).run p
    readAllSections t' r

def parsePlayersAndTeams (packets : List Bytes) : Res (List Player × List Team) := do
  let t ← readAllSections Tables.init packets
  let players ← mkRows mkPlayer t.players
  let teams ← mkRows mkTeam t.teams
  pure (players, teams)

def buildResponse (packets : List Bytes) : Res Response := do
  let first ← okOr packets.head? .packetBad
  let (vars, remaining) ← dataToMap first
  let (players, teams) ← parsePlayersAndTeams (remaining :: packets.drop 1)
  buildFields vars players teams

end Gd.Gs3.Legacy
