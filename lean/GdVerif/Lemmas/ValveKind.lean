import GdVerif.Lemmas.SmallLogic
import GdVerif.Lemmas.ValveSafe
/-
  `Lemmas/ValveSafe.lean` proves crash freedom / conformance of the Valve request machinery for the three A2S
  request kinds and the fixed event predicate `Valve.EvOk`.  Games that drive `ValveProtocol::get_request_data`
  with their own kind and payload (FFOW: kind 0x46, "LSQ") need the same facts for ANY kind, payload and event
  predicate.  This file states them in that generality, reusing ValveSafe's parser lemmas, `afterFirst`,
  `receive_eq`, `assemble_ne` and `receive_consumes`; the ValveSafe versions are the instances `P := EvOk s`.
-/
namespace Gd.Valve
open Gd

section
variable (ext : Ext) (s : Sock) (P : Ev → Prop) (hrecv : ∀ got, P (.recv s.id (some PACKET_SIZE) got))
include hrecv

theorem qsafe_recvP : QSafe s P (recv s (some PACKET_SIZE)) := QSafe.recv s _ _ hrecv

theorem qsafe_recvChunksP (engine : Engine) (protocol : Nat) (n : Nat) :
    QSafe s P (recvChunks s engine protocol n) := by
  induction n with
  | zero => exact QSafe.pure _ _ _
  | succ n ih =>
    unfold recvChunks
    exact QSafe.bind (qsafe_recvP s P hrecv) fun _ => QSafe.bind (QSafe.parse _ _ (safe_splitPacketNew _ _) _) fun _ =>
      QSafe.bind ih fun _ => QSafe.pure _ _ _

theorem qsafe_afterFirstP (engine : Engine) (protocol : Nat) (data : Bytes) :
    QSafe s P (afterFirst ext s engine protocol data) := by
  unfold afterFirst
  refine QSafe.bind (QSafe.parse _ _ safe_readU8 _) fun header => ?_
  split
  · exact QSafe.bind (QSafe.parse _ _ (safe_splitPacketNew _ _) _) fun _ =>
      QSafe.bind (qsafe_recvChunksP s P hrecv _ _ _) fun _ =>
      QSafe.bind (QSafe.lift _ _ _ (assemble_ne _ _)) fun _ => QSafe.parse _ _ safe_packetFromBuffer _
  · exact QSafe.parse _ _ safe_packetFromBuffer _

theorem qsafe_receiveP (engine : Engine) (protocol : Nat) : QSafe s P (receive ext s engine protocol) := by
  rw [receive_eq]
  exact QSafe.bind (qsafe_recvP s P hrecv) fun _ => qsafe_afterFirstP ext s P hrecv _ _ _

/-- the challenge loop for any request kind: fuel from the queued deliveries suffices, every send is the
request of that kind carrying the challenge just received -/
theorem qsafe_challengeLoopP (hudp : s.tcp = false) (engine : Engine) (protocol kind : Nat)
    (hsend : ∀ c failed, P (.send s.id s.port (packetBytes kind (if kind == 0x54 then infoPayload ++ c else c)) failed)) :
    ∀ (fuel : Nat) (packet : Packet) (w : Net), IsOpen s w → qlen w s.id < fuel →
      (challengeLoop ext s engine protocol kind fuel packet w).1 ≠ .crash
      ∧ Step P w (challengeLoop ext s engine protocol kind fuel packet w).2 := by
  intro fuel
  induction fuel with
  | zero => intro _ w _ h; omega
  | succ fuel ih =>
    intro packet w hopen hq
    unfold challengeLoop
    split
    · have hsnd := QSafe.send s P
        (packetBytes kind (if kind == 0x54 then infoPayload ++ packet.payload else packet.payload))
        (fun f => hsend packet.payload f) w hopen
      rw [Q.bind_apply]
      cases hs : send s (packetBytes kind (if kind == 0x54 then infoPayload ++ packet.payload else packet.payload)) w with
      | mk res w1 =>
        rw [hs] at hsnd
        cases res with
        | crash => exact absurd rfl hsnd.1
        | err k => exact ⟨by simp, hsnd.2⟩
        | ok u =>
          simp only
          have hopen1 := hopen.step hsnd.2
          have hrcv := qsafe_receiveP ext s P hrecv engine protocol w1 hopen1
          rw [Q.bind_apply]
          cases hr : receive ext s engine protocol w1 with
          | mk res2 w2 =>
            rw [hr] at hrcv
            cases res2 with
            | crash => exact absurd rfl hrcv.1
            | err k => exact ⟨by simp, hsnd.2.trans hrcv.2⟩
            | ok p2 =>
              simp only
              have hcons := receive_consumes ext s hudp engine protocol w1 w2 p2 hopen1 hr
              have hle := hsnd.2.shrink s.id hopen
              simp only at hle
              obtain ⟨h3, h4⟩ := ih p2 w2 (hopen1.step hrcv.2) (by omega)
              exact ⟨h3, (hsnd.2.trans hrcv.2).trans h4⟩
    · exact ⟨by simp, Step.refl _ _⟩

/-- `get_request_data_impl` for any kind and payload -/
theorem qsafe_requestImplP (hudp : s.tcp = false) (engine : Engine) (protocol kind : Nat) (payload : Bytes)
    (hsend0 : ∀ failed, P (.send s.id s.port (packetBytes kind payload) failed))
    (hsend : ∀ c failed, P (.send s.id s.port (packetBytes kind (if kind == 0x54 then infoPayload ++ c else c)) failed)) :
    QSafe s P (requestImpl ext s engine protocol kind payload) := by
  unfold requestImpl
  refine QSafe.bind (QSafe.send s _ _ hsend0) fun _ => ?_
  refine QSafe.bind (qsafe_receiveP ext s P hrecv engine protocol) fun packet => ?_
  intro w hopen
  exact qsafe_challengeLoopP ext s P hrecv hudp engine protocol kind hsend (queued s w + 1) packet w hopen (by
    simp [queued, qlen])

end

/-! ### a reply that arrives in one datagram -/

theorem decodesEnd_remainingBytes (e : Bytes) : DecodesEnd remainingBytes e e := by
  intro b hr
  exact ⟨b, by simp [remainingBytes, hr], rfl⟩

theorem run_packetFromBuffer (kind : UInt8) (body : Bytes) :
    packetFromBuffer.run ([0xFF, 0xFF, 0xFF, 0xFF] ++ [kind] ++ body) = .ok ⟨0xFFFFFFFF, kind.toNat, body⟩ := by
  have h : DecodesEnd packetFromBuffer ([0xFF, 0xFF, 0xFF, 0xFF] ++ [kind] ++ body) ⟨0xFFFFFFFF, kind.toNat, body⟩ := by
    unfold packetFromBuffer
    refine DecodesEnd.bind (e1 := [0xFF, 0xFF, 0xFF, 0xFF]) (e2 := [kind] ++ body)
      (by simpa [natLE] using decodes_le 4 0xFFFFFFFF (by decide)) ?_ (by simp)
    refine DecodesEnd.bind (decodes_readU8 kind) ?_ rfl
    exact DecodesEnd.bind_pure (decodesEnd_remainingBytes body) (fun _ => rfl)
  exact h.run

theorem run_readU8_header (kind : UInt8) (body : Bytes) :
    readU8.run ([0xFF, 0xFF, 0xFF, 0xFF] ++ [kind] ++ body) = .ok 0xFF := by
  have := (decodes_readU8 0xFF).run_append ([0xFF, 0xFF, 0xFF] ++ [kind] ++ body)
  simpa using this

/-- `receive` on a single (unsplit) datagram `FFFFFFFF kind body` that fits the buffer -/
theorem receive_single (ext : Ext) (s : Sock) (hudp : s.tcp = false) (engine : Engine) (protocol : Nat)
    (kind : UInt8) (body : Bytes) (w : Net) (rest : List Delivery)
    (hq : w.conns.getD s.id [] = .data ([0xFF, 0xFF, 0xFF, 0xFF] ++ [kind] ++ body) :: rest)
    (hlen : ([0xFF, 0xFF, 0xFF, 0xFF] ++ [kind] ++ body).length ≤ PACKET_SIZE) :
    receive ext s engine protocol w
      = (.ok ⟨0xFFFFFFFF, kind.toNat, body⟩,
         { w with conns := setAt w.conns s.id rest,
                  log := w.log ++ [.recv s.id (some PACKET_SIZE) (some ([0xFF, 0xFF, 0xFF, 0xFF] ++ [kind] ++ body).length)] }) := by
  have ht : ([0xFF, 0xFF, 0xFF, 0xFF] ++ [kind] ++ body : Bytes).take PACKET_SIZE = [0xFF, 0xFF, 0xFF, 0xFF] ++ [kind] ++ body :=
    List.take_of_length_le hlen
  rw [receive_eq, Q.bind_apply]
  simp only [recv, hq, hudp, Bool.false_eq_true, ↓reduceIte, Option.getD_some, ht]
  simp only [afterFirst, parse, run_readU8_header, run_packetFromBuffer]
  rfl

/-- one request answered at once by a single datagram `FFFFFFFF kind body` that is not a challenge: the request
is sent once, the reply's body is the result -/
theorem requestImpl_single (ext : Ext) (s : Sock) (hudp : s.tcp = false) (engine : Engine) (protocol : Nat)
    (reqKind : Nat) (payload : Bytes) (kind : UInt8) (hk : kind.toNat ≠ 0x41) (body : Bytes) (w : Net)
    (rest : List Delivery) (hf : w.faults = [])
    (hq : w.conns.getD s.id [] = .data ([0xFF, 0xFF, 0xFF, 0xFF] ++ [kind] ++ body) :: rest)
    (hlen : ([0xFF, 0xFF, 0xFF, 0xFF] ++ [kind] ++ body).length ≤ PACKET_SIZE) :
    requestImpl ext s engine protocol reqKind payload w
      = (.ok body,
         { w with conns := setAt w.conns s.id rest,
                  log := w.log ++ [.send s.id s.port (packetBytes reqKind payload) false,
                    .recv s.id (some PACKET_SIZE) (some ([0xFF, 0xFF, 0xFF, 0xFF] ++ [kind] ++ body).length)] }) := by
  have hs : send s (packetBytes reqKind payload) w
      = (.ok (), { w with log := w.log ++ [.send s.id s.port (packetBytes reqKind payload) false] }) := by
    simp [send, hf]
  have hr := receive_single ext s hudp engine protocol kind body
    { w with log := w.log ++ [.send s.id s.port (packetBytes reqKind payload) false] } rest hq hlen
  have hne : (kind.toNat == 0x41) = false := by simpa using hk
  simp only [requestImpl, bind, Q.bind', hs, hr]
  unfold challengeLoop
  simp [hne, List.append_assoc]

end Gd.Valve
