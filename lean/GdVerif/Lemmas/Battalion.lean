import GdVerif.Lemmas.ValveWhole
import GdVerif.Lemmas.Valve
import GdVerif.Spec.Battalion
/-
  Battalion 1944: crash freedom, conformance, and the rule overrides against the SPEC.
-/
namespace Gd.Battalion
open Gd Gd.Valve Gd.Valve.Spec

/-! ### crash freedom -/

theorem stepNum_ne (k : Bytes) (set : ServerInfo → Nat → ServerInfo) (x : ServerInfo × Rules) :
    stepNum k set x ≠ .crash := by
  unfold stepNum
  split
  · split <;> simp
  · simp

theorem overrides_ne (x : ServerInfo × Rules) : overrides x ≠ .crash := by
  unfold overrides
  have h1 := stepNum_ne kMaxPlayers (fun i n => { i with playersMaximum := n }) x
  cases hs1 : stepNum kMaxPlayers (fun i n => { i with playersMaximum := n }) x with
  | crash => exact absurd hs1 h1
  | err k => simp [bind, Res.bind]
  | ok x1 =>
    have h2 := stepNum_ne kPlayerCount (fun i n => { i with playersOnline := n }) x1
    cases hs2 : stepNum kPlayerCount (fun i n => { i with playersOnline := n }) x1 with
    | crash => exact absurd hs2 h2
    | err k => simp [bind, Res.bind, hs2]
    | ok x2 => simp [bind, Res.bind, hs2]

theorem applyOverrides_ne (r : Valve.Response) : applyOverrides r ≠ .crash := by
  unfold applyOverrides
  split
  · rename_i rules _
    have h := overrides_ne (r.info, rules)
    cases ho : overrides (r.info, rules) with
    | crash => exact absurd ho h
    | err k => simp [bind, Res.bind]
    | ok x => simp [bind, Res.bind]
  · simp

/-- crash freedom and conformance are the Valve query's: the overrides and the conversion do no I/O -/
theorem query_safe (ext : Ext) (port : Nat) (w : Net) :
    (query ext port w).1 ≠ .crash
    ∧ ∃ added, (query ext port w).2.log = w.log ++ added ∧ ∀ e ∈ added, QueryEvOk port w.conns.length e := by
  obtain ⟨h1, h2⟩ := Valve.query_safe ext port ENGINE Gather.default 0 w
  unfold query
  rw [Q.bind_apply]
  cases hq : Valve.query ext port ENGINE Gather.default 0 w with
  | mk res w' =>
    rw [hq] at h1 h2
    cases res with
    | ok r =>
      simp only
      rw [Q.bind_apply]
      have h3 := applyOverrides_ne r
      cases ha : applyOverrides r with
      | crash => exact absurd ha h3
      | err k => exact ⟨by simp [Q.lift, ha], by simpa [Q.lift, ha] using h2⟩
      | ok r' => exact ⟨by simp [Q.lift, ha], by simpa [Q.lift, ha] using h2⟩
    | err k => exact ⟨by simp, h2⟩
    | crash => exact absurd rfl h1

/-! ### the overrides -/

theorem mapRemove_of_get_none (rs : Rules) (k : Bytes) (h : get rs k = none) : mapRemove rs k = rs := by
  induction rs with
  | nil => rfl
  | cons p r ih =>
    simp only [get, List.find?_cons] at h
    cases hp : (p.1 == k) with
    | true => simp [hp] at h
    | false =>
      simp only [hp] at h
      have ih' := ih (by simpa [get] using h)
      simp only [mapRemove, List.filter_cons, bne, hp, Bool.not_false, ↓reduceIte]
      simp only [mapRemove, bne] at ih'
      rw [ih']

theorem find_filter {α : Type} (q f : α → Bool) (l : List α) (h : ∀ x, q x = true → f x = true) :
    (l.filter f).find? q = l.find? q := by
  induction l with
  | nil => rfl
  | cons a r ih =>
    cases hf : f a with
    | true =>
      rw [List.filter_cons_of_pos hf, List.find?_cons, List.find?_cons, ih]
    | false =>
      have hq : q a = false := by
        cases hqa : q a with
        | false => rfl
        | true => rw [h a hqa] at hf; exact absurd hf (by simp)
      rw [List.filter_cons_of_neg (by simp [hf]), List.find?_cons, hq, ih]

theorem get_mapRemove_ne (rs : Rules) (k k' : Bytes) (h : k ≠ k') : get (mapRemove rs k') k = get rs k := by
  unfold get mapRemove
  rw [find_filter]
  intro x hx
  have hxk : x.1 = k := eq_of_beq hx
  simp only [bne_iff_ne, ne_eq]
  rw [hxk]
  exact h

theorem digit_ne_plus (b : UInt8) (h : isDigit b = true) : b ≠ 43 := by
  intro e
  subst e
  exact absurd h (by decide)

theorem parseUnsigned_okNum (v : Bytes) (h : Battalion.Spec.okNum v = true) :
    parseUnsigned 8 v = some (Battalion.Spec.decimal v) := by
  simp only [Battalion.Spec.okNum, Bool.and_eq_true, Bool.not_eq_true', decide_eq_true_eq] at h
  obtain ⟨⟨hne, hall⟩, hlt⟩ := h
  have hd : digitsVal v = Battalion.Spec.decimal v := rfl
  cases v with
  | nil => simp at hne
  | cons b r =>
    have hb : b ≠ 43 := digit_ne_plus b (by simp only [List.all_cons, Bool.and_eq_true] at hall; exact hall.1)
    have hsp : stripPlus (b :: r) = b :: r := by
      unfold stripPlus
      split
      · rename_i r' heq
        injection heq with h1 _
        exact absurd h1 hb
      · rfl
    unfold parseUnsigned
    simp [hsp, hall, hd, hlt]

/-- apply a setter when the value is there (kept folded so that terms stay small) -/
def optSet {β : Type} (set : ServerInfo → β → ServerInfo) (i : ServerInfo) : Option β → ServerInfo
  | some v => set i v
  | none => i

theorem stepNum_eq (k : Bytes) (set : ServerInfo → Nat → ServerInfo) (i : ServerInfo) (rs : Rules)
    (h : (get rs k).all Battalion.Spec.okNum = true) :
    stepNum k set (i, rs) = .ok (optSet set i ((get rs k).map Battalion.Spec.decimal), mapRemove rs k) := by
  unfold stepNum
  cases hg : get rs k with
  | none => simp [mapRemove_of_get_none rs k hg, optSet]
  | some v =>
    have hv : Battalion.Spec.okNum v = true := by simpa [hg] using h
    simp [parseUnsigned_okNum v hv, optSet]

theorem stepVal_eq (k : Bytes) (set : ServerInfo → Bytes → ServerInfo) (i : ServerInfo) (rs : Rules) :
    stepVal k set (i, rs) = (optSet set i (get rs k), mapRemove rs k) := by
  unfold stepVal
  cases hg : get rs k with
  | none => simp [mapRemove_of_get_none rs k hg, optSet]
  | some v => rfl

theorem remove_all (rs : Rules) :
    mapRemove (mapRemove (mapRemove (mapRemove (mapRemove (mapRemove rs kMaxPlayers) kPlayerCount) kHasPassword) kName)
      kGamemode) kMap = rs.filter fun p => !Battalion.Spec.batKeys.contains p.1 := by
  simp only [mapRemove, List.filter_filter]
  congr 1
  funext p
  simp only [Battalion.Spec.batKeys, List.map_cons, List.map_nil, List.contains_cons, List.contains_nil,
    Bool.or_false, Bool.not_or, bne, kMaxPlayers, kPlayerCount, kHasPassword, kName, kGamemode, kMap]
  cases (p.1 == asciiBytes "bat_max_players_i") <;> cases (p.1 == asciiBytes "bat_player_count_s") <;>
    cases (p.1 == asciiBytes "bat_has_password_s") <;> cases (p.1 == asciiBytes "bat_name_s") <;>
    cases (p.1 == asciiBytes "bat_gamemode_s") <;> cases (p.1 == asciiBytes "bat_map_s") <;> rfl

/-- the five overrides in closed form -/
theorem overrides_eq (i : ServerInfo) (rs : Rules)
    (h1 : (get rs kMaxPlayers).all Battalion.Spec.okNum = true)
    (h2 : (get rs kPlayerCount).all Battalion.Spec.okNum = true) :
    overrides (i, rs)
      = .ok ({ i with
                playersMaximum := ((get rs kMaxPlayers).map Battalion.Spec.decimal).getD i.playersMaximum,
                playersOnline := ((get rs kPlayerCount).map Battalion.Spec.decimal).getD i.playersOnline,
                hasPassword := ((get rs kHasPassword).map (· == asciiBytes "Y")).getD i.hasPassword,
                name := (get rs kName).getD i.name,
                gameMode := (get rs kGamemode).getD i.gameMode },
             rs.filter fun p => !Battalion.Spec.batKeys.contains p.1) := by
  have n12 : kPlayerCount ≠ kMaxPlayers := by decide
  have n13 : kHasPassword ≠ kMaxPlayers := by decide
  have n14 : kName ≠ kMaxPlayers := by decide
  have n15 : kGamemode ≠ kMaxPlayers := by decide
  have n23 : kHasPassword ≠ kPlayerCount := by decide
  have n24 : kName ≠ kPlayerCount := by decide
  have n25 : kGamemode ≠ kPlayerCount := by decide
  have n34 : kName ≠ kHasPassword := by decide
  have n35 : kGamemode ≠ kHasPassword := by decide
  have n45 : kGamemode ≠ kName := by decide
  unfold overrides
  rw [stepNum_eq _ _ _ _ h1]
  simp only [Res.bind_ok]
  rw [stepNum_eq _ _ _ _ (by rw [get_mapRemove_ne _ _ _ n12]; exact h2)]
  simp only [Res.bind_ok, stepVal_eq, get_mapRemove_ne _ _ _ n12, get_mapRemove_ne _ _ _ n13,
    get_mapRemove_ne _ _ _ n14, get_mapRemove_ne _ _ _ n15, get_mapRemove_ne _ _ _ n23, get_mapRemove_ne _ _ _ n24,
    get_mapRemove_ne _ _ _ n25, get_mapRemove_ne _ _ _ n34, get_mapRemove_ne _ _ _ n35, get_mapRemove_ne _ _ _ n45,
    remove_all]
  cases get rs kMaxPlayers <;> cases get rs kPlayerCount <;> cases get rs kHasPassword <;> cases get rs kName <;>
    cases get rs kGamemode <;> rfl


theorem get_eq_rule (rs : Rules) (name : String) : get rs (asciiBytes name) = Battalion.Spec.rule rs name := rfl

/-- overriding what a Valve client is entitled to (engine app 489940, default gathering) and converting it
yields what the user of the Battalion 1944 query is entitled to -/
theorem overrides_expected (cfg : Config) (st : State) (h : Battalion.Spec.wf cfg st = true) :
    (Valve.Spec.expected (Battalion.Spec.batConfig cfg) st >>= applyOverrides >>= fun r => pure (Games.gameView r))
      = Battalion.Spec.expected st := by
  simp only [Battalion.Spec.wf, Bool.and_eq_true] at h
  obtain ⟨⟨_, h1⟩, h2⟩ := h
  unfold Valve.Spec.expected Battalion.Spec.expected
  simp only [Battalion.Spec.batConfig, Battalion.Spec.batEngine, appIdOk, Engine.new, Gather.default]
  by_cases happ : st.info.appid = 489940
  · have hov := overrides_eq st.info st.rules h1 h2
    have hao : applyOverrides ⟨st.info, some st.players, some st.rules⟩
        = (overrides (st.info, st.rules) >>= fun x => pure ⟨x.1, some st.players, some x.2⟩) := rfl
    simp only [happ, expectedRules, Engine.new, Games.gameView]
    simp [bind, Res.bind, happ, hao, hov, kMaxPlayers, kPlayerCount, kHasPassword, kName, kGamemode, get_eq_rule]
  · have hne : (489940 == st.info.appid) = false := by
      simp only [beq_eq_false_iff_ne, ne_eq]; exact fun h => happ h.symm
    simp [happ, hne, bind, Res.bind]

/-- the outcome of `query` in terms of the Valve query's outcome -/
theorem query_fst (ext : Ext) (port : Nat) (w : Net) :
    (query ext port w).1
      = ((Valve.query ext port ENGINE Gather.default 0 w).1 >>= applyOverrides >>= fun r => pure (Games.gameView r)) := by
  unfold query
  rw [Q.bind_apply]
  cases hq : Valve.query ext port ENGINE Gather.default 0 w with
  | mk res w' =>
    cases res with
    | ok r =>
      simp only
      rw [Q.bind_apply]
      cases ha : applyOverrides r <;> simp [Q.lift, ha, bind, Res.bind]
    | err k => rfl
    | crash => rfl

/-- the whole query against a conforming Battalion 1944 server that answers each request with one datagram -/
theorem query_single (ext : Ext) (port : Nat) (cfg : Config) (st : State) (h : Battalion.Spec.wf cfg st = true)
    (hl1 : (reply 0x49 (encSourceInfo cfg.upper st.info)).length ≤ PACKET_SIZE)
    (hl2 : (reply 0x44 (encPlayers st.players)).length ≤ PACKET_SIZE)
    (hl3 : (reply 0x45 (encRules st.rules)).length ≤ PACKET_SIZE) :
    (query ext port (Net.init [.opened (singleScript cfg.upper st)] [])).1 = Battalion.Spec.expected st := by
  have hwf := h
  simp only [Battalion.Spec.wf, Valve.Spec.wf, Battalion.Spec.batConfig, Battalion.Spec.batEngine, Engine.new,
    Bool.and_eq_true, decide_eq_true_eq, List.all_eq_true] at h
  obtain ⟨⟨⟨⟨⟨⟨⟨hinfo, hpn⟩, hpl⟩, hrn⟩, hrl⟩, hrd⟩, _⟩, _⟩ := h
  have hq := Valve.query_single ext port ENGINE (by decide) 0 cfg.upper st hinfo hpn
    (fun p hp => by simpa [ENGINE, Engine.new] using hpl p hp) hrn (fun r hr => by simpa using hrl r hr) hrd hl1 hl2 hl3
  rw [query_fst, hq, ← overrides_expected cfg st hwf, expected_default (Battalion.Spec.batConfig cfg) st rfl]
  rfl

end Gd.Battalion
