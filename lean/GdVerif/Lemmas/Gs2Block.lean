import GdVerif.Lemmas.QBounds
import GdVerif.Proto.Gs2
/-
  Blocking steps of the GameSpy 2 query that can run into their timeout, and the silent server.
-/
namespace Gd.Gs2
open Gd

/-- one attempt: a blocking step runs into its timeout only if the attempt fails, and then once -/
theorem block_requestDataImpl (s : Sock) : Block 0 1 (requestDataImpl s) := by
  unfold requestDataImpl
  have h := Block.bind (Block.send s request) fun _ =>
    Block.bind (Block.recv s (some PACKET_SIZE)) fun d =>
      Block.bind (Block.parse checkHeader d) fun idx => Block.pure (d, idx)
  exact h.weaken (by omega) (by omega)

theorem block_query (port retries : Nat) : Block retries (retries + 1) (query port retries) := by
  unfold query requestData
  refine (Block.bind (ko1 := 0) (ke1 := 1) (ko2 := retries) (ke2 := retries + 1) (Block.openSock false port)
    fun s => ?_).weaken (by omega) (by omega)
  refine (Block.bind (ko2 := 0) (ke2 := 0) (Block.retrySharp (block_requestDataImpl s) retries) fun x => ?_).weaken
    (by omega) (by omega)
  obtain ⟨data, idx⟩ := x
  exact Block.parse _ data

/-- one attempt against a silent server: the request is sent, the receive times out -/
theorem silent_requestDataImpl (s : Sock) : SilentAttempt s 1 (requestDataImpl s) := by
  unfold requestDataImpl
  exact SilentAttempt.seq (k2 := 0) (SilentSends.send s _) fun _ => (SilentAttempt.recv s _).bind_left _

theorem silent_query (port retries : Nat) (w : Net) (hf : w.faults = [])
    (hp : PendingSilent false (retries + 1) w.pending) :
    SilentOutcome w (query port retries w) (retries + 1) (retries + 1) := by
  unfold query requestData
  exact SilentRun.openSock (fun s _ => ((silent_requestDataImpl s).retry1 retries).bind_left _) port w hf hp

end Gd.Gs2
