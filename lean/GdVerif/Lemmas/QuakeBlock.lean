import GdVerif.Lemmas.QBounds
import GdVerif.Proto.Quake
/-
  Blocking steps of the Quake query that can run into their timeout, and the silent server.
-/
namespace Gd.Quake
open Gd

/-- one attempt: a blocking step runs into its timeout only if the attempt fails, and then once -/
theorem block_getDataImpl (s : Sock) (v : Version) : Block 0 1 (getDataImpl s v) := by
  unfold getDataImpl
  have h := Block.bind (Block.send s (request v)) fun _ =>
    Block.bind (Block.recv s (some PACKET_SIZE)) fun d => Block.parse (stripHeader v) d
  exact h.weaken (by omega) (by omega)

theorem block_getData (port retries : Nat) (v : Version) : Block retries (retries + 1) (getData port retries v) := by
  unfold getData getDataOn
  have h := Block.bind (Block.openSock false port) fun s => Block.retrySharp (block_getDataImpl s v) retries
  exact h.weaken (by omega) (by omega)

theorem block_query (port : Nat) (v : Version) (retries : Nat) : Block retries (retries + 1) (query port v retries) := by
  unfold query
  have h := Block.bind (block_getData port retries v) fun d => Block.parse (parseBody v) d
  exact h.weaken (by omega) (by omega)

/-- one attempt against a silent server: the request is sent, the receive times out -/
theorem silent_getDataImpl (s : Sock) (v : Version) : SilentAttempt s 1 (getDataImpl s v) := by
  unfold getDataImpl
  exact SilentAttempt.seq (k2 := 0) (SilentSends.send s _) fun _ => (SilentAttempt.recv s _).bind_left _

theorem silent_query (port : Nat) (v : Version) (retries : Nat) (w : Net) (hf : w.faults = [])
    (hp : PendingSilent false (retries + 1) w.pending) :
    SilentOutcome w (query port v retries w) (retries + 1) (retries + 1) := by
  unfold query getData
  rw [Q.bind_assoc']
  exact SilentRun.openSock (fun s _ => ((silent_getDataImpl s v).retry1 retries).bind_left _) port w hf hp

end Gd.Quake
