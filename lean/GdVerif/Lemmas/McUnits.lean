import GdVerif.Lemmas.Minecraft
import GdVerif.Lemmas.McQ
/-
  The five Minecraft units against the SPEC, evaluated in ANY transport state: answered (result, exact
  log, state left) and not answered (error, state left).  Used by C03 (decode + auto-detect order) and
  C09 (exact request sequence).
-/
open Gd Gd.Mc Gd.Mc.Spec

/-! ### the units, evaluated in any transport state (frame property) -/

namespace Gd.Mc

theorem queryBedrock_eq (port r : Nat) :
    queryBedrock port r = (openSock false port >>= fun s => retryOnTimeout r (bedrockGetInfoImpl s)) := rfl
theorem queryLegacySpecific_eq (g : LegacyGroup) (port r : Nat) :
    queryLegacySpecific g port r = (openSock true port >>= fun s => retryOnTimeout r (legacyGetInfoImpl g s)) := rfl
theorem queryJava_eq (ext : Ext) (port : Nat) (st : RequestSettings) (r : Nat) :
    queryJava ext port st r = (openSock true port >>= fun s => retryOnTimeout r (javaGetInfoImpl ext s st)) := rfl

/-- Bedrock, answered: result, exact log, state left -/
theorem bedrock_answered (st : BedrockStatus) (h : wfBedrock st = true) (port r : Nat) (w0 : Net)
    (q : List Delivery) (rest : List ConnScript)
    (hp : w0.pending = .opened (.data (unconnectedPong clientTime st) :: q) :: rest) (hf : w0.faults = []) :
    queryBedrock port r w0 = (.ok (expectedBedrock st),
      own w0 rest q [.opened w0.conns.length false port false, .send w0.conns.length port bedrockRequest false,
        .recv w0.conns.length none (some (unconnectedPong clientTime st).length)]) := by
  have hlen : (unconnectedPong clientTime st).length ≤ 1024 := by
    simp only [wfBedrock, Bool.and_eq_true, decide_eq_true_eq] at h; exact h.2
  have htake : (unconnectedPong clientTime st).take 1024 = unconnectedPong clientTime st := List.take_of_length_le hlen
  have := unit_answered false port r bedrockGetInfoImpl [bedrockRequest] bedrockParse.run w0 _ q rest (expectedBedrock st)
    (behaves_bedrock _ w0 rfl rest) hp hf (by
      simp only [Bool.false_eq_true, ↓reduceIte, htake]
      exact (decodesEnd_bedrockParse st h).run)
  rw [queryBedrock_eq, this]
  simp [sendEvs, htake]

/-- a legacy unit, answered by a kick packet `pkt` that its parser decodes to `x` -/
theorem legacy_answered (g : LegacyGroup) (pkt : Bytes) (x : JavaResponse)
    (hdec : DecodesEnd (legacyParse g pkt.length) pkt x) (port r : Nat) (w0 : Net)
    (q : List Delivery) (rest : List ConnScript)
    (hp : w0.pending = .opened (.data pkt :: q) :: rest) (hf : w0.faults = []) :
    queryLegacySpecific g port r w0 = (.ok x,
      own w0 rest q [.opened w0.conns.length true port false, .send w0.conns.length port (legacyRequest g) false,
        .recv w0.conns.length none (some pkt.length)]) := by
  have := unit_answered true port r (legacyGetInfoImpl g) [legacyRequest g] (fun d => (legacyParse g d.length).run d) w0 _ q rest x
    (behaves_legacy g _ w0 rfl rest) hp hf (by simpa using hdec.run)
  rw [queryLegacySpecific_eq, this]
  simp [sendEvs]

theorem javaHandshakePayload_ok (st : RequestSettings) (port : Nat) (hh : st.hostname.length < 2 ^ 31) :
    javaHandshakePayload st port = .ok ([0x00] ++ asVarint (ofSigned 32 st.protocolVersion)
      ++ (asVarint st.hostname.length ++ st.hostname) ++ natBE 2 port ++ [0x01]) := by
  simp [javaHandshakePayload, asString, hh]

/-- the handshake as the model frames it is the SPEC's handshake packet -/
theorem javaReqs_eq (st : RequestSettings) (port : Nat) (hh : st.hostname.length < 2 ^ 31) :
    javaReqs ([0x00] ++ asVarint (ofSigned 32 st.protocolVersion) ++ (asVarint st.hostname.length ++ st.hostname)
      ++ natBE 2 port ++ [0x01]) = javaRequests st port := by
  have h1 := asVarint_length (ofSigned 32 st.protocolVersion) (by
    unfold ofSigned
    have : (0 : Int) < ((2 ^ 32 : Nat) : Int) := by decide
    have := Int.emod_lt_of_pos st.protocolVersion this
    have := Int.emod_nonneg st.protocolVersion (show ((2 ^ 32 : Nat) : Int) ≠ 0 by decide)
    omega)
  have h2 := asVarint_length st.hostname.length (by omega)
  have hlen : ([0x00] ++ asVarint (ofSigned 32 st.protocolVersion) ++ (asVarint st.hostname.length ++ st.hostname)
      ++ natBE 2 port ++ [0x01]).length < 2 ^ 32 := by
    simp only [List.length_append, List.length_cons, List.length_nil, natBE, List.length_reverse, natLE_length]
    omega
  simp only [javaReqs, javaRequests, handshake, statusRequest, bareFinalPing, frame, varint, mcString,
    Nat.mod_eq_of_lt hlen]
  rfl

theorem javaDec_response (ext : Ext) (text trailing : Bytes) (j : Json) (st : JavaStatus)
    (hparse : ext.parseJson text = some j) (hrep : Represents j st) (hwf : wfJava st text = true) :
    javaDec ext (statusResponse text trailing) = .ok (expectedJava ext st) := by
  have hl : text.length < 2 ^ 31 - 8 := by
    simp only [wfJava, Bool.and_eq_true, decide_eq_true_eq] at hwf; exact hwf.2
  unfold javaDec
  rw [javaUnframe_response text trailing hl]
  obtain ⟨b', h1, _, _⟩ := decodes_javaParse ext text j st hparse hrep hwf (Buf.new ([0x00] ++ mcString text ++ trailing)) trailing rfl
  show (javaParse ext).run _ = _
  unfold Par.run
  rw [h1]

/-- Java, answered -/
theorem java_answered (ext : Ext) (text trailing : Bytes) (j : Json) (st : JavaStatus)
    (hparse : ext.parseJson text = some j) (hrep : Represents j st) (hwf : wfJava st text = true)
    (port r : Nat) (rs : RequestSettings) (hh : rs.hostname.length < 2 ^ 31) (w0 : Net)
    (q : List Delivery) (rest : List ConnScript)
    (hp : w0.pending = .opened (.data (statusResponse text trailing) :: q) :: rest) (hf : w0.faults = []) :
    queryJava ext port rs r w0 = (.ok (expectedJava ext st),
      own w0 rest q ([.opened w0.conns.length true port false] ++ sendEvs ⟨w0.conns.length, port, true⟩ (javaRequests rs port)
        ++ [.recv w0.conns.length none (some (statusResponse text trailing).length)])) := by
  have := unit_answered true port r (fun s => javaGetInfoImpl ext s rs) _ (javaDec ext) w0 _ q rest (expectedJava ext st)
    (behaves_java ext _ rs w0 rfl rfl rest _ (javaHandshakePayload_ok rs port hh)) hp hf
    (by simpa using javaDec_response ext text trailing j st hparse hrep hwf)
  rw [queryJava_eq, this, javaReqs_eq rs port hh]
  simp

/-- a unit on a connection of a server that does not speak its variant fails and leaves the rest alone -/
theorem bedrock_mute (m : Mute) (port r : Nat) (w0 : Net) (rest : List ConnScript)
    (hp : w0.pending = m.conn :: rest) (hf : w0.faults = []) :
    ∃ e w1, queryBedrock port r w0 = (.err e, w1) ∧ After w0 w1 rest false := by
  rw [queryBedrock_eq]
  cases m with
  | refused => exact unit_refused false port r _ w0 rest hp hf
  | silent k =>
    exact unit_silent false port r bedrockGetInfoImpl [bedrockRequest] bedrockParse.run w0 k rest
      (behaves_bedrock _ w0 rfl rest) ⟨.packetUnderflow, by decide⟩ hp hf

theorem legacy_mute (g : LegacyGroup) (m : Mute) (port r : Nat) (w0 : Net) (rest : List ConnScript)
    (hp : w0.pending = m.conn :: rest) (hf : w0.faults = []) :
    ∃ e w1, queryLegacySpecific g port r w0 = (.err e, w1) ∧ After w0 w1 rest true := by
  rw [queryLegacySpecific_eq]
  cases m with
  | refused => exact unit_refused true port r _ w0 rest hp hf
  | silent k =>
    exact unit_silent true port r (legacyGetInfoImpl g) [legacyRequest g] (fun d => (legacyParse g d.length).run d) w0 k rest
      (behaves_legacy g _ w0 rfl rest) ⟨.packetUnderflow, by cases g <;> decide⟩ hp hf

theorem java_mute (ext : Ext) (m : Mute) (port r : Nat) (rs : RequestSettings) (hh : rs.hostname.length < 2 ^ 31)
    (w0 : Net) (rest : List ConnScript) (hp : w0.pending = m.conn :: rest) (hf : w0.faults = []) :
    ∃ e w1, queryJava ext port rs r w0 = (.err e, w1) ∧ After w0 w1 rest true := by
  rw [queryJava_eq]
  cases m with
  | refused => exact unit_refused true port r _ w0 rest hp hf
  | silent k =>
    exact unit_silent true port r (fun s => javaGetInfoImpl ext s rs) _ (javaDec ext) w0 k rest
      (behaves_java ext _ rs w0 rfl rfl rest _ (javaHandshakePayload_ok rs port hh)) ⟨.packetUnderflow, by rfl⟩ hp hf

/-- the answered lemmas in the form the fall-through proof chains -/
theorem bedrock_answered' (st : BedrockStatus) (h : wfBedrock st = true) (port r : Nat) (w0 : Net) (rest : List ConnScript)
    (hp : w0.pending = .opened [.data (unconnectedPong clientTime st)] :: rest) (hf : w0.faults = []) :
    ∃ w1, queryBedrock port r w0 = (.ok (expectedBedrock st), w1) ∧ After w0 w1 rest false :=
  ⟨_, bedrock_answered st h port r w0 [] rest hp hf, After.of_own _ _ _ _ _ (by simp [opens])⟩

theorem legacy_answered' (g : LegacyGroup) (pkt : Bytes) (x : JavaResponse)
    (hdec : DecodesEnd (legacyParse g pkt.length) pkt x) (port r : Nat) (w0 : Net) (rest : List ConnScript)
    (hp : w0.pending = .opened [.data pkt] :: rest) (hf : w0.faults = []) :
    ∃ w1, queryLegacySpecific g port r w0 = (.ok x, w1) ∧ After w0 w1 rest true :=
  ⟨_, legacy_answered g pkt x hdec port r w0 [] rest hp hf, After.of_own _ _ _ _ _ (by simp [opens])⟩

theorem java_answered' (ext : Ext) (text : Bytes) (j : Json) (st : JavaStatus)
    (hparse : ext.parseJson text = some j) (hrep : Represents j st) (hwf : wfJava st text = true)
    (port r : Nat) (rs : RequestSettings) (hh : rs.hostname.length < 2 ^ 31) (w0 : Net) (rest : List ConnScript)
    (hp : w0.pending = .opened [.data (statusResponse text [])] :: rest) (hf : w0.faults = []) :
    ∃ w1, queryJava ext port rs r w0 = (.ok (expectedJava ext st), w1) ∧ After w0 w1 rest true :=
  ⟨_, java_answered ext text [] j st hparse hrep hwf port r rs hh w0 [] rest hp hf,
    After.of_own _ _ _ _ _ (by simp [opens_append, opens_sendEvs, opens])⟩

theorem orElse_ok {α β : Type} {first : Q α} {f : α → β} {rest : Q β} {w w' : Net} {a : α}
    (h : first w = (.ok a, w')) : orElse first f rest w = (.ok (f a), w') := by
  simp [orElse, h]

theorem orElse_err {α β : Type} {first : Q α} {f : α → β} {rest : Q β} {w w' : Net} {k : ErrKind}
    (h : first w = (.err k, w')) : orElse first f rest w = rest w' := by
  simp [orElse, h]

end Gd.Mc

