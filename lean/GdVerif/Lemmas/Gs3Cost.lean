import GdVerif.Lemmas.QBounds
import GdVerif.Proto.Gs3
/-
  How many datagrams the GameSpy 3 exchange sends.  One attempt = handshake request, challenge
  reply, data request, data packets.  Two judgements hold and neither implies the other:
  `Sends 2` (two requests per attempt, absolutely) and `Cost 1 1` (one request per attempt plus one per
  datagram received: the data request is only sent after the challenge reply has been received).
-/
namespace Gd.Gs3
open Gd

theorem sends_receive (s : Sock) (size : Option Nat) (kind : Nat) : Sends 0 (receive s size kind) := by
  unfold receive
  exact Sends.bind (k2 := 0) (Sends.recv s _) fun d => Sends.parse _ d

theorem sends_recvPackets (s : Sock) : ∀ (fuel : Nat) (a : Acc), Sends 0 (recvPackets s fuel a) := by
  intro fuel
  induction fuel with
  | zero => intro a w; exact ⟨[], by simp [recvPackets], by simp [nSends]⟩
  | succ fuel ih =>
    intro a
    unfold recvPackets
    refine Sends.ite ?_ (Sends.lift _)
    exact Sends.bind (k2 := 0) (sends_receive s none 0) fun data =>
      Sends.bind (k2 := 0) (Sends.parse readFrag data) fun f =>
        Sends.bind (k2 := 0) (Sends.lift (accept a f)) fun a' => ih a'

theorem sends_makeInitialHandshake (s : Sock) : Sends 1 (makeInitialHandshake s) := by
  unfold makeInitialHandshake
  exact Sends.bind (k2 := 0) (Sends.send s _) fun _ =>
    Sends.bind (k2 := 0) (sends_receive s (some 16) 9) fun d => Sends.parse _ d

theorem sends_tail (s : Sock) (single : Bool) :
    Sends 0 (if single = true then (do
        let data ← receive s none 0
        let rest ← parse readSingle data
        pure [rest])
      else recvAll s) := by
  refine Sends.ite ?_ ?_
  · exact Sends.bind (k2 := 0) (sends_receive s none 0) fun data =>
      Sends.bind (k2 := 0) (Sends.parse readSingle data) fun rest => Sends.pure [rest]
  · exact fun w => sends_recvPackets s (queued s w + 1) Acc.init w

theorem sends_getServerPacketsImpl (s : Sock) (payload : Bytes) (single : Bool) :
    Sends 2 (getServerPacketsImpl s payload single) := by
  unfold getServerPacketsImpl sendDataRequest
  exact Sends.bind (k1 := 1) (k2 := 1) (sends_makeInitialHandshake s) fun ch =>
    Sends.bind (k2 := 0) (Sends.send s _) fun _ => sends_tail s single

theorem sends_getServerPackets (s : Sock) (retries : Nat) (payload : Bytes) (single : Bool) :
    Sends (2 * (retries + 1)) (getServerPackets s retries payload single) :=
  Sends.retry (sends_getServerPacketsImpl s payload single) retries

theorem sends_query (port retries : Nat) : Sends (2 * (retries + 1)) (query port retries) := by
  unfold query
  have h := Sends.bind (Sends.openSock false port) fun s =>
    Sends.bind (k2 := 0) (sends_getServerPackets s retries DEFAULT_PAYLOAD false) fun p => Sends.lift (buildResponse p)
  exact h.weaken (by omega)

theorem sends_queryVars (port retries : Nat) : Sends (2 * (retries + 1)) (queryVars port retries) := by
  unfold queryVars
  have h := Sends.bind (Sends.openSock false port) fun s =>
    Sends.bind (k2 := 0) (sends_getServerPackets s retries DEFAULT_PAYLOAD false) fun p => Sends.lift (buildVars p)
  exact h.weaken (by omega)

/-! ### relative to the datagrams received -/

/-- a successful `receive` earns one send -/
theorem cost_receive (s : Sock) (size : Option Nat) (kind : Nat) : Cost (-1) 0 (receive s size kind) := by
  unfold receive
  exact (Cost.bind (Cost.recv s _) fun d => Cost.parse (readHeader kind) d).weaken (by omega) (by omega)

theorem cost_recvPackets (s : Sock) : ∀ (fuel : Nat) (a : Acc), Cost 0 0 (recvPackets s fuel a) := by
  intro fuel
  induction fuel with
  | zero => intro a w; exact ⟨[], by simp [recvPackets], by simp [recvPackets, nSends, nRecvOk]⟩
  | succ fuel ih =>
    intro a
    unfold recvPackets
    refine Cost.ite ?_ (Cost.lift _)
    have h := Cost.bind (cost_receive s none 0) fun data =>
      Cost.bind (Cost.parse readFrag data) fun f =>
        Cost.bind (Cost.lift (accept a f)) fun a' => ih a'
    exact h.weaken (by omega) (by omega)

/-- the handshake: its request is paid back by the challenge reply when it succeeds -/
theorem cost_makeInitialHandshake (s : Sock) : Cost 0 1 (makeInitialHandshake s) := by
  unfold makeInitialHandshake
  have h := Cost.bind (Cost.send s (requestBytes 9 none none)) fun _ =>
    Cost.bind (cost_receive s (some 16) 9) fun d => Cost.parse parseChallenge d
  exact h.weaken (by omega) (by omega)

theorem cost_tail (s : Sock) (single : Bool) :
    Cost 0 0 (if single = true then (do
        let data ← receive s none 0
        let rest ← parse readSingle data
        pure [rest])
      else recvAll s) := by
  refine Cost.ite ?_ ?_
  · have h := Cost.bind (cost_receive s none 0) fun data =>
      Cost.bind (Cost.parse readSingle data) fun rest => Cost.pure [rest]
    exact h.weaken (by omega) (by omega)
  · exact fun w => cost_recvPackets s (queued s w + 1) Acc.init w

theorem cost_getServerPacketsImpl (s : Sock) (payload : Bytes) (single : Bool) :
    Cost 1 1 (getServerPacketsImpl s payload single) := by
  unfold getServerPacketsImpl sendDataRequest
  have h := Cost.bind (cost_makeInitialHandshake s) fun ch =>
    Cost.bind (Cost.send s (requestBytes 0 ch (some payload))) fun _ => cost_tail s single
  exact h.weaken (by omega) (by omega)

theorem cost_getServerPackets (s : Sock) (retries : Nat) (payload : Bytes) (single : Bool) :
    Cost ((retries + 1 : Nat) : Int) ((retries + 1 : Nat) : Int) (getServerPackets s retries payload single) := by
  have := Cost.retry (k := 1) (cost_getServerPacketsImpl s payload single) retries
  simpa [getServerPackets] using this

theorem cost_query (port retries : Nat) :
    Cost ((retries + 1 : Nat) : Int) ((retries + 1 : Nat) : Int) (query port retries) := by
  unfold query
  have h := Cost.bind (Cost.openSock false port) fun s =>
    Cost.bind (cost_getServerPackets s retries DEFAULT_PAYLOAD false) fun p => Cost.lift (buildResponse p)
  exact h.weaken (by omega) (by omega)

theorem cost_queryVars (port retries : Nat) :
    Cost ((retries + 1 : Nat) : Int) ((retries + 1 : Nat) : Int) (queryVars port retries) := by
  unfold queryVars
  have h := Cost.bind (Cost.openSock false port) fun s =>
    Cost.bind (cost_getServerPackets s retries DEFAULT_PAYLOAD false) fun p => Cost.lift (buildVars p)
  exact h.weaken (by omega) (by omega)

end Gd.Gs3
