import GdVerif.Lemmas.Unreal2Text
/-
  Field-by-field decoding lemmas for the Unreal 2 parsers against the SPEC encoders.
-/
namespace Gd.Unreal2
open Gd Gd.Unreal2.Spec

/-! ### bytes ↔ characters -/


theorem cp1252High_pos : ∀ x ∈ cp1252High, x ≠ 0 := by decide

theorem cp1252Char_ne_zero (b : UInt8) (h : b ≠ 0) : cp1252Char b ≠ 0 := by
  unfold cp1252Char
  split
  · rename_i hr
    simp only [Bool.and_eq_true, decide_eq_true_eq] at hr
    have hlen : b.toNat - 0x80 < cp1252High.length := by
      have : cp1252High.length = 32 := by decide
      omega
    rw [List.getD_eq_getElem?_getD, List.getElem?_eq_getElem hlen]
    exact cp1252High_pos _ (List.getElem_mem hlen)
  · intro h0
    apply h
    exact UInt8.toNat_inj.mp (by simpa using h0)

theorem bytesOfUnits_length (us : List Nat) : (bytesOfUnits .little us).length = 2 * us.length := by
  induction us with
  | nil => rfl
  | cons u r ih =>
    simp only [bytesOfUnits, List.flatMap_cons, List.length_append, List.length_cons] at *
    rw [ih]
    simp [Endian.encode, natLE]
    omega

theorem unitsOf_bytesOfUnits (us : List Nat) (h : ∀ u ∈ us, u < 65536) :
    unitsOf .little (bytesOfUnits .little us) = us := by
  induction us with
  | nil => rfl
  | cons u r ih =>
    have hu := h u (by simp)
    have : bytesOfUnits .little (u :: r) = UInt8.ofNat (u % 256) :: UInt8.ofNat (u / 256 % 256) :: bytesOfUnits .little r := by
      simp [bytesOfUnits, Endian.encode, natLE]
    rw [this]
    simp only [unitsOf]
    rw [ih (fun v hv => h v (by simp [hv]))]
    congr 1
    simp only [Endian.decode, leNat, UInt8.toNat_ofNat']
    omega

theorem utf16Decode_append_nul : ∀ (n : Nat) (us : List Nat), us.length ≤ n → ∀ cs, utf16Decode us = some cs →
    utf16Decode (us ++ [0]) = some (cs ++ [0]) := by
  intro n
  induction n with
  | zero =>
    intro us hl cs h
    have : us = [] := List.length_eq_zero_iff.mp (by omega)
    subst this
    simp [utf16Decode] at h ⊢
    exact h
  | succ n ih =>
    intro us hl cs h
    cases us with
    | nil => simp [utf16Decode] at h ⊢; exact h
    | cons u r =>
      simp only [List.cons_append]
      unfold utf16Decode at h ⊢
      split
      · rename_i hc
        rw [if_pos hc] at h
        cases hr : utf16Decode r with
        | none => rw [hr] at h; simp at h
        | some cs' =>
          rw [hr] at h
          simp only [Option.map_some, Option.some.injEq] at h
          subst h
          rw [ih r (by simp only [List.length_cons] at hl; omega) cs' hr]
          simp
      · rename_i hc
        rw [if_neg hc] at h
        split
        · rename_i hh
          rw [if_pos hh] at h
          cases r with
          | nil => simp at h
          | cons l r2 =>
            simp only [List.cons_append]
            simp only at h
            split
            · rename_i hl2
              rw [if_pos hl2] at h
              cases hr : utf16Decode r2 with
              | none => rw [hr] at h; simp at h
              | some cs' =>
                rw [hr] at h
                simp only [Option.map_some, Option.some.injEq] at h
                subst h
                rw [ih r2 (by simp only [List.length_cons] at hl; omega) cs' hr]
                simp
            · rename_i hl2
              rw [if_neg hl2] at h
              cases h
        · rename_i hh
          rw [if_neg hh] at h
          cases h



theorem utf16Decode_ne_zero : ∀ (n : Nat) (us : List Nat), us.length ≤ n → (∀ u ∈ us, u ≠ 0) → ∀ cs,
    utf16Decode us = some cs → ∀ c ∈ cs, c ≠ 0 := by
  intro n
  induction n with
  | zero =>
    intro us hl _ cs h
    have : us = [] := List.length_eq_zero_iff.mp (by omega)
    subst this
    simp [utf16Decode] at h
    subst h
    simp
  | succ n ih =>
    intro us hl hnz cs h
    cases us with
    | nil => simp [utf16Decode] at h; subst h; simp
    | cons u r =>
      have hu := hnz u (by simp)
      unfold utf16Decode at h
      split at h
      · cases hr : utf16Decode r with
        | none => rw [hr] at h; simp at h
        | some cs' =>
          rw [hr] at h
          simp only [Option.map_some, Option.some.injEq] at h
          subst h
          intro c hc
          rcases List.mem_cons.mp hc with rfl | hc'
          · exact hu
          · exact ih r (by simp only [List.length_cons] at hl; omega) (fun v hv => hnz v (by simp [hv])) cs' hr c hc'
      · split at h
        · cases r with
          | nil => simp at h
          | cons l r2 =>
            simp only at h
            split at h
            · cases hr : utf16Decode r2 with
              | none => rw [hr] at h; simp at h
              | some cs' =>
                rw [hr] at h
                simp only [Option.map_some, Option.some.injEq] at h
                subst h
                intro c hc
                rcases List.mem_cons.mp hc with hc0 | hc'
                · rw [hc0]; omega
                · exact ih r2 (by simp only [List.length_cons] at hl; omega) (fun v hv => hnz v (by simp [hv])) cs' hr c hc'
            · cases h
        · cases h

theorem u8_toNat (n : Nat) (h : n < 256) : (UInt8.ofNat n).toNat = n := by
  simp [UInt8.toNat_ofNat', Nat.mod_eq_of_lt h]

theorem wire_length (s : UStr) : s.wire.length = s.count := rfl

theorem u2Dec_latin1 (s : UStr) (he : s.enc = .latin1) (hw : wfStr s = true) (post : Bytes) :
    u2Dec (encStr s ++ post) = .ok (s.text, (encStr s).length) := by
  simp only [wfStr, he, Bool.and_eq_true, decide_eq_true_eq, List.all_eq_true, Bool.not_eq_true'] at hw
  obtain ⟨hcount, hunits, _⟩ := hw
  have hlen : (encStr s).length = 1 + s.count := by
    simp [encStr, he, u8, UStr.count]; omega
  have henc : encStr s ++ post = UInt8.ofNat s.count :: (s.wire.map UInt8.ofNat ++ post) := by
    simp [encStr, he, u8]
  rw [henc]
  unfold u2Dec
  simp only
  have hl : (UInt8.ofNat s.count).toNat = s.count := u8_toNat _ (by omega)
  rw [hl]
  have hnot : ¬ (s.count ≥ 0x80) := by omega
  rw [if_neg hnot]
  unfold latin1Part
  have hlen2 : ¬ ((s.wire.map UInt8.ofNat ++ post).length < s.count) := by
    simp [UStr.count]
  rw [if_neg hlen2]
  have htake : (s.wire.map UInt8.ofNat ++ post).take s.count = s.wire.map UInt8.ofNat := by
    rw [List.take_append_of_le_length (by simp [UStr.count])]
    exact List.take_of_length_le (by simp [UStr.count])
  rw [htake, hlen]
  congr 2
  -- the characters: the units through windows-1252, then the NUL
  have hchars : cp1252Decode (s.wire.map UInt8.ofNat)
      = (s.units.map fun u => cp1252Char (UInt8.ofNat u)) ++ (if s.nul then [0] else []) := by
    simp only [cp1252Decode, UStr.wire, List.map_append, List.map_map]
    congr 1
    cases s.nul <;> simp [cp1252Char]
  rw [hchars]
  have hnz : ∀ c ∈ (s.units.map fun u => cp1252Char (UInt8.ofNat u)), c ≠ 0 := by
    intro c hc
    obtain ⟨u, hu, rfl⟩ := List.mem_map.mp hc
    have hr := hunits u hu
    apply cp1252Char_ne_zero
    intro h0
    have := congrArg UInt8.toNat h0
    rw [u8_toNat u hr.2] at this
    have h00 : (0 : UInt8).toNat = 0 := rfl
    omega
  rw [cleanText_eq _ hnz]
  simp [UStr.text, UStr.chars, he]



theorem strayOf_cons_one (r : Bytes) : strayOf (1 :: r) = 1 := by simp [strayOf]

theorem u2Dec_ucs2 (s : UStr) (he : s.enc = .ucs2) (hw : wfStr s = true) (post : Bytes) :
    u2Dec (encStr s ++ post) = .ok (s.text, (encStr s).length) := by
  simp only [wfStr, he, Bool.and_eq_true, decide_eq_true_eq, List.all_eq_true, Bool.or_eq_true] at hw
  obtain ⟨hcount, ⟨hunits, hdec⟩, hstray⟩ := hw
  obtain ⟨cs, hcs⟩ := Option.isSome_iff_exists.mp hdec
  let sb : Bytes := if s.stray then [1] else []
  have henc : encStr s ++ post = UInt8.ofNat (0x80 + s.count) :: (sb ++ (bytesOfUnits .little s.wire ++ post)) := by
    simp [encStr, he, u8, sb, List.append_assoc]
  have hwirelt : ∀ u ∈ s.wire, u < 65536 := by
    intro u hu
    simp only [UStr.wire, List.mem_append] at hu
    rcases hu with hu | hu
    · exact (hunits u hu).2
    · cases hn : s.nul <;> simp [hn] at hu
      omega
  have hblen : (bytesOfUnits .little s.wire).length = 2 * s.count := bytesOfUnits_length _
  have hlen : (encStr s).length = 1 + sb.length + s.count * 2 := by
    simp only [encStr, he, u8, List.length_append, List.length_cons, List.length_nil, hblen, sb]
    split <;> simp <;> omega
  rw [henc]
  unfold u2Dec
  simp only
  have hl : (UInt8.ofNat (0x80 + s.count)).toNat = 0x80 + s.count := u8_toNat _ (by omega)
  rw [hl, if_pos (by omega : 0x80 + s.count ≥ 0x80)]
  have hmod : (0x80 + s.count) % 0x80 = s.count := by omega
  rw [hmod]
  -- the stray byte is recognised exactly when it was sent
  have hso : strayOf (sb ++ (bytesOfUnits .little s.wire ++ post)) = sb.length
      ∧ (sb ++ (bytesOfUnits .little s.wire ++ post)).drop sb.length = bytesOfUnits .little s.wire ++ post := by
    cases hs : s.stray with
    | true => simp [sb, hs, strayOf]
    | false =>
      simp only [sb, hs, Bool.false_eq_true, ↓reduceIte, List.nil_append, List.length_nil, List.drop_zero, and_true]
      rw [hs] at hstray
      simp only [Bool.false_eq_true, false_or] at hstray
      cases hwire : s.wire with
      | nil => rw [hwire] at hstray; simp at hstray
      | cons u r =>
        rw [hwire] at hstray
        simp only [bne_iff_ne, ne_eq] at hstray
        have : bytesOfUnits .little (u :: r) = UInt8.ofNat (u % 256) :: UInt8.ofNat (u / 256 % 256) :: bytesOfUnits .little r := by
          simp [bytesOfUnits, Endian.encode, natLE]
        rw [this]
        simp only [strayOf, List.cons_append, List.head?_cons]
        have hne : (UInt8.ofNat (u % 256)) ≠ 1 := by
          intro h1
          have := congrArg UInt8.toNat h1
          rw [u8_toNat _ (by omega)] at this
          have h11 : (1 : UInt8).toNat = 1 := rfl
          omega
        simp [hne]
  rw [hso.1, hso.2]
  unfold ucs2Part
  have hlen2 : ¬ ((bytesOfUnits .little s.wire ++ post).length < s.count * 2) := by
    simp only [List.length_append, hblen]; omega
  rw [if_neg hlen2]
  have htake : (bytesOfUnits .little s.wire ++ post).take (s.count * 2) = bytesOfUnits .little s.wire := by
    rw [List.take_append_of_le_length (by omega)]
    exact List.take_of_length_le (by omega)
  rw [htake, unitsOf_bytesOfUnits _ hwirelt]
  have hnz : ∀ c ∈ cs, c ≠ 0 :=
    utf16Decode_ne_zero _ s.units (Nat.le_refl _) (fun u hu => by have := (hunits u hu).1; omega) cs hcs
  have hwdec : utf16Decode s.wire = some (cs ++ (if s.nul then [0] else [])) := by
    unfold UStr.wire
    cases hn : s.nul with
    | false => simpa using hcs
    | true => simpa using utf16Decode_append_nul _ s.units (Nat.le_refl _) cs hcs
  rw [hwdec]
  simp only
  rw [cleanText_eq _ hnz, hlen]
  simp [UStr.text, UStr.chars, he, hcs]



/-- C06's string theorem on the decoder function: for every string of the format's domain, whatever
follows it in the packet, the decoder returns exactly the SPEC's text and consumes exactly the
string's bytes -/
theorem u2Dec_encStr (s : UStr) (hw : wfStr s = true) (post : Bytes) :
    u2Dec (encStr s ++ post) = .ok (s.text, (encStr s).length) := by
  cases he : s.enc with
  | latin1 => exact u2Dec_latin1 s he hw post
  | ucs2 => exact u2Dec_ucs2 s he hw post

theorem decodes_u2Str (s : UStr) (hw : wfStr s = true) : Decodes readU2Str (encStr s) s.text := by
  intro b post hr
  refine ⟨b.advance (encStr s).length, ?_, Buf.advance_append b _ post hr, by simp⟩
  unfold readU2Str readStringWith
  rw [hr, u2Dec_encStr s hw post]

theorem encStr_ne_nil (s : UStr) : encStr s ≠ [] := by
  unfold encStr
  cases s.enc <;> simp [u8]

/-! ### reply header -/

theorem packetKindOf_code (k : PacketKind) : packetKindOf k.code = .ok k := by
  cases k <;> rfl

theorem decodes_consumeHeaders (k : PacketKind) (header : Bytes) (hl : header.length = 4) :
    Decodes (consumeHeaders k) (header ++ u8 k.code) () := by
  unfold consumeHeaders
  have hskip : Decodes (moveCursor 4) header () := by
    have := decodes_skip header
    rwa [hl] at this
  refine Decodes.bind hskip ?_
  have hcode : k.code < 256 := by cases k <;> decide
  refine Decodes.bind' (e2 := []) (decodes_u8 k.code hcode) ?_ (by simp [u8])
  rw [packetKindOf_code]
  refine Decodes.bind' (e1 := []) (e2 := []) (Decodes.lift_ok k) ?_ rfl
  simp only [bne_self_eq_false, Bool.false_eq_true, ↓reduceIte]
  exact Decodes.pure _

/-- running two parsers in sequence on a whole datagram whose tail the second one may leave unread -/
theorem run_of_decodes {p : Par α} {e : Bytes} {x : α} (h : Decodes p e x) (post : Bytes) :
    p.run (e ++ post) = .ok x := by
  obtain ⟨b', hp, _, _⟩ := h (Buf.new (e ++ post)) post (by simp)
  simp [Par.run, hp]

/-! ### server info -/

def infoOf (st : State) : ServerInfo :=
  ⟨st.serverId, st.ip.text, st.gamePort, st.queryPort, st.name.text, st.map.text, st.gameType.text,
   st.numPlayers, st.maxPlayers, false⟩

/-- the part of the info body this client reads -/
def encInfoCore (st : State) : Bytes :=
  le 4 st.serverId ++ encStr st.ip ++ le 4 st.gamePort ++ le 4 st.queryPort ++ encStr st.name ++
  encStr st.map ++ encStr st.gameType ++ le 4 st.numPlayers ++ le 4 st.maxPlayers

theorem encInfo_eq (st : State) : encInfo st = encInfoCore st ++ st.extra := by
  simp [encInfo, encInfoCore, List.append_assoc]

theorem decodes_serverInfo (st : State) (h1 : st.serverId < 2 ^ 32) (h2 : wfStr st.ip = true) (h3 : st.gamePort < 2 ^ 32)
    (h4 : st.queryPort < 2 ^ 32) (h5 : wfStr st.name = true) (h6 : wfStr st.map = true) (h7 : wfStr st.gameType = true)
    (h8 : st.numPlayers < 2 ^ 32) (h9 : st.maxPlayers < 2 ^ 32) :
    Decodes parseServerInfo (encInfoCore st) (infoOf st) := by
  unfold parseServerInfo encInfoCore
  simp only [List.append_assoc]
  refine Decodes.bind (decodes_le 4 _ (by simpa using h1)) ?_
  refine Decodes.bind (decodes_u2Str _ h2) ?_
  refine Decodes.bind (decodes_le 4 _ (by simpa using h3)) ?_
  refine Decodes.bind (decodes_le 4 _ (by simpa using h4)) ?_
  refine Decodes.bind (decodes_u2Str _ h5) ?_
  refine Decodes.bind (decodes_u2Str _ h6) ?_
  refine Decodes.bind (decodes_u2Str _ h7) ?_
  refine Decodes.bind (decodes_le 4 _ (by simpa using h8)) ?_
  refine Decodes.bind' (e2 := []) (decodes_le 4 _ (by simpa using h9)) ?_ (by simp [le])
  exact Decodes.pure _

/-! ### lists: a `while remaining_length() > 0` loop over concatenated entries -/

theorem flatten_length_ge {α : Type} (enc : α → Bytes) (xs : List α) (hne : ∀ x ∈ xs, enc x ≠ []) :
    xs.length ≤ (xs.map enc).flatten.length := by
  induction xs with
  | nil => simp
  | cons x r ih =>
    have h1 : 0 < (enc x).length := List.length_pos_iff.mpr (hne x (by simp))
    have h2 := ih (fun y hy => hne y (by simp [hy]))
    simp only [List.map_cons, List.flatten_cons, List.length_append, List.length_cons]
    omega

theorem whileRemaining_decodes {σ α : Type} (body : σ → Par σ) (enc : α → Bytes) (f : σ → α → σ) (xs : List α)
    (hne : ∀ x ∈ xs, enc x ≠ []) (hdec : ∀ st, ∀ x ∈ xs, Decodes (body st) (enc x) (f st x)) :
    ∀ (fuel : Nat) (st : σ) (b : Buf), b.rest = (xs.map enc).flatten → xs.length < fuel →
      ∃ b', whileRemaining body fuel st b = .ok (xs.foldl f st, b') ∧ b'.rest = [] ∧ b'.data = b.data := by
  induction xs with
  | nil =>
    intro fuel st b hr hf
    cases fuel with
    | zero => omega
    | succ k =>
      refine ⟨b, ?_, by simpa using hr, rfl⟩
      simp only [List.map_nil, List.flatten_nil] at hr
      simp [whileRemaining, Buf.remaining, hr]
  | cons x r ih =>
    intro fuel st b hr hf
    cases fuel with
    | zero => omega
    | succ k =>
      simp only [List.map_cons, List.flatten_cons] at hr
      have hne0 : (b.remaining == 0) = false := by
        have : 0 < (enc x).length := List.length_pos_iff.mpr (hne x (by simp))
        simp only [Buf.remaining, hr, List.length_append, beq_eq_false_iff_ne]
        omega
      obtain ⟨b1, hb, hr1, hd1⟩ := hdec st x (by simp) b _ hr
      obtain ⟨b2, hw, hr2, hd2⟩ := ih (fun y hy => hne y (by simp [hy])) (fun st y hy => hdec st y (by simp [hy]))
        k (f st x) b1 hr1 (by simp only [List.length_cons] at hf; omega)
      refine ⟨b2, ?_, hr2, by rw [hd2, hd1]⟩
      simp only [whileRemaining, hne0, Bool.false_eq_true, ↓reduceIte, hb, List.foldl_cons]
      exact hw

/-! ### mutators and rules -/

theorem decodes_tryRead {p : Par α} {e : Bytes} {x : α} (h : Decodes p e x) : Decodes (tryRead p) e (some x) := by
  intro b post hr
  obtain ⟨b', hp, hr', hd'⟩ := h b post hr
  exact ⟨b', by simp [tryRead, hp], hr', hd'⟩

def addText (st : MutatorsAndRules) (p : UStr × UStr) : MutatorsAndRules := st.add p.1.text (some p.2.text)

theorem decodes_rulesStep (st : MutatorsAndRules) (p : UStr × UStr) (h1 : wfStr p.1 = true) (h2 : wfStr p.2 = true) :
    Decodes (rulesStep st) (encPair p) (addText st p) := by
  unfold rulesStep encPair
  refine Decodes.bind (decodes_u2Str _ h1) ?_
  exact Decodes.bind' (e2 := []) (decodes_tryRead (decodes_u2Str _ h2)) (Decodes.pure _) (by simp)

theorem encPair_ne_nil (p : UStr × UStr) : encPair p ≠ [] := by
  unfold encPair
  intro h
  exact encStr_ne_nil p.1 (List.append_eq_nil_iff.mp h).1

/-- one datagram body of the rules answer, from any accumulated state -/
theorem parseRules_body (st : MutatorsAndRules) (ps : List (UStr × UStr))
    (hw : ∀ p ∈ ps, wfStr p.1 = true ∧ wfStr p.2 = true) :
    DecodesEnd (parseRules st) (ps.map encPair).flatten (ps.foldl addText st) := by
  intro b hr
  have hlen := flatten_length_ge encPair ps (fun p _ => encPair_ne_nil p)
  obtain ⟨b', h1, _, h3⟩ := whileRemaining_decodes rulesStep encPair addText ps (fun p _ => encPair_ne_nil p)
    (fun st p hp => decodes_rulesStep st p (hw p hp).1 (hw p hp).2) (b.remaining + 1) st b hr
    (by simp only [Buf.remaining, hr]; omega)
  exact ⟨b', h1, h3⟩

/-! ### players -/

theorem decodes_playerStep (st : Players) (p : SPlayer) (h : wfPlayer p = true) :
    Decodes (playerStep st) (encPlayer p) (st.push (expectedPlayer p)) := by
  simp only [wfPlayer, Bool.and_eq_true, decide_eq_true_eq] at h
  obtain ⟨⟨⟨⟨⟨hid, hname⟩, hping⟩, hlo⟩, hhi⟩, hstats⟩ := h
  unfold playerStep encPlayer
  simp only [List.append_assoc]
  refine Decodes.bind (decodes_le 4 _ (by simpa using hid)) ?_
  refine Decodes.bind (decodes_u2Str _ hname) ?_
  refine Decodes.bind (decodes_le 4 _ (by simpa using hping)) ?_
  refine Decodes.bind (decodes_signed .little 4 (by omega) p.score (by simpa using hlo) (by simpa using hhi)) ?_
  refine Decodes.bind' (e2 := []) (decodes_le 4 _ (by simpa using hstats)) ?_ (by simp [le])
  exact Decodes.pure _

theorem encPlayer_ne_nil (p : SPlayer) : encPlayer p ≠ [] := by
  unfold encPlayer
  intro h
  have := congrArg List.length h
  simp [le, natLE_length] at this

def pushPlayer (st : Players) (p : SPlayer) : Players := st.push (expectedPlayer p)

/-- one datagram body of the players answer, from any accumulated state -/
theorem parsePlayers_body (st : Players) (ps : List SPlayer) (hw : ∀ p ∈ ps, wfPlayer p = true) :
    DecodesEnd (parsePlayers st) (ps.map encPlayer).flatten (ps.foldl pushPlayer st) := by
  intro b hr
  have hlen := flatten_length_ge encPlayer ps (fun p _ => encPlayer_ne_nil p)
  obtain ⟨b', h1, _, h3⟩ := whileRemaining_decodes playerStep encPlayer pushPlayer ps (fun p _ => encPlayer_ne_nil p)
    (fun st p hp => decodes_playerStep st p (hw p hp)) (b.remaining + 1) st b hr
    (by simp only [Buf.remaining, hr]; omega)
  exact ⟨b', h1, h3⟩

/-- pushing players one by one: humans and bots each keep their order; a bot iff ping = 0 -/
theorem foldl_pushPlayer (ps : List SPlayer) (st : Players) :
    ps.foldl pushPlayer st =
      ⟨st.players ++ (ps.filter (·.ping != 0)).map expectedPlayer, st.bots ++ (ps.filter (·.ping == 0)).map expectedPlayer⟩ := by
  induction ps generalizing st with
  | nil => simp
  | cons p r ih =>
    simp only [List.foldl_cons]
    rw [ih]
    by_cases hp : p.ping = 0
    · simp [pushPlayer, Players.push, expectedPlayer, hp, List.filter_cons]
    · have h1 : (p.ping == 0) = false := by simpa using hp
      simp [pushPlayer, Players.push, expectedPlayer, h1, hp, List.filter_cons]


/-! ### the accumulated mutators and rules are the SPEC's -/


theorem mem_firsts (k : Bytes) (l : List Bytes) : k ∈ firsts l ↔ k ∈ l := by
  induction l with
  | nil => simp [firsts]
  | cons a r ih =>
    simp only [firsts, List.mem_cons, List.mem_filter, ih, bne_iff_ne, ne_eq]
    constructor
    · rintro (h | ⟨h, _⟩)
      · exact Or.inl h
      · exact Or.inr h
    · rintro (h | h)
      · exact Or.inl h
      · by_cases hk : k = a
        · exact Or.inl hk
        · exact Or.inr ⟨h, hk⟩

theorem nodup_firsts (l : List Bytes) : (firsts l).Nodup := by
  induction l with
  | nil => simp [firsts]
  | cons a r ih =>
    simp only [firsts, List.nodup_cons, List.mem_filter, bne_iff_ne, ne_eq]
    exact ⟨fun h => h.2 trivial, ih.filter _⟩

theorem firsts_append_singleton (l : List Bytes) (k : Bytes) :
    firsts (l ++ [k]) = if k ∈ l then firsts l else firsts l ++ [k] := by
  induction l with
  | nil => simp [firsts]
  | cons a r ih =>
    simp only [List.cons_append, firsts, ih]
    by_cases hkr : k ∈ r
    · simp [hkr]
    · simp only [hkr, ↓reduceIte, List.filter_append, List.mem_cons, or_false]
      by_cases hka : k = a
      · subst hka
        simp [firsts]
      · have : (k != a) = true := by simpa using hka
        simp [firsts, this, hka]

theorem valuesOf_append (rs : List (Bytes × Bytes)) (p : Bytes × Bytes) (k : Bytes) :
    valuesOf (rs ++ [p]) k = valuesOf rs k ++ (if p.1 == k then [p.2] else []) := by
  unfold valuesOf
  rw [List.filter_append, List.map_append]
  congr 1
  by_cases h : p.1 == k <;> simp [h]

theorem valuesOf_eq_nil (rs : List (Bytes × Bytes)) (k : Bytes) (h : k ∉ rs.map (·.1)) : valuesOf rs k = [] := by
  unfold valuesOf
  rw [List.map_eq_nil_iff, List.filter_eq_nil_iff]
  intro p hp hk
  apply h
  rw [List.mem_map]
  exact ⟨p, hp, by simpa using hk⟩

theorem setInsert_firsts (vs : List Bytes) (v : Bytes) : setInsert (firsts vs) v = firsts (vs ++ [v]) := by
  unfold setInsert
  rw [firsts_append_singleton]
  simp only [List.contains_iff_mem, mem_firsts]

/-- adding a value under a key to a map that lists each key once -/
theorem rulesAdd_map (ks : List Bytes) (hn : ks.Nodup) (g : Bytes → List Bytes) (key v : Bytes) :
    rulesAdd (ks.map fun k => (k, g k)) key (some v) =
      if key ∈ ks then ks.map (fun k => (k, g k ++ (if key == k then [v] else [])))
      else (ks.map fun k => (k, g k)) ++ [(key, [v])] := by
  induction ks with
  | nil => simp [rulesAdd]
  | cons a r ih =>
    simp only [List.nodup_cons] at hn
    simp only [List.map_cons, rulesAdd]
    by_cases ha : a = key
    · subst ha
      simp only [beq_self_eq_true, ↓reduceIte, Option.toList_some, List.mem_cons, true_or, List.cons.injEq,
        true_and]
      apply List.map_congr_left
      intro k hk
      have : (a == k) = false := by
        rw [beq_eq_false_iff_ne]
        rintro rfl
        exact hn.1 hk
      simp [this]
    · have h1 : (a == key) = false := by simpa using ha
      have h2 : (key == a) = false := by
        rw [beq_eq_false_iff_ne]; exact fun h => ha h.symm
      simp only [h1, Bool.false_eq_true, ↓reduceIte, ih hn.2, List.mem_cons, h2, List.append_nil]
      have h3 : (key = a) = False := by simp; exact fun h => ha h.symm
      simp only [h3, false_or]
      split <;> simp

def mrOf (kv : List (Bytes × Bytes)) : MutatorsAndRules := ⟨expectedMutators kv, expectedRules kv⟩

theorem isMutatorKey_eq (k : Bytes) : (asciiLower k == mutatorKey) = isMutatorKey k := rfl

/-- the accumulator after one more pair is the SPEC's view of the longer list -/
theorem mrOf_add (kv : List (Bytes × Bytes)) (p : Bytes × Bytes) :
    (mrOf kv).add p.1 (some p.2) = mrOf (kv ++ [p]) := by
  unfold MutatorsAndRules.add mrOf
  rw [isMutatorKey_eq]
  by_cases hm : isMutatorKey p.1 = true
  · simp only [hm, ↓reduceIte]
    have h1 : expectedMutators (kv ++ [p]) = setInsert (expectedMutators kv) p.2 := by
      unfold expectedMutators
      rw [setInsert_firsts, List.filter_append, List.map_append]
      simp [hm]
    have h2 : expectedRules (kv ++ [p]) = expectedRules kv := by
      unfold expectedRules
      simp [List.filter_append, hm]
    rw [h1, h2]
  · have hm' : isMutatorKey p.1 = false := by simpa using hm
    simp only [hm', Bool.false_eq_true, ↓reduceIte]
    have h1 : expectedMutators (kv ++ [p]) = expectedMutators kv := by
      unfold expectedMutators
      simp [List.filter_append, hm']
    rw [h1]
    congr 1
    unfold expectedRules
    simp only [List.filter_append, List.filter_cons, hm', Bool.not_false, ↓reduceIte, List.filter_nil,
      List.map_append, List.map_cons, List.map_nil]
    generalize hrs : kv.filter (fun x => !isMutatorKey x.1) = rs
    rw [rulesAdd_map _ (nodup_firsts _), firsts_append_singleton]
    simp only [mem_firsts]
    by_cases hk : p.1 ∈ rs.map (·.1)
    · simp only [hk, ↓reduceIte]
      apply List.map_congr_left
      intro k _
      rw [valuesOf_append]
    · simp only [hk, ↓reduceIte, List.map_append, List.map_cons, List.map_nil]
      congr 1
      · apply List.map_congr_left
        intro k hk'
        rw [valuesOf_append]
        have : (p.1 == k) = false := by
          rw [beq_eq_false_iff_ne]
          rintro rfl
          exact hk ((mem_firsts _ _).mp hk')
        simp [this]
      · rw [valuesOf_append, valuesOf_eq_nil rs p.1 hk]
        simp

theorem foldl_add_mrOf (kv pre : List (Bytes × Bytes)) :
    kv.foldl (fun st p => st.add p.1 (some p.2)) (mrOf pre) = mrOf (pre ++ kv) := by
  induction kv generalizing pre with
  | nil => simp
  | cons p r ih =>
    simp only [List.foldl_cons]
    rw [mrOf_add, ih]
    simp


theorem mrOf_nil : mrOf [] = MutatorsAndRules.empty := rfl

def pairText (p : UStr × UStr) : Bytes × Bytes := (p.1.text, p.2.text)

/-- folding the pairs of any number of datagram bodies, one after the other, into the accumulator -/
theorem foldl_addText (ps : List (UStr × UStr)) (pre : List (Bytes × Bytes)) :
    ps.foldl addText (mrOf pre) = mrOf (pre ++ ps.map pairText) := by
  have := foldl_add_mrOf (ps.map pairText) pre
  rw [List.foldl_map] at this
  exact this

/-! ### cutting a list into datagrams loses nothing -/

theorem split_flatten {α : Type} (cuts : List Nat) (l : List α) : (split cuts l).flatten = l := by
  induction cuts generalizing l with
  | nil => simp [split]
  | cons n r ih => simp [split, ih]

theorem split_ne_nil {α : Type} (cuts : List Nat) (l : List α) : split cuts l ≠ [] := by
  cases cuts <;> simp [split]

end Gd.Unreal2
