import GdVerif.Lemmas.QBounds
import GdVerif.Proto.Gs3
/-
  Blocking steps of the GameSpy 3 exchange that can run into their timeout, and the silent server.
  An attempt has up to two sends and any number of receives (challenge reply, splitnum packets), but
  every error ends the attempt (`?`), so at most one of them runs into its timeout; the loop over the
  splitnum packets ends the attempt at its first timeout.
-/
namespace Gd.Gs3
open Gd

theorem block_receive (s : Sock) (size : Option Nat) (kind : Nat) : Block 0 1 (receive s size kind) := by
  unfold receive
  exact (Block.bind (Block.recv s _) fun d => Block.parse (readHeader kind) d).weaken (by omega) (by omega)

theorem block_recvPackets (s : Sock) : ∀ (fuel : Nat) (a : Acc), Block 0 1 (recvPackets s fuel a) := by
  intro fuel
  induction fuel with
  | zero => intro a w; exact ⟨[], by simp [recvPackets], by simp [recvPackets, nBlocked]⟩
  | succ fuel ih =>
    intro a
    unfold recvPackets
    refine Block.ite ?_ ((Block.lift _).weaken (by omega) (by omega))
    have h := Block.bind (block_receive s none 0) fun data =>
      Block.bind (Block.parse readFrag data) fun f =>
        Block.bind (Block.lift (accept a f)) fun a' => ih a'
    exact h.weaken (by omega) (by omega)

theorem block_makeInitialHandshake (s : Sock) : Block 0 1 (makeInitialHandshake s) := by
  unfold makeInitialHandshake
  have h := Block.bind (Block.send s (requestBytes 9 none none)) fun _ =>
    Block.bind (block_receive s (some 16) 9) fun d => Block.parse parseChallenge d
  exact h.weaken (by omega) (by omega)

theorem block_tail (s : Sock) (single : Bool) :
    Block 0 1 (if single = true then (do
        let data ← receive s none 0
        let rest ← parse readSingle data
        pure [rest])
      else recvAll s) := by
  refine Block.ite ?_ ?_
  · have h := Block.bind (block_receive s none 0) fun data =>
      Block.bind (Block.parse readSingle data) fun rest => Block.pure [rest]
    exact h.weaken (by omega) (by omega)
  · exact fun w => block_recvPackets s (queued s w + 1) Acc.init w

/-- one attempt: a blocking step runs into its timeout only if the attempt fails, and then once -/
theorem block_getServerPacketsImpl (s : Sock) (payload : Bytes) (single : Bool) :
    Block 0 1 (getServerPacketsImpl s payload single) := by
  unfold getServerPacketsImpl sendDataRequest
  have h := Block.bind (block_makeInitialHandshake s) fun ch =>
    Block.bind (Block.send s (requestBytes 0 ch (some payload))) fun _ => block_tail s single
  exact h.weaken (by omega) (by omega)

theorem block_getServerPackets (s : Sock) (retries : Nat) (payload : Bytes) (single : Bool) :
    Block retries (retries + 1) (getServerPackets s retries payload single) :=
  Block.retrySharp (block_getServerPacketsImpl s payload single) retries

theorem block_query (port retries : Nat) : Block retries (retries + 1) (query port retries) := by
  unfold query
  have h := Block.bind (Block.openSock false port) fun s =>
    Block.bind (block_getServerPackets s retries DEFAULT_PAYLOAD false) fun p => Block.lift (buildResponse p)
  exact h.weaken (by omega) (by omega)

theorem block_queryVars (port retries : Nat) : Block retries (retries + 1) (queryVars port retries) := by
  unfold queryVars
  have h := Block.bind (Block.openSock false port) fun s =>
    Block.bind (block_getServerPackets s retries DEFAULT_PAYLOAD false) fun p => Block.lift (buildVars p)
  exact h.weaken (by omega) (by omega)

/-- one attempt against a silent server: the handshake request is sent, its receive times out; the
data request is never sent -/
theorem silent_getServerPacketsImpl (s : Sock) (payload : Bytes) (single : Bool) :
    SilentAttempt s 1 (getServerPacketsImpl s payload single) := by
  unfold getServerPacketsImpl makeInitialHandshake receive
  refine SilentAttempt.bind_left ?_ _
  exact SilentAttempt.seq (k2 := 0) (SilentSends.send s _) fun _ =>
    ((SilentAttempt.recv s _).bind_left _).bind_left _

theorem silent_getServerPackets (s : Sock) (retries : Nat) (payload : Bytes) (single : Bool) :
    SilentRun s (retries + 1) (retries + 1) (getServerPackets s retries payload single) :=
  (silent_getServerPacketsImpl s payload single).retry1 retries

theorem silent_query (port retries : Nat) (w : Net) (hf : w.faults = [])
    (hp : PendingSilent false (retries + 1) w.pending) :
    SilentOutcome w (query port retries w) (retries + 1) (retries + 1) := by
  unfold query
  exact SilentRun.openSock (fun s _ => (silent_getServerPackets s retries _ _).bind_left _) port w hf hp

theorem silent_queryVars (port retries : Nat) (w : Net) (hf : w.faults = [])
    (hp : PendingSilent false (retries + 1) w.pending) :
    SilentOutcome w (queryVars port retries w) (retries + 1) (retries + 1) := by
  unfold queryVars
  exact SilentRun.openSock (fun s _ => (silent_getServerPackets s retries _ _).bind_left _) port w hf hp

end Gd.Gs3
