import GdVerif.Lemmas.Gs2
import GdVerif.Lemmas.QLogic
/-
  GameSpy 2: the variables block, the whole body and the whole query against the SPEC.
-/
namespace Gd.Gs2
open Gd Gd.Gs Gd.Gs2.Spec

/-! ### cursor facts -/

theorem readCStr_nul (b : Buf) (post : Bytes) (h : b.rest = 0 :: post) : readCStr b = .ok ([], b.advance 1) := by
  unfold readCStr readStringWith utf8Dec
  simp [h, findByte, validUtf8]

theorem retreat_advance_one (b : Buf) (x : UInt8) (r : Bytes) (h : b.rest = x :: r) : (b.advance 1).retreat 1 = b := by
  cases b with
  | mk pre rest =>
    simp only at h
    subst h
    simp [Buf.advance, Buf.retreat]

theorem moveCursor_back_one (b : Buf) (x : UInt8) (r : Bytes) (h : b.rest = x :: r) :
    moveCursor (-1) (b.advance 1) = .ok ((), b) := by
  unfold moveCursor
  have hpos : (b.advance 1).pos = b.pos + 1 := Buf.pos_advance b 1 (by simp [h])
  have hlen : (b.advance 1).len = b.len := by
    simp [Buf.len, Buf.advance, h]
    omega
  have hle : b.pos + 1 ≤ b.len := by simp [Buf.len, Buf.pos, h]
  simp only [hpos, hlen]
  have c1 : ¬ (((b.pos + 1 : Nat) : Int) + (-1) < 0 ∨ ((b.pos + 1 : Nat) : Int) + (-1) > (b.len : Int)) := by omega
  simp only [Bool.or_eq_true, decide_eq_true_eq, c1, ↓reduceIte]
  have c2 : ¬ ((-1 : Int) ≥ 0) := by omega
  simp only [c2, ↓reduceIte]
  have : (-(-1 : Int)).toNat = 1 := by decide
  rw [this, retreat_advance_one b x r h]

/-! ### the variables -/

def OkVar (p : Bytes × Bytes) : Prop := OkStr p.1 ∧ p.1 ≠ [] ∧ OkStr p.2

theorem serverVarsLoop_enc : ∀ (ps : List (Bytes × Bytes)) (fuel : Nat) (m : Map Bytes) (b : Buf) (post : Bytes),
    (∀ p ∈ ps, OkVar p) → b.rest = (ps.map encPair).flatten ++ [0] ++ (0 :: post) → b.remaining < fuel →
    ∃ b', serverVarsLoop fuel m b = .ok (ps.foldl (fun m p => mapInsert m p.1 p.2) m, b')
      ∧ b'.rest = 0 :: post ∧ b'.data = b.data := by
  intro ps
  induction ps with
  | nil =>
    intro fuel m b post _ hr hf
    simp only [List.map_nil, List.flatten_nil, List.nil_append, List.singleton_append] at hr
    cases fuel with
    | zero => omega
    | succ f =>
      have hrem : (b.remaining == 0) = false := by simp [Buf.remaining, hr]
      simp only [serverVarsLoop, hrem, Bool.false_eq_true, ↓reduceIte, List.foldl_nil]
      have h1 := readCStr_nul b (0 :: post) hr
      have hr1 : (b.advance 1).rest = 0 :: post := by simp [hr]
      have h2 := readCStr_nul (b.advance 1) post hr1
      have hstep : serverVarsStep m b = .ok ((m, true), b.advance 1) := by
        unfold serverVarsStep
        rw [Par.bind_ok h1, Par.bind_ok h2]
        simp only [List.isEmpty_nil, ↓reduceIte]
        rw [Par.bind_ok (moveCursor_back_one (b.advance 1) 0 post hr1)]
        rfl
      rw [hstep]
      exact ⟨b.advance 1, rfl, hr1, by simp⟩
  | cons p r ih =>
    intro fuel m b post hok hr hf
    have hp := hok p (by simp)
    cases fuel with
    | zero => omega
    | succ f =>
      have hrest : b.rest = cstr p.1 ++ (cstr p.2 ++ ((r.map encPair).flatten ++ [0] ++ (0 :: post))) := by
        simpa [encPair, List.append_assoc] using hr
      have hrem : (b.remaining == 0) = false := by simp [Buf.remaining, hrest, cstr]
      simp only [serverVarsLoop, hrem, Bool.false_eq_true, ↓reduceIte, List.foldl_cons]
      obtain ⟨b1, h1, hr1, hd1⟩ := decodes_cell p.1 hp.1 b _ hrest
      obtain ⟨b2, h2, hr2, hd2⟩ := decodes_cell p.2 hp.2.2 b1 _ hr1
      have hne : p.1.isEmpty = false := by
        cases hk : p.1 with
        | nil => exact absurd hk hp.2.1
        | cons _ _ => rfl
      have hstep : serverVarsStep m b = .ok ((mapInsert m p.1 p.2, false), b2) := by
        unfold serverVarsStep
        rw [Par.bind_ok h1, Par.bind_ok h2]
        simp only [hne, Bool.false_eq_true, ↓reduceIte]
        rfl
      rw [hstep]
      simp only [Bool.false_eq_true, ↓reduceIte]
      have hlen : b2.remaining < f := by
        have e1 : b.remaining = (cstr p.1).length + ((cstr p.2).length + b2.remaining) := by
          simp only [Buf.remaining, hrest, hr2, List.length_append]
        simp only [cstr, List.length_append, List.length_cons, List.length_nil] at e1
        omega
      obtain ⟨b3, h3, hr3, hd3⟩ := ih f (mapInsert m p.1 p.2) b2 post (fun q hq => hok q (by simp [hq])) hr2 hlen
      exact ⟨b3, h3, hr3, by rw [hd3, hd2, hd1]⟩

theorem getServerVars_enc (ps : List (Bytes × Bytes)) (hok : ∀ p ∈ ps, OkVar p) (hd : Distinct ps) (b : Buf) (post : Bytes)
    (hr : b.rest = (ps.map encPair).flatten ++ [0] ++ (0 :: post)) :
    ∃ b', getServerVars b = .ok (canon ps, b') ∧ b'.rest = 0 :: post ∧ b'.data = b.data := by
  obtain ⟨b', h1, h2, h3⟩ := serverVarsLoop_enc ps (b.remaining + 1) [] b post hok hr (by omega)
  refine ⟨b', ?_, h2, h3⟩
  unfold getServerVars
  rw [h1]
  simp only
  rw [foldl_mapInsert_fresh [] ps (fun p _ => not_hasKey_nil _) hd]
  simp

/-! ### what `wf` says -/

structure Wf (y : Style) (st : State) : Prop where
  name : OkStr st.name
  map : OkStr st.map
  maxp : st.playersMaximum < 2 ^ 32
  reported : ∀ v, st.reportedPlayers = some v → v < 2 ^ 32
  minp : ∀ v, st.playersMinimum = some v → v < 2 ^ 32
  nplayers : st.players.length < 256
  nteams : st.teams.length < 256
  players : ∀ p ∈ st.players, WfPlayer p
  teams : ∀ t ∈ st.teams, WfTeam t
  extrasOk : ∀ e ∈ st.extras, OkVar e
  extrasKeys : ∀ e ∈ st.extras, e.1 ∉ typedKeys
  extrasDistinct : Distinct st.extras
  pcols : WfCols [bs "player_", bs "score_", bs "ping_", bs "team_"] y.playerCols
  tcols : WfCols [bs "team_t", bs "score_t"] y.teamCols
  size : (reply y st).length ≤ 2048

theorem option_all_iff {α : Type} (o : Option α) (p : α → Bool) : o.all p = true ↔ ∀ v, o = some v → p v = true := by
  cases o <;> simp

theorem distinctKeys_iff (m : List (Bytes × Bytes)) : distinctKeys m = true ↔ Distinct m := by
  induction m with
  | nil => simp [distinctKeys, Distinct]
  | cons p r ih =>
    obtain ⟨k, v⟩ := p
    simp only [distinctKeys, Bool.and_eq_true, Bool.not_eq_true', List.any_eq_false, beq_iff_eq, ih, Distinct,
      List.pairwise_cons]
    constructor
    · rintro ⟨h1, h2⟩
      exact ⟨fun q hq e => h1 q hq e.symm, h2⟩
    · rintro ⟨h1, h2⟩
      exact ⟨fun q hq e => h1 q hq e.symm, h2⟩

theorem wfCols_of (std : List Bytes) (cols : List (Bytes × Bytes)) (h1 : ∀ c ∈ cols, wfCol std c = true)
    (h2 : Distinct cols) : WfCols std cols := by
  refine ⟨?_, ?_⟩
  · intro c hc
    have := h1 c hc
    simp only [wfCol, Bool.and_eq_true, Bool.not_eq_true', okStr_iff, List.isEmpty_eq_false_iff] at this
    refine ⟨this.1.1.1, this.1.1.2, this.1.2, ?_⟩
    intro hm
    have : std.contains c.1 = true := by simpa using hm
    simp_all
  · unfold List.Nodup
    rw [List.pairwise_map]
    exact h2

theorem wf_iff (y : Style) (st : State) : wf y st = true → Wf y st := by
  intro h
  simp only [wf, Bool.and_eq_true, decide_eq_true_eq, List.all_eq_true, option_all_iff, okStr_iff, distinctKeys_iff] at h
  obtain ⟨⟨⟨⟨⟨⟨⟨⟨⟨⟨⟨⟨⟨⟨⟨h1, h2⟩, h3⟩, h4⟩, h5⟩, h6⟩, h7⟩, h8⟩, h9⟩, h10⟩, h11⟩, h12⟩, h13⟩, h14⟩, h15⟩, h16⟩ := h
  refine ⟨h1, h2, h3, h4, h5, h6, h7, ?_, ?_, ?_, ?_, h11, wfCols_of _ _ h12 h14, wfCols_of _ _ h13 h15, h16⟩
  · intro p hp
    have := h8 p hp
    simpa [wfPlayer, WfPlayer, okStr_iff, and_assoc] using this
  · intro t ht
    have := h9 t ht
    simpa [wfTeam, WfTeam, okStr_iff] using this
  · intro e he
    have := h10 e he
    simp only [wfExtra, Bool.and_eq_true, Bool.not_eq_true', okStr_iff, List.isEmpty_eq_false_iff] at this
    exact ⟨this.1.1.1, this.1.1.2, this.1.2⟩
  · intro e he
    have := h10 e he
    simp only [wfExtra, Bool.and_eq_true, Bool.not_eq_true'] at this
    intro hm
    have hc : typedKeys.contains e.1 = true := by simpa using hm
    rw [hc] at this
    exact absurd this.2 (by simp)

/-! ### the server variables as a table -/

def skeleton (st : State) : List (Bytes × Option Bytes) :=
  [(bs "hostname", some st.name), (bs "mapname", some st.map),
   (bs "password", some (if st.hasPassword then bs "1" else bs "0")), (bs "maxplayers", some (dec st.playersMaximum)),
   (bs "numplayers", st.reportedPlayers.map dec), (bs "minplayers", st.playersMinimum.map dec)]

theorem optPair_eq {α : Type} (k : Bytes) (f : α → Bytes) (o : Option α) : optPair k f o = present [(k, o.map f)] := by
  cases o <;> rfl

theorem serverPairs_eq (st : State) : serverPairs st = present (skeleton st) ++ st.extras := by
  unfold serverPairs
  rw [optPair_eq, optPair_eq]
  have h4 : [(bs "hostname", st.name), (bs "mapname", st.map), (bs "password", if st.hasPassword then bs "1" else bs "0"),
      (bs "maxplayers", dec st.playersMaximum)]
      = present [(bs "hostname", some st.name), (bs "mapname", some st.map),
          (bs "password", some (if st.hasPassword then bs "1" else bs "0")), (bs "maxplayers", some (dec st.playersMaximum))] := rfl
  rw [h4, ← present_append, ← present_append]
  simp [skeleton]

theorem skeleton_keys (st : State) : (skeleton st).map (·.1) = [bs "hostname", bs "mapname", bs "password", bs "maxplayers",
    bs "numplayers", bs "minplayers"] := by simp [skeleton]

theorem skeleton_nodup : ([bs "hostname", bs "mapname", bs "password", bs "maxplayers", bs "numplayers", bs "minplayers"] :
    List Bytes).Nodup ∧ ∀ k ∈ ([bs "hostname", bs "mapname", bs "password", bs "maxplayers", bs "numplayers", bs "minplayers"] :
    List Bytes), k ∈ typedKeys ∧ OkStr k ∧ k ≠ [] := by
  refine ⟨by decide +kernel, ?_⟩
  intro k hk
  simp only [List.mem_cons, List.not_mem_nil, or_false] at hk
  rcases hk with rfl | rfl | rfl | rfl | rfl | rfl <;>
    exact ⟨by decide +kernel, (okStr_iff _).mp (by decide +kernel), by decide +kernel⟩

theorem mem_present {sk : List (Bytes × Option Bytes)} {p : Bytes × Bytes} (h : p ∈ present sk) : (p.1, some p.2) ∈ sk := by
  simp only [present, List.mem_flatMap] at h
  obtain ⟨e, he, hp⟩ := h
  cases ho : e.2 with
  | none => simp [ho] at hp
  | some v =>
    simp only [ho, List.mem_singleton] at hp
    subst hp
    have : e = (e.1, some v) := by rw [← ho]
    rw [← this]; exact he

section
variable {y : Style} {st : State}

theorem tg_hostname : tableGet (skeleton st) (bs "hostname") = some st.name := by
  simp (config := { decide := true }) [tableGet, skeleton]
theorem tg_mapname : tableGet (skeleton st) (bs "mapname") = some st.map := by
  simp (config := { decide := true }) [tableGet, skeleton]
theorem tg_password : tableGet (skeleton st) (bs "password") = some (if st.hasPassword then bs "1" else bs "0") := by
  simp (config := { decide := true }) [tableGet, skeleton]
theorem tg_maxplayers : tableGet (skeleton st) (bs "maxplayers") = some (dec st.playersMaximum) := by
  simp (config := { decide := true }) [tableGet, skeleton]
theorem tg_numplayers : tableGet (skeleton st) (bs "numplayers") = st.reportedPlayers.map dec := by
  simp (config := { decide := true }) [tableGet, skeleton]
theorem tg_minplayers : tableGet (skeleton st) (bs "minplayers") = st.playersMinimum.map dec := by
  simp (config := { decide := true }) [tableGet, skeleton]

/-- the variables sent are admissible and have distinct keys -/
theorem serverPairs_ok (h : Wf y st) : (∀ p ∈ serverPairs st, OkVar p) ∧ Distinct (serverPairs st) := by
  have hsk := skeleton_nodup
  have hval : ∀ e ∈ skeleton st, ∀ v, e.2 = some v → OkStr v := by
    intro e he v hv
    simp only [skeleton, List.mem_cons, List.not_mem_nil, or_false] at he
    rcases he with rfl | rfl | rfl | rfl | rfl | rfl
    · cases hv; exact h.name
    · cases hv; exact h.map
    · cases hv; cases st.hasPassword <;> exact (okStr_iff _).mp (by decide +kernel)
    · cases hv; exact okStr_dec _
    · cases hr : st.reportedPlayers <;> simp [hr] at hv; subst hv; exact okStr_dec _
    · cases hr : st.playersMinimum <;> simp [hr] at hv; subst hv; exact okStr_dec _
  rw [serverPairs_eq]
  refine ⟨?_, ?_⟩
  · intro p hp
    rcases List.mem_append.mp hp with h1 | h1
    · have hm := mem_present h1
      have hk : p.1 ∈ (skeleton st).map (·.1) := List.mem_map.mpr ⟨_, hm, rfl⟩
      rw [skeleton_keys] at hk
      exact ⟨(hsk.2 _ hk).2.1, (hsk.2 _ hk).2.2, hval _ hm _ rfl⟩
    · exact h.extrasOk p h1
  · refine List.pairwise_append.mpr ⟨?_, h.extrasDistinct, ?_⟩
    · -- the present part: keys are a sublist of the (distinct) skeleton keys
      have : ((present (skeleton st)).map (·.1)).Sublist ((skeleton st).map (·.1)) := by
        generalize skeleton st = sk
        induction sk with
        | nil => simp [present]
        | cons e r ih =>
          obtain ⟨k, o⟩ := e
          have e1 : present ((k, o) :: r) = present [(k, o)] ++ present r := present_append [(k, o)] r
          rw [e1, List.map_append, List.map_cons]
          cases o with
          | none => simpa [present] using ih.cons k
          | some v => simpa [present] using ih.cons₂ k
      have hnd : ((present (skeleton st)).map (·.1)).Nodup :=
        List.Pairwise.sublist this (by rw [skeleton_keys]; exact hsk.1)
      exact List.pairwise_map.mp hnd
    · intro a ha b hb hab
      have hm := mem_present ha
      have hk : a.1 ∈ (skeleton st).map (·.1) := List.mem_map.mpr ⟨_, hm, rfl⟩
      rw [skeleton_keys] at hk
      exact h.extrasKeys b hb (hab ▸ (hsk.2 _ hk).1)

/-- typed keys are looked up in the table -/
theorem mapGet_serverPairs_typed (h : Wf y st) (k : Bytes) (hk : k ∈ typedKeys) :
    mapGet (serverPairs st) k = tableGet (skeleton st) k := by
  have hne : ¬ HasKey st.extras k := by
    rintro ⟨p, hp, hpk⟩
    exact h.extrasKeys p hp (hpk ▸ hk)
  rw [serverPairs_eq, mapGet_append, mapGet_present _ (by rw [skeleton_keys]; exact skeleton_nodup.1)]
  cases hs : tableGet (skeleton st) k with
  | some v => rfl
  | none => simp only; exact mapGet_none_of_not_hasKey hne

/-- the decoding `query` does after the tables have been read -/
def finish (vars : Map Bytes) (players : List Player) (teams : List Team) : Res Response := do
  let (numText, vars) := take vars "numplayers"
  let reported ← optParse numText 64
  let (minText, vars) := take vars "minplayers"
  let playersMinimum ← optParse minText 32
  let (name, vars) := take vars "hostname"
  let name ← okOr name .packetBad
  let (map, vars) := take vars "mapname"
  let map ← okOr map .packetBad
  let (pw, vars) := take vars "password"
  let pw ← okOr pw .packetBad
  let (maxText, vars) := take vars "maxplayers"
  let maxText ← okOr maxText .packetBad
  let playersMaximum ← okOr (parseUnsigned 32 maxText) .typeParse
  pure { name, map, hasPassword := pw == asciiBytes "1", teams, playersMaximum,
         playersOnline := playersOnline reported players.length, playersMinimum, players, unusedEntries := vars }

theorem optParse_map (o : Option Nat) (bits : Nat) (h : ∀ v, o = some v → v < 2 ^ bits) : optParse (o.map dec) bits = .ok o := by
  cases o with
  | none => rfl
  | some v => simp [optParse, parseUnsigned_dec bits v (h v rfl)]

theorem finish_eq (h : Wf y st) : finish (canon (serverPairs st)) st.players st.teams = .ok (expected st) := by
  have hd := (serverPairs_ok h).2
  have ab : ∀ s : String, asciiBytes s = bs s := fun _ => rfl
  have hV : ∀ k, k ∈ typedKeys → mapGet (canon (serverPairs st)) k = tableGet (skeleton st) k := fun k hk => by
    rw [mapGet_canon hd, mapGet_serverPairs_typed h k hk]
  have e0 : mapGet (canon (serverPairs st)) (bs "numplayers") = st.reportedPlayers.map dec := by
    rw [hV (bs "numplayers") (by decide +kernel), tg_numplayers]
  have e1 : mapGet (mapRemove (canon (serverPairs st)) (bs "numplayers")) (bs "minplayers") = st.playersMinimum.map dec := by
    rw [mapGet_mapRemove_ne] <;> first | (rw [hV (bs "minplayers") (by decide +kernel), tg_minplayers]) | decide
  have e2 : mapGet (mapRemove (mapRemove (canon (serverPairs st)) (bs "numplayers")) (bs "minplayers")) (bs "hostname") = some st.name := by
    rw [mapGet_mapRemove_ne, mapGet_mapRemove_ne] <;> first | (rw [hV (bs "hostname") (by decide +kernel), tg_hostname]) | decide
  have e3 : mapGet (mapRemove (mapRemove (mapRemove (canon (serverPairs st)) (bs "numplayers")) (bs "minplayers")) (bs "hostname")) (bs "mapname") = some st.map := by
    rw [mapGet_mapRemove_ne, mapGet_mapRemove_ne, mapGet_mapRemove_ne] <;> first | (rw [hV (bs "mapname") (by decide +kernel), tg_mapname]) | decide
  have e4 : mapGet (mapRemove (mapRemove (mapRemove (mapRemove (canon (serverPairs st)) (bs "numplayers")) (bs "minplayers")) (bs "hostname")) (bs "mapname")) (bs "password") = some (if st.hasPassword then bs "1" else bs "0") := by
    rw [mapGet_mapRemove_ne, mapGet_mapRemove_ne, mapGet_mapRemove_ne, mapGet_mapRemove_ne] <;> first | (rw [hV (bs "password") (by decide +kernel), tg_password]) | decide
  have e5 : mapGet (mapRemove (mapRemove (mapRemove (mapRemove (mapRemove (canon (serverPairs st)) (bs "numplayers")) (bs "minplayers")) (bs "hostname")) (bs "mapname")) (bs "password")) (bs "maxplayers") = some (dec st.playersMaximum) := by
    rw [mapGet_mapRemove_ne, mapGet_mapRemove_ne, mapGet_mapRemove_ne, mapGet_mapRemove_ne, mapGet_mapRemove_ne] <;> first | (rw [hV (bs "maxplayers") (by decide +kernel), tg_maxplayers]) | decide
  unfold finish
  simp only [take, ab]
  simp only [e0, e1, e2, e3, e4, e5, okOr, Res.bind_ok, optParse_map _ 64 (fun v hv => Nat.lt_of_lt_of_le (h.reported v hv) (by decide)),
    optParse_map _ 32 h.minp, parseUnsigned_dec 32 _ h.maxp, Res.pure_eq]
  unfold expected
  have hpw : ((if st.hasPassword then bs "1" else bs "0") == bs "1") = st.hasPassword := by
    cases st.hasPassword <;> decide +kernel
  have honline : playersOnline st.reportedPlayers st.players.length = expectedOnline st := by
    unfold playersOnline expectedOnline
    have hn := h.nplayers
    cases hr : st.reportedPlayers with
    | none => simp only; exact Nat.mod_eq_of_lt (by omega)
    | some r =>
      have := h.reported r hr
      simp only
      split
      · rw [Nat.mod_eq_of_lt (by omega)]; omega
      · rw [Nat.mod_eq_of_lt (by omega)]; omega
  have hunused : (mapRemove (mapRemove (mapRemove (mapRemove (mapRemove (mapRemove (canon (serverPairs st)) (bs "numplayers")) (bs "minplayers")) (bs "hostname")) (bs "mapname")) (bs "password")) (bs "maxplayers")) = canon st.extras := by
    simp only [mapRemove, List.filter_filter]
    rw [canon_filter hd]
    refine congrArg canon ?_
    rw [serverPairs_eq, List.filter_append]
    rw [List.filter_eq_nil_iff.mpr ?hs, List.filter_eq_self.mpr ?he]
    · simp
    case hs =>
      intro p hp
      have hm := mem_present hp
      have hk : p.1 ∈ (skeleton st).map (·.1) := List.mem_map.mpr ⟨_, hm, rfl⟩
      rw [skeleton_keys] at hk
      simp only [List.mem_cons, List.not_mem_nil, or_false] at hk
      rcases hk with h1 | h1 | h1 | h1 | h1 | h1 <;> simp [h1]
    case he =>
      intro e he
      have hnt := h.extrasKeys e he
      have : ∀ k ∈ ([bs "hostname", bs "mapname", bs "password", bs "maxplayers", bs "numplayers", bs "minplayers"] : List Bytes),
          e.1 ≠ k := fun k hk e' => hnt (e' ▸ (skeleton_nodup.2 k hk).1)
      simp [this (bs "hostname") (by simp), this (bs "mapname") (by simp), this (bs "password") (by simp),
        this (bs "maxplayers") (by simp), this (bs "numplayers") (by simp), this (bs "minplayers") (by simp)]
  rw [hpw, honline, hunused]

end

/-! ### the body and the query -/

theorem Par.lift_bind {α β : Type} (r : Res α) (f : α → Par β) (b : Buf) :
    (Par.lift r >>= f) b = match r with
      | .ok a => f a b
      | .err k => .err k
      | .crash => .crash := by
  rw [Par.bind_apply]
  cases r <;> rfl

/-- `parseBody` is the three reads and `finish` -/
theorem parseBody_of_finish (V : Map Bytes) (P : List Player) (T : List Team) (b b1 b2 b3 : Buf) (r : Response)
    (h1 : getServerVars b = .ok (V, b1)) (h2 : getPlayers b1 = .ok (P, b2)) (h3 : getTeams b2 = .ok (T, b3))
    (hf : finish V P T = .ok r) : parseBody b = .ok (r, b3) := by
  unfold parseBody
  rw [Par.bind_ok h1, Par.bind_ok h2]
  unfold finish at hf
  simp only [take] at hf ⊢
  rw [Par.lift_bind]
  cases ha : optParse (mapGet V (asciiBytes "numplayers")) 64 with
  | crash => simp [ha] at hf
  | err k => simp [ha] at hf
  | ok reported =>
    simp only [ha, Res.bind_ok] at hf ⊢
    rw [Par.lift_bind]
    cases hb : optParse (mapGet (mapRemove V (asciiBytes "numplayers")) (asciiBytes "minplayers")) 32 with
    | crash => simp [hb] at hf
    | err k => simp [hb] at hf
    | ok pmin =>
      simp only [hb, Res.bind_ok] at hf ⊢
      rw [Par.lift_bind]
      cases hc : okOr (mapGet (mapRemove (mapRemove V (asciiBytes "numplayers")) (asciiBytes "minplayers")) (asciiBytes "hostname")) ErrKind.packetBad with
      | crash => simp [hc] at hf
      | err k => simp [hc] at hf
      | ok name =>
        simp only [hc, Res.bind_ok] at hf ⊢
        rw [Par.lift_bind]
        cases hd : okOr (mapGet (mapRemove (mapRemove (mapRemove V (asciiBytes "numplayers")) (asciiBytes "minplayers")) (asciiBytes "hostname")) (asciiBytes "mapname")) ErrKind.packetBad with
        | crash => simp [hd] at hf
        | err k => simp [hd] at hf
        | ok map =>
          simp only [hd, Res.bind_ok] at hf ⊢
          rw [Par.lift_bind]
          cases he : okOr (mapGet (mapRemove (mapRemove (mapRemove (mapRemove V (asciiBytes "numplayers")) (asciiBytes "minplayers")) (asciiBytes "hostname")) (asciiBytes "mapname")) (asciiBytes "password")) ErrKind.packetBad with
          | crash => simp [he] at hf
          | err k => simp [he] at hf
          | ok pw =>
            simp only [he, Res.bind_ok] at hf ⊢
            rw [Par.bind_ok h3]
            rw [Par.lift_bind]
            cases hg : okOr (mapGet (mapRemove (mapRemove (mapRemove (mapRemove (mapRemove V (asciiBytes "numplayers")) (asciiBytes "minplayers")) (asciiBytes "hostname")) (asciiBytes "mapname")) (asciiBytes "password")) (asciiBytes "maxplayers")) ErrKind.packetBad with
            | crash => simp [hg] at hf
            | err k => simp [hg] at hf
            | ok maxText =>
              simp only [hg, Res.bind_ok] at hf ⊢
              rw [Par.lift_bind]
              cases hh : okOr (parseUnsigned 32 maxText) ErrKind.typeParse with
              | crash => simp [hh] at hf
              | err k => simp [hh] at hf
              | ok pmax =>
                simp only [hh, Res.bind_ok, Res.pure_eq, Res.ok.injEq] at hf ⊢
                rw [← hf]
                rfl

/-- the body of the reply (after the 5-byte header) -/
def body (y : Style) (st : State) : Bytes :=
  ((serverPairs st).map encPair).flatten ++ [0] ++ encTable (playerHeads y) (st.players.map (playerRow y)) ++
    encTable (teamHeads y) (st.teams.map (teamRow y))

theorem reply_eq (y : Style) (st : State) : reply y st = [0] ++ natBE 4 1 ++ body y st := by
  simp [reply, body, List.append_assoc]

theorem parseBody_enc {y : Style} {st : State} (h : Wf y st) (b : Buf) (hr : b.rest = body y st) :
    ∃ b', parseBody b = .ok (expected st, b') := by
  obtain ⟨hok, hd⟩ := serverPairs_ok h
  obtain ⟨tail, htail⟩ : ∃ tail, encTable (playerHeads y) (st.players.map (playerRow y)) ++
      encTable (teamHeads y) (st.teams.map (teamRow y)) = 0 :: tail := ⟨_, by simp [encTable]; rfl⟩
  obtain ⟨b1, h1, hr1, _⟩ := getServerVars_enc (serverPairs st) hok hd b tail (by
    rw [hr, body, List.append_assoc, List.append_assoc, htail, List.append_assoc])
  rw [← htail] at hr1
  obtain ⟨b2, h2, hr2, _⟩ := decodes_getPlayers y st.players h.players h.pcols h.nplayers b1 _ hr1
  obtain ⟨b3, h3, _, _⟩ := decodes_getTeams y st.teams h.teams h.tcols h.nteams b2 [] (by simpa using hr2)
  exact ⟨b3, parseBody_of_finish _ _ _ b b1 b2 b3 _ h1 h2 h3 (finish_eq h)⟩

theorem checkHeader_reply (y : Style) (st : State) : checkHeader.run (reply y st) = .ok 5 := by
  rw [reply_eq]
  have d1 := decodes_readUnsigned .big 1 0 (by decide)
  have d4 := decodes_readUnsigned .big 4 1 (by decide)
  obtain ⟨b1, h1, hr1, _⟩ := d1 (Buf.new ([0] ++ natBE 4 1 ++ body y st)) (natBE 4 1 ++ body y st) (by
    simp [Endian.encode, natBE, natLE])
  obtain ⟨b2, h2, hr2, hd2⟩ := d4 b1 (body y st) (by simpa [Endian.encode] using hr1)
  unfold Par.run checkHeader
  rw [Par.bind_ok h1]
  simp only [bne_self_eq_false, Bool.false_eq_true, ↓reduceIte]
  rw [Par.bind_ok h2]
  simp only [bne_self_eq_false, Bool.false_eq_true, ↓reduceIte, currentPosition]
  -- the cursor is after the five header bytes
  have hpos : b2.pos = 5 := by
    have hdl := Buf.data_length b2
    have hd1' : b2.data = [0] ++ natBE 4 1 ++ body y st := by
      rw [hd2]; rename_i hd1; rw [hd1]; simp
    have : b2.remaining = (body y st).length := by simp [Buf.remaining, hr2]
    rw [hd1', this] at hdl
    simp only [List.length_append, List.length_cons, List.length_nil, natBE, natLE, List.length_reverse] at hdl
    omega
  rw [hpos]

theorem retry_of_ok {α : Type} (r : Nat) (f : Q α) (w : Net) (a : α) (h : (f w).1 = .ok a) :
    (retryOnTimeout r f w).1 = .ok a ∧ (retryOnTimeout r f w).2 = (f w).2 := by
  cases r with
  | zero => exact ⟨h, rfl⟩
  | succ r =>
    simp only [retryOnTimeout]
    cases hf : f w with
    | mk res w' =>
      rw [hf] at h
      simp only at h
      subst h
      exact ⟨rfl, rfl⟩

/-- the whole query on the reply of a well-formed state -/
theorem query_expected {y : Style} {st : State} (h : Wf y st) (port retries : Nat) :
    (query port retries (Net.init [.opened [.data (reply y st)]] [])).1 = .ok (expected st) := by
  have htake : (reply y st).take PACKET_SIZE = reply y st := List.take_of_length_le h.size
  -- the request/response exchange
  have himpl : ∀ w : Net, w.faults = [] → w.conns.getD 0 [] = [.data (reply y st)] →
      (requestDataImpl ⟨0, port, false⟩ w).1 = .ok (reply y st, 5) := by
    intro w hf hq
    unfold requestDataImpl
    rw [Q.bind_apply]
    have hsend : send ⟨0, port, false⟩ request w = (.ok (), { w with log := w.log ++ [.send 0 port request false] }) := by
      unfold send; rw [hf]
    rw [hsend]
    simp only
    rw [Q.bind_apply]
    have hrecv : ∃ w1, recv ⟨0, port, false⟩ (some PACKET_SIZE) { w with log := w.log ++ [.send 0 port request false] }
        = (.ok ((reply y st).take PACKET_SIZE), w1) := by
      unfold recv
      simp only [hq]
      exact ⟨_, rfl⟩
    obtain ⟨w1, hr⟩ := hrecv
    rw [hr, htake]
    simp only
    rw [Q.bind_apply]
    simp only [parse, Q.lift, checkHeader_reply]
    rfl
  unfold query
  rw [Q.bind_apply]
  simp only [openSock, Net.init, List.length_nil]
  rw [Q.bind_apply]
  have hreq := retry_of_ok retries (requestDataImpl ⟨0, port, false⟩)
    { pending := [], conns := [] ++ [[Delivery.data (reply y st)]], faults := [], log := [] ++ [.opened 0 false port false] }
    (reply y st, 5) (himpl _ rfl (by simp))
  unfold requestData
  cases hrd : retryOnTimeout retries (requestDataImpl ⟨0, port, false⟩)
    { pending := [], conns := [] ++ [[Delivery.data (reply y st)]], faults := [], log := [] ++ [.opened 0 false port false] } with
  | mk res w' =>
    rw [hrd] at hreq
    simp only at hreq
    rw [hreq.1]
    simp only [parse, Q.lift]
    -- the body
    obtain ⟨b1, hm, hr1, _⟩ := decodes_skip ([0] ++ natBE 4 1) (Buf.new (reply y st)) (body y st) (by
      rw [reply_eq]; rfl)
    obtain ⟨b2, hb⟩ := parseBody_enc h b1 hr1
    have hlen : (([0] ++ natBE 4 1 : Bytes).length : Int) = 5 := by decide
    rw [hlen] at hm
    unfold Par.run
    rw [Par.bind_ok (show moveCursor ((5 : Nat) : Int) (Buf.new (reply y st)) = .ok ((), b1) from hm), hb]

end Gd.Gs2
