import GdVerif.Lemmas.Reader
/-
  More of the decoding logic: end-of-packet decoding, optional fields, lists.
-/
namespace Gd

/-- `p` decodes the *whole remaining packet* `e` to `x` -/
def DecodesEnd (p : Par α) (e : Bytes) (x : α) : Prop :=
  ∀ (b : Buf), b.rest = e → ∃ b', p b = .ok (x, b') ∧ b'.data = b.data

theorem Decodes.toEnd {p : Par α} {e : Bytes} {x : α} (h : Decodes p e x) : DecodesEnd p e x := by
  intro b hr
  obtain ⟨b', h1, _, h3⟩ := h b [] (by simpa using hr)
  exact ⟨b', h1, h3⟩

theorem DecodesEnd.bind {p : Par α} {f : α → Par β} {e e1 e2 : Bytes} {x : α} {y : β}
    (h1 : Decodes p e1 x) (h2 : DecodesEnd (f x) e2 y) (he : e = e1 ++ e2) : DecodesEnd (p >>= f) e y := by
  subst he
  intro b hr
  obtain ⟨b1, hp, hr1, hd1⟩ := h1 b e2 hr
  obtain ⟨b2, hf, hd2⟩ := h2 b1 hr1
  exact ⟨b2, by rw [Par.bind_ok hp, hf], by rw [hd2, hd1]⟩

theorem DecodesEnd.bind_pure {p : Par α} {f : α → Par β} {e : Bytes} {x : α} {y : β}
    (h1 : DecodesEnd p e x) (h2 : ∀ b, f x b = .ok (y, b)) : DecodesEnd (p >>= f) e y := by
  intro b hr
  obtain ⟨b1, hp, hd1⟩ := h1 b hr
  exact ⟨b1, by rw [Par.bind_ok hp, h2], hd1⟩

theorem DecodesEnd.run {p : Par α} {e : Bytes} {x : α} (h : DecodesEnd p e x) : p.run e = .ok x := by
  obtain ⟨b', hp, _⟩ := h (Buf.new e) rfl
  simp [Par.run, hp]

theorem Decodes.bind_last {p : Par α} {f : α → Par β} {e : Bytes} {x : α} {y : β}
    (h1 : Decodes p e x) (h2 : Decodes (f x) [] y) : Decodes (p >>= f) e y :=
  Decodes.bind' h1 h2 (List.append_nil e).symm

theorem Decodes.lift_ok (v : α) : Decodes (Par.lift (.ok v)) [] v := by
  intro b post h
  exact ⟨b, rfl, by simpa using h, rfl⟩

theorem Decodes.of_eq {p : Par α} {e e' : Bytes} {x x' : α} (h : Decodes p e x) (he : e' = e) (hx : x' = x) :
    Decodes p e' x' := by subst he; subst hx; exact h

/-- a byte given as a number -/
theorem decodes_u8 (n : Nat) (h : n < 256) : Decodes readU8 [UInt8.ofNat n] n := by
  have := decodes_readU8 (UInt8.ofNat n)
  rwa [show (UInt8.ofNat n).toNat = n by simp [UInt8.toNat_ofNat', Nat.mod_eq_of_lt h]] at this

theorem decodes_le (w n : Nat) (h : n < 256 ^ w) : Decodes (readUnsigned .little w) (natLE w n) n :=
  decodes_readUnsigned .little w n h

theorem decodes_be (w n : Nat) (h : n < 256 ^ w) : Decodes (readUnsigned .big w) (natBE w n) n :=
  decodes_readUnsigned .big w n h

/-- a signed integer in two's complement -/
theorem decodes_signed (e : Endian) (w : Nat) (hw : 0 < w) (i : Int) (hlo : -(2 ^ (8 * w - 1) : Int) ≤ i) (hhi : i < 2 ^ (8 * w - 1)) :
    Decodes (readSigned e w) (e.encode w (ofSigned (8 * w) i)) i := by
  have hpow : (256 : Nat) ^ w = 2 ^ (8 * w) := by
    rw [show (256 : Nat) = 2 ^ 8 by rfl, ← Nat.pow_mul]
  have h2 : (2 : Nat) ^ (8 * w) = 2 * 2 ^ (8 * w - 1) := by
    have : 8 * w = (8 * w - 1) + 1 := by omega
    rw [this, Nat.pow_succ, Nat.mul_comm]; simp
  have hcast : ((2 ^ (8 * w - 1) : Nat) : Int) = (2 : Int) ^ (8 * w - 1) := by simp
  have hlt : ofSigned (8 * w) i < 256 ^ w := by
    rw [hpow]
    unfold ofSigned
    have : i % ((2 ^ (8 * w) : Nat) : Int) < ((2 ^ (8 * w) : Nat) : Int) := Int.emod_lt_of_pos _ (by
      have : 0 < (2 : Nat) ^ (8 * w) := Nat.pow_pos (by omega)
      omega)
    have h0 : 0 ≤ i % ((2 ^ (8 * w) : Nat) : Int) := Int.emod_nonneg _ (by
      have : 0 < (2 : Nat) ^ (8 * w) := Nat.pow_pos (by omega)
      omega)
    omega
  intro b post hr
  obtain ⟨b', h1, hr1, hd1⟩ := decodes_readUnsigned e w _ hlt b post hr
  refine ⟨b', ?_, hr1, hd1⟩
  simp only [readSigned, h1]
  congr 2
  -- toSigned ∘ ofSigned = id on the representable range
  unfold toSigned ofSigned
  have hP : (0 : Int) < ((2 ^ (8 * w) : Nat) : Int) := by
    have : 0 < (2 : Nat) ^ (8 * w) := Nat.pow_pos (by omega)
    omega
  by_cases hneg : i < 0
  · have hm : i % ((2 ^ (8 * w) : Nat) : Int) = i + ((2 ^ (8 * w) : Nat) : Int) := by
      rw [← Int.add_emod_right]
      exact Int.emod_eq_of_lt (by rw [h2]; push_cast; omega) (by omega)
    rw [hm]
    have hge : ¬ (i + ((2 ^ (8 * w) : Nat) : Int)).toNat < 2 ^ (8 * w - 1) := by
      rw [h2]; push_cast; omega
    simp only [hge, ↓reduceIte]
    have : ((i + ((2 ^ (8 * w) : Nat) : Int)).toNat : Int) = i + ((2 ^ (8 * w) : Nat) : Int) :=
      Int.toNat_of_nonneg (by rw [h2]; push_cast; omega)
    omega
  · have hm : i % ((2 ^ (8 * w) : Nat) : Int) = i :=
      Int.emod_eq_of_lt (by omega) (by rw [h2]; push_cast; omega)
    rw [hm]
    have hlt' : i.toNat < 2 ^ (8 * w - 1) := by omega
    simp only [hlt', ↓reduceIte]
    exact Int.toNat_of_nonneg (by omega)

/-- list of items, each decoded by `item` from its own encoding -/
theorem decodes_repeatN {item : Par α} (enc : α → Bytes) (xs : List α)
    (h : ∀ x ∈ xs, Decodes item (enc x) x) : Decodes (repeatN item xs.length) (xs.map enc).flatten xs := by
  induction xs with
  | nil => exact Decodes.pure _
  | cons x r ih =>
    simp only [List.length_cons, repeatN, List.map_cons, List.flatten_cons]
    refine Decodes.bind (h x (by simp)) ?_
    refine Decodes.bind' (e1 := (r.map enc).flatten) (e2 := []) (ih fun y hy => h y (by simp [hy])) (Decodes.pure _) (by simp)

end Gd
