import GdVerif.Lemmas.QLogic
import GdVerif.Lemmas.Reader
import GdVerif.Proto.Unreal2
/-
  Crash-freedom and wire-conformance of the whole Unreal 2 query model.
-/
namespace Gd

/-! ### generic: progress of sequenced parsers -/

theorem NoGrow.pure (a : α) : NoGrow (pure a : Par α) := by
  intro b x b' h
  cases h
  exact Nat.le_refl _

theorem Par.bind_ok_inv {p : Par α} {f : α → Par β} {b b' : Buf} {y : β} (h : (p >>= f) b = .ok (y, b')) :
    ∃ a b1, p b = .ok (a, b1) ∧ f a b1 = .ok (y, b') := by
  rw [Par.bind_apply] at h
  cases hp : p b with
  | ok x => obtain ⟨a, b1⟩ := x; rw [hp] at h; exact ⟨a, b1, rfl, h⟩
  | err k => rw [hp] at h; cases h
  | crash => rw [hp] at h; cases h

theorem NoGrow.bind {p : Par α} {f : α → Par β} (hp : NoGrow p) (hf : ∀ a, NoGrow (f a)) : NoGrow (p >>= f) := by
  intro b y b' h
  obtain ⟨a, b1, h1, h2⟩ := Par.bind_ok_inv h
  exact Nat.le_trans (hf a b1 y b' h2) (hp b a b1 h1)

theorem Progress.bind {p : Par α} {f : α → Par β} (hp : Progress p) (hf : ∀ a, NoGrow (f a)) : Progress (p >>= f) := by
  intro b y b' h
  obtain ⟨a, b1, h1, h2⟩ := Par.bind_ok_inv h
  exact Nat.lt_of_le_of_lt (hf a b1 y b' h2) (hp b a b1 h1)

theorem Progress.noGrow {p : Par α} (hp : Progress p) : NoGrow p :=
  fun b a b' h => Nat.le_of_lt (hp b a b' h)

theorem noGrow_readUnsigned (e : Endian) (w : Nat) : NoGrow (readUnsigned e w) := by
  intro b a b' h
  unfold readUnsigned at h
  split at h
  · cases h
  · cases h
    simp [Buf.remaining, Buf.advance]

theorem noGrow_readSigned (e : Endian) (w : Nat) : NoGrow (readSigned e w) := by
  intro b a b' h
  unfold readSigned at h
  cases hr : readUnsigned e w b with
  | ok x =>
    obtain ⟨n, b1⟩ := x
    rw [hr] at h
    cases h
    exact noGrow_readUnsigned e w b n _ hr
  | err k => rw [hr] at h; cases h
  | crash => rw [hr] at h; cases h

end Gd

namespace Gd.Unreal2
open Gd

/-! ### the string decoder -/

theorem ucs2Part_noCrash (length stray : Nat) (body : Bytes) : (ucs2Part length stray body).isCrash = false := by
  unfold ucs2Part
  split
  · rfl
  · split <;> rfl

theorem latin1Part_noCrash (length : Nat) (body : Bytes) : (latin1Part length body).isCrash = false := by
  unfold latin1Part
  split <;> rfl

theorem u2Dec_noCrash (sl : Bytes) : (u2Dec sl).isCrash = false := by
  unfold u2Dec
  split
  · rfl
  · split
    · exact ucs2Part_noCrash _ _ _
    · exact latin1Part_noCrash _ _

/-- a successful read consumes at least the length byte -/
theorem u2Dec_ok_pos {sl : Bytes} {s : Bytes} {n : Nat} (h : u2Dec sl = .ok (s, n)) : 0 < n ∧ sl ≠ [] := by
  unfold u2Dec at h
  split at h
  · cases h
  · refine ⟨?_, by simp⟩
    split at h
    · unfold ucs2Part at h
      split at h
      · cases h
      · split at h
        · cases h
        · cases h; omega
    · unfold latin1Part at h
      split at h
      · cases h
      · cases h; omega

theorem safe_readU2Str : Safe readU2Str := safe_readStringWith _ u2Dec_noCrash

theorem progress_readU2Str : Progress readU2Str := by
  intro b a b' h
  unfold readU2Str readStringWith at h
  cases hd : u2Dec b.rest with
  | ok x =>
    obtain ⟨s, n⟩ := x
    rw [hd] at h
    cases h
    obtain ⟨hn, hne⟩ := u2Dec_ok_pos hd
    have hl : 0 < b.rest.length := List.length_pos_iff.mpr hne
    simp only [Buf.remaining, Buf.rest_advance, List.length_drop]
    omega
  | err k => rw [hd] at h; cases h
  | crash => rw [hd] at h; cases h

/-! ### parsers -/

theorem packetKindOf_ne (n : Nat) : packetKindOf n ≠ .crash := by
  unfold packetKindOf; split <;> simp

theorem Safe.lift_ne' (r : Res α) (h : r ≠ .crash) : Safe (Par.lift r) := by
  apply Safe.lift
  cases r <;> simp_all [Res.isCrash]

theorem safe_consumeHeaders (k : PacketKind) : Safe (consumeHeaders k) := by
  unfold consumeHeaders
  refine Safe.bind (safe_moveCursor _) fun _ => Safe.bind safe_readU8 fun _ =>
    Safe.bind (Safe.lift_ne' _ (packetKindOf_ne _)) fun _ => ?_
  split
  · exact Safe.fail _
  · exact Safe.pure _

theorem safe_parseServerInfo : Safe parseServerInfo := by
  unfold parseServerInfo
  exact Safe.bind (safe_readUnsigned _ _) fun _ => Safe.bind safe_readU2Str fun _ =>
    Safe.bind (safe_readUnsigned _ _) fun _ => Safe.bind (safe_readUnsigned _ _) fun _ =>
    Safe.bind safe_readU2Str fun _ => Safe.bind safe_readU2Str fun _ => Safe.bind safe_readU2Str fun _ =>
    Safe.bind (safe_readUnsigned _ _) fun _ => Safe.bind (safe_readUnsigned _ _) fun _ => Safe.pure _

theorem safe_tryRead {p : Par α} (hp : Safe p) : Safe (tryRead p) := by
  intro b
  have := hp b
  unfold tryRead
  cases h : p b with
  | ok x => obtain ⟨a, b'⟩ := x; rw [h] at this; simpa [Post] using this
  | err k => simp [Post]
  | crash => rw [h] at this; exact this.elim

theorem noGrow_tryRead {p : Par α} (hp : NoGrow p) : NoGrow (tryRead p) := by
  intro b a b' h
  unfold tryRead at h
  cases hr : p b with
  | ok x =>
    obtain ⟨v, b1⟩ := x
    rw [hr] at h
    cases h
    exact hp b v _ hr
  | err k => rw [hr] at h; cases h; exact Nat.le_refl _
  | crash => rw [hr] at h; cases h

theorem safe_rulesStep (st : MutatorsAndRules) : Safe (rulesStep st) := by
  unfold rulesStep
  exact Safe.bind safe_readU2Str fun _ => Safe.bind (safe_tryRead safe_readU2Str) fun _ => Safe.pure _

theorem progress_rulesStep (st : MutatorsAndRules) : Progress (rulesStep st) := by
  unfold rulesStep
  exact Progress.bind progress_readU2Str fun _ =>
    NoGrow.bind (noGrow_tryRead progress_readU2Str.noGrow) fun _ => NoGrow.pure _

theorem safe_parseRules (st : MutatorsAndRules) : Safe (parseRules st) := fun b =>
  safe_whileRemaining rulesStep safe_rulesStep progress_rulesStep (b.remaining + 1) st b (Nat.lt_succ_self _)

theorem safe_playerStep (st : Players) : Safe (playerStep st) := by
  unfold playerStep
  exact Safe.bind (safe_readUnsigned _ _) fun _ => Safe.bind safe_readU2Str fun _ =>
    Safe.bind (safe_readUnsigned _ _) fun _ => Safe.bind (safe_readSigned _ _) fun _ =>
    Safe.bind (safe_readUnsigned _ _) fun _ => Safe.pure _

theorem progress_playerStep (st : Players) : Progress (playerStep st) := by
  unfold playerStep
  exact Progress.bind (progress_readUnsigned _ 4 (by omega)) fun _ =>
    NoGrow.bind progress_readU2Str.noGrow fun _ => NoGrow.bind (noGrow_readUnsigned _ _) fun _ =>
    NoGrow.bind (noGrow_readSigned _ _) fun _ => NoGrow.bind (noGrow_readUnsigned _ _) fun _ => NoGrow.pure _

theorem safe_parsePlayers (st : Players) : Safe (parsePlayers st) := fun b =>
  safe_whileRemaining playerStep safe_playerStep progress_playerStep (b.remaining + 1) st b (Nat.lt_succ_self _)

theorem run_ne_crash {p : Par α} (hp : Safe p) (data : Bytes) : p.run data ≠ .crash := by
  have := hp (Buf.new data)
  unfold Par.run
  cases h : p (Buf.new data) with
  | ok x => simp
  | err k => simp
  | crash => rw [h] at this; exact this.elim

theorem rulesRound_ne (st : MutatorsAndRules) (data : Bytes) : rulesRound st data ≠ .crash := by
  unfold rulesRound
  have h1 := safe_consumeHeaders .mutatorsAndRules (Buf.new data)
  cases hc : consumeHeaders .mutatorsAndRules (Buf.new data) with
  | err k => simp
  | crash => rw [hc] at h1; exact h1.elim
  | ok x =>
    obtain ⟨u, b⟩ := x
    simp only
    have h2 := safe_parseRules st b
    cases hp : parseRules st b with
    | ok y => simp
    | err k => simp
    | crash => rw [hp] at h2; exact h2.elim

theorem playersRound_ne (n : Nat) (st : Players) (data : Bytes) : playersRound n st data ≠ .crash := by
  unfold playersRound
  have h := run_ne_crash (Safe.bind (safe_consumeHeaders .players) fun _ => safe_parsePlayers st) data
  cases hr : (consumeHeaders .players >>= fun _ => parsePlayers st).run data with
  | ok y => simp
  | err k => simp
  | crash => exact absurd hr h

/-! ### the exchange -/

/-- what the Unreal 2 client may do with its socket: send one of the three requests to the server's
port, receive into the fixed 1024-byte buffer -/
def Allowed (data : Bytes) : Prop := ∃ kind : PacketKind, data = requestBytes kind

/-- the same, restricted to the request kinds satisfying `allowed` -/
def EvKinds (s : Sock) (allowed : PacketKind → Prop) : Ev → Prop
  | .send c port data _ => c = s.id ∧ port = s.port ∧ ∃ kind, allowed kind ∧ data = requestBytes kind
  | .recv c size _ => c = s.id ∧ size = some PACKET_SIZE
  | .opened _ _ _ _ => False

def EvOk (s : Sock) : Ev → Prop
  | .send c port data _ => c = s.id ∧ port = s.port ∧ Allowed data
  | .recv c size _ => c = s.id ∧ size = some PACKET_SIZE
  | .opened _ _ _ _ => False

theorem EvKinds.evOk {s : Sock} {allowed : PacketKind → Prop} {e : Ev} (h : EvKinds s allowed e) : EvOk s e := by
  cases e with
  | opened => exact h
  | send c p d f => obtain ⟨h1, h2, k, _, h3⟩ := h; exact ⟨h1, h2, k, h3⟩
  | recv => exact h

section kinds
variable (s : Sock) (allowed : PacketKind → Prop)

theorem qsafe_recv : QSafe s (EvKinds s allowed) (recv s (some PACKET_SIZE)) :=
  QSafe.recv s _ _ fun _ => ⟨rfl, rfl⟩

theorem qsafe_requestImpl (kind : PacketKind) (hk : allowed kind) : QSafe s (EvKinds s allowed) (requestImpl s kind) := by
  unfold requestImpl
  exact QSafe.bind (QSafe.send s _ _ fun _ => ⟨rfl, rfl, kind, hk, rfl⟩) fun _ => qsafe_recv s allowed

theorem qsafe_requestData (r : Nat) (kind : PacketKind) (hk : allowed kind) :
    QSafe s (EvKinds s allowed) (requestData s r kind) :=
  QSafe.retry (qsafe_requestImpl s allowed kind hk) r

/-- the listening loops: with fuel above the number of queued deliveries they never run dry -/
theorem qsafe_recvWhile (hudp : s.tcp = false) (body : σ → Bytes → Res (σ × Bool))
    (hbody : ∀ st data, body st data ≠ .crash) :
    ∀ (fuel : Nat) (st : σ) (w : Net), IsOpen s w → qlen w s.id < fuel →
      (recvWhile s body fuel st w).1 ≠ .crash ∧ Step (EvKinds s allowed) w (recvWhile s body fuel st w).2 := by
  intro fuel
  induction fuel with
  | zero => intro _ w _ h; omega
  | succ fuel ih =>
    intro st w hopen hq
    unfold recvWhile
    have hrecv := qsafe_recv s allowed w hopen
    cases hr : recv s (some PACKET_SIZE) w with
    | mk res w1 =>
      rw [hr] at hrecv
      cases res with
      | crash => exact absurd rfl hrecv.1
      | err k => exact ⟨by simp, hrecv.2⟩
      | ok data =>
        simp only
        have hcons := recv_ok_consumes s hudp _ w w1 data hopen hr
        cases hb : body st data with
        | crash => exact absurd hb (hbody st data)
        | err k => exact ⟨by simp, hrecv.2⟩
        | ok x =>
          obtain ⟨st', go⟩ := x
          cases go with
          | false => exact ⟨by simp, hrecv.2⟩
          | true =>
            simp only
            obtain ⟨h3, h4⟩ := ih st' w1 (hopen.step hrecv.2) (by omega)
            exact ⟨h3, hrecv.2.trans h4⟩

theorem qsafe_listen (hudp : s.tcp = false) (body : σ → Bytes → Res (σ × Bool))
    (hbody : ∀ st data, body st data ≠ .crash) (st : σ) :
    QSafe s (EvKinds s allowed) (fun w => recvWhile s body (queued s w + 1) st w) := by
  intro w hopen
  exact qsafe_recvWhile s allowed hudp body hbody (queued s w + 1) st w hopen (by simp [queued, qlen])

theorem qsafe_queryServerInfo (r : Nat) (hk : allowed .serverInfo) :
    QSafe s (EvKinds s allowed) (queryServerInfo s r) := by
  unfold queryServerInfo
  exact QSafe.bind (qsafe_requestData s allowed r _ hk) fun _ =>
    QSafe.parse _ _ (Safe.bind (safe_consumeHeaders _) fun _ => safe_parseServerInfo) _

theorem qsafe_queryRules (hudp : s.tcp = false) (r : Nat) (hk : allowed .mutatorsAndRules) :
    QSafe s (EvKinds s allowed) (queryRules s r) := by
  unfold queryRules
  exact QSafe.bind (qsafe_requestData s allowed r _ hk) fun _ =>
    QSafe.bind (QSafe.parse _ _ (Safe.bind (safe_consumeHeaders _) fun _ => safe_parseRules _) _) fun st =>
    qsafe_listen s allowed hudp rulesRound rulesRound_ne st

theorem qsafe_queryPlayers (hudp : s.tcp = false) (r n : Nat) (hk : allowed .players) :
    QSafe s (EvKinds s allowed) (queryPlayers s r n) := by
  unfold queryPlayers
  refine QSafe.bind (qsafe_requestData s allowed r _ hk) fun data =>
    QSafe.bind (QSafe.lift _ _ _ (playersRound_ne n .empty data)) fun x => ?_
  obtain ⟨st, more⟩ := x
  cases more with
  | true => exact qsafe_listen s allowed hudp (playersRound n) (playersRound_ne n) st
  | false => exact QSafe.pure _ _ _

end kinds

/-- the request kinds a query with these toggles may send: server info always, a section's request
only when the section is not skipped -/
def kindAllowed (g : Gather) : PacketKind → Prop
  | .serverInfo => True
  | .mutatorsAndRules => g.mutatorsAndRules ≠ .skip
  | .players => g.players ≠ .skip

theorem qsafe_section {s : Sock} {P : Ev → Prop} {q : Q α} (t : Toggle) (hq : t ≠ .skip → QSafe s P q) :
    QSafe s P (maybeGather t q) := by
  cases t with
  | skip => exact QSafe.pure s P none
  | try_ => exact QSafe.maybeGather (hq (by simp)) _
  | enforce => exact QSafe.maybeGather (hq (by simp)) _

theorem qsafe_queryBody_kinds (s : Sock) (hudp : s.tcp = false) (g : Gather) (r : Nat) :
    QSafe s (EvKinds s (kindAllowed g)) (queryBody s g r) := by
  unfold queryBody
  exact QSafe.bind (qsafe_queryServerInfo s _ r trivial) fun _ =>
    QSafe.bind (qsafe_section _ fun h => qsafe_queryRules s _ hudp r h) fun _ =>
    QSafe.bind (qsafe_section _ fun h => qsafe_queryPlayers s _ hudp r _ h) fun _ => QSafe.pure _ _ _

theorem qsafe_weaken {s : Sock} {P P' : Ev → Prop} {q : Q α} (h : QSafe s P q) (hp : ∀ e, P e → P' e) : QSafe s P' q := by
  intro w hw
  obtain ⟨h1, h2⟩ := h w hw
  refine ⟨h1, ?_, h2.shrink, h2.grow⟩
  obtain ⟨added, e1, e2⟩ := h2.log
  exact ⟨added, e1, fun e he => hp e (e2 e he)⟩

theorem qsafe_queryBody (s : Sock) (hudp : s.tcp = false) (g : Gather) (r : Nat) :
    QSafe s (EvOk s) (queryBody s g r) :=
  qsafe_weaken (qsafe_queryBody_kinds s hudp g r) fun _ h => h.evOk

/-- what the whole query may log: one socket opened (UDP, to the given port), then `EvOk` events -/
def QueryEvOk (port : Nat) (id : Nat) : Ev → Prop
  | .opened c tcp p _ => c = id ∧ tcp = false ∧ p = port
  | e => EvOk ⟨id, port, false⟩ e

theorem query_eq (port : Nat) (g : Gather) (r : Nat) :
    query port g r = (openSock false port >>= fun s => queryBody s g r) := rfl

theorem query_safe (port : Nat) (g : Gather) (r : Nat) (w : Net) :
    (query port g r w).1 ≠ .crash
    ∧ ∃ added, (query port g r w).2.log = w.log ++ added ∧ ∀ e ∈ added, QueryEvOk port w.conns.length e := by
  rw [query_eq, Q.bind_apply]
  have hbody := fun (w0 : Net) (h : IsOpen ⟨w.conns.length, port, false⟩ w0) =>
    qsafe_queryBody ⟨w.conns.length, port, false⟩ rfl g r w0 h
  have lift : ∀ e, EvOk ⟨w.conns.length, port, false⟩ e → QueryEvOk port w.conns.length e := by
    intro e he
    cases e with
    | opened => exact he.elim
    | send => exact he
    | recv => exact he
  have fin : ∀ (w0 : Net) (ev : Ev), w0.log = w.log ++ [ev] → QueryEvOk port w.conns.length ev →
      IsOpen ⟨w.conns.length, port, false⟩ w0 →
      (queryBody ⟨w.conns.length, port, false⟩ g r w0).1 ≠ .crash
      ∧ ∃ added, (queryBody ⟨w.conns.length, port, false⟩ g r w0).2.log = w.log ++ added
        ∧ ∀ e ∈ added, QueryEvOk port w.conns.length e := by
    intro w0 ev hlog0 hev hop
    obtain ⟨h1, h2⟩ := hbody w0 hop
    obtain ⟨added, hlog, hall⟩ := h2.log
    refine ⟨h1, ev :: added, by rw [hlog, hlog0]; simp, ?_⟩
    intro e he
    rcases List.mem_cons.mp he with rfl | he'
    · exact hev
    · exact lift e (hall e he')
  cases hp : w.pending with
  | nil =>
    simp only [openSock, hp]
    exact fin _ _ rfl ⟨rfl, rfl, rfl⟩ (by simp [IsOpen])
  | cons c rest =>
    cases c with
    | opened ds =>
      simp only [openSock, hp]
      exact fin _ _ rfl ⟨rfl, rfl, rfl⟩ (by simp [IsOpen])
    | refused =>
      simp only [openSock, hp]
      refine ⟨by simp, [_], rfl, ?_⟩
      intro e he
      rcases List.mem_singleton.mp he with rfl
      exact ⟨rfl, rfl, rfl⟩

end Gd.Unreal2
