import GdVerif.Lemmas.Gs3Tables
/-
  GameSpy 3, part D: from the tables to the players and teams, from the variables to the typed
  fields, and the whole of `query`'s post-processing on the SPEC's payloads.
-/
namespace Gd.Gs3
open Gd Gd.Gs3.Spec

/-! ### players and teams -/

theorem mkPlayer_of_cells (m : Vars) (p : Player) (hp : wfPlayer p = true)
    (h1 : mapGet m (asciiBytes "player") = some p.name)
    (h2 : mapGet m (asciiBytes "score") = some (intDec p.score))
    (h3 : mapGet m (asciiBytes "ping") = some (natDec p.ping))
    (h4 : mapGet m (asciiBytes "team") = some (natDec p.team))
    (h5 : mapGet m (asciiBytes "deaths") = some (natDec p.deaths))
    (h6 : mapGet m (asciiBytes "skill") = some (natDec p.skill)) : mkPlayer m = .ok p := by
  simp only [wfPlayer, Bool.and_eq_true, decide_eq_true_eq] at hp
  obtain ⟨⟨⟨⟨⟨⟨_, hlo⟩, hhi⟩, hping⟩, hteam⟩, hdeaths⟩, hskill⟩ := hp
  have e2 := parseSigned_intDec 32 p.score (by simpa using hlo) (by simpa using hhi)
  have e3 := parseUnsigned_natDec 16 p.ping hping
  have e4 := parseUnsigned_natDec 8 p.team hteam
  have e5 := parseUnsigned_natDec 32 p.deaths hdeaths
  have e6 := parseUnsigned_natDec 32 p.skill hskill
  simp [mkPlayer, fieldOf, okOr, parseI, parseU, h1, h2, h3, h4, h5, h6, e2, e3, e4, e5, e6]

theorem mkTeam_of_cells (m : Vars) (t : Team) (ht : wfTeam t = true)
    (h1 : mapGet m (asciiBytes "team") = some t.name)
    (h2 : mapGet m (asciiBytes "score") = some (intDec t.score)) : mkTeam m = .ok t := by
  simp only [wfTeam, Bool.and_eq_true, decide_eq_true_eq] at ht
  obtain ⟨⟨_, hlo⟩, hhi⟩ := ht
  have e2 := parseSigned_intDec 32 t.score (by simpa using hlo) (by simpa using hhi)
  simp [mkTeam, fieldOf, okOr, parseI, h1, h2, e2]

/-- what `wf` says about the layout, as propositions -/
structure LayoutOk (cfg : Config) (st : State) : Prop where
  slices : ∀ sl ∈ cfg.layout.flatten, wfSlice st sl = true
  cov : covered st cfg.layout.flatten = true
  players : ∀ p ∈ st.players, wfPlayer p = true
  teams : ∀ t ∈ st.teams, wfTeam t = true
  pids : ∀ l, st.pids = some l → l.length = st.players.length ∧ ∀ v ∈ l, okItem v = true

theorem columnsOf_players (st : State) (hpid : ∀ l, st.pids = some l → l.length = st.players.length) :
    ColumnsOf st false st.players.length := by
  intro f col h
  simp only [column, Bool.false_eq_true, ↓reduceIte] at h
  unfold playerColumn at h
  split at h
  · cases h; simp
  · split at h
    · cases h; simp
    · split at h
      · cases h; simp
      · split at h
        · cases h; simp
        · split at h
          · cases h; simp
          · split at h
            · cases h; simp
            · split at h
              · exact hpid _ h
              · cases h

theorem columnsOf_teams (st : State) : ColumnsOf st true st.teams.length := by
  intro f col h
  simp only [column, ↓reduceIte] at h
  unfold teamColumn at h
  split at h
  · cases h; simp
  · split at h
    · cases h; simp
    · cases h

theorem okItem_natDec (n : Nat) : okItem (natDec n) = true := (okItem_iff _).mpr (natDec_text n)
theorem okItem_intDec (i : Int) : okItem (intDec i) = true := (okItem_iff _).mpr (intDec_text i)

theorem playerColumn_values (cfg : Config) (st : State) (h : LayoutOk cfg st) (field : Bytes) (col : List Bytes)
    (hc : playerColumn st field = some col) : ∀ v ∈ col, okItem v = true := by
  have hname : ∀ p ∈ st.players, okItem p.name = true := by
    intro p hp
    have := h.players p hp
    simp only [wfPlayer, Bool.and_eq_true] at this
    exact this.1.1.1.1.1.1
  have hmap : ∀ (g : Player → Bytes), (∀ p ∈ st.players, okItem (g p) = true) → ∀ v ∈ st.players.map g, okItem v = true := by
    intro g hg v hv
    obtain ⟨p, hp, rfl⟩ := List.mem_map.mp hv
    exact hg p hp
  unfold playerColumn at hc
  split at hc
  · cases hc; exact hmap _ hname
  · split at hc
    · cases hc; exact hmap _ fun _ _ => okItem_intDec _
    · split at hc
      · cases hc; exact hmap _ fun _ _ => okItem_natDec _
      · split at hc
        · cases hc; exact hmap _ fun _ _ => okItem_natDec _
        · split at hc
          · cases hc; exact hmap _ fun _ _ => okItem_natDec _
          · split at hc
            · cases hc; exact hmap _ fun _ _ => okItem_natDec _
            · split at hc
              · exact (h.pids _ hc).2
              · cases hc

theorem teamColumn_values (cfg : Config) (st : State) (h : LayoutOk cfg st) (field : Bytes) (col : List Bytes)
    (hc : teamColumn st field = some col) : ∀ v ∈ col, okItem v = true := by
  have hname : ∀ t ∈ st.teams, okItem t.name = true := by
    intro t ht
    have := h.teams t ht
    simp only [wfTeam, Bool.and_eq_true] at this
    exact this.1.1
  have hmap : ∀ (g : Team → Bytes), (∀ t ∈ st.teams, okItem (g t) = true) → ∀ v ∈ st.teams.map g, okItem v = true := by
    intro g hg v hv
    obtain ⟨t, ht, rfl⟩ := List.mem_map.mp hv
    exact hg t ht
  unfold teamColumn at hc
  split at hc
  · cases hc; exact hmap _ hname
  · split at hc
    · cases hc; exact hmap _ fun _ _ => okItem_intDec _
    · cases hc

/-- every value a well-formed slice carries can be sent (non-empty, no NUL, valid text) -/
theorem slice_values_ok (cfg : Config) (st : State) (h : LayoutOk cfg st) (sl : Slice) (hsl : sl ∈ cfg.layout.flatten) :
    SliceOk st sl := by
  refine ⟨h.slices sl hsl, ?_⟩
  intro v hv
  obtain ⟨col, hc, _⟩ := slice_column st sl (h.slices sl hsl)
  have hmem : v ∈ col := by
    simp only [sliceValues, hc, Option.getD_some] at hv
    exact List.mem_of_mem_drop (List.mem_of_mem_take hv)
  unfold column at hc
  cases hteam : sl.team with
  | false =>
    rw [hteam] at hc
    exact playerColumn_values cfg st h _ col hc v hmem
  | true =>
    rw [hteam] at hc
    exact teamColumn_values cfg st h _ col hc v hmem

/-! the columns, by name -/

theorem col_player (st : State) : column st false (asciiBytes "player") = some (st.players.map (·.name)) := by
  simp [column, playerColumn]
theorem col_score (st : State) : column st false (asciiBytes "score") = some (st.players.map fun p => intDec p.score) := by
  have e1 : (asciiBytes "score" == asciiBytes "player") = false := by decide
  simp [column, playerColumn, e1]
theorem col_ping (st : State) : column st false (asciiBytes "ping") = some (st.players.map fun p => natDec p.ping) := by
  have e1 : (asciiBytes "ping" == asciiBytes "player") = false := by decide
  have e2 : (asciiBytes "ping" == asciiBytes "score") = false := by decide
  simp [column, playerColumn, e1, e2]
theorem col_team (st : State) : column st false (asciiBytes "team") = some (st.players.map fun p => natDec p.team) := by
  have e1 : (asciiBytes "team" == asciiBytes "player") = false := by decide
  have e2 : (asciiBytes "team" == asciiBytes "score") = false := by decide
  have e3 : (asciiBytes "team" == asciiBytes "ping") = false := by decide
  simp [column, playerColumn, e1, e2, e3]
theorem col_deaths (st : State) : column st false (asciiBytes "deaths") = some (st.players.map fun p => natDec p.deaths) := by
  have e1 : (asciiBytes "deaths" == asciiBytes "player") = false := by decide
  have e2 : (asciiBytes "deaths" == asciiBytes "score") = false := by decide
  have e3 : (asciiBytes "deaths" == asciiBytes "ping") = false := by decide
  have e4 : (asciiBytes "deaths" == asciiBytes "team") = false := by decide
  simp [column, playerColumn, e1, e2, e3, e4]
theorem col_skill (st : State) : column st false (asciiBytes "skill") = some (st.players.map fun p => natDec p.skill) := by
  have e1 : (asciiBytes "skill" == asciiBytes "player") = false := by decide
  have e2 : (asciiBytes "skill" == asciiBytes "score") = false := by decide
  have e3 : (asciiBytes "skill" == asciiBytes "ping") = false := by decide
  have e4 : (asciiBytes "skill" == asciiBytes "team") = false := by decide
  have e5 : (asciiBytes "skill" == asciiBytes "deaths") = false := by decide
  simp [column, playerColumn, e1, e2, e3, e4, e5]
theorem col_tteam (st : State) : column st true (asciiBytes "team") = some (st.teams.map (·.name)) := by
  simp [column, teamColumn]
theorem col_tscore (st : State) : column st true (asciiBytes "score") = some (st.teams.map fun t => intDec t.score) := by
  have e1 : (asciiBytes "score" == asciiBytes "team") = false := by decide
  simp [column, teamColumn, e1]

theorem sound_init (st : State) (team : Bool) (n : Nat) : Sound st team n (tbl Tables.init team) := by
  constructor
  · intro i f v h
    have : tbl Tables.init team = [[]] := by cases team <;> rfl
    rw [this] at h
    cases i with
    | zero => simp [cell, mapGet] at h
    | succ i => simp [cell, mapGet] at h
  · have : tbl Tables.init team = [[]] := by cases team <;> rfl
    rw [this]; simp; omega

theorem tbl_length_pos (st : State) (team : Bool) : ∀ (ss : List Slice) (t : Tables), 1 ≤ (tbl t team).length →
    1 ≤ (tbl (ss.foldl (applySlice st) t) team).length := by
  intro ss
  induction ss with
  | nil => intro t h; exact h
  | cons sl r ih =>
    intro t h
    apply ih
    unfold applySlice
    rw [tbl_applyValues]
    split
    · rw [putAll_length]; omega
    · exact h

/-- a cell of the final table holds the state's value -/
theorem final_cell (cfg : Config) (st : State) (h : LayoutOk cfg st) (team : Bool) (n : Nat) (hcols : ColumnsOf st team n)
    (f : Bytes) (col : List Bytes) (hcol : column st team f = some col) (i : Nat)
    (hcov : cfg.layout.flatten.any (covers team f i) = true) :
    cell (tbl (cfg.layout.flatten.foldl (applySlice st) Tables.init) team) i f = some (col.getD i []) := by
  have hsound := Sound.foldl hcols cfg.layout.flatten Tables.init h.slices (sound_init st team n)
  have hsome := covered_cell st team f i cfg.layout.flatten Tables.init h.slices hcov
  cases hc : cell (tbl (cfg.layout.flatten.foldl (applySlice st) Tables.init) team) i f with
  | none => rw [hc] at hsome; cases hsome
  | some v =>
    obtain ⟨col', hcol', _, hv⟩ := hsound.1 i f v hc
    rw [hcol] at hcol'
    cases hcol'
    rw [hv]

theorem covered_players (st : State) (slices : List Slice) (h : covered st slices = true) (f : Bytes) (hf : f ∈ playerFields)
    (i : Nat) (hi : i < st.players.length) : slices.any (covers false f i) = true := by
  simp only [covered, Bool.and_eq_true, List.all_eq_true] at h
  exact h.1 f hf i (List.mem_range.mpr hi)

theorem covered_teams (st : State) (slices : List Slice) (h : covered st slices = true) (f : Bytes) (hf : f ∈ teamFields)
    (i : Nat) (hi : i < st.teams.length) : slices.any (covers true f i) = true := by
  simp only [covered, Bool.and_eq_true, List.all_eq_true] at h
  exact h.2 f hf i (List.mem_range.mpr hi)

theorem getD_map_of_getElem? {α : Type} (l : List α) (g : α → Bytes) (i : Nat) (x : α) (h : l[i]? = some x) :
    (l.map g).getD i [] = g x := by
  simp [List.getD_eq_getElem?_getD, h]

/-- the field sections of all packets of a well-formed reply give back the players and the teams -/
theorem parsePlayersAndTeams_spec (cfg : Config) (st : State) (h : LayoutOk cfg st) :
    parsePlayersAndTeams (cfg.layout.map (encSlices st)) = .ok (st.players, st.teams) := by
  unfold parsePlayersAndTeams
  rw [readAllSections_run st cfg.layout (fun sl hsl => slice_values_ok cfg st h sl hsl) Tables.init]
  simp only [Res.bind_ok]
  have hcp := columnsOf_players st (fun l hl => (h.pids l hl).1)
  have hct := columnsOf_teams st
  -- players
  have hplayers : mkRows mkPlayer (cfg.layout.flatten.foldl (applySlice st) Tables.init).players = .ok st.players := by
    have hsound := Sound.foldl hcp cfg.layout.flatten Tables.init h.slices (sound_init st false _)
    refine rows_of_table st false st.players.length _ hsound (tbl_length_pos st false _ _ (by decide)) ?_ mkPlayer st.players rfl ?_
    · intro i hi
      refine ⟨asciiBytes "player", ?_⟩
      rw [final_cell cfg st h false _ hcp _ _ (col_player st) i
        (covered_players st _ h.cov _ (by simp [playerFields]) i hi)]
      rfl
    · intro i p hp
      have hi : i < st.players.length := (List.getElem?_eq_some_iff.mp hp).1
      have hmem : p ∈ st.players := List.mem_of_getElem? hp
      have hcell : ∀ (f : Bytes) (g : Player → Bytes), f ∈ playerFields →
          column st false f = some (st.players.map g) →
          mapGet ((tbl (cfg.layout.flatten.foldl (applySlice st) Tables.init) false).getD i []) f = some (g p) := by
        intro f g hf hcol
        have := final_cell cfg st h false _ hcp f _ hcol i (covered_players st _ h.cov f hf i hi)
        rw [getD_map_of_getElem? _ g i p hp] at this
        exact this
      exact mkPlayer_of_cells _ p (h.players p hmem)
        (hcell _ (·.name) (by simp [playerFields]) (col_player st))
        (hcell _ (fun p => intDec p.score) (by simp [playerFields]) (col_score st))
        (hcell _ (fun p => natDec p.ping) (by simp [playerFields]) (col_ping st))
        (hcell _ (fun p => natDec p.team) (by simp [playerFields]) (col_team st))
        (hcell _ (fun p => natDec p.deaths) (by simp [playerFields]) (col_deaths st))
        (hcell _ (fun p => natDec p.skill) (by simp [playerFields]) (col_skill st))
  have hteams : mkRows mkTeam (cfg.layout.flatten.foldl (applySlice st) Tables.init).teams = .ok st.teams := by
    have hsound := Sound.foldl hct cfg.layout.flatten Tables.init h.slices (sound_init st true _)
    refine rows_of_table st true st.teams.length _ hsound (tbl_length_pos st true _ _ (by decide)) ?_ mkTeam st.teams rfl ?_
    · intro i hi
      refine ⟨asciiBytes "team", ?_⟩
      rw [final_cell cfg st h true _ hct _ _ (col_tteam st) i
        (covered_teams st _ h.cov _ (by simp [teamFields]) i hi)]
      rfl
    · intro i t ht
      have hi : i < st.teams.length := (List.getElem?_eq_some_iff.mp ht).1
      have hmem : t ∈ st.teams := List.mem_of_getElem? ht
      have hcell : ∀ (f : Bytes) (g : Team → Bytes), f ∈ teamFields →
          column st true f = some (st.teams.map g) →
          mapGet ((tbl (cfg.layout.flatten.foldl (applySlice st) Tables.init) true).getD i []) f = some (g t) := by
        intro f g hf hcol
        have := final_cell cfg st h true _ hct f _ hcol i (covered_teams st _ h.cov f hf i hi)
        rw [getD_map_of_getElem? _ g i t ht] at this
        exact this
      exact mkTeam_of_cells _ t (h.teams t hmem)
        (hcell _ (·.name) (by simp [teamFields]) (col_tteam st))
        (hcell _ (fun t => intDec t.score) (by simp [teamFields]) (col_tscore st))
  have e1 : (cfg.layout.flatten.foldl (applySlice st) Tables.init).players
      = tbl (cfg.layout.flatten.foldl (applySlice st) Tables.init) false := rfl
  have e2 : (cfg.layout.flatten.foldl (applySlice st) Tables.init).teams
      = tbl (cfg.layout.flatten.foldl (applySlice st) Tables.init) true := rfl
  rw [hplayers, hteams]
  rfl

end Gd.Gs3
