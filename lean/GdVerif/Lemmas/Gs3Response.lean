import GdVerif.Lemmas.Gs3Tables
/-
  GameSpy 3, part D: from the tables to the players and teams, from the variables to the typed
  fields, and the whole of `query`'s post-processing on the SPEC's payloads.
-/
namespace Gd.Gs3
open Gd Gd.Gs3.Spec

/-! ### players and teams -/

theorem mkPlayer_of_cells (m : Vars) (p : Player) (hp : wfPlayer p = true)
    (h1 : mapGet m (asciiBytes "player") = some p.name)
    (h2 : mapGet m (asciiBytes "score") = some (intDec p.score))
    (h3 : mapGet m (asciiBytes "ping") = some (natDec p.ping))
    (h4 : mapGet m (asciiBytes "team") = some (natDec p.team))
    (h5 : mapGet m (asciiBytes "deaths") = some (natDec p.deaths))
    (h6 : mapGet m (asciiBytes "skill") = some (natDec p.skill)) : mkPlayer m = .ok p := by
  simp only [wfPlayer, Bool.and_eq_true, decide_eq_true_eq] at hp
  obtain ⟨⟨⟨⟨⟨⟨_, hlo⟩, hhi⟩, hping⟩, hteam⟩, hdeaths⟩, hskill⟩ := hp
  have e2 := parseSigned_intDec 32 p.score (by simpa using hlo) (by simpa using hhi)
  have e3 := parseUnsigned_natDec 16 p.ping hping
  have e4 := parseUnsigned_natDec 8 p.team hteam
  have e5 := parseUnsigned_natDec 32 p.deaths hdeaths
  have e6 := parseUnsigned_natDec 32 p.skill hskill
  simp [mkPlayer, fieldOf, okOr, parseI, parseU, h1, h2, h3, h4, h5, h6, e2, e3, e4, e5, e6]

theorem mkTeam_of_cells (m : Vars) (t : Team) (ht : wfTeam t = true)
    (h1 : mapGet m (asciiBytes "team") = some t.name)
    (h2 : mapGet m (asciiBytes "score") = some (intDec t.score)) : mkTeam m = .ok t := by
  simp only [wfTeam, Bool.and_eq_true, decide_eq_true_eq] at ht
  obtain ⟨⟨_, hlo⟩, hhi⟩ := ht
  have e2 := parseSigned_intDec 32 t.score (by simpa using hlo) (by simpa using hhi)
  simp [mkTeam, fieldOf, okOr, parseI, h1, h2, e2]

/-- what `wf` says about the layout, as propositions -/
structure LayoutOk (cfg : Config) (st : State) : Prop where
  slices : ∀ sl ∈ cfg.layout.flatten, wfSlice st sl = true
  cov : covered st cfg.layout.flatten = true
  players : ∀ p ∈ st.players, wfPlayer p = true
  teams : ∀ t ∈ st.teams, wfTeam t = true
  pids : ∀ l, st.pids = some l → l.length = st.players.length ∧ ∀ v ∈ l, okItem v = true

theorem columnsOf_players (st : State) (hpid : ∀ l, st.pids = some l → l.length = st.players.length) :
    ColumnsOf st false st.players.length := by
  intro f col h
  simp only [column, Bool.false_eq_true, ↓reduceIte] at h
  unfold playerColumn at h
  split at h
  · cases h; simp
  · split at h
    · cases h; simp
    · split at h
      · cases h; simp
      · split at h
        · cases h; simp
        · split at h
          · cases h; simp
          · split at h
            · cases h; simp
            · split at h
              · exact hpid _ h
              · cases h

theorem columnsOf_teams (st : State) : ColumnsOf st true st.teams.length := by
  intro f col h
  simp only [column, ↓reduceIte] at h
  unfold teamColumn at h
  split at h
  · cases h; simp
  · split at h
    · cases h; simp
    · cases h

theorem okItem_natDec (n : Nat) : okItem (natDec n) = true := (okItem_iff _).mpr (natDec_text n)
theorem okItem_intDec (i : Int) : okItem (intDec i) = true := (okItem_iff _).mpr (intDec_text i)

theorem playerColumn_values (cfg : Config) (st : State) (h : LayoutOk cfg st) (field : Bytes) (col : List Bytes)
    (hc : playerColumn st field = some col) : ∀ v ∈ col, okItem v = true := by
  have hname : ∀ p ∈ st.players, okItem p.name = true := by
    intro p hp
    have := h.players p hp
    simp only [wfPlayer, Bool.and_eq_true] at this
    exact this.1.1.1.1.1.1
  have hmap : ∀ (g : Player → Bytes), (∀ p ∈ st.players, okItem (g p) = true) → ∀ v ∈ st.players.map g, okItem v = true := by
    intro g hg v hv
    obtain ⟨p, hp, rfl⟩ := List.mem_map.mp hv
    exact hg p hp
  unfold playerColumn at hc
  split at hc
  · cases hc; exact hmap _ hname
  · split at hc
    · cases hc; exact hmap _ fun _ _ => okItem_intDec _
    · split at hc
      · cases hc; exact hmap _ fun _ _ => okItem_natDec _
      · split at hc
        · cases hc; exact hmap _ fun _ _ => okItem_natDec _
        · split at hc
          · cases hc; exact hmap _ fun _ _ => okItem_natDec _
          · split at hc
            · cases hc; exact hmap _ fun _ _ => okItem_natDec _
            · split at hc
              · exact (h.pids _ hc).2
              · cases hc

theorem teamColumn_values (cfg : Config) (st : State) (h : LayoutOk cfg st) (field : Bytes) (col : List Bytes)
    (hc : teamColumn st field = some col) : ∀ v ∈ col, okItem v = true := by
  have hname : ∀ t ∈ st.teams, okItem t.name = true := by
    intro t ht
    have := h.teams t ht
    simp only [wfTeam, Bool.and_eq_true] at this
    exact this.1.1
  have hmap : ∀ (g : Team → Bytes), (∀ t ∈ st.teams, okItem (g t) = true) → ∀ v ∈ st.teams.map g, okItem v = true := by
    intro g hg v hv
    obtain ⟨t, ht, rfl⟩ := List.mem_map.mp hv
    exact hg t ht
  unfold teamColumn at hc
  split at hc
  · cases hc; exact hmap _ hname
  · split at hc
    · cases hc; exact hmap _ fun _ _ => okItem_intDec _
    · cases hc

/-- every value a well-formed slice carries can be sent (non-empty, no NUL, valid text) -/
theorem slice_values_ok (cfg : Config) (st : State) (h : LayoutOk cfg st) (sl : Slice) (hsl : sl ∈ cfg.layout.flatten) :
    SliceOk st sl := by
  refine ⟨h.slices sl hsl, ?_⟩
  intro v hv
  obtain ⟨col, hc, _⟩ := slice_column st sl (h.slices sl hsl)
  have hmem : v ∈ col := by
    simp only [sliceValues, hc, Option.getD_some] at hv
    exact List.mem_of_mem_drop (List.mem_of_mem_take hv)
  unfold column at hc
  cases hteam : sl.team with
  | false =>
    rw [hteam] at hc
    exact playerColumn_values cfg st h _ col hc v hmem
  | true =>
    rw [hteam] at hc
    exact teamColumn_values cfg st h _ col hc v hmem

/-! the columns, by name -/

theorem col_player (st : State) : column st false (asciiBytes "player") = some (st.players.map (·.name)) := by
  simp [column, playerColumn]
theorem col_score (st : State) : column st false (asciiBytes "score") = some (st.players.map fun p => intDec p.score) := by
  have e1 : (asciiBytes "score" == asciiBytes "player") = false := by decide
  simp [column, playerColumn, e1]
theorem col_ping (st : State) : column st false (asciiBytes "ping") = some (st.players.map fun p => natDec p.ping) := by
  have e1 : (asciiBytes "ping" == asciiBytes "player") = false := by decide
  have e2 : (asciiBytes "ping" == asciiBytes "score") = false := by decide
  simp [column, playerColumn, e1, e2]
theorem col_team (st : State) : column st false (asciiBytes "team") = some (st.players.map fun p => natDec p.team) := by
  have e1 : (asciiBytes "team" == asciiBytes "player") = false := by decide
  have e2 : (asciiBytes "team" == asciiBytes "score") = false := by decide
  have e3 : (asciiBytes "team" == asciiBytes "ping") = false := by decide
  simp [column, playerColumn, e1, e2, e3]
theorem col_deaths (st : State) : column st false (asciiBytes "deaths") = some (st.players.map fun p => natDec p.deaths) := by
  have e1 : (asciiBytes "deaths" == asciiBytes "player") = false := by decide
  have e2 : (asciiBytes "deaths" == asciiBytes "score") = false := by decide
  have e3 : (asciiBytes "deaths" == asciiBytes "ping") = false := by decide
  have e4 : (asciiBytes "deaths" == asciiBytes "team") = false := by decide
  simp [column, playerColumn, e1, e2, e3, e4]
theorem col_skill (st : State) : column st false (asciiBytes "skill") = some (st.players.map fun p => natDec p.skill) := by
  have e1 : (asciiBytes "skill" == asciiBytes "player") = false := by decide
  have e2 : (asciiBytes "skill" == asciiBytes "score") = false := by decide
  have e3 : (asciiBytes "skill" == asciiBytes "ping") = false := by decide
  have e4 : (asciiBytes "skill" == asciiBytes "team") = false := by decide
  have e5 : (asciiBytes "skill" == asciiBytes "deaths") = false := by decide
  simp [column, playerColumn, e1, e2, e3, e4, e5]
theorem col_tteam (st : State) : column st true (asciiBytes "team") = some (st.teams.map (·.name)) := by
  simp [column, teamColumn]
theorem col_tscore (st : State) : column st true (asciiBytes "score") = some (st.teams.map fun t => intDec t.score) := by
  have e1 : (asciiBytes "score" == asciiBytes "team") = false := by decide
  simp [column, teamColumn, e1]

theorem sound_init (st : State) (team : Bool) (n : Nat) : Sound st team n (tbl Tables.init team) := by
  constructor
  · intro i f v h
    have : tbl Tables.init team = [[]] := by cases team <;> rfl
    rw [this] at h
    cases i with
    | zero => simp [cell, mapGet] at h
    | succ i => simp [cell, mapGet] at h
  · have : tbl Tables.init team = [[]] := by cases team <;> rfl
    rw [this]; simp; omega

theorem tbl_length_pos (st : State) (team : Bool) : ∀ (ss : List Slice) (t : Tables), 1 ≤ (tbl t team).length →
    1 ≤ (tbl (ss.foldl (applySlice st) t) team).length := by
  intro ss
  induction ss with
  | nil => intro t h; exact h
  | cons sl r ih =>
    intro t h
    apply ih
    unfold applySlice
    rw [tbl_applyValues]
    split
    · rw [putAll_length]; omega
    · exact h

/-- a cell of the final table holds the state's value -/
theorem final_cell (cfg : Config) (st : State) (h : LayoutOk cfg st) (team : Bool) (n : Nat) (hcols : ColumnsOf st team n)
    (f : Bytes) (col : List Bytes) (hcol : column st team f = some col) (i : Nat)
    (hcov : cfg.layout.flatten.any (covers team f i) = true) :
    cell (tbl (cfg.layout.flatten.foldl (applySlice st) Tables.init) team) i f = some (col.getD i []) := by
  have hsound := Sound.foldl hcols cfg.layout.flatten Tables.init h.slices (sound_init st team n)
  have hsome := covered_cell st team f i cfg.layout.flatten Tables.init h.slices hcov
  cases hc : cell (tbl (cfg.layout.flatten.foldl (applySlice st) Tables.init) team) i f with
  | none => rw [hc] at hsome; cases hsome
  | some v =>
    obtain ⟨col', hcol', _, hv⟩ := hsound.1 i f v hc
    rw [hcol] at hcol'
    cases hcol'
    rw [hv]

theorem covered_players (st : State) (slices : List Slice) (h : covered st slices = true) (f : Bytes) (hf : f ∈ playerFields)
    (i : Nat) (hi : i < st.players.length) : slices.any (covers false f i) = true := by
  simp only [covered, Bool.and_eq_true, List.all_eq_true] at h
  exact h.1 f hf i (List.mem_range.mpr hi)

theorem covered_teams (st : State) (slices : List Slice) (h : covered st slices = true) (f : Bytes) (hf : f ∈ teamFields)
    (i : Nat) (hi : i < st.teams.length) : slices.any (covers true f i) = true := by
  simp only [covered, Bool.and_eq_true, List.all_eq_true] at h
  exact h.2 f hf i (List.mem_range.mpr hi)

theorem getD_map_of_getElem? {α : Type} (l : List α) (g : α → Bytes) (i : Nat) (x : α) (h : l[i]? = some x) :
    (l.map g).getD i [] = g x := by
  simp [List.getD_eq_getElem?_getD, h]

/-- the field sections of all packets of a well-formed reply give back the players and the teams -/
theorem parsePlayersAndTeams_of_run (cfg : Config) (st : State) (h : LayoutOk cfg st) (packets : List Bytes)
    (hrun : readAllSections Tables.init packets = .ok (cfg.layout.flatten.foldl (applySlice st) Tables.init)) :
    parsePlayersAndTeams packets = .ok (st.players, st.teams) := by
  unfold parsePlayersAndTeams
  rw [hrun]
  simp only [Res.bind_ok]
  have hcp := columnsOf_players st (fun l hl => (h.pids l hl).1)
  have hct := columnsOf_teams st
  -- players
  have hplayers : mkRows mkPlayer (cfg.layout.flatten.foldl (applySlice st) Tables.init).players = .ok st.players := by
    have hsound := Sound.foldl hcp cfg.layout.flatten Tables.init h.slices (sound_init st false _)
    refine rows_of_table st false st.players.length _ hsound (tbl_length_pos st false _ _ (by decide)) ?_ mkPlayer st.players rfl ?_
    · intro i hi
      refine ⟨asciiBytes "player", ?_⟩
      rw [final_cell cfg st h false _ hcp _ _ (col_player st) i
        (covered_players st _ h.cov _ (by simp [playerFields]) i hi)]
      rfl
    · intro i p hp
      have hi : i < st.players.length := (List.getElem?_eq_some_iff.mp hp).1
      have hmem : p ∈ st.players := List.mem_of_getElem? hp
      have hcell : ∀ (f : Bytes) (g : Player → Bytes), f ∈ playerFields →
          column st false f = some (st.players.map g) →
          mapGet ((tbl (cfg.layout.flatten.foldl (applySlice st) Tables.init) false).getD i []) f = some (g p) := by
        intro f g hf hcol
        have := final_cell cfg st h false _ hcp f _ hcol i (covered_players st _ h.cov f hf i hi)
        rw [getD_map_of_getElem? _ g i p hp] at this
        exact this
      exact mkPlayer_of_cells _ p (h.players p hmem)
        (hcell _ (·.name) (by simp [playerFields]) (col_player st))
        (hcell _ (fun p => intDec p.score) (by simp [playerFields]) (col_score st))
        (hcell _ (fun p => natDec p.ping) (by simp [playerFields]) (col_ping st))
        (hcell _ (fun p => natDec p.team) (by simp [playerFields]) (col_team st))
        (hcell _ (fun p => natDec p.deaths) (by simp [playerFields]) (col_deaths st))
        (hcell _ (fun p => natDec p.skill) (by simp [playerFields]) (col_skill st))
  have hteams : mkRows mkTeam (cfg.layout.flatten.foldl (applySlice st) Tables.init).teams = .ok st.teams := by
    have hsound := Sound.foldl hct cfg.layout.flatten Tables.init h.slices (sound_init st true _)
    refine rows_of_table st true st.teams.length _ hsound (tbl_length_pos st true _ _ (by decide)) ?_ mkTeam st.teams rfl ?_
    · intro i hi
      refine ⟨asciiBytes "team", ?_⟩
      rw [final_cell cfg st h true _ hct _ _ (col_tteam st) i
        (covered_teams st _ h.cov _ (by simp [teamFields]) i hi)]
      rfl
    · intro i t ht
      have hi : i < st.teams.length := (List.getElem?_eq_some_iff.mp ht).1
      have hmem : t ∈ st.teams := List.mem_of_getElem? ht
      have hcell : ∀ (f : Bytes) (g : Team → Bytes), f ∈ teamFields →
          column st true f = some (st.teams.map g) →
          mapGet ((tbl (cfg.layout.flatten.foldl (applySlice st) Tables.init) true).getD i []) f = some (g t) := by
        intro f g hf hcol
        have := final_cell cfg st h true _ hct f _ hcol i (covered_teams st _ h.cov f hf i hi)
        rw [getD_map_of_getElem? _ g i t ht] at this
        exact this
      exact mkTeam_of_cells _ t (h.teams t hmem)
        (hcell _ (·.name) (by simp [teamFields]) (col_tteam st))
        (hcell _ (fun t => intDec t.score) (by simp [teamFields]) (col_tscore st))
  have e1 : (cfg.layout.flatten.foldl (applySlice st) Tables.init).players
      = tbl (cfg.layout.flatten.foldl (applySlice st) Tables.init) false := rfl
  have e2 : (cfg.layout.flatten.foldl (applySlice st) Tables.init).teams
      = tbl (cfg.layout.flatten.foldl (applySlice st) Tables.init) true := rfl
  rw [hplayers, hteams]
  rfl

theorem parsePlayersAndTeams_spec (cfg : Config) (st : State) (h : LayoutOk cfg st) :
    parsePlayersAndTeams (cfg.layout.map (encSlices st)) = .ok (st.players, st.teams) :=
  parsePlayersAndTeams_of_run cfg st h _
    (readAllSections_run st cfg.layout (fun sl hsl => slice_values_ok cfg st h sl hsl) Tables.init)

end Gd.Gs3

/-! ### the variables -/

namespace Gd.Gs3
open Gd Gd.Gs3.Spec

/-- the variables without the keys in `ks` -/
def rem (ks : List Bytes) (vars : Vars) : Vars := vars.filter fun p => !ks.contains p.1

theorem rem_nil (vars : Vars) : rem [] vars = vars := by simp [rem]

theorem mapGet_filter (vars : Vars) (q : Bytes → Bool) (k : Bytes) (hq : q k = true) :
    mapGet (vars.filter fun p => q p.1) k = mapGet vars k := by
  induction vars with
  | nil => rfl
  | cons p r ih =>
    obtain ⟨k', v'⟩ := p
    simp only [List.filter_cons]
    by_cases hk : q k' = true
    · simp only [hk, ↓reduceIte, mapGet, ih]
    · have hne : (k' == k) = false := by
        rw [beq_eq_false_iff_ne]
        intro e; subst e; exact hk hq
      simp only [hk, Bool.false_eq_true, ↓reduceIte, mapGet, hne, ih]

theorem mapTake_rem (ks : List Bytes) (vars : Vars) (k : Bytes) (hk : ks.contains k = false) :
    mapTake (rem ks vars) k = (mapGet vars k, rem (ks ++ [k]) vars) := by
  unfold mapTake
  congr 1
  · exact mapGet_filter vars (fun x => !ks.contains x) k (by rw [hk]; rfl)
  · simp only [rem, Valve.mapRemove, List.filter_filter]
    congr 1
    funext p
    simp only [List.contains_eq_mem, List.mem_append, List.mem_singleton]
    by_cases h1 : p.1 ∈ ks <;> by_cases h2 : p.1 = k <;> simp [h1, h2, bne]

theorem takeReq_rem (ks : List Bytes) (vars : Vars) (k : String) (v : Bytes) (hk : ks.contains (asciiBytes k) = false)
    (hv : mapGet vars (asciiBytes k) = some v) :
    takeReq (rem ks vars) k = .ok (v, rem (ks ++ [asciiBytes k]) vars) := by
  unfold takeReq
  rw [mapTake_rem ks vars _ hk, hv]

def puCore (bits : Nat) (ds : Bytes) : Option Nat :=
  if ds.isEmpty || !ds.all isDigit then none
  else if digitsVal ds < 2 ^ bits then some (digitsVal ds) else none

theorem parseUnsigned_eq (bits : Nat) (s : Bytes) : parseUnsigned bits s = puCore bits (stripPlus s) := by
  unfold parseUnsigned puCore
  rfl

theorem puCore_mono (b b' : Nat) (hb : b ≤ b') (ds : Bytes) (n : Nat) (h : puCore b ds = some n) :
    puCore b' ds = some n ∧ n < 2 ^ b := by
  unfold puCore at h ⊢
  by_cases h1 : (ds.isEmpty || !ds.all isDigit) = true
  · simp [h1] at h
  · by_cases h2 : digitsVal ds < 2 ^ b
    · have h3 : digitsVal ds < 2 ^ b' := Nat.lt_of_lt_of_le h2 (Nat.pow_le_pow_right (by omega) hb)
      simp only [h1, h2, h3, ↓reduceIte, Bool.false_eq_true] at h ⊢
      cases h
      exact ⟨rfl, h2⟩
    · simp [h1, h2] at h

theorem parseUnsigned_mono (b b' : Nat) (hb : b ≤ b') (v : Bytes) (n : Nat) (h : parseUnsigned b v = some n) :
    parseUnsigned b' v = some n := by
  rw [parseUnsigned_eq] at h ⊢
  exact (puCore_mono b b' hb _ n h).1

theorem parseUnsigned_lt (b : Nat) (v : Bytes) (n : Nat) (h : parseUnsigned b v = some n) : n < 2 ^ b := by
  rw [parseUnsigned_eq] at h
  exact (puCore_mono b b (Nat.le_refl _) _ n h).2

theorem passwordValue_flag (v : Bytes) (h : isFlag v = true) : passwordValue v = .ok (flagOf v) := by
  unfold passwordValue flagOf parseBool
  simp only [isFlag, Bool.or_eq_true, beq_iff_eq] at h
  simp only
  by_cases h1 : asciiLower v = asciiBytes "true"
  · simp [h1]
  · by_cases h2 : asciiLower v = asciiBytes "false"
    · have : (asciiBytes "false" == asciiBytes "true") = false := by decide
      simp [h2, this]
    · have hsome : (parseUnsigned 8 (asciiLower v)).isSome = true := by
        rcases h with (h | h) | h
        · exact absurd h h1
        · exact absurd h h2
        · exact h
      have b1 : (asciiLower v == asciiBytes "true") = false := by simpa using h1
      have b2 : (asciiLower v == asciiBytes "false") = false := by simpa using h2
      cases hp : parseUnsigned 8 (asciiLower v) with
      | none => rw [hp] at hsome; cases hsome
      | some n => simp [b1, b2, hp, parseU, okOr]

theorem tournament_flag (v : Bytes) (h : isBoolText v = true) : parseBool (asciiLower v) = some (flagOf v) := by
  unfold parseBool flagOf
  simp only [isBoolText, Bool.or_eq_true, beq_iff_eq] at h
  simp only
  rcases h with h | h
  · simp [h]
  · have : (asciiBytes "false" == asciiBytes "true") = false := by decide
    simp [h, this]

/-- what `wf` says about the variables, as propositions -/
structure VarsOk (st : State) : Prop where
  items : ∀ p ∈ st.vars, okItem p.1 = true ∧ okStr p.2 = true
  distinct : Valve.Spec.distinctKeys st.vars = true
  hostname : ∃ v, var st "hostname" = some v
  mapname : ∃ v, var st "mapname" = some v
  gametype : ∃ v, var st "gametype" = some v
  gamever : ∃ v, var st "gamever" = some v
  password : ∃ v, var st "password" = some v ∧ isFlag v = true
  maxplayers : ∃ v n, var st "maxplayers" = some v ∧ parseUnsigned 32 v = some n
  minplayers : ∀ v, var st "minplayers" = some v → ∃ n, parseUnsigned 8 v = some n
  numplayers : ∀ v, var st "numplayers" = some v → ∃ n, parseUnsigned 32 v = some n
  tournament : ∀ v, var st "tournament" = some v → isBoolText v = true
  listed : st.players.length < 2 ^ 32

theorem typed_rem (vars : Vars) :
    rem [asciiBytes "maxplayers", asciiBytes "minplayers", asciiBytes "numplayers", asciiBytes "hostname",
      asciiBytes "mapname", asciiBytes "password", asciiBytes "gametype", asciiBytes "gamever", asciiBytes "tournament"] vars
      = vars.filter fun p => !typedKeys.contains p.1 := by
  unfold rem typedKeys
  congr 1
  funext p
  congr 1
  simp only [List.contains_eq_mem, List.mem_cons, List.not_mem_nil, or_false, decide_eq_decide]
  constructor <;> (intro h; rcases h with h | h | h | h | h | h | h | h | h <;> simp [h])

/-- the typed fields and the unused entries from the variables of a well-formed state -/
theorem fields_spec (st : State) (h : VarsOk st) :
    buildFields st.vars st.players st.teams = .ok (expected st) := by
  unfold buildFields
  obtain ⟨vhost, hhost⟩ := h.hostname
  obtain ⟨vmap, hmap⟩ := h.mapname
  obtain ⟨vtype, htype⟩ := h.gametype
  obtain ⟨vver, hver⟩ := h.gamever
  obtain ⟨vpw, hpw, hflag⟩ := h.password
  obtain ⟨vmax, nmax, hmax, hpmax⟩ := h.maxplayers
  simp only [var] at hhost hmap htype hver hpw hmax
  -- maxplayers
  have s1 := takeReq_rem [] st.vars "maxplayers" vmax (by decide) hmax
  rw [rem_nil] at s1
  rw [s1]
  simp only [Res.bind_ok, parseU, hpmax, okOr, List.nil_append]
  -- minplayers
  have s2 : takeMin (rem [asciiBytes "maxplayers"] st.vars)
      = .ok ((var st "minplayers").map (fun v => numOf 8 (some v)), rem [asciiBytes "maxplayers", asciiBytes "minplayers"] st.vars) := by
    unfold takeMin
    rw [mapTake_rem _ _ _ (by decide)]
    cases hmin : mapGet st.vars (asciiBytes "minplayers") with
    | none => simp [var, hmin]
    | some v =>
      obtain ⟨n, hn⟩ := h.minplayers v (by simpa [var] using hmin)
      simp [var, hmin, parseU, hn, okOr, numOf]
  rw [s2]
  simp only [Res.bind_ok]
  -- numplayers
  have s3 : takeOnline (rem [asciiBytes "maxplayers", asciiBytes "minplayers"] st.vars) st.players.length
      = .ok (max (numOf 64 (var st "numplayers")) st.players.length,
          rem [asciiBytes "maxplayers", asciiBytes "minplayers", asciiBytes "numplayers"] st.vars) := by
    unfold takeOnline
    rw [mapTake_rem _ _ _ (by decide)]
    have hl := h.listed
    cases hnum : mapGet st.vars (asciiBytes "numplayers") with
    | none =>
      simp only [var, hnum, numOf, Option.bind_none, Option.getD_none, List.cons_append, List.nil_append]
      rw [Nat.mod_eq_of_lt hl]
      simp
    | some v =>
      obtain ⟨n, hn⟩ := h.numplayers v (by simpa [var] using hnum)
      have hn64 := parseUnsigned_mono 32 64 (by omega) v n hn
      have hlt := parseUnsigned_lt 32 v n hn
      simp only [var, hnum, parseU, hn64, okOr, Res.bind_ok, numOf, Option.bind_some, Option.getD_some,
        List.cons_append, List.nil_append, Res.pure_eq]
      congr 2
      split
      · rw [Nat.mod_eq_of_lt hl]; omega
      · rw [Nat.mod_eq_of_lt hlt]; omega
  rw [s3]
  simp only [Res.bind_ok]
  -- hostname, mapname
  rw [takeReq_rem _ st.vars "hostname" vhost (by decide) hhost]
  simp only [Res.bind_ok, List.cons_append, List.nil_append]
  rw [takeReq_rem _ st.vars "mapname" vmap (by decide) hmap]
  simp only [Res.bind_ok, List.cons_append, List.nil_append]
  -- password
  have s6 : hasPassword (rem [asciiBytes "maxplayers", asciiBytes "minplayers", asciiBytes "numplayers",
        asciiBytes "hostname", asciiBytes "mapname"] st.vars)
      = .ok (flagOf vpw, rem [asciiBytes "maxplayers", asciiBytes "minplayers", asciiBytes "numplayers",
        asciiBytes "hostname", asciiBytes "mapname", asciiBytes "password"] st.vars) := by
    unfold hasPassword
    rw [mapTake_rem _ _ _ (by decide), hpw]
    simp [passwordValue_flag vpw hflag]
  rw [s6]
  simp only [Res.bind_ok]
  rw [takeReq_rem _ st.vars "gametype" vtype (by decide) htype]
  simp only [Res.bind_ok, List.cons_append, List.nil_append]
  rw [takeReq_rem _ st.vars "gamever" vver (by decide) hver]
  simp only [Res.bind_ok, List.cons_append, List.nil_append]
  -- tournament
  have s9 : takeTournament (rem [asciiBytes "maxplayers", asciiBytes "minplayers", asciiBytes "numplayers",
        asciiBytes "hostname", asciiBytes "mapname", asciiBytes "password", asciiBytes "gametype", asciiBytes "gamever"] st.vars)
      = .ok ((expected st).tournament, st.vars.filter fun p => !typedKeys.contains p.1) := by
    unfold takeTournament
    rw [mapTake_rem _ _ _ (by decide)]
    simp only [List.cons_append, List.nil_append, typed_rem]
    cases ht : mapGet st.vars (asciiBytes "tournament") with
    | none =>
      have : parseBool (asciiBytes "true") = some true := by decide
      simp [expected, var, ht, this]
    | some v =>
      have := tournament_flag v (h.tournament v (by simpa [var] using ht))
      simp [expected, var, ht, this]
  rw [s9]
  simp only [Res.bind_ok, Res.pure_eq, expected, var, hhost, hmap, htype, hver, hpw, hmax, Option.getD_some, numOf,
    Option.bind_some, hpmax]

end Gd.Gs3

/-! ### everything `query` does with the packets of a well-formed reply -/

namespace Gd.Gs3
open Gd Gd.Gs3.Spec

/-- the thirteen conjuncts of `wf` -/
theorem wf_parts (cfg : Config) (st : State) (h : wf cfg st = true) :
    wfVars st = true ∧ st.players.all wfPlayer = true ∧ st.teams.all wfTeam = true ∧ st.players.length < 2 ^ 32
    ∧ (st.pids.all fun l => l.length == st.players.length && l.all okItem) = true
    ∧ cfg.layout.flatten.all (wfSlice st) = true ∧ covered st cfg.layout.flatten = true
    ∧ cfg.layout.isEmpty = false ∧ (cfg.layout.drop 1).all (fun ss => !ss.isEmpty) = true ∧ cfg.layout.length ≤ 128
    ∧ -(2 ^ 31 : Int) ≤ cfg.challenge ∧ cfg.challenge < 2 ^ 31
    ∧ (dataPackets cfg st).all (fun d => d.length ≤ PACKET_SIZE) = true := by
  simp only [wf, Bool.and_eq_true, decide_eq_true_eq, Bool.not_eq_true'] at h
  obtain ⟨h, h13⟩ := h
  obtain ⟨h, h12⟩ := h
  obtain ⟨h, h11⟩ := h
  obtain ⟨h, h10⟩ := h
  obtain ⟨h, h9⟩ := h
  obtain ⟨h, h8⟩ := h
  obtain ⟨h, h7⟩ := h
  obtain ⟨h, h6⟩ := h
  obtain ⟨h, h5⟩ := h
  obtain ⟨h, h4⟩ := h
  obtain ⟨h, h3⟩ := h
  obtain ⟨h1, h2⟩ := h
  exact ⟨h1, h2, h3, h4, h5, h6, h7, h8, h9, h10, h11, h12, h13⟩

theorem varsOk_of (st : State) (hv : wfVars st = true) (hlisted : st.players.length < 2 ^ 32) : VarsOk st := by
  simp only [wfVars, Bool.and_eq_true] at hv
  obtain ⟨hv, t9⟩ := hv
  obtain ⟨hv, t8⟩ := hv
  obtain ⟨hv, t7⟩ := hv
  obtain ⟨hv, t6⟩ := hv
  obtain ⟨hv, t5⟩ := hv
  obtain ⟨hv, t4⟩ := hv
  obtain ⟨hv, t3⟩ := hv
  obtain ⟨hv, t2⟩ := hv
  obtain ⟨hv, t1⟩ := hv
  obtain ⟨hitems, hdist⟩ := hv
  have some_of : ∀ {o : Option Bytes}, o.isSome = true → ∃ v, o = some v := fun {o} ho => Option.isSome_iff_exists.mp ho
  have any_of : ∀ {o : Option Bytes} {q : Bytes → Bool}, o.any q = true → ∃ v, o = some v ∧ q v = true := by
    intro o q ho
    cases o with
    | none => simp at ho
    | some v => exact ⟨v, rfl, by simpa using ho⟩
  have all_of : ∀ {o : Option Bytes} {q : Bytes → Bool}, o.all q = true → ∀ v, o = some v → q v = true := by
    intro o q ho v hv
    subst hv
    simpa using ho
  refine
    { items := ?_, distinct := hdist, hostname := some_of t1, mapname := some_of t2, gametype := some_of t3,
      gamever := some_of t4, password := any_of t5, maxplayers := ?_, minplayers := ?_, numplayers := ?_,
      tournament := fun v hv => all_of t9 v hv, listed := hlisted }
  · intro p hp
    have := List.all_eq_true.mp hitems p hp
    simpa using this
  · obtain ⟨v, hv, hq⟩ := any_of t6
    obtain ⟨n, hn⟩ := Option.isSome_iff_exists.mp hq
    exact ⟨v, n, hv, hn⟩
  · intro v hv
    exact Option.isSome_iff_exists.mp (all_of t7 v hv)
  · intro v hv
    exact Option.isSome_iff_exists.mp (all_of t8 v hv)

theorem wf_vars (cfg : Config) (st : State) (h : wf cfg st = true) : VarsOk st := by
  obtain ⟨hv, _, _, hlisted, _⟩ := wf_parts cfg st h
  exact varsOk_of st hv hlisted

theorem wf_layout (cfg : Config) (st : State) (h : wf cfg st = true) : LayoutOk cfg st := by
  obtain ⟨_, hp, ht, _, hpid, hsl, hcov, _⟩ := wf_parts cfg st h
  refine ⟨fun sl hsl' => List.all_eq_true.mp hsl sl hsl', hcov, fun p hp' => List.all_eq_true.mp hp p hp',
    fun t ht' => List.all_eq_true.mp ht t ht', ?_⟩
  intro l hl
  rw [hl] at hpid
  simp only [Option.all_some, Bool.and_eq_true, beq_iff_eq] at hpid
  exact ⟨hpid.1, fun v hv => List.all_eq_true.mp hpid.2 v hv⟩

/-- `query`'s post-processing on the payloads of a well-formed reply gives the expected response -/
theorem buildResponse_spec (cfg : Config) (st : State) (h : wf cfg st = true) :
    buildResponse (payloads cfg st) = .ok (expected st) := by
  have hv := wf_vars cfg st h
  have hl := wf_layout cfg st h
  obtain ⟨_, _, _, _, _, _, _, hne, _⟩ := wf_parts cfg st h
  cases hlay : cfg.layout with
  | nil => rw [hlay] at hne; cases hne
  | cons first rest =>
    have hp := parsePlayersAndTeams_spec cfg st hl
    rw [hlay] at hp
    unfold buildResponse payloads
    simp only [hlay, List.head?_cons, okOr, Res.bind_ok, dataToMap_encVars st.vars hv.items hv.distinct,
      List.drop_succ_cons, List.drop_zero]
    simp only [List.map_cons] at hp
    rw [hp]
    exact fields_spec st hv

/-- `query_vars`'s post-processing on them gives exactly the variables sent -/
theorem buildVars_spec (cfg : Config) (st : State) (h : wf cfg st = true) :
    buildVars (payloads cfg st) = .ok st.vars := by
  have hv := wf_vars cfg st h
  unfold buildVars payloads
  cases hlay : cfg.layout with
  | nil =>
    have := dataToMap_encVars st.vars hv.items hv.distinct []
    simp only [List.append_nil] at this
    simp [okOr, this]
  | cons first rest =>
    simp [okOr, dataToMap_encVars st.vars hv.items hv.distinct]

end Gd.Gs3
