import GdVerif.Lemmas.Gs3
/-
  GameSpy 3, part C: what the tables hold after all slices of a well-formed reply have been applied,
  and that the rows built from them are the SPEC's players and teams.
-/
namespace Gd.Gs3
open Gd Gd.Gs3.Spec

/-! ### cells -/

/-- the value stored for field `f` in row `i` -/
def cell (data : List Vars) (i : Nat) (f : Bytes) : Option Bytes := mapGet (data.getD i []) f

theorem mapGet_mapInsert (m : Vars) (k v f : Bytes) :
    mapGet (Valve.mapInsert m k v) f = if f = k then some v else mapGet m f := by
  induction m with
  | nil =>
    simp only [Valve.mapInsert, mapGet]
    by_cases h : f = k
    · subst h; simp
    · have : (k == f) = false := by rw [beq_eq_false_iff_ne]; exact fun e => h e.symm
      simp [h, this]
  | cons p r ih =>
    obtain ⟨k', v'⟩ := p
    simp only [Valve.mapInsert]
    by_cases hk : k' = k
    · subst hk
      simp only [beq_self_eq_true, ↓reduceIte, mapGet]
      by_cases h : f = k'
      · subst h; simp
      · have : (k' == f) = false := by rw [beq_eq_false_iff_ne]; exact fun e => h e.symm
        simp [h, this]
    · have hkk : (k' == k) = false := by rw [beq_eq_false_iff_ne]; exact hk
      simp only [hkk, Bool.false_eq_true, ↓reduceIte, mapGet, ih]
      by_cases h : f = k
      · subst h
        simp [hkk]
      · simp [h]

theorem getD_append_replicate (data : List Vars) (n j : Nat) :
    (data ++ List.replicate n ([] : Vars)).getD j [] = data.getD j [] := by
  simp only [List.getD_eq_getElem?_getD, List.getElem?_append]
  split
  · rfl
  · rename_i h
    rw [List.getElem?_eq_none (Nat.le_of_not_lt h)]
    cases h2 : (List.replicate n ([] : Vars))[j - data.length]? with
    | none => rfl
    | some x =>
      have := List.mem_of_getElem? h2
      simp only [List.mem_replicate] at this
      simp [this.2]

theorem put_length (data : List Vars) (off : Nat) (name v : Bytes) :
    (put data off name v).length = max data.length (off + 1) := by
  simp [put]; omega

theorem put_cell (data : List Vars) (off : Nat) (name v : Bytes) (i : Nat) (f : Bytes) :
    cell (put data off name v) i f = if i = off ∧ f = name then some v else cell data i f := by
  unfold cell put
  simp only
  rw [List.getD_eq_getElem?_getD, List.getElem?_set]
  have hlen : off < (data ++ List.replicate (off + 1 - data.length) ([] : Vars)).length := by simp; omega
  by_cases hi : off = i
  · subst hi
    simp only [hlen, ↓reduceIte, Option.getD_some, mapGet_mapInsert, getD_append_replicate, true_and]
  · have hi' : ¬ i = off := fun e => hi e.symm
    simp only [hi, ↓reduceIte, hi', false_and]
    rw [← List.getD_eq_getElem?_getD, getD_append_replicate]

theorem putAll_length (name : Bytes) (vals : List Bytes) : ∀ (data : List Vars) (off : Nat),
    (putAll name data off vals).length = max data.length (if vals = [] then 0 else off + vals.length) := by
  induction vals with
  | nil => intro data off; simp [putAll]
  | cons v r ih =>
    intro data off
    simp only [putAll, ih, put_length, List.length_cons]
    cases r <;> simp <;> omega

theorem putAll_cell (name : Bytes) (vals : List Bytes) : ∀ (data : List Vars) (off i : Nat) (f : Bytes),
    cell (putAll name data off vals) i f
      = if f = name ∧ off ≤ i ∧ i < off + vals.length then some (vals.getD (i - off) []) else cell data i f := by
  induction vals with
  | nil => intro data off i f; simp only [putAll, List.length_nil, Nat.add_zero]; split <;> first | omega | rfl
  | cons v r ih =>
    intro data off i f
    simp only [putAll, ih, put_cell, List.length_cons]
    by_cases hf : f = name
    · subst hf
      by_cases h1 : off + 1 ≤ i ∧ i < off + 1 + r.length
      · have h2 : off ≤ i ∧ i < off + (r.length + 1) := by omega
        have h3 : i - off = (i - (off + 1)) + 1 := by omega
        simp [h1, h2, h3]
      · by_cases h4 : i = off
        · subst h4
          have h5 : ¬ (i + 1 ≤ i ∧ i < i + 1 + r.length) := by omega
          simp [h5]
        · have h2 : ¬ (off ≤ i ∧ i < off + (r.length + 1)) := by omega
          simp [h1, h2, h4]
    · simp [hf]

/-! ### the two tables -/

def tbl (t : Tables) (team : Bool) : List Vars := if team then t.teams else t.players

theorem tbl_applyValues (t : Tables) (team' team : Bool) (name : Bytes) (off : Nat) (vals : List Bytes) :
    tbl (applyValues t team' name off vals) team
      = if team = team' then putAll name (tbl t team) off vals else tbl t team := by
  cases team <;> cases team' <;> simp [tbl, applyValues]

/-- everything stored in a table is a value of the state's column of that name at that row, and the
table has no rows beyond the state's -/
def Sound (st : State) (team : Bool) (n : Nat) (data : List Vars) : Prop :=
  (∀ i f v, cell data i f = some v → ∃ col, column st team f = some col ∧ i < n ∧ col.getD i [] = v)
  ∧ data.length ≤ max 1 n

/-- the state's columns all have `n` rows -/
def ColumnsOf (st : State) (team : Bool) (n : Nat) : Prop :=
  ∀ f col, column st team f = some col → col.length = n

theorem sliceValues_getD (st : State) (sl : Slice) (col : List Bytes) (hc : column st sl.team sl.field = some col)
    (j : Nat) (hj : j < sl.count) : (sliceValues st sl).getD j [] = col.getD (sl.offset + j) [] := by
  simp only [sliceValues, hc, Option.getD_some, List.getD_eq_getElem?_getD, List.getElem?_take, hj, ↓reduceIte,
    List.getElem?_drop]

theorem sliceValues_length (st : State) (sl : Slice) (col : List Bytes) (hc : column st sl.team sl.field = some col)
    (hle : sl.offset + sl.count ≤ col.length) : (sliceValues st sl).length = sl.count := by
  simp only [sliceValues, hc, Option.getD_some, List.length_take, List.length_drop]
  omega

theorem slice_column (st : State) (sl : Slice) (h : wfSlice st sl = true) :
    ∃ col, column st sl.team sl.field = some col ∧ sl.offset + sl.count ≤ col.length := by
  simp only [wfSlice, Bool.and_eq_true] at h
  cases hc : column st sl.team sl.field with
  | none => rw [hc] at h; cases h.2
  | some col => rw [hc] at h; exact ⟨col, rfl, by simpa using h.2⟩

theorem Sound.applySlice {st : State} {team : Bool} {n : Nat} {t : Tables} (hs : Sound st team n (tbl t team))
    (hcols : ColumnsOf st team n) (sl : Slice) (hwf : wfSlice st sl = true) :
    Sound st team n (tbl (applySlice st t sl) team) := by
  unfold Gd.Gs3.applySlice
  rw [tbl_applyValues]
  by_cases hteam : team = sl.team
  · subst hteam
    simp only [↓reduceIte]
    obtain ⟨col, hc, hle⟩ := slice_column st sl hwf
    have hn := hcols _ _ hc
    have hlen := sliceValues_length st sl col hc hle
    constructor
    · intro i f v hcell
      rw [putAll_cell] at hcell
      split at hcell
      · rename_i hcond
        obtain ⟨hf, h1, h2⟩ := hcond
        subst hf
        rw [hlen] at h2
        refine ⟨col, hc, by omega, ?_⟩
        cases hcell
        rw [sliceValues_getD st sl col hc _ (by omega)]
        congr 1
        omega
      · exact hs.1 i f v hcell
    · rw [putAll_length, hlen]
      have := hs.2
      split <;> omega
  · simp only [hteam, ↓reduceIte]
    exact hs

theorem Sound.foldl {st : State} {team : Bool} {n : Nat} (hcols : ColumnsOf st team n) :
    ∀ (ss : List Slice) (t : Tables), (∀ sl ∈ ss, wfSlice st sl = true) → Sound st team n (tbl t team) →
      Sound st team n (tbl (ss.foldl (Gd.Gs3.applySlice st) t) team) := by
  intro ss
  induction ss with
  | nil => intro t _ h; exact h
  | cons sl r ih =>
    intro t hwf h
    exact ih _ (fun s hs => hwf s (by simp [hs])) (h.applySlice hcols sl (hwf sl (by simp)))

/-- a cell, once written, stays written -/
theorem cell_some_applySlice (st : State) (t : Tables) (sl : Slice) (team : Bool) (i : Nat) (f : Bytes)
    (h : (cell (tbl t team) i f).isSome = true) : (cell (tbl (Gd.Gs3.applySlice st t sl) team) i f).isSome = true := by
  unfold Gd.Gs3.applySlice
  rw [tbl_applyValues]
  split
  · rw [putAll_cell]; split
    · rfl
    · exact h
  · exact h

theorem cell_some_foldl (st : State) (team : Bool) (i : Nat) (f : Bytes) : ∀ (ss : List Slice) (t : Tables),
    (cell (tbl t team) i f).isSome = true → (cell (tbl (ss.foldl (Gd.Gs3.applySlice st) t) team) i f).isSome = true := by
  intro ss
  induction ss with
  | nil => intro t h; exact h
  | cons sl r ih => intro t h; exact ih _ (cell_some_applySlice st t sl team i f h)

/-- a value covered by one of the slices is in the table at the end -/
theorem covered_cell (st : State) (team : Bool) (f : Bytes) (i : Nat) : ∀ (ss : List Slice) (t : Tables),
    (∀ sl ∈ ss, wfSlice st sl = true) → ss.any (covers team f i) = true →
    (cell (tbl (ss.foldl (Gd.Gs3.applySlice st) t) team) i f).isSome = true := by
  intro ss
  induction ss with
  | nil => intro t _ h; simp at h
  | cons sl r ih =>
    intro t hwf h
    simp only [List.any_cons, Bool.or_eq_true] at h
    simp only [List.foldl_cons]
    by_cases hc : covers team f i sl = true
    · apply cell_some_foldl
      simp only [covers, Bool.and_eq_true, beq_iff_eq, decide_eq_true_eq] at hc
      obtain ⟨⟨⟨ht, hf⟩, h1⟩, h2⟩ := hc
      obtain ⟨col, hcol, hle⟩ := slice_column st sl (hwf sl (by simp))
      unfold Gd.Gs3.applySlice
      rw [tbl_applyValues, ht, hf]
      simp only [↓reduceIte, putAll_cell, sliceValues_length st sl col hcol hle]
      simp [h1, h2]
    · rcases h with h | h
      · exact absurd h hc
      · exact ih _ (fun s hs => hwf s (by simp [hs])) h

/-! ### rows -/

theorem mkRows_eq {mk : Vars → Res α} : ∀ (data : List Vars) (xs : List α), data.length = xs.length →
    (∀ i x, xs[i]? = some x → data.getD i [] ≠ [] ∧ mk (data.getD i []) = .ok x) → mkRows mk data = .ok xs := by
  intro data
  induction data with
  | nil => intro xs hl _; cases xs with
    | nil => rfl
    | cons => simp at hl
  | cons m r ih =>
    intro xs hl h
    cases xs with
    | nil => simp at hl
    | cons x xr =>
      obtain ⟨hne, hmk⟩ := h 0 x rfl
      simp only [List.getD_cons_zero] at hne hmk
      have hm : m.isEmpty = false := by cases m <;> simp_all
      simp only [mkRows, hm, Bool.false_eq_true, ↓reduceIte, hmk, Res.bind_ok]
      rw [ih xr (by simpa using hl) (fun i y hy => by
        have := h (i + 1) y (by simpa using hy)
        simpa using this)]
      rfl

theorem mapGet_ne_nil {m : Vars} {k v : Bytes} (h : mapGet m k = some v) : m ≠ [] := by
  intro e; subst e; simp [mapGet] at h

theorem exists_cell_of_ne_nil {m : Vars} (h : m ≠ []) : ∃ k v, mapGet m k = some v := by
  cases m with
  | nil => exact absurd rfl h
  | cons p r => exact ⟨p.1, p.2, by simp [mapGet]⟩

/-- The rows of a table that is sound and complete for the columns `fields` are the state's rows:
`mk` applied to row `i` sees exactly the state's values of row `i`. -/
theorem rows_of_table (st : State) (team : Bool) (n : Nat) (data : List Vars) (hs : Sound st team n data)
    (hlen1 : 1 ≤ data.length)
    (hcov : ∀ i, i < n → ∃ f, (cell data i f).isSome = true)
    {α : Type} (mk : Vars → Res α) (xs : List α) (hxs : xs.length = n)
    (hmk : ∀ i x, xs[i]? = some x → mk (data.getD i []) = .ok x) :
    mkRows mk data = .ok xs := by
  by_cases hn : n = 0
  · -- no rows: the table is the initial `[{}]`
    subst hn
    have hx : xs = [] := List.length_eq_zero_iff.mp hxs
    subst hx
    have hl : data.length = 1 := by have := hs.2; omega
    match data, hl with
    | [m], _ =>
      have hm : m = [] := by
        apply Classical.byContradiction
        intro hne
        obtain ⟨k, v, hkv⟩ := exists_cell_of_ne_nil hne
        obtain ⟨_, _, hi, _⟩ := hs.1 0 k v (by simpa [cell] using hkv)
        omega
      subst hm
      rfl
  · have hl : data.length = n := by
      have h1 := hs.2
      obtain ⟨f, hf⟩ := hcov (n - 1) (by omega)
      have : n - 1 < data.length := by
        apply Classical.byContradiction
        intro hge
        simp [cell, List.getD_eq_getElem?_getD, List.getElem?_eq_none (Nat.le_of_not_lt hge), mapGet] at hf
      omega
    apply mkRows_eq data xs (by omega)
    intro i x hx
    have hi : i < n := by
      have := (List.getElem?_eq_some_iff.mp hx).1
      omega
    obtain ⟨f, hf⟩ := hcov i hi
    refine ⟨?_, hmk i x hx⟩
    cases hc : cell data i f with
    | none => rw [hc] at hf; cases hf
    | some v => exact mapGet_ne_nil hc

end Gd.Gs3
