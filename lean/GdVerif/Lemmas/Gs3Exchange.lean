import GdVerif.Lemmas.Gs3Reassembly
import GdVerif.Lemmas.Decodes
import GdVerif.Lemmas.Decimal
/-
  The GameSpy 3 exchange against a scripted server: what the client decodes from the SPEC's datagrams
  (handshake reply, data packets), what the receive loop returns (`recvPackets` = `feed` on the queued
  datagrams), and what the client has sent afterwards.
-/
namespace Gd.Gs3
open Gd

/-! ### SPEC datagrams decode to what they carry -/

/-- a received datagram through `GameSpy3::receive(None, 0)` and the split header -/
def decodeFrag (d : Bytes) : Res Frag := (readHeader 0).run (d.take PACKET_SIZE) >>= fun p => readFrag.run p

theorem run_readHeader (kind : Nat) (hk : kind < 256) (rest : Bytes) :
    (readHeader kind).run ([UInt8.ofNat kind] ++ Spec.sessionId ++ rest) = .ok rest := by
  have h1 : Decodes readU8 [UInt8.ofNat kind] kind := decodes_u8 kind hk
  have h2 : Decodes (readUnsigned .big 4) Spec.sessionId 1 := decodes_be 4 1 (by decide)
  unfold Par.run readHeader
  obtain ⟨b1, hb1, hr1, _⟩ := h1 (Buf.new ([UInt8.ofNat kind] ++ Spec.sessionId ++ rest)) (Spec.sessionId ++ rest)
    (by simp [List.append_assoc])
  rw [Par.bind_ok hb1]
  simp only [bne_self_eq_false, Bool.false_eq_true, ↓reduceIte]
  obtain ⟨b2, hb2, hr2, _⟩ := h2 b1 rest hr1
  rw [Par.bind_ok hb2]
  simp [SESSION_ID, remainingBytes, hr2]

theorem bits7 : ∀ id, id < 128 →
    (id + 128) &&& 0x7f = id ∧ ((id + 128) &&& 0x80 > 0) = True ∧ id &&& 0x7f = id ∧ (id &&& 0x80 > 0) = False := by
  decide

theorem run_readFrag_byte (idb : Nat) (hlt : idb < 256) (unknown : UInt8) (payload : Bytes) :
    readFrag.run (Spec.cstr (asciiBytes "splitnum") ++ [UInt8.ofNat idb] ++ [unknown] ++ payload)
      = .ok ⟨idb &&& 0x7f, idb &&& 0x80 > 0, payload⟩ := by
  have hs : asciiBytes "splitnum" = [115, 112, 108, 105, 116, 110, 117, 109] := by decide
  have h1 : Decodes readCStr (Spec.cstr (asciiBytes "splitnum")) (asciiBytes "splitnum") := by
    rw [hs]
    exact decodes_readCStr _ (by decide) (validUtf8_ascii _ (by decide))
  have h2 : Decodes readU8 [UInt8.ofNat idb] idb := decodes_u8 _ hlt
  have h3 : Decodes (moveCursor 1) [unknown] () := decodes_skip [unknown]
  unfold Par.run readFrag
  obtain ⟨b1, hb1, hr1, _⟩ := h1 (Buf.new (Spec.cstr (asciiBytes "splitnum") ++ [UInt8.ofNat idb] ++ [unknown] ++ payload))
    ([UInt8.ofNat idb] ++ [unknown] ++ payload) (by simp only [Buf.rest_new, List.append_assoc])
  rw [Par.bind_ok hb1]
  simp only [bne_self_eq_false, Bool.false_eq_true, ↓reduceIte]
  obtain ⟨b2, hb2, hr2, _⟩ := h2 b1 ([unknown] ++ payload) (by rw [hr1]; simp only [List.append_assoc])
  rw [Par.bind_ok hb2]
  obtain ⟨b3, hb3, hr3, _⟩ := h3 b2 payload hr2
  rw [Par.bind_ok hb3]
  simp [remainingBytes, hr3, Par.bind_apply]

theorem run_readFrag (id : Nat) (hid : id < 128) (last : Bool) (unknown : UInt8) (payload : Bytes) :
    readFrag.run (Spec.cstr (asciiBytes "splitnum") ++ [UInt8.ofNat (id + (if last then 0x80 else 0))] ++ [unknown] ++ payload)
      = .ok ⟨id, last, payload⟩ := by
  obtain ⟨e1, e2, e3, e4⟩ := bits7 id hid
  cases last
  · have := run_readFrag_byte id (by omega) unknown payload
    simp only [e3, e4, decide_false] at this
    simpa using this
  · have := run_readFrag_byte (id + 128) (by omega) unknown payload
    simp only [e1, e2, decide_true] at this
    simpa using this

/-- a SPEC data packet that fits the receive buffer decodes to its id, flag and payload -/
theorem decodeFrag_dataPacket (id : Nat) (hid : id < 128) (last : Bool) (unknown : Nat) (payload : Bytes)
    (hlen : (Spec.dataPacket id last unknown payload).length ≤ PACKET_SIZE) :
    decodeFrag (Spec.dataPacket id last unknown payload) = .ok ⟨id, last, payload⟩ := by
  unfold decodeFrag
  rw [List.take_of_length_le hlen]
  unfold Spec.dataPacket
  have := run_readHeader 0 (by omega) (Spec.cstr (asciiBytes "splitnum") ++
    [UInt8.ofNat (id + (if last then 0x80 else 0))] ++ [UInt8.ofNat unknown] ++ payload)
  simp only [List.append_assoc] at this ⊢
  rw [show ([0] : Bytes) = [UInt8.ofNat 0] from rfl, this]
  simp only [Res.bind_ok]
  have h2 := run_readFrag id hid last (UInt8.ofNat unknown) payload
  simpa [List.append_assoc] using h2

/-! ### the challenge -/

theorem intDec_length (c : Int) (hlo : -(2 ^ 31 : Int) ≤ c) (hhi : c < 2 ^ 31) : (intDec c).length ≤ 11 := by
  cases c with
  | ofNat n =>
    rw [show Int.ofNat n = (n : Int) from rfl, intDec_ofNat]
    have : n < 10 ^ 10 := by
      have : (n : Int) < 2 ^ 31 := hhi
      omega
    have := natDec_length n 10 (by omega) this
    omega
  | negSucc m =>
    rw [intDec_negSucc]
    have : m + 1 < 10 ^ 10 := by
      have : -(2 ^ 31 : Int) ≤ Int.negSucc m := hlo
      omega
    have := natDec_length (m + 1) 10 (by omega) this
    simp only [List.length_cons]
    omega

/-- a string read: terminated, or running to the end of the packet -/
theorem readCStr_text (t : Bytes) (h0 : (0 : UInt8) ∉ t) (hv : validUtf8 t = true) (z : Bytes) (hz : z = [] ∨ z = [0]) :
    ∃ b', readCStr (Buf.new (t ++ z)) = .ok (t, b') := by
  rcases hz with rfl | rfl
  · refine ⟨(Buf.new (t ++ [])).advance (min (t.length + 1) t.length), ?_⟩
    unfold readCStr readStringWith utf8Dec
    simp only [Buf.rest_new, List.append_nil, findByte_none 0 t h0, List.take_length, hv]
    rfl
  · obtain ⟨b', h, _, _⟩ := decodes_readCStr t h0 hv (Buf.new (t ++ [0])) [] (by simp)
    exact ⟨b', h⟩

theorem parseChallenge_text (c : Int) (hlo : -(2 ^ 31 : Int) ≤ c) (hhi : c < 2 ^ 31) (z : Bytes) (hz : z = [] ∨ z = [0]) :
    parseChallenge.run (intDec c ++ z) = .ok (if c = 0 then none else some c) := by
  obtain ⟨h0, hv, _⟩ := intDec_text c
  obtain ⟨b', hb'⟩ := readCStr_text (intDec c) h0 hv z hz
  unfold Par.run parseChallenge
  rw [Par.bind_ok hb']
  have hp : parseSigned 32 (intDec c) = some c := parseSigned_intDec 32 c (by simpa using hlo) (by simpa using hhi)
  simp only [hp, okOr, Par.lift]
  by_cases hc : c = 0
  · subst hc; rfl
  · simp [hc, Par.bind_apply, Par.lift]

/-- The handshake reply for the challenge `c` (any i32), as received in the 16-byte buffer, is
decoded to `c`; the text `0` to "no challenge". -/
theorem handshake_decoded (c : Int) (hlo : -(2 ^ 31 : Int) ≤ c) (hhi : c < 2 ^ 31) :
    ((readHeader 9).run ((Spec.handshakeReply c).take 16) >>= fun d => parseChallenge.run d)
      = .ok (if c = 0 then none else some c) := by
  have hl := intDec_length c hlo hhi
  have hne := (intDec_text c).2.2
  -- what the 16-byte buffer holds: the whole reply, or the reply without its final NUL
  have htake : ∃ z, (z = [] ∨ z = [0]) ∧ (Spec.handshakeReply c).take 16 = [UInt8.ofNat 9] ++ Spec.sessionId ++ (intDec c ++ z) := by
    unfold Spec.handshakeReply Spec.cstr Spec.sessionId
    by_cases h11 : (intDec c).length = 11
    · refine ⟨[], Or.inl rfl, ?_⟩
      have : ([9] ++ [0, 0, 0, 1] ++ (intDec c ++ [0]) : Bytes) = ([9, 0, 0, 0, 1] ++ intDec c) ++ [0] := by simp
      rw [this, List.take_append_of_le_length (by simp; omega), List.take_of_length_le (by simp; omega)]
      simp
    · refine ⟨[0], Or.inr rfl, ?_⟩
      rw [List.take_of_length_le (by simp; omega)]
      rfl
  obtain ⟨z, hz, ht⟩ := htake
  rw [ht, run_readHeader 9 (by omega)]
  exact parseChallenge_text c hlo hhi z hz

/-! ### transport steps on a scripted socket -/

theorem recv_data (s : Sock) (hudp : s.tcp = false) (size : Nat) (w : Net) (d : Bytes) (rest : List Delivery)
    (hq : w.conns.getD s.id [] = .data d :: rest) :
    recv s (some size) w = (.ok (d.take size),
      { w with conns := setAt w.conns s.id rest, log := w.log ++ [.recv s.id (some size) (some (d.take size).length)] }) := by
  unfold recv
  rw [hq]
  simp [hudp]

theorem open_of_queue (s : Sock) (w : Net) (x : Delivery) (rest : List Delivery)
    (hq : w.conns.getD s.id [] = x :: rest) : s.id < w.conns.length := by
  apply Classical.byContradiction
  intro h
  rw [List.getD_eq_getElem?_getD, List.getElem?_eq_none (by omega)] at hq
  cases hq

theorem queue_after (s : Sock) (w : Net) (x : Delivery) (rest : List Delivery)
    (hq : w.conns.getD s.id [] = x :: rest) : (setAt w.conns s.id rest).getD s.id [] = rest := by
  rw [getD_setAt]
  simp [open_of_queue s w x rest hq]

/-- `GameSpy3::receive` when a datagram is queued -/
theorem receive_data (s : Sock) (hudp : s.tcp = false) (size : Option Nat) (kind : Nat) (w : Net) (d : Bytes)
    (rest : List Delivery) (hq : w.conns.getD s.id [] = .data d :: rest) :
    ∃ w', receive s size kind w = ((readHeader kind).run (d.take (size.getD PACKET_SIZE)), w')
      ∧ w'.conns.getD s.id [] = rest ∧ w'.faults = w.faults
      ∧ w'.log = w.log ++ [.recv s.id (some (size.getD PACKET_SIZE)) (some (d.take (size.getD PACKET_SIZE)).length)] := by
  refine ⟨{ w with conns := setAt w.conns s.id rest, log := w.log ++ [.recv s.id (some (size.getD PACKET_SIZE))
    (some (d.take (size.getD PACKET_SIZE)).length)] }, ?_, queue_after s w _ rest hq, rfl, rfl⟩
  unfold receive
  rw [Q.bind_apply, recv_data s hudp _ w d rest hq]
  rfl

/-- the receive loop on a socket whose queue holds exactly the datagrams `ds`: its result is `feed`
on them -/
theorem recvPackets_result (s : Sock) (hudp : s.tcp = false) :
    ∀ (ds : List Bytes) (fuel : Nat) (a : Acc) (w : Net), w.conns.getD s.id [] = ds.map .data → ds.length < fuel →
      (recvPackets s fuel a w).1 = feed a (ds.map decodeFrag) := by
  intro ds
  induction ds with
  | nil =>
    intro fuel a w hq hf
    cases fuel with
    | zero => omega
    | succ fuel =>
      unfold recvPackets
      simp only [List.map_nil, feed]
      split
      · have : receive s none 0 w = (.err .packetReceive, { w with log := w.log ++ [.recv s.id (some PACKET_SIZE) none] }) := by
          unfold receive
          rw [Q.bind_apply]
          unfold recv
          simp only [List.map_nil] at hq
          rw [hq]
          simp [hudp]
        rw [Q.bind_apply, this]
      · rfl
  | cons d ds ih =>
    intro fuel a w hq hf
    cases fuel with
    | zero => omega
    | succ fuel =>
      unfold recvPackets
      simp only [List.map_cons, feed]
      split
      · obtain ⟨w1, hrecv, hq1, _, _⟩ := receive_data s hudp none 0 w d (ds.map .data) (by simpa using hq)
        rw [Q.bind_apply, hrecv]
        simp only [Option.getD_none]
        unfold decodeFrag
        cases hh : (readHeader 0).run (d.take PACKET_SIZE) with
        | err k => rfl
        | crash => rfl
        | ok p =>
          simp only [Res.bind_ok, parse, Q.lift, Q.bind_apply]
          cases hf' : readFrag.run p with
          | err k => rfl
          | crash => rfl
          | ok f =>
            simp only [Res.bind_ok]
            cases hacc : accept a f with
            | err k => rfl
            | crash => rfl
            | ok a' =>
              simp only
              exact ih fuel a' w1 hq1 (by simp at hf; omega)
      · rfl

/-! ### what has been sent -/

/-- the datagrams sent, in order -/
def sentOf (log : List Ev) : List Bytes :=
  log.filterMap fun e => match e with
    | .send _ _ d _ => some d
    | _ => none

theorem sentOf_append (l1 l2 : List Ev) : sentOf (l1 ++ l2) = sentOf l1 ++ sentOf l2 := by
  simp [sentOf, List.filterMap_append]

/-- a computation that sends nothing -/
def Silent (q : Q α) : Prop := ∀ w, sentOf (q w).2.log = sentOf w.log

theorem Silent.bind {q : Q α} {f : α → Q β} (hq : Silent q) (hf : ∀ a, Silent (f a)) : Silent (q >>= f) := by
  intro w
  rw [Q.bind_apply]
  have h1 := hq w
  cases hqw : q w with
  | mk res w1 =>
    rw [hqw] at h1
    cases res with
    | ok a => simp only; rw [hf a w1, h1]
    | err k => exact h1
    | crash => exact h1

theorem Silent.lift (r : Res α) : Silent (Q.lift r) := fun _ => rfl
theorem Silent.pure (a : α) : Silent (pure a : Q α) := fun _ => rfl

theorem silent_recv (s : Sock) (size : Option Nat) : Silent (recv s size) := by
  intro w
  unfold recv
  split
  · simp [sentOf]
  · simp [sentOf]
  · split <;> simp [sentOf]

theorem silent_receive (s : Sock) (size : Option Nat) (kind : Nat) : Silent (receive s size kind) := by
  unfold receive
  exact Silent.bind (silent_recv _ _) fun _ => Silent.lift _

theorem silent_recvPackets (s : Sock) : ∀ (fuel : Nat) (a : Acc), Silent (recvPackets s fuel a) := by
  intro fuel
  induction fuel with
  | zero => intro a w; rfl
  | succ fuel ih =>
    intro a
    unfold recvPackets
    split
    · exact Silent.bind (silent_receive _ _ _) fun _ => Silent.bind (Silent.lift _) fun _ =>
        Silent.bind (Silent.lift _) fun a' => ih a'
    · exact Silent.lift _

end Gd.Gs3

/-! ### one attempt against a server that answers the handshake -/

namespace Gd.Gs3
open Gd

theorem Q.bind_ok {q : Q α} {f : α → Q β} {w w' : Net} {a : α} (h : q w = (.ok a, w')) : (q >>= f) w = f a w' := by
  rw [Q.bind_apply, h]

theorem send_clean (s : Sock) (data : Bytes) (w : Net) (hf : w.faults = []) :
    send s data w = (.ok (), { w with log := w.log ++ [.send s.id s.port data false] }) := by
  unfold Gd.send
  rw [hf]

/-- One attempt (`get_server_packets_impl`) when the server answers the handshake with the decimal
text of `c` (any i32) and no send fails: whatever arrives afterwards (`ds`: any datagrams, then
silence), the client has sent exactly the handshake and then the data request carrying `c` — or no
challenge bytes for `0` — and the result is the receive loop's (`feed`) on `ds`. -/
theorem impl_after_handshake (s : Sock) (hudp : s.tcp = false) (payload : Bytes) (w : Net) (c : Int)
    (hlo : -(2 ^ 31 : Int) ≤ c) (hhi : c < 2 ^ 31) (ds : List Bytes)
    (hq : w.conns.getD s.id [] = .data (Spec.handshakeReply c) :: ds.map .data) (hf : w.faults = []) :
    (getServerPacketsImpl s payload false w).1 = feed Acc.init (ds.map decodeFrag)
    ∧ sentOf (getServerPacketsImpl s payload false w).2.log
        = sentOf w.log ++ [requestBytes 9 none none, requestBytes 0 (if c = 0 then none else some c) (some payload)] := by
  unfold getServerPacketsImpl makeInitialHandshake sendDataRequest
  simp only [Bool.false_eq_true, ↓reduceIte]
  -- the handshake goes out
  rw [Q.bind_apply, Q.bind_apply, send_clean s _ w hf]
  simp only
  -- its reply comes in
  obtain ⟨w2, hrecv, hq2, hf2, hlog2⟩ := receive_data s hudp (some 16) 9
    { w with log := w.log ++ [.send s.id s.port (requestBytes 9 none none) false] } (Spec.handshakeReply c) (ds.map .data) hq
  rw [Q.bind_apply, hrecv]
  simp only [Option.getD_some]
  have hdec := handshake_decoded c hlo hhi
  cases hh : (readHeader 9).run ((Spec.handshakeReply c).take 16) with
  | err k => rw [hh] at hdec; cases hdec
  | crash => rw [hh] at hdec; cases hdec
  | ok d =>
    rw [hh] at hdec
    simp only [Res.bind_ok] at hdec
    simp only [parse, Q.lift, hdec]
    -- the data request goes out, then the receive loop runs
    rw [Q.bind_ok (send_clean s _ w2 (by rw [hf2]; exact hf))]
    unfold recvAll
    constructor
    · apply recvPackets_result s hudp ds
      · exact hq2
      · have : (w2.conns.getD s.id []).length = ds.length := by rw [hq2]; simp
        simp only [queued, Sock.id] at this ⊢
        omega
    · rw [silent_recvPackets s _ _]
      simp only [hlog2, sentOf_append]
      simp [sentOf]

end Gd.Gs3
