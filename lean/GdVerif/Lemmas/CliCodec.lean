import GdVerif.Proto.CliCodec
/-
  Lemmas for the hex / base64 mirrors of the command-line tool's model: decoders invert encoders, alphabets, padding.
-/
namespace Gd.Cli

theorem u8_ofNat_toNat (b : UInt8) : UInt8.ofNat b.toNat = b := by
  cases b; simp

theorem u8_lt (b : UInt8) : b.toNat < 256 := b.toNat_lt

/-! ### hex -/

theorem hexDigitVal_lower : ∀ n, n < 16 → hexDigitVal (hexLowerDigit n) = some n := by decide

theorem isLowerHexDigit_lower : ∀ n, n < 16 → isLowerHexDigit (hexLowerDigit n) = true := by decide

theorem hexEncode_cons (b : UInt8) (r : Bytes) :
    hexEncode (b :: r) = hexLowerDigit (b.toNat / 16) :: hexLowerDigit (b.toNat % 16) :: hexEncode r := by
  simp [hexEncode]

theorem hexDecode_encode (bs : Bytes) : hexDecode (hexEncode bs) = some bs := by
  induction bs with
  | nil => rfl
  | cons b r ih =>
    have hb := u8_lt b
    rw [hexEncode_cons]
    unfold hexDecode
    rw [hexDigitVal_lower _ (by omega), hexDigitVal_lower _ (by omega), ih]
    have : b.toNat / 16 * 16 + b.toNat % 16 = b.toNat := by omega
    simp only [this, u8_ofNat_toNat]

theorem hexEncode_alphabet (bs : Bytes) : ∀ c ∈ hexEncode bs, isLowerHexDigit c = true := by
  induction bs with
  | nil => intro c hc; cases hc
  | cons b r ih =>
    have hb := u8_lt b
    intro c hc
    rw [hexEncode_cons] at hc
    simp only [List.mem_cons] at hc
    rcases hc with rfl | rfl | hc
    · exact isLowerHexDigit_lower _ (by omega)
    · exact isLowerHexDigit_lower _ (by omega)
    · exact ih c hc

theorem hexEncode_length (bs : Bytes) : (hexEncode bs).length = 2 * bs.length := by
  induction bs with
  | nil => rfl
  | cons b r ih => rw [hexEncode_cons]; simp only [List.length_cons, ih]; omega

/-! ### base64 -/

theorem b64Val_char : ∀ n, n < 64 → b64Val (b64Char n) = some n := by decide

theorem b64Char_ne_pad : ∀ n, n < 64 → b64Char n ≠ b64Pad := by decide

theorem isB64Char_char (n : Nat) (h : n < 64) : isB64Char (b64Char n) = true := by
  simp [isB64Char, b64Val_char n h]

theorem b64Pad_not_char : isB64Char b64Pad = false := by decide

/-- the four 6-bit values of a full group are below 64 -/
theorem sextets_lt (a b c : UInt8) :
    a.toNat / 4 < 64 ∧ a.toNat % 4 * 16 + b.toNat / 16 < 64 ∧ b.toNat % 16 * 4 + c.toNat / 64 < 64 ∧ c.toNat % 64 < 64 := by
  have := u8_lt a; have := u8_lt b; have := u8_lt c
  omega

theorem b64Encode_group (a b c : UInt8) (r : Bytes) :
    b64Encode (a :: b :: c :: r) =
      b64Char (a.toNat / 4) :: b64Char (a.toNat % 4 * 16 + b.toNat / 16) :: b64Char (b.toNat % 16 * 4 + c.toNat / 64)
        :: b64Char (c.toNat % 64) :: b64Encode r := by
  simp [b64Encode]

/-- decoding a full group followed by an already decodable text -/
theorem b64Decode_group (a b c : UInt8) (t : Bytes) (bs : Bytes) (ht : b64Decode t = some bs) :
    b64Decode (b64Char (a.toNat / 4) :: b64Char (a.toNat % 4 * 16 + b.toNat / 16)
      :: b64Char (b.toNat % 16 * 4 + c.toNat / 64) :: b64Char (c.toNat % 64) :: t) = some (a :: b :: c :: bs) := by
  have ha := u8_lt a; have hb := u8_lt b; have hc := u8_lt c
  obtain ⟨h1, h2, h3, h4⟩ := sextets_lt a b c
  have e1 : a.toNat / 4 * 4 + (a.toNat % 4 * 16 + b.toNat / 16) / 16 = a.toNat := by omega
  have e2 : (a.toNat % 4 * 16 + b.toNat / 16) % 16 * 16 + (b.toNat % 16 * 4 + c.toNat / 64) / 4 = b.toNat := by omega
  have e3 : (b.toNat % 16 * 4 + c.toNat / 64) % 4 * 64 + c.toNat % 64 = c.toNat := by omega
  cases t with
  | nil =>
    have hbs : bs = [] := by
      simp [b64Decode] at ht; exact ht
    subst hbs
    unfold b64Decode
    have n3 := b64Char_ne_pad _ h3
    have n4 := b64Char_ne_pad _ h4
    simp only [n3, n4, false_and, ↓reduceIte, b64Val_char _ h1, b64Val_char _ h2, b64Val_char _ h3, b64Val_char _ h4,
      e1, e2, e3, u8_ofNat_toNat]
  | cons x xs =>
    unfold b64Decode
    simp only [b64Val_char _ h1, b64Val_char _ h2, b64Val_char _ h3, b64Val_char _ h4, ht, e1, e2, e3, u8_ofNat_toNat]

theorem b64Decode_encode (bs : Bytes) : b64Decode (b64Encode bs) = some bs := by
  fun_induction b64Encode bs with
  | case1 => rfl
  | case2 a =>
    have ha := u8_lt a
    have h1 : a.toNat / 4 < 64 := by omega
    have h2 : a.toNat % 4 * 16 < 64 := by omega
    have e1 : a.toNat / 4 * 4 + a.toNat % 4 * 16 / 16 = a.toNat := by omega
    have e0 : a.toNat % 4 * 16 % 16 = 0 := by omega
    unfold b64Decode
    simp only [and_self, ↓reduceIte, b64Val_char _ h1, b64Val_char _ h2, e0, e1, u8_ofNat_toNat]
  | case3 a b =>
    have ha := u8_lt a; have hb := u8_lt b
    have h1 : a.toNat / 4 < 64 := by omega
    have h2 : a.toNat % 4 * 16 + b.toNat / 16 < 64 := by omega
    have h3 : b.toNat % 16 * 4 < 64 := by omega
    have e1 : a.toNat / 4 * 4 + (a.toNat % 4 * 16 + b.toNat / 16) / 16 = a.toNat := by omega
    have e2 : (a.toNat % 4 * 16 + b.toNat / 16) % 16 * 16 + b.toNat % 16 * 4 / 4 = b.toNat := by omega
    have e0 : b.toNat % 16 * 4 % 4 = 0 := by omega
    have n3 := b64Char_ne_pad _ h3
    unfold b64Decode
    simp only [n3, false_and, ↓reduceIte, b64Val_char _ h1, b64Val_char _ h2, b64Val_char _ h3, e0, e1, e2, u8_ofNat_toNat]
  | case4 a b c r ih => exact b64Decode_group a b c _ r ih

theorem b64Encode_length (bs : Bytes) : (b64Encode bs).length = 4 * ((bs.length + 2) / 3) := by
  fun_induction b64Encode bs with
  | case1 => rfl
  | case2 a => simp
  | case3 a b => simp
  | case4 a b c r ih =>
    simp only [List.length_append, List.length_cons, List.length_nil, ih]
    omega

/-- the text is characters of the alphabet followed by exactly as much padding as the last group lacks bytes -/
theorem b64Encode_shape (bs : Bytes) :
    ∃ body, b64Encode bs = body ++ List.replicate ((3 - bs.length % 3) % 3) b64Pad ∧ ∀ c ∈ body, isB64Char c = true := by
  fun_induction b64Encode bs with
  | case1 => exact ⟨[], rfl, fun c hc => by cases hc⟩
  | case2 a =>
    have ha := u8_lt a
    refine ⟨[b64Char (a.toNat / 4), b64Char (a.toNat % 4 * 16)], rfl, fun c hc => ?_⟩
    simp only [List.mem_cons, List.not_mem_nil, or_false] at hc
    rcases hc with rfl | rfl <;> exact isB64Char_char _ (by omega)
  | case3 a b =>
    have ha := u8_lt a; have hb := u8_lt b
    refine ⟨[b64Char (a.toNat / 4), b64Char (a.toNat % 4 * 16 + b.toNat / 16), b64Char (b.toNat % 16 * 4)], rfl, fun c hc => ?_⟩
    simp only [List.mem_cons, List.not_mem_nil, or_false] at hc
    rcases hc with rfl | rfl | rfl <;> exact isB64Char_char _ (by omega)
  | case4 a b c r ih =>
    obtain ⟨body, hbody, hall⟩ := ih
    obtain ⟨h1, h2, h3, h4⟩ := sextets_lt a b c
    refine ⟨[b64Char (a.toNat / 4), b64Char (a.toNat % 4 * 16 + b.toNat / 16), b64Char (b.toNat % 16 * 4 + c.toNat / 64),
      b64Char (c.toNat % 64)] ++ body, ?_, fun x hx => ?_⟩
    · have hl : (a :: b :: c :: r).length % 3 = r.length % 3 := by simp only [List.length_cons]; omega
      rw [hl, hbody, List.append_assoc]
    · simp only [List.mem_append, List.mem_cons, List.not_mem_nil, or_false] at hx
      rcases hx with (rfl | rfl | rfl | rfl) | hx
      · exact isB64Char_char _ h1
      · exact isB64Char_char _ h2
      · exact isB64Char_char _ h3
      · exact isB64Char_char _ h4
      · exact hall x hx

end Gd.Cli
