import GdVerif.Base
/-
  Text lemmas: decimal rendering and parsing are inverse; splitting on a delimiter.
-/
namespace Gd

theorem digitsVal_append_singleton (xs : Bytes) (d : UInt8) :
    digitsVal (xs ++ [d]) = digitsVal xs * 10 + (d.toNat - 48) := by
  simp [digitsVal, List.foldl_append]

theorem ofNat_digit_toNat (d : Nat) (h : d < 10) : (UInt8.ofNat (48 + d)).toNat = 48 + d := by
  simp [UInt8.toNat_ofNat']; omega

theorem natDecAux_spec (f : Nat) : ∀ n, n < f →
    (natDecAux f n).all isDigit = true ∧ natDecAux f n ≠ [] ∧ digitsVal (natDecAux f n) = n := by
  induction f with
  | zero => intro n h; omega
  | succ f ih =>
    intro n h
    unfold natDecAux
    split
    · rename_i hlt
      have := ofNat_digit_toNat n hlt
      refine ⟨?_, by simp, ?_⟩
      · simp [isDigit, inRange, this]; omega
      · simp [digitsVal]; omega
    · rename_i hge
      have hd : n % 10 < 10 := Nat.mod_lt _ (by omega)
      obtain ⟨h1, h2, h3⟩ := ih (n / 10) (by omega)
      have := ofNat_digit_toNat (n % 10) hd
      refine ⟨?_, by simp, ?_⟩
      · simp [List.all_append, h1, isDigit, inRange, this]; omega
      · rw [digitsVal_append_singleton, h3, this]; omega

theorem natDec_spec (n : Nat) : (natDec n).all isDigit = true ∧ natDec n ≠ [] ∧ digitsVal (natDec n) = n :=
  natDecAux_spec (n + 1) n (by omega)

theorem natDec_head_ne_plus (n : Nat) : ∀ r, natDec n ≠ 43 :: r := by
  intro r h
  have := (natDec_spec n).1
  rw [h] at this
  simp [isDigit, inRange] at this

/-- Rust's `parse::<uN>()` inverts `to_string()` -/
theorem parseUnsigned_natDec (bits n : Nat) (h : n < 2 ^ bits) : parseUnsigned bits (natDec n) = some n := by
  obtain ⟨h1, h2, h3⟩ := natDec_spec n
  unfold parseUnsigned
  have hds : stripPlus (natDec n) = natDec n := by
    unfold stripPlus
    split
    · rename_i r heq; exact absurd heq (natDec_head_ne_plus n r)
    · rfl
  simp only [hds]
  have he : (natDec n).isEmpty = false := by
    cases hn : natDec n with
    | nil => exact absurd hn h2
    | cons a r => rfl
  simp [he, h1, h3, h]

/-! ### splitting on a delimiter -/

theorem splitOn_not_mem (d : UInt8) (s : Bytes) (h : d ∉ s) : splitOn d s = [s] := by
  induction s with
  | nil => rfl
  | cons b r ih =>
    simp only [List.mem_cons, not_or] at h
    have hb : (b == d) = false := by
      rw [beq_eq_false_iff_ne]; exact fun e => h.1 e.symm
    simp [splitOn, hb, ih h.2]

theorem splitOn_append_delim (d : UInt8) (s rest : Bytes) (h : d ∉ s) :
    splitOn d (s ++ d :: rest) = s :: splitOn d rest := by
  induction s with
  | nil => simp [splitOn]
  | cons b r ih =>
    simp only [List.mem_cons, not_or] at h
    have hb : (b == d) = false := by
      rw [beq_eq_false_iff_ne]; exact fun e => h.1 e.symm
    simp [splitOn, hb, ih h.2]

/-- tokens free of the delimiter, each preceded by it, split back into exactly those tokens -/
theorem splitOn_tokens (d : UInt8) (first : Bytes) (toks : List Bytes) (hf : d ∉ first)
    (ht : ∀ t ∈ toks, d ∉ t) : splitOn d (first ++ (toks.map (d :: ·)).flatten) = first :: toks := by
  induction toks generalizing first with
  | nil => simpa using splitOn_not_mem d first hf
  | cons t r ih =>
    simp only [List.map_cons, List.flatten_cons, List.cons_append]
    rw [splitOn_append_delim d first _ hf, ih t (ht t (by simp)) (fun x hx => ht x (by simp [hx]))]

end Gd
