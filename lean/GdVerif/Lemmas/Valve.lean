import GdVerif.Lemmas.Decodes
import GdVerif.Spec.Valve
/-
  Field-by-field decoding lemmas for the Valve section parsers against the SPEC encoders.
-/
namespace Gd.Valve
open Gd Gd.Valve.Spec

theorem okStr_iff (s : Bytes) : okStr s = true ↔ (0 : UInt8) ∉ s ∧ validUtf8 s = true := by
  simp [okStr, List.contains_iff_mem]

theorem decodes_cstr (s : Bytes) (h : okStr s = true) : Decodes readCStr (cstr s) s := by
  obtain ⟨h0, hv⟩ := (okStr_iff s).mp h
  exact decodes_readCStr s h0 hv

theorem decodes_boolByte (v : Bool) : Decodes readBoolByte (boolByte v) v := by
  cases v
  · exact Decodes.bind' (e1 := [0]) (e2 := []) (decodes_u8 0 (by omega)) (Decodes.pure _) rfl
  · exact Decodes.bind' (e1 := [1]) (e2 := []) (decodes_u8 1 (by omega)) (Decodes.pure _) rfl

theorem decodes_readIf_some {p : Par α} {e : Bytes} {x : α} (h : Decodes p e x) :
    Decodes (readIf true p) e (some x) := by
  simp only [readIf, ↓reduceIte]
  exact Decodes.bind' (e1 := e) (e2 := []) h (Decodes.pure _) (by simp)

theorem decodes_readIf_none (p : Par α) : Decodes (readIf false p) [] none := by
  simp only [readIf, Bool.false_eq_true, ↓reduceIte]
  exact Decodes.pure _

/-- an optional field whose presence is governed by a condition that matches the value -/
theorem decodes_readIf {p : Par α} (c : Bool) (o : Option α) (enc : α → Bytes)
    (hc : o.isSome = c) (h : ∀ x, o = some x → Decodes p (enc x) x) :
    Decodes (readIf c p) (optEnc enc o) o := by
  cases o with
  | none => simp only [Option.isSome_none] at hc; subst hc; exact decodes_readIf_none p
  | some x => simp only [Option.isSome_some] at hc; subst hc; exact decodes_readIf_some (h x rfl)

/-! ### players -/

theorem decodes_player (engine : Engine) (idx : Nat) (p : ServerPlayer)
    (h : wfPlayer (engine == Engine.new 2400) p = true) : Decodes (parsePlayer engine) (encPlayer idx p) p := by
  simp only [wfPlayer, Bool.and_eq_true, decide_eq_true_eq, beq_iff_eq] at h
  obtain ⟨⟨⟨⟨⟨⟨⟨hn, hlo⟩, hhi⟩, hd⟩, hds⟩, hms⟩, hdv⟩, hmv⟩ := h
  unfold parsePlayer encPlayer
  simp only [List.append_assoc]
  have hskip : Decodes (moveCursor 1) (u8 idx) () := decodes_skip (u8 idx)
  refine Decodes.bind hskip ?_
  refine Decodes.bind (decodes_cstr p.name hn) ?_
  refine Decodes.bind (decodes_signed .little 4 (by omega) p.score (by simpa using hlo) (by simpa using hhi)) ?_
  refine Decodes.bind (decodes_le 4 p.duration (by simpa using hd)) ?_
  refine Decodes.bind (decodes_readIf _ p.deaths (le 4) hds (fun x hx => decodes_le 4 x (by
    have := hdv; simp [hx] at this; omega))) ?_
  refine Decodes.bind' (e2 := []) (decodes_readIf _ p.money (le 4) hms (fun x hx => decodes_le 4 x (by
    have := hmv; simp [hx] at this; omega))) ?_ (by simp)
  cases p
  exact Decodes.pure _

theorem decodes_playersFrom (engine : Engine) (ps : List ServerPlayer) (i : Nat)
    (h : ∀ p ∈ ps, wfPlayer (engine == Engine.new 2400) p = true) :
    Decodes (repeatN (parsePlayer engine) ps.length) (encPlayersFrom i ps) ps := by
  induction ps generalizing i with
  | nil => exact Decodes.pure _
  | cons p r ih =>
    simp only [List.length_cons, repeatN, encPlayersFrom]
    refine Decodes.bind (decodes_player engine i p (h p (by simp))) ?_
    exact Decodes.bind' (e2 := []) (ih (i + 1) fun q hq => h q (by simp [hq])) (Decodes.pure _) (by simp)

theorem decodes_players (engine : Engine) (ps : List ServerPlayer) (hl : ps.length < 256)
    (h : ∀ p ∈ ps, wfPlayer (engine == Engine.new 2400) p = true) :
    Decodes (parsePlayers engine) (encPlayers ps) ps := by
  unfold parsePlayers encPlayers
  exact Decodes.bind (decodes_u8 ps.length hl) (decodes_playersFrom engine ps 0 h)

/-! ### rules -/

theorem decodes_rule (r : Bytes × Bytes) (h1 : okStr r.1 = true) (h2 : okStr r.2 = true) :
    Decodes parseRule (encRule r) r := by
  unfold parseRule encRule
  refine Decodes.bind (decodes_cstr r.1 h1) ?_
  exact Decodes.bind' (e2 := []) (decodes_cstr r.2 h2) (Decodes.pure _) (by simp)

/-- inserting pairs with distinct keys into a map keeps them all, in order -/
theorem foldl_mapInsert_distinct (rs acc : Rules) (hd : distinctKeys (acc ++ rs) = true) :
    rs.foldl (fun m p => mapInsert m p.1 p.2) acc = acc ++ rs := by
  induction rs generalizing acc with
  | nil => simp
  | cons r rest ih =>
    simp only [List.foldl_cons]
    have hins : mapInsert acc r.1 r.2 = acc ++ [r] := by
      clear ih
      induction acc with
      | nil => simp [mapInsert]
      | cons a as iha =>
        have hne : (a.1 == r.1) = false := by
          simp only [List.cons_append, distinctKeys, Bool.and_eq_true, Bool.not_eq_true',
            List.any_eq_false] at hd
          have := hd.1 r (by simp)
          rw [beq_eq_false_iff_ne]
          intro h
          apply this
          rw [h]
          exact beq_self_eq_true _
        have hd' : distinctKeys (as ++ r :: rest) = true := by
          simp only [List.cons_append, distinctKeys, Bool.and_eq_true] at hd
          exact hd.2
        obtain ⟨a1, a2⟩ := a
        simp only at hne
        simp [mapInsert, hne, iha hd']
    rw [hins, ih (acc ++ [r]) (by simpa [List.append_assoc] using hd)]
    simp [List.append_assoc]

theorem decodes_rules (engine : Engine) (rs : Rules) (hl : rs.length < 65536)
    (h : ∀ r ∈ rs, okStr r.1 = true ∧ okStr r.2 = true) (hd : distinctKeys rs = true) :
    Decodes (parseRules engine) (encRules rs) (expectedRules engine rs) := by
  unfold parseRules encRules
  refine Decodes.bind (decodes_le 2 rs.length (by simpa using hl)) ?_
  refine Decodes.bind' (e2 := []) (decodes_repeatN encRule rs fun r hr => decodes_rule r (h r hr).1 (h r hr).2) ?_ (by simp)
  rw [foldl_mapInsert_distinct rs [] (by simpa using hd)]
  simp only [List.nil_append, expectedRules, mapRemove]
  exact Decodes.pure _

end Gd.Valve

namespace Gd.Valve
open Gd Gd.Valve.Spec

/-! ### info -/

theorem serverFromGldsrc_byte (upper : Bool) (t : ServerType) :
    serverFromGldsrc (serverTypeByte upper t) = .ok t := by
  cases upper <;> cases t <;> rfl

theorem environmentFromGldsrc_byte (upper : Bool) (t : Environment) :
    environmentFromGldsrc (environmentByte upper t) = .ok t := by
  cases upper <;> cases t <;> rfl

theorem serverTypeByte_lt (upper : Bool) (t : ServerType) : serverTypeByte upper t < 256 := by
  cases upper <;> cases t <;> decide

theorem environmentByte_lt (upper : Bool) (t : Environment) : environmentByte upper t < 256 := by
  cases upper <;> cases t <;> decide

theorem edf_flags (e : ExtraData) :
    edf e < 256 ∧
    decide (edf e &&& 0x80 > 0) = e.port.isSome ∧ decide (edf e &&& 0x10 > 0) = e.steamId.isSome ∧
    decide (edf e &&& 0x40 > 0) = e.tvPort.isSome ∧ decide (edf e &&& 0x20 > 0) = e.keywords.isSome ∧
    decide (edf e &&& 0x01 > 0) = e.gameId.isSome := by
  obtain ⟨p, s, t, n, k, g⟩ := e
  cases p <;> cases s <;> cases t <;> cases k <;> cases g <;> simp [edf] <;> decide

theorem decodesEnd_extra (a16 : Nat) (o : Option ExtraData) (appid : Nat)
    (hw : o.all wfExtra = true)
    (happ : match o.bind (·.gameId) with
      | some gid => appid = gid % 2 ^ 24
      | none => appid = a16) :
    DecodesEnd (parseExtra a16) (optEnc encExtra o) (o, appid) := by
  cases o with
  | none =>
    intro b hr
    simp only [optEnc] at hr
    simp only [Option.bind_none] at happ
    subst happ
    refine ⟨b, ?_, rfl⟩
    unfold parseExtra
    have : readU8 b = .err .packetUnderflow := readUnsigned_err (by simp [Buf.remaining, hr])
    simp [this]
  | some e =>
    simp only [Option.all_some, wfExtra, Bool.and_eq_true, decide_eq_true_eq, beq_iff_eq] at hw
    obtain ⟨⟨⟨⟨⟨⟨hp, hs⟩, ht⟩, htn⟩, hnm⟩, hk⟩, hg⟩ := hw
    obtain ⟨hlt, f80, f10, f40, f20, f01⟩ := edf_flags e
    intro b hr
    have hr' : b.rest = encExtra e := hr
    simp only [encExtra, List.append_assoc] at hr'
    obtain ⟨b1, h1, hr1, hd1⟩ := decodes_u8 (edf e) hlt b _ hr'
    unfold parseExtra
    rw [h1]
    simp only
    have hchain : Decodes (do
        let port ← readIf (decide (edf e &&& 0x80 > 0)) (readUnsigned .little 2)
        let steamId ← readIf (decide (edf e &&& 0x10 > 0)) (readUnsigned .little 8)
        let tvPort ← readIf (decide (edf e &&& 0x40 > 0)) (readUnsigned .little 2)
        let tvName ← readIf (decide (edf e &&& 0x40 > 0)) readCStr
        let keywords ← readIf (decide (edf e &&& 0x20 > 0)) readCStr
        let gameId ← readIf (decide (edf e &&& 0x01 > 0)) (readUnsigned .little 8)
        let appid' := match gameId with
          | some gid => gid &&& (2 ^ 24 - 1)
          | none => a16
        pure (some (ExtraData.mk port steamId tvPort tvName keywords gameId), appid'))
        (optEnc (le 2) e.port ++ (optEnc (le 8) e.steamId ++ (optEnc (le 2) e.tvPort ++
          (optEnc cstr e.tvName ++ (optEnc cstr e.keywords ++ optEnc (le 8) e.gameId)))))
        (some e, appid) := by
      refine Decodes.bind (decodes_readIf _ e.port (le 2) f80.symm fun x hx => decodes_le 2 x (by
        have := hp; simp [hx] at this; omega)) ?_
      refine Decodes.bind (decodes_readIf _ e.steamId (le 8) f10.symm fun x hx => decodes_le 8 x (by
        have := hs; simp [hx] at this; omega)) ?_
      refine Decodes.bind (decodes_readIf _ e.tvPort (le 2) f40.symm fun x hx => decodes_le 2 x (by
        have := ht; simp [hx] at this; omega)) ?_
      refine Decodes.bind (decodes_readIf _ e.tvName cstr (by rw [f40, htn]) fun x hx => decodes_cstr x (by
        have := hnm; simpa [hx] using this)) ?_
      refine Decodes.bind (decodes_readIf _ e.keywords cstr f20.symm fun x hx => decodes_cstr x (by
        have := hk; simpa [hx] using this)) ?_
      refine Decodes.bind' (e2 := []) (decodes_readIf _ e.gameId (le 8) f01.symm fun x hx => decodes_le 8 x (by
        have := hg; simp [hx] at this; omega)) ?_ (by simp)
      have happ' : (match e.gameId with
          | some gid => gid &&& (2 ^ 24 - 1)
          | none => a16) = appid := by
        simp only [Option.bind_some] at happ
        cases hgid : e.gameId with
        | none => rw [hgid] at happ; simp only at happ ⊢; exact happ.symm
        | some gid =>
          rw [hgid] at happ
          simp only at happ ⊢
          rw [happ, Nat.and_two_pow_sub_one_eq_mod]
      rw [happ']
      cases e
      exact Decodes.pure _
    obtain ⟨b2, h2, _, hd2⟩ := hchain b1 [] (by rw [List.append_nil]; exact hr1)
    exact ⟨b2, h2, by rw [hd2, hd1]⟩

end Gd.Valve

namespace Gd.Valve
open Gd Gd.Valve.Spec

theorem decodes_ship (t : TheShip) (h : t.mode < 256 ∧ t.witnesses < 256 ∧ t.duration < 256) :
    Decodes (do
      let mode ← readU8
      let witnesses ← readU8
      let duration ← readU8
      pure (TheShip.mk mode witnesses duration)) (encShip t) t := by
  unfold encShip u8
  simp only [List.append_assoc]
  refine Decodes.bind (decodes_u8 _ h.1) ?_
  refine Decodes.bind (decodes_u8 _ h.2.1) ?_
  refine Decodes.bind' (e2 := []) (decodes_u8 _ h.2.2) ?_ (by simp)
  cases t
  exact Decodes.pure _

theorem decodesEnd_sourceInfo (engine : Engine) (upper : Bool) (i : ServerInfo)
    (h : wfSourceInfo engine i = true) :
    DecodesEnd (parseSourceInfo engine) (encSourceInfo upper i) i := by
  simp only [wfSourceInfo, wfCommon, Bool.and_eq_true, decide_eq_true_eq, beq_iff_eq,
    Bool.not_eq_true', Option.isNone_iff_eq_none] at h
  obtain ⟨⟨⟨⟨⟨⟨⟨⟨⟨⟨⟨⟨⟨⟨hpv, hname⟩, hmap⟩, hfolder⟩, hmode⟩, hon⟩, hmax⟩, hbots⟩, hver⟩, hship⟩, hshipv⟩, hextra⟩, hmod⟩, hmd⟩, happ⟩ := h
  unfold parseSourceInfo encSourceInfo
  simp only [List.append_assoc, u8]
  refine DecodesEnd.bind (decodes_u8 _ hpv) ?_ rfl
  refine DecodesEnd.bind (decodes_cstr _ hname) ?_ rfl
  refine DecodesEnd.bind (decodes_cstr _ hmap) ?_ rfl
  refine DecodesEnd.bind (decodes_cstr _ hfolder) ?_ rfl
  refine DecodesEnd.bind (decodes_cstr _ hmode) ?_ rfl
  refine DecodesEnd.bind (decodes_le 2 (i.appid % 65536) (by omega)) ?_ rfl
  refine DecodesEnd.bind (decodes_u8 _ hon) ?_ rfl
  refine DecodesEnd.bind (decodes_u8 _ hmax) ?_ rfl
  refine DecodesEnd.bind (decodes_u8 _ hbots) ?_ rfl
  refine DecodesEnd.bind (decodes_u8 _ (serverTypeByte_lt upper i.serverType)) ?_ rfl
  rw [serverFromGldsrc_byte]
  refine DecodesEnd.bind (Decodes.lift_ok _) ?_ (List.nil_append _).symm
  refine DecodesEnd.bind (decodes_u8 _ (environmentByte_lt upper i.environmentType)) ?_ rfl
  rw [environmentFromGldsrc_byte]
  refine DecodesEnd.bind (Decodes.lift_ok _) ?_ (List.nil_append _).symm
  refine DecodesEnd.bind (decodes_boolByte _) ?_ rfl
  refine DecodesEnd.bind (decodes_boolByte _) ?_ rfl
  refine DecodesEnd.bind (decodes_readIf _ i.theShip encShip hship fun t ht => decodes_ship t (by
    have := hshipv; simp only [ht, Option.all_some, Bool.and_eq_true, decide_eq_true_eq] at this
    exact ⟨this.1.1, this.1.2, this.2⟩)) ?_ rfl
  refine DecodesEnd.bind (decodes_cstr _ hver) ?_ rfl
  have hx := decodesEnd_extra (i.appid % 65536) i.extraData i.appid hextra (by
    cases hg : i.extraData.bind (·.gameId) with
    | none =>
      rw [hg] at happ
      simp only [decide_eq_true_eq] at happ ⊢
      omega
    | some gid =>
      rw [hg] at happ
      simpa using happ)
  refine DecodesEnd.bind_pure hx ?_
  intro b
  cases i
  simp only at hmod hmd
  subst hmod hmd
  rfl

end Gd.Valve

namespace Gd.Valve
open Gd Gd.Valve.Spec

theorem validUtf8_ascii (s : Bytes) (h : s.all (fun b => b.toNat < 128 && b != 0) = true) : validUtf8 s = true := by
  induction s with
  | nil => rfl
  | cons b r ih =>
    simp only [List.all_cons, Bool.and_eq_true, decide_eq_true_eq] at h
    unfold validUtf8
    simp [h.1.1, ih h.2]

theorem okStr_ascii (s : Bytes) (h : isAsciiText s = true) : okStr s = true := by
  rw [okStr_iff]
  refine ⟨?_, validUtf8_ascii s h⟩
  intro hm
  simp only [isAsciiText, List.all_eq_true, Bool.and_eq_true, decide_eq_true_eq, bne_iff_ne] at h
  exact (h 0 hm).2 rfl

theorem decodes_mod (m : ModData) (h : wfMod m = true) : Decodes parseModData (encMod m) m := by
  simp only [wfMod, Bool.and_eq_true, decide_eq_true_eq] at h
  obtain ⟨⟨⟨hl, hd⟩, hv⟩, hs⟩ := h
  unfold parseModData encMod
  simp only [List.append_assoc]
  refine Decodes.bind (decodes_cstr _ hl) ?_
  refine Decodes.bind (decodes_cstr _ hd) ?_
  refine Decodes.bind (decodes_skip [0]) ?_
  refine Decodes.bind (decodes_le 4 _ (by omega)) ?_
  refine Decodes.bind (decodes_le 4 _ (by omega)) ?_
  refine Decodes.bind (decodes_boolByte _) ?_
  refine Decodes.bind_last (decodes_boolByte m.hasOwnDll) ?_
  cases m
  exact Decodes.pure _

theorem decodes_goldSrcInfo (address : Bytes) (i : ServerInfo) (h : wfGoldSrcInfo address i = true) :
    Decodes parseGoldSrcInfo (encGoldSrcInfo address i) i := by
  simp only [wfGoldSrcInfo, wfCommon, Bool.and_eq_true, decide_eq_true_eq, beq_iff_eq,
    Bool.not_eq_true', Option.isNone_iff_eq_none, List.isEmpty_eq_false_iff, bne_iff_ne] at h
  obtain ⟨⟨⟨⟨⟨⟨⟨⟨⟨⟨⟨⟨⟨⟨⟨⟨hpv, hname⟩, hmap⟩, hfolder⟩, hmode⟩, hon⟩, hmax⟩, hbots⟩, haddr⟩, hne⟩, happ⟩, hship⟩, hver⟩, hextra⟩, hmod⟩, hmd⟩, henv⟩ := h
  obtain ⟨a0, arest, rfl⟩ : ∃ a0 arest, address = a0 :: arest := by
    cases address with
    | nil => exact absurd rfl hne
    | cons a r => exact ⟨a, r, rfl⟩
  have hrest : isAsciiText arest = true := by
    simp only [isAsciiText, List.all_cons, Bool.and_eq_true] at haddr
    exact haddr.2
  unfold parseGoldSrcInfo encGoldSrcInfo
  rw [show cstr (a0 :: arest) = [a0] ++ cstr arest from rfl]
  simp only [List.append_assoc, u8]
  refine Decodes.bind (decodes_readU8 a0) ?_
  refine Decodes.bind (decodes_cstr arest (okStr_ascii _ hrest)) ?_
  refine Decodes.bind (decodes_cstr _ hname) ?_
  refine Decodes.bind (decodes_cstr _ hmap) ?_
  refine Decodes.bind (decodes_cstr _ hfolder) ?_
  refine Decodes.bind (decodes_cstr _ hmode) ?_
  refine Decodes.bind (decodes_u8 _ hon) ?_
  refine Decodes.bind (decodes_u8 _ hmax) ?_
  refine Decodes.bind (decodes_u8 _ hpv) ?_
  refine Decodes.bind (decodes_u8 _ (serverTypeByte_lt true i.serverType)) ?_
  have hst : goldServerType (serverTypeByte true i.serverType) = .ok i.serverType := by cases i.serverType <;> rfl
  rw [hst]
  refine Decodes.bind' (e1 := []) (Decodes.lift_ok _) ?_ (List.nil_append _).symm
  refine Decodes.bind (decodes_u8 _ (environmentByte_lt true i.environmentType)) ?_
  have het : goldEnvironment (environmentByte true i.environmentType) = .ok i.environmentType := by
    cases he : i.environmentType
    · rfl
    · rfl
    · exact absurd he henv
  rw [het]
  refine Decodes.bind' (e1 := []) (Decodes.lift_ok _) ?_ (List.nil_append _).symm
  refine Decodes.bind (decodes_boolByte _) ?_
  refine Decodes.bind (decodes_boolByte _) ?_
  have hmodp : Decodes (readIf i.isMod parseModData) (optEnc encMod i.modData) i.modData :=
    decodes_readIf _ i.modData encMod hmod.symm fun m hm => decodes_mod m (by
      have := hmd; simpa [hm] using this)
  refine Decodes.bind hmodp ?_
  refine Decodes.bind (decodes_boolByte _) ?_
  refine Decodes.bind_last (decodes_u8 _ hbots) ?_
  cases i
  simp only at happ hship hver hextra
  subst happ hship hextra
  simp only [List.isEmpty_iff] at hver
  subst hver
  exact Decodes.pure _

end Gd.Valve
