import GdVerif.Lemmas.QuakeText
import GdVerif.Lemmas.Decodes
/-
  Decoding lemmas for C05: the MODEL of the Quake status reader against the SPEC encoders.
-/
namespace Gd.Quake
open Gd Gd.Quake.Spec

/-! ### the variables line -/

theorem okVarText_iff (s : Bytes) : okVarText s = true ↔ validUtf8 s = true ∧ (0x5C : UInt8) ∉ s ∧ (0x0A : UInt8) ∉ s := by
  simp [okVarText, and_assoc]

/-- the variables line as the list of its pieces -/
def kvList (vs : Vars) : List Bytes := vs.flatMap fun p => [p.1, p.2]

theorem splitOn_vars (vs : Vars) (h : ∀ p ∈ vs, (0x5C : UInt8) ∉ p.1 ∧ (0x5C : UInt8) ∉ p.2) :
    ∀ (v0 : Bytes), (0x5C : UInt8) ∉ v0 → splitOn 0x5C (v0 ++ (vs.map encVar).flatten) = v0 :: kvList vs := by
  induction vs with
  | nil => intro v0 h0; simpa [kvList] using splitOn_none 0x5C v0 h0
  | cons p r ih =>
    intro v0 h0
    have hp := h p (by simp)
    have e : v0 ++ ((p :: r).map encVar).flatten = v0 ++ 0x5C :: (p.1 ++ 0x5C :: (p.2 ++ (r.map encVar).flatten)) := by
      simp [encVar, List.append_assoc]
    rw [e, splitOn_sep _ _ _ h0, splitOn_sep _ _ _ hp.1, ih (fun q hq => h q (by simp [hq])) p.2 hp.2]
    simp [kvList]

theorem pairs_kvList (vs : Vars) : pairs (kvList vs) = vs := by
  induction vs with
  | nil => rfl
  | cons p r ih =>
    have : kvList (p :: r) = p.1 :: p.2 :: kvList r := by simp [kvList]
    rw [this, pairs, ih]

theorem distinctKeys_eq (vs : Vars) : Spec.distinctKeys vs = Valve.Spec.distinctKeys vs := by
  induction vs with
  | nil => rfl
  | cons p r ih => obtain ⟨k, v⟩ := p; simp [Spec.distinctKeys, Valve.Spec.distinctKeys, ih]

theorem insertAll_distinct (vs : Vars) (hd : Spec.distinctKeys vs = true) : insertAll vs = vs := by
  unfold insertAll
  have := Valve.foldl_mapInsert_distinct vs [] (by simpa [distinctKeys_eq] using hd)
  simpa using this

theorem validUtf8_varsLine (vs : Vars) (h : ∀ p ∈ vs, validUtf8 p.1 = true ∧ validUtf8 p.2 = true) :
    validUtf8 (vs.map encVar).flatten = true := by
  induction vs with
  | nil => rfl
  | cons p r ih =>
    have hp := h p (by simp)
    simp only [List.map_cons, List.flatten_cons, encVar]
    refine validUtf8_append _ _ ?_ (ih fun q hq => h q (by simp [hq]))
    refine validUtf8_append _ _ (validUtf8_append _ _ (validUtf8_append _ _ (by decide) hp.1) (by decide)) hp.2

theorem not_mem_varsLine (c : UInt8) (hc : c ≠ 0x5C) (vs : Vars) (h : ∀ p ∈ vs, c ∉ p.1 ∧ c ∉ p.2) :
    c ∉ (vs.map encVar).flatten := by
  induction vs with
  | nil => simp
  | cons p r ih =>
    have hp := h p (by simp)
    simp only [List.map_cons, List.flatten_cons, encVar, List.mem_append, List.mem_singleton, not_or]
    exact ⟨⟨⟨⟨hc, hp.1⟩, hc⟩, hp.2⟩, ih fun q hq => h q (by simp [hq])⟩

/-- `get_server_values` returns exactly the variables the server listed -/
theorem decodes_getServerValues (vs : Vars) (h : ∀ p ∈ vs, okVarText p.1 = true ∧ okVarText p.2 = true)
    (hd : Spec.distinctKeys vs = true) : Decodes getServerValues (encVars vs) vs := by
  have h' : ∀ p ∈ vs, (validUtf8 p.1 = true ∧ (0x5C : UInt8) ∉ p.1 ∧ (0x0A : UInt8) ∉ p.1) ∧
      (validUtf8 p.2 = true ∧ (0x5C : UInt8) ∉ p.2 ∧ (0x0A : UInt8) ∉ p.2) := by
    intro p hp
    exact ⟨(okVarText_iff _).mp (h p hp).1, (okVarText_iff _).mp (h p hp).2⟩
  have hsplit := splitOn_vars vs (fun p hp => ⟨(h' p hp).1.2.1, (h' p hp).2.2.1⟩) [] (by simp)
  simp only [List.nil_append] at hsplit
  have hval : insertAll (pairs (dropEmptyFirst (splitOn 0x5C (vs.map encVar).flatten))) = vs := by
    rw [hsplit]
    simp only [dropEmptyFirst]
    rw [pairs_kvList, insertAll_distinct vs hd]
  unfold getServerValues encVars lf
  refine Decodes.bind_last (decodes_readStrUntil 0x0A _
    (not_mem_varsLine 0x0A (by decide) vs fun p hp => ⟨(h' p hp).1.2.2, (h' p hp).2.2.2⟩)
    (validUtf8_varsLine vs fun p hp => ⟨(h' p hp).1.1, (h' p hp).2.1⟩)) ?_
  rw [hval]
  exact Decodes.pure _

/-! ### the fields of a player line -/

/-- a byte string that `split_player_fields` returns as one field, wherever it stands in a line -/
structure Tok (t : Bytes) : Prop where
  sp : ∀ rest, splitFields false (t ++ 0x20 :: rest) = t :: splitFields false rest
  fin : splitFields false t = [t]

theorem tok_bare (t : Bytes) (hq : (0x22 : UInt8) ∉ t) (hs : (0x20 : UInt8) ∉ t) : Tok t := by
  induction t with
  | nil => exact ⟨fun rest => by simp [splitFields], by simp [splitFields]⟩
  | cons b r ih =>
    simp only [List.mem_cons, not_or] at hq hs
    have hbq : (b == 0x22) = false := by rw [beq_eq_false_iff_ne]; exact fun e => hq.1 e.symm
    have hbs : (b == 0x20) = false := by rw [beq_eq_false_iff_ne]; exact fun e => hs.1 e.symm
    obtain ⟨ih1, ih2⟩ := ih hq.2 hs.2
    exact ⟨fun rest => by simp [splitFields, hbq, hbs, ih1 rest, consHead], by simp [splitFields, hbq, hbs, ih2, consHead]⟩

theorem splitFields_inQuotes_sp (s rest : Bytes) (hq : (0x22 : UInt8) ∉ s) :
    splitFields true (s ++ 0x22 :: 0x20 :: rest) = (s ++ [0x22]) :: splitFields false rest := by
  induction s with
  | nil => simp [splitFields, consHead]
  | cons b r ih =>
    simp only [List.mem_cons, not_or] at hq
    have hbq : (b == 0x22) = false := by rw [beq_eq_false_iff_ne]; exact fun e => hq.1 e.symm
    simp [splitFields, hbq, ih hq.2, consHead]

theorem splitFields_inQuotes_fin (s : Bytes) (hq : (0x22 : UInt8) ∉ s) :
    splitFields true (s ++ [0x22]) = [s ++ [0x22]] := by
  induction s with
  | nil => simp [splitFields, consHead]
  | cons b r ih =>
    simp only [List.mem_cons, not_or] at hq
    have hbq : (b == 0x22) = false := by rw [beq_eq_false_iff_ne]; exact fun e => hq.1 e.symm
    simp [splitFields, hbq, ih hq.2, consHead]

theorem tok_quoted (s : Bytes) (hq : (0x22 : UInt8) ∉ s) : Tok (0x22 :: (s ++ [0x22])) := by
  refine ⟨fun rest => ?_, ?_⟩
  · have := splitFields_inQuotes_sp s rest hq
    simp [splitFields, consHead, List.append_assoc, this]
  · have := splitFields_inQuotes_fin s hq
    simp [splitFields, consHead, this]

/-- fields separated by single spaces -/
def joinSp : List Bytes → Bytes
  | [] => []
  | [t] => t
  | t :: t' :: r => t ++ 0x20 :: joinSp (t' :: r)

theorem splitFields_joinSp (ts : List Bytes) (hne : ts ≠ []) (h : ∀ t ∈ ts, Tok t) :
    splitFields false (joinSp ts) = ts := by
  induction ts with
  | nil => exact absurd rfl hne
  | cons t r ih =>
    cases r with
    | nil => simpa [joinSp] using (h t (by simp)).fin
    | cons t' r' =>
      simp only [joinSp]
      rw [(h t (by simp)).sp, ih (by simp) fun x hx => h x (by simp [hx])]

theorem okField_iff (q : Bool) (s : Bytes) : okField q s = true ↔
    validUtf8 s = true ∧ (0x22 : UInt8) ∉ s ∧ (0x0A : UInt8) ∉ s ∧ (q = true ∨ (0x20 : UInt8) ∉ s) := by
  simp [okField, and_assoc]

theorem tok_dec (n : Nat) : Tok (dec n) :=
  tok_bare _ (not_mem_dec _ (by decide) n) (not_mem_dec _ (by decide) n)

theorem tok_decInt (i : Int) : Tok (decInt i) :=
  tok_bare _ (not_mem_decInt _ (by decide) (by decide) i) (not_mem_decInt _ (by decide) (by decide) i)

theorem tok_text (q : Bool) (s : Bytes) (h : okField q s = true) : Tok (text q s) := by
  obtain ⟨_, hq, _, hs⟩ := (okField_iff q s).mp h
  cases q with
  | true => simpa [text, quote] using tok_quoted s hq
  | false =>
    simp only [text, Bool.false_eq_true, ↓reduceIte]
    exact tok_bare s hq (by simpa using hs)

/-! ### the fields' values -/

theorem fieldUnsigned_dec (bits n : Nat) (h : n < 2 ^ bits) : fieldUnsigned bits (some (dec n)) = .ok n := by
  simp [fieldUnsigned, parseUnsigned_dec bits n h, okOr]

theorem fieldSigned_decInt (i : Int) (hlo : -(2 ^ 31 : Int) ≤ i) (hhi : i < 2 ^ 31) :
    fieldSigned 32 (some (decInt i)) = .ok i := by
  simp [fieldSigned, parseSigned_decInt i hlo hhi, okOr]

theorem removeWrappingQuotes_text (q : Bool) (s : Bytes) (h : okField q s = true) :
    removeWrappingQuotes (text q s) = .ok s := by
  obtain ⟨_, hq, _, _⟩ := (okField_iff q s).mp h
  cases q with
  | true =>
    have e : text true s = 0x22 :: (s ++ [0x22]) := by simp [text, quote]
    rw [e]
    unfold removeWrappingQuotes sliceInner
    have hg : (0x22 :: (s ++ [0x22])).getLast? = some 0x22 := by
      have e2 : (0x22 :: (s ++ [0x22])) = (0x22 :: s) ++ [(0x22 : UInt8)] := rfl
      rw [e2, List.getLast?_concat]
    have hl : ¬ (s.length + 1 + 1 < 2) := by omega
    simp [hg, hl]
  | false =>
    simp only [text, Bool.false_eq_true, ↓reduceIte]
    unfold removeWrappingQuotes
    have : (s.head? == some 0x22) = false := by
      cases s with
      | nil => rfl
      | cons b r =>
        simp only [List.mem_cons, not_or] at hq
        simp only [List.head?_cons]
        rw [beq_eq_false_iff_ne]
        intro e
        injection e with e
        exact hq.1 e.symm
    simp [this]

theorem fieldText_text (q : Bool) (s : Bytes) (h : okField q s = true) : fieldText (some (text q s)) = .ok s := by
  simp [fieldText, removeWrappingQuotes_text q s h]

end Gd.Quake
