import GdVerif.Lemmas.QuakeDecode
import GdVerif.Lemmas.QSteps
import GdVerif.Spec.QuakeFaults
/-
  The whole Quake query with faults injected (C10 end to end): `Quake.query` is "open a socket, a one-exchange unit
  under `retry_on_timeout`, decode" (`Lemmas/QSteps.lean: query1_plan`).
-/
namespace Gd.Quake
open Gd Gd.Quake.Spec Gd.Faults

theorem getDataImpl_exchange1 (s : Sock) (v : Version) :
    getDataImpl s v = exchange1 s (Quake.request v) PACKET_SIZE (stripHeader v).run := rfl

theorem query_exchange1 (port : Nat) (v : Version) (retries : Nat) :
    query port v retries = (openSock false port >>= fun s =>
      retryOnTimeout retries (exchange1 s (Quake.request v) PACKET_SIZE (stripHeader v).run) >>= fun data =>
        Q.lift ((parseBody v).run data)) := by
  rw [query_eq]
  rfl

theorem request_eq (v : Version) : Quake.request v = Spec.request v := by
  cases v <;> decide

/-- the header check on the server's reply -/
theorem stripHeader_reply' (cfg : Config) (st : State) :
    (stripHeader cfg.version).run (reply cfg st) = .ok (body cfg st) := by
  rw [reply, header_eq]
  exact stripHeader_reply cfg.version (body cfg st)

/-- the header check on a malformed datagram -/
theorem stripHeader_malformed (v : Version) (m : Bytes) (h : malformed v m = true) :
    (stripHeader v).run m = .err (malformedError m) := by
  unfold malformedError
  by_cases hlen : m.length < 4
  · simp only [hlen, ↓reduceIte]
    unfold Par.run stripHeader
    rw [Par.bind_err (k := .packetUnderflow) (by simp [readUnsigned, Buf.new, Buf.remaining, hlen])]
  · simp only [hlen, ↓reduceIte]
    simp only [malformed, hlen, decide_false, Bool.false_or, Bool.and_eq_true, beq_iff_eq, Bool.not_eq_true'] at h
    obtain ⟨h4, hpre⟩ := h
    have hm : m = [0xFF, 0xFF, 0xFF, 0xFF] ++ m.drop 4 := by rw [← h4, List.take_append_drop]
    have h1 := decodes_le 4 0xFFFFFFFF (by decide)
    have e1 : natLE 4 0xFFFFFFFF = [0xFF, 0xFF, 0xFF, 0xFF] := by decide
    rw [e1] at h1
    obtain ⟨b1, hp1, hr1, _⟩ := h1 (Buf.new m) (m.drop 4) (by simpa [Buf.new] using hm)
    unfold Par.run stripHeader
    rw [Par.bind_ok hp1]
    simp only [bne_self_eq_false, Bool.false_eq_true, ↓reduceIte]
    rw [Par.bind_ok (show remainingBytes b1 = .ok (b1.rest, b1) from rfl)]
    rw [header_eq] at hpre
    simp only [hr1, hpre, Bool.not_false, ↓reduceIte, Par.fail]

theorem malformedError_not_timeout (m : Bytes) : (malformedError m).isTimeout = false := by
  unfold malformedError
  split <;> rfl

/-- the whole query on the script of a plan (followed by anything) -/
theorem query_faulty (port retries : Nat) (v : Version) (p : Plan1) (hp : p.wf retries PACKET_SIZE = true)
    (hcheck : ∀ d e, p.answer = some d → (stripHeader v).run d = .err e → e.isTimeout = false)
    (restQ : List Delivery) (restF : List Bool) :
    (query port v retries (Net.init [.opened (p.deliveries ++ restQ)] (p.faults ++ restF))).1
      = (p.outcome (stripHeader v).run >>= (parseBody v).run)
    ∧ sentOf (query port v retries (Net.init [.opened (p.deliveries ++ restQ)] (p.faults ++ restF))).2.log
      = p.sends (Spec.request v) := by
  rw [query_exchange1, ← request_eq]
  exact query1_plan port retries (Quake.request v) PACKET_SIZE (stripHeader v).run (parseBody v).run p hp hcheck
    restQ restF

end Gd.Quake
