import GdVerif.Lemmas.QBlock
import GdVerif.Lemmas.ValveSafe
namespace Gd.Valve
open Gd

theorem block_recvChunks (s : Sock) (engine : Engine) (protocol : Nat) (n : Nat) :
    Block 0 1 (recvChunks s engine protocol n) := by
  induction n with
  | zero => exact (Block.pure _).weaken (by omega) (by omega)
  | succ n ih =>
    unfold recvChunks
    have h := Block.bind (Block.recv s (some PACKET_SIZE)) fun data =>
      Block.bind (Block.parse (splitPacketNew engine protocol) data) fun p =>
        Block.bind ih fun ps => Block.pure (p :: ps)
    exact h.weaken (by omega) (by omega)

theorem block_afterFirst (ext : Ext) (s : Sock) (engine : Engine) (protocol : Nat) (data : Bytes) :
    Block 0 1 (afterFirst ext s engine protocol data) := by
  unfold afterFirst
  have h := Block.bind (Block.parse readU8 data) fun header =>
    (Block.ite (c := (header == 0xFE) = true)
      ((Block.bind (Block.parse (splitPacketNew engine protocol) data) fun first =>
        Block.bind (block_recvChunks s engine protocol (first.total - 1)) fun rest =>
          Block.bind (Block.lift (assemble ext (sortChunks (first :: rest)))) fun payload =>
            Block.parse packetFromBuffer payload).weaken (Nat.le_refl 0) (by omega : max 0 (0 + max 1 (0 + max 0 (0 + 0))) ≤ 1))
      ((Block.parse packetFromBuffer data).weaken (Nat.le_refl 0) (by omega)))
  exact h.weaken (by omega) (by omega)

theorem block_receive (ext : Ext) (s : Sock) (engine : Engine) (protocol : Nat) :
    Block 0 1 (receive ext s engine protocol) := by
  rw [receive_eq]
  exact (Block.bind (Block.recv s (some PACKET_SIZE)) fun d => block_afterFirst ext s engine protocol d).weaken
    (by omega) (by omega)

theorem block_challengeLoop (ext : Ext) (s : Sock) (engine : Engine) (protocol kind : Nat) :
    ∀ (fuel : Nat) (packet : Packet), Block 0 1 (challengeLoop ext s engine protocol kind fuel packet) := by
  intro fuel
  induction fuel with
  | zero => intro _ w; exact ⟨[], by simp [challengeLoop], by simp [challengeLoop, nBlocked]⟩
  | succ fuel ih =>
    intro packet
    unfold challengeLoop
    split
    · have h := Block.bind (Block.send s (packetBytes kind (if kind == 0x54 then infoPayload ++ packet.payload else packet.payload)))
        fun _ => Block.bind (block_receive ext s engine protocol) fun p => ih p
      exact h.weaken (by omega) (by omega)
    · exact (Block.pure _).weaken (by omega) (by omega)

/-- one attempt of a request: a blocking step runs into its timeout only if the attempt fails, and then once -/
theorem block_requestImpl (ext : Ext) (s : Sock) (engine : Engine) (protocol kind : Nat) (payload : Bytes) :
    Block 0 1 (requestImpl ext s engine protocol kind payload) := by
  unfold requestImpl
  have hloop : ∀ packet, Block 0 1 (fun w => challengeLoop ext s engine protocol kind (queued s w + 1) packet w) :=
    fun packet w => block_challengeLoop ext s engine protocol kind (queued s w + 1) packet w
  have h := Block.bind (Block.send s (packetBytes kind payload)) fun _ =>
    Block.bind (block_receive ext s engine protocol) fun packet => hloop packet
  exact h.weaken (by omega) (by omega)

theorem block_queryBody (ext : Ext) (s : Sock) (engine : Engine) (g : Gather) (r : Nat) :
    Block (3 * (r + 1)) (3 * (r + 1)) (queryBody ext s engine g r) := by
  unfold queryBody getServerInfo getServerPlayers getServerRules requestData
  have hsec : ∀ {α : Type} (protocol : Nat) (req : Request) (p : Par α),
      Block (r + 1) (r + 1)
        (retryOnTimeout r (requestImpl ext s engine protocol req.kind req.defaultPayload) >>= fun data => parse p data) := by
    intro α protocol req p
    exact (Block.bind (Block.retry (block_requestImpl ext s engine protocol req.kind req.defaultPayload) r)
      fun data => Block.parse p data).weaken (by omega) (by omega)
  have h := Block.bind (hsec 0 .info (parseInfo engine)) fun info =>
    Block.ite (c := (!appIdOk engine g info.appid) = true)
      ((Block.fail (α := Response) ErrKind.badGame).weaken (Nat.zero_le (2 * (r + 1))) (Nat.zero_le (2 * (r + 1))))
      ((Block.bind (Block.maybeGather (hsec info.protocolVersion .players (parsePlayers engine)) g.players) fun players =>
        Block.bind (Block.maybeGather (hsec info.protocolVersion .rules (parseRules engine)) g.rules) fun rules =>
          Block.pure (⟨info, players, rules⟩ : Response)).weaken (by omega) (by omega))
  exact h.weaken (by omega) (by omega)

end Gd.Valve
