import GdVerif.Lemmas.ValveKind
import GdVerif.Lemmas.Valve
import GdVerif.Spec.Ffow
/-
  Frontlines: Fuel of War: crash freedom, wire conformance and field-by-field decoding against the SPEC.
-/
namespace Gd.Ffow
open Gd Gd.Valve Gd.Valve.Spec Gd.Ffow.Spec

theorem safe_parseResponse : Safe parseResponse := by
  unfold parseResponse
  exact Safe.bind safe_readU8 fun _ => Safe.bind safe_readCStr fun _ => Safe.bind safe_readCStr fun _ =>
    Safe.bind safe_readCStr fun _ => Safe.bind safe_readCStr fun _ => Safe.bind safe_readCStr fun _ =>
    Safe.bind safe_readCStr fun _ => Safe.bind (safe_moveCursor _) fun _ => Safe.bind safe_readU8 fun _ =>
    Safe.bind safe_readU8 fun _ => Safe.bind safe_readU8 fun _ =>
    Safe.bind (Safe.lift_ne _ (serverFromGldsrc_ne _)) fun _ => Safe.bind safe_readU8 fun _ =>
    Safe.bind (Safe.lift_ne _ (environmentFromGldsrc_ne _)) fun _ => Safe.bind safe_readBoolByte fun _ =>
    Safe.bind safe_readBoolByte fun _ => Safe.bind (safe_moveCursor _) fun _ => Safe.bind safe_readU8 fun _ =>
    Safe.bind safe_readU8 fun _ => Safe.bind (safe_readUnsigned _ _) fun _ => Safe.pure _

/-- the datagrams an FFOW query may send: the `LSQ` request, or — after a challenge reply — the request kind
followed by the challenge bytes (what the shared Valve request loop does for every kind but A2S_INFO) -/
def Allowed (data : Bytes) : Prop :=
  data = packetBytes KIND lsq ∨ ∃ c, data = packetBytes KIND c

/-- what an FFOW query may do to the transport; `id` is the number of the socket it opens -/
def EvOkAt (port id : Nat) : Ev → Prop
  | .opened c tcp p _ => c = id ∧ tcp = false ∧ p = port
  | .send c p data _ => c = id ∧ p = port ∧ Allowed data
  | .recv c size _ => c = id ∧ size = some PACKET_SIZE

theorem qsafe_queryBody (ext : Ext) (s : Sock) (hudp : s.tcp = false) (retries : Nat) :
    QSafe s (EvOkAt s.port s.id) (queryBody ext s retries) := by
  unfold queryBody
  refine QSafe.bind (QSafe.retry (qsafe_requestImplP ext s _ (fun _ => ⟨rfl, rfl⟩) hudp _ _ _ _
    (fun _ => ⟨rfl, rfl, Or.inl rfl⟩) (fun c _ => ⟨rfl, rfl, Or.inr ⟨c, ?_⟩⟩)) retries) fun _ =>
    QSafe.parse _ _ safe_parseResponse _
  simp [KIND]

theorem query_eq (ext : Ext) (port retries : Nat) :
    query ext port retries = (openSock false port >>= fun s => queryBody ext s retries) := rfl

theorem query_safe (ext : Ext) (port retries : Nat) (w : Net) :
    (query ext port retries w).1 ≠ .crash
    ∧ ∃ added, (query ext port retries w).2.log = w.log ++ added ∧ ∀ e ∈ added, EvOkAt port w.conns.length e := by
  rw [query_eq]
  exact openThen_safe false port (EvOkAt port) (fun _ _ => ⟨rfl, rfl, rfl⟩)
    (fun s hp ht => by have := qsafe_queryBody ext s ht retries; rwa [hp] at this) w

/-! ### decoding -/

theorem decodesEnd_response (upper : Bool) (st : Ffow.Spec.State) (h : Ffow.Spec.wf st = true) :
    DecodesEnd parseResponse (encode upper st) (expected st) := by
  simp only [Ffow.Spec.wf, Bool.and_eq_true, decide_eq_true_eq] at h
  obtain ⟨⟨⟨⟨⟨⟨⟨⟨⟨⟨⟨⟨⟨hp, hname⟩, hmap⟩, hmod⟩, hgm⟩, hdesc⟩, hver⟩, hport⟩, hnp⟩, hmp⟩, hfps⟩, hrd⟩, hmr⟩, htl⟩ := h
  unfold parseResponse encode
  simp only [List.append_assoc]
  refine DecodesEnd.bind (decodes_u8 _ hp) ?_ rfl
  refine DecodesEnd.bind (decodes_cstr _ hname) ?_ rfl
  refine DecodesEnd.bind (decodes_cstr _ hmap) ?_ rfl
  refine DecodesEnd.bind (decodes_cstr _ hmod) ?_ rfl
  refine DecodesEnd.bind (decodes_cstr _ hgm) ?_ rfl
  refine DecodesEnd.bind (decodes_cstr _ hdesc) ?_ rfl
  refine DecodesEnd.bind (decodes_cstr _ hver) ?_ rfl
  have hskip2 : Decodes (moveCursor 2) (be 2 st.gamePort) () := by
    have := decodes_skip (be 2 st.gamePort)
    rwa [show (be 2 st.gamePort).length = 2 by simp [be, natBE, natLE_length]] at this
  refine DecodesEnd.bind hskip2 ?_ rfl
  refine DecodesEnd.bind (decodes_u8 _ hnp) ?_ rfl
  refine DecodesEnd.bind (decodes_u8 _ hmp) ?_ rfl
  refine DecodesEnd.bind (decodes_u8 _ (serverTypeByte_lt _ _)) ?_ rfl
  refine DecodesEnd.bind (e1 := []) (by rw [serverFromGldsrc_byte]; exact Decodes.lift_ok _) ?_ rfl
  refine DecodesEnd.bind (decodes_u8 _ (environmentByte_lt _ _)) ?_ rfl
  refine DecodesEnd.bind (e1 := []) (by rw [environmentFromGldsrc_byte]; exact Decodes.lift_ok _) ?_ rfl
  refine DecodesEnd.bind (decodes_boolByte _) ?_ rfl
  refine DecodesEnd.bind (decodes_boolByte _) ?_ rfl
  have hskip1 : Decodes (moveCursor 1) (u8 st.averageFps) () := decodes_skip (u8 st.averageFps)
  refine DecodesEnd.bind hskip1 ?_ rfl
  refine DecodesEnd.bind (decodes_u8 _ hrd) ?_ rfl
  refine DecodesEnd.bind (decodes_u8 _ hmr) ?_ rfl
  exact DecodesEnd.bind_pure (decodes_be 2 _ (by simpa using htl)).toEnd (fun _ => rfl)

/-- the whole exchange against a conforming server -/
theorem query_script (ext : Ext) (port retries : Nat) (upper : Bool) (st : Ffow.Spec.State)
    (hlen : (replyPacket upper st).length ≤ PACKET_SIZE) :
    query ext port retries (Net.init [.opened [.data (replyPacket upper st)]] [])
      = (parseResponse.run (encode upper st),
         ⟨[], [[]], [], [.opened 0 false port false, .send 0 port (packetBytes KIND lsq) false,
           .recv 0 (some PACKET_SIZE) (some (replyPacket upper st).length)]⟩) := by
  have hreq := requestImpl_single ext ⟨0, port, false⟩ rfl (.goldSrc true) 0 KIND lsq 0x49 (by decide)
    (encode upper st) ⟨[], [[.data (replyPacket upper st)]], [], [.opened 0 false port false]⟩ [] rfl rfl hlen
  have hretry := retryOnTimeout_ok retries hreq
  simp only [query, queryBody, openSock, Net.init, bind, Q.bind', List.length_nil, List.nil_append, hretry]
  simp only [parse, Q.lift, setAt]
  rfl

theorem query_script_fst (ext : Ext) (port retries : Nat) (upper : Bool) (st : Ffow.Spec.State)
    (hlen : (replyPacket upper st).length ≤ PACKET_SIZE) :
    (query ext port retries (Net.init [.opened [.data (replyPacket upper st)]] [])).1
      = parseResponse.run (encode upper st) := by
  have hq := query_script ext port retries upper st hlen
  generalize parseResponse.run (encode upper st) = a at hq ⊢
  generalize query ext port retries (Net.init [.opened [.data (replyPacket upper st)]] []) = r at hq ⊢
  subst hq
  rfl

end Gd.Ffow
