import GdVerif.Proto.IdCheck
/-
  Lemmas about the id-checker model: words are never empty, hence no `unwrap` on an empty word.
-/
namespace Gd.IdCheck
open Gd

/-- every word is non-empty -/
def NE (ws : List Bytes) : Prop := ∀ w ∈ ws, w ≠ []

theorem NE.nil : NE [] := fun _ h => by cases h

theorem NE.cons {w : Bytes} {ws : List Bytes} (hw : w ≠ []) (h : NE ws) : NE (w :: ws) := by
  intro x hx
  rcases List.mem_cons.mp hx with rfl | hx
  · exact hw
  · exact h x hx

theorem NE.tail {w : Bytes} {ws : List Bytes} (h : NE (w :: ws)) : NE ws := fun x hx => h x (by simp [hx])
theorem NE.head {w : Bytes} {ws : List Bytes} (h : NE (w :: ws)) : w ≠ [] := h w (by simp)

theorem NE.append {a b : List Bytes} (ha : NE a) (hb : NE b) : NE (a ++ b) := by
  intro x hx
  rcases List.mem_append.mp hx with h | h
  · exact ha x h
  · exact hb x h

theorem splitAlphaNum_ne : ∀ s, NE (splitAlphaNum s) := by
  intro s
  induction s with
  | nil => exact NE.nil
  | cons b r ih =>
    unfold splitAlphaNum
    cases h : splitAlphaNum r with
    | nil => exact NE.cons (by simp) NE.nil
    | cons p ps =>
      rw [h] at ih
      cases p with
      | nil => exact NE.cons (by simp) ih.tail
      | cons c cs =>
        simp only
        split
        · exact NE.cons (by simp) ih.tail
        · exact NE.cons (by simp) ih

/-- a word that still has a non-dash character -/
def Solid (w : Bytes) : Prop := trimDash w ≠ []

theorem solid_ne {w : Bytes} (h : Solid w) : w ≠ [] := by
  intro hw
  subst hw
  exact h rfl

theorem dropWhile_dash_nil_of_all (w : Bytes) (h : ∀ x ∈ w, x = cDash) : w.dropWhile (· == cDash) = [] := by
  induction w with
  | nil => rfl
  | cons a r ih =>
    have ha : a = cDash := h a (by simp)
    simp [List.dropWhile, ha, ih (fun x hx => h x (by simp [hx]))]

/-- a solid word has a character that is not a dash -/
theorem solid_has_nondash {w : Bytes} (h : Solid w) : ∃ x ∈ w, x ≠ cDash := by
  refine Classical.byContradiction fun hno => ?_
  have hall : ∀ x ∈ w, x = cDash := by
    intro x hx
    exact Classical.byContradiction fun hne => hno ⟨x, hx, hne⟩
  apply h
  unfold trimDash
  rw [dropWhile_dash_nil_of_all w hall]
  rfl

theorem dropLast_ne_of_solid_dash {w : Bytes} (h : Solid w) (hl : w.getLast? = some cDash) : w.dropLast ≠ [] := by
  obtain ⟨x, hx, hne⟩ := solid_has_nondash h
  intro hd
  -- w = dropLast ++ [last] = [cDash], so every element is a dash
  have hw : w = [cDash] := by
    cases w with
    | nil => cases hx
    | cons a r =>
      cases r with
      | nil => simp at hl; simp [hl]
      | cons b r2 => simp [List.dropLast] at hd
  rw [hw] at hx
  simp at hx
  exact hne hx

theorem combineNumbers_ne (ws : List Bytes) (h : ∀ w ∈ ws, Solid w) :
    ∀ acc : Option Bytes, (∀ a, acc = some a → a ≠ []) → NE (combineNumbers ws acc) := by
  induction ws with
  | nil => intro acc _; cases acc <;> exact NE.nil
  | cons w r ih =>
    have hw := h w (by simp)
    have hr : ∀ x ∈ r, Solid x := fun x hx => h x (by simp [hx])
    intro acc hacc
    cases acc with
    | some a =>
      have ha := hacc a rfl
      unfold combineNumbers
      cases hs : stripDashSuffix w with
      | some num =>
        have hnum : num ≠ [] := by
          unfold stripDashSuffix at hs
          split at hs
          · rename_i hl; cases hs; exact dropLast_ne_of_solid_dash hw (by simpa using hl)
          · cases hs
        simp only
        split
        · exact ih hr _ (by intro x hx; cases hx; simp [ha])
        · exact NE.cons ha (NE.cons (solid_ne hw) (ih hr none (by intro _ h; cases h)))
      | none =>
        simp only
        split
        · exact NE.cons (by simp [ha]) (ih hr none (by intro _ h; cases h))
        · exact NE.cons ha (NE.cons (solid_ne hw) (ih hr none (by intro _ h; cases h)))
    | none =>
      unfold combineNumbers
      cases hs : stripDashSuffix w with
      | some num =>
        have hnum : num ≠ [] := by
          unfold stripDashSuffix at hs
          split at hs
          · rename_i hl; cases hs; exact dropLast_ne_of_solid_dash hw (by simpa using hl)
          · cases hs
        simp only
        split
        · exact ih hr _ (by intro x hx; cases hx; exact hnum)
        · exact NE.cons (solid_ne hw) (ih hr none (by intro _ h; cases h))
      | none => exact NE.cons (solid_ne hw) (ih hr none (by intro _ h; cases h))

/-- the words of any parsed name are non-empty -/
theorem extractParts_ne (game : Bytes) : NE (extractParts game).words := by
  unfold extractParts
  simp only
  apply combineNumbers_ne
  · intro w hw
    have := (List.mem_filter.mp hw).2
    simpa [Solid] using this
  · intro _ h; cases h

theorem natDec_ne (n : Nat) : natDec n ≠ [] := by
  unfold natDec natDecAux
  split <;> simp

theorem romanPass_ne (ws : List Bytes) (h : NE ws) : NE (romanPass ws).1 := by
  cases ws with
  | nil => exact NE.nil
  | cons f rest =>
    simp only [romanPass]
    refine NE.cons h.head ?_
    intro x hx
    simp only [List.map_map, List.mem_map, Function.comp] at hx
    obtain ⟨w, hw, rfl⟩ := hx
    split
    · exact natDec_ne _
    · exact h w (by simp [hw])

theorem flatten_split_ne (ws : List Bytes) : NE (ws.map splitAlphaNum).flatten := by
  intro x hx
  obtain ⟨l, hl, hxl⟩ := List.mem_flatten.mp hx
  obtain ⟨w, _, rfl⟩ := List.mem_map.mp hl
  exact splitAlphaNum_ne w x hxl

theorem NE.dropLast {ws : List Bytes} (h : NE ws) : NE ws.dropLast :=
  fun x hx => h x (List.dropLast_subset _ hx)

theorem firstNumberPass_ok (ext : Ext) (hn : ∀ n, ext.n2w n ≠ []) (w2 : List Bytes) (h : NE w2) :
    ∃ w3 r3, firstNumberPass ext w2 = .ok (w3, r3) ∧ NE w3 := by
  unfold firstNumberPass
  cases w2 with
  | nil => exact ⟨_, _, rfl, NE.nil⟩
  | cons f rest =>
    cases f with
    | nil => exact absurd rfl h.head
    | cons c cs =>
      simp only
      split
      · exact ⟨_, _, rfl, NE.cons (hn _) h.tail⟩
      · exact ⟨_, _, rfl, h⟩

theorem lastNumberPass_ne (w3 : List Bytes) (h : NE w3) : NE (lastNumberPass w3).1 := by
  unfold lastNumberPass
  split
  · split
    · exact h.dropLast
    · exact h
  · exact h

/-- `prepare` never crashes on any words, and (when `number_to_words` never returns an empty string)
its words are again non-empty -/
theorem prepare_ok (ext : Ext) (hn : ∀ n, ext.n2w n ≠ []) (ws : List Bytes) (isMod : Bool) :
    ∃ p, prepare ext ws isMod = .ok p ∧ NE p.words := by
  obtain ⟨w3, r3, h3, hne⟩ := firstNumberPass_ok ext hn _ (flatten_split_ne (romanPass ws).1)
  unfold prepare
  simp only [h3]
  exact ⟨_, rfl, lastNumberPass_ne w3 hne⟩

theorem mapM_head_some (ws : List Bytes) (h : NE ws) : ∃ fs, ws.mapM (fun w => w.head?) = some fs := by
  induction ws with
  | nil => exact ⟨[], rfl⟩
  | cons w r ih =>
    obtain ⟨fs, hfs⟩ := ih h.tail
    cases w with
    | nil => exact absurd rfl h.head
    | cons c cs => exact ⟨c :: fs, by simp [List.mapM_cons, hfs]⟩

theorem mainPart_ok (ws : List Bytes) (h : NE ws) : ∃ m r, mainPart ws = .ok (m, r) := by
  unfold mainPart
  split
  · exact ⟨_, _, rfl⟩
  · obtain ⟨fs, hfs⟩ := mapM_head_some ws h
    rw [hfs]
    exact ⟨_, _, rfl⟩

theorem checkFlat_ok (ext : Ext) (hn : ∀ n, ext.n2w n ≠ []) (seen : Seen) (id : Bytes) (g : Parsed) (isMod : Bool) :
    ∃ r, checkFlat ext seen id g isMod = .ok r := by
  obtain ⟨p, hp, hne⟩ := prepare_ok ext hn g.words isMod
  obtain ⟨m, r, hm⟩ := mainPart_ok p.words hne
  unfold checkFlat
  rw [hp]
  simp only
  rw [hm]
  exact ⟨_, rfl⟩

theorem modAttempt_ok (ext : Ext) (hn : ∀ n, ext.n2w n ≠ []) (seen : Seen) (id : Bytes) (g : Parsed) (e : Bytes) :
    ∃ r, modAttempt ext seen id g e = .ok r := by
  unfold modAttempt
  split
  · cases hd : afterDash g.name with
    | none => exact ⟨_, rfl⟩
    | some modName =>
      obtain ⟨⟨fails, seen', x⟩, hfr⟩ := checkFlat_ok ext hn seen id (extractParts modName) true
      simp only [hfr]
      exact ⟨_, rfl⟩
  · exact ⟨_, rfl⟩

theorem checkRule_ok (ext : Ext) (hn : ∀ n, ext.n2w n ≠ []) (seen : Seen) (id : Bytes) (g : Parsed) :
    ∃ r, checkRule ext seen id g = .ok r := by
  obtain ⟨p, hp, hne⟩ := prepare_ok ext hn g.words false
  obtain ⟨m, r, hm⟩ := mainPart_ok p.words hne
  obtain ⟨mr, hmr⟩ := modAttempt_ok ext hn seen id g (expectedWith seen p g m).1
  unfold checkRule
  simp only [hp, hm, hmr]
  exact ⟨_, rfl⟩

theorem checkAllFrom_ok (ext : Ext) (hn : ∀ n, ext.n2w n ≠ []) (gs : List (Bytes × Parsed)) :
    ∀ seen, ∃ r, checkAllFrom ext gs seen = .ok r := by
  induction gs with
  | nil => intro _; exact ⟨[], rfl⟩
  | cons x r ih =>
    intro seen
    obtain ⟨id, g⟩ := x
    obtain ⟨res, hres⟩ := checkRule_ok ext hn seen id g
    obtain ⟨fails, seen'⟩ := res
    obtain ⟨more, hmore⟩ := ih seen'
    exact ⟨fails ++ more, by simp [checkAllFrom, hres, hmore]⟩

end Gd.IdCheck

namespace Gd.IdCheck
open Gd

/-- the id the checker expects for a name when nothing has been seen before -/
def singleExpected (ext : Ext) (g : Parsed) (isMod : Bool) : Res Bytes :=
  match prepare ext g.words isMod with
  | .crash => .crash
  | .err k => .err k
  | .ok p =>
    match mainPart p.words with
    | .crash => .crash
    | .err k => .err k
    | .ok (main, _) => .ok (lower (main ++ p.suffix))

theorem lower_idem (s : Bytes) : lower (lower s) = lower s := by
  unfold lower asciiLower
  rw [List.map_map]
  apply List.map_congr_left
  intro b _
  simp only [Function.comp]
  by_cases h : inRange b 65 90 = true
  · have hb : inRange (b + 32) 65 90 = false := by
      simp only [inRange, Bool.and_eq_true, decide_eq_true_eq] at h
      have : (b + 32).toNat = b.toNat + 32 := by
        rw [UInt8.toNat_add]; simp; omega
      simp [inRange, this]; omega
    simp [h, hb]
  · simp [h]

theorem expectedWith_nil (p : Prepared) (g : Parsed) (main : Bytes) :
    expectedWith [] p g main = (lower (main ++ p.suffix), []) := by
  simp [expectedWith, seenGet]

theorem checkFlat_nil (ext : Ext) (id : Bytes) (g : Parsed) (isMod : Bool) (p : Prepared) (m : Bytes) (r : Rule)
    (hp : prepare ext g.words isMod = .ok p) (hm : mainPart p.words = .ok (m, r)) :
    ∃ seen', checkFlat ext [] id g isMod
      = .ok ((if lower id != id then [Fail.mk id g.name (lower id) [.lowerCase]] else [])
          ++ (if id != lower (m ++ p.suffix) then [Fail.mk id g.name (lower (m ++ p.suffix)) (p.rules ++ [r] ++ [] ++ [])] else []),
        seen', lower (m ++ p.suffix)) := by
  unfold checkFlat
  simp only [hp, hm, expectedWith_nil, seenInsert, List.lookup, Bool.or_false, Bool.false_eq_true, ↓reduceIte]
  exact ⟨_, rfl⟩

/-- single game, nothing seen before: accepted exactly for the expected id of the name, or of its mod part -/
theorem checkRule_nil_accepts (ext : Ext) (hn : ∀ n, ext.n2w n ≠ []) (id : Bytes) (g : Parsed) :
    ∃ E, singleExpected ext g false = .ok E ∧
      ((∃ seen', checkRule ext [] id g = .ok ([], seen')) ↔
        (id = E ∨ ∃ m E', afterDash g.name = some m ∧ singleExpected ext (extractParts m) true = .ok E' ∧ id = E')) := by
  obtain ⟨p, hp, hne⟩ := prepare_ok ext hn g.words false
  obtain ⟨m, r, hm⟩ := mainPart_ok p.words hne
  refine ⟨lower (m ++ p.suffix), by simp [singleExpected, hp, hm], ?_⟩
  unfold checkRule
  simp only [hp, hm, expectedWith_nil]
  by_cases hid : id = lower (m ++ p.suffix)
  · -- the expected id itself
    have hl : lower id = id := by rw [hid, lower_idem]
    simp only [modAttempt, hid, bne_self_eq_false, Bool.false_eq_true, ↓reduceIte, finishRule, seenInsert, List.lookup,
      lower_idem, Bool.or_false, List.append_nil, List.nil_append]
    exact ⟨fun _ => Or.inl trivial, fun _ => ⟨_, rfl⟩⟩
  · have hne' : (id != lower (m ++ p.suffix)) = true := by simpa using hid
    simp only [modAttempt, hne', ↓reduceIte]
    cases hd : afterDash g.name with
    | none =>
      simp only [finishRule, seenInsert, List.lookup, hne', Bool.or_false, ↓reduceIte]
      constructor
      · rintro ⟨s, hs⟩
        simp at hs
      · rintro (h | ⟨m', E', h, _⟩)
        · exact absurd h hid
        · cases h
    | some modName =>
      obtain ⟨p2, hp2, hne2⟩ := prepare_ok ext hn (extractParts modName).words true
      obtain ⟨m2, r2, hm2⟩ := mainPart_ok p2.words hne2
      obtain ⟨s2, hcf⟩ := checkFlat_nil ext id (extractParts modName) true p2 m2 r2 hp2 hm2
      have hse : singleExpected ext (extractParts modName) true = .ok (lower (m2 ++ p2.suffix)) := by
        simp [singleExpected, hp2, hm2]
      simp only [hcf]
      by_cases hid2 : id = lower (m2 ++ p2.suffix)
      · have hl : lower id = id := by rw [hid2, lower_idem]
        have e1 : (lower id != id) = false := by simp [hl]
        have e2 : (id != lower (m2 ++ p2.suffix)) = false := by simp [hid2]
        simp only [e1, e2, Bool.false_eq_true, ↓reduceIte, List.append_nil, finishRule]
        exact ⟨fun _ => Or.inr ⟨modName, _, rfl, hse, hid2⟩, fun _ => ⟨_, rfl⟩⟩
      · have e2 : (id != lower (m2 ++ p2.suffix)) = true := by simpa using hid2
        constructor
        · rintro ⟨s, hs⟩
          exfalso
          simp only [e2, ↓reduceIte] at hs
          -- the mod attempt failed, so its failures are part of the result
          cases hlow : (lower id != id) <;> simp [hlow, finishRule] at hs
        · rintro (h | ⟨m', E', h, hE, hidE⟩)
          · exact absurd h hid
          · cases h
            rw [hse] at hE
            cases hE
            exact absurd hidE hid2

end Gd.IdCheck
