import GdVerif.Lemmas.ValveKind
import GdVerif.Lemmas.Valve
/-
  The whole Valve query (default gathering settings) against a conforming server that answers each of the three
  requests at once with one unsplit datagram: the result is the response the SPEC entitles the client to.
  (The section parsers' field-by-field theorems are C02's; this file chains them through the request machinery.
  Used by the game wrappers that run `valve::query` themselves: The Ship, Battalion 1944.)
-/
namespace Gd.Valve
open Gd Gd.Valve.Spec

/-- a request answered at once by one unsplit, non-challenge datagram, through `retry_on_timeout` -/
theorem requestData_single (ext : Ext) (s : Sock) (hudp : s.tcp = false) (engine : Engine) (protocol retries : Nat)
    (req : Request) (kind : UInt8) (hk : kind.toNat ≠ 0x41) (body : Bytes) (w : Net) (rest : List Delivery)
    (hf : w.faults = [])
    (hq : w.conns.getD s.id [] = .data ([0xFF, 0xFF, 0xFF, 0xFF] ++ [kind] ++ body) :: rest)
    (hlen : ([0xFF, 0xFF, 0xFF, 0xFF] ++ [kind] ++ body).length ≤ PACKET_SIZE) :
    requestData ext s retries engine protocol req w
      = (.ok body,
         { w with conns := setAt w.conns s.id rest,
                  log := w.log ++ [.send s.id s.port (packetBytes req.kind req.defaultPayload) false,
                    .recv s.id (some PACKET_SIZE) (some ([0xFF, 0xFF, 0xFF, 0xFF] ++ [kind] ++ body).length)] }) :=
  retryOnTimeout_ok retries
    (requestImpl_single ext s hudp engine protocol req.kind req.defaultPayload kind hk body w rest hf hq hlen)

theorem parse_apply (p : Par α) (data : Bytes) (w : Net) : parse p data w = (p.run data, w) := rfl

/-- the three replies of a conforming server, each in one datagram -/
def singleScript (upper : Bool) (st : State) : List Delivery :=
  [.data (reply 0x49 (encSourceInfo upper st.info)), .data (reply 0x44 (encPlayers st.players)),
   .data (reply 0x45 (encRules st.rules))]

/-- what `expected` says for the default gathering settings -/
def expectedDefault (engine : Engine) (st : State) : Res Response :=
  if !appIdOk engine Gather.default st.info.appid then .err .badGame
  else .ok ⟨st.info, some st.players, some (expectedRules engine st.rules)⟩

theorem queryBody_single (ext : Ext) (s : Sock) (hudp : s.tcp = false) (engine : Engine) (he : engine ≠ .goldSrc true)
    (retries : Nat) (upper : Bool) (st : State)
    (hinfo : wfSourceInfo engine st.info = true)
    (hpn : st.players.length < 256) (hpl : ∀ p ∈ st.players, wfPlayer (engine == Engine.new 2400) p = true)
    (hrn : st.rules.length < 65536) (hrl : ∀ r ∈ st.rules, okStr r.1 = true ∧ okStr r.2 = true)
    (hrd : distinctKeys st.rules = true)
    (hl1 : (reply 0x49 (encSourceInfo upper st.info)).length ≤ PACKET_SIZE)
    (hl2 : (reply 0x44 (encPlayers st.players)).length ≤ PACKET_SIZE)
    (hl3 : (reply 0x45 (encRules st.rules)).length ≤ PACKET_SIZE)
    (w : Net) (rest : List Delivery) (hf : w.faults = []) (hopen : s.id < w.conns.length)
    (hq : w.conns.getD s.id [] = singleScript upper st ++ rest) :
    (queryBody ext s engine Gather.default retries w).1 = expectedDefault engine st := by
  -- info
  have hpi : parseInfo engine = parseSourceInfo engine := by
    unfold parseInfo
    split
    · exact absurd rfl he
    · rfl
  obtain ⟨w2, h1, hf2, hq2, hopen2⟩ : ∃ w2, getServerInfo ext s retries engine w = (.ok st.info, w2) ∧ w2.faults = []
      ∧ w2.conns.getD s.id [] = .data (reply 0x44 (encPlayers st.players)) :: .data (reply 0x45 (encRules st.rules)) :: rest
      ∧ s.id < w2.conns.length := by
    have r1 := requestData_single ext s hudp engine 0 retries .info 0x49 (by decide) (encSourceInfo upper st.info) w
      (.data (reply 0x44 (encPlayers st.players)) :: .data (reply 0x45 (encRules st.rules)) :: rest) hf
      (by rw [hq]; rfl) hl1
    refine ⟨(requestData ext s retries engine 0 .info w).2, ?_, ?_, ?_, ?_⟩
    · unfold getServerInfo
      rw [Q.bind_apply, r1]
      simp only [parse_apply, hpi, (decodesEnd_sourceInfo engine upper st.info hinfo).run]
    · rw [r1]; exact hf
    · rw [r1]; simp only [getD_setAt]; simp [hopen]
    · rw [r1]; simpa [setAt_length] using hopen
  unfold queryBody
  rw [Q.bind_apply, h1]
  simp only [expectedDefault]
  by_cases happ : appIdOk engine Gather.default st.info.appid = true
  · simp only [happ, Bool.not_true, Bool.false_eq_true, ↓reduceIte]
    -- players
    obtain ⟨w3, h2, hf3, hq3, _⟩ : ∃ w3, getServerPlayers ext s retries engine st.info.protocolVersion w2 = (.ok st.players, w3)
        ∧ w3.faults = [] ∧ w3.conns.getD s.id [] = .data (reply 0x45 (encRules st.rules)) :: rest
        ∧ s.id < w3.conns.length := by
      have r2 := requestData_single ext s hudp engine st.info.protocolVersion retries .players 0x44 (by decide)
        (encPlayers st.players) w2 (.data (reply 0x45 (encRules st.rules)) :: rest) hf2 hq2 hl2
      refine ⟨(requestData ext s retries engine st.info.protocolVersion .players w2).2, ?_, ?_, ?_, ?_⟩
      · unfold getServerPlayers
        rw [Q.bind_apply, r2]
        simp only [parse_apply, (decodes_players engine st.players hpn hpl).run]
      · rw [r2]; exact hf2
      · rw [r2]; simp only [getD_setAt]; simp [hopen2]
      · rw [r2]; simpa [setAt_length] using hopen2
    -- rules
    obtain ⟨w4, h3⟩ : ∃ w4, getServerRules ext s retries engine st.info.protocolVersion w3
        = (.ok (expectedRules engine st.rules), w4) := by
      have r3 := requestData_single ext s hudp engine st.info.protocolVersion retries .rules 0x45 (by decide)
        (encRules st.rules) w3 rest hf3 hq3 hl3
      refine ⟨(requestData ext s retries engine st.info.protocolVersion .rules w3).2, ?_⟩
      unfold getServerRules
      rw [Q.bind_apply, r3]
      simp only [parse_apply, (decodes_rules engine st.rules hrn hrl hrd).run]
    simp only [Gather.default, maybeGather, bind, Q.bind', h2, h3]
    rfl
  · have hf' : appIdOk engine Gather.default st.info.appid = false := by simpa using happ
    simp [hf', Q.fail]

/-- the whole query from the initial state: one socket, the three replies queued on it -/
theorem query_single (ext : Ext) (port : Nat) (engine : Engine) (he : engine ≠ .goldSrc true)
    (retries : Nat) (upper : Bool) (st : State)
    (hinfo : wfSourceInfo engine st.info = true)
    (hpn : st.players.length < 256) (hpl : ∀ p ∈ st.players, wfPlayer (engine == Engine.new 2400) p = true)
    (hrn : st.rules.length < 65536) (hrl : ∀ r ∈ st.rules, okStr r.1 = true ∧ okStr r.2 = true)
    (hrd : distinctKeys st.rules = true)
    (hl1 : (reply 0x49 (encSourceInfo upper st.info)).length ≤ PACKET_SIZE)
    (hl2 : (reply 0x44 (encPlayers st.players)).length ≤ PACKET_SIZE)
    (hl3 : (reply 0x45 (encRules st.rules)).length ≤ PACKET_SIZE) :
    (query ext port engine Gather.default retries (Net.init [.opened (singleScript upper st)] [])).1
      = expectedDefault engine st := by
  rw [query_eq, Q.bind_apply]
  have ho : openSock false port (Net.init [.opened (singleScript upper st)] [])
      = (.ok ⟨0, port, false⟩, ⟨[], [singleScript upper st], [], [.opened 0 false port false]⟩) := rfl
  rw [ho]
  exact queryBody_single ext ⟨0, port, false⟩ rfl engine he retries upper st hinfo hpn hpl hrn hrl hrd hl1 hl2 hl3
    ⟨[], [singleScript upper st], [], [.opened 0 false port false]⟩ [] rfl (by simp) (by simp)

/-- `expectedDefault` is the SPEC's `expected` for any configuration with this engine and the default gathering -/
theorem expected_default (cfg : Config) (st : State) (hg : cfg.gather = Gather.default) :
    Valve.Spec.expected cfg st = expectedDefault cfg.engine st := by
  unfold Valve.Spec.expected expectedDefault
  rw [hg]
  rfl

/-- the outcome of a query followed by a pure step -/
theorem bind_lift_fst {α β : Type} (q : Q α) (g : α → Res β) (w : Net) :
    ((q >>= fun r => Q.lift (g r)) w).1 = ((q w).1 >>= g) := by
  rw [Q.bind_apply]
  cases h : q w with
  | mk res w' => cases res <;> rfl

end Gd.Valve
