import GdVerif.Lemmas.QLogic
import GdVerif.Lemmas.VarInt
import GdVerif.Proto.Minecraft
/-
  Crash-freedom of the Minecraft model: every parser is `Safe`, every query is crash-free on every
  transport state, and everything it logs is of the expected shape (used by C01 and C09).
-/
namespace Gd.Mc
open Gd

/-! ### pure (`Res`) computations that cannot crash -/

theorem okOr_ne (o : Option α) (k : ErrKind) : okOr o k ≠ .crash := by
  cases o <;> simp [okOr]

theorem Res.bind_ne {r : Res α} {f : α → Res β} (hr : r ≠ .crash) (hf : ∀ a, f a ≠ .crash) : (r >>= f) ≠ .crash := by
  cases r with
  | ok a => exact hf a
  | err k => simp
  | crash => exact absurd rfl hr

theorem errorByExpectedSize_ne (a b : Nat) : errorByExpectedSize a b ≠ .crash := by
  unfold errorByExpectedSize
  split
  · simp
  · split <;> simp

theorem errorByExpectedSize_ok {a b : Nat} (h : errorByExpectedSize a b = .ok ()) : b = a := by
  unfold errorByExpectedSize at h
  split at h
  · cases h
  · split at h
    · cases h
    · omega

theorem extractPlayer_ne (p : Json) : extractPlayer p ≠ .crash := by
  unfold extractPlayer
  exact Res.bind_ne (okOr_ne _ _) fun _ => Res.bind_ne (okOr_ne _ _) fun _ => by simp

theorem extractPlayers_ne (ps : List Json) : extractPlayers ps ≠ .crash := by
  induction ps with
  | nil => simp [extractPlayers]
  | cons p r ih =>
    simp only [extractPlayers]
    exact Res.bind_ne (extractPlayer_ne p) fun _ => Res.bind_ne ih fun _ => by simp

theorem extractSample_ne (s : Json) : extractSample s ≠ .crash := by
  unfold extractSample
  split
  · simp
  · exact Res.bind_ne (okOr_ne _ _) fun _ => Res.bind_ne (extractPlayers_ne _) fun _ => by simp

/-- whatever JSON value the external parser returns, the field extraction does not crash -/
theorem javaExtract_ne (ext : Ext) (v : Json) : javaExtract ext v ≠ .crash := by
  unfold javaExtract
  exact Res.bind_ne (okOr_ne _ _) fun _ => Res.bind_ne (okOr_ne _ _) fun _ => Res.bind_ne (okOr_ne _ _) fun _ =>
    Res.bind_ne (okOr_ne _ _) fun _ => Res.bind_ne (extractSample_ne _) fun _ => by simp

theorem javaDecode_ne (ext : Ext) (text : Bytes) : javaDecode ext text ≠ .crash := by
  unfold javaDecode
  split
  · simp
  · exact javaExtract_ne ext _

theorem fromBedrock_ne (v : Bytes) : GameMode.fromBedrock v ≠ .crash := by
  unfold GameMode.fromBedrock
  repeat (first | split | simp)

theorem bedrockGameMode_ne (o : Option Bytes) : bedrockGameMode o ≠ .crash := by
  cases o with
  | none => simp [bedrockGameMode]
  | some v =>
    simp only [bedrockGameMode]
    exact Res.bind_ne (fromBedrock_ne v) fun _ => by simp

theorem bedrockStatus_ne (s : Bytes) : bedrockStatus s ≠ .crash := by
  unfold bedrockStatus
  split
  · exact Res.bind_ne (okOr_ne _ _) fun _ => Res.bind_ne (okOr_ne _ _) fun _ => Res.bind_ne (bedrockGameMode_ne _) fun _ => by simp
  · simp

/-! ### parsers -/

theorem safe_remainingBytes : Safe remainingBytes := fun _ => rfl

theorem Safe.lift_ne' (r : Res α) (h : r ≠ .crash) : Safe (Par.lift r) := by
  apply Safe.lift
  cases r <;> simp_all [Res.isCrash]

/-- running a safe parser on its own packet does not crash -/
theorem run_ne {p : Par α} (hp : Safe p) (data : Bytes) : p.run data ≠ .crash := by
  have := hp (Buf.new data)
  unfold Par.run
  cases h : p (Buf.new data) with
  | ok x => simp
  | err k => simp
  | crash => rw [h] at this; exact this.elim

theorem safe_javaUnframe : Safe javaUnframe := by
  unfold javaUnframe
  exact Safe.bind safe_getVarint fun _ => safe_remainingBytes

theorem safe_javaStatusText : Safe javaStatusText := by
  unfold javaStatusText
  refine Safe.bind safe_getVarint fun _ => ?_
  split
  · exact Safe.fail _
  · exact safe_getString

theorem safe_javaParse (ext : Ext) : Safe (javaParse ext) := by
  unfold javaParse
  exact Safe.bind safe_javaStatusText fun _ => Safe.lift_ne' _ (javaDecode_ne ext _)

theorem safe_bedrockBody (n : Nat) : Safe (bedrockBody n) := by
  unfold bedrockBody
  exact Safe.bind safe_remainingLength fun _ =>
    Safe.bind (Safe.lift_ne' _ (errorByExpectedSize_ne _ _)) fun _ =>
    Safe.bind safe_readCStr fun _ => Safe.lift_ne' _ (bedrockStatus_ne _)

theorem safe_bedrockLength : Safe bedrockLength := by
  unfold bedrockLength
  exact Safe.bind (safe_switchEndianChunk _) fun _ => Safe.lift_ne' _ (run_ne (safe_readUnsigned _ _) _)

theorem safe_bedrockParse : Safe bedrockParse := by
  unfold bedrockParse
  refine Safe.bind safe_readU8 fun _ => ?_
  split
  · exact Safe.fail _
  refine Safe.bind (safe_readUnsigned _ _) fun _ => ?_
  split
  · exact Safe.fail _
  refine Safe.bind (safe_moveCursor _) fun _ => Safe.bind (safe_readUnsigned _ _) fun _ => ?_
  split
  · exact Safe.fail _
  refine Safe.bind (safe_readUnsigned _ _) fun _ => ?_
  split
  · exact Safe.fail _
  exact Safe.bind safe_bedrockLength fun _ => safe_bedrockBody _

theorem safe_legacyHeader (n : Nat) : Safe (legacyHeader n) := by
  unfold legacyHeader
  refine Safe.bind safe_readU8 fun _ => ?_
  split
  · exact Safe.fail _
  · exact Safe.bind (safe_readUnsigned _ _) fun _ => Safe.lift_ne' _ (errorByExpectedSize_ne _ _)

theorem safe_isProtocol16 : Safe isProtocol16 := by
  unfold isProtocol16
  refine Safe.bind safe_remainingBytes fun _ => ?_
  dsimp only
  split
  · exact Safe.bind (safe_moveCursor _) fun _ => Safe.pure _
  · exact Safe.pure _

theorem safe_legacy16Response : Safe legacy16Response := by
  unfold legacy16Response
  exact Safe.bind (safe_readUtf16 _) fun _ => Safe.bind (Safe.lift_ne' _ (okOr_ne _ _)) fun _ =>
    Safe.bind (safe_readUtf16 _) fun _ => Safe.bind (safe_readUtf16 _) fun _ =>
    Safe.bind (safe_readUtf16 _) fun _ => Safe.bind (Safe.lift_ne' _ (okOr_ne _ _)) fun _ =>
    Safe.bind (safe_readUtf16 _) fun _ => Safe.bind (Safe.lift_ne' _ (okOr_ne _ _)) fun _ => Safe.pure _

/-- the `split[i]` indexing after `error_by_expected_size(3, split.len())` is in bounds -/
theorem safe_legacySplitResponse (g : LegacyGroup) (v : Bytes) : Safe (legacySplitResponse g v) := by
  unfold legacySplitResponse
  refine Safe.bind (safe_readUtf16 _) fun s => ?_
  intro b
  refine Post.bind (Safe.lift_ne' _ (errorByExpectedSize_ne _ _) b) ?_
  intro u b1 hsz
  have hlen : (splitChar 0xA7 s).length = 3 := by
    unfold Par.lift at hsz
    cases he : errorByExpectedSize 3 (splitChar 0xA7 s).length with
    | ok x => exact errorByExpectedSize_ok he
    | err k => rw [he] at hsz; cases hsz
    | crash => rw [he] at hsz; cases hsz
  match hs : splitChar 0xA7 s, hlen with
  | [d, o, m], _ =>
    simp only
    exact (Safe.bind (Safe.lift_ne' _ (okOr_ne _ _)) fun _ => Safe.bind (Safe.lift_ne' _ (okOr_ne _ _)) fun _ => Safe.pure _) b1

theorem safe_legacyParse (g : LegacyGroup) (n : Nat) : Safe (legacyParse g n) := by
  cases g with
  | v1_6 =>
    simp only [legacyParse, legacy16Parse]
    refine Safe.bind (safe_legacyHeader n) fun _ => Safe.bind safe_isProtocol16 fun _ => ?_
    split
    · exact Safe.fail _
    · exact safe_legacy16Response
  | v1_4 =>
    simp only [legacyParse, legacy14Parse]
    refine Safe.bind (safe_legacyHeader n) fun _ => Safe.bind safe_isProtocol16 fun _ => ?_
    split
    · exact safe_legacy16Response
    · exact safe_legacySplitResponse _ _
  | vb1_8 =>
    simp only [legacyParse, legacyB18Parse]
    exact Safe.bind (safe_legacyHeader n) fun _ => safe_legacySplitResponse _ _

end Gd.Mc

/-! ### queries: crash-freedom and the shape of everything logged -/

namespace Gd.Mc
open Gd

/-- what a unit confined to socket `s` may log after the socket exists: sends of allowed requests to the
socket's port and receives with the default buffer -/
def EvOk (allowed : Bytes → Prop) (s : Sock) : Ev → Prop
  | .opened _ _ _ _ => False
  | .send c p d _ => c = s.id ∧ p = s.port ∧ allowed d
  | .recv c size _ => c = s.id ∧ size = none

/-- what a whole unit (socket `id` of the given transport to `port`) may log -/
def UnitEv (tcp : Bool) (port : Nat) (allowed : Bytes → Prop) (id : Nat) : Ev → Prop
  | .opened c t p _ => c = id ∧ t = tcp ∧ p = port
  | .send c p d _ => c = id ∧ p = port ∧ allowed d
  | .recv c size _ => c = id ∧ size = none

/-- open a socket, then run a body that is safe on that socket -/
theorem openThen_safe {α : Type} (tcp : Bool) (port : Nat) (allowed : Bytes → Prop) (body : Sock → Q α)
    (hbody : ∀ id, QSafe ⟨id, port, tcp⟩ (EvOk allowed ⟨id, port, tcp⟩) (body ⟨id, port, tcp⟩)) (w : Net) :
    ((openSock tcp port >>= body) w).1 ≠ .crash
    ∧ ∃ added, ((openSock tcp port >>= body) w).2.log = w.log ++ added
        ∧ ∀ e ∈ added, UnitEv tcp port allowed w.conns.length e := by
  rw [Q.bind_apply]
  have lift : ∀ e, EvOk allowed ⟨w.conns.length, port, tcp⟩ e → UnitEv tcp port allowed w.conns.length e := by
    intro e he
    cases e with
    | opened => exact he.elim
    | send => exact he
    | recv => exact he
  have fin : ∀ (w0 : Net) (ev : Ev), w0.log = w.log ++ [ev] → UnitEv tcp port allowed w.conns.length ev →
      IsOpen ⟨w.conns.length, port, tcp⟩ w0 →
      (body ⟨w.conns.length, port, tcp⟩ w0).1 ≠ .crash
      ∧ ∃ added, (body ⟨w.conns.length, port, tcp⟩ w0).2.log = w.log ++ added
        ∧ ∀ e ∈ added, UnitEv tcp port allowed w.conns.length e := by
    intro w0 ev hlog0 hev hop
    obtain ⟨h1, h2⟩ := hbody w.conns.length w0 hop
    obtain ⟨added, hlog, hall⟩ := h2.log
    refine ⟨h1, ev :: added, by rw [hlog, hlog0]; simp, ?_⟩
    intro e he
    rcases List.mem_cons.mp he with rfl | he'
    · exact hev
    · exact lift e (hall e he')
  cases hp : w.pending with
  | nil =>
    simp only [openSock, hp]
    exact fin _ _ rfl ⟨rfl, rfl, rfl⟩ (by simp [IsOpen])
  | cons c rest =>
    cases c with
    | opened ds =>
      simp only [openSock, hp]
      exact fin _ _ rfl ⟨rfl, rfl, rfl⟩ (by simp [IsOpen])
    | refused =>
      simp only [openSock, hp]
      refine ⟨by simp, [_], rfl, ?_⟩
      intro e he
      rcases List.mem_singleton.mp he with rfl
      exact ⟨rfl, rfl, rfl⟩

/-! #### Java -/

/-- the three packets of a status query, as the model frames them -/
def JavaAllowed (st : RequestSettings) (port : Nat) (d : Bytes) : Prop :=
  (∃ payload, javaHandshakePayload st port = .ok payload ∧ d = asVarint (payload.length % 2 ^ 32) ++ payload)
  ∨ d = asVarint (1 % 2 ^ 32) ++ [0x00] ∨ d = asVarint (1 % 2 ^ 32) ++ [0x01]

theorem qsafe_javaReceive (s : Sock) (allowed : Bytes → Prop) : QSafe s (EvOk allowed s) (javaReceive s) := by
  unfold javaReceive
  exact QSafe.bind (QSafe.recv s _ none fun _ => ⟨rfl, rfl⟩) fun _ => QSafe.parse _ _ safe_javaUnframe _

theorem qsafe_javaSendHandshake (s : Sock) (st : RequestSettings) :
    QSafe s (EvOk (JavaAllowed st s.port) s) (javaSendHandshake s st) := by
  unfold javaSendHandshake
  cases h : javaHandshakePayload st s.port with
  | ok payload =>
    show QSafe s _ (javaSend s payload)
    exact QSafe.send s _ _ fun _ => ⟨rfl, rfl, Or.inl ⟨payload, h, rfl⟩⟩
  | err k => exact QSafe.fail _ _ k
  | crash =>
    exfalso
    unfold javaHandshakePayload asString at h
    split at h <;> cases h

theorem qsafe_javaGetInfoImpl (ext : Ext) (s : Sock) (st : RequestSettings) :
    QSafe s (EvOk (JavaAllowed st s.port) s) (javaGetInfoImpl ext s st) := by
  unfold javaGetInfoImpl
  refine QSafe.bind (qsafe_javaSendHandshake s st) fun _ => ?_
  refine QSafe.bind (QSafe.send s _ _ fun _ => ⟨rfl, rfl, Or.inr (Or.inl rfl)⟩) fun _ => ?_
  refine QSafe.bind (QSafe.send s _ _ fun _ => ⟨rfl, rfl, Or.inr (Or.inr rfl)⟩) fun _ => ?_
  exact QSafe.bind (qsafe_javaReceive s _) fun _ => QSafe.parse _ _ (safe_javaParse ext) _

theorem queryJava_safe (ext : Ext) (port : Nat) (st : RequestSettings) (r : Nat) (w : Net) :
    (queryJava ext port st r w).1 ≠ .crash
    ∧ ∃ added, (queryJava ext port st r w).2.log = w.log ++ added
        ∧ ∀ e ∈ added, UnitEv true port (JavaAllowed st port) w.conns.length e :=
  openThen_safe true port (JavaAllowed st port) (fun s => retryOnTimeout r (javaGetInfoImpl ext s st))
    (fun id => QSafe.retry (qsafe_javaGetInfoImpl ext ⟨id, port, true⟩ st) r) w

/-! #### Bedrock -/

theorem qsafe_bedrockGetInfoImpl (s : Sock) : QSafe s (EvOk (· = bedrockRequest) s) (bedrockGetInfoImpl s) := by
  unfold bedrockGetInfoImpl
  exact QSafe.bind (QSafe.send s _ _ fun _ => ⟨rfl, rfl, rfl⟩) fun _ =>
    QSafe.bind (QSafe.recv s _ none fun _ => ⟨rfl, rfl⟩) fun _ => QSafe.parse _ _ safe_bedrockParse _

theorem queryBedrock_safe (port r : Nat) (w : Net) :
    (queryBedrock port r w).1 ≠ .crash
    ∧ ∃ added, (queryBedrock port r w).2.log = w.log ++ added
        ∧ ∀ e ∈ added, UnitEv false port (· = bedrockRequest) w.conns.length e :=
  openThen_safe false port _ (fun s => retryOnTimeout r (bedrockGetInfoImpl s))
    (fun id => QSafe.retry (qsafe_bedrockGetInfoImpl ⟨id, port, false⟩) r) w

/-! #### legacy -/

theorem qsafe_legacyGetInfoImpl (g : LegacyGroup) (s : Sock) :
    QSafe s (EvOk (· = legacyRequest g) s) (legacyGetInfoImpl g s) := by
  unfold legacyGetInfoImpl
  exact QSafe.bind (QSafe.send s _ _ fun _ => ⟨rfl, rfl, rfl⟩) fun _ =>
    QSafe.bind (QSafe.recv s _ none fun _ => ⟨rfl, rfl⟩) fun d => QSafe.parse _ _ (safe_legacyParse g _) _

theorem queryLegacySpecific_safe (g : LegacyGroup) (port r : Nat) (w : Net) :
    (queryLegacySpecific g port r w).1 ≠ .crash
    ∧ ∃ added, (queryLegacySpecific g port r w).2.log = w.log ++ added
        ∧ ∀ e ∈ added, UnitEv true port (· = legacyRequest g) w.conns.length e :=
  openThen_safe true port _ (fun s => retryOnTimeout r (legacyGetInfoImpl g s))
    (fun id => QSafe.retry (qsafe_legacyGetInfoImpl g ⟨id, port, true⟩) r) w

/-! #### the fall-through queries -/

/-- crash-free on every transport state, and everything logged satisfies `P` -/
def LogSafe (P : Ev → Prop) (q : Q α) : Prop :=
  ∀ w, (q w).1 ≠ .crash ∧ ∃ added, (q w).2.log = w.log ++ added ∧ ∀ e ∈ added, P e

theorem LogSafe.fail (P : Ev → Prop) (k : ErrKind) : LogSafe P (Q.fail k : Q α) :=
  fun w => ⟨by simp [Q.fail], [], by simp [Q.fail], by simp⟩

theorem LogSafe.orElse {P : Ev → Prop} {first : Q α} {f : α → β} {rest : Q β}
    (h1 : LogSafe P first) (h2 : LogSafe P rest) : LogSafe P (orElse first f rest) := by
  intro w
  obtain ⟨hc, added, hlog, hall⟩ := h1 w
  unfold Mc.orElse
  cases hf : first w with
  | mk res w1 =>
    rw [hf] at hc hlog
    cases res with
    | ok a => exact ⟨by simp, added, hlog, hall⟩
    | crash => exact absurd rfl hc
    | err k =>
      obtain ⟨hc2, added2, hlog2, hall2⟩ := h2 w1
      refine ⟨hc2, added ++ added2, ?_, ?_⟩
      · show (rest w1).2.log = _
        rw [hlog2]
        simp only at hlog
        rw [hlog, List.append_assoc]
      · intro e he
        rcases List.mem_append.mp he with h | h
        · exact hall e h
        · exact hall2 e h

/-- what the auto-detecting query may log: sockets to the given port only, requests of the five variants
only, receives with the default buffer -/
def AutoEv (port : Nat) (allowed : Bytes → Prop) : Ev → Prop
  | .opened _ _ p _ => p = port
  | .send _ p d _ => p = port ∧ allowed d
  | .recv _ size _ => size = none

theorem UnitEv.toAuto {tcp : Bool} {port : Nat} {a b : Bytes → Prop} {id : Nat} {e : Ev}
    (h : UnitEv tcp port a id e) (hab : ∀ d, a d → b d) : AutoEv port b e := by
  cases e with
  | opened c t p r => exact h.2.2
  | send c p d f => exact ⟨h.2.1, hab d h.2.2⟩
  | recv c s g => exact h.2

def LegacyAllowed (d : Bytes) : Prop := ∃ g, d = legacyRequest g

def AutoAllowed (st : RequestSettings) (port : Nat) (d : Bytes) : Prop :=
  JavaAllowed st port d ∨ d = bedrockRequest ∨ LegacyAllowed d

theorem logSafe_of_unit {tcp : Bool} {port : Nat} {a b : Bytes → Prop} {q : Q α}
    (h : ∀ w, (q w).1 ≠ .crash ∧ ∃ added, (q w).2.log = w.log ++ added ∧ ∀ e ∈ added, UnitEv tcp port a w.conns.length e)
    (hab : ∀ d, a d → b d) : LogSafe (AutoEv port b) q := by
  intro w
  obtain ⟨hc, added, hlog, hall⟩ := h w
  exact ⟨hc, added, hlog, fun e he => (hall e he).toAuto hab⟩

theorem queryLegacy_safe (port r : Nat) : LogSafe (AutoEv port LegacyAllowed) (queryLegacy port r) := by
  unfold queryLegacy
  exact LogSafe.orElse (logSafe_of_unit (queryLegacySpecific_safe .v1_6 port r) fun d h => ⟨_, h⟩) <|
    LogSafe.orElse (logSafe_of_unit (queryLegacySpecific_safe .v1_4 port r) fun d h => ⟨_, h⟩) <|
    LogSafe.orElse (logSafe_of_unit (queryLegacySpecific_safe .vb1_8 port r) fun d h => ⟨_, h⟩) <|
    LogSafe.fail _ _

theorem LogSafe.mono {P Q' : Ev → Prop} {q : Q α} (h : LogSafe P q) (hpq : ∀ e, P e → Q' e) : LogSafe Q' q := by
  intro w
  obtain ⟨hc, added, hlog, hall⟩ := h w
  exact ⟨hc, added, hlog, fun e he => hpq e (hall e he)⟩

theorem AutoEv.mono {port : Nat} {a b : Bytes → Prop} (hab : ∀ d, a d → b d) (e : Ev) (h : AutoEv port a e) : AutoEv port b e := by
  cases e with
  | opened c t p r => exact h
  | send c p d f => exact ⟨h.1, hab d h.2⟩
  | recv c s g => exact h

theorem queryAuto_safe (ext : Ext) (port : Nat) (st : RequestSettings) (r : Nat) :
    LogSafe (AutoEv port (AutoAllowed st port)) (queryAuto ext port st r) := by
  unfold queryAuto
  exact LogSafe.orElse (logSafe_of_unit (queryJava_safe ext port st r) fun d h => Or.inl h) <|
    LogSafe.orElse (logSafe_of_unit (queryBedrock_safe port r) fun d h => Or.inr (Or.inl h)) <|
    LogSafe.orElse ((queryLegacy_safe port r).mono (AutoEv.mono fun d h => Or.inr (Or.inr h))) <|
    LogSafe.fail _ _

end Gd.Mc
