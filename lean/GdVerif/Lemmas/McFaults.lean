import GdVerif.Lemmas.McUnits
import GdVerif.Lemmas.QStepsN
import GdVerif.Spec.McFaults
/-
  The Minecraft units in the shape of `Lemmas/QStepsN.lean` (`queryN`: open a socket, `retry_on_timeout` around "all
  requests, one read, decode"), and what their decoders make of the malformed replies of `Spec/McFaults.lean`.
-/
namespace Gd.Mc
open Gd Gd.Mc.Spec Gd.Faults

/-! ### the units are `exchangeN` -/

theorem exchangeN_one {α : Type} (s : Sock) (a : Bytes) (size : Option Nat) (check : Bytes → Res α) :
    exchangeN s [a] size check = (send s a >>= fun _ => recv s size >>= fun d => Q.lift (check d)) := by
  funext w
  simp only [exchangeN, sendAll, Q.bind_apply]
  cases send s a w with
  | mk r w1 => cases r <;> rfl

theorem exchangeN_three {α : Type} (s : Sock) (a b c : Bytes) (size : Option Nat) (check : Bytes → Res α) :
    exchangeN s [a, b, c] size check
      = (send s a >>= fun _ => send s b >>= fun _ => send s c >>= fun _ => recv s size >>= fun d => Q.lift (check d)) := by
  funext w
  simp only [exchangeN, sendAll, Q.bind_apply]
  cases send s a w with
  | mk r w1 =>
    cases r with
    | ok u =>
      simp only
      cases send s b w1 with
      | mk r2 w2 =>
        cases r2 with
        | ok u2 =>
          simp only
          cases send s c w2 with
          | mk r3 w3 => cases r3 <;> rfl
        | err k => rfl
        | crash => rfl
    | err k => rfl
    | crash => rfl

theorem bedrock_exchangeN (s : Sock) : bedrockGetInfoImpl s = exchangeN s [bedrockRequest] none bedrockParse.run := by
  rw [exchangeN_one]; rfl

def legacyCheck (g : LegacyGroup) (d : Bytes) : Res JavaResponse := (legacyParse g d.length).run d

theorem legacy_exchangeN (g : LegacyGroup) (s : Sock) :
    legacyGetInfoImpl g s = exchangeN s [legacyRequest g] none (legacyCheck g) := by
  rw [exchangeN_one]; rfl

theorem java_exchangeN (ext : Ext) (s : Sock) (st : RequestSettings) (payload : Bytes)
    (hh : javaHandshakePayload st s.port = .ok payload) :
    javaGetInfoImpl ext s st = exchangeN s (javaReqs payload) none (javaDec ext) := by
  unfold javaReqs
  rw [exchangeN_three]
  unfold javaGetInfoImpl javaSendHandshake javaSendStatusRequest javaSendPingRequest javaSend
  rw [hh, ← javaTail_eq]
  rfl

theorem queryBedrock_queryN (port r : Nat) :
    queryBedrock port r = queryN false port r [bedrockRequest] none bedrockParse.run := by
  unfold queryN
  simp only [← bedrock_exchangeN]
  rfl

theorem queryLegacy_queryN (g : LegacyGroup) (port r : Nat) :
    queryLegacySpecific g port r = queryN true port r [legacyRequest g] none (legacyCheck g) := by
  unfold queryN
  simp only [← legacy_exchangeN]
  rfl

/-- what follows `openSock` only matters on sockets to that port -/
theorem openSock_congr {α : Type} (tcp : Bool) (port : Nat) (f g : Sock → Q α)
    (h : ∀ s : Sock, s.port = port → f s = g s) : (openSock tcp port >>= f) = (openSock tcp port >>= g) := by
  funext w
  simp only [Q.bind_apply, openSock]
  cases w.pending with
  | nil => simp only; rw [h _ rfl]
  | cons c rest =>
    cases c with
    | refused => rfl
    | opened ds => simp only; rw [h _ rfl]

theorem queryJava_queryN (ext : Ext) (port : Nat) (st : RequestSettings) (r : Nat) (hh : st.hostname.length < 2 ^ 31) :
    queryJava ext port st r = queryN true port r (javaRequests st port) none (javaDec ext) := by
  rw [← javaReqs_eq st port hh, queryJava_eq]
  unfold queryN
  apply openSock_congr
  intro s hs
  rw [java_exchangeN ext s st _ (by rw [hs]; exact javaHandshakePayload_ok st port hh)]

/-! ### malformed replies -/

theorem toNat_ne_of_ne {b c : UInt8} (h : b ≠ c) : b.toNat ≠ c.toNat := fun e => h (UInt8.toNat_inj.mp e)

theorem bedrock_malformed (m : Bytes) (h : malformedBedrock m = true) :
    bedrockParse.run m = .err (malformedBedrockError m) := by
  unfold Par.run bedrockParse
  cases m with
  | nil =>
    rw [Par.bind_err (k := .packetUnderflow) (by simp [readU8, readUnsigned, Buf.new, Buf.remaining])]
    rfl
  | cons b r =>
    have hb : b ≠ 0x1c := by simpa [malformedBedrock] using h
    obtain ⟨h1, _⟩ := readU8_cons b r (Buf.new (b :: r)) rfl
    rw [Par.bind_ok h1]
    have hne : (b.toNat != 0x1c) = true := by
      simp only [bne_iff_ne, ne_eq]
      exact toNat_ne_of_ne hb
    simp [hne, malformedBedrockError]

theorem malformedBedrockError_not_timeout (m : Bytes) : (malformedBedrockError m).isTimeout = false := by
  unfold malformedBedrockError; split <;> rfl

theorem legacyHeader_malformed (m : Bytes) (h : malformedLegacy m = true) :
    legacyHeader m.length (Buf.new m) = .err (malformedLegacyError m) := by
  unfold legacyHeader
  cases m with
  | nil =>
    rw [Par.bind_err (k := .packetUnderflow) (by simp [readU8, readUnsigned, Buf.new, Buf.remaining])]
    rfl
  | cons b r =>
    obtain ⟨h1, hr1⟩ := readU8_cons b r (Buf.new (b :: r)) rfl
    rw [Par.bind_ok h1]
    by_cases hb : b = 0xFF
    · subst hb
      have hlen : r.length < 2 := by
        simp only [malformedLegacy, List.head?_cons, bne_self_eq_false, Bool.false_or, List.length_cons,
          decide_eq_true_eq] at h
        omega
      have hu : readUnsigned .big 2 ((Buf.new (0xFF :: r)).advance 1) = .err .packetUnderflow := by
        simp only [readUnsigned, Buf.remaining, hr1]
        rw [if_pos hlen]
      simp only [show (0xFF : UInt8).toNat = 0xFF from rfl, bne_self_eq_false, Bool.false_eq_true, ↓reduceIte]
      rw [Par.bind_err hu]
      rfl
    · have hne : (b.toNat != 0xFF) = true := by
        simp only [bne_iff_ne, ne_eq]
        exact toNat_ne_of_ne hb
      have hne' : (b != 0xFF) = true := by simpa using hb
      simp [hne, malformedLegacyError, hne']

theorem legacy_malformed (g : LegacyGroup) (m : Bytes) (h : malformedLegacy m = true) :
    legacyCheck g m = .err (malformedLegacyError m) := by
  have hh := legacyHeader_malformed m h
  unfold legacyCheck Par.run
  cases g <;> simp only [legacyParse, legacy16Parse, legacy14Parse, legacyB18Parse] <;> rw [Par.bind_err hh]

theorem malformedLegacyError_not_timeout (m : Bytes) : (malformedLegacyError m).isTimeout = false := by
  unfold malformedLegacyError
  split
  · rfl
  · split <;> rfl

/-- the stream ends inside a VarInt: the next byte is missing -/
theorem getVarintFrom_short : ∀ (m : Bytes) (fuel i acc : Nat) (b : Buf), b.rest = m → m.length < fuel →
    i + m.length ≤ 4 → (∀ x ∈ m, x.toNat &&& 0x80 ≠ 0) → getVarintFrom fuel i acc b = .err .packetUnderflow := by
  intro m
  induction m with
  | nil =>
    intro fuel i acc b hr hf _ _
    obtain ⟨f, rfl⟩ : ∃ f, fuel = f + 1 := ⟨fuel - 1, by simp at hf; omega⟩
    unfold getVarintFrom
    rw [Par.bind_err (k := .packetUnderflow) (by simp [readU8, readUnsigned, Buf.remaining, hr])]
  | cons x r ih =>
    intro fuel i acc b hr hf hi hall
    obtain ⟨f, rfl⟩ : ∃ f, fuel = f + 1 := ⟨fuel - 1, by simp at hf; omega⟩
    simp only [List.length_cons] at hf hi
    obtain ⟨acc', e, hr'⟩ := getVarintFrom_contByte f i acc x r b (hall x (by simp)) (by omega) hr
    rw [e]
    exact ih f (i + 1) acc' _ hr' (by omega) (by omega) (fun y hy => hall y (by simp [hy]))

theorem java_malformed (ext : Ext) (m : Bytes) (h : malformedJava m = true) : javaDec ext m = .err .packetUnderflow := by
  simp only [malformedJava, Bool.and_eq_true, decide_eq_true_eq, List.all_eq_true, bne_iff_ne, ne_eq] at h
  have hv : getVarint (Buf.new m) = .err .packetUnderflow :=
    getVarintFrom_short m 5 0 0 (Buf.new m) rfl (by omega) (by omega) h.2
  unfold javaDec Par.run javaUnframe
  rw [Par.bind_err hv]
  rfl

end Gd.Mc
