import GdVerif.Lemmas.Http
/-
  The IPv6 round trip of `HttpClient::new`: the text `Display for Ipv6Addr` prints (model: `showIpv6`), put in brackets, is read
  back by the `url` crate's `parse_ipv6addr` (model: `parseIpv6`) as the same eight segments — for every address.
  Ingredients: hex printing / reading of a segment, the parser's loop over runs of pieces up to the end or up to a `::`,
  the dotted-quad tail of IPv4-mapped addresses, the zero run `Display` compresses (its correctness is a statement about the
  256 zero / non-zero patterns of eight segments, checked by `decide`).
-/
namespace Gd.Http

def isLowerHex (b : UInt8) : Bool := isDigit b || inRange b 97 102

/-- value of a string of hex digits -/
def hexValue (ds : Bytes) : Nat := ds.foldl (fun acc b => acc * 16 + ((hexVal (Char.ofNat b.toNat)).getD 0)) 0

theorem isLowerHex_hexVal : ∀ b : UInt8, isLowerHex b = true → ∃ d, hexVal (Char.ofNat b.toNat) = some d ∧ d < 16 :=
  forall_uint8 (by set_option maxRecDepth 100000 in decide)

theorem hexDigit_spec : ∀ d, d < 16 → isLowerHex (hexLowerDigit d) = true ∧ hexVal (Char.ofNat (hexLowerDigit d).toNat) = some d := by decide

theorem hexLowerAux_succ (f n : Nat) : hexLowerAux (f + 1) n
    = if n < 16 then [hexLowerDigit (n % 16)] else hexLowerAux f (n / 16) ++ [hexLowerDigit (n % 16)] := rfl

theorem hexValue_append (a : Bytes) (b : UInt8) : hexValue (a ++ [b]) = hexValue a * 16 + (hexVal (Char.ofNat b.toNat)).getD 0 := by
  simp [hexValue, List.foldl_append]

theorem hexLowerAux_spec (f : Nat) : ∀ n, n < 16 ^ f → 0 < f →
    (hexLowerAux f n).all isLowerHex = true ∧ hexLowerAux f n ≠ [] ∧ hexValue (hexLowerAux f n) = n ∧ (hexLowerAux f n).length ≤ f := by
  induction f with
  | zero => intro n _ h; omega
  | succ f ih =>
    intro n hn _
    have hd := hexDigit_spec (n % 16) (Nat.mod_lt _ (by omega))
    rw [hexLowerAux_succ]
    generalize hexLowerDigit (n % 16) = c at hd ⊢
    by_cases h16 : n < 16
    · simp only [h16, if_true]
      have : n % 16 = n := Nat.mod_eq_of_lt h16
      rw [this] at hd
      refine ⟨by simp [hd.1], by simp, ?_, by simp⟩
      simp [hexValue, hd.2]
    · simp only [h16, if_false]
      have hf : 0 < f := by
        cases f with
        | zero => simp at hn; omega
        | succ f => omega
      have hlt : n / 16 < 16 ^ f := by
        rw [Nat.pow_succ] at hn
        exact Nat.div_lt_of_lt_mul (by omega)
      obtain ⟨h1, h2, h3, h4⟩ := ih (n / 16) hlt hf
      refine ⟨by simp [List.all_append, h1, hd.1], by simp, ?_, by simp; omega⟩
      rw [hexValue_append, h3, hd.2]
      simp
      omega

theorem lt_pow_succ_self (n : Nat) : n < 16 ^ (n + 1) := by
  induction n with
  | zero => decide
  | succ n ih => rw [Nat.pow_succ]; omega

theorem hexLower_spec (n : Nat) :
    (hexLower n).all isLowerHex = true ∧ hexLower n ≠ [] ∧ hexValue (hexLower n) = n := by
  have := hexLowerAux_spec (n + 1) n (lt_pow_succ_self n) (by omega)
  exact ⟨this.1, this.2.1, this.2.2.1⟩


theorem hexLowerAux_length (f : Nat) : ∀ (n k : Nat), n < 16 ^ f → 0 < k → n < 16 ^ k → (hexLowerAux f n).length ≤ k := by
  induction f with
  | zero => intro n k h; simp at h; subst h; intro _ _; simp [hexLowerAux]
  | succ f ih =>
    intro n k hn hk hnk
    rw [hexLowerAux_succ]
    by_cases h16 : n < 16
    · simp [h16]; omega
    · simp only [h16, if_false, List.length_append, List.length_singleton]
      have hf : n / 16 < 16 ^ f := by
        rw [Nat.pow_succ] at hn
        exact Nat.div_lt_of_lt_mul (by omega)
      cases k with
      | zero => omega
      | succ k =>
        have hk0 : 0 < k := by
          cases k with
          | zero => simp at hnk; omega
          | succ k => omega
        have : n / 16 < 16 ^ k := by
          rw [Nat.pow_succ] at hnk
          exact Nat.div_lt_of_lt_mul (by omega)
        have := ih (n / 16) k hf hk0 this
        omega

theorem hexLower_length16 (n : Nat) (h : n < 65536) : (hexLower n).length ≤ 4 :=
  hexLowerAux_length (n + 1) n 4 (lt_pow_succ_self n) (by omega) (by simpa using h)

/-- a byte that is no hex digit -/
def notHex (b : UInt8) : Prop := hexVal (Char.ofNat b.toNat) = none

/-- the text behind a piece: the end, or a byte that is no hex digit -/
def PieceEnd (r : Bytes) : Prop := r = [] ∨ ∃ b t, r = b :: t ∧ notHex b

theorem hexPiece_stop (k v n : Nat) {r : Bytes} (h : PieceEnd r) : hexPiece k r v n = (v, n, r) := by
  cases k with
  | zero => rfl
  | succ k =>
    rcases h with rfl | ⟨b, t, rfl, hb⟩
    · rfl
    · simp only [hexPiece, notHex] at hb ⊢
      rw [hb]

theorem hexPiece_digits {r : Bytes} (hr : PieceEnd r) : ∀ (ds : Bytes) (k v n : Nat), ds.all isLowerHex = true → ds.length ≤ k →
    hexPiece k (ds ++ r) v n = (ds.foldl (fun acc b => acc * 16 + (hexVal (Char.ofNat b.toNat)).getD 0) v, n + ds.length, r)
  | [], k, v, n, _, _ => by simpa using hexPiece_stop k v n hr
  | d :: ds, k, v, n, hall, hlen => by
    simp only [List.all_cons, Bool.and_eq_true] at hall
    obtain ⟨x, hx, _⟩ := isLowerHex_hexVal d hall.1
    cases k with
    | zero => simp at hlen
    | succ k =>
      have ih := hexPiece_digits hr ds k (v * 16 + x) (n + 1) hall.2 (by simpa using hlen)
      simp only [List.cons_append, hexPiece, hx, ih, List.foldl_cons, Option.getD_some, List.length_cons]
      congr 2
      omega

theorem hexPiece_hexLower (x : Nat) (hx : x < 65536) {r : Bytes} (hr : PieceEnd r) :
    hexPiece 4 (hexLower x ++ r) 0 0 = (x, (hexLower x).length, r) := by
  have hs := hexLower_spec x
  rw [hexPiece_digits hr _ 4 0 0 hs.1 (hexLower_length16 x hx)]
  have : hexValue (hexLower x) = x := hs.2.2
  simp only [hexValue] at this
  simp [this]


/-- the pieces in hex, `:` between them -/
def segText (xs : List Nat) : Bytes := joinWith [58] (xs.map hexLower)

theorem segText_cons2 (x y : Nat) (t : List Nat) : segText (x :: y :: t) = hexLower x ++ 58 :: segText (y :: t) := by
  simp [segText, joinWith]

theorem segText_single (x : Nat) : segText [x] = hexLower x := rfl

theorem colon_notHex : notHex 58 := by unfold notHex; decide
theorem dot_notHex : notHex 46 := by unfold notHex; decide

theorem isLowerHex_ne_colon : ∀ b : UInt8, isLowerHex b = true → b ≠ 58 ∧ b ≠ 46 ∧ b ≠ 91 ∧ b ≠ 93 ∧ isTabOrNewline b = false
    ∧ isAuthorityEnd b = false ∧ b ≠ 64 :=
  forall_uint8 (by set_option maxRecDepth 100000 in decide)

theorem hexLower_head (x : Nat) : ∃ b r, hexLower x = b :: r ∧ isLowerHex b = true := by
  have h := hexLower_spec x
  cases hn : hexLower x with
  | nil => exact absurd hn h.2.1
  | cons b r =>
    refine ⟨b, r, rfl, ?_⟩
    have := h.1
    rw [hn] at this
    simp only [List.all_cons, Bool.and_eq_true] at this
    exact this.1

/-- one step of the loop on a text that does not start with a colon -/
theorem ipv6Loop_piece (f : Nat) {b : UInt8} (hb : b ≠ 58) (r : Bytes) (pieces : List Nat) (compress : Option Nat) :
    ipv6Loop (f + 1) (b :: r) pieces compress =
      if pieces.length == 8 then none
      else
        match hexPiece 4 (b :: r) 0 0 with
        | (v, n, rest) =>
          match rest with
          | [] => if n == 0 then none else some (pieces ++ [v], compress)
          | 46 :: _ =>
            if n == 0 then none
            else if pieces.length > 6 then none
            else (ipv4Tail (b :: r)).map fun two => (pieces ++ two, compress)
          | 58 :: r2 =>
            if n == 0 then none
            else if r2.isEmpty then none
            else ipv6Loop f r2 (pieces ++ [v]) compress
          | _ => none := by
  simp only [ipv6Loop]
  split
  · rename_i heq; cases heq
  · rename_i heq
    simp only [List.cons.injEq] at heq
    exact absurd heq.1 hb
  · rfl

theorem ipv6Loop_colon (f : Nat) (r : Bytes) (pieces : List Nat) (compress : Option Nat) :
    ipv6Loop (f + 1) (58 :: r) pieces compress =
      if pieces.length == 8 then none
      else if compress.isSome then none
      else ipv6Loop f r (pieces ++ [0]) (some (pieces.length + 1)) := by
  simp only [ipv6Loop]

theorem segText_ne_nil {x : Nat} {t : List Nat} : segText (x :: t) ≠ [] := by
  obtain ⟨b, r, hb, _⟩ := hexLower_head x
  cases t with
  | nil => rw [segText_single, hb]; simp
  | cons y t => rw [segText_cons2, hb]; simp

/-- the loop reads a run of pieces to the end of the text -/
theorem ipv6Loop_run_end : ∀ (xs : List Nat) (f : Nat) (pieces : List Nat) (compress : Option Nat), xs ≠ [] →
    (∀ x ∈ xs, x < 65536) → pieces.length + xs.length ≤ 8 → (segText xs).length < f →
    ipv6Loop f (segText xs) pieces compress = some (pieces ++ xs, compress)
  | [], _, _, _, h, _, _, _ => absurd rfl h
  | [x], f, pieces, compress, _, hx, hlen, hf => by
    obtain ⟨b, r, hb, hbx⟩ := hexLower_head x
    have hx' := hx x (List.mem_cons_self ..)
    cases f with
    | zero => simp at hf
    | succ f =>
      have hp := hexPiece_hexLower x hx' (r := []) (.inl rfl)
      simp only [List.append_nil] at hp
      rw [segText_single, hb, ipv6Loop_piece f (isLowerHex_ne_colon b hbx).1, ← hb, hp]
      have h8 : (pieces.length == 8) = false := by simp at hlen ⊢; omega
      have hn : ((hexLower x).length == 0) = false := by rw [hb]; simp
      simp [h8, hn]
  | x :: y :: t, f, pieces, compress, _, hx, hlen, hf => by
    obtain ⟨b, r, hb, hbx⟩ := hexLower_head x
    have hx' := hx x (List.mem_cons_self ..)
    cases f with
    | zero => simp at hf
    | succ f =>
      have hp := hexPiece_hexLower x hx' (r := 58 :: segText (y :: t)) (.inr ⟨58, _, rfl, colon_notHex⟩)
      have hs : segText (x :: y :: t) = b :: (r ++ 58 :: segText (y :: t)) := by rw [segText_cons2, hb]; rfl
      rw [hs, ipv6Loop_piece f (isLowerHex_ne_colon b hbx).1, ← List.cons_append, ← hb, hp]
      have h8 : (pieces.length == 8) = false := by simp at hlen ⊢; omega
      have hn : ((hexLower x).length == 0) = false := by rw [hb]; simp
      have hne : (segText (y :: t)).isEmpty = false := by
        cases h : segText (y :: t) with
        | nil => exact absurd h segText_ne_nil
        | cons _ _ => rfl
      have hlen2 : (segText (y :: t)).length < f := by
        rw [segText_cons2] at hf
        simp at hf
        omega
      have ih := ipv6Loop_run_end (y :: t) f (pieces ++ [x]) compress (by simp)
        (fun z hz => hx z (List.mem_cons_of_mem _ hz)) (by simp at hlen ⊢; omega) hlen2
      simp only [h8, hn, hne, Bool.false_eq_true, if_false, ih]
      simp

/-- the loop reads a run of pieces up to a `::` and goes on behind it with a zero placeholder and the compression mark -/
theorem ipv6Loop_run_compress (rest : Bytes) : ∀ (xs : List Nat) (f : Nat) (pieces : List Nat), xs ≠ [] →
    (∀ x ∈ xs, x < 65536) → pieces.length + xs.length < 8 → (segText xs ++ 58 :: 58 :: rest).length < f →
    ∃ f', rest.length < f' ∧ ipv6Loop f (segText xs ++ 58 :: 58 :: rest) pieces none
      = ipv6Loop f' rest (pieces ++ xs ++ [0]) (some (pieces.length + xs.length + 1))
  | [], _, _, h, _, _, _ => absurd rfl h
  | [x], f, pieces, _, hx, hlen, hf => by
    obtain ⟨b, r, hb, hbx⟩ := hexLower_head x
    have hx' := hx x (List.mem_cons_self ..)
    match f, hf with
    | f + 2, hf =>
      have hp := hexPiece_hexLower x hx' (r := 58 :: 58 :: rest) (.inr ⟨58, _, rfl, colon_notHex⟩)
      have hs : segText [x] ++ 58 :: 58 :: rest = b :: (r ++ 58 :: 58 :: rest) := by rw [segText_single, hb]; rfl
      refine ⟨f, ?_, ?_⟩
      · rw [segText_single] at hf; simp at hf; omega
      · rw [hs, ipv6Loop_piece (f + 1) (isLowerHex_ne_colon b hbx).1, ← List.cons_append, ← hb, hp]
        have h8 : (pieces.length == 8) = false := by simp at hlen ⊢; omega
        have h8' : ((pieces ++ [x]).length == 8) = false := by simp at hlen ⊢; omega
        have hn : ((hexLower x).length == 0) = false := by rw [hb]; simp
        simp only [h8, hn, Bool.false_eq_true, if_false, List.isEmpty_cons, ipv6Loop_colon, h8', Option.isSome_none]
        simp [Nat.add_assoc]
    | 0, hf => simp at hf
    | 1, hf => rw [segText_single] at hf; simp at hf
  | x :: y :: t, f, pieces, _, hx, hlen, hf => by
    obtain ⟨b, r, hb, hbx⟩ := hexLower_head x
    have hx' := hx x (List.mem_cons_self ..)
    cases f with
    | zero => simp at hf
    | succ f =>
      have hp := hexPiece_hexLower x hx' (r := 58 :: (segText (y :: t) ++ 58 :: 58 :: rest)) (.inr ⟨58, _, rfl, colon_notHex⟩)
      have hs : segText (x :: y :: t) ++ 58 :: 58 :: rest = b :: (r ++ 58 :: (segText (y :: t) ++ 58 :: 58 :: rest)) := by
        rw [segText_cons2, hb]; simp
      have hlen2 : (segText (y :: t) ++ 58 :: 58 :: rest).length < f := by
        rw [segText_cons2] at hf
        simp at hf ⊢
        omega
      obtain ⟨f', hf', ih⟩ := ipv6Loop_run_compress rest (y :: t) f (pieces ++ [x]) (by simp)
        (fun z hz => hx z (List.mem_cons_of_mem _ hz)) (by simp at hlen ⊢; omega) hlen2
      refine ⟨f', hf', ?_⟩
      rw [hs, ipv6Loop_piece f (isLowerHex_ne_colon b hbx).1, ← List.cons_append, ← hb, hp]
      have h8 : (pieces.length == 8) = false := by simp at hlen ⊢; omega
      have hn : ((hexLower x).length == 0) = false := by rw [hb]; simp
      have hne : (segText (y :: t) ++ 58 :: 58 :: rest).isEmpty = false := by
        cases h : segText (y :: t) with
        | nil => exact absurd h segText_ne_nil
        | cons _ _ => rfl
      simp only [h8, hn, hne, Bool.false_eq_true, if_false, ih]
      simp [Nat.add_assoc, Nat.add_comm 1]


theorem ipv6Loop_nil (f : Nat) (pieces : List Nat) (compress : Option Nat) :
    ipv6Loop (f + 1) [] pieces compress = some (pieces, compress) := by simp only [ipv6Loop]

/-- `parse_ipv6addr` on a text that does not start with a colon: the loop from the empty state -/
theorem parseIpv6_start {b : UInt8} (hb : b ≠ 58) (r : Bytes) (hlen : 2 ≤ (b :: r).length) :
    parseIpv6 (b :: r) =
      match ipv6Loop ((b :: r).length + 1) (b :: r) [] none with
      | none => none
      | some (pieces, compress) =>
        if pieces.length > 8 then none
        else match compress with
          | some c => some (pieces.take c ++ List.replicate (8 - pieces.length) 0 ++ pieces.drop c)
          | none => if pieces.length == 8 then some pieces else none := by
  have h2 : ¬ (b :: r).length < 2 := by omega
  unfold parseIpv6
  simp only [h2, if_false]
  split
  · rename_i heq
    split at heq
    · rename_i h; simp only [List.cons.injEq] at h; exact absurd h.1 hb
    · rename_i h; simp only [List.cons.injEq] at h; exact absurd h.1 hb
    · cases heq
  · rename_i heq
    split at heq
    · rename_i h; simp only [List.cons.injEq] at h; exact absurd h.1 hb
    · rename_i h; simp only [List.cons.injEq] at h; exact absurd h.1 hb
    · cases heq; rfl

theorem parseIpv6_start_compressed (r : Bytes) :
    parseIpv6 (58 :: 58 :: r) =
      match ipv6Loop (r.length + 1) r [0] (some 1) with
      | none => none
      | some (pieces, compress) =>
        if pieces.length > 8 then none
        else match compress with
          | some c => some (pieces.take c ++ List.replicate (8 - pieces.length) 0 ++ pieces.drop c)
          | none => if pieces.length == 8 then some pieces else none := by
  have h2 : ¬ (58 :: 58 :: r).length < 2 := by simp
  unfold parseIpv6
  simp only [h2, if_false]
  rfl

/-- a full address without `::` -/
theorem parseIpv6_full (s : List Nat) (hlen : s.length = 8) (hs : ∀ x ∈ s, x < 65536) : parseIpv6 (segText s) = some s := by
  obtain ⟨x, y, t, rfl⟩ : ∃ x y t, s = x :: y :: t := by
    match s, hlen with
    | x :: y :: t, _ => exact ⟨x, y, t, rfl⟩
  obtain ⟨b, r, hb, hbx⟩ := hexLower_head x
  have hshape : segText (x :: y :: t) = b :: (r ++ 58 :: segText (y :: t)) := by rw [segText_cons2, hb]; rfl
  have hrun := ipv6Loop_run_end (x :: y :: t) ((segText (x :: y :: t)).length + 1) [] none (by simp) hs (by simp [hlen]) (by omega)
  have h2 : 2 ≤ (segText (x :: y :: t)).length := by rw [hshape]; simp; omega
  rw [hshape] at hrun h2 ⊢
  rw [parseIpv6_start (isLowerHex_ne_colon b hbx).1 _ h2, hrun]
  simp [hlen]

/-- an address with `::` in front: `::<after>` -/
theorem parseIpv6_leading (after : List Nat) (n : Nat) (hn : 2 ≤ n) (hlen : n + after.length = 8) (hs : ∀ x ∈ after, x < 65536) :
    parseIpv6 (58 :: 58 :: segText after) = some (List.replicate n 0 ++ after) := by
  rw [parseIpv6_start_compressed]
  cases after with
  | nil =>
    simp only [segText, List.map_nil, joinWith, List.length_nil, ipv6Loop_nil]
    simp at hlen
    subst hlen
    decide
  | cons x t =>
    have hrun := ipv6Loop_run_end (x :: t) ((segText (x :: t)).length + 1) [0] (some 1) (by simp) hs (by simp at hlen ⊢; omega) (by omega)
    rw [hrun]
    have h8 : ¬ ([0] ++ x :: t).length > 8 := by simp at hlen ⊢; omega
    simp only [h8, if_false]
    have : 8 - ([0] ++ x :: t).length = n - 1 := by simp at hlen ⊢; omega
    rw [this]
    obtain ⟨m, rfl⟩ : ∃ m, n = m + 1 := ⟨n - 1, by omega⟩
    simp [List.replicate_succ]

/-- an address with `::` behind a non-empty run: `<before>::<after>` -/
theorem parseIpv6_inner (before after : List Nat) (n : Nat) (hne : before ≠ []) (hn : 2 ≤ n)
    (hlen : before.length + n + after.length = 8) (hb : ∀ x ∈ before, x < 65536) (ha : ∀ x ∈ after, x < 65536) :
    parseIpv6 (segText before ++ 58 :: 58 :: segText after) = some (before ++ List.replicate n 0 ++ after) := by
  obtain ⟨x, t, rfl⟩ : ∃ x t, before = x :: t := by
    cases before with
    | nil => exact absurd rfl hne
    | cons x t => exact ⟨x, t, rfl⟩
  obtain ⟨b, r, hbx, hbh⟩ := hexLower_head x
  have hshape : ∃ r', segText (x :: t) ++ 58 :: 58 :: segText after = b :: r' := by
    cases t with
    | nil => exact ⟨r ++ 58 :: 58 :: segText after, by rw [segText_single, hbx]; rfl⟩
    | cons y t => exact ⟨r ++ 58 :: (segText (y :: t) ++ 58 :: 58 :: segText after), by rw [segText_cons2, hbx]; simp⟩
  obtain ⟨r', hr'⟩ := hshape
  obtain ⟨f', hf', hrun⟩ := ipv6Loop_run_compress (segText after) (x :: t)
    ((segText (x :: t) ++ 58 :: 58 :: segText after).length + 1) [] (by simp) hb (by simp at hlen ⊢; omega) (by omega)
  have h2 : 2 ≤ (b :: r').length := by rw [← hr']; simp; omega
  rw [hr'] at hrun ⊢
  rw [parseIpv6_start (isLowerHex_ne_colon b hbh).1 _ h2, hrun]
  simp only [List.nil_append, List.length_nil, Nat.zero_add]
  have hfinal : ipv6Loop f' (segText after) (x :: t ++ [0]) (some ((x :: t).length + 1))
      = some (x :: t ++ [0] ++ after, some ((x :: t).length + 1)) := by
    cases after with
    | nil =>
      obtain ⟨g, rfl⟩ : ∃ g, f' = g + 1 := ⟨f' - 1, by omega⟩
      simp [segText, joinWith, ipv6Loop_nil]
    | cons y u =>
      exact ipv6Loop_run_end (y :: u) f' (x :: t ++ [0]) _ (by simp) ha (by simp at hlen ⊢; omega) hf'
  rw [hfinal]
  have h8 : ¬ (x :: t ++ [0] ++ after).length > 8 := by simp at hlen ⊢; omega
  simp only [h8, if_false]
  have e1 : 8 - (x :: t ++ [0] ++ after).length = n - 1 := by simp at hlen ⊢; omega
  have e2 : (x :: t ++ [0] ++ after).take ((x :: t).length + 1) = x :: t ++ [0] := by
    rw [show (x :: t).length + 1 = (x :: t ++ [0]).length by simp, List.take_left']
    rfl
  have e3 : (x :: t ++ [0] ++ after).drop ((x :: t).length + 1) = after := by
    rw [show (x :: t).length + 1 = (x :: t ++ [0]).length by simp, List.drop_left']
    rfl
  rw [e1, e2, e3]
  obtain ⟨m, rfl⟩ : ∃ m, n = m + 1 := ⟨n - 1, by omega⟩
  simp [List.replicate_succ]


/-- the digit accumulation of one dotted-quad piece inside an IPv6 literal (outer `none` = rejected) -/
def ipv4Fold : Option Nat → Bytes → Option (Option Nat)
  | acc, [] => some acc
  | acc, b :: r =>
    let d := b.toNat - 48
    match acc with
    | none => ipv4Fold (some d) r
    | some 0 => none
    | some v => if v * 10 + d > 255 then none else ipv4Fold (some (v * 10 + d)) r

/-- the text behind a decimal piece: the end, or a byte that is no digit -/
def DigitsEnd (r : Bytes) : Prop := r = [] ∨ ∃ b t, r = b :: t ∧ isDigit b = false

theorem ipv4Piece_end {r : Bytes} (hr : DigitsEnd r) (g : Nat) (acc : Option Nat) :
    ipv4Piece (g + 1) r acc = acc.map (·, r) := by
  rcases hr with rfl | ⟨b, t, rfl, hb⟩
  · rfl
  · simp only [ipv4Piece, hb, Bool.false_eq_true, if_false]

theorem ipv4Piece_step (g : Nat) (d : UInt8) (hd : isDigit d = true) (s : Bytes) (acc : Option Nat) :
    ipv4Piece (g + 1) (d :: s) acc =
      match acc with
      | none => ipv4Piece g s (some (d.toNat - 48))
      | some 0 => none
      | some v => if v * 10 + (d.toNat - 48) > 255 then none else ipv4Piece g s (some (v * 10 + (d.toNat - 48))) := by
  simp only [ipv4Piece, hd, if_true]
  cases acc with
  | none => rfl
  | some v => cases v <;> rfl

theorem ipv4Fold_cons_none (d : UInt8) (ds : Bytes) : ipv4Fold none (d :: ds) = ipv4Fold (some (d.toNat - 48)) ds := rfl
theorem ipv4Fold_cons_zero (d : UInt8) (ds : Bytes) : ipv4Fold (some 0) (d :: ds) = none := rfl
theorem ipv4Fold_cons_succ (v : Nat) (d : UInt8) (ds : Bytes) : ipv4Fold (some (v + 1)) (d :: ds)
    = if (v + 1) * 10 + (d.toNat - 48) > 255 then none else ipv4Fold (some ((v + 1) * 10 + (d.toNat - 48))) ds := rfl

theorem ipv4Piece_digits {r : Bytes} (hr : DigitsEnd r) (ds : Bytes) : ∀ (f : Nat) (acc : Option Nat),
    ds.all isDigit = true → ds.length < f →
    ipv4Piece f (ds ++ r) acc = (ipv4Fold acc ds).bind (fun a => a.map (·, r)) := by
  induction ds with
  | nil =>
    intro f acc _ hf
    obtain ⟨g, rfl⟩ : ∃ g, f = g + 1 := ⟨f - 1, by simp at hf; omega⟩
    exact ipv4Piece_end hr g acc
  | cons d ds ih =>
    intro f acc hall hf
    obtain ⟨g, rfl⟩ : ∃ g, f = g + 1 := ⟨f - 1, by simp at hf; omega⟩
    simp only [List.all_cons, Bool.and_eq_true] at hall
    have hlen : ds.length < g := by simp at hf; omega
    rw [List.cons_append, ipv4Piece_step g d hall.1]
    generalize hx : d.toNat - 48 = x
    cases acc with
    | none =>
      rw [ipv4Fold_cons_none, hx]
      exact ih g _ hall.2 hlen
    | some v =>
      cases v with
      | zero => rw [ipv4Fold_cons_zero]; rfl
      | succ v =>
        rw [ipv4Fold_cons_succ, hx]
        show (if (v + 1) * 10 + x > 255 then none else ipv4Piece g (ds ++ r) (some ((v + 1) * 10 + x))) = _
        split
        · rfl
        · exact ih g _ hall.2 hlen

set_option maxRecDepth 100000 in
theorem ipv4Fold_natDec : ∀ n, n < 256 → ipv4Fold none (natDec n) = some (some n) := by decide

theorem ipv4Piece_natDec (n : Nat) (hn : n < 256) {r : Bytes} (hr : DigitsEnd r) (f : Nat) (hf : (natDec n).length < f) :
    ipv4Piece f (natDec n ++ r) none = some (n, r) := by
  rw [ipv4Piece_digits hr _ f none (natDec_spec n).1 hf, ipv4Fold_natDec n hn]
  rfl

theorem dot_digitsEnd (t : Bytes) : DigitsEnd (46 :: t) := .inr ⟨46, t, rfl, by decide⟩

/-- the dotted quad `Display for Ipv4Addr` prints, read as the tail of an IPv6 literal -/
theorem ipv4Tail_showIpv4 (a b c d : UInt8) :
    ipv4Tail (showIpv4 a b c d) = some [a.toNat * 256 + b.toNat, c.toNat * 256 + d.toNat] := by
  rw [showIpv4_eq]
  unfold ipv4Tail
  rw [ipv4Piece_natDec a.toNat a.toNat_lt (dot_digitsEnd _) _ (by simp; omega)]
  simp only []
  rw [ipv4Piece_natDec b.toNat b.toNat_lt (dot_digitsEnd _) _ (by simp; omega)]
  simp only []
  rw [ipv4Piece_natDec c.toNat c.toNat_lt (dot_digitsEnd _) _ (by simp; omega)]
  simp only []
  have := ipv4Piece_natDec d.toNat d.toNat_lt (r := []) (.inl rfl) ((natDec d.toNat).length + 1) (by omega)
  simp only [List.append_nil] at this
  rw [this]


theorem showSegs_eq (s : List UInt16) : showSegs s = segText (s.map (·.toNat)) := by
  simp [showSegs, segText, List.map_map, Function.comp_def]

theorem natDec_lowerHex (n : Nat) : (natDec n).all isLowerHex = true := by
  have := (natDec_spec n).1
  simp only [List.all_eq_true] at this ⊢
  intro b hb
  have := this b hb
  simp [isLowerHex, this]

set_option maxRecDepth 100000 in
theorem natDec_length_256 : ∀ n, n < 256 → (natDec n).length ≤ 3 := by decide

/-- the IPv4-mapped spelling -/
theorem parseIpv6_mapped (a b c d : UInt8) :
    parseIpv6 (asciiBytes "::ffff:" ++ showIpv4 a b c d)
      = some [0, 0, 0, 0, 0, 65535, a.toNat * 256 + b.toNat, c.toNat * 256 + d.toNat] := by
  have htext : asciiBytes "::ffff:" ++ showIpv4 a b c d = 58 :: 58 :: 102 :: 102 :: 102 :: 102 :: 58 :: showIpv4 a b c d := rfl
  rw [htext, parseIpv6_start_compressed]
  obtain ⟨d0, r0, hn, hd0⟩ := natDec_head_digit a.toNat
  have hv4 : showIpv4 a b c d = d0 :: (r0 ++ 46 :: (natDec b.toNat ++ 46 :: (natDec c.toNat ++ 46 :: natDec d.toNat))) := by
    rw [showIpv4_eq, hn]; rfl
  have hd058 : d0 ≠ 58 := (hostChar_props d0 (isDigit_hostChar d0 hd0)).2.2.2.1
  -- first piece: ffff
  have h1 : ipv6Loop ((102 :: 102 :: 102 :: 102 :: 58 :: showIpv4 a b c d).length + 1) (102 :: 102 :: 102 :: 102 :: 58 :: showIpv4 a b c d) [0] (some 1)
      = ipv6Loop ((102 :: 102 :: 102 :: 102 :: 58 :: showIpv4 a b c d).length) (showIpv4 a b c d) [0, 65535] (some 1) := by
    rw [ipv6Loop_piece _ (by decide)]
    have hp : hexPiece 4 (102 :: 102 :: 102 :: 102 :: 58 :: showIpv4 a b c d) 0 0 = (65535, 4, 58 :: showIpv4 a b c d) := rfl
    rw [hp]
    have hne : (showIpv4 a b c d).isEmpty = false := by rw [hv4]; rfl
    simp [hne]
  rw [h1]
  -- second piece: the dotted quad
  have hp2 : ∃ v n, hexPiece 4 (showIpv4 a b c d) 0 0 = (v, n + 1, 46 :: (natDec b.toNat ++ 46 :: (natDec c.toNat ++ 46 :: natDec d.toNat))) := by
    rw [showIpv4_eq]
    have := hexPiece_digits (r := 46 :: (natDec b.toNat ++ 46 :: (natDec c.toNat ++ 46 :: natDec d.toNat)))
      (.inr ⟨46, _, rfl, dot_notHex⟩) (natDec a.toNat) 4 0 0 (natDec_lowerHex _) (by have := natDec_length_256 _ a.toNat_lt; omega)
    rw [this]
    exact ⟨List.foldl (fun acc b => acc * 16 + (hexVal (Char.ofNat b.toNat)).getD 0) 0 (natDec a.toNat), r0.length, by rw [hn]; simp⟩
  obtain ⟨v, n, hp2⟩ := hp2
  have h2 : ipv6Loop ((102 :: 102 :: 102 :: 102 :: 58 :: showIpv4 a b c d).length) (showIpv4 a b c d) [0, 65535] (some 1)
      = some ([0, 65535, a.toNat * 256 + b.toNat, c.toNat * 256 + d.toNat], some 1) := by
    have : (102 :: 102 :: 102 :: 102 :: 58 :: showIpv4 a b c d).length = (showIpv4 a b c d).length + 4 + 1 := by simp
    rw [this]
    conv => lhs; arg 2; rw [hv4]
    rw [ipv6Loop_piece _ hd058, ← hv4, hp2, ipv4Tail_showIpv4]
    simp
  rw [h2]
  simp [List.replicate]


def zeroRunGoB : List Bool → Nat → Nat × Nat → Nat × Nat → Nat × Nat
  | [], _, _, best => best
  | x :: r, i, cur, best =>
    if x then
      let cur' : Nat × Nat := (if cur.2 == 0 then i else cur.1, cur.2 + 1)
      zeroRunGoB r (i + 1) cur' (if cur'.2 > best.2 then cur' else best)
    else zeroRunGoB r (i + 1) (0, 0) best

theorem zeroRunGo_eq_B : ∀ (s : List UInt16) (i : Nat) (c b : Nat × Nat),
    zeroRunGo s i c b = zeroRunGoB (s.map (· == 0)) i c b
  | [], _, _, _ => rfl
  | x :: r, i, c, b => by
    simp only [zeroRunGo, List.map_cons, zeroRunGoB]
    split <;> simp [zeroRunGo_eq_B r]

set_option maxRecDepth 100000 in
theorem zeroRunB_spec : ∀ b0 b1 b2 b3 b4 b5 b6 b7 : Bool,
    let l := [b0, b1, b2, b3, b4, b5, b6, b7]
    let z := zeroRunGoB l 0 (0, 0) (0, 0)
    z.1 + z.2 ≤ 8 ∧ (∀ j, j < z.2 → l[z.1 + j]? = some true) := by
  decide

theorem list_zero_prefix : ∀ (n : Nat) (s : List Nat), n ≤ s.length → (∀ j, j < n → s[j]? = some 0) →
    s = List.replicate n 0 ++ s.drop n
  | 0, s, _, _ => by simp
  | n + 1, [], h, _ => by simp at h
  | n + 1, x :: t, h, hz => by
    have h0 : x = 0 := by simpa using hz 0 (by omega)
    have ih := list_zero_prefix n t (by simpa using h) (fun j hj => by simpa using hz (j + 1) (by omega))
    subst h0
    simp only [List.replicate_succ, List.cons_append, List.drop_succ_cons, List.cons.injEq, true_and]
    exact ih

theorem list_decomp_zero : ∀ (i n : Nat) (s : List Nat), i + n ≤ s.length → (∀ j, j < n → s[i + j]? = some 0) →
    s = s.take i ++ List.replicate n 0 ++ s.drop (i + n)
  | 0, n, s, h, hz => by
    simpa using list_zero_prefix n s (by omega) (fun j hj => by simpa using hz j hj)
  | i + 1, n, [], h, _ => by
    have : n = 0 := by simp at h
    subst this; simp
  | i + 1, n, x :: t, h, hz => by
    have ih := list_decomp_zero i n t (by simp at h; omega) (fun j hj => by
      have := hz j hj
      rwa [show i + 1 + j = (i + j) + 1 by omega, List.getElem?_cons_succ] at this)
    simp only [List.take_succ_cons, List.cons_append, show i + 1 + n = (i + n) + 1 by omega, List.drop_succ_cons,
      List.cons.injEq, true_and]
    exact ih

theorem toNat_lt_all (s : List UInt16) : ∀ x ∈ s.map (·.toNat), x < 65536 := by
  intro x hx
  obtain ⟨y, _, rfl⟩ := List.mem_map.mp hx
  exact y.toNat_lt

/-- the round trip of the generic spelling (zero run compressed), for every address -/
theorem parseIpv6_generic (s : List UInt16) (hlen : s.length = 8) :
    parseIpv6 (showIpv6Generic s) = some (s.map (·.toNat)) := by
  have hlt := toNat_lt_all s
  obtain ⟨b0, b1, b2, b3, b4, b5, b6, b7, hs⟩ : ∃ b0 b1 b2 b3 b4 b5 b6 b7, s = [b0, b1, b2, b3, b4, b5, b6, b7] := by
    match s, hlen with
    | [b0, b1, b2, b3, b4, b5, b6, b7], _ => exact ⟨_, _, _, _, _, _, _, _, rfl⟩
  have hz := zeroRunB_spec (b0 == 0) (b1 == 0) (b2 == 0) (b3 == 0) (b4 == 0) (b5 == 0) (b6 == 0) (b7 == 0)
  simp only [] at hz
  have hzz : longestZeroRun s = zeroRunGoB [b0 == 0, b1 == 0, b2 == 0, b3 == 0, b4 == 0, b5 == 0, b6 == 0, b7 == 0] 0 (0, 0) (0, 0) := by
    rw [longestZeroRun, zeroRunGo_eq_B, hs]; rfl
  rw [← hzz] at hz
  unfold showIpv6Generic
  generalize longestZeroRun s = z at hz ⊢
  obtain ⟨hle, hzero⟩ := hz
  simp only []
  have hzero' : ∀ j, j < z.2 → (s.map (·.toNat))[z.1 + j]? = some 0 := by
    intro j hj
    have := hzero j hj
    rw [hs]
    have hm : [b0 == 0, b1 == 0, b2 == 0, b3 == 0, b4 == 0, b5 == 0, b6 == 0, b7 == 0] = [b0, b1, b2, b3, b4, b5, b6, b7].map (· == 0) := rfl
    rw [hm, List.getElem?_map] at this
    rw [List.getElem?_map]
    cases hg : [b0, b1, b2, b3, b4, b5, b6, b7][z.1 + j]? with
    | none => rw [hg] at this; simp at this
    | some y =>
      rw [hg] at this
      simp only [Option.map_some, Option.some.injEq, beq_iff_eq] at this
      simp [this]
  by_cases h2 : z.2 > 1
  · simp only [h2, if_true, showSegs_eq]
    have hdec := list_decomp_zero z.1 z.2 (s.map (·.toNat)) (by simp [hlen]; omega) hzero'
    have htake : (s.take z.1).map (·.toNat) = (s.map (·.toNat)).take z.1 := by simp [List.map_take]
    have hdrop : (s.drop (z.1 + z.2)).map (·.toNat) = (s.map (·.toNat)).drop (z.1 + z.2) := by simp [List.map_drop]
    rw [htake, hdrop]
    have hbl : ((s.map (·.toNat)).take z.1).length = z.1 := by simp [hlen]; omega
    have hal : ((s.map (·.toNat)).drop (z.1 + z.2)).length = 8 - (z.1 + z.2) := by simp [hlen]
    have hbb : ∀ x ∈ (s.map (·.toNat)).take z.1, x < 65536 := fun x hx => hlt x (List.mem_of_mem_take hx)
    have haa : ∀ x ∈ (s.map (·.toNat)).drop (z.1 + z.2), x < 65536 := fun x hx => hlt x (List.mem_of_mem_drop hx)
    by_cases hi : z.1 = 0
    · have hbe : (s.map (·.toNat)).take z.1 = [] := by rw [hi]; rfl
      rw [hbe] at hdec ⊢
      have : segText [] ++ asciiBytes "::" ++ segText ((s.map (·.toNat)).drop (z.1 + z.2))
          = 58 :: 58 :: segText ((s.map (·.toNat)).drop (z.1 + z.2)) := rfl
      rw [this, parseIpv6_leading _ z.2 (by omega) (by rw [hal]; omega) haa]
      exact congrArg some (by simpa using hdec.symm)
    · have hne : (s.map (·.toNat)).take z.1 ≠ [] := by
        intro h
        have := congrArg List.length h
        rw [hbl] at this
        exact hi (by simpa using this)
      have : segText ((s.map (·.toNat)).take z.1) ++ asciiBytes "::" ++ segText ((s.map (·.toNat)).drop (z.1 + z.2))
          = segText ((s.map (·.toNat)).take z.1) ++ 58 :: 58 :: segText ((s.map (·.toNat)).drop (z.1 + z.2)) := by
        simp [asciiBytes]
      rw [this, parseIpv6_inner _ _ z.2 hne (by omega) (by rw [hbl, hal]; omega) hbb haa]
      exact congrArg some hdec.symm
  · simp only [h2, if_false, showSegs_eq]
    exact parseIpv6_full _ (by simp [hlen]) hlt

/-- THE ROUND TRIP: what `Display for Ipv6Addr` prints, the URL parser reads back as the same eight segments -/
theorem parseIpv6_showIpv6 (s0 s1 s2 s3 s4 s5 s6 s7 : UInt16) :
    parseIpv6 (showIpv6 [s0, s1, s2, s3, s4, s5, s6, s7])
      = some [s0.toNat, s1.toNat, s2.toNat, s3.toNat, s4.toNat, s5.toNat, s6.toNat, s7.toNat] := by
  unfold showIpv6
  simp only []
  by_cases hm : (s0 == 0 && s1 == 0 && s2 == 0 && s3 == 0 && s4 == 0 && s5 == 0xFFFF) = true
  · simp only [hm, if_true]
    simp only [Bool.and_eq_true, beq_iff_eq] at hm
    obtain ⟨⟨⟨⟨⟨rfl, rfl⟩, rfl⟩, rfl⟩, rfl⟩, rfl⟩ := hm
    rw [parseIpv6_mapped]
    have h6 := s6.toNat_lt
    have h7 := s7.toNat_lt
    have e : ∀ n : Nat, n < 65536 → (UInt8.ofNat (n / 256)).toNat * 256 + (UInt8.ofNat (n % 256)).toNat = n := by
      intro n hn
      simp only [UInt8.toNat_ofNat']
      omega
    rw [e _ h6, e _ h7]
    rfl
  · simp only [hm, Bool.false_eq_true, if_false]
    exact parseIpv6_generic _ rfl

/-! ### the URL serialiser's spelling (`write_ipv6`) is the generic one -/

def urlZeroRunGoB : List Bool → Nat → Option Nat → Nat × Nat → Nat × Nat
  | [], i, start, best =>
    match start with
    | some s => if i - s > best.2 then (s, i - s) else best
    | none => best
  | x :: r, i, start, best =>
    if x then urlZeroRunGoB r (i + 1) (start.or (some i)) best
    else
      let best' := match start with
        | some s => if i - s > best.2 then (s, i - s) else best
        | none => best
      urlZeroRunGoB r (i + 1) none best'

theorem urlZeroRunGo_eq_B : ∀ (s : List Nat) (i : Nat) (st : Option Nat) (b : Nat × Nat),
    urlZeroRunGo s i st b = urlZeroRunGoB (s.map (· == 0)) i st b
  | [], _, _, _ => rfl
  | x :: r, i, st, b => by
    simp only [urlZeroRunGo, List.map_cons, urlZeroRunGoB]
    split
    · simp [urlZeroRunGo_eq_B r]
    · rw [urlZeroRunGo_eq_B r]; cases st <;> rfl

set_option maxRecDepth 100000 in
/-- both searches find the same run whenever it is worth compressing, for each of the 256 zero patterns -/
theorem zeroRuns_agree : ∀ b0 b1 b2 b3 b4 b5 b6 b7 : Bool,
    let l := [b0, b1, b2, b3, b4, b5, b6, b7]
    let z := zeroRunGoB l 0 (0, 0) (0, 0)
    let u := urlZeroRunGoB l 0 none (0, 0)
    (z.2 > 1 → u = z) ∧ (¬ z.2 > 1 → u.2 < 2) := by
  decide

/-- `write_ipv6` spells an address the way `Display for Ipv6Addr` does (IPv4-mapped form aside) -/
theorem writeIpv6_eq_generic (s : List UInt16) (hlen : s.length = 8) : writeIpv6 (s.map (·.toNat)) = showIpv6Generic s := by
  obtain ⟨b0, b1, b2, b3, b4, b5, b6, b7, rfl⟩ : ∃ b0 b1 b2 b3 b4 b5 b6 b7, s = [b0, b1, b2, b3, b4, b5, b6, b7] := by
    match s, hlen with
    | [b0, b1, b2, b3, b4, b5, b6, b7], _ => exact ⟨_, _, _, _, _, _, _, _, rfl⟩
  have hag := zeroRuns_agree (b0 == 0) (b1 == 0) (b2 == 0) (b3 == 0) (b4 == 0) (b5 == 0) (b6 == 0) (b7 == 0)
  simp only [] at hag
  have hz : longestZeroRun [b0, b1, b2, b3, b4, b5, b6, b7]
      = zeroRunGoB [b0 == 0, b1 == 0, b2 == 0, b3 == 0, b4 == 0, b5 == 0, b6 == 0, b7 == 0] 0 (0, 0) (0, 0) := by
    rw [longestZeroRun, zeroRunGo_eq_B]; rfl
  have hbeq : ∀ x : UInt16, (x.toNat == 0) = (x == 0) := by
    intro x
    by_cases h : x = 0
    · subst h; rfl
    · have hne : x.toNat ≠ 0 := fun h0 => h (UInt16.toNat_inj.mp h0)
      have e1 : (x.toNat == 0) = false := by simpa using hne
      have e2 : (x == 0) = false := by simpa using h
      rw [e1, e2]
  have hu : urlZeroRunGo ([b0, b1, b2, b3, b4, b5, b6, b7].map (·.toNat)) 0 none (0, 0)
      = urlZeroRunGoB [b0 == 0, b1 == 0, b2 == 0, b3 == 0, b4 == 0, b5 == 0, b6 == 0, b7 == 0] 0 none (0, 0) := by
    rw [urlZeroRunGo_eq_B]
    simp [hbeq]
  rw [← hz, ← hu] at hag
  unfold writeIpv6 showIpv6Generic
  simp only []
  generalize longestZeroRun [b0, b1, b2, b3, b4, b5, b6, b7] = z at hag ⊢
  generalize urlZeroRunGo ([b0, b1, b2, b3, b4, b5, b6, b7].map (·.toNat)) 0 none (0, 0) = u at hag ⊢
  have hseg : ∀ l : List UInt16, joinWith [58] ((l.map (·.toNat)).map hexLower) = showSegs l := by
    intro l; simp [showSegs, List.map_map, Function.comp_def]
  by_cases h2 : z.2 > 1
  · have := hag.1 h2
    subst this
    have : ¬ u.2 < 2 := by omega
    simp only [this, if_false, h2, if_true, ← List.map_take, ← List.map_drop, hseg]
  · have := hag.2 h2
    simp only [this, if_true, h2, if_false, hseg]

/-- inside square brackets the host scan passes colons; it ends at the colon behind the closing bracket -/
theorem hostSpan_inside (rest : Bytes) : ∀ (body : Bytes), (∀ b ∈ body, b ≠ 91 ∧ b ≠ 93) →
    hostSpan (body ++ 93 :: 58 :: rest) true = (body ++ [93], 58 :: rest)
  | [], _ => by simp [hostSpan]
  | b :: r, h => by
    obtain ⟨h91, h93⟩ := h b (List.mem_cons_self ..)
    have ih := hostSpan_inside rest r (fun x hx => h x (List.mem_cons_of_mem _ hx))
    have e2 : (b == 91) = false := by simp [h91]
    have e3 : (b == 93) = false := by simp [h93]
    simp only [List.cons_append, hostSpan, Bool.not_true, Bool.and_false, Bool.false_eq_true, if_false, e2, e3, ih]

theorem hostSpan_bracketed (rest body : Bytes) (h : ∀ b ∈ body, b ≠ 91 ∧ b ≠ 93) :
    hostSpan (91 :: (body ++ [93]) ++ 58 :: rest) false = (91 :: (body ++ [93]), 58 :: rest) := by
  have := hostSpan_inside rest body h
  simp only [List.cons_append, List.append_assoc, List.singleton_append, hostSpan]
  simp [this]

/-- a byte of the text `Display for Ipv6Addr` prints: a lower-case hex digit, a colon or a dot -/
def v6Char (b : UInt8) : Bool := isLowerHex b || b == 58 || b == 46

theorem v6Char_props : ∀ b : UInt8, v6Char b = true →
    isTabOrNewline b = false ∧ isAuthorityEnd b = false ∧ b ≠ 64 ∧ b ≠ 91 ∧ b ≠ 93 :=
  forall_uint8 (by set_option maxRecDepth 100000 in decide)

theorem hexLower_v6Char (x : Nat) : ∀ b ∈ hexLower x, v6Char b = true := by
  intro b hb
  have := List.all_eq_true.mp (hexLower_spec x).1 b hb
  simp [v6Char, this]

theorem segText_v6Char : ∀ (xs : List Nat), ∀ b ∈ segText xs, v6Char b = true
  | [], b, hb => by simp [segText, joinWith] at hb
  | [x], b, hb => hexLower_v6Char x b hb
  | x :: y :: t, b, hb => by
    rw [segText_cons2] at hb
    simp only [List.mem_append, List.mem_cons] at hb
    rcases hb with hb | hb | hb
    · exact hexLower_v6Char x b hb
    · subst hb; decide
    · exact segText_v6Char (y :: t) b hb

theorem showIpv4_v6Char (a b c d : UInt8) : ∀ x ∈ showIpv4 a b c d, v6Char x = true := by
  intro x hx
  rcases showIpv4_chars a b c d x hx with h | h
  · simp [v6Char, isLowerHex, h]
  · subst h; decide

theorem showIpv6Generic_v6Char (s : List UInt16) : ∀ b ∈ showIpv6Generic s, v6Char b = true := by
  intro b hb
  unfold showIpv6Generic at hb
  simp only [] at hb
  split at hb
  · simp only [showSegs_eq, List.mem_append] at hb
    rcases hb with (hb | hb) | hb
    · exact segText_v6Char _ b hb
    · have : b = 58 := by
        have : b ∈ [(58 : UInt8), 58] := hb
        simpa using this
      subst this; decide
    · exact segText_v6Char _ b hb
  · rw [showSegs_eq] at hb
    exact segText_v6Char _ b hb

theorem showIpv6_v6Char (s : List UInt16) : ∀ b ∈ showIpv6 s, v6Char b = true := by
  unfold showIpv6
  split
  · split
    · intro b hb
      simp only [List.mem_append] at hb
      rcases hb with hb | hb
      · have : b ∈ [(58 : UInt8), 58, 102, 102, 102, 102, 58] := hb
        simp only [List.mem_cons, List.mem_nil_iff, or_false] at this
        rcases this with h | h | h | h | h | h | h <;> (subst h; decide)
      · exact showIpv4_v6Char _ _ _ _ b hb
    · exact showIpv6Generic_v6Char _
  · exact showIpv6Generic_v6Char _

/-- the bracketed IPv6 text is a host text the authority scanner takes as a whole -/
theorem bracketed_hostText (s : List UInt16) : HostText (91 :: (showIpv6 s ++ [93])) where
  nonempty := by simp
  chars := by
    intro b hb
    simp only [List.mem_cons, List.mem_append, List.mem_nil_iff, or_false] at hb
    rcases hb with hb | hb | hb
    · subst hb; decide
    · have p := v6Char_props b (showIpv6_v6Char s b hb); exact ⟨p.1, p.2.1, p.2.2.1⟩
    · subst hb; decide
  span := fun rest => by
    have := hostSpan_bracketed rest (showIpv6 s) (fun b hb => let p := v6Char_props b (showIpv6_v6Char s b hb); ⟨p.2.2.2.1, p.2.2.2.2⟩)
    simpa using this

/-- `Host::parse` of the bracketed text `HttpClient::new` builds for an IPv6 address: that address -/
theorem parseHost_bracketed (idna : Bytes → Option Bytes) (s0 s1 s2 s3 s4 s5 s6 s7 : UInt16) :
    parseHost idna (91 :: (showIpv6 [s0, s1, s2, s3, s4, s5, s6, s7] ++ [93]))
      = .ok (.ipv6 [s0.toNat, s1.toNat, s2.toNat, s3.toNat, s4.toNat, s5.toNat, s6.toNat, s7.toNat]) := by
  simp only [parseHost]
  have hlast : (91 :: (showIpv6 [s0, s1, s2, s3, s4, s5, s6, s7] ++ [93])).getLast? = some 93 := by
    rw [show (91 :: (showIpv6 [s0, s1, s2, s3, s4, s5, s6, s7] ++ [93])) = (91 :: showIpv6 [s0, s1, s2, s3, s4, s5, s6, s7]) ++ [93] from rfl]
    exact List.getLast?_concat ..
  simp only [hlast, bne_self_eq_false, Bool.false_eq_true, if_false, List.dropLast_concat, parseIpv6_showIpv6]

/-- the `Host` header text of an IPv6 host (`[` + `write_ipv6` + `]`) denotes that address: parsed as a host it is the address again -/
theorem parseHost_writeIpv6 (idna : Bytes → Option Bytes) (s0 s1 s2 s3 s4 s5 s6 s7 : UInt16) :
    parseHost idna ((Host.ipv6 [s0.toNat, s1.toNat, s2.toNat, s3.toNat, s4.toNat, s5.toNat, s6.toNat, s7.toNat]).text)
      = .ok (.ipv6 [s0.toNat, s1.toNat, s2.toNat, s3.toNat, s4.toNat, s5.toNat, s6.toNat, s7.toNat]) := by
  have hw := writeIpv6_eq_generic [s0, s1, s2, s3, s4, s5, s6, s7] rfl
  simp only [List.map_cons, List.map_nil] at hw
  have ht : (Host.ipv6 [s0.toNat, s1.toNat, s2.toNat, s3.toNat, s4.toNat, s5.toNat, s6.toNat, s7.toNat]).text
      = (91 :: showIpv6Generic [s0, s1, s2, s3, s4, s5, s6, s7]) ++ [93] := by
    simp only [Host.text, hw]; rfl
  rw [ht]
  simp only [parseHost, List.cons_append]
  have hlast : (91 :: (showIpv6Generic [s0, s1, s2, s3, s4, s5, s6, s7] ++ [93])).getLast? = some 93 := by
    rw [show (91 :: (showIpv6Generic [s0, s1, s2, s3, s4, s5, s6, s7] ++ [93])) = (91 :: showIpv6Generic [s0, s1, s2, s3, s4, s5, s6, s7]) ++ [93] from rfl]
    exact List.getLast?_concat ..
  have := parseIpv6_generic [s0, s1, s2, s3, s4, s5, s6, s7] rfl
  simp only [List.map_cons, List.map_nil] at this
  simp only [hlast, bne_self_eq_false, Bool.false_eq_true, if_false, List.dropLast_concat, this]

end Gd.Http
