import GdVerif.Lemmas.Valve
import GdVerif.Spec.Quake
/-
  Text lemmas for the Quake family: UTF-8 validity of concatenations, the `%i` encoder against Rust's integer
  `FromStr`, splitting on a byte.
-/
namespace Gd.Quake
open Gd Gd.Quake.Spec

/-! ### UTF-8 -/

theorem validUtf8_append (a b : Bytes) (ha : validUtf8 a = true) (hb : validUtf8 b = true) :
    validUtf8 (a ++ b) = true := by
  fun_induction validUtf8 a
  · simpa using hb
  all_goals (simp only [List.cons_append]; unfold validUtf8; simp_all)

theorem validUtf8_ascii_byte (c : UInt8) (h : c.toNat < 128) : validUtf8 [c] = true := by
  unfold validUtf8
  simp [h, validUtf8]

theorem validUtf8_cons_ascii (c : UInt8) (s : Bytes) (h : c.toNat < 128) (hs : validUtf8 s = true) :
    validUtf8 (c :: s) = true := by
  unfold validUtf8
  simp [h, hs]

/-! ### `%i` against `str::parse` -/

theorem digit_toNat (k : Nat) (h : k < 10) : (digit k).toNat = 48 + k := by
  unfold digit
  simp only [UInt8.toNat_ofNat']
  omega

theorem isDigit_digit (k : Nat) (h : k < 10) : isDigit (digit k) = true := by
  simp only [isDigit, inRange, digit_toNat k h, Bool.and_eq_true, decide_eq_true_eq]
  omega

theorem digitsVal_concat (a : Bytes) (d : UInt8) : digitsVal (a ++ [d]) = digitsVal a * 10 + (d.toNat - 48) := by
  simp [digitsVal, List.foldl_append]

theorem decAux_all (f n : Nat) : (decAux f n).all isDigit = true := by
  induction f generalizing n with
  | zero => simp [decAux]
  | succ f ih =>
    unfold decAux
    split
    · rename_i h; simp [isDigit_digit n h]
    · simp [List.all_append, ih, isDigit_digit (n % 10) (Nat.mod_lt _ (by omega))]

theorem decAux_val (f n : Nat) (h : n < f) : digitsVal (decAux f n) = n := by
  induction f generalizing n with
  | zero => omega
  | succ f ih =>
    unfold decAux
    split
    · rename_i h10
      simp [digitsVal, digit_toNat n h10]
    · rw [digitsVal_concat, ih (n / 10) (by omega), digit_toNat (n % 10) (Nat.mod_lt _ (by omega))]
      omega

theorem decAux_ne_nil (f n : Nat) (h : 0 < f) : decAux f n ≠ [] := by
  cases f with
  | zero => omega
  | succ f =>
    unfold decAux
    split <;> simp

theorem dec_all (n : Nat) : (dec n).all isDigit = true := decAux_all _ _
theorem dec_val (n : Nat) : digitsVal (dec n) = n := decAux_val _ _ (Nat.lt_succ_self n)
theorem dec_ne_nil (n : Nat) : dec n ≠ [] := decAux_ne_nil _ _ (Nat.succ_pos n)

theorem dec_length_pos (n : Nat) : 0 < (dec n).length := List.length_pos_iff.mpr (dec_ne_nil n)

theorem isDigit_of_mem_dec {n : Nat} {b : UInt8} (h : b ∈ dec n) : isDigit b = true :=
  List.all_eq_true.mp (dec_all n) b h

/-- a byte that is not a digit does not occur in a `%i` of a natural number -/
theorem not_mem_dec (c : UInt8) (hc : isDigit c = false) (n : Nat) : c ∉ dec n := by
  intro h
  rw [isDigit_of_mem_dec h] at hc
  cases hc

theorem isDigit_bounds {b : UInt8} (h : isDigit b = true) : 48 ≤ b.toNat ∧ b.toNat ≤ 57 := by
  simpa [isDigit, inRange] using h

theorem validUtf8_digits (ds : Bytes) (h : ds.all isDigit = true) : validUtf8 ds = true := by
  apply Valve.validUtf8_ascii
  rw [List.all_eq_true] at h ⊢
  intro b hb
  have := isDigit_bounds (h b hb)
  simp only [Bool.and_eq_true, decide_eq_true_eq, bne_iff_ne, ne_eq]
  refine ⟨by omega, ?_⟩
  intro h0
  rw [h0] at this
  simp at this

theorem validUtf8_dec (n : Nat) : validUtf8 (dec n) = true := validUtf8_digits _ (dec_all n)

/-- Rust's `uN::from_str` on a non-empty string of decimal digits -/
theorem parseUnsigned_digits (bits : Nat) (ds : Bytes) (hne : ds ≠ []) (hall : ds.all isDigit = true)
    (hv : digitsVal ds < 2 ^ bits) : parseUnsigned bits ds = some (digitsVal ds) := by
  cases ds with
  | nil => exact absurd rfl hne
  | cons c r =>
    have hc : isDigit c = true := by
      simp only [List.all_cons, Bool.and_eq_true] at hall
      exact hall.1
    have hc43 : c ≠ 43 := by
      intro h
      rw [h] at hc
      revert hc
      decide
    have hsp : stripPlus (c :: r) = c :: r := by
      unfold stripPlus
      split
      · rename_i r' heq
        injection heq with h1 _
        exact absurd h1 hc43
      · rfl
    unfold parseUnsigned
    simp [hsp, hall, hv]

theorem parseUnsigned_dec (bits n : Nat) (h : n < 2 ^ bits) : parseUnsigned bits (dec n) = some n := by
  have := parseUnsigned_digits bits (dec n) (dec_ne_nil n) (dec_all n) (by rw [dec_val]; exact h)
  rwa [dec_val] at this

/-- Rust's `iN::from_str` -/
theorem parseSigned_decInt (i : Int) (hlo : -(2 ^ 31 : Int) ≤ i) (hhi : i < 2 ^ 31) :
    parseSigned 32 (decInt i) = some i := by
  unfold decInt
  split
  · rename_i hneg
    unfold parseSigned
    simp only [dec_all, dec_val, Bool.not_true, Bool.or_false]
    have hne : (dec (-i).toNat).isEmpty = false := by
      cases h : dec (-i).toNat with
      | nil => exact absurd h (dec_ne_nil _)
      | cons _ _ => rfl
    simp only [hne, Bool.false_eq_true, ↓reduceIte]
    have h1 : (-i).toNat ≤ 2 ^ (32 - 1) := by omega
    simp only [h1, ↓reduceIte]
    congr 1
    omega
  · rename_i hpos
    cases hd : dec i.toNat with
    | nil => exact absurd hd (dec_ne_nil _)
    | cons c r =>
      have hc : isDigit c = true := isDigit_of_mem_dec (n := i.toNat) (by rw [hd]; simp)
      have hc43 : c ≠ 43 := by
        intro h; rw [h] at hc; revert hc; decide
      have hc45 : c ≠ 45 := by
        intro h; rw [h] at hc; revert hc; decide
      have hall : (c :: r).all isDigit = true := by rw [← hd]; exact dec_all _
      have hval : digitsVal (c :: r) = i.toNat := by rw [← hd]; exact dec_val _
      unfold parseSigned
      split
      rename_i x neg r' heq
      split at heq
      · rename_i r2 hpat
        injection hpat with h1 _
        exact absurd h1 hc43
      · rename_i r2 hpat
        injection hpat with h1 _
        exact absurd h1 hc45
      · cases heq
        simp only [hall, hval, Bool.not_true, Bool.or_false, List.isEmpty_cons, Bool.false_eq_true, ↓reduceIte]
        have h1 : i.toNat < 2 ^ (32 - 1) := by omega
        simp only [h1, ↓reduceIte]
        congr 1
        omega

/-- the bytes of a `%i` of an integer are digits or the minus sign -/
theorem mem_decInt {i : Int} {b : UInt8} (h : b ∈ decInt i) : isDigit b = true ∨ b = 0x2D := by
  unfold decInt at h
  split at h
  · rcases List.mem_cons.mp h with h | h
    · exact Or.inr h
    · exact Or.inl (isDigit_of_mem_dec h)
  · exact Or.inl (isDigit_of_mem_dec h)

theorem not_mem_decInt (c : UInt8) (hc : isDigit c = false) (hm : c ≠ 0x2D) (i : Int) : c ∉ decInt i := by
  intro h
  rcases mem_decInt h with h | h
  · rw [h] at hc; cases hc
  · exact hm h

theorem decInt_ne_nil (i : Int) : decInt i ≠ [] := by
  unfold decInt
  split
  · simp
  · exact dec_ne_nil _

theorem validUtf8_decInt (i : Int) : validUtf8 (decInt i) = true := by
  unfold decInt
  split
  · exact validUtf8_cons_ascii _ _ (by decide) (validUtf8_dec _)
  · exact validUtf8_dec _

/-! ### splitting on a byte -/

theorem splitOn_none (d : UInt8) (s : Bytes) (h : d ∉ s) : splitOn d s = [s] := by
  induction s with
  | nil => rfl
  | cons b r ih =>
    simp only [List.mem_cons, not_or] at h
    have hb : (b == d) = false := by
      rw [beq_eq_false_iff_ne]
      exact fun e => h.1 e.symm
    simp [splitOn, hb, ih h.2]

theorem splitOn_sep (d : UInt8) (s rest : Bytes) (h : d ∉ s) : splitOn d (s ++ d :: rest) = s :: splitOn d rest := by
  induction s with
  | nil => simp [splitOn]
  | cons b r ih =>
    simp only [List.mem_cons, not_or] at h
    have hb : (b == d) = false := by
      rw [beq_eq_false_iff_ne]
      exact fun e => h.1 e.symm
    simp [splitOn, hb, ih h.2]

end Gd.Quake
