import GdVerif.Spec.Gs1
import GdVerif.Spec.Faults
/-
  SPEC for C10 on whole GameSpy 1 queries: the exchange of `Spec/Gs1.lean` with FAULTS injected.

  The retried unit is the WHOLE status exchange: the one request, then the receive loop over the parts of the reply
  (`get_server_values_impl`).  An attempt ends in a timeout-class failure when the request cannot be sent, or when it
  goes out and the server falls silent BEFORE THE REPLY IS COMPLETE: after none of the parts, or after some of them (any
  selection of the reply's datagrams, each at most once, in any order, as long as at least one is missing).  The next
  attempt sends the request again and starts from scratch.  A plan lists the failed attempts and how the unit ends: with
  the server's whole reply (parts in any order of arrival), with nothing (the client has given up), or with a malformed
  datagram arriving before the reply is complete.
-/
namespace Gd.Gs1.Spec
open Gd Gd.Gs Gd.Gs1 Gd.Faults

/-- the one request of the protocol (`Spec.requests`) -/
def request : Bytes := [92] ++ bs "status" ++ [92] ++ bs "xserverquery"

/-- one attempt that ends in a timeout-class failure -/
inductive Attempt
  /-- the request cannot be sent -/
  | noSend
  /-- the request goes out, the datagrams `got` arrive, then the server is silent -/
  | lost (got : List Bytes)
  deriving Repr, DecidableEq

def Attempt.sendFault : Attempt → Bool
  | .noSend => true
  | .lost _ => false

def Attempt.deliveries : Attempt → List Delivery
  | .noSend => []
  | .lost got => got.map .data ++ [.silence]

/-- one flag per send: each attempt sends the request once -/
def Attempt.faults (a : Attempt) : List Bool := [a.sendFault]

def Attempt.error (a : Attempt) : ErrKind := attemptError a.sendFault

def Attempt.sends (a : Attempt) : List (Bytes × Bool) := [(request, a.sendFault)]

inductive Ending
  /-- the server's reply arrives whole -/
  | valid
  /-- nothing more is scripted: every attempt failed -/
  | gaveUp
  /-- the datagrams `got` of the reply arrive, then `datagram`, which is not a GameSpy 1 packet -/
  | malformed (got : List Bytes) (datagram : Bytes)
  deriving Repr, DecidableEq

structure Plan where
  fails : List Attempt
  ending : Ending
  deriving Repr, DecidableEq

/-- `arrival`: the parts of the valid reply, as they arrive -/
def Ending.deliveries (arrival : List Bytes) : Ending → List Delivery
  | .valid => arrival.map .data
  | .gaveUp => []
  | .malformed got m => got.map .data ++ [.data m]

def Ending.faults : Ending → List Bool
  | .gaveUp => []
  | _ => [false]

def Ending.sends : Ending → List (Bytes × Bool)
  | .gaveUp => []
  | _ => [(request, false)]

/-- what the peer delivers under the plan -/
def faultyScript (plan : Plan) (arrival : List Bytes) : List Delivery :=
  plan.fails.flatMap Attempt.deliveries ++ plan.ending.deliveries arrival

/-- one flag per send of the query -/
def faultyFaults (plan : Plan) : List Bool :=
  plan.fails.flatMap Attempt.faults ++ plan.ending.faults

/-- every datagram the client sends, with its failed flag: the request, once per attempt -/
def faultySends (plan : Plan) : List (Bytes × Bool) :=
  plan.fails.flatMap Attempt.sends ++ plan.ending.sends

/-! `selects got pool` (`Spec/Faults.lean`): `got` are some of the datagrams `pool`, each taken at most once, in any order —
and NOT all of them -/

/-- a failed attempt: what arrived before the silence is an incomplete selection of the reply's parts -/
def Attempt.wf (reply : List Bytes) : Attempt → Bool
  | .noSend => true
  | .lost got => selects got reply

/-- the text of a datagram: what precedes the first NUL -/
def textOf (m : Bytes) : Bytes := m.takeWhile (· != 0)

/-- a datagram that is not a GameSpy 1 packet: its text is empty (there is no leading backslash) or is not UTF-8 -/
def malformed (m : Bytes) : Bool := (textOf m).isEmpty || !validUtf8 (textOf m)

/-- C10's domain for a retry count and the reply `reply` (the datagrams of the valid exchange) -/
def wfPlan (retries : Nat) (reply : List Bytes) (plan : Plan) : Bool :=
  plan.fails.all (Attempt.wf reply) &&
  (match plan.ending with
   | .valid => plan.fails.length ≤ retries
   | .gaveUp => plan.fails.length == retries + 1
   | .malformed got m => plan.fails.length ≤ retries && selects got reply && malformed m && m.length ≤ 2048)

/-- the outcome C10 prescribes: the fault-free value `good` after at most `retries` failures, the last failure's error
after `retries + 1`, `PacketBad` for the malformed datagram at once -/
def outcome {α : Type} (good : α) (plan : Plan) : Res α :=
  match plan.ending with
  | .valid => .ok good
  | .gaveUp => .err (lastError Attempt.error plan.fails)
  | .malformed _ _ => .err .packetBad

def faultyExpected (st : State) (plan : Plan) : Res Response := outcome (expected st) plan

def faultyVars (y : Style) (st : State) (plan : Plan) : Res (Map Bytes) := outcome (expectedVars y st) plan

def Plan.attempts (p : Plan) : Nat := p.fails.length + (match p.ending with | .gaveUp => 0 | _ => 1)

end Gd.Gs1.Spec
